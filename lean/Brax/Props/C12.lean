import Brax.Model.C12
import Mathlib.Tactic.Ring
import Mathlib.Tactic.FieldSimp
import Mathlib.Tactic.Linarith
import Mathlib.Tactic.Positivity
import Mathlib.Analysis.SpecialFunctions.Sqrt
import Mathlib.LinearAlgebra.SesquilinearForm.Basic
/-!
# C12 — generalized integrator: conserved quantities drift only O(dt)

**What is proved** (for every mass, stiffness, step size, initial state and *every horizon* `n`):
for the one-dof spring family (`Model/C12.lean`, tied to the real `generalized.pipeline.step` by
whole-trajectory correspondence) the semi-implicit Euler step of the pipeline conserves the
modified energy `½mv² + ½kq² − ½dt·k·q·v` **exactly**; hence the mechanical energy differs from
its initial value by `½dt·k·(q_n v_n − q_0 v_0)` and `|E_n − E_0| ≤ 2·dt·√(k/m)·Ẽ_0` whenever
`dt²k ≤ m` — drift `O(dt)` uniformly in `n`, halving with `dt`.

**n-dof generalisation** (`lin_*` theorems): for every vector space `V`, symmetric mass form `m`,
symmetric stiffness form `k` and `A = M⁻¹K`, the same step (`linStep`, tied to the real pipeline on
slide-only trees — constant coupled mass matrix — by whole-trajectory correspondence) conserves
`vᵀMv + qᵀKq − dt·qᵀKv` exactly, and `|2E_n − 2E_0| ≤ 2·dt·√λ·(2Ẽ_0)` when `k ≤ λ·m`, `dt√λ ≤ 1`
(Cauchy–Schwarz for positive semidefinite forms), uniformly in the horizon.

**What is not proved** (`drift_first_order_Stmt`, kept as a comment): first-order convergence of
the drift for an arbitrary articulated model (needs the Lagrangian identity between `M(q)` and the
RNE bias).  That clause is observed by the search only (dt, dt/2, dt/4 on conservative generator
models) and the evidence says so.
-/
namespace Brax.C12

section Field
variable {K : Type} [Field K]

/-- the undamped step conserves the modified energy exactly -/
theorem modEnergy_step (m k dt : K) (hm : m ≠ 0) (s : K × K) :
    modEnergy2 m k dt (oscStep m k 0 dt s) = modEnergy2 m k dt s := by
  obtain ⟨q, v⟩ := s
  simp only [modEnergy2, oscStep, mul_zero, add_zero, zero_mul, sub_zero]
  field_simp
  ring

/-- … along every trajectory, for every horizon -/
theorem modEnergy_iter (m k dt : K) (hm : m ≠ 0) (n : Nat) (s : K × K) :
    modEnergy2 m k dt (oscIter m k 0 dt n s) = modEnergy2 m k dt s := by
  induction n generalizing s with
  | zero => rfl
  | succ n ih => simp only [oscIter]; rw [ih, modEnergy_step m k dt hm]

/-- exact drift of the mechanical energy: `2E_n − 2E_0 = dt·k·(q_n v_n − q_0 v_0)` -/
theorem energy_drift_exact (m k dt : K) (hm : m ≠ 0) (n : Nat) (s : K × K) :
    energy2 m k (oscIter m k 0 dt n s) - energy2 m k s
      = dt * k * ((oscIter m k 0 dt n s).1 * (oscIter m k 0 dt n s).2 - s.1 * s.2) := by
  have h := modEnergy_iter m k dt hm n s
  simp only [modEnergy2] at h
  simp only [energy2]
  linear_combination h

/-- velocities first, then positions from the NEW velocity (semi-implicit Euler) -/
theorem step_semi_implicit (m k d dt : K) (s : K × K) :
    (oscStep m k d dt s).1 = s.1 + dt * (oscStep m k d dt s).2 := rfl

/-- implicit joint damping: `(m + dt·d)(v' − v) = dt·(−k q − d v)` -/
theorem step_implicit_damping (m k d dt : K) (h : m + dt * d ≠ 0) (s : K × K) :
    (m + dt * d) * ((oscStep m k d dt s).2 - s.2) = dt * (-(k * s.1) - d * s.2) := by
  simp only [oscStep]
  field_simp
  ring

end Field

section Real

/-- `|q v|`-type cross term is dominated by the energy: `(dt k q v)² ≤ dt² (k/m) E²` with
`2E = m v² + k q²` -/
theorem cross_le (m k dt q v : ℝ) (hm : 0 < m) (hk : 0 ≤ k) :
    (dt * k * (q * v)) ^ 2 ≤ dt ^ 2 * (k / m) * ((m * (v * v) + k * (q * q)) / 2) ^ 2 := by
  have h1 : (dt * k * (q * v)) ^ 2 = dt ^ 2 * (k / m) * ((k * (q * q)) * (m * (v * v))) := by
    field_simp
  rw [h1]
  have h2 : (k * (q * q)) * (m * (v * v)) ≤ ((m * (v * v) + k * (q * q)) / 2) ^ 2 := by
    nlinarith [sq_nonneg (m * (v * v) - k * (q * q))]
  have h3 : 0 ≤ dt ^ 2 * (k / m) := by positivity
  exact mul_le_mul_of_nonneg_left h2 h3

/-- the modified energy controls the energy when `dt² k ≤ m`: `E ≤ 2 Ẽ` -/
theorem energy_le_two_mod (m k dt : ℝ) (hk : 0 ≤ k) (hdt : dt ^ 2 * k ≤ m) (s : ℝ × ℝ) :
    energy2 m k s ≤ 2 * modEnergy2 m k dt s := by
  obtain ⟨q, v⟩ := s
  simp only [energy2, modEnergy2]
  -- 2·dt·k·q·v ≤ k q² + dt² k v² ≤ k q² + m v²
  have h1 : 0 ≤ k * (q - dt * v) ^ 2 := by positivity
  nlinarith [mul_nonneg (sq_nonneg v) (sub_nonneg.mpr hdt)]

/-- **C12 for the spring family**: for every horizon `n`, the mechanical energy drifts from its
initial value by at most `2·dt·√(k/m)·(2Ẽ_0)/2`; in terms of the doubled energies used here:
`|2E_n − 2E_0| ≤ 2·dt·√(k/m)·(2Ẽ_0)`.  Uniform in `n`, linear in `dt`. -/
theorem energy_drift_bound (m k dt : ℝ) (hm : 0 < m) (hk : 0 ≤ k) (hdt : dt ^ 2 * k ≤ m)
    (hdt0 : 0 ≤ dt) (n : Nat) (s : ℝ × ℝ) :
    |energy2 m k (oscIter m k 0 dt n s) - energy2 m k s|
      ≤ 2 * dt * Real.sqrt (k / m) * modEnergy2 m k dt s := by
  have hm' : m ≠ 0 := ne_of_gt hm
  set sn := oscIter m k 0 dt n s with hsn
  have hmod : modEnergy2 m k dt sn = modEnergy2 m k dt s := modEnergy_iter m k dt hm' n s
  rw [energy_drift_exact m k dt hm' n s]
  -- each cross term is bounded by dt·√(k/m)·E ≤ dt·√(k/m)·2Ẽ/… via `cross_le`
  have hkm : 0 ≤ k / m := div_nonneg hk (le_of_lt hm)
  have bound : ∀ t : ℝ × ℝ, |dt * k * (t.1 * t.2)| ≤ dt * Real.sqrt (k / m) * (energy2 m k t / 2) := by
    intro t
    have hE : 0 ≤ energy2 m k t := by
      simp only [energy2]
      exact add_nonneg (mul_nonneg hm.le (mul_self_nonneg _)) (mul_nonneg hk (mul_self_nonneg _))
    have hc := cross_le m k dt t.1 t.2 hm hk
    have hrhs : 0 ≤ dt * Real.sqrt (k / m) * (energy2 m k t / 2) := by positivity
    rw [← Real.sqrt_sq hrhs, ← Real.sqrt_sq_eq_abs]
    apply Real.sqrt_le_sqrt
    have : (dt * Real.sqrt (k / m) * (energy2 m k t / 2)) ^ 2
        = dt ^ 2 * (k / m) * ((m * (t.2 * t.2) + k * (t.1 * t.1)) / 2) ^ 2 := by
      simp only [energy2]
      rw [mul_pow, mul_pow, Real.sq_sqrt hkm]
    rw [this]; exact hc
  have h1 := bound sn
  have h2 := bound s
  have e1 := energy_le_two_mod m k dt hk hdt sn
  have e2 := energy_le_two_mod m k dt hk hdt s
  rw [hmod] at e1
  have hcoef : 0 ≤ dt * Real.sqrt (k / m) := by positivity
  have : dt * k * (sn.1 * sn.2 - s.1 * s.2) = dt * k * (sn.1 * sn.2) - dt * k * (s.1 * s.2) := by ring
  rw [this]
  calc |dt * k * (sn.1 * sn.2) - dt * k * (s.1 * s.2)|
      ≤ |dt * k * (sn.1 * sn.2)| + |dt * k * (s.1 * s.2)| := abs_sub _ _
    _ ≤ dt * Real.sqrt (k / m) * (energy2 m k sn / 2) + dt * Real.sqrt (k / m) * (energy2 m k s / 2) :=
        add_le_add h1 h2
    _ ≤ 2 * dt * Real.sqrt (k / m) * modEnergy2 m k dt s := by nlinarith [hcoef, e1, e2]

/-- non-vacuity: m = 1, k = 4, dt = 1/10 satisfies the hypotheses, and one step really moves -/
example : (0 : ℝ) < 1 ∧ (0 : ℝ) ≤ 4 ∧ ((1 / 10 : ℝ)) ^ 2 * 4 ≤ 1 := by norm_num
example : oscStep (1 : ℚ) 4 0 (1 / 10) (1, 0) = (24 / 25, -2 / 5) := by
  simp only [oscStep]; norm_num

end Real

/-! ## n-dof: constant mass matrix and linear springs (every tree of slide joints with joint stiffness) -/
section Lin
variable {K : Type} [Field K] {V : Type} [AddCommGroup V] [Module K V]

/-- twice the mechanical energy `vᵀMv + qᵀKq` -/
def linEnergy2 (m k : LinearMap.BilinForm K V) (s : V × V) : K := m s.2 s.2 + k s.1 s.1
/-- twice the modified energy `vᵀMv + qᵀKq − dt·qᵀKv` -/
def linModEnergy2 (m k : LinearMap.BilinForm K V) (dt : K) (s : V × V) : K :=
  m s.2 s.2 + k s.1 s.1 - dt * k s.1 s.2

/-- **the semi-implicit Euler step of the pipeline conserves the modified energy exactly**, for every
dimension, every symmetric mass form `m`, symmetric stiffness form `k` and `A = M⁻¹K` (`m (A x) y = k x y`) -/
theorem lin_modEnergy_step (m k : LinearMap.BilinForm K V) (hm : ∀ x y, m x y = m y x)
    (hk : ∀ x y, k x y = k y x) (A : V → V) (hA : ∀ x y, m (A x) y = k x y) (dt : K) (s : V × V) :
    linModEnergy2 m k dt (linStep A dt s) = linModEnergy2 m k dt s := by
  obtain ⟨q, v⟩ := s
  simp only [linModEnergy2, linStep, map_add, map_smul, map_neg, LinearMap.add_apply, LinearMap.smul_apply,
    LinearMap.neg_apply, smul_eq_mul]
  rw [hm v (A q), hA q v, hA q (A q), hk v q, hk (A q) q, hk (A q) v, hk v (A q)]
  ring

theorem lin_modEnergy_iter (m k : LinearMap.BilinForm K V) (hm : ∀ x y, m x y = m y x)
    (hk : ∀ x y, k x y = k y x) (A : V → V) (hA : ∀ x y, m (A x) y = k x y) (dt : K) (n : Nat) (s : V × V) :
    linModEnergy2 m k dt (linIter A dt n s) = linModEnergy2 m k dt s := by
  induction n generalizing s with
  | zero => rfl
  | succ n ih => simp only [linIter]; rw [ih, lin_modEnergy_step m k hm hk A hA]

/-- exact drift of the mechanical energy after any number of steps -/
theorem lin_energy_drift_exact (m k : LinearMap.BilinForm K V) (hm : ∀ x y, m x y = m y x)
    (hk : ∀ x y, k x y = k y x) (A : V → V) (hA : ∀ x y, m (A x) y = k x y) (dt : K) (n : Nat) (s : V × V) :
    linEnergy2 m k (linIter A dt n s) - linEnergy2 m k s
      = dt * (k (linIter A dt n s).1 (linIter A dt n s).2 - k s.1 s.2) := by
  have h := lin_modEnergy_iter m k hm hk A hA dt n s
  simp only [linModEnergy2] at h
  simp only [linEnergy2]
  linear_combination h

end Lin

section LinReal
variable {V : Type} [AddCommGroup V] [Module ℝ V]

/-- the cross term is dominated by the energy: `|dt·k(q,v)| ≤ dt·√λ·E` when `k ≤ λ·m` -/
theorem lin_cross_le (m k : LinearMap.BilinForm ℝ V) (hk : ∀ x y, k x y = k y x)
    (hmp : ∀ x, 0 ≤ m x x) (hkp : ∀ x, 0 ≤ k x x) (lam : ℝ) (hlam : 0 ≤ lam) (hkm : ∀ x, k x x ≤ lam * m x x)
    (dt : ℝ) (hdt : 0 ≤ dt) (s : V × V) :
    |dt * k s.1 s.2| ≤ dt * Real.sqrt lam * (linEnergy2 m k s / 2) := by
  have hsymm : k.IsSymm := ⟨fun x y => by simpa using hk x y⟩
  have hcs := LinearMap.BilinForm.apply_sq_le_of_symm k hkp hsymm s.1 s.2
  have hE : 0 ≤ linEnergy2 m k s := add_nonneg (hmp _) (hkp _)
  have hrhs : 0 ≤ dt * Real.sqrt lam * (linEnergy2 m k s / 2) := by positivity
  rw [← Real.sqrt_sq hrhs, ← Real.sqrt_sq_eq_abs]
  apply Real.sqrt_le_sqrt
  have hsq : (dt * Real.sqrt lam * (linEnergy2 m k s / 2)) ^ 2
      = dt ^ 2 * lam * ((m s.2 s.2 + k s.1 s.1) / 2) ^ 2 := by
    simp only [linEnergy2]
    rw [mul_pow, mul_pow, Real.sq_sqrt hlam]
  rw [hsq]
  -- (k q v)² ≤ k q q · k v v ≤ k q q · λ m v v ≤ λ ((k q q + m v v)/2)²
  have h1 : (k s.1 s.2) ^ 2 ≤ k s.1 s.1 * (lam * m s.2 s.2) :=
    le_trans hcs (mul_le_mul_of_nonneg_left (hkm s.2) (hkp s.1))
  have h2 : k s.1 s.1 * (lam * m s.2 s.2) ≤ lam * ((m s.2 s.2 + k s.1 s.1) / 2) ^ 2 := by
    have : k s.1 s.1 * m s.2 s.2 ≤ ((m s.2 s.2 + k s.1 s.1) / 2) ^ 2 := by
      nlinarith [sq_nonneg (m s.2 s.2 - k s.1 s.1)]
    nlinarith [this]
  have hdt2 : 0 ≤ dt ^ 2 := by positivity
  calc (dt * k s.1 s.2) ^ 2 = dt ^ 2 * (k s.1 s.2) ^ 2 := by ring
    _ ≤ dt ^ 2 * (lam * ((m s.2 s.2 + k s.1 s.1) / 2) ^ 2) :=
        mul_le_mul_of_nonneg_left (le_trans h1 h2) hdt2
    _ = dt ^ 2 * lam * ((m s.2 s.2 + k s.1 s.1) / 2) ^ 2 := by ring

/-- **C12 for every constant-mass-matrix system with linear springs** (any number of dofs): for every
horizon `n`, `|2E_n − 2E_0| ≤ 2·dt·√λ·(2Ẽ_0)` where `λ` bounds the stiffness against the mass
(`k ≤ λ·m`, i.e. `λ` ≥ the largest squared natural frequency) and `dt·√λ ≤ 1`.  Uniform in `n`, linear
in `dt`. -/
theorem lin_energy_drift_bound (m k : LinearMap.BilinForm ℝ V) (hm : ∀ x y, m x y = m y x)
    (hk : ∀ x y, k x y = k y x) (hmp : ∀ x, 0 ≤ m x x) (hkp : ∀ x, 0 ≤ k x x)
    (A : V → V) (hA : ∀ x y, m (A x) y = k x y)
    (lam : ℝ) (hlam : 0 ≤ lam) (hkm : ∀ x, k x x ≤ lam * m x x)
    (dt : ℝ) (hdt : 0 ≤ dt) (hstep : dt * Real.sqrt lam ≤ 1) (n : Nat) (s : V × V) :
    |linEnergy2 m k (linIter A dt n s) - linEnergy2 m k s|
      ≤ 2 * dt * Real.sqrt lam * linModEnergy2 m k dt s := by
  set sn := linIter A dt n s with hsn
  have hmod : linModEnergy2 m k dt sn = linModEnergy2 m k dt s := lin_modEnergy_iter m k hm hk A hA dt n s
  rw [lin_energy_drift_exact m k hm hk A hA dt n s]
  have b1 := lin_cross_le m k hk hmp hkp lam hlam hkm dt hdt sn
  have b2 := lin_cross_le m k hk hmp hkp lam hlam hkm dt hdt s
  have hcoef : 0 ≤ dt * Real.sqrt lam := by positivity
  -- E ≤ 2 Ẽ for both states
  have eb : ∀ t : V × V, linEnergy2 m k t ≤ 2 * linModEnergy2 m k dt t := by
    intro t
    have hb := lin_cross_le m k hk hmp hkp lam hlam hkm dt hdt t
    have hE : 0 ≤ linEnergy2 m k t := add_nonneg (hmp _) (hkp _)
    have habs := abs_le.mp hb
    have hmodeq : linModEnergy2 m k dt t = linEnergy2 m k t - dt * k t.1 t.2 := by
      simp only [linModEnergy2, linEnergy2]
    rw [hmodeq]
    nlinarith [habs.2, hE, hcoef, hstep]
  have e1 := eb sn
  have e2 := eb s
  rw [hmod] at e1
  have hsplit : dt * (k sn.1 sn.2 - k s.1 s.2) = dt * k sn.1 sn.2 - dt * k s.1 s.2 := by ring
  rw [hsplit]
  calc |dt * k sn.1 sn.2 - dt * k s.1 s.2|
      ≤ |dt * k sn.1 sn.2| + |dt * k s.1 s.2| := abs_sub _ _
    _ ≤ dt * Real.sqrt lam * (linEnergy2 m k sn / 2) + dt * Real.sqrt lam * (linEnergy2 m k s / 2) :=
        add_le_add b1 b2
    _ ≤ 2 * dt * Real.sqrt lam * linModEnergy2 m k dt s := by nlinarith [hcoef, e1, e2]

/-- non-vacuity (2 dofs, coupled mass matrix `[[2,1],[1,2]]`, stiffness `diag(3,5)`, `A = M⁻¹K`): the
hypotheses of the conservation theorem hold and a step really moves -/
noncomputable def exM : LinearMap.BilinForm ℝ (ℝ × ℝ) :=
  LinearMap.mk₂ ℝ (fun x y => 2 * x.1 * y.1 + x.1 * y.2 + x.2 * y.1 + 2 * x.2 * y.2)
    (by intros; simp; ring) (by intros; simp; ring) (by intros; simp; ring) (by intros; simp; ring)
noncomputable def exK : LinearMap.BilinForm ℝ (ℝ × ℝ) :=
  LinearMap.mk₂ ℝ (fun x y => 3 * x.1 * y.1 + 5 * x.2 * y.2)
    (by intros; simp; ring) (by intros; simp; ring) (by intros; simp; ring) (by intros; simp; ring)
noncomputable def exA (x : ℝ × ℝ) : ℝ × ℝ := (2 * x.1 - 5 / 3 * x.2, -x.1 + 10 / 3 * x.2)

example : (∀ x y, exM x y = exM y x) ∧ (∀ x y, exK x y = exK y x) ∧ (∀ x y, exM (exA x) y = exK x y)
    ∧ (∀ x, 0 ≤ exM x x) ∧ (∀ x, 0 ≤ exK x x) ∧ (∀ x, exK x x ≤ 5 * exM x x) := by
  refine ⟨?_, ?_, ?_, ?_, ?_, ?_⟩ <;> intros <;> simp only [exM, exK, exA, LinearMap.mk₂_apply]
  · ring
  · ring
  · ring
  · rename_i x; nlinarith [sq_nonneg (x.1 + x.2), sq_nonneg x.1, sq_nonneg x.2]
  · rename_i x; nlinarith [sq_nonneg x.1, sq_nonneg x.2]
  · rename_i x; nlinarith [sq_nonneg (x.1 + x.2), sq_nonneg x.1, sq_nonneg x.2]

example : linStep exA (1 / 10 : ℝ) ((1, 0), (0, 0)) = ((49 / 50, 1 / 100), (-1 / 5, 1 / 10)) := by
  simp only [linStep, exA]; ext <;> simp <;> norm_num

end LinReal

/-! Full statement not proved (kept visible):

def drift_first_order_Stmt : Prop :=
  ∀ (sys : conservative generator model) (state) (horizon),
    ∃ C, ∀ dt small, |E(step_dt^(horizon/dt) state) − E state| ≤ C · dt
-/

end Brax.C12
