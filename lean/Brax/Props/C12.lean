import Brax.Model.C12
import Brax.Lemmas.C12Mom
import Mathlib.Tactic.Ring
import Mathlib.Tactic.FieldSimp
import Mathlib.Tactic.Linarith
import Mathlib.Tactic.Positivity
import Mathlib.Analysis.SpecialFunctions.Sqrt
import Mathlib.LinearAlgebra.SesquilinearForm.Basic
/-!
# C12 — generalized integrator: conserved quantities drift only O(dt)

**What is proved** (for every mass, stiffness, step size, initial state and *every horizon* `n`):
for the one-dof spring family (`Model/C12.lean`, tied to the real `generalized.pipeline.step` by
whole-trajectory correspondence) the semi-implicit Euler step of the pipeline conserves the
modified energy `½mv² + ½kq² − ½dt·k·q·v` **exactly**; hence the mechanical energy differs from
its initial value by `½dt·k·(q_n v_n − q_0 v_0)` and `|E_n − E_0| ≤ 2·dt·√(k/m)·Ẽ_0` whenever
`dt²k ≤ m` — drift `O(dt)` uniformly in `n`, halving with `dt`.

**n-dof generalisation** (`lin_*` theorems): for every vector space `V`, symmetric mass form `m`,
symmetric stiffness form `k` and `A = M⁻¹K`, the same step (`linStep`, tied to the real pipeline on
slide-only trees — constant coupled mass matrix — by whole-trajectory correspondence) conserves
`vᵀMv + qᵀKq − dt·qᵀKv` exactly, and `|2E_n − 2E_0| ≤ 2·dt·√λ·(2Ẽ_0)` when `k ≤ λ·m`, `dt√λ ≤ 1`
(Cauchy–Schwarz for positive semidefinite forms), uniformly in the horizon.

**What is not proved** (`drift_first_order_Stmt`, kept as a comment): first-order convergence of
the drift for an arbitrary articulated model (needs the Lagrangian identity between `M(q)` and the
RNE bias).  That clause is observed by the search only (dt, dt/2, dt/4 on conservative generator
models) and the evidence says so.
-/
namespace Brax.C12

section Field
variable {K : Type} [Field K]

/-- the undamped step conserves the modified energy exactly -/
theorem modEnergy_step (m k dt : K) (hm : m ≠ 0) (s : K × K) :
    modEnergy2 m k dt (oscStep m k 0 dt s) = modEnergy2 m k dt s := by
  obtain ⟨q, v⟩ := s
  simp only [modEnergy2, oscStep, mul_zero, add_zero, zero_mul, sub_zero]
  field_simp
  ring

/-- … along every trajectory, for every horizon -/
theorem modEnergy_iter (m k dt : K) (hm : m ≠ 0) (n : Nat) (s : K × K) :
    modEnergy2 m k dt (oscIter m k 0 dt n s) = modEnergy2 m k dt s := by
  induction n generalizing s with
  | zero => rfl
  | succ n ih => simp only [oscIter]; rw [ih, modEnergy_step m k dt hm]

/-- exact drift of the mechanical energy: `2E_n − 2E_0 = dt·k·(q_n v_n − q_0 v_0)` -/
theorem energy_drift_exact (m k dt : K) (hm : m ≠ 0) (n : Nat) (s : K × K) :
    energy2 m k (oscIter m k 0 dt n s) - energy2 m k s
      = dt * k * ((oscIter m k 0 dt n s).1 * (oscIter m k 0 dt n s).2 - s.1 * s.2) := by
  have h := modEnergy_iter m k dt hm n s
  simp only [modEnergy2] at h
  simp only [energy2]
  linear_combination h

/-- velocities first, then positions from the NEW velocity (semi-implicit Euler) -/
theorem step_semi_implicit (m k d dt : K) (s : K × K) :
    (oscStep m k d dt s).1 = s.1 + dt * (oscStep m k d dt s).2 := rfl

/-- implicit joint damping: `(m + dt·d)(v' − v) = dt·(−k q − d v)` -/
theorem step_implicit_damping (m k d dt : K) (h : m + dt * d ≠ 0) (s : K × K) :
    (m + dt * d) * ((oscStep m k d dt s).2 - s.2) = dt * (-(k * s.1) - d * s.2) := by
  simp only [oscStep]
  field_simp
  ring

end Field

section Real

/-- `|q v|`-type cross term is dominated by the energy: `(dt k q v)² ≤ dt² (k/m) E²` with
`2E = m v² + k q²` -/
theorem cross_le (m k dt q v : ℝ) (hm : 0 < m) (hk : 0 ≤ k) :
    (dt * k * (q * v)) ^ 2 ≤ dt ^ 2 * (k / m) * ((m * (v * v) + k * (q * q)) / 2) ^ 2 := by
  have h1 : (dt * k * (q * v)) ^ 2 = dt ^ 2 * (k / m) * ((k * (q * q)) * (m * (v * v))) := by
    field_simp
  rw [h1]
  have h2 : (k * (q * q)) * (m * (v * v)) ≤ ((m * (v * v) + k * (q * q)) / 2) ^ 2 := by
    nlinarith [sq_nonneg (m * (v * v) - k * (q * q))]
  have h3 : 0 ≤ dt ^ 2 * (k / m) := by positivity
  exact mul_le_mul_of_nonneg_left h2 h3

/-- the modified energy controls the energy when `dt² k ≤ m`: `E ≤ 2 Ẽ` -/
theorem energy_le_two_mod (m k dt : ℝ) (hk : 0 ≤ k) (hdt : dt ^ 2 * k ≤ m) (s : ℝ × ℝ) :
    energy2 m k s ≤ 2 * modEnergy2 m k dt s := by
  obtain ⟨q, v⟩ := s
  simp only [energy2, modEnergy2]
  -- 2·dt·k·q·v ≤ k q² + dt² k v² ≤ k q² + m v²
  have h1 : 0 ≤ k * (q - dt * v) ^ 2 := by positivity
  nlinarith [mul_nonneg (sq_nonneg v) (sub_nonneg.mpr hdt)]

/-- **C12 for the spring family**: for every horizon `n`, the mechanical energy drifts from its
initial value by at most `2·dt·√(k/m)·(2Ẽ_0)/2`; in terms of the doubled energies used here:
`|2E_n − 2E_0| ≤ 2·dt·√(k/m)·(2Ẽ_0)`.  Uniform in `n`, linear in `dt`. -/
theorem energy_drift_bound (m k dt : ℝ) (hm : 0 < m) (hk : 0 ≤ k) (hdt : dt ^ 2 * k ≤ m)
    (hdt0 : 0 ≤ dt) (n : Nat) (s : ℝ × ℝ) :
    |energy2 m k (oscIter m k 0 dt n s) - energy2 m k s|
      ≤ 2 * dt * Real.sqrt (k / m) * modEnergy2 m k dt s := by
  have hm' : m ≠ 0 := ne_of_gt hm
  set sn := oscIter m k 0 dt n s with hsn
  have hmod : modEnergy2 m k dt sn = modEnergy2 m k dt s := modEnergy_iter m k dt hm' n s
  rw [energy_drift_exact m k dt hm' n s]
  -- each cross term is bounded by dt·√(k/m)·E ≤ dt·√(k/m)·2Ẽ/… via `cross_le`
  have hkm : 0 ≤ k / m := div_nonneg hk (le_of_lt hm)
  have bound : ∀ t : ℝ × ℝ, |dt * k * (t.1 * t.2)| ≤ dt * Real.sqrt (k / m) * (energy2 m k t / 2) := by
    intro t
    have hE : 0 ≤ energy2 m k t := by
      simp only [energy2]
      exact add_nonneg (mul_nonneg hm.le (mul_self_nonneg _)) (mul_nonneg hk (mul_self_nonneg _))
    have hc := cross_le m k dt t.1 t.2 hm hk
    have hrhs : 0 ≤ dt * Real.sqrt (k / m) * (energy2 m k t / 2) := by positivity
    rw [← Real.sqrt_sq hrhs, ← Real.sqrt_sq_eq_abs]
    apply Real.sqrt_le_sqrt
    have : (dt * Real.sqrt (k / m) * (energy2 m k t / 2)) ^ 2
        = dt ^ 2 * (k / m) * ((m * (t.2 * t.2) + k * (t.1 * t.1)) / 2) ^ 2 := by
      simp only [energy2]
      rw [mul_pow, mul_pow, Real.sq_sqrt hkm]
    rw [this]; exact hc
  have h1 := bound sn
  have h2 := bound s
  have e1 := energy_le_two_mod m k dt hk hdt sn
  have e2 := energy_le_two_mod m k dt hk hdt s
  rw [hmod] at e1
  have hcoef : 0 ≤ dt * Real.sqrt (k / m) := by positivity
  have : dt * k * (sn.1 * sn.2 - s.1 * s.2) = dt * k * (sn.1 * sn.2) - dt * k * (s.1 * s.2) := by ring
  rw [this]
  calc |dt * k * (sn.1 * sn.2) - dt * k * (s.1 * s.2)|
      ≤ |dt * k * (sn.1 * sn.2)| + |dt * k * (s.1 * s.2)| := abs_sub _ _
    _ ≤ dt * Real.sqrt (k / m) * (energy2 m k sn / 2) + dt * Real.sqrt (k / m) * (energy2 m k s / 2) :=
        add_le_add h1 h2
    _ ≤ 2 * dt * Real.sqrt (k / m) * modEnergy2 m k dt s := by nlinarith [hcoef, e1, e2]

/-- non-vacuity: m = 1, k = 4, dt = 1/10 satisfies the hypotheses, and one step really moves -/
example : (0 : ℝ) < 1 ∧ (0 : ℝ) ≤ 4 ∧ ((1 / 10 : ℝ)) ^ 2 * 4 ≤ 1 := by norm_num
example : oscStep (1 : ℚ) 4 0 (1 / 10) (1, 0) = (24 / 25, -2 / 5) := by
  simp only [oscStep]; norm_num

end Real

/-! ## n-dof: constant mass matrix and linear springs (every tree of slide joints with joint stiffness) -/
section Lin
variable {K : Type} [Field K] {V : Type} [AddCommGroup V] [Module K V]

/-- twice the mechanical energy `vᵀMv + qᵀKq` -/
def linEnergy2 (m k : LinearMap.BilinForm K V) (s : V × V) : K := m s.2 s.2 + k s.1 s.1
/-- twice the modified energy `vᵀMv + qᵀKq − dt·qᵀKv` -/
def linModEnergy2 (m k : LinearMap.BilinForm K V) (dt : K) (s : V × V) : K :=
  m s.2 s.2 + k s.1 s.1 - dt * k s.1 s.2

/-- **the semi-implicit Euler step of the pipeline conserves the modified energy exactly**, for every
dimension, every symmetric mass form `m`, symmetric stiffness form `k` and `A = M⁻¹K` (`m (A x) y = k x y`) -/
theorem lin_modEnergy_step (m k : LinearMap.BilinForm K V) (hm : ∀ x y, m x y = m y x)
    (hk : ∀ x y, k x y = k y x) (A : V → V) (hA : ∀ x y, m (A x) y = k x y) (dt : K) (s : V × V) :
    linModEnergy2 m k dt (linStep A dt s) = linModEnergy2 m k dt s := by
  obtain ⟨q, v⟩ := s
  simp only [linModEnergy2, linStep, map_add, map_smul, map_neg, LinearMap.add_apply, LinearMap.smul_apply,
    LinearMap.neg_apply, smul_eq_mul]
  rw [hm v (A q), hA q v, hA q (A q), hk v q, hk (A q) q, hk (A q) v, hk v (A q)]
  ring

theorem lin_modEnergy_iter (m k : LinearMap.BilinForm K V) (hm : ∀ x y, m x y = m y x)
    (hk : ∀ x y, k x y = k y x) (A : V → V) (hA : ∀ x y, m (A x) y = k x y) (dt : K) (n : Nat) (s : V × V) :
    linModEnergy2 m k dt (linIter A dt n s) = linModEnergy2 m k dt s := by
  induction n generalizing s with
  | zero => rfl
  | succ n ih => simp only [linIter]; rw [ih, lin_modEnergy_step m k hm hk A hA]

/-- exact drift of the mechanical energy after any number of steps -/
theorem lin_energy_drift_exact (m k : LinearMap.BilinForm K V) (hm : ∀ x y, m x y = m y x)
    (hk : ∀ x y, k x y = k y x) (A : V → V) (hA : ∀ x y, m (A x) y = k x y) (dt : K) (n : Nat) (s : V × V) :
    linEnergy2 m k (linIter A dt n s) - linEnergy2 m k s
      = dt * (k (linIter A dt n s).1 (linIter A dt n s).2 - k s.1 s.2) := by
  have h := lin_modEnergy_iter m k hm hk A hA dt n s
  simp only [linModEnergy2] at h
  simp only [linEnergy2]
  linear_combination h

end Lin

section LinReal
variable {V : Type} [AddCommGroup V] [Module ℝ V]

/-- the cross term is dominated by the energy: `|dt·k(q,v)| ≤ dt·√λ·E` when `k ≤ λ·m` -/
theorem lin_cross_le (m k : LinearMap.BilinForm ℝ V) (hk : ∀ x y, k x y = k y x)
    (hmp : ∀ x, 0 ≤ m x x) (hkp : ∀ x, 0 ≤ k x x) (lam : ℝ) (hlam : 0 ≤ lam) (hkm : ∀ x, k x x ≤ lam * m x x)
    (dt : ℝ) (hdt : 0 ≤ dt) (s : V × V) :
    |dt * k s.1 s.2| ≤ dt * Real.sqrt lam * (linEnergy2 m k s / 2) := by
  have hsymm : k.IsSymm := ⟨fun x y => by simpa using hk x y⟩
  have hcs := LinearMap.BilinForm.apply_sq_le_of_symm k hkp hsymm s.1 s.2
  have hE : 0 ≤ linEnergy2 m k s := add_nonneg (hmp _) (hkp _)
  have hrhs : 0 ≤ dt * Real.sqrt lam * (linEnergy2 m k s / 2) := by positivity
  rw [← Real.sqrt_sq hrhs, ← Real.sqrt_sq_eq_abs]
  apply Real.sqrt_le_sqrt
  have hsq : (dt * Real.sqrt lam * (linEnergy2 m k s / 2)) ^ 2
      = dt ^ 2 * lam * ((m s.2 s.2 + k s.1 s.1) / 2) ^ 2 := by
    simp only [linEnergy2]
    rw [mul_pow, mul_pow, Real.sq_sqrt hlam]
  rw [hsq]
  -- (k q v)² ≤ k q q · k v v ≤ k q q · λ m v v ≤ λ ((k q q + m v v)/2)²
  have h1 : (k s.1 s.2) ^ 2 ≤ k s.1 s.1 * (lam * m s.2 s.2) :=
    le_trans hcs (mul_le_mul_of_nonneg_left (hkm s.2) (hkp s.1))
  have h2 : k s.1 s.1 * (lam * m s.2 s.2) ≤ lam * ((m s.2 s.2 + k s.1 s.1) / 2) ^ 2 := by
    have : k s.1 s.1 * m s.2 s.2 ≤ ((m s.2 s.2 + k s.1 s.1) / 2) ^ 2 := by
      nlinarith [sq_nonneg (m s.2 s.2 - k s.1 s.1)]
    nlinarith [this]
  have hdt2 : 0 ≤ dt ^ 2 := by positivity
  calc (dt * k s.1 s.2) ^ 2 = dt ^ 2 * (k s.1 s.2) ^ 2 := by ring
    _ ≤ dt ^ 2 * (lam * ((m s.2 s.2 + k s.1 s.1) / 2) ^ 2) :=
        mul_le_mul_of_nonneg_left (le_trans h1 h2) hdt2
    _ = dt ^ 2 * lam * ((m s.2 s.2 + k s.1 s.1) / 2) ^ 2 := by ring

/-- **C12 for every constant-mass-matrix system with linear springs** (any number of dofs): for every
horizon `n`, `|2E_n − 2E_0| ≤ 2·dt·√λ·(2Ẽ_0)` where `λ` bounds the stiffness against the mass
(`k ≤ λ·m`, i.e. `λ` ≥ the largest squared natural frequency) and `dt·√λ ≤ 1`.  Uniform in `n`, linear
in `dt`. -/
theorem lin_energy_drift_bound (m k : LinearMap.BilinForm ℝ V) (hm : ∀ x y, m x y = m y x)
    (hk : ∀ x y, k x y = k y x) (hmp : ∀ x, 0 ≤ m x x) (hkp : ∀ x, 0 ≤ k x x)
    (A : V → V) (hA : ∀ x y, m (A x) y = k x y)
    (lam : ℝ) (hlam : 0 ≤ lam) (hkm : ∀ x, k x x ≤ lam * m x x)
    (dt : ℝ) (hdt : 0 ≤ dt) (hstep : dt * Real.sqrt lam ≤ 1) (n : Nat) (s : V × V) :
    |linEnergy2 m k (linIter A dt n s) - linEnergy2 m k s|
      ≤ 2 * dt * Real.sqrt lam * linModEnergy2 m k dt s := by
  set sn := linIter A dt n s with hsn
  have hmod : linModEnergy2 m k dt sn = linModEnergy2 m k dt s := lin_modEnergy_iter m k hm hk A hA dt n s
  rw [lin_energy_drift_exact m k hm hk A hA dt n s]
  have b1 := lin_cross_le m k hk hmp hkp lam hlam hkm dt hdt sn
  have b2 := lin_cross_le m k hk hmp hkp lam hlam hkm dt hdt s
  have hcoef : 0 ≤ dt * Real.sqrt lam := by positivity
  -- E ≤ 2 Ẽ for both states
  have eb : ∀ t : V × V, linEnergy2 m k t ≤ 2 * linModEnergy2 m k dt t := by
    intro t
    have hb := lin_cross_le m k hk hmp hkp lam hlam hkm dt hdt t
    have hE : 0 ≤ linEnergy2 m k t := add_nonneg (hmp _) (hkp _)
    have habs := abs_le.mp hb
    have hmodeq : linModEnergy2 m k dt t = linEnergy2 m k t - dt * k t.1 t.2 := by
      simp only [linModEnergy2, linEnergy2]
    rw [hmodeq]
    nlinarith [habs.2, hE, hcoef, hstep]
  have e1 := eb sn
  have e2 := eb s
  rw [hmod] at e1
  have hsplit : dt * (k sn.1 sn.2 - k s.1 s.2) = dt * k sn.1 sn.2 - dt * k s.1 s.2 := by ring
  rw [hsplit]
  calc |dt * k sn.1 sn.2 - dt * k s.1 s.2|
      ≤ |dt * k sn.1 sn.2| + |dt * k s.1 s.2| := abs_sub _ _
    _ ≤ dt * Real.sqrt lam * (linEnergy2 m k sn / 2) + dt * Real.sqrt lam * (linEnergy2 m k s / 2) :=
        add_le_add b1 b2
    _ ≤ 2 * dt * Real.sqrt lam * linModEnergy2 m k dt s := by nlinarith [hcoef, e1, e2]

/-- non-vacuity (2 dofs, coupled mass matrix `[[2,1],[1,2]]`, stiffness `diag(3,5)`, `A = M⁻¹K`): the
hypotheses of the conservation theorem hold and a step really moves -/
noncomputable def exM : LinearMap.BilinForm ℝ (ℝ × ℝ) :=
  LinearMap.mk₂ ℝ (fun x y => 2 * x.1 * y.1 + x.1 * y.2 + x.2 * y.1 + 2 * x.2 * y.2)
    (by intros; simp; ring) (by intros; simp; ring) (by intros; simp; ring) (by intros; simp; ring)
noncomputable def exK : LinearMap.BilinForm ℝ (ℝ × ℝ) :=
  LinearMap.mk₂ ℝ (fun x y => 3 * x.1 * y.1 + 5 * x.2 * y.2)
    (by intros; simp; ring) (by intros; simp; ring) (by intros; simp; ring) (by intros; simp; ring)
noncomputable def exA (x : ℝ × ℝ) : ℝ × ℝ := (2 * x.1 - 5 / 3 * x.2, -x.1 + 10 / 3 * x.2)

example : (∀ x y, exM x y = exM y x) ∧ (∀ x y, exK x y = exK y x) ∧ (∀ x y, exM (exA x) y = exK x y)
    ∧ (∀ x, 0 ≤ exM x x) ∧ (∀ x, 0 ≤ exK x x) ∧ (∀ x, exK x x ≤ 5 * exM x x) := by
  refine ⟨?_, ?_, ?_, ?_, ?_, ?_⟩ <;> intros <;> simp only [exM, exK, exA, LinearMap.mk₂_apply]
  · ring
  · ring
  · ring
  · rename_i x; nlinarith [sq_nonneg (x.1 + x.2), sq_nonneg x.1, sq_nonneg x.2]
  · rename_i x; nlinarith [sq_nonneg x.1, sq_nonneg x.2]
  · rename_i x; nlinarith [sq_nonneg (x.1 + x.2), sq_nonneg x.1, sq_nonneg x.2]

example : linStep exA (1 / 10 : ℝ) ((1, 0), (0, 0)) = ((49 / 50, 1 / 100), (-1 / 5, 1 / 10)) := by
  simp only [linStep, exA]; ext <;> simp <;> norm_num

end LinReal

/-! Full statement not proved (kept visible):

def drift_first_order_Stmt : Prop :=
  ∀ (sys : conservative generator model) (state) (horizon),
    ∃ C, ∀ dt small, |E(step_dt^(horizon/dt) state) − E state| ≤ C · dt
-/

end Brax.C12

/-! ===== C12, momentum clause (`Lemmas/C12Mom.lean`) =====

Everything below is about the existing model of the generalized pipeline (`Brax.Gd`, `Model/C02.lean`, tied to
`/repo` by the C02/C05 correspondences); no new model of the code.  `treeMom`, `treeFrc`, `pointAcc`,
`pointVel`, `lin3`, `comArm`, `bodyAng`, `traj` are specification-side definitions over the model's own
`cinr`, `cdof`, `cd`, `cdofd`, `Gd.step`.

**Proved**
* forest level, any root `ρ` with world-axis translational rows: rows `(ρ,0..2)` of `mass.matrix·y` are the
  linear momentum of the tree of `ρ` moving with joint velocity `y` (`mom_massRows_root`, `mom_treeMom_vel`);
  rows `(ρ,0..2)` of `dynamics.inverse` are the linear part of the Newton–Euler force of the whole tree
  (`mom_biasRows_root`); their sum is `Σ_{b∈tree} m_b (a_b − g)` (`mom_treeRate_vel`): internal joint forces
  do not change the total linear momentum rate.
* pipeline level, first tree: an exact solve with no force/damping/armature on the root's translational
  dofs gives `Σ_{b∈tree 0} m_b (a_b − g) = 0` (`mom_root_balance`, `mom_step_root_balance`).
* single free body: `lin3 qdd = g − α × ℓ − ω × (ω × ℓ)` (`free_body_qdd`); with the centre of mass at the
  joint origin one `Gd.step` changes `v` by exactly `dt·g` and `p` by `dt·v'` (`free_body_step`), and
  `v_n = v_0 + n·dt·g` for every horizon (`free_body_traj`) — momentum minus `m g t` conserved exactly.

**Not proved** (kept visible):
def momentum_limit_Stmt : Prop :=
  ∀ (free-floating conservative generator model) (state) (horizon T),
    ∃ C, ∀ dt small, ‖P(step_dt^(T/dt) state) − P(state) − M_tot·g·T‖ ≤ C · dt
  where `P(q, qd) = (treeMom … qd …).vel = Σ_b m_b v_b`.  What is missing: at fixed `q` the one-step change
  `P(q,qd') − P(q,qd) = dt·(M_tot g − Σ_b m_b·(velocity-product acceleration of b))` follows from
  `mom_root_balance` and linearity of `treeMom` in `y` (not written out), and the `O(dt)` comparison of
  `P(q',qd')` with `P(q,qd')` needs the derivative of `cinr`, `cdof` along `integrate` (the same Lagrangian
  identity the energy clause lacks). -/
namespace Brax.C12
open Brax Kin Gd C05G C12M

/-- rows `(ρ, 0..2)` of `mass.matrix · y` at a free root = linear momentum of the root's tree under joint
velocity `y`, plus `armature · y`.  Hypotheses: parents precede children, array lengths agree, `ρ` is a root
whose first three `cdof` rows are the world axes. -/
theorem mom_massRows_root (ps : List Int) (cinr : List (Inertia ℝ)) (cdof : List (List (Motion ℝ)))
    (arm N : List (List ℝ)) (ρ : Nat) (hps : ps.length = cdof.length) (hI : cinr.length = cdof.length)
    (hwf : PWF ps) (hρ : RootOK ps cdof ρ) :
    lin3 ((mvRows ps cinr cdof arm N).getD ρ [])
      = (treeMom ps cinr cdof (fun a s => (N.getD a []).getD s 0) cdof.length ρ).vel
        + ⟨armAt arm ρ 0 * (N.getD ρ []).getD 0 0, armAt arm ρ 1 * (N.getD ρ []).getD 1 0,
           armAt arm ρ 2 * (N.getD ρ []).getD 2 0⟩ :=
  massRows_root ps cinr cdof arm N ρ hps hI hwf hρ

/-- `mvRows` really are the rows of `mass.matrix · y` (symmetric link inertias, `y` chunked like `cdof`) -/
theorem mom_matVec_eq_mvRows (ps : List Int) (cinr : List (Inertia ℝ)) (cdof : List (List (Motion ℝ)))
    (arm : List (List ℝ)) (N : List (List ℝ)) (hsym : ∀ x ∈ cinr, SymmI x)
    (hN : N.length = cdof.length) (hw : ∀ l, l < N.length → (N.getD l []).length = wAt cdof l) :
    matVec (massMatrix ps cinr cdof arm) N.flatten = (mvRows ps cinr cdof arm N).flatten :=
  matVec_eq_mvRows ps cinr cdof arm N hsym hN hw

/-- rows `(ρ, 0..2)` of `dynamics.inverse` at a free root = linear part of the Newton–Euler force of the
root's whole tree -/
theorem mom_biasRows_root (ps : List Int) (grav : V3 ℝ) (c : ComState ℝ) (qdN : List (List ℝ)) (ρ : Nat)
    (hps : ps.length = c.cdof.length) (hI : c.cinr.length = c.cdof.length)
    (hcd : c.cd.length = c.cdof.length) (hcdd : (invCdd ps grav c qdN).length = c.cdof.length)
    (hwf : PWF ps) (hρ : RootOK ps c.cdof ρ) :
    lin3 ((inverse ps grav c qdN).getD ρ [])
      = (treeFrc ps c.cinr (invCdd ps grav c qdN) c.cd c.cdof.length ρ).vel :=
  biasRows_root ps grav c qdN ρ hps hI hcd hcdd hwf hρ

/-- **momentum balance at the root rows** (forest level) -/
theorem mom_root_rows_balance (ps : List Int) (grav : V3 ℝ) (c : ComState ℝ) (arm N qdN : List (List ℝ))
    (ρ : Nat) (hps : ps.length = c.cdof.length) (hI : c.cinr.length = c.cdof.length)
    (hcd : c.cd.length = c.cdof.length) (hcdd : (invCdd ps grav c qdN).length = c.cdof.length)
    (hwf : PWF ps) (hρ : RootOK ps c.cdof ρ) :
    lin3 ((mvRows ps c.cinr c.cdof arm N).getD ρ []) + lin3 ((inverse ps grav c qdN).getD ρ [])
      = ((treeMom ps c.cinr c.cdof (fun a s => (N.getD a []).getD s 0) c.cdof.length ρ).vel
          + (treeFrc ps c.cinr (invCdd ps grav c qdN) c.cd c.cdof.length ρ).vel)
        + ⟨armAt arm ρ 0 * (N.getD ρ []).getD 0 0, armAt arm ρ 1 * (N.getD ρ []).getD 1 0,
           armAt arm ρ 2 * (N.getD ρ []).getD 2 0⟩ :=
  root_rows_balance ps grav c arm N qdN ρ hps hI hcd hcdd hwf hρ

/-- `treeMom.vel = Σ_{b ∈ tree ρ} m_b · (velocity of the centre of mass of b)` when `cinr_b.tf.pos = m_b r_b` -/
theorem mom_treeMom_vel (ps : List Int) (cinr : List (Inertia ℝ)) (cdof : List (List (Motion ℝ)))
    (Y : Nat → Nat → ℝ) (n ρ : Nat) (r : Nat → V3 ℝ)
    (hr : ∀ b, b < n → (cinr.getD b dI).tf.pos = V3.smul (cinr.getD b dI).mass (r b)) :
    (treeMom ps cinr cdof Y n ρ).vel
      = vrsum n fun b => if inTree ps ρ b then
          V3.smul (cinr.getD b dI).mass (pointVel (velAnc ps cdof Y b) (r b)) else V3.zero :=
  treeMom_vel ps cinr cdof Y n ρ r hr

/-- `treeMom(N).vel + treeFrc.vel = Σ_{b ∈ tree ρ} m_b (a_b − g)` -/
theorem mom_treeRate_vel (ps : List Int) (cinr : List (Inertia ℝ)) (cdof : List (List (Motion ℝ)))
    (cdd cd : List (Motion ℝ)) (Y : Nat → Nat → ℝ) (n ρ : Nat) (r : Nat → V3 ℝ)
    (hr : ∀ b, b < n → (cinr.getD b dI).tf.pos = V3.smul (cinr.getD b dI).mass (r b)) :
    (treeMom ps cinr cdof Y n ρ).vel + (treeFrc ps cinr cdd cd n ρ).vel
      = vrsum n fun b => if inTree ps ρ b then
          V3.smul (cinr.getD b dI).mass
            (pointAcc (velAnc ps cdof Y b + cdd.getD b Motion.zero) (cd.getD b Motion.zero) (r b))
          else V3.zero :=
  treeRate_vel ps cinr cdof cdd cd Y n ρ r hr

/-- **pipeline level, first tree**: exact solve + no force on the root's translational dofs ⇒
`Σ_{b ∈ tree 0} m_b (a_b − g) = 0` -/
theorem mom_root_balance {s : Sys ℝ} {q qd : List ℝ} (h : MomOK s q qd) (act qfc qdd : List ℝ)
    (hqdd : qdd.length = s.nv) (hqfc : qfc.length = s.nv)
    (htau : lin3 (toTau s.nv s.acts act q qd) = V3.zero) (hqfc0 : lin3 qfc = V3.zero)
    (hex : matVec (dampedMatrix (dynInit s q qd).massMx (s.dofs.map (·.damping)) s.dt) qdd
        = List.zipWith (· + ·) (qfSmooth s (dynInit s q qd) q qd act) qfc) :
    (vrsum s.types.length fun b => if inTree s.parents 0 b then
        V3.smul ((dynInit s q qd).com.cinr.getD b dI).mass
          (pointAcc (velAnc s.parents (dynInit s q qd).com.cdof (qddN s qdd) b
              + (stCdd s q qd).getD b Motion.zero)
            ((dynInit s q qd).com.cd.getD b Motion.zero) (comOff s q qd b))
        else V3.zero) = V3.zero :=
  root_balance_physical h act qfc qdd hqdd hqfc htau hqfc0 hex

/-- … for the accelerations `Gd.step` computes -/
theorem mom_step_root_balance {s : Sys ℝ} {q qd : List ℝ} (h : MomOK s q qd)
    (solve : List (List ℝ) → List ℝ → List ℝ) (act qfc : List ℝ) (hqfc : qfc.length = s.nv)
    (htau : lin3 (toTau s.nv s.acts act q qd) = V3.zero) (hqfc0 : lin3 qfc = V3.zero)
    (hlen : (Gd.step solve s (dynInit s q qd) q qd act qfc).1.2.2.length = s.nv)
    (hex : matVec (dampedMatrix (dynInit s q qd).massMx (s.dofs.map (·.damping)) s.dt)
        (Gd.step solve s (dynInit s q qd) q qd act qfc).1.2.2
      = List.zipWith (· + ·) (qfSmooth s (dynInit s q qd) q qd act) qfc) :
    (vrsum s.types.length fun b => if inTree s.parents 0 b then
        V3.smul ((dynInit s q qd).com.cinr.getD b dI).mass
          (pointAcc (velAnc s.parents (dynInit s q qd).com.cdof
                (qddN s (Gd.step solve s (dynInit s q qd) q qd act qfc).1.2.2) b
              + (stCdd s q qd).getD b Motion.zero)
            ((dynInit s q qd).com.cd.getD b Motion.zero) (comOff s q qd b))
        else V3.zero) = V3.zero :=
  step_root_balance h solve act qfc hqfc htau hqfc0 hlen hex

/-- **single free body**: the translational acceleration the exact solve returns is
`g − α × ℓ − ω × (ω × ℓ)` (`ℓ` = offset of the centre of mass from the joint origin, `α`, `ω` the world
angular acceleration / velocity) — any orientation, angular velocity, inertia tensor -/
theorem free_body_qdd {s : Sys ℝ} {q qd : List ℝ} (h : MomOK s q qd) (hone : s.types.length = 1)
    (hm : ∀ lk ∈ s.links, lk.inertia.mass ≠ 0) (act qfc qdd : List ℝ)
    (hqdd : qdd.length = s.nv) (hqfc : qfc.length = s.nv)
    (htau : lin3 (toTau s.nv s.acts act q qd) = V3.zero) (hqfc0 : lin3 qfc = V3.zero)
    (hex : matVec (dampedMatrix (dynInit s q qd).massMx (s.dofs.map (·.damping)) s.dt) qdd
        = List.zipWith (· + ·) (qfSmooth s (dynInit s q qd) q qd act) qfc) :
    lin3 qdd - s.gravity + V3.cross (bodyAng s q qd qdd) (comArm s q qd)
      + V3.cross (bodyAng s q qd qd) (V3.cross (bodyAng s q qd qd) (comArm s q qd)) = V3.zero :=
  C12M.free_body_qdd h hone hm act qfc qdd hqdd hqfc htau hqfc0 hex

/-- **single free body, one `Gd.step`**: `v' = v + dt·g` and `p' = p + dt·v'`, exactly -/
theorem free_body_step {s : Sys ℝ} {q qd : List ℝ} (h : MomOK s q qd) (hone : s.types.length = 1)
    (hm : ∀ lk ∈ s.links, lk.inertia.mass ≠ 0) (solve : List (List ℝ) → List ℝ → List ℝ) (act qfc : List ℝ)
    (hqfc : qfc.length = s.nv)
    (htau : lin3 (toTau s.nv s.acts act q qd) = V3.zero) (hqfc0 : lin3 qfc = V3.zero)
    (hlen : (Gd.step solve s (dynInit s q qd) q qd act qfc).1.2.2.length = s.nv)
    (hex : matVec (dampedMatrix (dynInit s q qd).massMx (s.dofs.map (·.damping)) s.dt)
        (Gd.step solve s (dynInit s q qd) q qd act qfc).1.2.2
      = List.zipWith (· + ·) (qfSmooth s (dynInit s q qd) q qd act) qfc)
    (harm : comArm s q qd = V3.zero) :
    lin3 (Gd.step solve s (dynInit s q qd) q qd act qfc).1.2.1 = lin3 qd + V3.smul s.dt s.gravity
    ∧ lin3 (Gd.step solve s (dynInit s q qd) q qd act qfc).1.1
        = lin3 q + V3.smul s.dt (lin3 (Gd.step solve s (dynInit s q qd) q qd act qfc).1.2.1) :=
  C12M.free_body_step h hone hm solve act qfc hqfc htau hqfc0 hlen hex harm

/-- **single free body, every horizon**: `v_n = v_0 + n·dt·g` — momentum minus `m g t` is conserved exactly -/
theorem free_body_traj (solve : List (List ℝ) → List ℝ → List ℝ) (s : Sys ℝ) (act qfc : List ℝ)
    (hone : s.types.length = 1) (hm : ∀ lk ∈ s.links, lk.inertia.mass ≠ 0)
    (hqfc : qfc.length = s.nv) (hqfc0 : lin3 qfc = V3.zero) (x : List ℝ × List ℝ) (n : Nat)
    (hok : ∀ k, k < n → FreeStepOK solve s act qfc (traj solve s act qfc k x).1 (traj solve s act qfc k x).2) :
    lin3 (traj solve s act qfc n x).2 = lin3 x.2 + V3.smul ((n : ℝ) * s.dt) s.gravity :=
  C12M.free_body_traj solve s act qfc hone hm hqfc hqfc0 x n hok

/-- `comArm = 0` in every state for a body with cleared link/joint transforms and inertial frame at the origin -/
theorem free_body_comArm_zero {s : Sys ℝ} {q qd : List ℝ} (h : MomOK s q qd) (lk : LinkP ℝ)
    (rest : List (LinkP ℝ)) (hlinks : s.links = lk :: rest)
    (h1 : lk.tf = Tf.id) (h2 : lk.joint = Tf.id) (h3 : lk.inertia.tf.pos = V3.zero) :
    comArm s q qd = V3.zero :=
  comArm_zero h lk rest hlinks h1 h2 h3

/-! ### non-vacuity -/

/-- forest-level hypotheses: free root + one child, `RootOK` at the root -/
example : PWF [-1, 0] ∧ RootOK [-1, 0] [[Ex, Ey, Ez, Ex, Ey, Ez], [Ez]] 0 := by
  refine ⟨?_, ?_, by simp, ⟨Ex, Ey, Ez, rfl⟩⟩
  · intro i
    rcases i with _ | _ | i
    · simp
    · simp
    · simp only [List.getD_cons_succ, List.getD_nil]; omega
  · simp

/-- a single free body: unit mass, unit inertia about its centre of mass, identity link/joint/inertial
frames, no damping, no armature, no actuator -/
noncomputable def momLink : LinkP ℝ := ⟨Tf.id, Tf.id, ⟨Tf.id, M3.one, 1⟩, 1, 100, 1, 100, 1⟩
noncomputable def momDof (ang vel : V3 ℝ) : DofP ℝ := ⟨⟨ang, vel⟩, 0, 0, 0, none, none, 1⟩
noncomputable def momSys : Sys ℝ :=
  { types := [.free], parents := [-1], links := [momLink],
    dofs := [momDof ⟨0, 0, 0⟩ ⟨1, 0, 0⟩, momDof ⟨0, 0, 0⟩ ⟨0, 1, 0⟩, momDof ⟨0, 0, 0⟩ ⟨0, 0, 1⟩,
             momDof ⟨1, 0, 0⟩ ⟨0, 0, 0⟩, momDof ⟨0, 1, 0⟩ ⟨0, 0, 0⟩, momDof ⟨0, 0, 1⟩ ⟨0, 0, 0⟩],
    hasLimit := false, acts := [],
    gravity := ⟨0, 0, -9.81⟩, dt := 0.01, velDamping := 0, angDamping := 0, baumgarteErp := 0.1,
    springMassScale := 0, springInertiaScale := 0, jointScaleAng := 0.2, jointScalePos := 0.5,
    collideScale := 1 }

/-- the hypotheses of `free_body_qdd` / `free_body_step` on the system and the state hold for `momSys` in a
tumbling state (`MomOK`, one link, nonzero mass, no actuator force, `comArm = 0`) -/
example (act : List ℝ) :
    let q : List ℝ := [0, 0, 1, 1, 0, 0, 0]
    let qd : List ℝ := [1, 0, 0, 0.3, 0, 0.5]
    MomOK momSys q qd ∧ momSys.types.length = 1 ∧ (∀ lk ∈ momSys.links, lk.inertia.mass ≠ 0)
    ∧ lin3 (toTau momSys.nv momSys.acts act q qd) = V3.zero ∧ comArm momSys q qd = V3.zero := by
  intro q qd
  have hslice : linkSlices momSys.types q qd momSys.dofs = [⟨.free, q, qd, momSys.dofs⟩] := by
    simp [momSys, linkSlices, LinkType.qWidth, LinkType.qdWidth, q, qd]
  have hlinkok : ∀ x ∈ momSys.parents.zip (momSys.links.zip (linkSlices momSys.types q qd momSys.dofs)),
      KinPos.LinkOK x.1 x.2.1 x.2.2 := by
    intro x hx
    rw [hslice] at hx
    simp only [momSys, List.zip_cons_cons, List.zip_nil_right, List.mem_singleton] at hx
    subst hx
    refine ⟨?_, rfl, ?_, ?_⟩
    · simp [momLink, Tf.id, Q4.IsUnit, Q4.normSq, Q4.one]
    · intro _
      refine ⟨by norm_num, rfl, rfl, by simp [qd], 0, 0, 1, 1, 0, 0, 0, by simp [q], ?_⟩
      simp [Q4.IsUnit, Q4.normSq]
    · intro h; simp at h
  have hexists : ∀ l ∈ linkSlices momSys.types q qd momSys.dofs, l = ⟨.free, q, qd, momSys.dofs⟩ := by
    intro l hl; rw [hslice] at hl; simpa using hl
  have hfull : Full momSys q qd := ⟨rfl, rfl, rfl⟩
  have hpar : ∀ i (h : i < momSys.parents.length), -1 ≤ momSys.parents[i] ∧ momSys.parents[i] < (i : Int) := by
    intro i hi
    have hi' : i < 1 := hi
    match i, hi' with
    | 0, _ => simp [momSys]
  have hroot : ∀ i (h : i < momSys.parents.length) (h' : i < momSys.types.length),
      momSys.parents[i] < 0 → momSys.types[i] = .free := by
    intro i hi _ _
    have hi' : i < 1 := hi
    match i, hi' with
    | 0, _ => simp [momSys]
  have hbasis : ∀ l ∈ linkSlices momSys.types q qd momSys.dofs, l.typ = .free →
      l.dofs.map (·.motion) = freeBasis := by
    intro l hl _; rw [hexists l hl]; simp [momSys, momDof, freeBasis, V3.zero]
  have hmass : ∀ r ∈ rootIdx momSys.parents,
      segSum 0 (· + ·) (momSys.links.map (·.inertia.mass)) (rootIdx momSys.parents) r ≠ 0 := by
    intro r hr
    simp [momSys, rootIdx, scanFwd] at hr
    subst hr
    simp [momSys, rootIdx, scanFwd, segSum, momLink]
  have hirot : ∀ lk ∈ momSys.links, Q4.normSq lk.inertia.tf.rot ≠ 0 := by
    intro lk hlk
    simp [momSys] at hlk
    subst hlk
    simp [momLink, Tf.id, Q4.normSq, Q4.one]
  have hmom : MomOK momSys q qd :=
    { full := hfull
      ok := GenOK.of_linkOK momSys q qd rfl rfl hpar hroot hlinkok hbasis hmass hirot
      pos := by simp [momSys]
      symm := by
        intro lk hlk
        simp [momSys] at hlk
        subst hlk
        simp [SymmI, momLink, M3.one]
      damp0 := by simp [momSys, momDof, lin3, V3.zero]
      arm0 := by simp [momSys, momDof, lin3, V3.zero] }
  refine ⟨hmom, rfl, ?_, ?_, ?_⟩
  · intro lk hlk
    simp [momSys] at hlk
    subst hlk
    simp [momLink]
  · simp [momSys, toTau, lin3, Sys.nv, LinkType.qdWidth, V3.zero]
  · exact comArm_zero hmom momLink [] rfl rfl rfl rfl

end Brax.C12
