import Brax.Props.C05
import Brax.Lemmas.C05Inv
/-!
# C05 — the whole-step theorems with `kinematics.inverse` instantiated by its model

The theorems at the end of `Props/C05.lean` take `kinematics.inverse` as a parameter `inv` and assume
`InvLocal`, `InvSplit`, `InvLen` about it (and `UnitRot` of the initial state for the positional trajectory).
Here `inv := C04I.invModel s = (Inv.inverse s · ·).getD ([], [])`, the model of `kinematics.inverse`
(`Model/C08.lean`, tied to the code by C08), and **no hypothesis on `inv` is left**:

* `spring_steps_equivariant_invModel`, `spring_trajectory_equivariant_invModel`,
  `positional_steps_equivariant_invModel`, `positional_trajectory_equivariant_invModel` — any number of
  contact-free steps commute with a rigid transform of the scene.  The last one also drops `UnitRot` of the
  initial state (`init_unitRot`: it follows from `LinkOK`, which `forward_equivariant` needs anyway).
* `spring_step_components_invModel`, `positional_step_components_invModel`,
  `spring_trajectory_components_invModel`, `positional_trajectory_components_invModel`,
  `spring_whole_trajectory_components_invModel`, `positional_whole_trajectory_components_invModel` —
  mechanically disconnected parts evolve as each would alone.

What replaces the hypotheses on `inv`:
* `s.WF = true` (array lengths; `nv` dofs) — makes `Inv.inverse` total (C08 `inverse_total`);
* `ActsOnJoints s` (equivariance only) — every actuator reads/drives a coordinate of a link that is not a free
  joint.  For a free-rooted forest those are exactly the non-root links.  An actuator on a free root's
  coordinate reads the root's pose in the world, which a rigid transform changes: for such a system moving the
  scene is not a symmetry, so the hypothesis is necessary, not technical.

**The literal `InvLocal` / `InvSplit` are false of `invModel`** (`invModel_not_invLocal`,
`invModel_not_invSplit` below): they quantify over joint arrays of any length, and `Inv.inverse` models the
shape check (`none` unless `j`, `jd` have one row per link).  This is a defect of the *hypotheses as stated*, not
of the code or of the model: the pipelines only call `inv` on arrays with one row per link.  The versions
restricted to such arrays are true of the model (`invModel_invLocal`, `invModel_invSplit`, `invModel_invLen`),
and the row-by-row function `C05Inv.invT` (no shape check) satisfies the literal ones and coincides with
`invModel` along every trajectory (`C05Inv.steps_congr`, `psteps_congr`) — that is how the corollaries are
obtained from the existing theorems without changing them.
-/
set_option linter.unusedSectionVars false
set_option linter.unusedVariables false
namespace Brax.C05
open Brax Kin KinPos KinVel KinEquiv C05L C05P C04L MC C05Perm C04I C05Inv

/-! ## the three hypotheses, for the model of `kinematics.inverse` -/

/-- **`InvLocal` for the model, on arrays with one row per link**: for a well-formed free-rooted system whose
actuators act on joints, the coordinates an actuator reads are computed by `kinematics.inverse` from the
`(j, jd)` rows of non-root links only -/
theorem invModel_invLocal (s : Sys ℝ) (hwf : s.WF = true) (hfr : FreeRooted s) (hacts : ActsOnJoints s)
    (j j' : List (Tf ℝ)) (jd jd' : List (Motion ℝ))
    (hj : j.length = s.numLinks) (hjd : jd.length = s.numLinks)
    (hj' : j'.length = s.numLinks) (hjd' : jd'.length = s.numLinks)
    (hrows : ∀ i, i < s.numLinks → ¬ parentOf s.parents i < 0 →
      nth j' i = nth j i ∧ nth jd' i = nth jd i) :
    ActAgree s (invModel s j jd).1 (invModel s j jd).2 (invModel s j' jd').1 (invModel s j' jd').2 := by
  have hP := WFParts.of_wf hwf
  rw [invModel_agrees hP j jd hj hjd, invModel_agrees hP j' jd' hj' hjd']
  exact invT_invLocal s hfr hP.dlen hacts j j' jd jd' hrows

/-- **`InvSplit` for the model, on arrays with one row per link**: `kinematics.inverse` of a disjoint union
is the concatenation of the inverses of the parts -/
theorem invModel_invSplit (s1 s2 : Sys ℝ) (hwf1 : s1.WF = true) (hwf2 : s2.WF = true)
    (j1 j2 : List (Tf ℝ)) (jd1 jd2 : List (Motion ℝ))
    (hj1 : j1.length = s1.numLinks) (hjd1 : jd1.length = s1.numLinks)
    (hj2 : j2.length = s2.numLinks) (hjd2 : jd2.length = s2.numLinks) :
    invModel (unionSys s1 s2) (j1 ++ j2) (jd1 ++ jd2)
      = ((invModel s1 j1 jd1).1 ++ (invModel s2 j2 jd2).1, (invModel s1 j1 jd1).2 ++ (invModel s2 j2 jd2).2) := by
  have h1 := WFParts.of_wf hwf1
  have h2 := WFParts.of_wf hwf2
  rw [invModel_union_agrees h1 h2 _ _ (by simp [hj1, hj2]) (by simp [hjd1, hjd2]),
    invModel_agrees h1 j1 jd1 hj1 hjd1, invModel_agrees h2 j2 jd2 hj2 hjd2]
  exact invT_invSplit s1 s2 h1.plen h1.dlen j1 j2 jd1 jd2 hj1 hjd1

/-- **`InvLen` for the model** (literally): on a well-formed system `kinematics.inverse` returns `nq` positions
and `nv` velocities -/
theorem invModel_invLen (s : Sys ℝ) (hwf : s.WF = true) : InvLen s (invModel s) := by
  intro j jd hj hjd
  rw [invModel_agrees (WFParts.of_wf hwf) j jd hj hjd]
  exact invT_len s (WFParts.of_wf hwf).dlen j jd

/-- the literal `InvSplit` is **false** of the model whenever the first part has a coordinate and the second
a link: with `j2 = jd2 = []` the union's shape check fails (`([], [])`) while the first part's succeeds -/
theorem invModel_not_invSplit (s1 s2 : Sys ℝ) (hwf1 : s1.WF = true) (hq : 0 < s1.nq)
    (hn : 0 < s2.numLinks) :
    ¬ InvSplit s1.numLinks (invModel (unionSys s1 s2)) (invModel s1) (invModel s2) := by
  intro h
  have h1 := WFParts.of_wf hwf1
  have e := h (List.replicate s1.numLinks default) [] (List.replicate s1.numLinks default) []
    (by simp) (by simp)
  have hU : invModel (unionSys s1 s2) (List.replicate s1.numLinks default ++ [])
      (List.replicate s1.numLinks default ++ []) = ([], []) := by
    unfold invModel Inv.inverse
    rw [if_pos (Or.inl (by
      show (List.replicate s1.numLinks (default : Tf ℝ) ++ []).length ≠ (s1.types ++ s2.types).length
      simp only [List.append_nil, List.length_replicate, List.length_append]
      have : 0 < s2.types.length := hn
      show s1.types.length ≠ _
      omega))]
    rfl
  rw [hU] at e
  have e1 := congrArg (fun p => p.1.length) e
  simp only [List.length_nil, List.length_append] at e1
  have := (invModel_invLen s1 hwf1 _ _ (by simp) (by simp) :
    (invModel s1 (List.replicate s1.numLinks default) (List.replicate s1.numLinks default)).1.length = s1.nq
      ∧ _).1
  omega

/-! ## `UnitRot` of the initial state -/

/-- **the initial state of the positional pipeline has unit centre-of-mass rotations** (`com.from_world`
composes the link pose with a pure translation, and `kinematics.forward` returns unit quaternions under
`LinkOK`) — the hypothesis `hunit` of `positional_trajectory_equivariant` is redundant -/
theorem init_unitRot (s : Sys ℝ) (q qd : List ℝ) (hlinks : s.links.length = s.numLinks)
    (hp : s.parents.length = s.numLinks)
    (hok : ∀ x ∈ s.parents.zip (s.links.zip (linkSlices s.types q qd s.dofs)), LinkOK x.1 x.2.1 x.2.2) :
    UnitRot s (Positional.init s q qd) :=
  unitRot_init s q qd hlinks hp hok

/-! ## rigid transform of the scene, any number of steps, with the model of `kinematics.inverse` -/

/-- `gSys g s` has the links of `s` -/
theorem agrees_gSys (g : Tf ℝ) {s : Sys ℝ} (hP : WFParts s) :
    ∀ j jd, j.length = (gSys g s).numLinks → jd.length = (gSys g s).numLinks →
      invModel s j jd = invT s j jd :=
  fun j jd hj hjd => invModel_agrees hP j jd hj hjd

/-- **C05, any number of contact-free spring steps commute with a rigid transform — no hypothesis on
`kinematics.inverse`.**  The transformed scene uses `kinematics.inverse` of the transformed system. -/
theorem spring_steps_equivariant_invModel (g : Tf ℝ) (hg : g.rot.IsUnit) (s : Sys ℝ)
    (hwfS : s.WF = true) (hfr : FreeRooted s) (hacts : ActsOnJoints s) (acts : List (List ℝ))
    (st : Spring.State ℝ) (q' qd' : List ℝ) (hwf : Spring.State.WF s st = true)
    (hact : ActAgree s st.q st.qd q' qd') :
    ∃ q'' qd'', steps (invModel (gSys g s)) (gSys g s) (gState g s st q' qd') acts
        = gState g s (steps (invModel s) s st acts) q'' qd''
      ∧ ActAgree s (steps (invModel s) s st acts).q (steps (invModel s) s st acts).qd q'' qd'' := by
  have hP := WFParts.of_wf hwfS
  rw [invModel_gSys, steps_congr (invModel s) (invT s) (gSys g s) hP.llen (agrees_gSys g hP),
    steps_congr (invModel s) (invT s) s hP.llen (invModel_agrees hP)]
  exact spring_steps_equivariant (invT s) g hg s hfr hP.llen (invT_invLocal s hfr hP.dlen hacts) acts st
    q' qd' hwf hact

/-- **C05, spring pipeline, whole trajectories from `init` — no hypothesis on `kinematics.inverse`**, and no
`ActAgree` hypothesis on the initial coordinates (it follows from `hq` and `ActsOnJoints`:
`C05Inv.actAgree_of_slices`) -/
theorem spring_trajectory_equivariant_invModel (g : Tf ℝ) (hg : g.rot.IsUnit) (s : Sys ℝ)
    (q qd q' qd' : List ℝ) (acts : List (List ℝ))
    (hwfS : s.WF = true) (hfr : FreeRooted s) (hacts : ActsOnJoints s) (hpw : ParentsWF s.parents)
    (hok : ∀ x ∈ s.parents.zip (s.links.zip (linkSlices s.types q qd s.dofs)),
      LinkOK x.1 x.2.1 x.2.2 ∧ (x.1 < 0 → x.2.2.typ = .free))
    (hq : linkSlices s.types q' qd' s.dofs = (linkSlices s.types q qd s.dofs).map (xformIn g)) :
    ∃ q'' qd'', steps (invModel (gSys g s)) (gSys g s) (Spring.init (gSys g s) q' qd') acts
        = gState g s (steps (invModel s) s (Spring.init s q qd) acts) q'' qd''
      ∧ ActAgree s (steps (invModel s) s (Spring.init s q qd) acts).q
          (steps (invModel s) s (Spring.init s q qd) acts).qd q'' qd'' := by
  have hP := WFParts.of_wf hwfS
  rw [invModel_gSys, steps_congr (invModel s) (invT s) (gSys g s) hP.llen (agrees_gSys g hP),
    steps_congr (invModel s) (invT s) s hP.llen (invModel_agrees hP)]
  exact spring_trajectory_equivariant (invT s) g hg s q qd q' qd' acts hfr hP.llen hpw
    (invT_invLocal s hfr hP.dlen hacts) hok hq (actAgree_of_slices g s hacts q qd q' qd' hq)

/-- **C05, any number of contact-free positional steps commute with a rigid transform — no hypothesis on
`kinematics.inverse`** (`TrajClear`: no joint displacement of the original trajectory lies in the dead zone of
`math.safe_norm`, the known finding) -/
theorem positional_steps_equivariant_invModel (g : Tf ℝ) (hg : g.rot.IsUnit) (s : Sys ℝ)
    (hwfS : s.WF = true) (hfr : FreeRooted s) (hacts : ActsOnJoints s) (acts : List (List ℝ))
    (st : Positional.State ℝ) (q' qd' : List ℝ) (hwf : Positional.State.WF s st = true)
    (hunit : UnitRot s st) (hact : ActAgree s st.q st.qd q' qd')
    (hclear : TrajClear (invModel s) s st acts) :
    ∃ q'' qd'', psteps (invModel (gSys g s)) (gSys g s) (gStateP g s st q' qd') acts
        = gStateP g s (psteps (invModel s) s st acts) q'' qd''
      ∧ ActAgree s (psteps (invModel s) s st acts).q (psteps (invModel s) s st acts).qd q'' qd'' := by
  have hP := WFParts.of_wf hwfS
  rw [invModel_gSys, psteps_congr (invModel s) (invT s) (gSys g s) hP.llen hP.plen (agrees_gSys g hP),
    psteps_congr (invModel s) (invT s) s hP.llen hP.plen (invModel_agrees hP)]
  exact positional_steps_equivariant (invT s) g hg s hfr hP.llen (invT_invLocal s hfr hP.dlen hacts) acts st
    q' qd' hwf hunit hact
    (trajClear_congr (invModel s) (invT s) s hP.llen hP.plen (invModel_agrees hP) acts st hclear)

/-- **C05, positional pipeline, whole trajectories from `init` — no hypothesis on `kinematics.inverse`, and
no `UnitRot` (it follows from `hok`) and no `ActAgree` (it follows from `hq`) hypothesis** -/
theorem positional_trajectory_equivariant_invModel (g : Tf ℝ) (hg : g.rot.IsUnit) (s : Sys ℝ)
    (q qd q' qd' : List ℝ) (acts : List (List ℝ))
    (hwfS : s.WF = true) (hfr : FreeRooted s) (hacts : ActsOnJoints s) (hpw : ParentsWF s.parents)
    (hok : ∀ x ∈ s.parents.zip (s.links.zip (linkSlices s.types q qd s.dofs)),
      LinkOK x.1 x.2.1 x.2.2 ∧ (x.1 < 0 → x.2.2.typ = .free))
    (hq : linkSlices s.types q' qd' s.dofs = (linkSlices s.types q qd s.dofs).map (xformIn g))
    (hclear : TrajClear (invModel s) s (Positional.init s q qd) acts) :
    ∃ q'' qd'', psteps (invModel (gSys g s)) (gSys g s) (Positional.init (gSys g s) q' qd') acts
        = gStateP g s (psteps (invModel s) s (Positional.init s q qd) acts) q'' qd''
      ∧ ActAgree s (psteps (invModel s) s (Positional.init s q qd) acts).q
          (psteps (invModel s) s (Positional.init s q qd) acts).qd q'' qd'' := by
  have hP := WFParts.of_wf hwfS
  rw [invModel_gSys, psteps_congr (invModel s) (invT s) (gSys g s) hP.llen hP.plen (agrees_gSys g hP),
    psteps_congr (invModel s) (invT s) s hP.llen hP.plen (invModel_agrees hP)]
  exact positional_trajectory_equivariant (invT s) g hg s q qd q' qd' acts hfr hP.llen hpw
    (invT_invLocal s hfr hP.dlen hacts) hok hq (actAgree_of_slices g s hacts q qd q' qd' hq)
    (init_unitRot s q qd hP.llen hP.plen (fun x hx => (hok x hx).1))
    (trajClear_congr (invModel s) (invT s) s hP.llen hP.plen (invModel_agrees hP) acts _ hclear)

/-- `positional_trajectory_equivariant` for an arbitrary `inv`, without the `UnitRot` hypothesis -/
theorem positional_trajectory_equivariant_noUnit
    (inv : List (Tf ℝ) → List (Motion ℝ) → List ℝ × List ℝ)
    (g : Tf ℝ) (hg : g.rot.IsUnit) (s : Sys ℝ) (q qd q' qd' : List ℝ) (acts : List (List ℝ))
    (hfr : FreeRooted s) (hlinks : s.links.length = s.numLinks) (hpw : ParentsWF s.parents)
    (hinv : InvLocal s inv)
    (hok : ∀ x ∈ s.parents.zip (s.links.zip (linkSlices s.types q qd s.dofs)),
      LinkOK x.1 x.2.1 x.2.2 ∧ (x.1 < 0 → x.2.2.typ = .free))
    (hq : linkSlices s.types q' qd' s.dofs = (linkSlices s.types q qd s.dofs).map (xformIn g))
    (hact : ActAgree s q qd q' qd')
    (hclear : TrajClear inv s (Positional.init s q qd) acts) :
    ∃ q'' qd'', psteps inv (gSys g s) (Positional.init (gSys g s) q' qd') acts
        = gStateP g s (psteps inv s (Positional.init s q qd) acts) q'' qd''
      ∧ ActAgree s (psteps inv s (Positional.init s q qd) acts).q
          (psteps inv s (Positional.init s q qd) acts).qd q'' qd'' :=
  positional_trajectory_equivariant inv g hg s q qd q' qd' acts hfr hlinks hpw hinv hok hq hact
    (init_unitRot s q qd hlinks hfr.hlen (fun x hx => (hok x hx).1)) hclear

/-! ## mechanically disconnected parts, with the model of `kinematics.inverse` -/

/-- **C05, disconnected parts, one whole spring step — no hypothesis on `kinematics.inverse`** -/
theorem spring_step_components_invModel (s1 s2 : Sys ℝ) (st1 st2 : Spring.State ℝ) (act1 act2 : List ℝ)
    (hwf1 : s1.WF = true) (hwf2 : s2.WF = true) (hg : SameGlobals s1 s2)
    (hst1 : Spring.State.WF s1 st1 = true) (hst2 : Spring.State.WF s2 st2 = true)
    (hact : act1.length = s1.acts.length) :
    Spring.step (invModel (unionSys s1 s2)) (fun _ => []) (unionSys s1 s2) (unionState st1 st2) (act1 ++ act2)
      = unionState (Spring.step (invModel s1) (fun _ => []) s1 st1 act1)
          (Spring.step (invModel s2) (fun _ => []) s2 st2 act2) := by
  have h1 := WFParts.of_wf hwf1
  have h2 := WFParts.of_wf hwf2
  rw [step_congr _ (invT (unionSys s1 s2)) _ (union_lens h1 h2).2.1 (invModel_union_agrees h1 h2),
    step_congr _ (invT s1) s1 h1.llen (invModel_agrees h1),
    step_congr _ (invT s2) s2 h2.llen (invModel_agrees h2)]
  exact spring_step_components _ _ _ s1 s2 st1 st2 act1 act2 hwf1 hwf2 hg hst1 hst2 hact
    (invT_invSplit s1 s2 h1.plen h1.dlen)

/-- **C05, disconnected parts, one whole positional step — no hypothesis on `kinematics.inverse`** -/
theorem positional_step_components_invModel (s1 s2 : Sys ℝ) (st1 st2 : Positional.State ℝ)
    (act1 act2 : List ℝ) (hwf1 : s1.WF = true) (hwf2 : s2.WF = true) (hg : SameGlobalsP s1 s2)
    (hst1 : Positional.State.WF s1 st1 = true) (hst2 : Positional.State.WF s2 st2 = true)
    (hact : act1.length = s1.acts.length) :
    Positional.step (invModel (unionSys s1 s2)) (fun _ => []) (unionSys s1 s2) (unionStateP st1 st2)
        (act1 ++ act2)
      = unionStateP (Positional.step (invModel s1) (fun _ => []) s1 st1 act1)
          (Positional.step (invModel s2) (fun _ => []) s2 st2 act2) := by
  have h1 := WFParts.of_wf hwf1
  have h2 := WFParts.of_wf hwf2
  rw [pstep_congr _ (invT (unionSys s1 s2)) _ (union_lens h1 h2).2.1 (union_lens h1 h2).1
      (invModel_union_agrees h1 h2),
    pstep_congr _ (invT s1) s1 h1.llen h1.plen (invModel_agrees h1),
    pstep_congr _ (invT s2) s2 h2.llen h2.plen (invModel_agrees h2)]
  exact positional_step_components _ _ _ s1 s2 st1 st2 act1 act2 hwf1 hwf2 hg hst1 hst2 hact
    (invT_invSplit s1 s2 h1.plen h1.dlen)

/-- **C05, disconnected parts, any number of contact-free spring steps — no hypothesis on
`kinematics.inverse`** -/
theorem spring_trajectory_components_invModel (s1 s2 : Sys ℝ)
    (hwf1 : s1.WF = true) (hwf2 : s2.WF = true) (hg : SameGlobals s1 s2)
    (acts : List (List ℝ × List ℝ)) (hact : ∀ p ∈ acts, p.1.length = s1.acts.length)
    (st1 st2 : Spring.State ℝ) (hst1 : Spring.State.WF s1 st1 = true)
    (hst2 : Spring.State.WF s2 st2 = true) :
    steps (invModel (unionSys s1 s2)) (unionSys s1 s2) (unionState st1 st2) (acts.map fun p => p.1 ++ p.2)
      = unionState (steps (invModel s1) s1 st1 (acts.map (·.1)))
          (steps (invModel s2) s2 st2 (acts.map (·.2))) := by
  have h1 := WFParts.of_wf hwf1
  have h2 := WFParts.of_wf hwf2
  rw [steps_congr _ (invT (unionSys s1 s2)) _ (union_lens h1 h2).2.1 (invModel_union_agrees h1 h2),
    steps_congr _ (invT s1) s1 h1.llen (invModel_agrees h1),
    steps_congr _ (invT s2) s2 h2.llen (invModel_agrees h2)]
  exact spring_trajectory_components _ _ _ s1 s2 hwf1 hwf2 hg (invT_invSplit s1 s2 h1.plen h1.dlen)
    (invT_invLen s1 h1.dlen) (invT_invLen s2 h2.dlen) acts hact st1 st2 hst1 hst2

/-- **C05, disconnected parts, any number of contact-free positional steps — no hypothesis on
`kinematics.inverse`** -/
theorem positional_trajectory_components_invModel (s1 s2 : Sys ℝ)
    (hwf1 : s1.WF = true) (hwf2 : s2.WF = true) (hg : SameGlobalsP s1 s2)
    (acts : List (List ℝ × List ℝ)) (hact : ∀ p ∈ acts, p.1.length = s1.acts.length)
    (st1 st2 : Positional.State ℝ) (hst1 : Positional.State.WF s1 st1 = true)
    (hst2 : Positional.State.WF s2 st2 = true) :
    psteps (invModel (unionSys s1 s2)) (unionSys s1 s2) (unionStateP st1 st2)
        (acts.map fun p => p.1 ++ p.2)
      = unionStateP (psteps (invModel s1) s1 st1 (acts.map (·.1)))
          (psteps (invModel s2) s2 st2 (acts.map (·.2))) := by
  have h1 := WFParts.of_wf hwf1
  have h2 := WFParts.of_wf hwf2
  rw [psteps_congr _ (invT (unionSys s1 s2)) _ (union_lens h1 h2).2.1 (union_lens h1 h2).1
      (invModel_union_agrees h1 h2),
    psteps_congr _ (invT s1) s1 h1.llen h1.plen (invModel_agrees h1),
    psteps_congr _ (invT s2) s2 h2.llen h2.plen (invModel_agrees h2)]
  exact positional_trajectory_components _ _ _ s1 s2 hwf1 hwf2 hg (invT_invSplit s1 s2 h1.plen h1.dlen)
    (invT_invLen s1 h1.dlen) (invT_invLen s2 h2.dlen) acts hact st1 st2 hst1 hst2

/-- **C05, "mechanically disconnected parts of one model evolve exactly as each would alone"**, spring
pipeline, contact-free, `init` followed by any number of steps — **no hypothesis on `kinematics.inverse`** -/
theorem spring_whole_trajectory_components_invModel (s1 s2 : Sys ℝ)
    (hwf1 : s1.WF = true) (hwf2 : s2.WF = true) (hg : SameGlobals s1 s2)
    (hm : s1.springMassScale = s2.springMassScale)
    (acts : List (List ℝ × List ℝ)) (hact : ∀ p ∈ acts, p.1.length = s1.acts.length)
    (q1 q2 qd1 qd2 : List ℝ) (hq1 : q1.length = s1.nq) (hqd1 : qd1.length = s1.nv)
    (hq2 : q2.length = s2.nq) (hqd2 : qd2.length = s2.nv) :
    steps (invModel (unionSys s1 s2)) (unionSys s1 s2)
        (Spring.init (unionSys s1 s2) (q1 ++ q2) (qd1 ++ qd2)) (acts.map fun p => p.1 ++ p.2)
      = unionState (steps (invModel s1) s1 (Spring.init s1 q1 qd1) (acts.map (·.1)))
          (steps (invModel s2) s2 (Spring.init s2 q2 qd2) (acts.map (·.2))) := by
  have h1 := WFParts.of_wf hwf1
  have h2 := WFParts.of_wf hwf2
  rw [steps_congr _ (invT (unionSys s1 s2)) _ (union_lens h1 h2).2.1 (invModel_union_agrees h1 h2),
    steps_congr _ (invT s1) s1 h1.llen (invModel_agrees h1),
    steps_congr _ (invT s2) s2 h2.llen (invModel_agrees h2)]
  exact spring_whole_trajectory_components _ _ _ s1 s2 hwf1 hwf2 hg hm
    (invT_invSplit s1 s2 h1.plen h1.dlen) (invT_invLen s1 h1.dlen) (invT_invLen s2 h2.dlen) acts hact
    q1 q2 qd1 qd2 hq1 hqd1 hq2 hqd2

/-- the same for the positional pipeline -/
theorem positional_whole_trajectory_components_invModel (s1 s2 : Sys ℝ)
    (hwf1 : s1.WF = true) (hwf2 : s2.WF = true) (hg : SameGlobalsP s1 s2)
    (acts : List (List ℝ × List ℝ)) (hact : ∀ p ∈ acts, p.1.length = s1.acts.length)
    (q1 q2 qd1 qd2 : List ℝ) (hq1 : q1.length = s1.nq) (hqd1 : qd1.length = s1.nv)
    (hq2 : q2.length = s2.nq) (hqd2 : qd2.length = s2.nv) :
    psteps (invModel (unionSys s1 s2)) (unionSys s1 s2)
        (Positional.init (unionSys s1 s2) (q1 ++ q2) (qd1 ++ qd2)) (acts.map fun p => p.1 ++ p.2)
      = unionStateP (psteps (invModel s1) s1 (Positional.init s1 q1 qd1) (acts.map (·.1)))
          (psteps (invModel s2) s2 (Positional.init s2 q2 qd2) (acts.map (·.2))) := by
  have h1 := WFParts.of_wf hwf1
  have h2 := WFParts.of_wf hwf2
  rw [psteps_congr _ (invT (unionSys s1 s2)) _ (union_lens h1 h2).2.1 (union_lens h1 h2).1
      (invModel_union_agrees h1 h2),
    psteps_congr _ (invT s1) s1 h1.llen h1.plen (invModel_agrees h1),
    psteps_congr _ (invT s2) s2 h2.llen h2.plen (invModel_agrees h2)]
  exact positional_whole_trajectory_components _ _ _ s1 s2 hwf1 hwf2 hg
    (invT_invSplit s1 s2 h1.plen h1.dlen) (invT_invLen s1 h1.dlen) (invT_invLen s2 h2.dlen) acts hact
    q1 q2 qd1 qd2 hq1 hqd1 hq2 hqd2

/-! ## non-vacuity -/

/-- the motor of `exSys` reads and drives the hinge of link 1 (`q_id = 7`, `qd_id = 6`: the first entries
after the 7 + 6 coordinates of the free root) -/
theorem exSys_actsOnJoints : ActsOnJoints exSys := by
  intro a ha
  simp only [exSys, List.mem_singleton] at ha
  subst ha
  refine ⟨⟨1, 0, by decide, ?_, ?_, ?_⟩, ⟨1, 0, by decide, ?_, ?_, ?_⟩⟩ <;>
    simp [exSys, nth, off, LinkType.qWidth, LinkType.qdWidth]

/-- every hypothesis of `spring_steps_equivariant_invModel` and (apart from `TrajClear`, the known dead-zone
finding, provable on a jointed system only through trigonometric values) of
`positional_steps_equivariant_invModel` holds on the free root + hinged, motor-driven child `exSys` -/
example : exG.rot.IsUnit ∧ exSys.WF = true ∧ FreeRooted exSys ∧ ActsOnJoints exSys
    ∧ Spring.State.WF exSys exState = true ∧ Positional.State.WF exSys exStateP = true
    ∧ UnitRot exSys exStateP
    ∧ ActAgree exSys exState.q exState.qd [1, -2, 4, 3/5, 0, 0, 4/5, 0.3] [0, 0, 0, 0, 0, 0, 0.1] := by
  refine ⟨?_, exSys_wf, exSys_freeRooted, exSys_actsOnJoints, ?_, ?_, ?_, ?_⟩
  · simp only [Q4.IsUnit, Q4.normSq, exG]; norm_num
  · simp [Spring.State.WF, exSys, exState, Sys.numLinks, Sys.nq, Sys.nv, LinkType.qWidth, LinkType.qdWidth]
  · simp [Positional.State.WF, exSys, exStateP, exState, Sys.numLinks, Sys.nq, Sys.nv, LinkType.qWidth,
      LinkType.qdWidth]
  · intro i hi
    have hi' : i < 2 := hi
    match i, hi' with
    | 0, _ => simp [nth, exStateP, exState, Q4.IsUnit, Q4.normSq, Q4.one]
    | 1, _ => simp [nth, exStateP, exState, Q4.IsUnit, Q4.normSq, Q4.one]
  · intro a ha
    simp only [exSys, List.mem_singleton] at ha
    subst ha
    simp [nthS, exState]

/-- every hypothesis of `spring_trajectory_equivariant_invModel` holds on `exSys` (a jointed, actuated
system), the transform `exG` and the transformed coordinates written out as numbers -/
example : exG.rot.IsUnit ∧ exSys.WF = true ∧ FreeRooted exSys ∧ ActsOnJoints exSys
    ∧ ParentsWF exSys.parents
    ∧ (∀ x ∈ exSys.parents.zip (exSys.links.zip
          (linkSlices exSys.types [0, 0, 1, 1, 0, 0, 0, 0.3] [1, 0, 0, 0, 0, 0.5, 0.1] exSys.dofs)),
        LinkOK x.1 x.2.1 x.2.2 ∧ (x.1 < 0 → x.2.2.typ = .free))
    ∧ linkSlices exSys.types [1, -2, 4, 3/5, 0, 0, 4/5, 0.3] [-7/25, 24/25, 0, 0, 0, 0.5, 0.1] exSys.dofs
        = (linkSlices exSys.types [0, 0, 1, 1, 0, 0, 0, 0.3] [1, 0, 0, 0, 0, 0.5, 0.1] exSys.dofs).map
            (xformIn exG) := by
  refine ⟨?_, exSys_wf, exSys_freeRooted, exSys_actsOnJoints, ?_, ?_, ?_⟩
  · simp only [Q4.IsUnit, Q4.normSq, exG]; norm_num
  · intro i hi
    have hi' : i < 2 := hi
    match i, hi' with
    | 0, _ => simp [exSys]
    | 1, _ => simp [exSys]
  · intro x hx
    simp only [exSys, linkSlices, List.zip_cons_cons, List.zip_nil_right, List.mem_cons,
      List.not_mem_nil, or_false, LinkType.qWidth, LinkType.qdWidth] at hx
    rcases hx with rfl | rfl
    · refine ⟨⟨?_, rfl, ?_, ?_⟩, fun _ => rfl⟩
      · simp [exLink, Tf.id, Q4.IsUnit, Q4.normSq, Q4.one]
      · intro _
        refine ⟨by norm_num, rfl, rfl, by simp, 0, 0, 1, 1, 0, 0, 0, by simp, ?_⟩
        simp [Q4.IsUnit, Q4.normSq]
      · intro h; simp at h
    · refine ⟨⟨?_, rfl, ?_, ?_⟩, fun h => by norm_num at h⟩
      · simp [exLink, Tf.id, Q4.IsUnit, Q4.normSq, Q4.one]
      · intro h; simp at h
      · intro _
        refine ⟨by simp, by simp, ?_⟩
        intro dq hdq
        simp only [List.drop, List.take, List.zip_cons_cons, List.zip_nil_right, List.mem_singleton] at hdq
        subst hdq
        left
        simp [IsHinge, exDof, V3.dot]
  · simp only [exSys, linkSlices, LinkType.qWidth, LinkType.qdWidth, List.map_cons, List.map_nil,
      xformIn, exG]
    simp only [List.take, List.drop, Tf.doTf, rotate, quatMul, V3.dot, V3.cross, Q4.vec, V3.add_def]
    norm_num

/-- **all** hypotheses of `positional_trajectory_equivariant_invModel` (including `TrajClear` with the model of
`kinematics.inverse`, for every control sequence) hold on the single free body `exSys1` -/
example (acts : List (List ℝ)) : exG.rot.IsUnit ∧ exSys1.WF = true ∧ FreeRooted exSys1
    ∧ ActsOnJoints exSys1 ∧ ParentsWF exSys1.parents
    ∧ (∀ x ∈ exSys1.parents.zip (exSys1.links.zip
          (linkSlices exSys1.types [0, 0, 1, 1, 0, 0, 0] [1, 0, 0, 0, 0, 0.5] exSys1.dofs)),
        LinkOK x.1 x.2.1 x.2.2 ∧ (x.1 < 0 → x.2.2.typ = .free))
    ∧ linkSlices exSys1.types [1, -2, 4, 3/5, 0, 0, 4/5] [-7/25, 24/25, 0, 0, 0, 0.5] exSys1.dofs
        = (linkSlices exSys1.types [0, 0, 1, 1, 0, 0, 0] [1, 0, 0, 0, 0, 0.5] exSys1.dofs).map (xformIn exG)
    ∧ (∀ st, TrajClear (invModel exSys1) exSys1 st acts) := by
  have hfree : ∀ i, i < exSys1.numLinks → exSys1.types[i]? = some .free := by
    intro i hi
    have hi' : i < 1 := hi
    match i, hi' with
    | 0, _ => simp [exSys1]
  refine ⟨?_, ?_, exSys1_freeRooted, ?_, ?_, ?_, ?_, ?_⟩
  · simp only [Q4.IsUnit, Q4.normSq, exG]; norm_num
  · simp [Sys.WF, exSys1, exSys, Sys.nq, Sys.nv, LinkType.qWidth, LinkType.qdWidth, List.range_succ]
  · intro a ha; simp [exSys1] at ha
  · intro i hi
    have hi' : i < 1 := hi
    match i, hi' with
    | 0, _ => simp [exSys1]
  · intro x hx
    simp only [exSys1, exSys, linkSlices, List.zip_cons_cons, List.zip_nil_right, List.mem_singleton,
      LinkType.qWidth, LinkType.qdWidth] at hx
    subst hx
    refine ⟨⟨?_, rfl, ?_, ?_⟩, fun _ => rfl⟩
    · simp [exLink, Tf.id, Q4.IsUnit, Q4.normSq, Q4.one]
    · intro _
      refine ⟨by norm_num, rfl, rfl, by simp, 0, 0, 1, 1, 0, 0, 0, by simp, ?_⟩
      simp [Q4.IsUnit, Q4.normSq]
    · intro h; simp at h
  · simp only [exSys1, exSys, linkSlices, LinkType.qWidth, LinkType.qdWidth, List.map_cons, List.map_nil,
      xformIn, exG]
    simp only [List.take, Tf.doTf, rotate, quatMul, V3.dot, V3.cross, Q4.vec, V3.add_def]
    norm_num
  · induction acts with
    | nil => intro st; trivial
    | cons a as ih => intro st; exact ⟨dispClear_of_free exSys1 st a hfree, ih _⟩

/-- every hypothesis of the six components theorems holds for two copies of `exSys` (the union is a 4-link,
2-actuator model), any controls of the right length, and the state / coordinates of `exState` -/
example (us : List (ℝ × ℝ)) :
    exSys.WF = true ∧ SameGlobals exSys exSys ∧ SameGlobalsP exSys exSys
    ∧ exSys.springMassScale = exSys.springMassScale
    ∧ Spring.State.WF exSys exState = true ∧ Positional.State.WF exSys exStateP = true
    ∧ ([0.5] : List ℝ).length = exSys.acts.length
    ∧ (∀ p ∈ us.map (fun u => ([u.1], [u.2])), p.1.length = exSys.acts.length)
    ∧ exState.q.length = exSys.nq ∧ exState.qd.length = exSys.nv := by
  refine ⟨exSys_wf, ⟨rfl, rfl, rfl, rfl, rfl, rfl⟩, ⟨⟨rfl, rfl, rfl, rfl, rfl, rfl⟩, rfl, rfl, rfl⟩, rfl,
    ?_, ?_, rfl, ?_, ?_, ?_⟩
  · simp [Spring.State.WF, exSys, exState, Sys.numLinks, Sys.nq, Sys.nv, LinkType.qWidth, LinkType.qdWidth]
  · simp [Positional.State.WF, exSys, exStateP, exState, Sys.numLinks, Sys.nq, Sys.nv, LinkType.qWidth,
      LinkType.qdWidth]
  · intro p hp
    obtain ⟨u, _, rfl⟩ := List.mem_map.mp hp
    rfl
  · simp [exState, exSys, Sys.nq, LinkType.qWidth]
  · simp [exState, exSys, Sys.nv, LinkType.qdWidth]

/-- `invModel_not_invSplit` applies to two copies of `exSys`: the literal `InvSplit` fails for the model -/
example : ¬ InvSplit exSys.numLinks (invModel (unionSys exSys exSys)) (invModel exSys) (invModel exSys) :=
  invModel_not_invSplit exSys exSys exSys_wf (by simp [exSys, Sys.nq, LinkType.qWidth])
    (by simp [exSys, Sys.numLinks])

/-! ## the literal `InvLocal` is false of the model; `ActsOnJoints` is necessary -/

theorem exRow_qd :
    nthS (linkInv (invRow exSys [Tf.id, Tf.id] [0, ⟨⟨0, 0, 1⟩, ⟨0, 0, 0⟩⟩] 1)).2 0 = 1 := by
  have hrow : invRow exSys [Tf.id, Tf.id] [0, ⟨⟨0, 0, 1⟩, ⟨0, 0, 0⟩⟩] 1
      = (⟨.one, [], [], [exDof ⟨0, 0, 1⟩ ⟨0, 0, 0⟩]⟩, 0, Tf.id, ⟨⟨0, 0, 1⟩, ⟨0, 0, 0⟩⟩) := by
    simp [invRow, exSys, linkSlices, nth, parentOf, LinkType.qWidth, LinkType.qdWidth]
  rw [hrow]
  have e1 : eqZero (1 : ℝ) = false := by
    rw [Bool.eq_false_iff]; intro hc; rw [eqZero_iff] at hc; exact one_ne_zero hc
  simp [linkInv, Inv.inverseLink, Inv.xDof, Inv.linkToJointFrame, Inv.axisAngleAng, Inv.v3Any, exDof,
    LinkType.qdWidth, nthS, Tf.id, Q4.one, rotate, invRotate, quatInv, V3.dot, V3.cross, Q4.vec, e1]

/-- the literal `InvLocal` is **false** of the model on `exSys`: `j`, `jd` with one row too many make the shape
check fail (`([], [])`, so the motor reads `0`), while their first two rows `j'`, `jd'` — which "agree with them
on every non-root row" — give the hinge rate `1` -/
theorem invModel_not_invLocal : ¬ InvLocal exSys (invModel exSys) := by
  intro h
  have e := (h [Tf.id, Tf.id, Tf.id] [Tf.id, Tf.id] [0, ⟨⟨0, 0, 1⟩, ⟨0, 0, 0⟩⟩, 0]
    [0, ⟨⟨0, 0, 1⟩, ⟨0, 0, 0⟩⟩] (by
      intro i hi _
      have hi' : i < 2 := hi
      match i, hi' with
      | 0, _ => exact ⟨rfl, rfl⟩
      | 1, _ => exact ⟨rfl, rfl⟩) ⟨7, 6, none, none, none, none, 1, 1, 0, 0⟩ (by simp [exSys])).2
  have hP := WFParts.of_wf exSys_wf
  have h0 : invModel exSys [Tf.id, Tf.id, Tf.id] [0, ⟨⟨0, 0, 1⟩, ⟨0, 0, 0⟩⟩, 0] = ([], []) := by
    unfold invModel Inv.inverse
    rw [if_pos (Or.inl (by simp [exSys]))]
    rfl
  rw [h0, invModel_agrees hP _ _ rfl rfl] at e
  have h1 := invT_qd_at exSys hP.dlen [Tf.id, Tf.id] [0, ⟨⟨0, 0, 1⟩, ⟨0, 0, 0⟩⟩] (i := 1) (r := 0)
    (by decide) (by simp [exSys, nth, LinkType.qdWidth])
  have h6 : off LinkType.qdWidth exSys.types 1 + 0 = 6 := by
    simp [off, exSys, LinkType.qdWidth]
  rw [h6, exRow_qd] at h1
  rw [h1] at e
  simp [nthS] at e

/-- `exSys` with the motor moved to the first coordinate of the free root (`q_id = 0`, `qd_id = 0`: the root's
world `x` position and velocity) -/
noncomputable def exSysRootAct : Sys ℝ := { exSys with acts := [⟨0, 0, none, none, none, none, 1, 1, 0, 0⟩] }

/-- **`ActsOnJoints` is necessary**: with an actuator on a coordinate of the free root, `kinematics.inverse`
applied to two full joint arrays that agree on every non-root row gives different actuated coordinates (the
actuator reads the root's world position) -/
theorem actsOnJoints_needed :
    exSysRootAct.WF = true ∧ FreeRooted exSysRootAct ∧
    ∃ (j j' : List (Tf ℝ)) (jd jd' : List (Motion ℝ)),
      j.length = exSysRootAct.numLinks ∧ jd.length = exSysRootAct.numLinks
      ∧ j'.length = exSysRootAct.numLinks ∧ jd'.length = exSysRootAct.numLinks
      ∧ (∀ i, i < exSysRootAct.numLinks → ¬ parentOf exSysRootAct.parents i < 0 →
          nth j' i = nth j i ∧ nth jd' i = nth jd i)
      ∧ ¬ ActAgree exSysRootAct (invModel exSysRootAct j jd).1 (invModel exSysRootAct j jd).2
            (invModel exSysRootAct j' jd').1 (invModel exSysRootAct j' jd').2 := by
  have hwf : exSysRootAct.WF = true := by
    simp [Sys.WF, exSysRootAct, exSys, Sys.nq, Sys.nv, LinkType.qWidth, LinkType.qdWidth, List.range_succ]
    decide
  have hfr : FreeRooted exSysRootAct := ⟨exSys_freeRooted.hlen, exSys_freeRooted.hpar, exSys_freeRooted.hroot⟩
  refine ⟨hwf, hfr, [Tf.id, Tf.id], [⟨⟨1, 0, 0⟩, Q4.one⟩, Tf.id], [0, 0], [0, 0], rfl, rfl, rfl, rfl, ?_, ?_⟩
  · intro i hi hr
    have hi' : i < 2 := hi
    match i, hi' with
    | 0, _ => exact absurd (by simp [parentOf, exSysRootAct, exSys]) hr
    | 1, _ => exact ⟨rfl, rfl⟩
  · intro h
    have e := (h ⟨0, 0, none, none, none, none, 1, 1, 0, 0⟩ (by simp [exSysRootAct])).1
    have hP := WFParts.of_wf hwf
    rw [invModel_agrees hP _ _ rfl rfl, invModel_agrees hP _ _ rfl rfl] at e
    have h1 := invT_q_at exSysRootAct hP.dlen [Tf.id, Tf.id] [0, 0] (i := 0) (r := 0)
      (by decide) (by simp [exSysRootAct, exSys, nth, LinkType.qWidth])
    have h2 := invT_q_at exSysRootAct hP.dlen [⟨⟨1, 0, 0⟩, Q4.one⟩, Tf.id] [0, 0] (i := 0) (r := 0)
      (by decide) (by simp [exSysRootAct, exSys, nth, LinkType.qWidth])
    have h0 : off LinkType.qWidth exSysRootAct.types 0 + 0 = 0 := by simp [off]
    rw [h0] at h1 h2
    rw [h1, h2] at e
    simp [invRow, linkInv, Inv.inverseLink, Inv.free, exSysRootAct, exSys, linkSlices, nth, nthS, Tf.id,
      LinkType.qWidth, LinkType.qdWidth, V3.zero] at e

end Brax.C05
