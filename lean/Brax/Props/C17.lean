import Brax.Lemmas.C17
/-!
# C17 — replay buffers behave as bounded FIFO queues with faithful sampling

Model: `Brax/Model/C17.lean` (what `brax/training/replay_buffers.py` does: roll, clamped
update-slice, positions, `% (cap+1)`, wrap-around `take`, `jnp` remainder, the python-side
`_size` counter and its guards, reshape/swapaxes of the wrappers).
Spec: `Brax/Spec/C17.lean` (`Fifo`: the held records, oldest first, and a read cursor).

Every theorem quantifies over **all** capacities, batch sizes, modes, zero records, shard counts
and **all** operation histories (`ops : List (Op …)`, proved by induction over the history in
`Brax/Lemmas/C17.lean`); nothing is bounded.  No Mathlib is needed.

Reading guide (`K = queueKind cap B cyc`, `b` the state after history `ops` from `init`,
`f` the abstract FIFO after the same history):

* `queue_refines_fifo`     every observation (outcome, batch, size) equals the FIFO's
* `insert_refines`         `data.take ip` = the last `min cap n` accepted records in order, `ip = min cap n ≤ cap`
* `queue_sample_fifo`      what a sample returns (non-cyclic: oldest unsampled; cyclic: `held[(cur+i) % |held|]`)
* `size_eq`                `size` = number still available
* `hostSize_eq`, `sample_refused_iff`, `insert_refused_iff`   the host guards
* `uniform_*`              uniform queue: held records only, `sp = 0`, a function of state and indices
* `uniform_empty_returns_unheld`   **defect witness (F7)**: the empty uniform queue hands out a row
* `sharded_*`              wrappers = product of independent queues, dealing and interleaving
* `sharded_indivisible_desync`     observation outside the quantifier (batch not divisible by `D`)
-/
namespace Brax.C17
variable {α ι : Type}

/-! ## the plain queue -/

/-- **Trace refinement.**  For every capacity, batch size, mode and history, the guarded `Queue`
(public `insert`/`sample`/`size`) produces exactly the observations of the abstract bounded FIFO,
and ends in a state related to the FIFO's by `Rel`. -/
theorem queue_refines_fifo (cap B : Nat) (cyc : Bool) (z : α) (ops : List (Op α Unit)) :
    (Buf.run (queueKind cap B cyc) (Buf.init cap z) ops).1 = (Fifo.run cap B cyc Fifo.empty ops).1 ∧
    Rel cap cyc (Buf.run (queueKind cap B cyc) (Buf.init cap z) ops).2
      (Fifo.run cap B cyc Fifo.empty ops).2 :=
  run_refines cap B cyc ops _ _ (Rel.init cap cyc z)

/-- the abstract FIFO holds the last `min cap n` accepted records (pure spec fact) -/
theorem fifo_held_eq (cap B : Nat) (cyc : Bool) (ops : List (Op α Unit)) :
    (Fifo.run cap B cyc Fifo.empty ops).2.held = lastN cap (inserted cap ops) := by
  have := Fifo.run_held cap B cyc ops (Fifo.empty : Fifo α) [] (by simp [Fifo.empty, lastN])
  simpa using this

/-- **`insert_refines`.**  After any history the first `insert_position` rows of the storage are
the most recent `min cap n` accepted records, oldest first; `insert_position = min cap n ≤ cap`;
the storage keeps its length. -/
theorem insert_refines (cap B : Nat) (cyc : Bool) (z : α) (ops : List (Op α Unit)) :
    let b := (Buf.run (queueKind cap B cyc) (Buf.init cap z) ops).2
    b.core.data.take b.core.ip = lastN cap (inserted cap ops) ∧
    b.core.ip = min cap (inserted cap ops).length ∧
    b.core.ip ≤ cap ∧ b.core.data.length = cap := by
  intro b
  have h := (queue_refines_fifo cap B cyc z ops).2
  have hh := fifo_held_eq cap B cyc ops
  have hip := h.ip_eq
  refine ⟨by rw [h.held, hh], ?_, h.ip_le, h.len⟩
  show b.core.ip = _
  rw [← hip, hh]
  simp only [lastN, List.length_drop]
  omega

/-- **`queue_sample_fifo`.**  In the state reached by any history, `sample` is refused exactly when
fewer than `B` records are available; otherwise it returns, non-cyclic, the `B` oldest unsampled
held records in order (`(held.drop cur).take B`) and, cyclic, `held[(cur + i) mod |held|]` for
`i < B`.  (`held = lastN cap (inserted cap ops)` by `fifo_held_eq`.) -/
theorem queue_sample_fifo (cap B : Nat) (cyc : Bool) (z : α) (ops : List (Op α Unit)) :
    let b := (Buf.run (queueKind cap B cyc) (Buf.init cap z) ops).2
    let f := (Fifo.run cap B cyc Fifo.empty ops).2
    (Buf.sample (queueKind cap B cyc) b ()).1 = (if f.avail cyc < B then .refuseSample else .ok) ∧
    (Buf.sample (queueKind cap B cyc) b ()).2.2 =
      (if f.avail cyc < B then []
       else if cyc then (List.range B).filterMap fun i => f.held[(f.cur + i) % f.held.length]?
       else (f.held.drop f.cur).take B) := by
  intro b f
  have h := (queue_refines_fifo cap B cyc z ops).2
  have hs := (sample_refines_step cap B cyc b f h).1
  have e1 : (Buf.step (queueKind cap B cyc) b (.smp ())).1.outcome =
      (Buf.sample (queueKind cap B cyc) b ()).1 := rfl
  have e2 : (Buf.step (queueKind cap B cyc) b (.smp ())).1.out =
      (Buf.sample (queueKind cap B cyc) b ()).2.2 := rfl
  rw [← e1, ← e2, hs]
  by_cases hB : f.avail cyc < B
  · simp [Fifo.step, Fifo.sample, hB]
  · cases cyc <;> simp [Fifo.step, Fifo.sample, hB]

/-- **`size_eq`.**  `Queue.size` = number of records still available: `|held| - cur` (non-cyclic),
`|held|` (cyclic); in particular it is never negative in a reachable state. -/
theorem size_eq (cap B : Nat) (cyc : Bool) (z : α) (ops : List (Op α Unit)) :
    let b := (Buf.run (queueKind cap B cyc) (Buf.init cap z) ops).2
    let f := (Fifo.run cap B cyc Fifo.empty ops).2
    queueSize cyc b.core = (f.avail cyc : Int) :=
  (queue_refines_fifo cap B cyc z ops).2.size_eq

/-- **`hostSize_eq`.**  The python-side counter `_size` equals the number of available records in
every reachable state. -/
theorem hostSize_eq (cap B : Nat) (cyc : Bool) (z : α) (ops : List (Op α Unit)) :
    (Buf.run (queueKind cap B cyc) (Buf.init cap z) ops).2.host =
      (Fifo.run cap B cyc Fifo.empty ops).2.avail cyc :=
  (queue_refines_fifo cap B cyc z ops).2.host

/-- … so `check_can_sample` refuses exactly when fewer than `B` records are available
(`size`, read off the device state, is that number by `size_eq`). -/
theorem sample_refused_iff (cap B : Nat) (cyc : Bool) (z : α) (ops : List (Op α Unit)) :
    let b := (Buf.run (queueKind cap B cyc) (Buf.init cap z) ops).2
    (Buf.sample (queueKind cap B cyc) b ()).1 = .refuseSample ↔ queueSize cyc b.core < (B : Int) := by
  intro b
  have h1 := (queue_sample_fifo cap B cyc z ops).1
  have h2 := size_eq cap B cyc z ops
  simp only at h1 h2
  rw [h1, h2]
  by_cases hB : (Fifo.run cap B cyc Fifo.empty ops).2.avail cyc < B
  · simp [hB]
  · simp [hB]

/-- … and `check_can_insert` refuses exactly when the batch is larger than the capacity
(in every state, reachable or not). -/
theorem insert_refused_iff (cap B : Nat) (cyc : Bool) (b : Buf α) (xs : List α) :
    (Buf.insert (queueKind cap B cyc) b xs).1 = .refuseInsert ↔ cap < xs.length := by
  by_cases hk : cap < xs.length <;> simp [Buf.insert, checkCanInsert, queueKind, hk]

/-- a refused operation leaves storage, positions and the host counter unchanged -/
theorem refused_unchanged (cap B : Nat) (cyc : Bool) (b : Buf α) (op : Op α Unit)
    (h : (Buf.step (queueKind cap B cyc) b op).1.outcome ≠ .ok) :
    (Buf.step (queueKind cap B cyc) b op).2 = b := by
  cases op with
  | ins xs =>
    by_cases hk : cap < xs.length
    · simp [Buf.step, Buf.insert, checkCanInsert, queueKind, hk]
    · exact absurd (by simp [Buf.step, Buf.insert, checkCanInsert, queueKind, hk]) h
  | smp u =>
    by_cases hB : b.host < B
    · simp [Buf.step, Buf.sample, queueCanSample, queueKind, hB]
    · exact absurd (by simp [Buf.step, Buf.sample, queueCanSample, queueKind, hB]) h

/-! ### non-vacuity -/

/-- a history with an overflowing insert after partial sampling (cap 4, batch 2, non-cyclic) -/
example :
    (Buf.run (queueKind 4 2 false) (Buf.init 4 (0 : Nat))
      [.ins [1, 2, 3], .smp (), .ins [4, 5, 6], .smp (), .smp (), .smp (), .ins [7, 8, 9, 10, 11]]) =
    ([⟨.ok, [], 3⟩, ⟨.ok, [1, 2], 1⟩, ⟨.ok, [], 4⟩, ⟨.ok, [3, 4], 2⟩, ⟨.ok, [5, 6], 0⟩,
      ⟨.refuseSample, [], 0⟩, ⟨.refuseInsert, [], 0⟩],
     ⟨⟨[3, 4, 5, 6], 4, 4⟩, 0⟩) := by decide

/-- cyclic mode: the docstring example of `Queue` (`[0,1], [2,0], [1,2]`) and an overflow -/
example :
    ((Buf.run (queueKind 3 2 true) (Buf.init 3 (0 : Nat))
      [.ins [10, 11, 12], .smp (), .smp (), .smp (), .ins [13], .smp ()]).1.map (·.out)) =
    [[], [10, 11], [12, 10], [11, 12], [], [11, 12]] := by decide

/-! ## the uniform queue -/

/-- **`uniform_sample_held`.**  After any history: `sample_position` is 0, the held records are
`lastN cap (inserted cap ops)`, `sample` never refuses and leaves the state (but the key) unchanged;
if the buffer is non-empty and the drawn indices lie in `[sample_position, insert_position)`
then exactly one record per index is returned and every returned record is currently held. -/
theorem uniform_sample_held (cap : Nat) (z : α) (ops : List (Op α (List Nat))) (idx : List Nat) :
    let b := (Buf.run (uniformKind cap) (Buf.init cap z) ops).2
    b.core.sp = 0 ∧
    b.core.data.take b.core.ip = lastN cap (inserted cap ops) ∧
    b.core.ip = min cap (inserted cap ops).length ∧
    ((∀ i ∈ idx, b.core.sp ≤ i ∧ i < b.core.ip) →
      (Buf.sample (uniformKind cap) b idx).1 = .ok ∧
      (Buf.sample (uniformKind cap) b idx).2.1 = b ∧
      (Buf.sample (uniformKind cap) b idx).2.2.length = idx.length ∧
      ∀ x ∈ (Buf.sample (uniformKind cap) b idx).2.2, x ∈ lastN cap (inserted cap ops)) := by
  intro b
  have h := uniform_run_inv cap ops (Buf.init cap z) [] (UInv.init cap z)
  simp only [List.nil_append] at h
  refine ⟨h.sp0, h.held, ?_, ?_⟩
  · show b.core.ip = _
    rw [← h.ip_eq]
    simp only [lastN, List.length_drop]
    omega
  · intro hidx
    obtain ⟨e, hl, hm⟩ := uniform_sample_mem cap b _ h idx (fun i hi => (hidx i hi).2)
    rw [e]
    exact ⟨rfl, rfl, hl, hm⟩

/-- the returned batch is a function of the storage and the drawn indices only (the indices are a
function of the key: `jax.random.split` / `randint`, trusted) -/
theorem uniform_sample_fn (cap : Nat) (b₁ b₂ : Buf α) (idx : List Nat)
    (h : b₁.core.data = b₂.core.data) :
    (Buf.sample (uniformKind cap) b₁ idx).2.2 = (Buf.sample (uniformKind cap) b₂ idx).2.2 := by
  simp [Buf.sample, uniformKind, uniformSampleInternal, h]

/-- **Defect witness (candidate finding F7).**  `UniformSamplingQueue` has no `check_can_sample`:
on the empty buffer (`randint(minval=0, maxval=0)` yields index 0) `sample` succeeds and hands out
the zero-initialised storage row although nothing is held. -/
theorem uniform_empty_returns_unheld :
    Buf.sample (uniformKind 4) (Buf.init 4 (0 : Int)) [0, 0, 0] =
      (.ok, Buf.init 4 (0 : Int), [0, 0, 0]) ∧
    lastN 4 (inserted 4 ([] : List (Op Int (List Nat)))) = [] := by decide

/-- non-vacuity of `uniform_sample_held`: a rolled buffer, indices in range -/
example :
    (Buf.run (uniformKind 3) (Buf.init 3 (0 : Nat))
      [.ins [1, 2], .smp [1, 0, 1], .ins [3, 4], .smp [2, 0, 0]]) =
    ([⟨.ok, [], 2⟩, ⟨.ok, [2, 1, 2], 2⟩, ⟨.ok, [], 3⟩, ⟨.ok, [4, 2, 2], 3⟩], ⟨⟨[2, 3, 4], 3, 0⟩, 3⟩) := by
  decide

/-! ## the wrappers -/

/-- **`sharded_eq_product`.**  For every buffer class `K` (plain or uniform queue), every shard
count `D > 0` and every history whose insert batches are multiples of `D`, `PmapWrapper` /
`PjitWrapper` produce exactly the observations of `D` independent guarded buffers (`prodRun`:
each with its *own* host counter, shard `d` seeing `projOp D d op`), end with these buffers'
storages, and the one shared host counter equals each of theirs. -/
theorem sharded_eq_product (K : Kind α ι) (D : Nat) (hD : 0 < D) (z : α)
    (ops : List (Op α (Nat → ι))) (hwf : ∀ xs, Op.ins xs ∈ ops → xs.length % D = 0) :
    (ShBuf.run K (ShBuf.init K.cap D z) ops).1 =
      (prodRun K D (List.replicate D (Buf.init K.cap z)) ops).1 ∧
    (prodRun K D (List.replicate D (Buf.init K.cap z)) ops).2 =
      (ShBuf.run K (ShBuf.init K.cap D z) ops).2.shards.map
        (⟨·, (ShBuf.run K (ShBuf.init K.cap D z) ops).2.host⟩) := by
  have h := shRun_product K ops (ShBuf.init K.cap D z) (by simp [ShBuf.init, hD])
    (by simpa [ShBuf.init] using hwf)
  have e : (ShBuf.init K.cap D z).shards.map (⟨·, (ShBuf.init K.cap D z).host⟩) =
      List.replicate D (Buf.init K.cap z) := by
    simp [ShBuf.init, Buf.init]
  have el : (ShBuf.init K.cap D z).shards.length = D := by simp [ShBuf.init]
  rw [el, e] at h
  exact ⟨h.1, h.2.1⟩

/-- **Shard `d` is an independent queue.**  Its storage after a wrapper history is the storage of a
stand-alone guarded buffer fed the dealt batches (`dealAt D d xs`) and its own samples, and the
shared host counter is that buffer's counter. -/
theorem sharded_shard_eq_queue (K : Kind α ι) (D : Nat) (z : α)
    (ops : List (Op α (Nat → ι))) (hwf : ∀ xs, Op.ins xs ∈ ops → xs.length % D = 0)
    (d : Nat) (hd : d < D) :
    let sb := (ShBuf.run K (ShBuf.init K.cap D z) ops).2
    let b := (Buf.run K (Buf.init K.cap z) (ops.map (projOp D d))).2
    sb.shards[d]? = some b.core ∧ sb.host = b.host := by
  intro sb b
  have h := (sharded_eq_product K D (by omega) z ops hwf).2
  have hg := prodRun_getElem? K D ops (List.replicate D (Buf.init K.cap z)) (by simp) d hd
  rw [h] at hg
  simp only [List.getElem?_map, List.getElem?_replicate, hd, if_true, Option.map_some] at hg
  cases hs : sb.shards[d]? with
  | none => rw [hs] at hg; simp at hg
  | some c =>
    rw [hs] at hg
    simp only [Option.map_some, Option.some.injEq] at hg
    have : (⟨c, sb.host⟩ : Buf α) = b := hg
    rw [← this]
    exact ⟨rfl, rfl⟩

/-- dealing: record `i * D + d` of an inserted batch is slot `i` of shard `d`'s batch
(record `j` goes to shard `j mod D`) -/
theorem sharded_deal (D d : Nat) (xs : List α) (hd : d < D) (i : Nat) (hi : i < xs.length / D) :
    (dealAt D d xs)[i]? = xs[i * D + d]? ∧ (dealAt D d xs).length = xs.length / D :=
  ⟨getElem?_dealAt D d xs hd i hi, length_dealAt D d xs hd⟩

/-- interleaving: output position `i * D + d` of a wrapped sample is record `i` of shard `d` -/
theorem sharded_interleave (rows : List (List α)) (B : Nat) (hB : ∀ r ∈ rows, r.length = B)
    (d i : Nat) (hd : d < rows.length) (hi : i < B) :
    (interleave rows)[i * rows.length + d]? = (rows[d]?).bind fun r => r[i]? :=
  getElem?_interleave rows B hB d i hd hi

/-- the wrapper's `size` is the sum of the shards' sizes (`psum` / `jnp.sum`), in every state -/
theorem sharded_size_eq_sum (K : Kind α ι) (sb : ShBuf α) :
    sb.size K = (sb.shards.map K.size).sum := rfl

/-- with `sharded_shard_eq_queue` and `size_eq`: every summand of the wrapped plain queue's `size`
is the number of records still available in that shard's FIFO. -/
theorem sharded_queue_size (cap B : Nat) (cyc : Bool) (D : Nat) (z : α)
    (ops : List (Op α (Nat → Unit))) (hwf : ∀ xs, Op.ins xs ∈ ops → xs.length % D = 0) :
    let sb := (ShBuf.run (queueKind cap B cyc) (ShBuf.init cap D z) ops).2
    ∀ d, d < D → ∀ c, sb.shards[d]? = some c →
      queueSize cyc c =
        ((Fifo.run cap B cyc Fifo.empty (ops.map (projOp D d))).2.avail cyc : Int) := by
  intro sb d hd c hc
  have h := (sharded_shard_eq_queue (queueKind cap B cyc) D z ops hwf d hd).1
  have hc' : sb.shards[d]? = some c := hc
  have h' : sb.shards[d]? =
      some (Buf.run (queueKind cap B cyc) (Buf.init cap z) (ops.map (projOp D d))).2.core := h
  rw [hc'] at h'
  rw [Option.some.inj h']
  exact size_eq cap B cyc z (ops.map (projOp D d))

/-- **Observation outside the quantifier.**  When a wrapped insert batch is *not* a multiple of
`D`, `check_can_insert` has already counted `k // D` records when `reshape(-1, D)` raises: the
storage is unchanged but the host counter is not, so the next `sample` passes the guard on
empty shards and returns zero rows (model witness; reproduced on the real code by the harness). -/
theorem sharded_indivisible_desync :
    (ShBuf.run (queueKind 2 1 false) (ShBuf.init 2 2 (0 : Nat))
      [.ins [1, 2, 3], .smp fun _ => ()]).1 =
    [⟨.reshapeError, [], 0⟩, ⟨.ok, [0, 0], -2⟩] := by decide

/-- non-vacuity of the wrapper theorems: 2 shards, capacity 2 per shard, an overflowing insert -/
example :
    (ShBuf.run (queueKind 2 1 false) (ShBuf.init 2 2 (0 : Nat))
      [.ins [1, 2, 3, 4], .smp fun _ => (), .ins [5, 6], .smp fun _ => ()]) =
    ([⟨.ok, [], 4⟩, ⟨.ok, [1, 2], 2⟩, ⟨.ok, [], 4⟩, ⟨.ok, [3, 4], 2⟩],
     ⟨[⟨[3, 5], 2, 1⟩, ⟨[4, 6], 2, 1⟩], 1⟩) := by decide

end Brax.C17
