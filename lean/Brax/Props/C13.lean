import Brax.Lemmas.C13
import Mathlib.Tactic.NormNum
import Mathlib.Algebra.BigOperators.Group.List.Basic
/-!
# C13 — Fusing jointless bodies on load preserves the model's geometry

Model (`Brax/Model/C13.lean`): `fuse = fuseWith guardPinned` mirrors `mjcf._fuse_bodies` /
`_offset` / `_transform_do` **as they are in the pinned tree**; `fuseFixed = fuseWith guardFixed`
is the same code with the candidate patch for defect D5 (`notes/candidate-fixes.diff`).
Spec (`Brax/Spec/C13.lean`): `docEntries d` lists, for every geom / site / camera / jointed
body, the jointed body it is rigidly attached to and its pose relative to that body, with
MuJoCo's semantics (quaternions are normalised); `relPose d kind name` looks one element up.

All theorems are for **every document** `d` over any ordered field (structural induction on the
nested tree; helper lemmas in `Brax/Lemmas/C13.lean`).  The algebra rests on the C09 theorems
about the definitions generated from `brax/math.py` (`bridge_transformDo` below).

Hypotheses the proof forces (`Good g d`: every jointless body below the root is `Fusable g`):
 (a) the `quat` of a jointless body is a **unit** quaternion — otherwise `fuse_nonUnit_counterexample`
     (finding F8: the code composes with the raw attribute, MuJoCo normalises it);
 (b) `GuardOK g`: when the guard is false the removed body's frame is the identity.  For the
     pinned guard this is "zero `pos` ⇒ identity `quat`" (`fusable_pinned_iff`); the excluded
     case is **defect D5**, witnessed by `fuse_rotOnly_counterexample`.  For the patched guard
     it always holds (`fusable_fixed_iff`), and `fuseFixed_rotOnly_repaired` replays the witness;
 (c) a jointless body holds only `body`/`geom`/`site`/`camera` elements (the code offsets no
     other tag: the `TODO` in `_fuse_bodies`; `inertial`, `light`, `frame` are outside the
     property's generator).
The property at full strength is `PreservesGeometry F`; `fuseFixed_preservesGeometry` proves it
for the patched code, `fuse_not_preservesGeometry` refutes it for the pinned code (D5).
`'%f'` printing of the rewritten attributes (six decimals) is not modelled here: the theorems
are exact identities of the real-number semantics.

Only property theorems live in this file.
-/
namespace Brax.C13
open Brax

/-! ## tie to the generated leaf functions -/

/-- `_transform_do` of the model, stated with the definitions generated from `math.rotate_np`
and `math.quat_mul_np` of the working tree -/
theorem bridge_transformDo {K : Type} [Field K] (pp : V3 K) (pq : Q4 K) (p : V3 K) (q : Q4 K) :
    transformDo pp pq p q = (pp + Gen.rotateNp p pq, Gen.quatMulNp pq q) :=
  transformDo_gen pp pq p q

/-- for unit quaternions the Spec's frame composition (MuJoCo: normalise, then rotate) is
brax's own `Transform.do`, as generated from `brax/base.py` -/
theorem comp_eq_gen_tfDoTf {K : Type} [Field K] (f l : Tf K) (hf : Q4.normSq f.rot = 1) :
    Tf.comp f l = Gen.tfDoTf f l := by
  rw [C09.bridge_tfDoTf]; exact comp_eq_doTf f l hf

/-! ## structure: nothing jointless is left, names are kept, fusing twice = fusing once
(for every document and **any** guard: no arithmetic involved) -/

section structural
variable {α : Type} [Zero α] [One α] [Add α] [Sub α] [Mul α] [Neg α] [LT α] [DecidableLT α]

/-- after fusing, no body below the root is jointless -/
theorem fuse_no_jointless_left (d : Elem α) : jointlessFree (fuse d) = true :=
  jointlessFree_fuseWith guardPinned d

/-- a document without jointless bodies is left untouched -/
theorem fuse_of_jointlessFree (d : Elem α) (h : jointlessFree d = true) : fuse d = d :=
  fuseWith_of_jointlessFree guardPinned d h

theorem fuse_idempotent (d : Elem α) : fuse (fuse d) = fuse d :=
  fuse_of_jointlessFree (fuse d) (fuse_no_jointless_left d)

/-- the multiset of (kind, name) of all geoms, sites, cameras and jointed bodies is kept -/
theorem fuse_preserves_names (d : Elem α) : (names (fuse d)).Perm (names d) :=
  names_fuseWith guardPinned d

theorem fuseFixed_no_jointless_left (d : Elem α) : jointlessFree (fuseFixed d) = true :=
  jointlessFree_fuseWith guardFixed d

theorem fuseFixed_idempotent (d : Elem α) : fuseFixed (fuseFixed d) = fuseFixed d :=
  fuseWith_of_jointlessFree guardFixed _ (fuseFixed_no_jointless_left d)

theorem fuseFixed_preserves_names (d : Elem α) : (names (fuseFixed d)).Perm (names d) :=
  names_fuseWith guardFixed d

end structural

/-! ## geometry -/

section geometry
variable {K : Type} [Field K] [LinearOrder K] [IsStrictOrderedRing K]

/-- what hypothesis (a)–(c) say for the **pinned** guard -/
theorem fusable_pinned_iff (n : String) (p : Option (V3 K)) (q : Option (Q4 K))
    (cs : List (Elem K)) :
    Fusable guardPinned (.body n p q cs) ↔
      Q4.normSq (quatD q) = 1 ∧ (posD p = V3.zero → quatD q = Q4.one) ∧
      ∀ c ∈ cs, isOther c = false := by
  simp only [Fusable, guardOK_pinned_iff]

/-- … and for the **patched** guard: (b) disappears -/
theorem fusable_fixed_iff (n : String) (p : Option (V3 K)) (q : Option (Q4 K))
    (cs : List (Elem K)) :
    Fusable guardFixed (.body n p q cs) ↔
      Q4.normSq (quatD q) = 1 ∧ ∀ c ∈ cs, isOther c = false := by
  simp only [Fusable, guardOK_fixed, true_and]

/-- a document that is good for the pinned code is good for the patched code -/
theorem good_fixed_of_pinned : ∀ d : Elem K, Good guardPinned d → Good guardFixed d := by
  have hF : ∀ c : Elem K, Fusable guardPinned c → Fusable guardFixed c := by
    intro c h
    cases c with
    | body n p q cs => exact ⟨h.1, guardOK_fixed _ _, h.2.2⟩
    | leaf k n pl => trivial
    | joint f n => trivial
    | other t cs => trivial
  have hL : ∀ cs : List (Elem K), (∀ c ∈ cs, Good guardPinned c → Good guardFixed c) →
      GoodL guardPinned cs → GoodL guardFixed cs := by
    intro cs ih h
    rw [goodL_iff] at h ⊢
    exact fun c hc => ⟨fun hj => hF c ((h c hc).1 hj), ih c hc (h c hc).2⟩
  refine Elem.induct ?_ ?_ ?_ ?_
  · intro n p q cs ih h; simp only [Good] at h ⊢; exact hL cs ih h
  · intro k n pl _; trivial
  · intro f n _; trivial
  · intro t cs ih h; simp only [Good] at h ⊢; exact hL cs ih h

end geometry

section geometry2
variable {K : Type} [Field K] [LinearOrder K]

/-- **fusing preserves the model's geometry** (pinned code).  The multiset of
(jointed body it hangs on, kind, name, pose relative to that body) over all geoms, sites,
cameras and jointed bodies — for `fromto` elements: both end points — is the same in the fused
document.  This relative pose fixes the world pose for every joint configuration. -/
theorem fuse_preserves_entries (d : Elem K) (h : Good guardPinned d) :
    (docEntries (fuse d)).Perm (docEntries d) :=
  entries_fuseWith guardPinned d h "" Tf.id

/-- the same inside any frame and under any anchor: `fuse` may be applied to a subtree -/
theorem fuse_preserves_entries_in_frame (e : Elem K) (h : Good guardPinned e) (a : String)
    (f : Tf K) : (entries a f (fuse e)).Perm (entries a f e) :=
  entries_fuseWith guardPinned e h a f

/-- per element: the poses recorded under a given kind and name are kept (as a multiset; no
assumption on names) -/
theorem fuse_preserves_relPoses (d : Elem K) (h : Good guardPinned d) (k : EKind) (n : String) :
    (relPoses (docEntries (fuse d)) k n).Perm (relPoses (docEntries d) k n) :=
  relPoses_perm (fuse_preserves_entries d h) k n

/-- **every named geom / site / camera / jointed body keeps its anchor and relative pose**
(`fromto`: both end points), when (kind, name) pairs are unique -/
theorem fuse_preserves_relPose (d : Elem K) (h : Good guardPinned d) (hn : (names d).Nodup)
    (k : EKind) (n : String) : relPose (fuse d) k n = relPose d k n := by
  unfold relPose
  have hp := (fuse_preserves_relPoses d h k n).symm
  have hl := relPoses_length_le_one (docEntries d) (by rw [docEntries, entries_keys]; exact hn) k n
  rw [perm_eq_of_length_le_one hp hl]

/-- composite mass, first moment and inertia of each moving body are sums over the elements
attached to it of a function of (element, relative pose): every such additive quantity `w` is
kept (e.g. `w en = if en.anchor = b ∧ en.kind = .geom then mass en.name • centre en.pose else 0`) -/
theorem composite_inertia_preserved {M : Type} [AddCommMonoid M] (w : Entry K → M) (d : Elem K)
    (h : Good guardPinned d) :
    ((docEntries (fuse d)).map w).sum = ((docEntries d).map w).sum :=
  ((fuse_preserves_entries d h).map w).sum_eq

/-! ### the same for the patched code: hypothesis (b) is gone -/

theorem fuseFixed_preserves_entries (d : Elem K) (h : Good guardFixed d) :
    (docEntries (fuseFixed d)).Perm (docEntries d) :=
  entries_fuseWith guardFixed d h "" Tf.id

theorem fuseFixed_preserves_relPose (d : Elem K) (h : Good guardFixed d) (hn : (names d).Nodup)
    (k : EKind) (n : String) : relPose (fuseFixed d) k n = relPose d k n := by
  unfold relPose
  have hp := (relPoses_perm (fuseFixed_preserves_entries d h) k n).symm
  have hl := relPoses_length_le_one (docEntries d) (by rw [docEntries, entries_keys]; exact hn) k n
  rw [perm_eq_of_length_le_one hp hl]

theorem fuseFixed_composite_inertia_preserved {M : Type} [AddCommMonoid M] (w : Entry K → M)
    (d : Elem K) (h : Good guardFixed d) :
    ((docEntries (fuseFixed d)).map w).sum = ((docEntries d).map w).sum :=
  ((fuseFixed_preserves_entries d h).map w).sum_eq

end geometry2

/-! ## witnesses: the hypotheses cannot be dropped -/

/-- D5 witness: a jointless body carrying only a rotation (180° about y) with one geom -/
def docRotOnly : Elem Rat :=
  .other "mujoco" [.other "worldbody"
    [.body "A" none (some ⟨0, 0, 1, 0⟩) [.leaf .geom "g" (.pq (some ⟨1/2, 0, 0⟩) none)]]]

/-- F8 witness: a jointless body with the legal, non-normalised `quat="2 0 0 0"` -/
def docNonUnit : Elem Rat :=
  .other "mujoco" [.other "worldbody"
    [.body "A" (some ⟨0, 0, 2⟩) (some ⟨2, 0, 0, 0⟩) [.leaf .geom "g" (.pq (some ⟨1, 0, 0⟩) none)]]]

/-- **defect D5 in the pinned tree**: the geom sits at `(-1/2, 0, 0)`, after `fuse` at
`(1/2, 0, 0)` (hypotheses (a) and (c) hold for this document, only (b) fails) -/
theorem fuse_rotOnly_counterexample :
    relPose docRotOnly .geom "g" = some ("", .frame ⟨⟨-1/2, 0, 0⟩, ⟨0, 0, 1, 0⟩⟩) ∧
    relPose (fuse docRotOnly) .geom "g" = some ("", .frame ⟨⟨1/2, 0, 0⟩, ⟨1, 0, 0, 0⟩⟩) := by
  decide +kernel

/-- the candidate patch repairs the witness -/
theorem fuseFixed_rotOnly_repaired :
    relPose (fuseFixed docRotOnly) .geom "g" = relPose docRotOnly .geom "g" := by
  decide +kernel

/-- **finding F8**: with `quat="2 0 0 0"` MuJoCo places the geom at `(1, 0, 2)`; the fused
document (pinned or patched code) has it at `(4, 0, 2)` — `rotate_np` scales by `|q|²` -/
theorem fuse_nonUnit_counterexample :
    relPose docNonUnit .geom "g" = some ("", .frame ⟨⟨1, 0, 2⟩, ⟨2, 0, 0, 0⟩⟩) ∧
    relPose (fuse docNonUnit) .geom "g" = some ("", .frame ⟨⟨4, 0, 2⟩, ⟨2, 0, 0, 0⟩⟩) ∧
    relPose (fuseFixed docNonUnit) .geom "g" = some ("", .frame ⟨⟨4, 0, 2⟩, ⟨2, 0, 0, 0⟩⟩) := by
  decide +kernel

/-! ## the property at full strength -/

/-- **the property, at full strength, of a fusing function `F`**: on every document of the
generator's language — jointless bodies carry unit quaternions and hold only
body/geom/site/camera elements (`Good guardFixed` is exactly (a) and (c), see
`fusable_fixed_iff`), names are unique — every geom, site, camera and jointed body keeps the
body it hangs on and its pose relative to it.  Jointless bodies with `pos` only, `quat` only,
both or neither are all inside this language. -/
def PreservesGeometry {K : Type} [Field K] [LinearOrder K] (F : Elem K → Elem K) : Prop :=
  ∀ d : Elem K, Good guardFixed d → (names d).Nodup →
    ∀ k n, relPose (F d) k n = relPose d k n

/-- the code **with the D5 patch** has the property at full strength -/
theorem fuseFixed_preservesGeometry {K : Type} [Field K] [LinearOrder K] :
    PreservesGeometry (K := K) fuseFixed :=
  fun d h hn k n => fuseFixed_preserves_relPose d h hn k n

/-- the code **of the pinned tree** does not (defect D5): `docRotOnly` is in the language and its
geom moves -/
theorem fuse_not_preservesGeometry : ¬ PreservesGeometry (K := Rat) fuse := by
  intro h
  have hgood : Good guardFixed (α := Rat) docRotOnly := by
    simp only [docRotOnly, Good, GoodL, isJointlessBody, hasJoint, isJoint, List.any_cons,
      List.any_nil, Fusable, guardOK_fixed, isOther, posD, quatD, Option.getD, Q4.normSq,
      List.mem_cons, List.not_mem_nil]
    norm_num
  have hn : (names docRotOnly).Nodup := by decide +kernel
  have h1 := h docRotOnly hgood hn .geom "g"
  have h2 : ¬ (relPose (fuse docRotOnly) .geom "g" = relPose docRotOnly .geom "g") := by
    decide +kernel
  exact h2 h1

/-! ## non-vacuity: a document with nested jointless bodies satisfying every hypothesis -/

/-- world ▸ jointless `A` (pos+quat) ▸ { geom, from-to geom, jointless `B` (pos only) ▸ site,
jointed `J` ▸ { joint, geom, jointless `C` (neither pos nor quat) ▸ geom } } -/
def docGood : Elem Rat :=
  .other "mujoco" [.other "option" [], .other "worldbody"
    [.leaf .geom "floor" (.pq none none),
     .body "A" (some ⟨0, 0, 1⟩) (some ⟨3/5, 0, 4/5, 0⟩)
       [.leaf .geom "g1" (.pq (some ⟨1/2, 0, 0⟩) (some ⟨0, 1, 0, 0⟩)),
        .leaf .geom "g2" (.fromto ⟨0, 0, 0⟩ ⟨0, 1, 0⟩ none),
        .body "B" (some ⟨0, 2, 0⟩) none [.leaf .site "s" (.pq (some ⟨1, 0, 0⟩) none)],
        .body "J" (some ⟨1, 0, 0⟩) (some ⟨4/5, 3/5, 0, 0⟩)
          [.joint false "j", .leaf .geom "g3" (.pq none none),
           .body "C" none none [.leaf .geom "g4" (.pq (some ⟨0, 0, 1⟩) none)]]]]]

example : Good guardPinned (α := Rat) docGood := by
  simp only [docGood, Good, GoodL, isJointlessBody, hasJoint, isJoint, List.any_cons, List.any_nil,
    Fusable, guardOK_pinned_iff, isOther, posD, quatD, Option.getD, Q4.normSq, V3.zero, Q4.one,
    List.mem_cons, List.not_mem_nil]
  norm_num

example : (names docGood).Nodup := by decide +kernel

/-- the fused good document: everything hangs directly on the world or on `J`, at the poses the
original document gave (the site `s` is appended after `J`: same multiset, other order) -/
example : (docEntries (fuse docGood)).map (fun en => (en.anchor, en.name, en.pose)) =
    [("", "floor", .frame ⟨⟨0, 0, 0⟩, ⟨1, 0, 0, 0⟩⟩),
     ("", "g1", .frame ⟨⟨-7/50, 0, 13/25⟩, ⟨0, 3/5, 0, -4/5⟩⟩),
     ("", "g2", .segment ⟨0, 0, 1⟩ ⟨0, 1, 1⟩),
     ("", "J", .frame ⟨⟨-7/25, 0, 1/25⟩, ⟨12/25, 9/25, 16/25, -12/25⟩⟩),
     ("J", "g3", .frame ⟨⟨0, 0, 0⟩, ⟨1, 0, 0, 0⟩⟩),
     ("J", "g4", .frame ⟨⟨0, 0, 1⟩, ⟨1, 0, 0, 0⟩⟩),
     ("", "s", .frame ⟨⟨-7/25, 2, 1/25⟩, ⟨3/5, 0, 4/5, 0⟩⟩)] := by
  decide +kernel

example : (docEntries docGood).map (fun en => (en.anchor, en.name)) =
    [("", "floor"), ("", "g1"), ("", "g2"), ("", "s"), ("", "J"), ("J", "g3"), ("J", "g4")] := by
  decide +kernel

example : relPose (fuse docGood) .site "s" = relPose docGood .site "s" :=
  fuse_preserves_relPose docGood
    (by simp only [docGood, Good, GoodL, isJointlessBody, hasJoint, isJoint, List.any_cons,
          List.any_nil, Fusable, guardOK_pinned_iff, isOther, posD, quatD, Option.getD, Q4.normSq,
          V3.zero, Q4.one, List.mem_cons, List.not_mem_nil]
        norm_num)
    (by decide +kernel) .site "s"

/-- the D5 witness violates exactly hypothesis (b) -/
example : ¬ Good guardPinned (α := Rat) docRotOnly := by
  simp only [docRotOnly, Good, GoodL, isJointlessBody, hasJoint, isJoint, List.any_cons,
    List.any_nil, Fusable, guardOK_pinned_iff, isOther, posD, quatD, Option.getD, Q4.normSq,
    V3.zero, Q4.one, List.mem_cons, List.not_mem_nil]
  norm_num

example : Good guardFixed (α := Rat) docRotOnly := by
  simp only [docRotOnly, Good, GoodL, isJointlessBody, hasJoint, isJoint, List.any_cons,
    List.any_nil, Fusable, guardOK_fixed, isOther, posD, quatD, Option.getD, Q4.normSq,
    List.mem_cons, List.not_mem_nil]
  norm_num

end Brax.C13
