import Brax.Lemmas.C20
/-!
# C20 — the tanh-normal policy distribution is a correct probability model

All theorems are about the executable model `Brax/Model/C20.lean` (the transcription of
`brax/training/distribution.py` and `ppo.networks.make_inference_fn`, tied to the code by the
correspondence check `harness/corr_C20.py`), instantiated at ℝ with Mathlib's `exp`, `log`,
`tanh`, `π`.  They hold for **every** real input: every event size, every parameter vector,
every pre-squash action, every `min_std, var_scale > 0`, every noise vector `ε`, every network.

Property clause → theorem

* sampled and mode actions lie in [-1,1]              `tanh_range`, `sample_range`, `mode_range`
* log-prob = Σ (normal log-density − log tanh')       `fldj_eq`, `fldj_eq_log_abs_deriv`, `normal_logpdf_eq`,
                                                      `logProb_eq`, `exp_logProb_eq`
* the squashed density integrates to one              `squashed_density_integral_eq_one` (one action
                                                      dimension), `density_integrates_to_one` (every n)
* log-derivative finite/accurate for large |x|        `fldj_even`, `fldj_abs_form`, `fldj_bounds`, `fldj_nonpos`
* scale never below the configured minimum            `scale_ge_min`, `createDist_scale_ge_min`, `ppo_scale_ge_min`
* sampling deterministic and reparameterised          `sample_reparam`, `sample_affine`, `sample_hasDerivAt_loc`,
                                                      `sample_hasDerivAt_scale`, `sample_deterministic`
* PPO policy function contract                        `inference_fn_spec_deterministic`,
                                                      `inference_fn_spec_stochastic`, `inference_fn_logProb`,
                                                      `inference_fn_action_range`
* tanh / artanh round trip                            `postprocess_inverse`, `inverse_postprocess`, …

Only property theorems live here; helper lemmas are in `Brax/Lemmas/C20.lean`.
-/
namespace Brax.C20
open Brax Real

/-! ## 1. range: squashed actions lie in (−1, 1) ⊂ [−1, 1] -/

theorem tanh_range (x : ℝ) : |tanhForward x| < 1 := Real.abs_tanh_lt_one x

theorem postprocess_range (x : List ℝ) : ∀ a ∈ postprocess x, -1 < a ∧ a < 1 := by
  intro a ha
  simp only [postprocess, List.mem_map] at ha
  obtain ⟨y, _, rfl⟩ := ha
  exact ⟨Real.neg_one_lt_tanh y, Real.tanh_lt_one y⟩

/-- every sampled action is in (−1, 1): any configuration, parameters, noise -/
theorem sample_range (c : Cfg ℝ) (p eps : List ℝ) : ∀ a ∈ sample c p eps, -1 < a ∧ a < 1 :=
  postprocess_range _

/-- the mode action is in (−1, 1) -/
theorem mode_range (c : Cfg ℝ) (p : List ℝ) : ∀ a ∈ mode c p, -1 < a ∧ a < 1 :=
  postprocess_range _

/-- the mode is the squashed location half of the parameters -/
theorem mode_eq (c : Cfg ℝ) (loc raw : List ℝ) (h : raw.length = loc.length) :
    mode c (loc ++ raw) = loc.map Real.tanh := by
  simp only [mode, createDist_append c loc raw h, Normal.mode, postprocess]
  rfl

/-! ## 2. the log-det-Jacobian of tanh -/

/-- `d tanh / dx = 1 − tanh²` -/
theorem tanh_hasDerivAt (x : ℝ) : HasDerivAt tanhForward (1 - tanhForward x ^ 2) x :=
  hasDerivAt_tanh x

/-- `2(log 2 − x − softplus(−2x)) = log(1 − tanh² x)` -/
theorem fldj_eq (x : ℝ) : fldj x = Real.log (1 - Real.tanh x ^ 2) := fldj_eq_log x

/-- … which is `log |d tanh/dx|` -/
theorem fldj_eq_log_abs_deriv (x : ℝ) : fldj x = Real.log |deriv tanhForward x| := by
  rw [(tanh_hasDerivAt x).deriv, fldj_eq, abs_of_pos]
  · rfl
  · exact one_sub_tanh_sq_pos x

/-- `softplus` as computed by `jnp.logaddexp(x, 0)` is `log(1 + eˣ)` -/
theorem softplus_spec (x : ℝ) : softplus x = Real.log (1 + Real.exp x) := softplus_eq x

theorem fldj_even (x : ℝ) : fldj (-x) = fldj x := fldj_neg x

/-- the code's expression equals `2 log 2 − 2|x| − 2 log(1 + e^{−2|x|})`: the only large term is
`−2|x|`, the last term lies in `(0, 2 log 2]` -/
theorem fldj_abs (x : ℝ) :
    fldj x = 2 * Real.log 2 - 2 * |x| - 2 * Real.log (1 + Real.exp (-2 * |x|)) := fldj_abs_form x

/-- finite two-sided bounds for arbitrarily large pre-squash values:
`−2|x| ≤ fldj x < 2 log 2 − 2|x|` -/
theorem fldj_bounds (x : ℝ) : -2 * |x| ≤ fldj x ∧ fldj x < 2 * Real.log 2 - 2 * |x| := by
  have h := log_one_add_exp_neg_bounds (2 * |x|) (by positivity)
  rw [fldj_abs_form, show -2 * |x| = -(2 * |x|) by ring]
  constructor <;> linarith [h.1, h.2]

/-- the Jacobian of tanh never exceeds one -/
theorem fldj_nonpos (x : ℝ) : fldj x ≤ 0 := by
  rw [fldj_eq]
  apply Real.log_nonpos (one_sub_tanh_sq_pos x).le
  nlinarith [sq_nonneg (Real.tanh x)]

/-! ## 3. the normal log-density -/

/-- the code's `−½(x/σ − μ/σ)² − (½ log 2π + log σ)` is
`log( 1/(σ√(2π)) · exp(−(x−μ)²/(2σ²)) )` for `σ > 0` -/
theorem normal_logpdf_eq (μ σ x : ℝ) (hσ : 0 < σ) :
    normalLogProb1 μ σ x
      = Real.log (1 / (σ * Real.sqrt (2 * Real.pi)) * Real.exp (-(x - μ) ^ 2 / (2 * σ ^ 2))) :=
  normalLogProb1_eq μ σ x hσ

/-! ## 4. the scale never falls below the configured minimum -/

/-- `(softplus s + min_std)·var_scale > min_std·var_scale > 0` -/
theorem scale_ge_min (c : Cfg ℝ) (hm : 0 < c.minStd) (hv : 0 < c.varScale) (s : ℝ) :
    0 < c.minStd * c.varScale ∧ c.minStd * c.varScale < scaleOf c s := by
  refine ⟨mul_pos hm hv, ?_⟩
  simp only [scaleOf]
  have := softplus_pos s
  nlinarith

theorem createDist_scale_ge_min (c : Cfg ℝ) (hm : 0 < c.minStd) (hv : 0 < c.varScale) (p : List ℝ) :
    ∀ σ ∈ (createDist c p).scale, c.minStd * c.varScale < σ := by
  intro σ hσ
  simp only [createDist, List.mem_map] at hσ
  obtain ⟨s, _, rfl⟩ := hσ
  exact (scale_ge_min c hm hv s).2

/-- with `var_scale ≥ 1` (PPO uses 1) the floor is `min_std` itself -/
theorem scale_ge_minStd (c : Cfg ℝ) (hm : 0 < c.minStd) (hv : 1 ≤ c.varScale) (s : ℝ) :
    c.minStd < scaleOf c s := by
  have h := (scale_ge_min c hm (by linarith) s).2
  nlinarith

/-- `make_ppo_networks` (min_std = 0.001, var_scale = 1): every scale exceeds 0.001 -/
theorem ppo_scale_ge_min (s : ℝ) : (0.001 : ℝ) < scaleOf ppoCfg s := by
  have := scale_ge_minStd (ppoCfg : Cfg ℝ) (by norm_num [ppoCfg]) (by norm_num [ppoCfg]) s
  simpa [ppoCfg] using this

/-- observation (not a defect of the clause as designed): for `var_scale < 1` the floor
`min_std·var_scale` is below `min_std` and is attained in the limit; here `min_std = 1`,
`var_scale = ½`, raw scale `0` gives a scale `(log 2 + 1)/2 < 1` -/
theorem scale_lt_minStd_witness :
    ∃ c : Cfg ℝ, 0 < c.minStd ∧ 0 < c.varScale ∧ scaleOf c 0 < c.minStd := by
  refine ⟨⟨1, 1 / 2⟩, by norm_num, by norm_num, ?_⟩
  simp only [scaleOf, softplus_eq, Real.exp_zero, one_add_one_eq_two]
  have : Real.log 2 < 1 := by
    have := Real.log_lt_sub_one_of_pos (show (0 : ℝ) < 2 by norm_num) (by norm_num)
    linarith
  linarith

/-! ## 5. log-probability = Σ over action dimensions of (normal log-density − log tanh') -/

/-- exactly what the code computes, for every event size (no hypothesis) -/
theorem logProb_eq_code (c : Cfg ℝ) (loc raw x : List ℝ) (h : raw.length = loc.length) :
    logProb c (loc ++ raw) x
      = (zipWith3 (fun μ s a => normalLogProb1 μ (scaleOf c s) a - fldj a) loc raw x).sum := by
  simp only [logProb, createDist_append c loc raw h, Normal.logProb]
  rw [zipWith_zipWith3_map, zipWith3_map_mid]

/-- the log-probability of a pre-squash action `x` is the sum over the action dimensions of the
Gaussian log-density at `xᵢ` minus `log |tanh'(xᵢ)| = log(1 − tanh² xᵢ)`: the log-density of the
squashed action `tanh x` by the change-of-variables formula.  Every event size. -/
theorem logProb_eq (c : Cfg ℝ) (hm : 0 < c.minStd) (hv : 0 < c.varScale) (loc raw x : List ℝ)
    (h : raw.length = loc.length) (_hx : x.length = loc.length) :
    logProb c (loc ++ raw) x
      = (zipWith3 (fun μ s a => Real.log (gaussianPdf μ (scaleOf c s) a)
                                  - Real.log (1 - Real.tanh a ^ 2)) loc raw x).sum := by
  rw [logProb_eq_code c loc raw x h]
  congr 1
  apply zipWith3_congr _ _ loc raw x (fun _ => True) (fun _ _ => trivial)
  intro μ s a _
  rw [normalLogProb1_eq μ _ a (lt_trans (scale_ge_min c hm hv s).1 (scale_ge_min c hm hv s).2),
    fldj_eq_log]

/-- the density itself: `exp(log_prob) = Π pdf(xᵢ) / (1 − tanh² xᵢ)` -/
theorem exp_logProb_eq (c : Cfg ℝ) (hm : 0 < c.minStd) (hv : 0 < c.varScale) (loc raw x : List ℝ)
    (h : raw.length = loc.length) (hx : x.length = loc.length) :
    Real.exp (logProb c (loc ++ raw) x)
      = (zipWith3 (fun μ s a => gaussianPdf μ (scaleOf c s) a / (1 - Real.tanh a ^ 2)) loc raw x).prod := by
  rw [logProb_eq c hm hv loc raw x h hx, Real.exp_list_sum, map_zipWith3]
  congr 1
  apply zipWith3_congr _ _ loc raw x (fun _ => True) (fun _ _ => trivial)
  intro μ s a _
  have hσ := lt_trans (scale_ge_min c hm hv s).1 (scale_ge_min c hm hv s).2
  rw [Real.exp_sub, Real.exp_log (gaussianPdf_pos μ _ a hσ), Real.exp_log (one_sub_tanh_sq_pos a)]

/-- entropy estimate of the code: Σ (normal entropy + log tanh' at the sampled pre-squash action) -/
theorem entropy_eq (c : Cfg ℝ) (loc raw eps : List ℝ) (h : raw.length = loc.length) :
    entropy c (loc ++ raw) eps
      = (zipWith3 (fun μ s e => (1 / 2 + (1 / 2 * Real.log (2 * Real.pi) + Real.log (scaleOf c s)))
            + Real.log (1 - Real.tanh (e * scaleOf c s + μ) ^ 2)) loc raw eps).sum := by
  simp only [entropy, createDist_append c loc raw h, Normal.entropy, Normal.sample]
  congr 1
  induction loc generalizing raw eps with
  | nil => simp [zipWith3]
  | cons a l ih =>
    cases raw with
    | nil => simp at h
    | cons b s =>
      cases eps with
      | nil => simp [zipWith3]
      | cons e es =>
        simp only [List.length_cons, Nat.add_right_cancel_iff] at h
        simp only [List.map_cons, List.zipWith_cons_cons, zipWith3]
        rw [ih s es h]
        simp only [normalEntropy1, normalSample1, fldj_eq_log, half_eq, two_eq, pi_eq, hlog_eq, mul_one]

/-! ## 6. sampling is a deterministic, reparameterised function of (parameters, ε(key)) -/

/-- pre-squash sample `= μ + ε·σ`, sample `= tanh(ε·σ + μ)`, dimension by dimension -/
theorem sample_reparam (c : Cfg ℝ) (loc raw eps : List ℝ) (h : raw.length = loc.length) :
    sampleNoPostprocessing c (loc ++ raw) eps
        = zipWith3 (fun μ s e => e * scaleOf c s + μ) loc raw eps
    ∧ sample c (loc ++ raw) eps
        = zipWith3 (fun μ s e => Real.tanh (e * scaleOf c s + μ)) loc raw eps := by
  have h1 : sampleNoPostprocessing c (loc ++ raw) eps
      = zipWith3 (fun μ s e => e * scaleOf c s + μ) loc raw eps := by
    simp only [sampleNoPostprocessing, createDist_append c loc raw h, Normal.sample]
    rw [zipWith3_map_mid]; rfl
  refine ⟨h1, ?_⟩
  simp only [sample, postprocess, h1, map_zipWith3]
  rfl

/-- for a fixed draw `ε` the pre-squash sample is affine in `(loc, scale)` -/
theorem sample_affine (a b μ₁ μ₂ σ₁ σ₂ e : ℝ) :
    normalSample1 (a * μ₁ + b * μ₂) (a * σ₁ + b * σ₂) e
      = a * normalSample1 μ₁ σ₁ e + b * normalSample1 μ₂ σ₂ e := by
  simp only [normalSample1]; ring

/-- pathwise derivative w.r.t. the location is 1 -/
theorem sample_hasDerivAt_loc (σ e μ : ℝ) : HasDerivAt (fun m => normalSample1 m σ e) 1 μ := by
  simp only [normalSample1]
  simpa using (hasDerivAt_id μ).const_add (e * σ)

/-- pathwise derivative w.r.t. the scale is the draw ε -/
theorem sample_hasDerivAt_scale (μ e σ : ℝ) : HasDerivAt (fun s => normalSample1 μ s e) e σ := by
  simp only [normalSample1]
  simpa using ((hasDerivAt_id σ).const_mul e).add_const μ

/-- the sample depends on nothing but the parameters and the draw -/
theorem sample_deterministic (c : Cfg ℝ) (p p' eps eps' : List ℝ) (hp : p = p') (he : eps = eps') :
    sample c p eps = sample c p' eps' := by rw [hp, he]

/-- the sample has one entry per action dimension -/
theorem sample_length (c : Cfg ℝ) (loc raw eps : List ℝ) (h : raw.length = loc.length)
    (he : eps.length = loc.length) : (sample c (loc ++ raw) eps).length = loc.length := by
  rw [(sample_reparam c loc raw eps h).2]
  exact length_zipWith3 _ loc raw eps h he

/-! ## 7. tanh / artanh -/

/-- the model's `½ log((1+y)/(1−y))` is `artanh` on [−1,1] -/
theorem tanhInverse_eq_artanh (y : ℝ) (hy : y ∈ Set.Icc (-1 : ℝ) 1) : tanhInverse y = Real.artanh y := by
  rw [Real.artanh_eq_half_log hy]
  simp only [tanhInverse, half_eq, hlog_eq]

/-- `tanh(artanh y) = y` on (−1,1) -/
theorem postprocess_inverse (y : ℝ) (hy : y ∈ Set.Ioo (-1 : ℝ) 1) : tanhForward (tanhInverse y) = y := by
  rw [tanhInverse_eq_artanh y (Set.Ioo_subset_Icc_self hy)]
  exact Real.tanh_artanh hy

/-- `artanh(tanh x) = x` -/
theorem inverse_postprocess (x : ℝ) : tanhInverse (tanhForward x) = x := by
  have hx : Real.tanh x ∈ Set.Ioo (-1 : ℝ) 1 := ⟨Real.neg_one_lt_tanh x, Real.tanh_lt_one x⟩
  simp only [tanhForward, htanh_eq]
  rw [tanhInverse_eq_artanh _ (Set.Ioo_subset_Icc_self hx)]
  exact Real.artanh_tanh x

theorem inversePostprocess_postprocess (x : List ℝ) : inversePostprocess (postprocess x) = x := by
  simp only [inversePostprocess, postprocess, List.map_map]
  conv_rhs => rw [← List.map_id x]
  apply List.map_congr_left
  intro a _
  exact inverse_postprocess a

theorem postprocess_inversePostprocess (y : List ℝ) (hy : ∀ a ∈ y, a ∈ Set.Ioo (-1 : ℝ) 1) :
    postprocess (inversePostprocess y) = y := by
  simp only [inversePostprocess, postprocess, List.map_map]
  conv_rhs => rw [← List.map_id y]
  apply List.map_congr_left
  intro a ha
  exact postprocess_inverse a (hy a ha)

/-! ## 8. `make_inference_fn` -/

section inference
variable {Obs NP PP : Type} (preprocess : Obs → NP → Obs) (net : PP → Obs → List ℝ)
  (c : Cfg ℝ) (np : NP) (pp : PP) (obs : Obs) (eps : List ℝ)

/-- deterministic ⇒ `(mode(logits), {})` with `logits = net(pp, preprocess(obs, np))`:
the observation is normalised **before** the network -/
theorem inference_fn_spec_deterministic :
    inferenceFn preprocess net c np pp true obs eps
      = (mode c (net pp (preprocess obs np)), none) := rfl

/-- stochastic ⇒ `(tanh raw, {log_prob = logProb logits raw, raw_action = raw})` with
`raw = sample_no_postprocessing(logits, key)` and the same `logits` -/
theorem inference_fn_spec_stochastic :
    inferenceFn preprocess net c np pp false obs eps
      = (postprocess (sampleNoPostprocessing c (net pp (preprocess obs np)) eps),
         some ⟨logProb c (net pp (preprocess obs np)) (sampleNoPostprocessing c (net pp (preprocess obs np)) eps),
               sampleNoPostprocessing c (net pp (preprocess obs np)) eps⟩) := rfl

/-- the returned action is the squashed returned raw action and equals `sample`; both branches
return an action in (−1,1) -/
theorem inference_fn_action_range (det : Bool) :
    ∀ a ∈ (inferenceFn preprocess net c np pp det obs eps).1, -1 < a ∧ a < 1 := by
  cases det
  · exact postprocess_range _
  · exact postprocess_range _

/-- the returned `log_prob` is exactly the log-density (§5) of the returned `raw_action` under the
distribution given by the logits `loc ++ raw` the network produced for the normalised observation -/
theorem inference_fn_logProb (hm : 0 < c.minStd) (hv : 0 < c.varScale) (loc raw : List ℝ)
    (hnet : net pp (preprocess obs np) = loc ++ raw) (h : raw.length = loc.length)
    (he : eps.length = loc.length) :
    ∃ ex, (inferenceFn preprocess net c np pp false obs eps).2 = some ex ∧
      (inferenceFn preprocess net c np pp false obs eps).1 = ex.rawAction.map Real.tanh ∧
      ex.rawAction = zipWith3 (fun μ s e => e * scaleOf c s + μ) loc raw eps ∧
      ex.logProb = (zipWith3 (fun μ s a => Real.log (gaussianPdf μ (scaleOf c s) a)
                                  - Real.log (1 - Real.tanh a ^ 2)) loc raw ex.rawAction).sum := by
  have hl : policyApply preprocess net np pp obs = loc ++ raw := hnet
  refine ⟨_, rfl, rfl, ?_, ?_⟩
  · rw [hl]; exact (sample_reparam c loc raw eps h).1
  · rw [hl]
    apply logProb_eq c hm hv loc raw _ h
    rw [(sample_reparam c loc raw eps h).1]
    exact length_zipWith3 _ loc raw eps h he

/-- with the `running_statistics` normaliser the network sees `(obs − mean)/std` -/
theorem inference_fn_normalize (net' : PP → List ℝ → List ℝ) (o mean std : List ℝ) (det : Bool) :
    inferenceFn (fun x (ms : List ℝ × List ℝ) => normalize x ms.1 ms.2) net' c (mean, std) pp det o eps
      = inferenceFn (fun x (_ : Unit) => x) net' c () pp det
          (zipWith3 (fun a m s => (a - m) / s) o mean std) eps := rfl

end inference

/-! ## 9. the density of the squashed action integrates to one -/

section integral
open MeasureTheory

/-- one action dimension: `y ↦ exp(normal log-density(artanh y) − fldj(artanh y))`, the density
that `log_prob` assigns to the squashed action `y ∈ (−1,1)`, has integral 1.  Change of variables
`y = tanh x` with `|tanh'| = exp(fldj)` (`fldj_eq`), then the Gaussian integral. -/
theorem squashed_density_integral_eq_one (μ σ : ℝ) (hσ : 0 < σ) :
    ∫ y in Set.Ioo (-1 : ℝ) 1, squashedDensity μ σ y = 1 := by
  have himg : Real.tanh '' Set.univ = Set.Ioo (-1 : ℝ) 1 := Real.tanh_bijOn.image_eq
  rw [← himg, integral_image_eq_integral_abs_deriv_smul MeasurableSet.univ
    (fun x _ => (hasDerivAt_tanh x).hasDerivWithinAt) (Real.tanh_injective.injOn)]
  rw [Measure.restrict_univ]
  refine Eq.trans ?_ (integral_gaussianPdf μ σ hσ)
  congr 1
  funext x
  exact squashedDensity_tanh μ σ hσ x

/-- **every event size `n`**: the joint density `y ↦ exp(log_prob(params, artanh y))` of the
squashed action vector on the cube (−1,1)ⁿ has integral 1 (for any parameters `loc = μ`,
raw scale `s`, `min_std, var_scale > 0`) -/
theorem density_integrates_to_one (c : Cfg ℝ) (hm : 0 < c.minStd) (hv : 0 < c.varScale) {n : ℕ}
    (μ s : Fin n → ℝ) :
    ∫ y in Set.univ.pi (fun _ : Fin n => Set.Ioo (-1 : ℝ) 1),
      Real.exp (logProb c (List.ofFn μ ++ List.ofFn s) (List.ofFn fun i => tanhInverse (y i))) = 1 := by
  simp only [exp_logProb_ofFn]
  rw [volume_pi, Measure.restrict_pi_pi, integral_fintype_prod_eq_prod]
  apply Finset.prod_eq_one
  intro i _
  exact squashed_density_integral_eq_one _ _
    (lt_trans (scale_ge_min c hm hv (s i)).1 (scale_ge_min c hm hv (s i)).2)

end integral

/-! ## 10. non-vacuity: the hypotheses are satisfiable, the statements are not trivial -/

/-- the PPO configuration satisfies the positivity hypotheses -/
example : 0 < (ppoCfg : Cfg ℝ).minStd ∧ 0 < (ppoCfg : Cfg ℝ).varScale := by norm_num [ppoCfg]

/-- `logProb_eq` instantiated at a 2-dimensional event -/
example : logProb (ppoCfg : Cfg ℝ) ([0, 1] ++ [0, -1]) [1 / 2, 2]
    = (zipWith3 (fun μ s a => Real.log (gaussianPdf μ (scaleOf ppoCfg s) a)
        - Real.log (1 - Real.tanh a ^ 2)) [0, 1] [0, -1] [1 / 2, 2]).sum :=
  logProb_eq _ (by norm_num [ppoCfg]) (by norm_num [ppoCfg]) _ _ _ rfl rfl

/-- the Jacobian term is not constant: `fldj 0 = 0` but `fldj 1 < 0` -/
example : fldj (0 : ℝ) = 0 ∧ fldj (1 : ℝ) < 0 := by
  constructor
  · rw [fldj_eq]; simp
  · have := (fldj_bounds 1).2
    have h2 : Real.log 2 < 1 := by
      have := Real.log_lt_sub_one_of_pos (show (0 : ℝ) < 2 by norm_num) (by norm_num)
      linarith
    rw [abs_one] at this
    linarith

/-- `density_integrates_to_one` at the PPO configuration, three action dimensions -/
example : ∫ y in Set.univ.pi (fun _ : Fin 3 => Set.Ioo (-1 : ℝ) 1),
    Real.exp (logProb (ppoCfg : Cfg ℝ) (List.ofFn ![0, 1, -2] ++ List.ofFn ![0, -3, 5])
      (List.ofFn fun i => tanhInverse (y i))) = 1 :=
  density_integrates_to_one _ (by norm_num [ppoCfg]) (by norm_num [ppoCfg]) _ _

/-- a mode outside (−1,1) would contradict `mode_range`: `mode` really squashes -/
example : mode (ppoCfg : Cfg ℝ) ([5] ++ [0]) = [Real.tanh 5] := mode_eq _ [5] [0] rfl

/-- the two branches of the inference function differ -/
example : (inferenceFn (fun (o : Unit) (_ : Unit) => o) (fun (_ : Unit) _ => [0, 0]) (ppoCfg : Cfg ℝ)
    () () true () [1]).2 = none ∧
    ((inferenceFn (fun (o : Unit) (_ : Unit) => o) (fun (_ : Unit) _ => [0, 0]) (ppoCfg : Cfg ℝ)
    () () false () [1]).2).isSome = true := ⟨rfl, rfl⟩

end Brax.C20
