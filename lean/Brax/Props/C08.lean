import Brax.Lemmas.C08
/-!
# C08 — Joint coordinates and world coordinates round-trip

Model: `Brax/Model/C08.lean` (`Inv.inverse`, `Inv.linkToJointFrame`, `Inv.axisAngleAng`,
`Inv.w2jLink`, `Inv.fwdLink`, `Inv.stepTail`) on top of the platform (`Kin.forward`,
`Kin.worldToJoint`).  All theorems are over ℝ and hold for **all** inputs satisfying their
hypotheses.  They are *per link*: `world_to_joint` reads only `x[parent i]` and `x[i]`, so no
induction over the forest is involved; the parent's world transform/motion is an arbitrary
(unit-quaternion) value `parent`, `none` for a root.

Only property theorems and non-vacuity examples live here; helper lemmas are in
`Brax/Lemmas/C08.lean`.
-/
namespace Brax.C08
open Brax Brax.Inv

/-! ## `world_to_joint` is a per-link map -/

/-- `Kin.worldToJoint` is exactly the map of the per-link body `Inv.w2jLink` over the links, reading
the parent's transform/motion (the appended identity/zero for a root) and the link's own. -/
theorem worldToJoint_eq (s : Sys ℝ) (x : List (Tf ℝ)) (xd : List (Motion ℝ)) :
    Kin.worldToJoint s x xd = (List.range s.links.length).filterMap (fun i => do
      let lk ← s.links[i]?
      let xi ← x[i]?
      let xdi ← xd[i]?
      let p := s.parents.getD i (-1)
      pure (w2jLink lk (Kin.takeParent x Tf.id p) (Kin.takeParent xd Motion.zero p) xi xdi)) :=
  rfl

/-! ## `world_to_joint ∘ forward` returns the joint-frame transform -/

/-- for unit quaternions the final `normalize` of `forward` is the identity, and a root is a child
of the identity frame at rest -/
theorem fwdLink_eq (parent : Option (Tf ℝ × Motion ℝ)) (lk : LinkP ℝ) (l : Kin.LinkIn ℝ)
    (hp : Q4.normSq (parentOr parent).1.rot = 1) (hlk : Q4.normSq lk.tf.rot = 1)
    (hj : Q4.normSq (Kin.jcalc l).1.rot = 1) :
    fwdLink parent lk l
      = Kin.world (some (parentOr parent))
          (Kin.placeJoint lk (Kin.jcalc l).1,
           ⟨(Kin.jcalc l).2.ang, rotate (Kin.jcalc l).2.vel lk.tf.rot⟩) := by
  have hw : ∀ jj, Kin.world parent jj = Kin.world (some (parentOr parent)) jj := by
    intro jj; cases parent with
    | none => exact world_none_eq jj
    | some p => rfl
  simp only [fwdLink, hw]
  have hu : Q4.normSq (Kin.world (some (parentOr parent))
      (Kin.placeJoint lk (Kin.jcalc l).1,
        (⟨(Kin.jcalc l).2.ang, rotate (Kin.jcalc l).2.vel lk.tf.rot⟩ : Motion ℝ))).1.rot = 1 := by
    simp only [Kin.world, Kin.placeJoint, Tf.doTf]
    rw [normSq_quatMul, normSq_quatMul, hp, hlk, hj]; ring
  rw [normalize4_unit _ hu]

/-- **`world_to_joint(forward(q, qd)).j = jcalc(q)`** for every link type and every joint stack:
the anchor bookkeeping (`j.pos += joint.pos − rotate(joint.pos, j.rot)`, `a_p`, `a_c`, `to_local`)
cancels exactly.  In general the result is `jcalc(q)` seen from the joint frame `link.joint.rot`. -/
theorem worldToJoint_forward (parent : Option (Tf ℝ × Motion ℝ)) (lk : LinkP ℝ) (l : Kin.LinkIn ℝ)
    (hp : Q4.normSq (parentOr parent).1.rot = 1) (hlk : Q4.normSq lk.tf.rot = 1)
    (hj : Q4.normSq (Kin.jcalc l).1.rot = 1) :
    (w2jLink lk (parentOr parent).1 (parentOr parent).2
        (fwdLink parent lk l).1 (fwdLink parent lk l).2).1
      = conjJoint lk.joint.rot (Kin.jcalc l).1 := by
  rw [fwdLink_eq parent lk l hp hlk hj]
  exact w2jLink_placed_j lk (parentOr parent).1 (Kin.jcalc l).1 (parentOr parent).2 _ hp hlk

/-- with the identity joint orientation that `mjcf.load_model` always writes, the joint transform
is recovered exactly -/
theorem worldToJoint_forward_id (parent : Option (Tf ℝ × Motion ℝ)) (lk : LinkP ℝ)
    (l : Kin.LinkIn ℝ) (hp : Q4.normSq (parentOr parent).1.rot = 1)
    (hlk : Q4.normSq lk.tf.rot = 1) (hjr : lk.joint.rot = ⟨1, 0, 0, 0⟩)
    (hj : Q4.normSq (Kin.jcalc l).1.rot = 1) :
    (w2jLink lk (parentOr parent).1 (parentOr parent).2
        (fwdLink parent lk l).1 (fwdLink parent lk l).2).1 = (Kin.jcalc l).1 := by
  rw [worldToJoint_forward parent lk l hp hlk hj, hjr, conjJoint_one]

/-- angular part of `jd`: the joint-frame angular velocity turned by the joint rotation
(`forward` expresses it in the child frame); the parent's own motion cancels -/
theorem worldToJoint_forward_ang (parent : Option (Tf ℝ × Motion ℝ)) (lk : LinkP ℝ)
    (l : Kin.LinkIn ℝ) (hp : Q4.normSq (parentOr parent).1.rot = 1)
    (hlk : Q4.normSq lk.tf.rot = 1) (hj : Q4.normSq (Kin.jcalc l).1.rot = 1) :
    (w2jLink lk (parentOr parent).1 (parentOr parent).2
        (fwdLink parent lk l).1 (fwdLink parent lk l).2).2.1.ang
      = invRotate (rotate (Kin.jcalc l).2.ang (Kin.jcalc l).1.rot) lk.joint.rot := by
  rw [fwdLink_eq parent lk l hp hlk hj]
  exact w2jLink_world_ang lk (parentOr parent).1 (Kin.jcalc l).1 (parentOr parent).2 _ hp hlk

/-- linear part of `jd` when the parent frame does not rotate (in particular for every root):
the joint-frame linear velocity is recovered.  (With a rotating parent the code's
`xd_wj = Transform(pos = x_p.pos − a_p.pos).do(xd_p)` leaves a term `ω_p × (…)`; that case is part
of known finding K1.) -/
theorem worldToJoint_forward_vel_partial (parent : Option (Tf ℝ × Motion ℝ)) (lk : LinkP ℝ)
    (l : Kin.LinkIn ℝ) (hp : Q4.normSq (parentOr parent).1.rot = 1)
    (hlk : Q4.normSq lk.tf.rot = 1) (hj : Q4.normSq (Kin.jcalc l).1.rot = 1)
    (hrest : (parentOr parent).2.ang = ⟨0, 0, 0⟩) :
    (w2jLink lk (parentOr parent).1 (parentOr parent).2
        (fwdLink parent lk l).1 (fwdLink parent lk l).2).2.1.vel
      = invRotate (Kin.jcalc l).2.vel lk.joint.rot := by
  rw [fwdLink_eq parent lk l hp hlk hj]
  exact w2jLink_world_vel lk (parentOr parent).1 (Kin.jcalc l).1 (parentOr parent).2 _ _ hp hlk hrest

/-- non-vacuity of the common hypotheses: a rotated, offset link with an anchor away from its origin,
under a rotated parent that translates and rotates -/
example : Q4.normSq (parentOr (some exParent)).1.rot = 1 ∧ Q4.normSq exLk.tf.rot = 1
    ∧ exLk.joint.rot = ⟨1, 0, 0, 0⟩ ∧ exLk.joint.pos ≠ ⟨0, 0, 0⟩
    ∧ (parentOr (some exParent)).2.ang ≠ ⟨0, 0, 0⟩ := by
  refine ⟨?_, ?_, rfl, ?_, ?_⟩
  all_goals simp [parentOr, exParent, exLk, Q4.normSq]
  all_goals norm_num

/-- … and of a root (`parent = none`): identity frame at rest -/
example : Q4.normSq (parentOr none).1.rot = 1 ∧ (parentOr none).2.ang = ⟨0, 0, 0⟩ := by
  simp [parentOr, Tf.id, Motion.zero, V3.zero, Q4.one, Q4.normSq]

/-! ## free links -/

/-- **free links round-trip, positions and velocities**: for a free link (7 coordinates, unit
quaternion) whose parent frame is at rest — every root — `inverse(world_to_joint(forward(q, qd)))`
returns `(q, qd)` exactly, including the `inv_rotate` of the angular velocity by the link rotation. -/
theorem inverse_free (parent : Option (Tf ℝ × Motion ℝ)) (lk : LinkP ℝ)
    (hp : Q4.normSq (parentOr parent).1.rot = 1) (hrest : (parentOr parent).2.ang = ⟨0, 0, 0⟩)
    (hlk : Q4.normSq lk.tf.rot = 1) (hjr : lk.joint.rot = ⟨1, 0, 0, 0⟩)
    (p0 p1 p2 r0 r1 r2 r3 v0 v1 v2 w0 w1 w2 : ℝ) (hr : r0 * r0 + r1 * r1 + r2 * r2 + r3 * r3 = 1)
    (ds : List (DofP ℝ)) (pidx : Int) :
    let l : Kin.LinkIn ℝ := ⟨.free, [p0, p1, p2, r0, r1, r2, r3], [v0, v1, v2, w0, w1, w2], ds⟩
    let w := w2jLink lk (parentOr parent).1 (parentOr parent).2
      (fwdLink parent lk l).1 (fwdLink parent lk l).2
    inverseLink .free w.1 w.2.1 pidx (ds.map (·.motion))
      = some ([p0, p1, p2, r0, r1, r2, r3], [v0, v1, v2, w0, w1, w2]) := by
  intro l w
  have hj : Q4.normSq (Kin.jcalc l).1.rot = 1 := by simpa [Q4.normSq, Kin.jcalc, l] using hr
  have h1 : w.1 = ⟨⟨p0, p1, p2⟩, ⟨r0, r1, r2, r3⟩⟩ :=
    worldToJoint_forward_id parent lk l hp hlk hjr hj
  have h2 : w.2.1.ang = rotate ⟨w0, w1, w2⟩ ⟨r0, r1, r2, r3⟩ := by
    have := worldToJoint_forward_ang parent lk l hp hlk hj
    rw [hjr, invRotate_one] at this; exact this
  have h3 : w.2.1.vel = ⟨v0, v1, v2⟩ := by
    have := worldToJoint_forward_vel_partial parent lk l hp hlk hj hrest
    rw [hjr, invRotate_one] at this; exact this
  have h4 : invRotate (rotate (⟨w0, w1, w2⟩ : V3 ℝ) ⟨r0, r1, r2, r3⟩) ⟨r0, r1, r2, r3⟩ = ⟨w0, w1, w2⟩ :=
    invRotate_rotate_unit _ _ (by simpa [Q4.normSq] using hr)
  simp only [inverseLink, free, h1, h2, h3, h4]

/-! ## single hinges -/

/-- **a link attached by a single hinge round-trips, position and velocity**: unit axis, any anchor
(`link.joint.pos`), any link offset/orientation, any (unit) parent frame moving in any way, root
or child, joint angle in `(−π, π]`.  What `axis_angle_ang` computes here: the frame is
`(a, b, a×b)` with `(b, a×b) = orthogonals(a)`; the line of nodes is `cos q·b + sin q·a×b`, so
`psi = atan2(sin q, cos q) = q`; the velocity is `a · (a·qd)`. -/
theorem inverse_one_hinge (parent : Option (Tf ℝ × Motion ℝ)) (lk : LinkP ℝ)
    (hp : Q4.normSq (parentOr parent).1.rot = 1)
    (hlk : Q4.normSq lk.tf.rot = 1) (hjr : lk.joint.rot = ⟨1, 0, 0, 0⟩)
    (d : DofP ℝ) (ha : V3.dot d.motion.ang d.motion.ang = 1) (hv : d.motion.vel = ⟨0, 0, 0⟩)
    (q qd : ℝ) (h1 : -Real.pi < q) (h2 : q ≤ Real.pi) (pidx : Int) :
    let l : Kin.LinkIn ℝ := ⟨.one, [q], [qd], [d]⟩
    let w := w2jLink lk (parentOr parent).1 (parentOr parent).2
      (fwdLink parent lk l).1 (fwdLink parent lk l).2
    inverseLink .one w.1 w.2.1 pidx [d.motion] = some ([q], [qd]) := by
  intro l w
  have hjc := jcalc_one_hinge d q qd ha hv
  have hj : Q4.normSq (Kin.jcalc l).1.rot = 1 := by
    rw [hjc]; exact quatRotAxis_normSq _ q ha
  have hw1 : w.1 = ⟨⟨0 * q, 0 * q, 0 * q⟩, quatRotAxis d.motion.ang q⟩ := by
    have := worldToJoint_forward_id parent lk l hp hlk hjr hj
    rw [hjc] at this; exact this
  have hw2 : w.2.1.ang = ⟨d.motion.ang.x * qd, d.motion.ang.y * qd, d.motion.ang.z * qd⟩ := by
    have := worldToJoint_forward_ang parent lk l hp hlk hj
    rw [hjr, invRotate_one, hjc] at this
    simp only at this
    rw [rotate_scale, rotate_axis _ q ha] at this; exact this
  have hm : d.motion = ⟨d.motion.ang, ⟨0, 0, 0⟩⟩ := by rw [← hv]
  have hx := xDof_one_hinge d.motion.ang ⟨0 * q, 0 * q, 0 * q⟩ q w.2.1 pidx ha h1 h2
  simp only [inverseLink, List.length_cons, List.length_nil, LinkType.qdWidth, if_true]
  rw [hw1, hm, hx, hw2]
  have hdot : ∀ r : Q4 ℝ, invRotate d.motion.ang r = d.motion.ang →
      V3.dot d.motion.ang (invRotate ⟨d.motion.ang.x * qd, d.motion.ang.y * qd, d.motion.ang.z * qd⟩ r) = qd := by
    intro r hr
    rw [invRotate_scale, hr]
    simp only [V3.dot] at ha ⊢
    linear_combination qd * ha
  congr 3
  split
  · exact hdot _ (invRotate_axis _ q ha)
  · exact hdot _ (invRotate_one _)

/-- non-vacuity: a hinge about the unit axis `(2/3, −1/3, 2/3)` at `q = 1 ∈ (−π, π]` -/
example : V3.dot (exDof ⟨2 / 3, -1 / 3, 2 / 3⟩ ⟨0, 0, 0⟩).motion.ang (exDof ⟨2 / 3, -1 / 3, 2 / 3⟩ ⟨0, 0, 0⟩).motion.ang = 1
    ∧ (exDof ⟨2 / 3, -1 / 3, 2 / 3⟩ ⟨0, 0, 0⟩).motion.vel = ⟨0, 0, 0⟩
    ∧ -Real.pi < (1 : ℝ) ∧ (1 : ℝ) ≤ Real.pi := by
  refine ⟨by simp [exDof, V3.dot]; norm_num, rfl, ?_, ?_⟩ <;> linarith [Real.two_le_pi]

/-- the instantiated statement: the round trip of that hinge on the example link under the moving
parent returns `q = 1`, `qd = 2` -/
example :
    let l : Kin.LinkIn ℝ := ⟨.one, [1], [2], [exDof ⟨2 / 3, -1 / 3, 2 / 3⟩ ⟨0, 0, 0⟩]⟩
    let w := w2jLink exLk exParent.1 exParent.2
      (fwdLink (some exParent) exLk l).1 (fwdLink (some exParent) exLk l).2
    inverseLink .one w.1 w.2.1 0 [(exDof ⟨2 / 3, -1 / 3, 2 / 3⟩ ⟨0, 0, 0⟩).motion] = some ([1], [2]) :=
  inverse_one_hinge (some exParent) exLk (by simp [parentOr, exParent, Q4.normSq])
    (by simp [exLk, Q4.normSq]; norm_num) rfl _ (by simp [exDof, V3.dot]; norm_num) rfl 1 2
    (by linarith [Real.two_le_pi]) (by linarith [Real.two_le_pi]) 0

/-! ## stacks of slide joints -/

/-- **three stacked slide joints with orthonormal axes** (either handedness): every coordinate is
recovered, `axis_i · Σ q_k axis_k = q_i`; the velocities are recovered when the parent frame does
not rotate (every root).  `|q_k| ≤ 2` keeps `normalize(quat_rot_axis(0, q))` at the identity. -/
theorem inverse_slide_stack3 (parent : Option (Tf ℝ × Motion ℝ)) (lk : LinkP ℝ)
    (hp : Q4.normSq (parentOr parent).1.rot = 1)
    (hlk : Q4.normSq lk.tf.rot = 1) (hjr : lk.joint.rot = ⟨1, 0, 0, 0⟩)
    (d0 d1 d2 : DofP ℝ) (e0 e1 e2 : V3 ℝ)
    (hd0 : d0.motion = ⟨⟨0, 0, 0⟩, e0⟩) (hd1 : d1.motion = ⟨⟨0, 0, 0⟩, e1⟩)
    (hd2 : d2.motion = ⟨⟨0, 0, 0⟩, e2⟩)
    (h00 : V3.dot e0 e0 = 1) (h11 : V3.dot e1 e1 = 1) (h22 : V3.dot e2 e2 = 1)
    (h01 : V3.dot e0 e1 = 0) (h02 : V3.dot e0 e2 = 0) (h12 : V3.dot e1 e2 = 0)
    (q0 q1 q2 qd0 qd1 qd2 : ℝ) (hq0 : |q0| ≤ 2) (hq1 : |q1| ≤ 2) (hq2 : |q2| ≤ 2) (pidx : Int) :
    let l : Kin.LinkIn ℝ := ⟨.three, [q0, q1, q2], [qd0, qd1, qd2], [d0, d1, d2]⟩
    let w := w2jLink lk (parentOr parent).1 (parentOr parent).2
      (fwdLink parent lk l).1 (fwdLink parent lk l).2
    ∃ qd', inverseLink .three w.1 w.2.1 pidx [d0.motion, d1.motion, d2.motion]
        = some ([q0, q1, q2], qd')
      ∧ ((parentOr parent).2.ang = ⟨0, 0, 0⟩ → qd' = [qd0, qd1, qd2]) := by
  intro l w
  have hjc := jcalc_slides3 d0 d1 d2 e0 e1 e2 q0 q1 q2 qd0 qd1 qd2 hd0 hd1 hd2 hq0 hq1 hq2
  have hj : Q4.normSq (Kin.jcalc l).1.rot = 1 := by rw [hjc]; simp [Q4.normSq]
  have hw1 := worldToJoint_forward_id parent lk l hp hlk hjr hj
  rw [hjc] at hw1
  have hx := xDof_slides w.1 w.2.1 pidx [d0.motion, d1.motion, d2.motion]
    (by intro m hm; simp only [List.mem_cons, List.not_mem_nil, or_false] at hm
        rcases hm with rfl | rfl | rfl <;> simp [hd0, hd1, hd2]) (by simp) (by simp)
  refine ⟨[V3.dot e0 w.2.1.vel, V3.dot e1 w.2.1.vel, V3.dot e2 w.2.1.vel], ?_, ?_⟩
  · simp only [inverseLink, List.length_cons, List.length_nil, LinkType.qdWidth, if_true]
    rw [hx]
    simp only [List.map_cons, List.map_nil, hd0, hd1, hd2]
    congr 2
    show [V3.dot e0 w.1.pos, V3.dot e1 w.1.pos, V3.dot e2 w.1.pos] = [q0, q1, q2]
    rw [hw1]
    simp only [V3.dot] at h00 h11 h22 h01 h02 h12 ⊢
    congr 1
    · linear_combination q0 * h00 + q1 * h01 + q2 * h02
    · congr 1
      · linear_combination q0 * h01 + q1 * h11 + q2 * h12
      · congr 1
        linear_combination q0 * h02 + q1 * h12 + q2 * h22
  · intro hrest
    have hw3 := worldToJoint_forward_vel_partial parent lk l hp hlk hj hrest
    rw [hjr, invRotate_one, hjc] at hw3
    rw [hw3]
    simp only [V3.dot] at h00 h11 h22 h01 h02 h12 ⊢
    congr 1
    · linear_combination qd0 * h00 + qd1 * h01 + qd2 * h02
    · congr 1
      · linear_combination qd0 * h01 + qd1 * h11 + qd2 * h12
      · congr 1
        linear_combination qd0 * h02 + qd1 * h12 + qd2 * h22

/-- non-vacuity: a left-handed orthonormal triple of slide axes `(x, y, −z)`, coordinates in range -/
example : V3.dot (⟨1, 0, 0⟩ : V3 ℝ) ⟨1, 0, 0⟩ = 1 ∧ V3.dot (⟨0, 1, 0⟩ : V3 ℝ) ⟨0, 1, 0⟩ = 1
    ∧ V3.dot (⟨0, 0, -1⟩ : V3 ℝ) ⟨0, 0, -1⟩ = 1 ∧ V3.dot (⟨1, 0, 0⟩ : V3 ℝ) ⟨0, 1, 0⟩ = 0
    ∧ V3.dot (⟨1, 0, 0⟩ : V3 ℝ) ⟨0, 0, -1⟩ = 0 ∧ V3.dot (⟨0, 1, 0⟩ : V3 ℝ) ⟨0, 0, -1⟩ = 0
    ∧ V3.dot (V3.cross (⟨1, 0, 0⟩ : V3 ℝ) ⟨0, 1, 0⟩) ⟨0, 0, -1⟩ = -1 ∧ |(-6 / 5 : ℝ)| ≤ 2 := by
  simp [V3.dot, V3.cross, abs_le]; norm_num

/-- two stacked slide joints with orthonormal axes -/
theorem inverse_slide_stack2 (parent : Option (Tf ℝ × Motion ℝ)) (lk : LinkP ℝ)
    (hp : Q4.normSq (parentOr parent).1.rot = 1)
    (hlk : Q4.normSq lk.tf.rot = 1) (hjr : lk.joint.rot = ⟨1, 0, 0, 0⟩)
    (d0 d1 : DofP ℝ) (e0 e1 : V3 ℝ)
    (hd0 : d0.motion = ⟨⟨0, 0, 0⟩, e0⟩) (hd1 : d1.motion = ⟨⟨0, 0, 0⟩, e1⟩)
    (h00 : V3.dot e0 e0 = 1) (h11 : V3.dot e1 e1 = 1) (h01 : V3.dot e0 e1 = 0)
    (q0 q1 qd0 qd1 : ℝ) (hq0 : |q0| ≤ 2) (hq1 : |q1| ≤ 2) (pidx : Int) :
    let l : Kin.LinkIn ℝ := ⟨.two, [q0, q1], [qd0, qd1], [d0, d1]⟩
    let w := w2jLink lk (parentOr parent).1 (parentOr parent).2
      (fwdLink parent lk l).1 (fwdLink parent lk l).2
    ∃ qd', inverseLink .two w.1 w.2.1 pidx [d0.motion, d1.motion] = some ([q0, q1], qd')
      ∧ ((parentOr parent).2.ang = ⟨0, 0, 0⟩ → qd' = [qd0, qd1]) := by
  intro l w
  have hjc := jcalc_slides2 d0 d1 e0 e1 q0 q1 qd0 qd1 hd0 hd1 hq0 hq1
  have hj : Q4.normSq (Kin.jcalc l).1.rot = 1 := by rw [hjc]; simp [Q4.normSq]
  have hw1 := worldToJoint_forward_id parent lk l hp hlk hjr hj
  rw [hjc] at hw1
  have hx := xDof_slides w.1 w.2.1 pidx [d0.motion, d1.motion]
    (by intro m hm; simp only [List.mem_cons, List.not_mem_nil, or_false] at hm
        rcases hm with rfl | rfl <;> simp [hd0, hd1]) (by simp) (by simp)
  refine ⟨[V3.dot e0 w.2.1.vel, V3.dot e1 w.2.1.vel], ?_, ?_⟩
  · simp only [inverseLink, List.length_cons, List.length_nil, LinkType.qdWidth, if_true]
    rw [hx]
    simp only [List.map_cons, List.map_nil, hd0, hd1]
    congr 2
    show [V3.dot e0 w.1.pos, V3.dot e1 w.1.pos] = [q0, q1]
    rw [hw1]
    simp only [V3.dot] at h00 h11 h01 ⊢
    congr 1
    · linear_combination q0 * h00 + q1 * h01
    · congr 1
      linear_combination q0 * h01 + q1 * h11
  · intro hrest
    have hw3 := worldToJoint_forward_vel_partial parent lk l hp hlk hj hrest
    rw [hjr, invRotate_one, hjc] at hw3
    rw [hw3]
    simp only [V3.dot] at h00 h11 h01 ⊢
    congr 1
    · linear_combination qd0 * h00 + qd1 * h01
    · congr 1
      linear_combination qd0 * h01 + qd1 * h11

/-- a single slide joint along a unit axis -/
theorem inverse_slide_stack1 (parent : Option (Tf ℝ × Motion ℝ)) (lk : LinkP ℝ)
    (hp : Q4.normSq (parentOr parent).1.rot = 1)
    (hlk : Q4.normSq lk.tf.rot = 1) (hjr : lk.joint.rot = ⟨1, 0, 0, 0⟩)
    (d0 : DofP ℝ) (e0 : V3 ℝ) (hd0 : d0.motion = ⟨⟨0, 0, 0⟩, e0⟩) (h00 : V3.dot e0 e0 = 1)
    (q0 qd0 : ℝ) (hq0 : |q0| ≤ 2) (pidx : Int) :
    let l : Kin.LinkIn ℝ := ⟨.one, [q0], [qd0], [d0]⟩
    let w := w2jLink lk (parentOr parent).1 (parentOr parent).2
      (fwdLink parent lk l).1 (fwdLink parent lk l).2
    ∃ qd', inverseLink .one w.1 w.2.1 pidx [d0.motion] = some ([q0], qd')
      ∧ ((parentOr parent).2.ang = ⟨0, 0, 0⟩ → qd' = [qd0]) := by
  intro l w
  have hjc := jcalc_slides1 d0 e0 q0 qd0 hd0 hq0
  have hj : Q4.normSq (Kin.jcalc l).1.rot = 1 := by rw [hjc]; simp [Q4.normSq]
  have hw1 := worldToJoint_forward_id parent lk l hp hlk hjr hj
  rw [hjc] at hw1
  have hx := xDof_slides w.1 w.2.1 pidx [d0.motion]
    (by intro m hm; simp only [List.mem_cons, List.not_mem_nil, or_false] at hm
        rcases hm with rfl; simp [hd0]) (by simp) (by simp)
  refine ⟨[V3.dot e0 w.2.1.vel], ?_, ?_⟩
  · simp only [inverseLink, List.length_cons, List.length_nil, LinkType.qdWidth, if_true]
    rw [hx]
    simp only [List.map_cons, List.map_nil, hd0]
    congr 2
    show [V3.dot e0 w.1.pos] = [q0]
    rw [hw1]
    simp only [V3.dot] at h00 ⊢
    congr 1
    linear_combination q0 * h00
  · intro hrest
    have hw3 := worldToJoint_forward_vel_partial parent lk l hp hlk hj hrest
    rw [hjr, invRotate_one, hjc] at hw3
    rw [hw3]
    simp only [V3.dot] at h00 ⊢
    congr 1
    linear_combination qd0 * h00

/-! ## slide joints followed by one hinge -/

/-- **a slide joint followed by a hinge in one stack** (the planar-robot pattern), slide axis `e`
and hinge axis `a` unit vectors (no orthogonality needed), `|q_slide| ≤ 2`, `|q_hinge| ≤ 1.2`:
both coordinates and the hinge velocity are recovered for any (unit) parent frame moving in any
way; the slide velocity when the parent does not rotate.  Here `axis_angle_ang` works on the
completed frame `(a×b, a, b)` and the hinge angle is its `theta = arccos(cos q)·sign(sin q)`. -/
theorem inverse_slide_then_hinge (parent : Option (Tf ℝ × Motion ℝ)) (lk : LinkP ℝ)
    (hp : Q4.normSq (parentOr parent).1.rot = 1)
    (hlk : Q4.normSq lk.tf.rot = 1) (hjr : lk.joint.rot = ⟨1, 0, 0, 0⟩)
    (ds dh : DofP ℝ) (a e : V3 ℝ) (hs : ds.motion = ⟨⟨0, 0, 0⟩, e⟩) (hh : dh.motion = ⟨a, ⟨0, 0, 0⟩⟩)
    (ha : V3.dot a a = 1) (he : V3.dot e e = 1)
    (q0 q1 qd0 qd1 : ℝ) (hq0 : |q0| ≤ 2) (hq1 : |q1| ≤ 6 / 5) (pidx : Int) :
    let l : Kin.LinkIn ℝ := ⟨.two, [q0, q1], [qd0, qd1], [ds, dh]⟩
    let w := w2jLink lk (parentOr parent).1 (parentOr parent).2
      (fwdLink parent lk l).1 (fwdLink parent lk l).2
    ∃ v, inverseLink .two w.1 w.2.1 pidx [ds.motion, dh.motion] = some ([q0, q1], [v, qd1])
      ∧ ((parentOr parent).2.ang = ⟨0, 0, 0⟩ → v = qd0) := by
  intro l w
  have hjc := jcalc_slide_hinge ds dh a e q0 q1 qd0 qd1 hs hh ha hq0
  have hj : Q4.normSq (Kin.jcalc l).1.rot = 1 := by rw [hjc]; exact quatRotAxis_normSq a q1 ha
  have hw1 : w.1 = _ := worldToJoint_forward_id parent lk l hp hlk hjr hj
  rw [hjc] at hw1
  have hw2 : w.2.1.ang = ⟨a.x * qd1, a.y * qd1, a.z * qd1⟩ := by
    have := worldToJoint_forward_ang parent lk l hp hlk hj
    rw [hjr, invRotate_one, hjc] at this
    simp only at this
    rw [rotate_scale, rotate_axis _ q1 ha] at this; exact this
  have hx := xDof_slide_hinge a e ⟨e.x * q0, e.y * q0, e.z * q0⟩ q1 w.2.1 pidx ha
    (by rw [he]; norm_num) hq1
  refine ⟨V3.dot e w.2.1.vel, ?_, ?_⟩
  · simp only [inverseLink, List.length_cons, List.length_nil, LinkType.qdWidth, if_true, hs, hh]
    rw [hw1]
    simp only
    rw [hx, hw2]
    have hq : V3.dot e ⟨e.x * q0, e.y * q0, e.z * q0⟩ = q0 := by
      simp only [V3.dot] at he ⊢; linear_combination q0 * he
    have hv : V3.dot a (invRotate ⟨a.x * qd1, a.y * qd1, a.z * qd1⟩
        (if pidx == -1 then quatRotAxis a q1 else ⟨1, 0, 0, 0⟩)) = qd1 := by
      split
      · exact hinge_vel_aux a qd1 ha _ (invRotate_axis _ q1 ha)
      · exact hinge_vel_aux a qd1 ha _ (invRotate_one _)
    rw [hq, hv]
  · intro hrest
    have hw3 := worldToJoint_forward_vel_partial parent lk l hp hlk hj hrest
    rw [hjr, invRotate_one, hjc] at hw3
    rw [hw3]
    simp only [V3.dot] at he ⊢
    linear_combination qd0 * he

/-- **two slide joints followed by a hinge in one stack**, slide axes `e0 ⟂ e1` unit, hinge axis `a`
unit, `|q_slide| ≤ 2`, hinge angle in `(−π, π]`: all three coordinates and the hinge velocity are
recovered; the slide velocities when the parent does not rotate.  Here `axis_angle_ang` works on
the completed frame `(b, a×b, a)` and the hinge angle is its `phi`. -/
theorem inverse_slides_then_hinge (parent : Option (Tf ℝ × Motion ℝ)) (lk : LinkP ℝ)
    (hp : Q4.normSq (parentOr parent).1.rot = 1)
    (hlk : Q4.normSq lk.tf.rot = 1) (hjr : lk.joint.rot = ⟨1, 0, 0, 0⟩)
    (d0 d1 dh : DofP ℝ) (a e0 e1 : V3 ℝ) (hd0 : d0.motion = ⟨⟨0, 0, 0⟩, e0⟩)
    (hd1 : d1.motion = ⟨⟨0, 0, 0⟩, e1⟩) (hh : dh.motion = ⟨a, ⟨0, 0, 0⟩⟩)
    (ha : V3.dot a a = 1) (h00 : V3.dot e0 e0 = 1) (h11 : V3.dot e1 e1 = 1) (h01 : V3.dot e0 e1 = 0)
    (q0 q1 q2 qd0 qd1 qd2 : ℝ) (hq0 : |q0| ≤ 2) (hq1 : |q1| ≤ 2)
    (hq2 : -Real.pi < q2) (hq2' : q2 ≤ Real.pi) (pidx : Int) :
    let l : Kin.LinkIn ℝ := ⟨.three, [q0, q1, q2], [qd0, qd1, qd2], [d0, d1, dh]⟩
    let w := w2jLink lk (parentOr parent).1 (parentOr parent).2
      (fwdLink parent lk l).1 (fwdLink parent lk l).2
    ∃ v0 v1, inverseLink .three w.1 w.2.1 pidx [d0.motion, d1.motion, dh.motion]
        = some ([q0, q1, q2], [v0, v1, qd2])
      ∧ ((parentOr parent).2.ang = ⟨0, 0, 0⟩ → v0 = qd0 ∧ v1 = qd1) := by
  intro l w
  have hjc := jcalc_slide_slide_hinge d0 d1 dh a e0 e1 q0 q1 q2 qd0 qd1 qd2 hd0 hd1 hh ha hq0 hq1
  have hj : Q4.normSq (Kin.jcalc l).1.rot = 1 := by rw [hjc]; exact quatRotAxis_normSq a q2 ha
  have hw1 : w.1 = _ := worldToJoint_forward_id parent lk l hp hlk hjr hj
  rw [hjc] at hw1
  have hw2 : w.2.1.ang = ⟨a.x * qd2, a.y * qd2, a.z * qd2⟩ := by
    have := worldToJoint_forward_ang parent lk l hp hlk hj
    rw [hjr, invRotate_one, hjc] at this
    simp only at this
    rw [rotate_scale, rotate_axis _ q2 ha] at this; exact this
  have hx := xDof_slide_slide_hinge a e0 e1
    ⟨e0.x * q0 + e1.x * q1, e0.y * q0 + e1.y * q1, e0.z * q0 + e1.z * q1⟩ q2 w.2.1 pidx ha
    (by rw [h00]; norm_num) hq2 hq2'
  refine ⟨V3.dot e0 w.2.1.vel, V3.dot e1 w.2.1.vel, ?_, ?_⟩
  · simp only [inverseLink, List.length_cons, List.length_nil, LinkType.qdWidth, if_true, hd0, hd1, hh]
    rw [hw1]
    simp only
    rw [hx, hw2]
    have hqa : V3.dot e0 ⟨e0.x * q0 + e1.x * q1, e0.y * q0 + e1.y * q1, e0.z * q0 + e1.z * q1⟩ = q0 := by
      simp only [V3.dot] at h00 h01 ⊢; linear_combination q0 * h00 + q1 * h01
    have hqb : V3.dot e1 ⟨e0.x * q0 + e1.x * q1, e0.y * q0 + e1.y * q1, e0.z * q0 + e1.z * q1⟩ = q1 := by
      simp only [V3.dot] at h11 h01 ⊢; linear_combination q0 * h01 + q1 * h11
    have hv : V3.dot a (invRotate ⟨a.x * qd2, a.y * qd2, a.z * qd2⟩
        (if pidx == -1 then quatRotAxis a q2 else ⟨1, 0, 0, 0⟩)) = qd2 := by
      split
      · exact hinge_vel_aux a qd2 ha _ (invRotate_axis _ q2 ha)
      · exact hinge_vel_aux a qd2 ha _ (invRotate_one _)
    rw [hqa, hqb, hv]
  · intro hrest
    have hw3 := worldToJoint_forward_vel_partial parent lk l hp hlk hj hrest
    rw [hjr, invRotate_one, hjc] at hw3
    rw [hw3]
    simp only [V3.dot] at h00 h11 h01 ⊢
    constructor
    · linear_combination qd0 * h00 + qd1 * h01
    · linear_combination qd0 * h01 + qd1 * h11

/-- non-vacuity / instance: slide along the unit axis `(0, 3/5, 4/5)` then hinge about `(2/3, −1/3, 2/3)`
(not orthogonal to it) on the example link under the moving parent -/
example :
    let ds := exDof ⟨0, 0, 0⟩ ⟨0, 3 / 5, 4 / 5⟩
    let dh := exDof ⟨2 / 3, -1 / 3, 2 / 3⟩ ⟨0, 0, 0⟩
    let l : Kin.LinkIn ℝ := ⟨.two, [-3 / 2, 6 / 5], [1, -1], [ds, dh]⟩
    let w := w2jLink exLk exParent.1 exParent.2
      (fwdLink (some exParent) exLk l).1 (fwdLink (some exParent) exLk l).2
    ∃ v, inverseLink .two w.1 w.2.1 0 [ds.motion, dh.motion] = some ([-3 / 2, 6 / 5], [v, -1]) := by
  intro ds dh l w
  obtain ⟨v, hv, _⟩ := inverse_slide_then_hinge (some exParent) exLk
    (by simp [parentOr, exParent, Q4.normSq]) (by simp [exLk, Q4.normSq]; norm_num) rfl
    ds dh ⟨2 / 3, -1 / 3, 2 / 3⟩ ⟨0, 3 / 5, 4 / 5⟩ rfl rfl (by simp [V3.dot]; norm_num)
    (by simp [V3.dot]; norm_num) (-3 / 2) (6 / 5) 1 (-1) (by rw [abs_le]; constructor <;> norm_num)
    (by rw [abs_le]; constructor <;> norm_num) 0
  exact ⟨v, hv⟩

/-! ## stacks of two and three hinges (Euler-angle extraction `x–y'–z''`) -/

/-- **two stacked hinges with orthonormal axes** (Euler extraction `x–y'`): for `q₀ ∈ (−π, π]`,
`|q₁| ≤ 1.2` both joint positions are recovered, for any (unit) parent frame, root or child, any
anchor.  (Velocities of stacked hinges are outside the property: known finding K1.) -/
theorem inverse_two_hinges (parent : Option (Tf ℝ × Motion ℝ)) (lk : LinkP ℝ)
    (hp : Q4.normSq (parentOr parent).1.rot = 1)
    (hlk : Q4.normSq lk.tf.rot = 1) (hjr : lk.joint.rot = ⟨1, 0, 0, 0⟩)
    (d0 d1 : DofP ℝ) (a0 a1 : V3 ℝ) (hd0 : d0.motion = ⟨a0, ⟨0, 0, 0⟩⟩) (hd1 : d1.motion = ⟨a1, ⟨0, 0, 0⟩⟩)
    (h00 : V3.dot a0 a0 = 1) (h11 : V3.dot a1 a1 = 1) (h01 : V3.dot a0 a1 = 0)
    (q0 q1 qd0 qd1 : ℝ) (hq0 : -Real.pi < q0) (hq0' : q0 ≤ Real.pi) (hq1 : |q1| ≤ 6 / 5) (pidx : Int) :
    let l : Kin.LinkIn ℝ := ⟨.two, [q0, q1], [qd0, qd1], [d0, d1]⟩
    let w := w2jLink lk (parentOr parent).1 (parentOr parent).2
      (fwdLink parent lk l).1 (fwdLink parent lk l).2
    ∃ qd', inverseLink .two w.1 w.2.1 pidx [d0.motion, d1.motion] = some ([q0, q1], qd') := by
  intro l w
  have hjc := jcalc_two_hinges d0 d1 a0 a1 q0 q1 qd0 qd1 hd0 hd1 h00 h11
  have hj : Q4.normSq (Kin.jcalc l).1.rot = 1 := by
    rw [hjc]; simp only
    rw [normSq_quatMul, quatRotAxis_normSq a0 q0 h00, quatRotAxis_normSq a1 q1 h11]; ring
  have hw1 : w.1 = _ := worldToJoint_forward_id parent lk l hp hlk hjr hj
  rw [hjc] at hw1
  obtain ⟨qd', hx⟩ := xDof_two_hinges a0 a1 h00 h11 h01 ⟨0, 0, 0⟩ q0 q1 w.2.1 pidx hq0 hq0' hq1
  refine ⟨qd', ?_⟩
  simp only [inverseLink, List.length_cons, List.length_nil, LinkType.qdWidth, if_true, hd0, hd1]
  rw [hw1]; exact hx

/-- **three stacked hinges with orthonormal axes of either handedness** (`a₂ = ±a₀×a₁`; Euler
extraction `x–y'–z''` with parity): for `q₀, q₂ ∈ (−π, π]`, `|q₁| ≤ 1.2` all three joint positions are
recovered, for any (unit) parent frame, root or child, any anchor. -/
theorem inverse_three_hinges (parent : Option (Tf ℝ × Motion ℝ)) (lk : LinkP ℝ)
    (hp : Q4.normSq (parentOr parent).1.rot = 1)
    (hlk : Q4.normSq lk.tf.rot = 1) (hjr : lk.joint.rot = ⟨1, 0, 0, 0⟩)
    (d0 d1 d2 : DofP ℝ) (a0 a1 a2 : V3 ℝ) (hd0 : d0.motion = ⟨a0, ⟨0, 0, 0⟩⟩)
    (hd1 : d1.motion = ⟨a1, ⟨0, 0, 0⟩⟩) (hd2 : d2.motion = ⟨a2, ⟨0, 0, 0⟩⟩)
    (h00 : V3.dot a0 a0 = 1) (h11 : V3.dot a1 a1 = 1) (h01 : V3.dot a0 a1 = 0)
    (h2 : a2 = V3.cross a0 a1 ∨ a2 = -V3.cross a0 a1)
    (q0 q1 q2 qd0 qd1 qd2 : ℝ) (hq0 : -Real.pi < q0) (hq0' : q0 ≤ Real.pi) (hq1 : |q1| ≤ 6 / 5)
    (hq2 : -Real.pi < q2) (hq2' : q2 ≤ Real.pi) (pidx : Int) :
    let l : Kin.LinkIn ℝ := ⟨.three, [q0, q1, q2], [qd0, qd1, qd2], [d0, d1, d2]⟩
    let w := w2jLink lk (parentOr parent).1 (parentOr parent).2
      (fwdLink parent lk l).1 (fwdLink parent lk l).2
    ∃ qd', inverseLink .three w.1 w.2.1 pidx [d0.motion, d1.motion, d2.motion]
      = some ([q0, q1, q2], qd') := by
  intro l w
  -- `a2 = σ·(a0 × a1)` in frame coordinates
  obtain ⟨σ, hσ, ha2⟩ : ∃ σ : ℝ, σ * σ = 1 ∧ a2 = L a0 a1 ⟨0, 0, σ⟩ := by
    rcases h2 with h | h
    · exact ⟨1, by norm_num, by rw [h]; simp [L]⟩
    · exact ⟨-1, by norm_num, by rw [h]; simp [L, V3.neg_def]⟩
  have h22 : V3.dot a2 a2 = 1 := by rw [ha2, L_dot a0 a1 h00 h11 h01]; simp [V3.dot, hσ]
  have hjc := jcalc_three_hinges d0 d1 d2 a0 a1 a2 q0 q1 q2 qd0 qd1 qd2 hd0 hd1 hd2 h00 h11 h22
  have hj : Q4.normSq (Kin.jcalc l).1.rot = 1 := by
    rw [hjc]; simp only
    rw [normSq_quatMul, normSq_quatMul, quatRotAxis_normSq a0 q0 h00, quatRotAxis_normSq a1 q1 h11,
      quatRotAxis_normSq a2 q2 h22]; ring
  have hw1 : w.1 = _ := worldToJoint_forward_id parent lk l hp hlk hjr hj
  rw [hjc] at hw1
  obtain ⟨qd', hx⟩ := xDof_three_hinges a0 a1 h00 h11 h01 ⟨0, 0, 0⟩ σ q0 q1 q2 hσ w.2.1 pidx
    hq0 hq0' hq1 hq2 hq2'
  refine ⟨qd', ?_⟩
  simp only [inverseLink, List.length_cons, List.length_nil, LinkType.qdWidth, if_true, hd0, hd1, hd2]
  rw [hw1, ha2]; exact hx

/-- non-vacuity: a left-handed orthonormal hinge triple `(x, y, −z)` and angles inside the chart -/
example : V3.dot (⟨1, 0, 0⟩ : V3 ℝ) ⟨1, 0, 0⟩ = 1 ∧ V3.dot (⟨0, 1, 0⟩ : V3 ℝ) ⟨0, 1, 0⟩ = 1
    ∧ V3.dot (⟨1, 0, 0⟩ : V3 ℝ) ⟨0, 1, 0⟩ = 0
    ∧ (⟨0, 0, -1⟩ : V3 ℝ) = -V3.cross ⟨1, 0, 0⟩ ⟨0, 1, 0⟩
    ∧ -Real.pi < (-6 / 5 : ℝ) ∧ (-6 / 5 : ℝ) ≤ Real.pi ∧ |(6 / 5 : ℝ)| ≤ 6 / 5 := by
  refine ⟨by simp [V3.dot], by simp [V3.dot], by simp [V3.dot], by simp [V3.cross], ?_, ?_, ?_⟩
  · linarith [Real.two_le_pi]
  · linarith [Real.two_le_pi]
  · rw [abs_le]; constructor <;> norm_num

/-! ## what the pipelines report -/

/-- **`q, qd` reported by `spring.pipeline.step` / `positional.pipeline.step` are the inverse image of
the `x, xd` they report**: the last lines of both `step` functions are
`j, jd, a_p, a_c = world_to_joint(sys, x, xd); q, qd = inverse(sys, j, jd)`.  Definitional in the
model (`Inv.stepTail`); the correspondence leg (c) is what gives it content: the harness feeds the
real post-step `x, xd` to `Inv.stepTail` and compares with the real reported `q, qd`. -/
theorem step_q_is_inverse (s : Sys ℝ) (x : List (Tf ℝ)) (xd : List (Motion ℝ)) (r : Reported ℝ)
    (h : stepTail s x xd = some r) :
    inverse s r.j r.jd = some (r.q, r.qd)
      ∧ r.j = (Kin.worldToJoint s x xd).map (·.1)
      ∧ r.jd = (Kin.worldToJoint s x xd).map (·.2.1)
      ∧ r.a_p = (Kin.worldToJoint s x xd).map (·.2.2.1)
      ∧ r.a_c = (Kin.worldToJoint s x xd).map (·.2.2.2) := by
  simp only [stepTail, Option.map_eq_some_iff] at h
  obtain ⟨qq, hq, rfl⟩ := h
  exact ⟨hq, rfl, rfl, rfl, rfl⟩

/-! ## known finding K2: a slide placed after a hinge in one stack -/

/-- In a stack (hinge about `a`, then slide along `e ⟂ a`) `forward` turns the slide axis with the
hinge, but `inverse` projects the joint-frame position on the *unturned* axis `e`: the slide
coordinate comes back as `q₁·cos q₀`, not `q₁`.  (Documented upstream limitation, the `TODO` in
`kinematics.forward`; outside the property's quantifier.) -/
theorem inverse_hinge_then_slide_coord (parent : Option (Tf ℝ × Motion ℝ)) (lk : LinkP ℝ)
    (hp : Q4.normSq (parentOr parent).1.rot = 1)
    (hlk : Q4.normSq lk.tf.rot = 1) (hjr : lk.joint.rot = ⟨1, 0, 0, 0⟩)
    (dh ds : DofP ℝ) (a e : V3 ℝ) (hh : dh.motion = ⟨a, ⟨0, 0, 0⟩⟩) (hs : ds.motion = ⟨⟨0, 0, 0⟩, e⟩)
    (ha : V3.dot a a = 1) (he : V3.dot e e = 1) (hae : V3.dot a e = 0)
    (q0 q1 qd0 qd1 : ℝ) (hq1 : |q1| ≤ 2) (pidx : Int) (qq qd' : List ℝ) :
    let l : Kin.LinkIn ℝ := ⟨.two, [q0, q1], [qd0, qd1], [dh, ds]⟩
    let w := w2jLink lk (parentOr parent).1 (parentOr parent).2
      (fwdLink parent lk l).1 (fwdLink parent lk l).2
    inverseLink .two w.1 w.2.1 pidx [dh.motion, ds.motion] = some (qq, qd') →
      qq[1]? = some (q1 * Real.cos q0) := by
  intro l w hinv
  have hjc := jcalc_hinge_slide dh ds a e q0 q1 qd0 qd1 hh hs ha hq1
  have hj : Q4.normSq (Kin.jcalc l).1.rot = 1 := by rw [hjc]; exact quatRotAxis_normSq a q0 ha
  have hw1 : w.1 = _ := worldToJoint_forward_id parent lk l hp hlk hjr hj
  rw [hjc] at hw1
  simp only [inverseLink, List.length_cons, List.length_nil, LinkType.qdWidth, if_true, hh, hs] at hinv
  rw [xDof_hinge_slide_q1 w.1 w.2.1 pidx a e qq qd' hinv, hw1]
  simp only
  rw [rotate_scale, rotate_perp a e q0 ha hae]
  congr 1
  simp only [V3.dot, V3.cross] at he ⊢
  linear_combination (q1 * Real.cos q0) * he

/-- witness: hinge about `z` at `q₀ = π/2`, slide along `x` at `q₁ = 1` comes back as `0` -/
theorem inverse_hinge_then_slide_ne (lk : LinkP ℝ) (hlk : Q4.normSq lk.tf.rot = 1)
    (hjr : lk.joint.rot = ⟨1, 0, 0, 0⟩) (dh ds : DofP ℝ)
    (hh : dh.motion = ⟨⟨0, 0, 1⟩, ⟨0, 0, 0⟩⟩) (hs : ds.motion = ⟨⟨0, 0, 0⟩, ⟨1, 0, 0⟩⟩)
    (qd0 qd1 : ℝ) (qd' : List ℝ) :
    let l : Kin.LinkIn ℝ := ⟨.two, [Real.pi / 2, 1], [qd0, qd1], [dh, ds]⟩
    let w := w2jLink lk Tf.id Motion.zero (fwdLink none lk l).1 (fwdLink none lk l).2
    inverseLink .two w.1 w.2.1 (-1) [dh.motion, ds.motion] ≠ some ([Real.pi / 2, 1], qd') := by
  intro l w hinv
  have := inverse_hinge_then_slide_coord none lk (by simp [parentOr, Tf.id, Q4.one, Q4.normSq]) hlk hjr
    dh ds ⟨0, 0, 1⟩ ⟨1, 0, 0⟩ hh hs (by simp [V3.dot]) (by simp [V3.dot]) (by simp [V3.dot])
    (Real.pi / 2) 1 qd0 qd1 (by norm_num) (-1) _ qd' hinv
  simp [Real.cos_pi_div_two] at this

end Brax.C08
