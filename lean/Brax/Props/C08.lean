import Brax.Model.C08
import Brax.Lemmas.Real
namespace Brax.C08
open Brax
theorem worldToJoint_eq (s : Sys ℝ) (x : List (Tf ℝ)) (xd : List (Motion ℝ)) :
    Kin.worldToJoint s x xd = (List.range s.links.length).filterMap (fun i => do
      let lk ← s.links[i]?
      let xi ← x[i]?
      let xdi ← xd[i]?
      let p := s.parents.getD i (-1)
      pure (Inv.w2jLink lk (Kin.takeParent x Tf.id p) (Kin.takeParent xd Motion.zero p) xi xdi)) :=
  rfl
end Brax.C08
