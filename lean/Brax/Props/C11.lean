import Brax.Lemmas.C11
import Mathlib.Tactic.NormNum
/-!
# C11 — Actuators produce the modelled joint force on the actuated joint only

`Act.toTau` (`Brax/Model/C11.lean`) is the model of `brax/actuator.py: to_tau`, `Act.ofMj` the
model of the actuator table built by `brax/io/mjcf.py: load_model`; `Mj.qfrcActuator`
(`Brax/Spec/C11.lean`) is MuJoCo's rule.  All theorems hold for **any** number of actuators and
dofs, all controls / positions / velocities in an arbitrary linear ordered field (so for ℚ and ℝ).
The tie of model and spec to the Python code and to real MuJoCo is `harness/corr_C11.py`.

Only property theorems and non-vacuity examples live in this file.
-/
set_option linter.unusedSectionVars false
namespace Brax.C11
open Brax Brax.Act

variable {K : Type} [Field K] [LinearOrder K] [IsStrictOrderedRing K]

/-! ## loader -/

/-- `q_id = jnt_qposadr[trnid]`, `qd_id = jnt_dofadr[trnid]`, gain / gear copied -/
theorem actuator_ids (m : Mj.Model K) (a : Mj.Actuator K) :
    (ofMjActuator m a).qId = m.jntQposadr.getD a.trnid 0 ∧
    (ofMjActuator m a).qdId = m.jntDofadr.getD a.trnid 0 ∧
    (ofMjActuator m a).gain = a.gainprm0 ∧ (ofMjActuator m a).gear = a.gear0 :=
  ⟨rfl, rfl, rfl, rfl⟩

/-- an unlimited range becomes `(-∞, ∞)`, a limited one is copied -/
theorem actuator_ranges (m : Mj.Model K) (a : Mj.Actuator K) :
    ((ofMjActuator m a).ctrlLo, (ofMjActuator m a).ctrlHi)
      = (if a.ctrllimited then (some a.ctrlLo, some a.ctrlHi) else (none, none)) ∧
    ((ofMjActuator m a).forceLo, (ofMjActuator m a).forceHi)
      = (if a.forcelimited then (some a.forceLo, some a.forceHi) else (none, none)) := by
  constructor
  · cases h : a.ctrllimited <;> simp [ofMjActuator, range, h]
  · cases h : a.forcelimited <;> simp [ofMjActuator, range, h]

/-- on a well-formed model no row is masked: one table row per MuJoCo actuator, in order -/
theorem ofMj_eq_map (m : Mj.Model K) (hwf : m.WF) : ofMj m = m.acts.map (ofMjActuator m) := by
  unfold ofMj
  rw [List.filter_eq_self.mpr]
  intro a ha
  exact (hwf.2.2 a ha).1

/-! ## `nu = 0`, length, zero on unactuated dofs -/

theorem toTau_nu_zero (nv : Nat) (u q qd : List K) :
    toTau nv [] u q qd = List.replicate nv 0 := by
  simp [toTau, zeros]

theorem toTau_length (nv : Nat) (acts : List (Act K)) (u q qd : List K) :
    (toTau nv acts u q qd).length = nv := length_toTau nv acts u q qd

/-- a dof that is no actuator's `qd_id` gets exactly `0` -/
theorem toTau_zero_unactuated (nv : Nat) (acts : List (Act K)) (u q qd : List K) (i : Nat)
    (hi : i < nv) (h : ∀ a ∈ acts, a.qdId ≠ i) :
    (toTau nv acts u q qd)[i]? = some 0 := by
  rw [getElem?_toTau, if_pos hi]
  congr 1
  unfold tauAt
  apply sum_map_eq_zero
  intro p hp
  have : p.1 ∈ acts := (List.of_mem_zip hp).1
  simp [h p.1 this]

/-! ## additivity -/

/-- component `i` is the sum, over the actuators whose `qd_id` is `i`, of `force · gear` -/
theorem toTau_eq_sum (nv : Nat) (acts : List (Act K)) (u q qd : List K) :
    toTau nv acts u q qd = (List.range nv).map fun i =>
      ((acts.zip u).map fun p => if p.1.qdId = i then p.1.out q qd p.2 else 0).sum :=
  toTau_eq_map_tauAt nv acts u q qd

/-- a single actuator writes `force · gear` at its `qd_id` and zero elsewhere -/
theorem toTau_single (nv : Nat) (a : Act K) (x : K) (q qd : List K) :
    toTau nv [a] [x] q qd = (List.range nv).map fun i => if a.qdId = i then a.out q qd x else 0 := by
  rw [toTau_eq_sum]
  simp

/-- several actuators (also on one dof) add: `tau` is the component-wise sum of the vectors
each actuator would produce alone -/
theorem toTau_additive (nv : Nat) (acts : List (Act K)) (u q qd : List K) :
    toTau nv acts u q qd = vsum nv ((acts.zip u).map fun p => toTau nv [p.1] [p.2] q qd) := by
  rw [toTau_eq_sum]
  unfold vsum
  induction acts generalizing u with
  | nil => simp [zeros, List.map_const']
  | cons a as ih =>
    cases u with
    | nil => simp [zeros, List.map_const']
    | cons x xs =>
      simp only [List.zip_cons_cons, List.map_cons, List.foldr_cons, List.sum_cons]
      rw [← ih xs, toTau_single, zipWith_add_map]

/-- splitting the actuator list splits `tau` -/
theorem toTau_append (nv : Nat) (as bs : List (Act K)) (us vs q qd : List K)
    (hl : us.length = as.length) :
    toTau nv (as ++ bs) (us ++ vs) q qd
      = List.zipWith (· + ·) (toTau nv as us q qd) (toTau nv bs vs q qd) := by
  simp only [toTau_eq_sum, zipWith_add_map]
  rw [List.zip_append hl.symm]
  simp

/-! ## model = MuJoCo rule -/

/-- force of one table row = MuJoCo's scalar actuator force -/
theorem force_eq_mj (m : Mj.Model K) (a : Mj.Actuator K) (ha : a.WF m) (c x v : K) :
    (ofMjActuator m a).force c x v = a.force c (a.gear0 * x) (a.gear0 * v) := by
  obtain ⟨-, -, -, -, -, hb, hb0, hc, hf⟩ := ha
  have hb0' : a.biasprm0 = 0 := by
    simp only [eqZero, Bool.and_eq_true, Bool.not_eq_true', decide_eq_false_iff_not, not_lt] at hb0
    exact le_antisymm hb0.2 hb0.1
  have hbias : a.gear0 * (x * (if a.biastype ≠ 0 then a.biasprm1 else 0)
        + v * (if a.biastype ≠ 0 then a.biasprm2 else 0))
      = if a.biastype = 0 then 0
        else a.biasprm0 + a.biasprm1 * (a.gear0 * x) + a.biasprm2 * (a.gear0 * v) := by
    by_cases hbt : a.biastype = 0
    · simp [hbt]
    · simp only [hbt, ne_eq, not_false_eq_true, if_true, if_false, hb0']; ring
  simp only [Act.force, Mj.Actuator.force, ofMjActuator]
  rw [clipO_range_eq _ _ _ _ hc, clipO_range_eq _ _ _ _ hf, hbias]

/-- **Model = Spec**: on every well-formed model (joint transmissions on hinge/slide joints,
motor / position / velocity parameters, MuJoCo's `lo ≤ hi` for limited ranges) the joint force
of brax (`to_tau` after `load_model`) is MuJoCo's `qfrc_actuator`. -/
theorem toTau_eq_mj (m : Mj.Model K) (hwf : m.WF) (u q qd : List K)
    (hq : q.length = m.nq) (hqd : qd.length = m.nv) :
    toTau m.nv (ofMj m) u q qd = Mj.qfrcActuator m u q qd := by
  rw [ofMj_eq_map m hwf, toTau_eq_sum]
  unfold Mj.qfrcActuator Mj.actuatorForce
  apply List.map_congr_left
  intro i _
  have hacts : ∀ a ∈ m.acts, a.WF m := hwf.2.2
  generalize m.acts = l at hacts
  induction l generalizing u with
  | nil => simp
  | cons a as ih =>
    cases u with
    | nil => simp
    | cons x xs =>
      have ha := hacts a (List.mem_cons_self)
      simp only [List.map_cons, List.zip_cons_cons, List.zipWith_cons_cons, List.sum_cons]
      rw [ih xs (fun b hb => hacts b (List.mem_cons_of_mem _ hb))]
      congr 1
      have hqa : m.qposadr a < q.length := hq ▸ ha.2.2.2.1
      have hda : m.dofadr a < qd.length := hqd ▸ ha.2.2.2.2.1
      have hg1 : gather q (m.qposadr a) = q.getD (m.qposadr a) 0 := by
        unfold gather; congr 1; omega
      have hg2 : gather qd (m.dofadr a) = qd.getD (m.dofadr a) 0 := by
        unfold gather; congr 1; omega
      have hid : (ofMjActuator m a).qdId = m.dofadr a := rfl
      have hiq : (ofMjActuator m a).qId = m.qposadr a := rfl
      have hgear : (ofMjActuator m a).gear = a.gear0 := rfl
      simp only [Act.out, hid, hiq, hgear, hg1, hg2, force_eq_mj m a ha]
      split_ifs <;> ring

/-! ## monotonicity -/

/-- the output of one actuator is non-decreasing in its control when `gain, gear ≥ 0` -/
theorem out_mono (a : Act K) (hgain : 0 ≤ a.gain) (hgear : 0 ≤ a.gear) (q qd : List K)
    {x y : K} (h : x ≤ y) : a.out q qd x ≤ a.out q qd y := by
  unfold Act.out Act.force
  apply mul_le_mul_of_nonneg_right _ hgear
  apply clipO_mono
  have := mul_le_mul_of_nonneg_left (clipO_mono a.ctrlLo a.ctrlHi h) hgain
  linarith

/-- every component of `tau` is non-decreasing in the control vector (component-wise order)
when all gains and gears are non-negative -/
theorem toTau_mono (nv : Nat) (acts : List (Act K)) (q qd : List K)
    (hpos : ∀ a ∈ acts, 0 ≤ a.gain ∧ 0 ≤ a.gear) (u u' : List K)
    (hu : List.Forall₂ (· ≤ ·) u u') :
    List.Forall₂ (· ≤ ·) (toTau nv acts u q qd) (toTau nv acts u' q qd) := by
  rw [toTau_eq_sum, toTau_eq_sum]
  apply forall₂_map_range
  intro i
  induction acts generalizing u u' with
  | nil => simp
  | cons a as ih =>
    cases hu with
    | nil => simp
    | cons hxy hrest =>
      simp only [List.zip_cons_cons, List.map_cons, List.sum_cons]
      have h1 := ih (fun b hb => hpos b (List.mem_cons_of_mem _ hb)) _ _ hrest
      have ha := hpos a List.mem_cons_self
      have h2 := out_mono a ha.1 ha.2 q qd hxy
      split_ifs <;> linarith

/-- … in particular in each single control `u_k` -/
theorem toTau_mono_coord (nv : Nat) (acts : List (Act K)) (q qd : List K)
    (hpos : ∀ a ∈ acts, 0 ≤ a.gain ∧ 0 ≤ a.gear) (u : List K) (k : Nat) (x y : K)
    (hx : u[k]? = some x) (hxy : x ≤ y) :
    List.Forall₂ (· ≤ ·) (toTau nv acts u q qd) (toTau nv acts (u.set k y) q qd) :=
  toTau_mono nv acts q qd hpos u (u.set k y) (forall₂_le_set u k x y hx hxy)

/-! ## constant outside the control range -/

theorem toTau_const_below (nv : Nat) (acts : List (Act K)) (u q qd : List K) (k : Nat)
    (a : Act K) (lo x : K) (hk : acts[k]? = some a) (hlo : a.ctrlLo = some lo)
    (hx : u[k]? = some x) (hle : x ≤ lo) :
    toTau nv acts u q qd = toTau nv acts (u.set k lo) q qd := by
  unfold toTau
  rw [zipWith_set_congr (fun a uk => a.out q qd uk) acts u k a x lo hk hx]
  unfold Act.out Act.force
  rw [hlo, clipO_of_le_lo _ hle]

theorem toTau_const_above (nv : Nat) (acts : List (Act K)) (u q qd : List K) (k : Nat)
    (a : Act K) (hi x : K) (hk : acts[k]? = some a) (hhi : a.ctrlHi = some hi)
    (hx : u[k]? = some x) (hle : hi ≤ x) :
    toTau nv acts u q qd = toTau nv acts (u.set k hi) q qd := by
  unfold toTau
  rw [zipWith_set_congr (fun a uk => a.out q qd uk) acts u k a x hi hk hx]
  unfold Act.out Act.force
  rw [hhi, clipO_of_hi_le _ hle]

/-- `u_k ≤ lo ⇒ τ(u) = τ(u[k := lo])` and `u_k ≥ hi ⇒ τ(u) = τ(u[k := hi])` -/
theorem toTau_const_outside (nv : Nat) (acts : List (Act K)) (u q qd : List K) (k : Nat)
    (a : Act K) (lo hi x : K) (hk : acts[k]? = some a)
    (hlo : a.ctrlLo = some lo) (hhi : a.ctrlHi = some hi) (hx : u[k]? = some x) :
    (x ≤ lo → toTau nv acts u q qd = toTau nv acts (u.set k lo) q qd) ∧
    (hi ≤ x → toTau nv acts u q qd = toTau nv acts (u.set k hi) q qd) :=
  ⟨toTau_const_below nv acts u q qd k a lo x hk hlo hx,
   toTau_const_above nv acts u q qd k a hi x hk hhi hx⟩

/-! ## bound -/

theorem forceBound_nonneg (a : Act K) : 0 ≤ a.forceBound := by
  unfold forceBound
  split
  · exact mul_nonneg (abs_nonneg _) (le_trans (abs_nonneg _) (le_max_left _ _))
  · exact le_refl _

theorem abs_out_le (a : Act K) (lo hi : K) (hlo : a.forceLo = some lo) (hhi : a.forceHi = some hi)
    (q qd : List K) (x : K) : |a.out q qd x| ≤ a.forceBound := by
  unfold Act.out Act.force forceBound
  rw [hlo, hhi, abs_mul, mul_comm]
  exact mul_le_mul_of_nonneg_left (abs_clipO_le _ _ _) (abs_nonneg _)

/-- `|τ_i| ≤ Σ_{k : qd_id k = i} |gear_k| · max(|force_lo k|, |force_hi k|)` when the actuators of
dof `i` are force limited -/
theorem toTau_bounded (nv : Nat) (acts : List (Act K)) (u q qd : List K) (i : Nat)
    (hlim : ∀ a ∈ acts, a.qdId = i → ∃ lo hi, a.forceLo = some lo ∧ a.forceHi = some hi) :
    |(toTau nv acts u q qd).getD i 0|
      ≤ (acts.map fun a => if a.qdId = i then a.forceBound else 0).sum := by
  have hsum : ∀ (acts : List (Act K)) (u : List K),
      (∀ a ∈ acts, a.qdId = i → ∃ lo hi, a.forceLo = some lo ∧ a.forceHi = some hi) →
      |tauAt i acts u q qd| ≤ (acts.map fun a => if a.qdId = i then a.forceBound else 0).sum ∧
      0 ≤ (acts.map fun a => if a.qdId = i then a.forceBound else 0).sum := by
    intro acts
    induction acts with
    | nil => intro u _; simp [tauAt]
    | cons a as ih =>
      intro u hl
      have hrest := fun v => ih v (fun b hb => hl b (List.mem_cons_of_mem _ hb))
      have hnn : 0 ≤ (if a.qdId = i then a.forceBound else 0) := by
        split_ifs
        · exact forceBound_nonneg a
        · exact le_refl _
      cases u with
      | nil =>
        have := (hrest []).2
        simp only [tauAt, List.zip_nil_right, List.map_nil, List.sum_nil, abs_zero, List.map_cons,
          List.sum_cons]
        exact ⟨by linarith, by linarith⟩
      | cons x xs =>
        obtain ⟨h1, h2⟩ := hrest xs
        simp only [tauAt, List.zip_cons_cons, List.map_cons, List.sum_cons] at h1 ⊢
        refine ⟨le_trans (abs_add_le _ _) (add_le_add ?_ h1), by linarith⟩
        by_cases hai : a.qdId = i
        · obtain ⟨lo, hi, hlo, hhi⟩ := hl a List.mem_cons_self hai
          simp only [hai, if_true]
          exact abs_out_le a lo hi hlo hhi q qd x
        · simp [hai]
  have hget : (toTau nv acts u q qd).getD i 0 = if i < nv then tauAt i acts u q qd else 0 := by
    rw [List.getD_eq_getElem?_getD, getElem?_toTau]
    split_ifs <;> rfl
  rw [hget]
  obtain ⟨h1, h2⟩ := hsum acts u hlim
  split_ifs
  · exact h1
  · simpa using h2

/-! ## non-vacuity: concrete models over ℚ -/

/-- a hinge–slide stack behind a free root; a force-limited position actuator and a
control-limited motor on the slide, a velocity actuator on the hinge -/
def exMj : Mj.Model ℚ where
  nq := 9
  nv := 8
  jntType := [0, 3, 2]
  jntQposadr := [0, 7, 8]
  jntDofadr := [0, 6, 7]
  acts := [
    { trnJoint := true, trnid := 2, gainprm0 := 3, biastype := 1, biasprm0 := 0, biasprm1 := -3,
      biasprm2 := 0, gear0 := 1/2, ctrllimited := false, ctrlLo := 0, ctrlHi := 0,
      forcelimited := true, forceLo := -2, forceHi := 3/2 },
    { trnJoint := true, trnid := 2, gainprm0 := 1, biastype := 0, biasprm0 := 0, biasprm1 := 0,
      biasprm2 := 0, gear0 := 2, ctrllimited := true, ctrlLo := -1, ctrlHi := 1,
      forcelimited := false, forceLo := 0, forceHi := 0 },
    { trnJoint := true, trnid := 1, gainprm0 := 3/2, biastype := 1, biasprm0 := 0, biasprm1 := 0,
      biasprm2 := -3/2, gear0 := -2, ctrllimited := false, ctrlLo := 0, ctrlHi := 0,
      forcelimited := false, forceLo := 0, forceHi := 0 }]

def exQ : List ℚ := [0, 0, 1, 1, 0, 0, 0, 1/4, 1/2]
def exQd : List ℚ := [0, 0, 0, 0, 0, 0, 1, -1/2]

/-- the hypotheses of `toTau_eq_mj` are satisfiable -/
example : exMj.WF := by decide +kernel

/-- … and both sides are the non-trivial vector `(0,…,0, -3, 11/4)`: dof 6 gets
`-2·(3/2·(-1) - 3/2·(-2·1)) = -3`, dof 7 the sum `1/2·(3/2) + 2·1` of two actuators, one clipped at
its force bound and one at its control bound -/
example : toTau exMj.nv (ofMj exMj) [3, 2, -1] exQ exQd = [0, 0, 0, 0, 0, 0, -3, 11/4] ∧
    Mj.qfrcActuator exMj [3, 2, -1] exQ exQd = [0, 0, 0, 0, 0, 0, -3, 11/4] := by
  decide +kernel

/-- gain and gear non-negative (hypothesis of `toTau_mono`) for the two actuators of the slide,
and the force really moves with the control: `τ₇(u₀ = 0) = 13/8 < 11/4 = τ₇(u₀ = 3)` -/
example : (∀ a ∈ (ofMj exMj).take 2, (0 : ℚ) ≤ a.gain ∧ 0 ≤ a.gear) ∧
    toTau exMj.nv ((ofMj exMj).take 2) [0, 2] exQ exQd = [0, 0, 0, 0, 0, 0, 0, 13/8] ∧
    toTau exMj.nv ((ofMj exMj).take 2) [3, 2] exQ exQd = [0, 0, 0, 0, 0, 0, 0, 11/4] := by
  decide +kernel

/-- `toTau_const_outside` applies to actuator 1 (control range `[-1, 1]`) -/
example : ((ofMj exMj)[1]?.map fun a => (a.ctrlLo, a.ctrlHi)) = some (some (-1 : ℚ), some (1 : ℚ)) := by
  decide +kernel

/-- `toTau_bounded` applies to dof 7 of the one-actuator sub-table (force range `[-2, 3/2]`,
gear `1/2`): the bound is `1/2 · 2 = 1`, attained up to the clip side: `τ₇(u₀ = -3) = -1` -/
example : (∀ a ∈ (ofMj exMj).take 1, a.qdId = 7 →
      ∃ lo hi, a.forceLo = some lo ∧ a.forceHi = some hi) ∧
    (((ofMj exMj).take 1).map fun a => if a.qdId = 7 then a.forceBound else 0).sum = 1 ∧
    toTau exMj.nv ((ofMj exMj).take 1) [-3] exQ exQd = [0, 0, 0, 0, 0, 0, 0, -1] := by
  refine ⟨?_, ?_, by decide +kernel⟩
  · intro a ha _
    simp only [ofMj, exMj, List.filter, List.map, List.take, List.mem_singleton] at ha
    subst ha
    exact ⟨_, _, rfl, rfl⟩
  · simp only [ofMj, exMj, List.filter, List.map, List.take, ofMjActuator, Mj.Model.dofadr,
      forceBound, range]
    norm_num

/-- the constant bias term `biasprm[0]` is not read by brax: outside the motor / position /
velocity family (`WF` demands `biasprm0 = 0`) model and MuJoCo differ. -/
theorem toTau_ne_mj_of_biasprm0 :
    ∃ m : Mj.Model ℚ, toTau m.nv (ofMj m) [0] [0] [0] ≠ Mj.qfrcActuator m [0] [0] [0] := by
  refine ⟨{ nq := 1, nv := 1, jntType := [3], jntQposadr := [0], jntDofadr := [0],
            acts := [{ trnJoint := true, trnid := 0, gainprm0 := 1, biastype := 1, biasprm0 := 1,
                       biasprm1 := 0, biasprm2 := 0, gear0 := 1, ctrllimited := false, ctrlLo := 0,
                       ctrlHi := 0, forcelimited := false, forceLo := 0, forceHi := 0 }] }, ?_⟩
  decide +kernel

end Brax.C11
