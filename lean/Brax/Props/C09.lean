import Brax.Gen.Math
import Brax.Lemmas.Real
import Brax.Lemmas.Norm
import Brax.Lemmas.C09Laws
import Mathlib.Tactic.Ring
import Mathlib.Tactic.FieldSimp
import Mathlib.Tactic.LinearCombination
import Mathlib.Tactic.IntervalCases
/-!
# C09 — Transforms, motions, forces and inertias obey rigid-body spatial algebra

Every theorem below is about a definition of `Brax/Gen/Math.lean`, which is *generated from
the working tree of google/brax on every run* (jaxpr → Lean).  The laws are ring / field
identities and are proved for **all** elements of an arbitrary commutative ring (resp. field),
hence for all real inputs — not for a lattice sample.

`bridge_*` lemmas state `Gen.f = Model.f`: they tie the hand-written model of
`Brax/Model/Math.lean`, used by all other properties, to the generated code.

Only property theorems live in this file.
-/
namespace Brax.C09
open Brax

section CommRing
variable {R : Type} [CommRing R]

/-! ## bridges Gen = hand model -/

/-- closes a bridge goal `Gen.f … = Brax.f …` whatever the order/association in which the traced source lists
commutative terms: unfold, split the structure, `ring` on the components (a harmless reordering of `a + b` in the
python source must not break a bridge) -/
syntax "bridge" "[" Lean.Parser.Tactic.simpLemma,* "]" : tactic
macro_rules
  | `(tactic| bridge [$ds,*]) => `(tactic| first
      | rfl
      | (simp only [$ds,*]; done)
      | (simp only [$ds,*]; ring)
      | (simp only [$ds,*]; congr 1 <;> ring)
      | (simp only [$ds,*]; congr 1 <;> congr 1 <;> ring)
      | (simp only [$ds,*]; congr 1 <;> congr 1 <;> congr 1 <;> ring))

theorem bridge_rotate (v : V3 R) (q : Q4 R) : Gen.rotate v q = Brax.rotate v q := by
  simp only [Gen.rotate, Brax.rotate, V3.dot, V3.cross, Q4.vec]; congr 1 <;> ring
theorem bridge_rotateNp (v : V3 R) (q : Q4 R) : Gen.rotateNp v q = Brax.rotate v q := by
  simp only [Gen.rotateNp, Brax.rotate, V3.dot, V3.cross, Q4.vec]; congr 1 <;> ring
theorem bridge_quatMul (u v : Q4 R) : Gen.quatMul u v = Brax.quatMul u v := by
  bridge [Gen.quatMul, Brax.quatMul]
theorem bridge_quatMulNp (u v : Q4 R) : Gen.quatMulNp u v = Brax.quatMul u v := by
  bridge [Gen.quatMulNp, Brax.quatMul]
theorem bridge_quatInv (q : Q4 R) : Gen.quatInv q = Brax.quatInv q := by
  simp only [Gen.quatInv, Brax.quatInv]; congr 1 <;> ring
theorem bridge_invRotate (v : V3 R) (q : Q4 R) : Gen.invRotate v q = Brax.invRotate v q := by
  simp only [Gen.invRotate, Brax.invRotate, Brax.rotate, Brax.quatInv, V3.dot, V3.cross, Q4.vec]
  congr 1 <;> ring
theorem bridge_angToQuat (a : V3 R) : Gen.angToQuat a = Brax.angToQuat a := by
  bridge [Gen.angToQuat, Brax.angToQuat]
theorem bridge_vecQuatMul (u : V3 R) (v : Q4 R) : Gen.vecQuatMul u v = Brax.vecQuatMul u v := by
  bridge [Gen.vecQuatMul, Brax.vecQuatMul]
theorem bridge_quatMulAng (q : Q4 R) (a : V3 R) : Gen.quatMulAng q a = Brax.quatMulAng q a := by
  bridge [Gen.quatMulAng, Brax.quatMulAng]
theorem bridge_relativeQuat (p q : Q4 R) : Gen.relativeQuat p q = Brax.relativeQuat p q := by
  simp only [Gen.relativeQuat, Brax.relativeQuat, Brax.quatMul, Brax.quatInv]; congr 1 <;> ring
theorem bridge_tfDoTf (a b : Tf R) : Gen.tfDoTf a b = Tf.doTf a b := by
  simp only [Gen.tfDoTf, Tf.doTf, Brax.rotate, Brax.quatMul, V3.dot, V3.cross, Q4.vec, V3.add_def]
  congr 1; congr 1 <;> ring
theorem bridge_tfToLocal (a b : Tf R) : Gen.tfToLocal a b = Tf.toLocal a b := by
  simp only [Gen.tfToLocal, Tf.toLocal, Brax.rotate, Brax.quatMul, Brax.quatInv, V3.dot, V3.cross,
    Q4.vec, V3.sub_def]
  congr 1 <;> congr 1 <;> ring
theorem bridge_tfDoMotion (t : Tf R) (m : Motion R) : Gen.tfDoMotion t m = Tf.doMotion t m := by
  simp only [Gen.tfDoMotion, Tf.doMotion, Brax.rotate, Brax.quatInv, V3.dot, V3.cross, Q4.vec,
    V3.sub_def]
  congr 1 <;> congr 1 <;> ring
theorem bridge_tfInvDoMotion (t : Tf R) (m : Motion R) :
    Gen.tfInvDoMotion t m = Tf.invDoMotion t m := by
  simp only [Gen.tfInvDoMotion, Tf.invDoMotion, Brax.rotate, V3.dot, V3.cross, Q4.vec, V3.add_def]
  congr 1 <;> congr 1 <;> ring
theorem bridge_tfDoForce (t : Tf R) (f : Force R) : Gen.tfDoForce t f = Tf.doForce t f := by
  simp only [Gen.tfDoForce, Tf.doForce, Brax.rotate, V3.dot, V3.cross, Q4.vec, V3.add_def]
  congr 1 <;> congr 1 <;> ring
theorem bridge_motionCrossM (a b : Motion R) : Gen.motionCrossM a b = Motion.crossM a b := by
  bridge [Gen.motionCrossM, Motion.crossM, V3.cross, V3.add_def]
theorem bridge_motionCrossF (a : Motion R) (f : Force R) :
    Gen.motionCrossF a f = Motion.crossF a f := by
  bridge [Gen.motionCrossF, Motion.crossF, V3.cross, V3.add_def]
theorem bridge_motionDotF (m : Motion R) (f : Force R) : Gen.motionDotF m f = Motion.dotF m f := by
  bridge [Gen.motionDotF, Motion.dotF, V3.dot]
theorem bridge_inertiaMul (it : Inertia R) (m : Motion R) :
    Gen.inertiaMul it m = Inertia.mul it m := by
  bridge [Gen.inertiaMul, Inertia.mul, M3.mulVec, V3.dot, V3.cross, V3.smul, V3.add_def, V3.sub_def]

/-! ## quaternions -/

theorem quatMul_assoc (a b c : Q4 R) :
    Gen.quatMul (Gen.quatMul a b) c = Gen.quatMul a (Gen.quatMul b c) := by
  simp only [Gen.quatMul]; congr 1 <;> ring

theorem quatMul_one_left (q : Q4 R) : Gen.quatMul ⟨1, 0, 0, 0⟩ q = q := by
  simp only [Gen.quatMul]; cases q; congr 1 <;> ring
theorem quatMul_one_right (q : Q4 R) : Gen.quatMul q ⟨1, 0, 0, 0⟩ = q := by
  simp only [Gen.quatMul]; cases q; congr 1 <;> ring

/-- `q · q̄ = |q|² · 1` -/
theorem quatMul_inv_self (q : Q4 R) :
    Gen.quatMul q (Gen.quatInv q) = ⟨Q4.normSq q, 0, 0, 0⟩ := by
  simp only [Gen.quatMul, Gen.quatInv, Q4.normSq]; congr 1 <;> ring
theorem quatInv_mul_self (q : Q4 R) :
    Gen.quatMul (Gen.quatInv q) q = ⟨Q4.normSq q, 0, 0, 0⟩ := by
  simp only [Gen.quatMul, Gen.quatInv, Q4.normSq]; congr 1 <;> ring

/-- the quaternion norm is multiplicative -/
theorem normSq_quatMul (p q : Q4 R) :
    Q4.normSq (Gen.quatMul p q) = Q4.normSq p * Q4.normSq q := by
  simp only [Gen.quatMul, Q4.normSq]; ring

theorem quatInv_quatMul (p q : Q4 R) :
    Gen.quatInv (Gen.quatMul p q) = Gen.quatMul (Gen.quatInv q) (Gen.quatInv p) := by
  simp only [Gen.quatMul, Gen.quatInv]; congr 1 <;> ring

theorem quatInv_involutive (q : Q4 R) : Gen.quatInv (Gen.quatInv q) = q := by
  simp only [Gen.quatInv]; cases q; congr 1 <;> ring

/-- `vec_quat_mul u q = quat_mul (0,u) q` -/
theorem vecQuatMul_eq (u : V3 R) (q : Q4 R) :
    Gen.vecQuatMul u q = Gen.quatMul (Gen.angToQuat u) q := by
  simp only [Gen.vecQuatMul, Gen.quatMul, Gen.angToQuat]; congr 1 <;> ring

theorem relativeQuat_eq (p q : Q4 R) :
    Gen.relativeQuat p q = Gen.quatMul q (Gen.quatInv p) := by
  simp only [Gen.relativeQuat, Gen.quatMul, Gen.quatInv]

/-- `relative_quat q1 q2 · q1 = |q1|² q2` : the relative quaternion takes `q1` to `q2` -/
theorem relativeQuat_mul (p q : Q4 R) :
    Gen.quatMul (Gen.relativeQuat p q) p = Q4.smul (Q4.normSq p) q := by
  simp only [Gen.relativeQuat, Gen.quatMul, Q4.smul, Q4.normSq]; congr 1 <;> ring

/-! ## rotation -/

/-- rotating by a product = rotating successively -/
theorem rotate_quatMul (v : V3 R) (p q : Q4 R) :
    Gen.rotate v (Gen.quatMul p q) = Gen.rotate (Gen.rotate v q) p := by
  simp only [Gen.rotate, Gen.quatMul]; congr 1 <;> ring

theorem rotate_one (v : V3 R) : Gen.rotate v ⟨1, 0, 0, 0⟩ = v := by
  simp only [Gen.rotate]; cases v; congr 1 <;> ring

theorem rotate_add (u v : V3 R) (q : Q4 R) :
    Gen.rotate (u + v) q = Gen.rotate u q + Gen.rotate v q := by
  simp only [Gen.rotate, V3.add_def]; congr 1 <;> ring

theorem rotate_smul (s : R) (v : V3 R) (q : Q4 R) :
    Gen.rotate (V3.smul s v) q = V3.smul s (Gen.rotate v q) := by
  simp only [Gen.rotate, V3.smul]; congr 1 <;> ring

/-- sandwich form: `(0, rotate v q) = q (0,v) q̄` -/
theorem rotate_sandwich (v : V3 R) (q : Q4 R) :
    Gen.angToQuat (Gen.rotate v q)
      = Gen.quatMul (Gen.quatMul q (Gen.angToQuat v)) (Gen.quatInv q) := by
  simp only [Gen.rotate, Gen.quatMul, Gen.quatInv, Gen.angToQuat]; congr 1 <;> ring

/-- rotating back with the conjugate returns `|q|⁴ v` (so `v` for unit `q`) -/
theorem rotate_inv_rotate (v : V3 R) (q : Q4 R) :
    Gen.rotate (Gen.rotate v q) (Gen.quatInv q) = V3.smul (Q4.normSq q * Q4.normSq q) v := by
  simp only [Gen.rotate, Gen.quatInv, V3.smul, Q4.normSq]; congr 1 <;> ring

theorem invRotate_eq (v : V3 R) (q : Q4 R) :
    Gen.invRotate v q = Gen.rotate v (Gen.quatInv q) := by
  simp only [Gen.invRotate, Gen.rotate, Gen.quatInv]

theorem invRotate_rotate (v : V3 R) (q : Q4 R) :
    Gen.invRotate (Gen.rotate v q) q = V3.smul (Q4.normSq q * Q4.normSq q) v := by
  simp only [Gen.invRotate, Gen.rotate, V3.smul, Q4.normSq]; congr 1 <;> ring

/-- rotation preserves dot products up to `|q|⁴` -/
theorem rotate_dot (u v : V3 R) (q : Q4 R) :
    V3.dot (Gen.rotate u q) (Gen.rotate v q) = Q4.normSq q * Q4.normSq q * V3.dot u v := by
  simp only [Gen.rotate, V3.dot, Q4.normSq]; ring

/-- rotation commutes with the cross product up to `|q|²` -/
theorem rotate_cross (u v : V3 R) (q : Q4 R) :
    V3.cross (Gen.rotate u q) (Gen.rotate v q) = V3.smul (Q4.normSq q) (Gen.rotate (V3.cross u v) q) := by
  simp only [Gen.rotate, V3.cross, V3.smul, Q4.normSq]; congr 1 <;> ring

/-- adjointness: `R(q̄) = R(q)ᵀ` for every (also non-unit) `q` -/
theorem rotate_adjoint (u v : V3 R) (q : Q4 R) :
    V3.dot (Gen.rotate u (Gen.quatInv q)) v = V3.dot u (Gen.rotate v q) := by
  simp only [Gen.rotate, Gen.quatInv, V3.dot]; ring

/-! ## transforms -/

theorem tfDoTf_assoc (a b c : Tf R) :
    Gen.tfDoTf (Gen.tfDoTf a b) c = Gen.tfDoTf a (Gen.tfDoTf b c) := by
  simp only [Gen.tfDoTf]; congr 1 <;> congr 1 <;> ring

theorem tfDoTf_id_left (t : Tf R) : Gen.tfDoTf ⟨⟨0, 0, 0⟩, ⟨1, 0, 0, 0⟩⟩ t = t := by
  obtain ⟨⟨_, _, _⟩, ⟨_, _, _, _⟩⟩ := t
  simp only [Gen.tfDoTf]; congr 1 <;> congr 1 <;> ring
theorem tfDoTf_id_right (t : Tf R) : Gen.tfDoTf t ⟨⟨0, 0, 0⟩, ⟨1, 0, 0, 0⟩⟩ = t := by
  obtain ⟨⟨_, _, _⟩, ⟨_, _, _, _⟩⟩ := t
  simp only [Gen.tfDoTf]; congr 1 <;> congr 1 <;> ring

/-- `to_local` inverts `do` (exactly for a unit rotation): `(t ∘ s).to_local t = (|t|⁴ s.pos, |t|² s.rot)` -/
theorem tfToLocal_doTf (t s : Tf R) :
    Gen.tfToLocal (Gen.tfDoTf t s) t
      = ⟨V3.smul (Q4.normSq t.rot * Q4.normSq t.rot) s.pos, Q4.smul (Q4.normSq t.rot) s.rot⟩ := by
  simp only [Gen.tfToLocal, Gen.tfDoTf, V3.smul, Q4.smul, Q4.normSq]; congr 1 <;> congr 1 <;> ring

/-- acting on a point: `(a ∘ b) p = a (b p)` -/
theorem tfDoTf_apply (a b : Tf R) (p : V3 R) :
    (Gen.tfDoTf (Gen.tfDoTf a b) ⟨p, ⟨1, 0, 0, 0⟩⟩).pos
      = (Gen.tfDoTf a ⟨(Gen.tfDoTf b ⟨p, ⟨1, 0, 0, 0⟩⟩).pos, ⟨1, 0, 0, 0⟩⟩).pos := by
  simp only [Gen.tfDoTf]; congr 1 <;> ring

/-! ## motions and forces: duality, power is frame independent -/

/-- moving a motion into a frame and a force out of it are dual -/
theorem motion_force_dual (t : Tf R) (m : Motion R) (f : Force R) :
    Gen.motionDotF (Gen.tfDoMotion t m) f = Gen.motionDotF m (Gen.tfDoForce t f) := by
  simp only [Gen.motionDotF, Gen.tfDoMotion, Gen.tfDoForce]; ring

/-- `inv_do ∘ do = |q|⁴ · id` on motions -/
theorem tfInvDoMotion_doMotion (t : Tf R) (m : Motion R) :
    Gen.tfInvDoMotion t (Gen.tfDoMotion t m)
      = ⟨V3.smul (Q4.normSq t.rot * Q4.normSq t.rot) m.ang,
         V3.smul (Q4.normSq t.rot * Q4.normSq t.rot) m.vel⟩ := by
  rw [bridge_tfInvDoMotion, bridge_tfDoMotion]
  simp only [Tf.invDoMotion, Tf.doMotion, Brax.rotate, Brax.quatInv, V3.dot, V3.cross, Q4.vec,
    V3.smul, Q4.normSq, V3.add_def, V3.sub_def]
  congr 1 <;> congr 1 <;> ring

theorem tfDoMotion_invDoMotion (t : Tf R) (m : Motion R) :
    Gen.tfDoMotion t (Gen.tfInvDoMotion t m)
      = ⟨V3.smul (Q4.normSq t.rot * Q4.normSq t.rot) m.ang,
         V3.smul (Q4.normSq t.rot * Q4.normSq t.rot) m.vel⟩ := by
  rw [bridge_tfInvDoMotion, bridge_tfDoMotion]
  simp only [Tf.invDoMotion, Tf.doMotion, Brax.rotate, Brax.quatInv, V3.dot, V3.cross, Q4.vec,
    V3.smul, Q4.normSq, V3.add_def, V3.sub_def]
  congr 1 <;> congr 1 <;> ring

/-- spatial cross product of motions is antisymmetric -/
theorem motionCrossM_antisymm (a b : Motion R) :
    Gen.motionCrossM a b = ⟨-(Gen.motionCrossM b a).ang, -(Gen.motionCrossM b a).vel⟩ := by
  simp only [Gen.motionCrossM, V3.neg_def]; congr 1 <;> congr 1 <;> ring

theorem motionCrossM_self (a : Motion R) : Gen.motionCrossM a a = ⟨⟨0, 0, 0⟩, ⟨0, 0, 0⟩⟩ := by
  simp only [Gen.motionCrossM]; congr 1 <;> congr 1 <;> ring

/-- the two spatial cross products are dual: `(m ×ₘ a)·f = −a·(m ×_f f)` -/
theorem motionCross_dual (m a : Motion R) (f : Force R) :
    Gen.motionDotF (Gen.motionCrossM m a) f = -Gen.motionDotF a (Gen.motionCrossF m f) := by
  simp only [Gen.motionDotF, Gen.motionCrossM, Gen.motionCrossF]; ring

/-- Jacobi identity of the motion cross product -/
theorem motionCrossM_jacobi (a b c : Motion R) :
    Gen.motionCrossM a (Gen.motionCrossM b c)
      = Motion.add (Gen.motionCrossM (Gen.motionCrossM a b) c) (Gen.motionCrossM b (Gen.motionCrossM a c)) := by
  simp only [Gen.motionCrossM, Motion.add, V3.add_def]; congr 1 <;> congr 1 <;> ring

/-! ## inertia -/

def M3.IsSymm (m : M3 R) : Prop := m.r0.y = m.r1.x ∧ m.r0.z = m.r2.x ∧ m.r1.z = m.r2.y

/-- `Inertia.mul` is a symmetric bilinear form when the 3x3 part is symmetric -/
theorem inertiaMul_symm (it : Inertia R) (h : M3.IsSymm it.i) (a b : Motion R) :
    Gen.motionDotF a (Gen.inertiaMul it b) = Gen.motionDotF b (Gen.inertiaMul it a) := by
  obtain ⟨h1, h2, h3⟩ := h
  simp only [Gen.motionDotF, Gen.inertiaMul]
  linear_combination (a.ang.x * b.ang.y - a.ang.y * b.ang.x) * h1
    + (a.ang.x * b.ang.z - a.ang.z * b.ang.x) * h2 + (a.ang.y * b.ang.z - a.ang.z * b.ang.y) * h3

theorem inertiaMul_add (it : Inertia R) (a b : Motion R) :
    Gen.inertiaMul it (Motion.add a b) = Force.add (Gen.inertiaMul it a) (Gen.inertiaMul it b) := by
  simp only [Gen.inertiaMul, Motion.add, Force.add, V3.add_def]; congr 1 <;> congr 1 <;> ring

end CommRing

section Field
variable {K : Type} [Field K]

theorem bridge_quatTo3x3 (q : Q4 K) : Gen.quatTo3x3 q = Brax.quatTo3x3 q := by
  bridge [Gen.quatTo3x3, Brax.quatTo3x3]

theorem bridge_tfDoInertia (t : Tf K) (it : Inertia K) : Gen.tfDoInertia t it = Tf.doInertia t it := by
  simp only [Gen.tfDoInertia, Tf.doInertia, Brax.quatTo3x3, M3.mul, M3.add, M3.smul, M3.transpose,
    M3.col0, M3.col1, M3.col2, V3.dot, V3.cross, V3.smul, V3.add_def]
  congr 1
  · congr 1; congr 1 <;> ring
  · congr 1 <;> congr 1 <;> ring

/-- the 3x3 matrix form agrees with `rotate`: `mat(q) v = rotate v q / |q|²` -/
theorem quatTo3x3_mulVec (q : Q4 K) (h : Q4.normSq q ≠ 0) (v : V3 K) :
    M3.mulVec (Gen.quatTo3x3 q) v = V3.smul (1 / Q4.normSq q) (Gen.rotate v q) := by
  simp only [Gen.quatTo3x3, Gen.rotate, M3.mulVec, V3.dot, V3.smul, Q4.normSq] at h ⊢
  set d := q.w * q.w + q.x * q.x + q.y * q.y + q.z * q.z with hd
  clear_value d
  congr 1 <;> field_simp <;> rw [hd] <;> ring

/-- `mat(p q) = mat p · mat q` -/
theorem quatTo3x3_quatMul (p q : Q4 K) (hp : Q4.normSq p ≠ 0) (hq : Q4.normSq q ≠ 0) :
    Gen.quatTo3x3 (Gen.quatMul p q) = M3.mul (Gen.quatTo3x3 p) (Gen.quatTo3x3 q) := by
  have hmul := normSq_quatMul p q
  simp only [Gen.quatMul, Q4.normSq] at hmul hp hq
  simp only [Gen.quatTo3x3, Gen.quatMul, M3.mul, M3.col0, M3.col1, M3.col2, V3.dot]
  rw [hmul]
  set dp := p.w * p.w + p.x * p.x + p.y * p.y + p.z * p.z with hdp
  set dq := q.w * q.w + q.x * q.x + q.y * q.y + q.z * q.z with hdq
  clear_value dp dq
  congr 1 <;> congr 1 <;> field_simp <;> rw [hdp, hdq] <;> ring

/-- the rotation matrix of a quaternion is orthogonal: `mat(q) mat(q)ᵀ = 1` -/
theorem quatTo3x3_orthogonal (q : Q4 K) (h : Q4.normSq q ≠ 0) :
    M3.mul (Gen.quatTo3x3 q) (M3.transpose (Gen.quatTo3x3 q)) = M3.one := by
  simp only [Gen.quatTo3x3, M3.mul, M3.transpose, M3.col0, M3.col1, M3.col2, V3.dot, M3.one,
    Q4.normSq] at h ⊢
  set d := q.w * q.w + q.x * q.x + q.y * q.y + q.z * q.z with hd
  clear_value d
  congr 1 <;> congr 1 <;> field_simp <;> rw [hd] <;> ring

/-- twice the kinetic energy, `m·(I m)` -/
def ke2 (it : Inertia K) (m : Motion K) : K := Gen.motionDotF m (Gen.inertiaMul it m)

/-- for a unit quaternion the matrix form *is* `rotate` -/
theorem quatTo3x3_mulVec_unit (q : Q4 K) (h : Q4.normSq q = 1) (v : V3 K) :
    M3.mulVec (Gen.quatTo3x3 q) v = Gen.rotate v q := by
  rw [quatTo3x3_mulVec q (by rw [h]; exact one_ne_zero), h]
  simp only [V3.smul]; cases h' : Gen.rotate v q; congr 1 <;> ring

theorem quatTo3x3_transpose_mulVec_unit (q : Q4 K) (h : Q4.normSq q = 1) (v : V3 K) :
    M3.mulVec (M3.transpose (Gen.quatTo3x3 q)) v = Gen.rotate v (Gen.quatInv q) := by
  have hi : Q4.normSq (Gen.quatInv q) = 1 := by
    rw [← h]; simp only [Gen.quatInv, Q4.normSq]; ring
  rw [← quatTo3x3_mulVec_unit _ hi]
  congr 1
  simp only [Gen.quatTo3x3, Gen.quatInv, M3.transpose]
  congr 1 <;> congr 1 <;> ring

/-- moving an inertia with `Transform.do` preserves kinetic energy: the energy of the moved
inertia under a motion `m` (expressed in the outer frame) equals the energy of the original
inertia — taken about its own centre, `transform.pos = 0`, as brax stores link inertias —
under the same motion expressed in the inner frame (`t.do m`), for a unit rotation. -/
theorem tfDoInertia_ke (t : Tf K) (it : Inertia K) (m : Motion K)
    (hu : Q4.normSq t.rot = 1) (hc : it.tf.pos = ⟨0, 0, 0⟩) :
    ke2 (Gen.tfDoInertia t it) m = ke2 it (Gen.tfDoMotion t m) := by
  have horth := quatTo3x3_orthogonal t.rot (by rw [hu]; exact one_ne_zero)
  have hang := quatTo3x3_transpose_mulVec_unit t.rot hu m.ang
  have hvel := quatTo3x3_transpose_mulVec_unit t.rot hu (m.vel - V3.cross t.pos m.ang)
  obtain ⟨⟨cp, cr⟩, ii, mass⟩ := it
  simp only at hc
  subst hc
  rw [bridge_tfDoInertia, bridge_tfDoMotion, bridge_rotate] at *
  simp only [ke2, bridge_motionDotF, bridge_inertiaMul, Tf.doInertia, Tf.doMotion]
  rw [bridge_quatInv] at hang hvel
  rw [← hang, ← hvel]
  rw [← bridge_quatTo3x3] 
  generalize Gen.quatTo3x3 t.rot = Rm at horth ⊢
  obtain ⟨⟨r00, r01, r02⟩, ⟨r10, r11, r12⟩, ⟨r20, r21, r22⟩⟩ := Rm
  simp only [M3.mul, M3.transpose, M3.col0, M3.col1, M3.col2, V3.dot, M3.one, M3.mk.injEq,
    V3.mk.injEq] at horth
  obtain ⟨⟨h00, h01, h02⟩, ⟨h10, h11, h12⟩, ⟨h20, h21, h22⟩⟩ := horth
  simp only [Motion.dotF, Inertia.mul, M3.mulVec, M3.mul, M3.add, M3.smul, M3.transpose, M3.col0,
    M3.col1, M3.col2, V3.dot, V3.cross, V3.smul, V3.add_def, V3.sub_def]
  linear_combination (-(mass * (m.vel.x - (t.pos.y * m.ang.z - t.pos.z * m.ang.y)) * (m.vel.x - (t.pos.y * m.ang.z - t.pos.z * m.ang.y)))) * h00
    + (-(mass * (m.vel.x - (t.pos.y * m.ang.z - t.pos.z * m.ang.y)) * (m.vel.y - (t.pos.z * m.ang.x - t.pos.x * m.ang.z)))) * h01
    + (-(mass * (m.vel.x - (t.pos.y * m.ang.z - t.pos.z * m.ang.y)) * (m.vel.z - (t.pos.x * m.ang.y - t.pos.y * m.ang.x)))) * h02
    + (-(mass * (m.vel.y - (t.pos.z * m.ang.x - t.pos.x * m.ang.z)) * (m.vel.x - (t.pos.y * m.ang.z - t.pos.z * m.ang.y)))) * h10
    + (-(mass * (m.vel.y - (t.pos.z * m.ang.x - t.pos.x * m.ang.z)) * (m.vel.y - (t.pos.z * m.ang.x - t.pos.x * m.ang.z)))) * h11
    + (-(mass * (m.vel.y - (t.pos.z * m.ang.x - t.pos.x * m.ang.z)) * (m.vel.z - (t.pos.x * m.ang.y - t.pos.y * m.ang.x)))) * h12
    + (-(mass * (m.vel.z - (t.pos.x * m.ang.y - t.pos.y * m.ang.x)) * (m.vel.x - (t.pos.y * m.ang.z - t.pos.z * m.ang.y)))) * h20
    + (-(mass * (m.vel.z - (t.pos.x * m.ang.y - t.pos.y * m.ang.x)) * (m.vel.y - (t.pos.z * m.ang.x - t.pos.x * m.ang.z)))) * h21
    + (-(mass * (m.vel.z - (t.pos.x * m.ang.y - t.pos.y * m.ang.x)) * (m.vel.z - (t.pos.x * m.ang.y - t.pos.y * m.ang.x)))) * h22

end Field

section Trig
variable {K : Type} [Field K] [HasTrig K]

/-- `euler_to_quat` is the product of the three elementary rotations about x, y', z''
(for *any* interpretation of `sin`/`cos`: a ring identity in the six half-angle values) -/
theorem eulerToQuat_eq_mul (v : V3 K) :
    let h (a : K) : K := a * (3141592653589793e-15 : K) / (360e0 : K)
    Gen.eulerToQuat v
      = Gen.quatMul (Gen.quatMul ⟨HasTrig.cos (h v.x), HasTrig.sin (h v.x), 0, 0⟩
                                 ⟨HasTrig.cos (h v.y), 0, HasTrig.sin (h v.y), 0⟩)
                    ⟨HasTrig.cos (h v.z), 0, 0, HasTrig.sin (h v.z)⟩ := by
  simp only [Gen.eulerToQuat, Gen.quatMul]; congr 1 <;> ring

omit [HasTrig K] in
/-- half-angle form of an axis rotation: Rodrigues' formula as a ring identity.
For a unit axis `a`, `c² + s² = 1`: `rotate v (c, s·a) = (c²−s²) v + 2cs (a×v) + 2s² (a·v) a` -/
theorem rotate_axis_halfangle (a v : V3 K) (c s : K) (ha : V3.dot a a = 1) :
    Gen.rotate v ⟨c, a.x * s, a.y * s, a.z * s⟩
      = V3.smul (c * c - s * s) v + V3.smul (2 * c * s) (V3.cross a v)
        + V3.smul (2 * s * s * V3.dot a v) a := by
  simp only [V3.dot] at ha
  simp only [Gen.rotate, V3.smul, V3.cross, V3.dot, V3.add_def]
  congr 1
  · linear_combination (-(s * s * v.x)) * ha
  · linear_combination (-(s * s * v.y)) * ha
  · linear_combination (-(s * s * v.z)) * ha

end Trig

section Real

/-- `quat_rot_axis` of a unit axis is a unit quaternion -/
theorem quatRotAxis_normSq (a : V3 ℝ) (θ : ℝ) (ha : V3.dot a a = 1) :
    Q4.normSq (Gen.quatRotAxis a θ) = 1 := by
  simp only [V3.dot] at ha
  simp only [Gen.quatRotAxis, Q4.normSq, HasTrig.sin, HasTrig.cos]
  have := Real.sin_sq_add_cos_sq (θ / (1 + 1))
  linear_combination (Real.sin (θ / (1 + 1)) ^ 2) * ha + this

/-- `quat_rot_axis a θ` rotates by the angle θ about `a` (Rodrigues' rotation formula) -/
theorem rotate_quatRotAxis (a v : V3 ℝ) (θ : ℝ) (ha : V3.dot a a = 1) :
    Gen.rotate v (Gen.quatRotAxis a θ)
      = V3.smul (Real.cos θ) v + V3.smul (Real.sin θ) (V3.cross a v)
        + V3.smul ((1 - Real.cos θ) * V3.dot a v) a := by
  have h1 : (1 + 1 : ℝ) = 2 := by norm_num
  have hc : Real.cos θ = Real.cos (θ / 2) ^ 2 - Real.sin (θ / 2) ^ 2 := by
    have := Real.cos_sq' (θ / 2)
    have h2 := Real.cos_two_mul (θ / 2)
    rw [show 2 * (θ / 2) = θ by ring] at h2
    rw [h2, this]; ring
  have hs : Real.sin θ = 2 * Real.sin (θ / 2) * Real.cos (θ / 2) := by
    have h2 := Real.sin_two_mul (θ / 2)
    rw [show 2 * (θ / 2) = θ by ring] at h2
    exact h2
  have hcs := Real.sin_sq_add_cos_sq (θ / 2)
  have := rotate_axis_halfangle a v (Real.cos (θ / 2)) (Real.sin (θ / 2)) ha
  simp only [Gen.quatRotAxis, HasTrig.sin, HasTrig.cos, h1]
  rw [this, hc, hs]
  simp only [V3.smul, V3.add_def]
  congr 1
  · linear_combination (V3.dot a v * a.x) * hcs
  · linear_combination (V3.dot a v * a.y) * hcs
  · linear_combination (V3.dot a v * a.z) * hcs

/-- the axis itself is fixed -/
theorem rotate_quatRotAxis_axis (a : V3 ℝ) (θ : ℝ) (ha : V3.dot a a = 1) :
    Gen.rotate a (Gen.quatRotAxis a θ) = a := by
  rw [rotate_quatRotAxis a a θ ha, ha]
  simp only [V3.smul, V3.cross, V3.add_def]
  cases a; congr 1 <;> ring

end Real

section Normalize

/-- one component of `jp.allclose(x, 0)` as the jaxpr spells it -/
theorem isclose_comp_iff (x : ℝ) :
    (eqR x 0 || decide (absv (x - 0) ≤ (1e-8 : ℝ) + (1e-5 : ℝ) * absv 0)) = decide (absv x ≤ (1e-8 : ℝ)) := by
  have h0 : absv (0 : ℝ) = 0 := by simp
  rw [h0, mul_zero, add_zero, sub_zero]
  by_cases h : absv x ≤ (1e-8 : ℝ)
  · rw [decide_eq_true h, Bool.or_true]
  · simp only [h, decide_false, Bool.or_false]
    rw [Bool.eq_false_iff]
    intro hc
    rw [eqR_iff] at hc
    apply h; rw [hc]; simp; norm_num

/-- **bridge**: the generated `normalize` (quaternion shape) is the hand model used by the
physics properties -/
theorem bridge_normalize4 (q : Q4 ℝ) : Gen.normalize4 q = Brax.normalize4 q := by
  simp only [Gen.normalize4, isclose_comp_iff]
  have hcond : ((decide (absv q.w ≤ (1e-8 : ℝ)) && decide (absv q.x ≤ (1e-8 : ℝ))
      && decide (absv q.y ≤ (1e-8 : ℝ))) && decide (absv q.z ≤ (1e-8 : ℝ)))
      = allClose0 [q.w, q.x, q.y, q.z] := by
    simp [allClose0, List.all_cons, Bool.and_assoc]
  rw [hcond]
  by_cases hz : allClose0 [q.w, q.x, q.y, q.z] = true
  · have hn : safeNorm4 q = 0 := by simp [safeNorm4, safeNormL, hz]
    have e0 : eqZero (0 : ℝ) = true := (eqZero_iff _).mpr rfl
    have er : eqR ((0 : ℝ)) 0 = true := (eqR_iff _ _).mpr rfl
    simp only [Brax.normalize4, hn, e0, if_true, hz, mul_one, sub_self, mul_zero, er, zero_add]
  · have hz' : allClose0 [q.w, q.x, q.y, q.z] = false := by simpa using hz
    have hn : safeNorm4 q = Real.sqrt (q.w * q.w + q.x * q.x + q.y * q.y + q.z * q.z) := by
      simp only [safeNorm4, safeNormL, hz', Bool.false_eq_true, if_false, List.foldl, HasSqrt.sqrt, zero_add]
    simp only [Brax.normalize4, hn, hz', Bool.false_eq_true, if_false, mul_one, add_zero, sub_zero,
      HasSqrt.sqrt]
    by_cases hs : Real.sqrt (q.w * q.w + q.x * q.x + q.y * q.y + q.z * q.z) = 0
    · have e0 : eqZero (Real.sqrt (q.w * q.w + q.x * q.x + q.y * q.y + q.z * q.z)) = true := (eqZero_iff _).mpr hs
      have er : eqR (Real.sqrt (q.w * q.w + q.x * q.x + q.y * q.y + q.z * q.z)) 0 = true := (eqR_iff _ _).mpr hs
      simp only [e0, er, if_true, mul_one]
    · have e0 : eqZero (Real.sqrt (q.w * q.w + q.x * q.x + q.y * q.y + q.z * q.z)) = false := by
        rw [Bool.eq_false_iff]; intro hc; exact hs ((eqZero_iff _).mp hc)
      have er : eqR (Real.sqrt (q.w * q.w + q.x * q.x + q.y * q.y + q.z * q.z)) 0 = false := by
        rw [Bool.eq_false_iff]; intro hc; exact hs ((eqR_iff _ _).mp hc)
      simp only [e0, er, Bool.false_eq_true, if_false, mul_zero, add_zero]

/-- `normalize` returns a unit quaternion for every input outside the `allclose(x, 0)` ball -/
theorem normalize4_unit_of_not_small (q : Q4 ℝ) (h : allClose0 [q.w, q.x, q.y, q.z] = false) :
    Q4.normSq (Gen.normalize4 q) = 1 := by
  rw [bridge_normalize4]; exact normalize4_isUnit h

/-- … and leaves unit quaternions unchanged -/
theorem normalize4_of_unit (q : Q4 ℝ) (h : Q4.normSq q = 1) : Gen.normalize4 q = q := by
  rw [bridge_normalize4]; exact normalize4_unit h

/-- inside the ball `normalize` is **not** a normalisation: it divides by the guard `1e-6`
(stated, because it is what the code does) -/
theorem normalize4_of_small (q : Q4 ℝ) (h : allClose0 [q.w, q.x, q.y, q.z] = true) :
    Gen.normalize4 q = ⟨q.w / 1e-6, q.x / 1e-6, q.y / 1e-6, q.z / 1e-6⟩ := by
  rw [bridge_normalize4]
  have hn : safeNorm4 q = 0 := by simp [safeNorm4, safeNormL, h]
  have e0 : eqZero (0 : ℝ) = true := (eqZero_iff _).mpr rfl
  simp only [Brax.normalize4, hn, e0, if_true, zero_add]

/-- **bridge**: `quat_rot_axis` -/
theorem bridge_quatRotAxis (a : V3 ℝ) (θ : ℝ) : Gen.quatRotAxis a θ = Brax.quatRotAxis a θ := rfl

/-- **bridge**: the generated `safe_norm` (quaternion shape) is the hand model -/
theorem bridge_safeNorm4 (q : Q4 ℝ) : Gen.safeNorm4 q = Brax.safeNorm4 q := by
  simp only [Gen.safeNorm4, isclose_comp_iff]
  have hcond : ((decide (absv q.w ≤ (1e-8 : ℝ)) && decide (absv q.x ≤ (1e-8 : ℝ))
      && decide (absv q.y ≤ (1e-8 : ℝ))) && decide (absv q.z ≤ (1e-8 : ℝ)))
      = allClose0 [q.w, q.x, q.y, q.z] := by
    simp [allClose0, List.all_cons, Bool.and_assoc]
  rw [hcond]
  by_cases hz : allClose0 [q.w, q.x, q.y, q.z] = true
  · simp [Brax.safeNorm4, safeNormL, hz]
  · have hz' : allClose0 [q.w, q.x, q.y, q.z] = false := by simpa using hz
    simp only [Brax.safeNorm4, safeNormL, hz', Bool.false_eq_true, if_false, List.foldl, mul_one,
      add_zero, sub_zero, zero_add]

/-- **bridge**: 3-vector `safe_norm` -/
theorem bridge_safeNorm3 (v : V3 ℝ) : Gen.safeNorm3 v = Brax.safeNorm3 v := by
  simp only [Gen.safeNorm3, isclose_comp_iff]
  have hcond : ((decide (absv v.x ≤ (1e-8 : ℝ)) && decide (absv v.y ≤ (1e-8 : ℝ)))
      && decide (absv v.z ≤ (1e-8 : ℝ))) = allClose0 [v.x, v.y, v.z] := by
    simp [allClose0, List.all_cons, Bool.and_assoc]
  rw [hcond]
  by_cases hz : allClose0 [v.x, v.y, v.z] = true
  · simp [Brax.safeNorm3, safeNormL, hz]
  · have hz' : allClose0 [v.x, v.y, v.z] = false := by simpa using hz
    simp only [Brax.safeNorm3, safeNormL, hz', Bool.false_eq_true, if_false, List.foldl, mul_one,
      add_zero, sub_zero, zero_add]

/-- `safe_norm` is the Euclidean norm outside the `allclose` ball and 0 inside -/
theorem safeNorm3_eq (v : V3 ℝ) :
    Gen.safeNorm3 v = if allClose0 [v.x, v.y, v.z] then 0 else Real.sqrt (v.x * v.x + v.y * v.y + v.z * v.z) := by
  rw [bridge_safeNorm3]
  by_cases hz : allClose0 [v.x, v.y, v.z] = true
  · simp [Brax.safeNorm3, safeNormL, hz]
  · have hz' : allClose0 [v.x, v.y, v.z] = false := by simpa using hz
    simp only [Brax.safeNorm3, safeNormL, hz', Bool.false_eq_true, if_false, List.foldl, HasSqrt.sqrt, zero_add]

end Normalize

section FromTo

/-- the un-normalised `from_to` quaternion `(1 + v₁·v₂, v₁ × v₂)` rotates the unit vector `v₁`
to `2(1 + v₁·v₂)·v₂` (a ring identity modulo `|v₁| = |v₂| = 1`) -/
theorem rotate_fromTo_raw {K : Type} [Field K] (v1 v2 : V3 K) (h1 : V3.dot v1 v1 = 1) (h2 : V3.dot v2 v2 = 1) :
    Gen.rotate v1 ⟨1 + V3.dot v1 v2, (V3.cross v1 v2).x, (V3.cross v1 v2).y, (V3.cross v1 v2).z⟩
      = V3.smul (2 * (1 + V3.dot v1 v2)) v2 := by
  simp only [V3.dot] at h1 h2
  simp only [Gen.rotate, V3.dot, V3.cross, V3.smul]
  congr 1
  · linear_combination (-(v1.x * (v2.x * v2.x + v2.y * v2.y + v2.z * v2.z)) + 2 * (1 + (v1.x * v2.x + v1.y * v2.y + v1.z * v2.z)) * v2.x) * h1 + (-v1.x) * h2
  · linear_combination (-(v1.y * (v2.x * v2.x + v2.y * v2.y + v2.z * v2.z)) + 2 * (1 + (v1.x * v2.x + v1.y * v2.y + v1.z * v2.z)) * v2.y) * h1 + (-v1.y) * h2
  · linear_combination (-(v1.z * (v2.x * v2.x + v2.y * v2.y + v2.z * v2.z)) + 2 * (1 + (v1.x * v2.x + v1.y * v2.y + v1.z * v2.z)) * v2.z) * h1 + (-v1.z) * h2

/-- rotating by a scaled quaternion scales the result by the square -/
theorem rotate_scale {K : Type} [Field K] (v : V3 K) (q : Q4 K) (c : K) :
    Gen.rotate v ⟨q.w * c, q.x * c, q.y * c, q.z * c⟩ = V3.smul (c * c) (Gen.rotate v q) := by
  simp only [Gen.rotate, V3.smul]; congr 1 <;> ring

/-- **`from_to` produces the rotation it describes** (partial: the non-antiparallel branch
`1 + v₁·v₂ ≥ 1e-6`; in the antiparallel branch the code uses a fixed pseudo-random axis and the
result is only approximately a half-turn): for unit vectors, the quaternion is unit and rotates
`v₁` exactly onto `v₂`. -/
theorem fromTo_rotates_partial (v1 v2 : V3 ℝ) (h1 : V3.dot v1 v1 = 1) (h2 : V3.dot v2 v2 = 1)
    (hnp : ¬ (1 + V3.dot v1 v2 < (1e-6 : ℝ))) :
    Gen.rotate v1 (Gen.fromTo v1 v2) = v2 ∧ Q4.normSq (Gen.fromTo v1 v2) = 1 := by
  have hd : V3.dot v1 v2 = v1.x * v2.x + v1.y * v2.y + v1.z * v2.z := rfl
  have hc : ¬ (1 + (v1.x * v2.x + v1.y * v2.y + v1.z * v2.z) < (1e-6 : ℝ)) := by rwa [hd] at hnp
  set c := v1.x * v2.x + v1.y * v2.y + v1.z * v2.z with hcdef
  have hpos : 0 < 1 + c := by
    have : (1e-6 : ℝ) ≤ 1 + c := not_lt.mp hc
    linarith [show (0 : ℝ) < 1e-6 by norm_num]
  -- |(1+c, v1 × v2)|² = 2 (1 + c)
  have hnorm : (1 + c) * (1 + c) + (v1.y * v2.z - v1.z * v2.y) * (v1.y * v2.z - v1.z * v2.y)
      + (v1.z * v2.x - v1.x * v2.z) * (v1.z * v2.x - v1.x * v2.z)
      + (v1.x * v2.y - v1.y * v2.x) * (v1.x * v2.y - v1.y * v2.x) = 2 * (1 + c) := by
    simp only [V3.dot] at h1 h2
    rw [hcdef]
    linear_combination (v2.x * v2.x + v2.y * v2.y + v2.z * v2.z) * h1 + h2
  have hs : 0 < Real.sqrt (2 * (1 + c)) := Real.sqrt_pos.mpr (by linarith)
  have hss : Real.sqrt (2 * (1 + c)) * Real.sqrt (2 * (1 + c)) = 2 * (1 + c) :=
    Real.mul_self_sqrt (by linarith)
  have hq : Gen.fromTo v1 v2
      = ⟨(1 + c) * (1 / Real.sqrt (2 * (1 + c))), (V3.cross v1 v2).x * (1 / Real.sqrt (2 * (1 + c))),
         (V3.cross v1 v2).y * (1 / Real.sqrt (2 * (1 + c))), (V3.cross v1 v2).z * (1 / Real.sqrt (2 * (1 + c)))⟩ := by
    simp only [Gen.fromTo, ← hcdef, hc, decide_false, Bool.false_eq_true, if_false, HasSqrt.sqrt, hnorm,
      V3.cross]
    congr 1 <;> ring
  constructor
  · rw [hq]
    have hraw := rotate_fromTo_raw v1 v2 h1 h2
    rw [hd] at hraw
    rw [rotate_scale v1 ⟨1 + c, (V3.cross v1 v2).x, (V3.cross v1 v2).y, (V3.cross v1 v2).z⟩, hraw]
    simp only [V3.smul]
    have : 1 / Real.sqrt (2 * (1 + c)) * (1 / Real.sqrt (2 * (1 + c))) * (2 * (1 + c)) = 1 := by
      field_simp; linarith [hss]
    cases v2 with | mk a b d =>
    congr 1
    · rw [← mul_assoc, this, one_mul]
    · rw [← mul_assoc, this, one_mul]
    · rw [← mul_assoc, this, one_mul]
  · rw [hq]
    have hk : 1 / Real.sqrt (2 * (1 + c)) * (1 / Real.sqrt (2 * (1 + c))) * (2 * (1 + c)) = 1 := by
      field_simp; linarith [hss]
    simp only [Q4.normSq, V3.cross]
    have hfac : ∀ (a b d e k : ℝ), a * k * (a * k) + b * k * (b * k) + d * k * (d * k) + e * k * (e * k)
        = k * k * (a * a + b * b + d * d + e * e) := by intros; ring
    rw [hfac, hnorm]
    exact hk

/-- the fixed axis `jax.random.uniform(jax.random.PRNGKey(0), (3,))`, as folded into the traced `from_to` -/
def fromToRnd : V3 ℝ :=
  ⟨(41845711171638644287895658635534346103668212890625e-50 : ℝ),
   (2162954546055113613789444571011699736118316650390625e-52 : ℝ),
   (96532146111899752582985456683672964572906494140625e-50 : ℝ)⟩

/-- `v1_o = rnd − (rnd·v₁) v₁`: the part of `rnd` orthogonal to `v₁` -/
def antiAxis (r v1 : V3 ℝ) : V3 ℝ :=
  ⟨r.x - (r.x * v1.x + r.y * v1.y + r.z * v1.z) * v1.x, r.y - (r.x * v1.x + r.y * v1.y + r.z * v1.z) * v1.y,
   r.z - (r.x * v1.x + r.y * v1.y + r.z * v1.z) * v1.z⟩

/-- a half turn about an axis orthogonal to the unit vector `v` flips it -/
theorem rotate_pure_orth {K : Type} [Field K] (v o : V3 K) (ho : o.x * v.x + o.y * v.y + o.z * v.z = 0) :
    Gen.rotate v ⟨0, o.x, o.y, o.z⟩ = V3.smul (-(o.x * o.x + o.y * o.y + o.z * o.z)) v := by
  simp only [Gen.rotate, V3.smul]
  congr 1
  · linear_combination (2 * o.x) * ho
  · linear_combination (2 * o.y) * ho
  · linear_combination (2 * o.z) * ho

/-- **`from_to` on exactly antiparallel unit vectors** (the `w < 1e-6` branch): whenever the fixed
pseudo-random axis is not parallel to `v₁`, the result is a unit quaternion that rotates `v₁` onto `−v₁`. -/
theorem fromTo_antiparallel (v1 : V3 ℝ) (h1 : V3.dot v1 v1 = 1)
    (hax : V3.dot (antiAxis fromToRnd v1) (antiAxis fromToRnd v1) ≠ 0) :
    Gen.rotate v1 (Gen.fromTo v1 ⟨-v1.x, -v1.y, -v1.z⟩) = ⟨-v1.x, -v1.y, -v1.z⟩
      ∧ Q4.normSq (Gen.fromTo v1 ⟨-v1.x, -v1.y, -v1.z⟩) = 1 := by
  simp only [V3.dot] at h1
  set o := antiAxis fromToRnd v1 with hodef
  have hoo : V3.dot o o = o.x * o.x + o.y * o.y + o.z * o.z := rfl
  rw [hoo] at hax
  have hpos : 0 < o.x * o.x + o.y * o.y + o.z * o.z :=
    lt_of_le_of_ne (add_nonneg (add_nonneg (mul_self_nonneg _) (mul_self_nonneg _)) (mul_self_nonneg _)) (Ne.symm hax)
  have hs : 0 < Real.sqrt (o.x * o.x + o.y * o.y + o.z * o.z) := Real.sqrt_pos.mpr hpos
  have hss : Real.sqrt (o.x * o.x + o.y * o.y + o.z * o.z) * Real.sqrt (o.x * o.x + o.y * o.y + o.z * o.z)
      = o.x * o.x + o.y * o.y + o.z * o.z := Real.mul_self_sqrt (le_of_lt hpos)
  have horth : o.x * v1.x + o.y * v1.y + o.z * v1.z = 0 := by
    simp only [hodef, antiAxis]
    linear_combination (-(fromToRnd.x * v1.x + fromToRnd.y * v1.y + fromToRnd.z * v1.z)) * h1
  have ht1 : 1 + (v1.x * -v1.x + v1.y * -v1.y + v1.z * -v1.z) = 0 := by linear_combination (-1 : ℝ) * h1
  have hlt : (0 : ℝ) < 1e-6 := by norm_num
  have hq : Gen.fromTo v1 ⟨-v1.x, -v1.y, -v1.z⟩
      = ⟨0 * (1 / Real.sqrt (o.x * o.x + o.y * o.y + o.z * o.z)), o.x * (1 / Real.sqrt (o.x * o.x + o.y * o.y + o.z * o.z)),
         o.y * (1 / Real.sqrt (o.x * o.x + o.y * o.y + o.z * o.z)), o.z * (1 / Real.sqrt (o.x * o.x + o.y * o.y + o.z * o.z))⟩ := by
    simp only [Gen.fromTo, ht1, hlt, decide_true, if_true, HasSqrt.sqrt, hodef, antiAxis, fromToRnd]
    congr 1 <;> ring_nf
  have hk : 1 / Real.sqrt (o.x * o.x + o.y * o.y + o.z * o.z) * (1 / Real.sqrt (o.x * o.x + o.y * o.y + o.z * o.z))
      * (o.x * o.x + o.y * o.y + o.z * o.z) = 1 := by
    have hne : Real.sqrt (o.x * o.x + o.y * o.y + o.z * o.z) ≠ 0 := ne_of_gt hs
    nth_rewrite 3 [← hss]
    field_simp
    exact div_self (by rw [show o.x ^ 2 + o.y ^ 2 + o.z ^ 2 = o.x * o.x + o.y * o.y + o.z * o.z by ring]; exact hne)
  constructor
  · rw [hq, rotate_scale v1 ⟨0, o.x, o.y, o.z⟩, rotate_pure_orth v1 o horth]
    simp only [V3.smul]
    congr 1
    · linear_combination (-v1.x) * hk
    · linear_combination (-v1.y) * hk
    · linear_combination (-v1.z) * hk
  · rw [hq]
    simp only [Q4.normSq]
    linear_combination hk

/-- the fixed axis is not parallel to any lattice direction of `[-3,3]³` (first two coordinates suffice) -/
theorem rnd_not_lattice_xy (a b : ℤ) (ha : |a| ≤ 3) (hb : |b| ≤ 3)
    (h : fromToRnd.x * (b : ℝ) = fromToRnd.y * (a : ℝ)) : a = 0 ∧ b = 0 := by
  rw [abs_le] at ha hb
  obtain ⟨ha1, ha2⟩ := ha
  obtain ⟨hb1, hb2⟩ := hb
  simp only [fromToRnd] at h
  interval_cases a <;> interval_cases b <;> first | exact ⟨rfl, rfl⟩ | (exfalso; norm_num at h)

/-- **`from_to` on every antiparallel pair of normalised lattice directions of `[-3,3]³`** (the property's
own quantifier for this construction): the result is a unit quaternion rotating `v₁` onto `−v₁`. -/
theorem fromTo_antiparallel_lattice (a b c : ℤ) (ha : |a| ≤ 3) (hb : |b| ≤ 3) (hc : |c| ≤ 3)
    (hne : ¬ (a = 0 ∧ b = 0 ∧ c = 0)) :
    let s := Real.sqrt ((a : ℝ) * a + b * b + c * c)
    let v1 : V3 ℝ := ⟨a / s, b / s, c / s⟩
    Gen.rotate v1 (Gen.fromTo v1 ⟨-v1.x, -v1.y, -v1.z⟩) = ⟨-v1.x, -v1.y, -v1.z⟩
      ∧ Q4.normSq (Gen.fromTo v1 ⟨-v1.x, -v1.y, -v1.z⟩) = 1 := by
  intro s v1
  have hN : 0 < (a : ℝ) * a + b * b + c * c := by
    have h0 : (0 : ℝ) ≤ (a : ℝ) * a + b * b + c * c :=
      add_nonneg (add_nonneg (mul_self_nonneg _) (mul_self_nonneg _)) (mul_self_nonneg _)
    rcases eq_or_lt_of_le h0 with h | h
    · exfalso
      apply hne
      have ha0 : (a : ℝ) * a = 0 := by nlinarith [mul_self_nonneg (a : ℝ), mul_self_nonneg (b : ℝ), mul_self_nonneg (c : ℝ)]
      have hb0 : (b : ℝ) * b = 0 := by nlinarith [mul_self_nonneg (a : ℝ), mul_self_nonneg (b : ℝ), mul_self_nonneg (c : ℝ)]
      have hc0 : (c : ℝ) * c = 0 := by nlinarith [mul_self_nonneg (a : ℝ), mul_self_nonneg (b : ℝ), mul_self_nonneg (c : ℝ)]
      exact ⟨by exact_mod_cast mul_self_eq_zero.mp ha0, by exact_mod_cast mul_self_eq_zero.mp hb0,
        by exact_mod_cast mul_self_eq_zero.mp hc0⟩
    · exact h
  have hs : 0 < s := Real.sqrt_pos.mpr hN
  have hss : s * s = (a : ℝ) * a + b * b + c * c := Real.mul_self_sqrt (le_of_lt hN)
  have hsne : s ≠ 0 := ne_of_gt hs
  have h1 : V3.dot v1 v1 = 1 := by
    simp only [V3.dot, v1]
    field_simp
    nlinarith [hss]
  apply fromTo_antiparallel v1 h1
  intro hzero
  simp only [V3.dot] at hzero
  set o := antiAxis fromToRnd v1 with hodef
  have hx : o.x = 0 := mul_self_eq_zero.mp (by nlinarith [mul_self_nonneg o.x, mul_self_nonneg o.y, mul_self_nonneg o.z])
  have hy : o.y = 0 := mul_self_eq_zero.mp (by nlinarith [mul_self_nonneg o.x, mul_self_nonneg o.y, mul_self_nonneg o.z])
  have hz : o.z = 0 := mul_self_eq_zero.mp (by nlinarith [mul_self_nonneg o.x, mul_self_nonneg o.y, mul_self_nonneg o.z])
  simp only [hodef, antiAxis, v1] at hx hy hz
  -- rnd = t·v1, hence rnd × (a,b,c) = 0
  set t := fromToRnd.x * ((a : ℝ) / s) + fromToRnd.y * ((b : ℝ) / s) + fromToRnd.z * ((c : ℝ) / s) with htdef
  have hxy : fromToRnd.x * (b : ℝ) = fromToRnd.y * (a : ℝ) := by
    have e1 : fromToRnd.x = t * ((a : ℝ) / s) := by linarith
    have e2 : fromToRnd.y = t * ((b : ℝ) / s) := by linarith
    rw [e1, e2]; ring
  have hxz : fromToRnd.x * (c : ℝ) = fromToRnd.z * (a : ℝ) := by
    have e1 : fromToRnd.x = t * ((a : ℝ) / s) := by linarith
    have e3 : fromToRnd.z = t * ((c : ℝ) / s) := by linarith
    rw [e1, e3]; ring
  obtain ⟨ha0, hb0⟩ := rnd_not_lattice_xy a b ha hb hxy
  apply hne
  refine ⟨ha0, hb0, ?_⟩
  rw [ha0] at hxz
  have hrx : fromToRnd.x ≠ 0 := by simp only [fromToRnd]; norm_num
  have : (c : ℝ) = 0 := by
    have : fromToRnd.x * (c : ℝ) = 0 := by rw [hxz]; simp
    rcases mul_eq_zero.mp this with h | h
    · exact absurd h hrx
    · exact h
  exact_mod_cast this

end FromTo


/-! # Law theorems for `euler_to_quat`/`quat_to_euler`, `normalize` (3-vector), `orthogonals`, `inv_3x3`, `signed_angle`
(helper lemmas that do not mention `Gen.*` are in `Brax/Lemmas/C09Laws.lean`) -/

section Euler

/-- the angle in radians (with the double `3.141592653589793` for π, as the code has it) of a component in degrees -/
noncomputable def eulerRad (a : ℝ) : ℝ := a * (3141592653589793e-15 : ℝ) / (180 : ℝ)

theorem eulerToQuat_normSq_ring {K : Type} [Field K] [HasTrig K] (v : V3 K) :
    let h (a : K) : K := a * (3141592653589793e-15 : K) / (360e0 : K)
    Q4.normSq (Gen.eulerToQuat v)
      = (HasTrig.cos (h v.x) * HasTrig.cos (h v.x) + HasTrig.sin (h v.x) * HasTrig.sin (h v.x))
        * (HasTrig.cos (h v.y) * HasTrig.cos (h v.y) + HasTrig.sin (h v.y) * HasTrig.sin (h v.y))
        * (HasTrig.cos (h v.z) * HasTrig.cos (h v.z) + HasTrig.sin (h v.z) * HasTrig.sin (h v.z)) := by
  simp only [Gen.eulerToQuat, Q4.normSq]; ring

theorem eulerToQuat_unit (v : V3 ℝ) : Q4.normSq (Gen.eulerToQuat v) = 1 := by
  have := eulerToQuat_normSq_ring v
  simp only [HasTrig.sin, HasTrig.cos] at this
  rw [this]
  simp only [← sq, Real.cos_sq_add_sin_sq, one_pow]

/-- the five quadratic forms `quat_to_euler` reads off a quaternion, evaluated at `euler_to_quat v`, in the
half-angle sines and cosines (ring identities, any interpretation of sin/cos) -/
theorem quatToEuler_args_ring {K : Type} [Field K] [HasTrig K] (v : V3 K) :
    let h (a : K) : K := a * (3141592653589793e-15 : K) / (360e0 : K)
    let q := Gen.eulerToQuat v
    let ca := HasTrig.cos (h v.x); let sa := HasTrig.sin (h v.x)
    let cb := HasTrig.cos (h v.y); let sb := HasTrig.sin (h v.y)
    let cc := HasTrig.cos (h v.z); let sc := HasTrig.sin (h v.z)
    ((-(1 + 1)) * q.y) * q.z + ((1 + 1) * q.w) * q.x = (2 * sa * ca) * (cb * cb - sb * sb) * (cc * cc + sc * sc)
    ∧ ((q.z * q.z - q.y * q.y) - q.x * q.x) + q.w * q.w = (ca * ca - sa * sa) * (cb * cb - sb * sb) * (cc * cc + sc * sc)
    ∧ (((1 + 1) * q.x) * q.z) + (((1 + 1) * q.w) * q.y) = (ca * ca + sa * sa) * (2 * sb * cb) * (cc * cc + sc * sc)
    ∧ ((-(1 + 1)) * q.x) * q.y + ((1 + 1) * q.w) * q.z = (ca * ca + sa * sa) * (cb * cb - sb * sb) * (2 * sc * cc)
    ∧ ((q.x * q.x + q.w * q.w) - q.z * q.z) - q.y * q.y = (ca * ca + sa * sa) * (cb * cb - sb * sb) * (cc * cc - sc * sc) := by
  simp only [Gen.eulerToQuat]
  refine ⟨?_, ?_, ?_, ?_, ?_⟩ <;> ring

theorem quatToEuler_eulerToQuat (v : V3 ℝ)
    (hx : eulerRad v.x ∈ Set.Ioc (-Real.pi) Real.pi)
    (hy : -(Real.pi / 2) < eulerRad v.y ∧ eulerRad v.y < Real.pi / 2)
    (hz : eulerRad v.z ∈ Set.Ioc (-Real.pi) Real.pi) :
    Gen.quatToEuler (Gen.eulerToQuat v) = ⟨eulerRad v.x, eulerRad v.y, eulerRad v.z⟩ := by
  obtain ⟨e1, e2, e3, e4, e5⟩ := quatToEuler_args_ring v
  simp only [HasTrig.sin, HasTrig.cos] at e1 e2 e3 e4 e5
  have hone : ∀ t : ℝ, Real.cos t * Real.cos t + Real.sin t * Real.sin t = 1 := by
    intro t; have := Real.cos_sq_add_sin_sq t; rw [sq, sq] at this; exact this
  have hh : ∀ a : ℝ, eulerRad a = 2 * (a * (3141592653589793e-15 : ℝ) / (360e0 : ℝ)) := by
    intro a; simp only [eulerRad]; norm_num; ring
  have hsin : ∀ a : ℝ, Real.sin (eulerRad a) = 2 * Real.sin (a * (3141592653589793e-15 : ℝ) / (360e0 : ℝ))
      * Real.cos (a * (3141592653589793e-15 : ℝ) / (360e0 : ℝ)) := by
    intro a; rw [hh, Real.sin_two_mul]
  have hcos : ∀ a : ℝ, Real.cos (eulerRad a) = Real.cos (a * (3141592653589793e-15 : ℝ) / (360e0 : ℝ))
      * Real.cos (a * (3141592653589793e-15 : ℝ) / (360e0 : ℝ)) - Real.sin (a * (3141592653589793e-15 : ℝ) / (360e0 : ℝ))
      * Real.sin (a * (3141592653589793e-15 : ℝ) / (360e0 : ℝ)) := by
    intro a; rw [hh, Real.cos_two_mul]; linear_combination hone (a * (3141592653589793e-15 : ℝ) / (360e0 : ℝ))
  have hcy : 0 < Real.cos (eulerRad v.y) := Real.cos_pos_of_mem_Ioo ⟨hy.1, hy.2⟩
  have hsx := hsin v.x; have hsy := hsin v.y; have hsz := hsin v.z
  have hcx := hcos v.x; have hcyy := hcos v.y; have hcz := hcos v.z
  have h1x := hone (v.x * (3141592653589793e-15 : ℝ) / (360e0 : ℝ))
  have h1y := hone (v.y * (3141592653589793e-15 : ℝ) / (360e0 : ℝ))
  have h1z := hone (v.z * (3141592653589793e-15 : ℝ) / (360e0 : ℝ))
  generalize Real.sin (v.x * (3141592653589793e-15 : ℝ) / (360e0 : ℝ)) = sa at *
  generalize Real.cos (v.x * (3141592653589793e-15 : ℝ) / (360e0 : ℝ)) = ca at *
  generalize Real.sin (v.y * (3141592653589793e-15 : ℝ) / (360e0 : ℝ)) = sb at *
  generalize Real.cos (v.y * (3141592653589793e-15 : ℝ) / (360e0 : ℝ)) = cb at *
  generalize Real.sin (v.z * (3141592653589793e-15 : ℝ) / (360e0 : ℝ)) = sc at *
  generalize Real.cos (v.z * (3141592653589793e-15 : ℝ) / (360e0 : ℝ)) = cc at *
  simp only [Gen.quatToEuler]
  congr 1
  · convert atan2_scaled (Real.cos (eulerRad v.y)) (eulerRad v.x) hcy hx using 2
    · rw [hsx, hcyy]; linear_combination e1 + (2 * sa * ca * (cb * cb - sb * sb)) * h1z
    · rw [hcx, hcyy]; linear_combination e2 + ((ca * ca - sa * sa) * (cb * cb - sb * sb)) * h1z
  · refine asin_clip_sin _ _ ?_ (le_of_lt hy.1) (le_of_lt hy.2)
    rw [hsy]; linear_combination e3 + (2 * sb * cb) * h1x + ((ca * ca + sa * sa) * (2 * sb * cb)) * h1z
  · convert atan2_scaled (Real.cos (eulerRad v.y)) (eulerRad v.z) hcy hz using 2
    · rw [hsz, hcyy]; linear_combination e4 + ((cb * cb - sb * sb) * (2 * sc * cc)) * h1x
    · rw [hcz, hcyy]; linear_combination e5 + ((cb * cb - sb * sb) * (cc * cc - sc * sc)) * h1x

/-- non-vacuity of the chart: `(90°, 45°, −90°)` -/
example : eulerRad 90 ∈ Set.Ioc (-Real.pi) Real.pi ∧ (-(Real.pi / 2) < eulerRad 45 ∧ eulerRad 45 < Real.pi / 2)
    ∧ eulerRad (-90) ∈ Set.Ioc (-Real.pi) Real.pi := by
  have h1 := Real.two_le_pi
  simp only [eulerRad, Set.mem_Ioc]
  refine ⟨⟨?_, ?_⟩, ⟨?_, ?_⟩, ?_, ?_⟩ <;> norm_num <;> linarith

/-- **gimbal lock** (why the chart is open in `y`): when the middle angle is exactly `π/2` the two `atan2` read
`atan2 0 0 = 0`, so `x` and `z` are lost -/
theorem quatToEuler_eulerToQuat_gimbal (v : V3 ℝ) (hy : eulerRad v.y = Real.pi / 2) :
    Gen.quatToEuler (Gen.eulerToQuat v) = ⟨0, Real.pi / 2, 0⟩ := by
  obtain ⟨e1, e2, e3, e4, e5⟩ := quatToEuler_args_ring v
  simp only [HasTrig.sin, HasTrig.cos] at e1 e2 e3 e4 e5
  have hone : ∀ t : ℝ, Real.cos t * Real.cos t + Real.sin t * Real.sin t = 1 := by
    intro t; have := Real.cos_sq_add_sin_sq t; rw [sq, sq] at this; exact this
  have hh : ∀ a : ℝ, eulerRad a = 2 * (a * (3141592653589793e-15 : ℝ) / (360e0 : ℝ)) := by
    intro a; simp only [eulerRad]; norm_num; ring
  have hsy : Real.sin (eulerRad v.y) = 2 * Real.sin (v.y * (3141592653589793e-15 : ℝ) / (360e0 : ℝ))
      * Real.cos (v.y * (3141592653589793e-15 : ℝ) / (360e0 : ℝ)) := by
    rw [hh, Real.sin_two_mul]
  have hcy : Real.cos (eulerRad v.y) = Real.cos (v.y * (3141592653589793e-15 : ℝ) / (360e0 : ℝ))
      * Real.cos (v.y * (3141592653589793e-15 : ℝ) / (360e0 : ℝ)) - Real.sin (v.y * (3141592653589793e-15 : ℝ) / (360e0 : ℝ))
      * Real.sin (v.y * (3141592653589793e-15 : ℝ) / (360e0 : ℝ)) := by
    rw [hh, Real.cos_two_mul]; linear_combination hone (v.y * (3141592653589793e-15 : ℝ) / (360e0 : ℝ))
  rw [hy, Real.sin_pi_div_two] at hsy
  rw [hy, Real.cos_pi_div_two] at hcy
  have h1x := hone (v.x * (3141592653589793e-15 : ℝ) / (360e0 : ℝ))
  have h1z := hone (v.z * (3141592653589793e-15 : ℝ) / (360e0 : ℝ))
  rw [← hcy] at e1 e2 e4 e5
  rw [← hsy, h1x, h1z] at e3
  have harg0 : (HasTrig.atan2 (0 : ℝ) 0 : ℝ) = 0 := by
    show Complex.arg ⟨0, 0⟩ = 0
    exact Complex.arg_zero
  simp only [Gen.quatToEuler]
  congr 1
  · convert harg0 using 2
    · linear_combination e1
    · linear_combination e2
  · refine asin_clip_sin _ _ ?_ (by linarith [Real.pi_pos]) (le_refl _)
    rw [Real.sin_pi_div_two]; linear_combination e3
  · convert harg0 using 2
    · linear_combination e4
    · linear_combination e5

end Euler

section Normalize3

/-- outside the `allclose(x, 0)` ball (here: `|v|² > 1e-15`) `normalize` divides by the Euclidean norm -/
theorem normalize3_eq (v : V3 ℝ) (h : (1e-15 : ℝ) < V3.dot v v) :
    Gen.normalize3 v = ⟨v.x / Real.sqrt (V3.dot v v), v.y / Real.sqrt (V3.dot v v), v.z / Real.sqrt (V3.dot v v)⟩ := by
  simp only [V3.dot] at h ⊢
  have hpos : 0 < Real.sqrt (v.x * v.x + v.y * v.y + v.z * v.z) := Real.sqrt_pos.mpr (lt_trans (by norm_num) h)
  have er : eqR (Real.sqrt (v.x * v.x + v.y * v.y + v.z * v.z)) 0 = false := by
    rw [Bool.eq_false_iff]; intro hc; exact (ne_of_gt hpos) ((eqR_iff _ _).mp hc)
  simp only [Gen.normalize3, isclose_comp_iff]
  simp only [allclose3_false _ _ _ h, Bool.false_eq_true, if_false, mul_one,
    add_zero, sub_zero, HasSqrt.sqrt, er, mul_zero]

end Normalize3

section Orthogonals

theorem anyNonzero_of_unit (a : V3 ℝ) (ha : V3.dot a a = 1) :
    (((!(eqR a.x 0)) || (!(eqR a.y 0))) || (!(eqR a.z 0))) = true := by
  by_contra hc
  simp only [Bool.or_eq_true, Bool.not_eq_true', not_or, Bool.not_eq_false, eqR_iff] at hc
  obtain ⟨⟨h1, h2⟩, h3⟩ := hc
  simp only [V3.dot, h1, h2, h3] at ha
  norm_num at ha

theorem orthogonalsB_shape_y (a : V3 ℝ) (ha : V3.dot a a = 1) (hy : -(5e-1 : ℝ) < a.y ∧ a.y < (5e-1 : ℝ)) :
    ∃ p q r : ℝ, Gen.orthogonalsB a = Gen.normalize3 ⟨p, q, r⟩
      ∧ p = -(a.x * a.y) ∧ q = 1 - a.y * a.y ∧ r = -(a.z * a.y) := by
  have hb : (decide (-(5e-1 : ℝ) < a.y) && decide (a.y < (5e-1 : ℝ))) = true := by simp [hy.1, hy.2]
  have hb' : (decide (a.y < (5e-1 : ℝ)) && decide (-(5e-1 : ℝ) < a.y)) = true := by simp [hy.1, hy.2]
  simp only [Gen.orthogonalsB, Gen.normalize3, hb, hb', anyNonzero_of_unit a ha, if_true, mul_one]
  refine ⟨_, _, _, rfl, ?_, ?_, ?_⟩ <;> ring

theorem orthogonalsB_shape_z (a : V3 ℝ) (ha : V3.dot a a = 1) (hy : ¬ (-(5e-1 : ℝ) < a.y ∧ a.y < (5e-1 : ℝ))) :
    ∃ p q r : ℝ, Gen.orthogonalsB a = Gen.normalize3 ⟨p, q, r⟩
      ∧ p = -(a.x * a.z) ∧ q = -(a.y * a.z) ∧ r = 1 - a.z * a.z := by
  have hb : (decide (-(5e-1 : ℝ) < a.y) && decide (a.y < (5e-1 : ℝ))) = false := by
    simp only [Bool.and_eq_false_iff, decide_eq_false_iff_not]; tauto
  have hb' : (decide (a.y < (5e-1 : ℝ)) && decide (-(5e-1 : ℝ) < a.y)) = false := by
    simp only [Bool.and_eq_false_iff, decide_eq_false_iff_not]; tauto
  simp only [Gen.orthogonalsB, Gen.normalize3, hb, hb', anyNonzero_of_unit a ha, Bool.false_eq_true, if_false, if_true,
    mul_one]
  refine ⟨_, _, _, rfl, ?_, ?_, ?_⟩ <;> ring

/-- the second vector is the cross product of the argument with the first, as in the source -/
theorem orthogonalsC_eq_cross (a : V3 ℝ) : Gen.orthogonalsC a = V3.cross a (Gen.orthogonalsB a) := by
  first
    | rfl
    | (simp only [Gen.orthogonalsC, Gen.orthogonalsB, V3.cross]; congr 1 <;> ring)

/-- dividing a vector `w ⟂ a` that is not tiny by its norm gives a unit vector `⟂ a` -/
theorem normalize3_orth (a w : V3 ℝ) (hw : (1e-15 : ℝ) < V3.dot w w) (haw : V3.dot a w = 0) :
    V3.dot (Gen.normalize3 w) (Gen.normalize3 w) = 1 ∧ V3.dot a (Gen.normalize3 w) = 0 := by
  have hp : 0 < V3.dot w w := lt_trans (by norm_num) hw
  rw [normalize3_eq w hw]
  have hs := Real.mul_self_sqrt (le_of_lt hp)
  have hne : Real.sqrt (V3.dot w w) ≠ 0 := ne_of_gt (Real.sqrt_pos.mpr hp)
  generalize Real.sqrt (V3.dot w w) = n at hs hne
  constructor
  · have : V3.dot (⟨w.x / n, w.y / n, w.z / n⟩ : V3 ℝ) ⟨w.x / n, w.y / n, w.z / n⟩ = V3.dot w w / (n * n) := by
      simp only [V3.dot]; field_simp
    rw [this, ← hs]; exact div_self (mul_ne_zero hne hne)
  · have : V3.dot a (⟨w.x / n, w.y / n, w.z / n⟩ : V3 ℝ) = V3.dot a w / n := by
      simp only [V3.dot]; field_simp
    rw [this, haw, zero_div]

/-- **`orthogonals`, first vector**: for a unit vector `a`, `b` is a unit vector orthogonal to `a`
(both branches of the `|a.y| < 0.5` switch; the `allclose`/`1e-6` guards of the inlined `normalize` and the
`jp.any(a)` mask are shown not to fire) -/
theorem orthogonalsB_spec (a : V3 ℝ) (ha : V3.dot a a = 1) :
    V3.dot (Gen.orthogonalsB a) (Gen.orthogonalsB a) = 1 ∧ V3.dot a (Gen.orthogonalsB a) = 0 := by
  have ha' := ha
  simp only [V3.dot] at ha'
  by_cases hy : -(5e-1 : ℝ) < a.y ∧ a.y < (5e-1 : ℝ)
  · obtain ⟨p, q, r, he, hp, hq, hr⟩ := orthogonalsB_shape_y a ha hy
    rw [he]
    apply normalize3_orth
    · simp only [V3.dot, hp, hq, hr]
      have h1 : a.y * a.y < 1 / 4 := by
        obtain ⟨h1, h2⟩ := hy; norm_num at h1 h2; nlinarith
      have : -(a.x * a.y) * -(a.x * a.y) + (1 - a.y * a.y) * (1 - a.y * a.y) + -(a.z * a.y) * -(a.z * a.y)
          = 1 - a.y * a.y := by linear_combination (a.y * a.y) * ha'
      rw [this]; norm_num; linarith
    · simp only [V3.dot, hp, hq, hr]; linear_combination (-a.y) * ha'
  · obtain ⟨p, q, r, he, hp, hq, hr⟩ := orthogonalsB_shape_z a ha hy
    rw [he]
    apply normalize3_orth
    · simp only [V3.dot, hp, hq, hr]
      have h1 : 1 / 4 ≤ a.y * a.y := by
        rcases le_or_gt a.y (-(1 / 2)) with h | h
        · nlinarith
        · have h2 : ¬ a.y < 1 / 2 := fun h2 => hy ⟨by norm_num; linarith, by norm_num; linarith⟩
          nlinarith [not_lt.mp h2]
      have : -(a.x * a.z) * -(a.x * a.z) + -(a.y * a.z) * -(a.y * a.z) + (1 - a.z * a.z) * (1 - a.z * a.z)
          = 1 - a.z * a.z := by linear_combination (a.z * a.z) * ha'
      rw [this]; norm_num; nlinarith [mul_self_nonneg a.x]
    · simp only [V3.dot, hp, hq, hr]; linear_combination (-a.z) * ha'

/-- **`orthogonals`, second vector**: `c = a × b` is a unit vector orthogonal to `a` and to `b`, and `(a, b, c)` is
right-handed: `b × c = a` -/
theorem orthogonalsC_spec (a : V3 ℝ) (ha : V3.dot a a = 1) :
    V3.dot (Gen.orthogonalsC a) (Gen.orthogonalsC a) = 1 ∧ V3.dot a (Gen.orthogonalsC a) = 0
      ∧ V3.dot (Gen.orthogonalsB a) (Gen.orthogonalsC a) = 0
      ∧ V3.cross (Gen.orthogonalsB a) (Gen.orthogonalsC a) = a := by
  obtain ⟨hb, hab⟩ := orthogonalsB_spec a ha
  rw [orthogonalsC_eq_cross]
  generalize Gen.orthogonalsB a = b at hb hab
  simp only [V3.dot] at ha hb hab
  simp only [V3.dot, V3.cross]
  refine ⟨?_, ?_, ?_, ?_⟩
  · linear_combination (b.x * b.x + b.y * b.y + b.z * b.z) * ha + hb - (a.x * b.x + a.y * b.y + a.z * b.z) * hab
  · ring
  · ring
  · cases a with | mk ax ay az =>
    simp only at ha hab ⊢
    congr 1
    · linear_combination ax * hb - b.x * hab
    · linear_combination ay * hb - b.y * hab
    · linear_combination az * hb - b.z * hab

/-- the `jp.any(a)` mask: the zero vector gets `b = c = 0` -/
theorem orthogonals_zero :
    Gen.orthogonalsB (⟨0, 0, 0⟩ : V3 ℝ) = ⟨0, 0, 0⟩ ∧ Gen.orthogonalsC (⟨0, 0, 0⟩ : V3 ℝ) = ⟨0, 0, 0⟩ := by
  have hb : Gen.orthogonalsB (⟨0, 0, 0⟩ : V3 ℝ) = ⟨0, 0, 0⟩ := by
    have e0 : eqR (0 : ℝ) 0 = true := (eqR_iff _ _).mpr rfl
    simp only [Gen.orthogonalsB, e0, Bool.not_true, Bool.or_self, Bool.false_eq_true, if_false, mul_zero]
  refine ⟨hb, ?_⟩
  rw [orthogonalsC_eq_cross, hb]
  simp only [V3.cross]; congr 1 <;> ring

example : V3.dot (⟨3 / 5, 4 / 5, 0⟩ : V3 ℝ) ⟨3 / 5, 4 / 5, 0⟩ = 1 := by simp only [V3.dot]; norm_num

end Orthogonals

section Inv3x3

/-- `inv_3x3 m` is the adjugate of `m` divided by `det m + 1e-10`: the pivoted-LU determinant that
`jp.linalg.det` traces to is the Leibniz determinant, for every real matrix (all pivoting branches, zero pivots
included) -/
theorem inv3x3_shape (m : M3 ℝ) : ∃ d a00 a01 a02 a10 a11 a12 a20 a21 a22 : ℝ,
    Gen.inv3x3 m = ⟨⟨a00 / d, a01 / d, a02 / d⟩, ⟨a10 / d, a11 / d, a12 / d⟩, ⟨a20 / d, a21 / d, a22 / d⟩⟩
    ∧ d = M3.det m + (1e-10 : ℝ)
    ∧ a00 = m.r1.y * m.r2.z - m.r1.z * m.r2.y ∧ a01 = m.r0.z * m.r2.y - m.r0.y * m.r2.z
    ∧ a02 = m.r0.y * m.r1.z - m.r0.z * m.r1.y ∧ a10 = m.r1.z * m.r2.x - m.r1.x * m.r2.z
    ∧ a11 = m.r0.x * m.r2.z - m.r0.z * m.r2.x ∧ a12 = m.r0.z * m.r1.x - m.r0.x * m.r1.z
    ∧ a20 = m.r1.x * m.r2.y - m.r1.y * m.r2.x ∧ a21 = m.r0.y * m.r2.x - m.r0.x * m.r2.y
    ∧ a22 = m.r0.x * m.r1.y - m.r0.y * m.r1.x := by
  refine ⟨_, _, _, _, _, _, _, _, _, _, rfl, ?_, ?_, ?_, ?_, ?_, ?_, ?_, ?_, ?_, ?_⟩
  · first
      | calc _ = luDet3 m.r0.x m.r0.y m.r0.z m.r1.x m.r1.y m.r1.z m.r2.x m.r2.y m.r2.z + (1e-10 : ℝ) := rfl
          _ = _ := by rw [luDet3_eq]; simp only [M3.det]
      | calc _ = (1e-10 : ℝ) + luDet3 m.r0.x m.r0.y m.r0.z m.r1.x m.r1.y m.r1.z m.r2.x m.r2.y m.r2.z := rfl
          _ = _ := by rw [luDet3_eq]; simp only [M3.det]; ring
  all_goals ring

/-- **`inv_3x3` is the inverse up to the regulariser**: `inv_3x3(m) · m = det m / (det m + 1e-10) · 1`
(guard: the regularised determinant is not 0, i.e. `det m ≠ −1e-10`) -/
theorem inv3x3_mul_self (m : M3 ℝ) (h : M3.det m + (1e-10 : ℝ) ≠ 0) :
    M3.mul (Gen.inv3x3 m) m = M3.smul (M3.det m / (M3.det m + (1e-10 : ℝ))) M3.one := by
  obtain ⟨d, a00, a01, a02, a10, a11, a12, a20, a21, a22, he, hd, h00, h01, h02, h10, h11, h12, h20, h21, h22⟩ :=
    inv3x3_shape m
  rw [he, ← hd]
  rw [← hd] at h
  have hdet : M3.det m = m.r0.x * (m.r1.y * m.r2.z - m.r1.z * m.r2.y)
      - m.r0.y * (m.r1.x * m.r2.z - m.r1.z * m.r2.x) + m.r0.z * (m.r1.x * m.r2.y - m.r1.y * m.r2.x) := rfl
  rw [hdet]
  subst h00 h01 h02 h10 h11 h12 h20 h21 h22
  clear hd he hdet
  simp only [M3.mul, M3.smul, M3.one, M3.col0, M3.col1, M3.col2, V3.dot, V3.smul]
  congr 1 <;> congr 1 <;> field_simp <;> ring

theorem self_mul_inv3x3 (m : M3 ℝ) (h : M3.det m + (1e-10 : ℝ) ≠ 0) :
    M3.mul m (Gen.inv3x3 m) = M3.smul (M3.det m / (M3.det m + (1e-10 : ℝ))) M3.one := by
  obtain ⟨d, a00, a01, a02, a10, a11, a12, a20, a21, a22, he, hd, h00, h01, h02, h10, h11, h12, h20, h21, h22⟩ :=
    inv3x3_shape m
  rw [he, ← hd]
  rw [← hd] at h
  have hdet : M3.det m = m.r0.x * (m.r1.y * m.r2.z - m.r1.z * m.r2.y)
      - m.r0.y * (m.r1.x * m.r2.z - m.r1.z * m.r2.x) + m.r0.z * (m.r1.x * m.r2.y - m.r1.y * m.r2.x) := rfl
  rw [hdet]
  subst h00 h01 h02 h10 h11 h12 h20 h21 h22
  clear hd he hdet
  simp only [M3.mul, M3.smul, M3.one, M3.col0, M3.col1, M3.col2, V3.dot, V3.smul]
  congr 1 <;> congr 1 <;> field_simp <;> ring

/-- **finding** — `inv_3x3` is never the exact inverse: because of the `+ 1e-10` in the denominator,
`inv_3x3(m) · m ≠ 1` for *every* real matrix (the product is `det m / (det m + 1e-10) · 1`) -/
theorem inv3x3_never_exact (m : M3 ℝ) : M3.mul (Gen.inv3x3 m) m ≠ M3.one := by
  intro hc
  by_cases h : M3.det m + (1e-10 : ℝ) = 0
  · -- the denominator is 0: every entry of `inv_3x3 m` is `_ / 0 = 0`
    obtain ⟨d, a00, a01, a02, a10, a11, a12, a20, a21, a22, he, hd, -⟩ := inv3x3_shape m
    have hd0 : d = 0 := hd.trans h
    rw [he, hd0] at hc
    simp only [M3.mul, M3.one, M3.col0, V3.dot, div_zero, zero_mul, add_zero, M3.mk.injEq, V3.mk.injEq] at hc
    exact zero_ne_one hc.1.1
  · rw [inv3x3_mul_self m h] at hc
    simp only [M3.smul, M3.one, V3.smul, mul_one, M3.mk.injEq, V3.mk.injEq] at hc
    have h1 := hc.1.1
    rw [div_eq_one_iff_eq h] at h1
    have : (1e-10 : ℝ) = 0 := by linarith
    norm_num at this

/-- the regulariser is not small for small bodies: for `m = diag(1e-4, 1e-3, 1e-3)` (`det m = 1e-10`)
`inv_3x3(m) · m = ½ · 1` -/
theorem inv3x3_half :
    M3.mul (Gen.inv3x3 ⟨⟨1e-4, 0, 0⟩, ⟨0, 1e-3, 0⟩, ⟨0, 0, 1e-3⟩⟩) (⟨⟨1e-4, 0, 0⟩, ⟨0, 1e-3, 0⟩, ⟨0, 0, 1e-3⟩⟩ : M3 ℝ)
      = M3.smul (1 / 2) M3.one := by
  have hdet : M3.det (⟨⟨1e-4, 0, 0⟩, ⟨0, 1e-3, 0⟩, ⟨0, 0, 1e-3⟩⟩ : M3 ℝ) = 1e-10 := by
    simp only [M3.det]; norm_num
  rw [inv3x3_mul_self _ (by rw [hdet]; norm_num), hdet]
  norm_num

/-- the hypothesis of `inv3x3_mul_self` is satisfiable (every matrix with `det ≥ 0`, e.g. the identity) -/
example : M3.det (M3.one : M3 ℝ) + (1e-10 : ℝ) ≠ 0 := by simp only [M3.det, M3.one]; norm_num

end Inv3x3

section SignedAngle

/-- the guard of `signed_angle` against `arctan2(0, 0)` (evaluated at `(0, 1)` instead, so that the gradient is finite)
does not change its value: both are `0`.  Stated for whatever form the traced source has: with the guard the generated
definition is `atan2 y (if x = 0 ∧ y = 0 then 1 else x)`. -/
theorem atan2_guard (y x : ℝ) :
    (HasTrig.atan2 y (if (eqR x 0 && eqR y 0) = true then 1 else x) : ℝ) = HasTrig.atan2 y x := by
  by_cases h : (eqR x 0 && eqR y 0) = true
  · rw [if_pos h]
    simp only [eqR, Bool.and_eq_true, Bool.not_eq_true', decide_eq_false_iff_not, not_lt] at h
    obtain ⟨⟨hx1, hx2⟩, hy1, hy2⟩ := h
    have hx : x = 0 := le_antisymm hx2 hx1
    have hy : y = 0 := le_antisymm hy2 hy1
    subst hx; subst hy
    show Complex.arg ⟨1, 0⟩ = Complex.arg ⟨0, 0⟩
    have h1 : (⟨1, 0⟩ : ℂ) = 1 := rfl
    have h0 : (⟨0, 0⟩ : ℂ) = 0 := rfl
    rw [h1, h0, Complex.arg_one, Complex.arg_zero]
  · rw [if_neg h]

/-- `signed_angle axis p c = atan2((p × c)·axis, p·c)` for every input (the zero-vector guard included) -/
theorem signedAngle_eq_atan2 (ax p c : V3 ℝ) :
    Gen.signedAngle ax p c = HasTrig.atan2 (V3.dot (V3.cross p c) ax) (V3.dot p c) := by
  simp only [Gen.signedAngle, V3.dot, V3.cross]
  first
    | rfl
    | exact atan2_guard _ _

/-- **`signed_angle` recovers the rotation angle**: for a unit axis `a`, a non-zero reference `p ⟂ a` and
`θ ∈ (−π, π]`, the signed angle about `a` from `p` to `p` rotated by `quat_rot_axis a θ` is `θ` -/
theorem signedAngle_rotate (a p : V3 ℝ) (θ : ℝ) (ha : V3.dot a a = 1) (hap : V3.dot a p = 0)
    (hp : 0 < V3.dot p p) (hθ : θ ∈ Set.Ioc (-Real.pi) Real.pi) :
    Gen.signedAngle a p (Gen.rotate p (Gen.quatRotAxis a θ)) = θ := by
  rw [signedAngle_eq_atan2, rotate_quatRotAxis a p θ ha]
  simp only [V3.dot] at ha hap
  simp only [V3.smul, V3.add_def, V3.cross, V3.dot]
  convert atan2_scaled (V3.dot p p) θ hp hθ using 2
  · simp only [V3.dot]
    linear_combination (Real.sin θ * (p.x * p.x + p.y * p.y + p.z * p.z)) * ha
      - (Real.sin θ * (a.x * p.x + a.y * p.y + a.z * p.z)) * hap
  · simp only [V3.dot]
    linear_combination ((1 - Real.cos θ) * (a.x * p.x + a.y * p.y + a.z * p.z)) * hap

example : V3.dot (⟨0, 0, 1⟩ : V3 ℝ) ⟨0, 0, 1⟩ = 1 ∧ V3.dot (⟨0, 0, 1⟩ : V3 ℝ) ⟨2, 0, 0⟩ = 0
    ∧ 0 < V3.dot (⟨2, 0, 0⟩ : V3 ℝ) ⟨2, 0, 0⟩ := by
  simp only [V3.dot]; norm_num

end SignedAngle

section Field2
variable {K : Type} [Field K]

/-- the rotation matrix of a quaternion is a proper rotation: determinant `+1` -/
theorem quatTo3x3_det (q : Q4 K) (h : Q4.normSq q ≠ 0) : M3.det (Gen.quatTo3x3 q) = 1 := by
  simp only [Gen.quatTo3x3, M3.det, Q4.normSq] at h ⊢
  set d := q.w * q.w + q.x * q.x + q.y * q.y + q.z * q.z with hd
  clear_value d
  field_simp
  rw [hd]; ring

/-- `mat(q)ᵀ mat(q) = 1` (the other order of `quatTo3x3_orthogonal`) -/
theorem quatTo3x3_orthogonal_transpose (q : Q4 K) (h : Q4.normSq q ≠ 0) :
    M3.mul (M3.transpose (Gen.quatTo3x3 q)) (Gen.quatTo3x3 q) = M3.one := by
  simp only [Gen.quatTo3x3, M3.mul, M3.transpose, M3.col0, M3.col1, M3.col2, V3.dot, M3.one,
    Q4.normSq] at h ⊢
  set d := q.w * q.w + q.x * q.x + q.y * q.y + q.z * q.z with hd
  clear_value d
  congr 1 <;> congr 1 <;> field_simp <;> rw [hd] <;> ring

end Field2

section EulerInv

/-- the unnormalised rotation matrix `|q|² · mat(q)` of a quaternion, as polynomials -/
def nmat {K : Type} [Field K] (q : Q4 K) : M3 K :=
  ⟨⟨q.w * q.w + q.x * q.x - q.y * q.y - q.z * q.z, 2 * (q.x * q.y - q.w * q.z), 2 * (q.x * q.z + q.w * q.y)⟩,
   ⟨2 * (q.x * q.y + q.w * q.z), q.w * q.w - q.x * q.x + q.y * q.y - q.z * q.z, 2 * (q.y * q.z - q.w * q.x)⟩,
   ⟨2 * (q.x * q.z - q.w * q.y), 2 * (q.y * q.z + q.w * q.x), q.w * q.w - q.x * q.x - q.y * q.y + q.z * q.z⟩⟩

/-- `rotate v q = nmat q · v` -/
theorem rotate_eq_nmat {K : Type} [Field K] (v : V3 K) (q : Q4 K) : Gen.rotate v q = M3.mulVec (nmat q) v := by
  simp only [Gen.rotate, nmat, M3.mulVec, V3.dot]; congr 1 <;> ring

/-- the rotation matrix of `euler_to_quat v` is `Rx · Ry · Rz` (ring identity in the half-angle sines and cosines;
`A = c² + s²`, `C = c² − s²`, `S = 2sc`) -/
theorem nmat_eulerToQuat_ring {K : Type} [Field K] [HasTrig K] (v : V3 K) :
    let h (a : K) : K := a * (3141592653589793e-15 : K) / (360e0 : K)
    let ca := HasTrig.cos (h v.x); let sa := HasTrig.sin (h v.x)
    let cb := HasTrig.cos (h v.y); let sb := HasTrig.sin (h v.y)
    let cc := HasTrig.cos (h v.z); let sc := HasTrig.sin (h v.z)
    nmat (Gen.eulerToQuat v)
      = ⟨⟨(ca * ca + sa * sa) * ((cb * cb - sb * sb) * (cc * cc - sc * sc)),
          -((ca * ca + sa * sa) * ((cb * cb - sb * sb) * (2 * sc * cc))),
          (ca * ca + sa * sa) * ((2 * sb * cb) * (cc * cc + sc * sc))⟩,
         ⟨(ca * ca - sa * sa) * (cb * cb + sb * sb) * (2 * sc * cc) + (2 * sa * ca) * (2 * sb * cb) * (cc * cc - sc * sc),
          (ca * ca - sa * sa) * (cb * cb + sb * sb) * (cc * cc - sc * sc) - (2 * sa * ca) * (2 * sb * cb) * (2 * sc * cc),
          -((2 * sa * ca) * (cb * cb - sb * sb) * (cc * cc + sc * sc))⟩,
         ⟨(2 * sa * ca) * (cb * cb + sb * sb) * (2 * sc * cc) - (ca * ca - sa * sa) * (2 * sb * cb) * (cc * cc - sc * sc),
          (2 * sa * ca) * (cb * cb + sb * sb) * (cc * cc - sc * sc) + (ca * ca - sa * sa) * (2 * sb * cb) * (2 * sc * cc),
          (ca * ca - sa * sa) * (cb * cb - sb * sb) * (cc * cc + sc * sc)⟩⟩ := by
  simp only [Gen.eulerToQuat, nmat]
  congr 1 <;> congr 1 <;> ring

/-- `4 (p·q)² = |p|²|q|² + Σ nmat(p)ᵢⱼ nmat(q)ᵢⱼ` -/
theorem nmat_trace {K : Type} [Field K] (p q : Q4 K) :
    4 * (p.w * q.w + p.x * q.x + p.y * q.y + p.z * q.z) * (p.w * q.w + p.x * q.x + p.y * q.y + p.z * q.z)
      = Q4.normSq p * Q4.normSq q + (V3.dot (nmat p).r0 (nmat q).r0 + V3.dot (nmat p).r1 (nmat q).r1
          + V3.dot (nmat p).r2 (nmat q).r2) := by
  simp only [nmat, V3.dot, Q4.normSq]; ring

/-- unit quaternions with the same rotation matrix are equal up to sign -/
theorem eq_or_neg_of_nmat_eq (p q : Q4 ℝ) (hp : Q4.normSq p = 1) (hq : Q4.normSq q = 1) (h : nmat p = nmat q) :
    p = q ∨ p = ⟨-q.w, -q.x, -q.y, -q.z⟩ := by
  have ht := nmat_trace p q
  rw [h, hp, hq] at ht
  have hsum : V3.dot (nmat q).r0 (nmat q).r0 + V3.dot (nmat q).r1 (nmat q).r1 + V3.dot (nmat q).r2 (nmat q).r2
      = 3 * (Q4.normSq q * Q4.normSq q) := by
    simp only [nmat, V3.dot, Q4.normSq]; ring
  rw [hsum, hq] at ht
  clear hsum h
  have hd2 : ((p.w * q.w + p.x * q.x + p.y * q.y + p.z * q.z) - 1)
      * ((p.w * q.w + p.x * q.x + p.y * q.y + p.z * q.z) + 1) = 0 := by linear_combination (1 / 4 : ℝ) * ht
  clear ht
  simp only [Q4.normSq] at hp hq
  rcases mul_eq_zero.mp hd2 with h1 | h1
  · left
    obtain ⟨e1, e2, e3, e4⟩ := four_sq_zero (p.w - q.w) (p.x - q.x) (p.y - q.y) (p.z - q.z)
      (by linear_combination hp + hq - 2 * h1)
    cases p; cases q; simp only [Q4.mk.injEq] at *
    exact ⟨by linarith, by linarith, by linarith, by linarith⟩
  · right
    obtain ⟨e1, e2, e3, e4⟩ := four_sq_zero (p.w + q.w) (p.x + q.x) (p.y + q.y) (p.z + q.z)
      (by linear_combination hp + hq + 2 * h1)
    cases p; cases q; simp only [Q4.mk.injEq] at *
    exact ⟨by linarith, by linarith, by linarith, by linarith⟩

/-- cofactor identities of `nmat q` (a scaled rotation matrix): the four entries `quat_to_euler` does not read are
determined by the five it reads -/
theorem nmat_cofactor {K : Type} [Field K] (q : Q4 K) :
    Q4.normSq q * ((nmat q).r2.z * -(nmat q).r0.y) + (nmat q).r0.z * (-(nmat q).r1.z * (nmat q).r0.x)
        = (Q4.normSq q * Q4.normSq q - (nmat q).r0.z * (nmat q).r0.z) * (nmat q).r1.x
    ∧ Q4.normSq q * ((nmat q).r2.z * (nmat q).r0.x) - (nmat q).r0.z * (-(nmat q).r1.z * -(nmat q).r0.y)
        = (Q4.normSq q * Q4.normSq q - (nmat q).r0.z * (nmat q).r0.z) * (nmat q).r1.y
    ∧ Q4.normSq q * (-(nmat q).r1.z * -(nmat q).r0.y) - (nmat q).r0.z * ((nmat q).r2.z * (nmat q).r0.x)
        = (Q4.normSq q * Q4.normSq q - (nmat q).r0.z * (nmat q).r0.z) * (nmat q).r2.x
    ∧ Q4.normSq q * (-(nmat q).r1.z * (nmat q).r0.x) + (nmat q).r0.z * ((nmat q).r2.z * -(nmat q).r0.y)
        = (Q4.normSq q * Q4.normSq q - (nmat q).r0.z * (nmat q).r0.z) * (nmat q).r2.y := by
  simp only [nmat, Q4.normSq]
  refine ⟨?_, ?_, ?_, ?_⟩ <;> ring

/-- what `quat_to_euler` reads off the quaternion: three entries of the last column and two of the first row of
`nmat q` -/
theorem quatToEuler_shape (q : Q4 ℝ) : ∃ n1 d1 t n3 d3 : ℝ,
    Gen.quatToEuler q = ⟨HasTrig.atan2 n1 d1,
        HasTrig.asin (if (decide (1 < (if decide ((-1 : ℝ) < t) then t else -1))) then 1
          else (if decide ((-1 : ℝ) < t) then t else -1)),
        HasTrig.atan2 n3 d3⟩
    ∧ n1 = -(nmat q).r1.z ∧ d1 = (nmat q).r2.z ∧ t = (nmat q).r0.z ∧ n3 = -(nmat q).r0.y ∧ d3 = (nmat q).r0.x := by
  refine ⟨_, _, _, _, _, rfl, ?_, ?_, ?_, ?_, ?_⟩ <;> simp only [nmat] <;> ring

/-- radians → degrees with the double `3.141592653589793` for π (inverse of `eulerRad`) -/
noncomputable def eulerDeg (r : ℝ) : ℝ := r * 180 / (3141592653589793e-15 : ℝ)

theorem eulerRad_eulerDeg (r : ℝ) : eulerRad (eulerDeg r) = r := by
  simp only [eulerRad, eulerDeg]; norm_num

/-- **`euler_to_quat ∘ quat_to_euler = ± id`** on unit quaternions away from gimbal lock (`|2(xz + wy)| < 1`):
converting the Euler angles (radians → degrees) back gives `q` or `−q`, i.e. the same rotation -/
theorem eulerToQuat_quatToEuler (q : Q4 ℝ) (hq : Q4.normSq q = 1)
    (hs1 : -1 < 2 * (q.x * q.z + q.w * q.y)) (hs2 : 2 * (q.x * q.z + q.w * q.y) < 1) :
    let e := Gen.quatToEuler q
    let p := Gen.eulerToQuat ⟨eulerDeg e.x, eulerDeg e.y, eulerDeg e.z⟩
    p = q ∨ p = ⟨-q.w, -q.x, -q.y, -q.z⟩ := by
  intro e p
  apply eq_or_neg_of_nmat_eq p q (eulerToQuat_unit _) hq
  obtain ⟨n1, d1, t, n3, d3, he, hn1, hd1, ht, hn3, hd3⟩ := quatToEuler_shape q
  have hp : p = Gen.eulerToQuat ⟨eulerDeg (Gen.quatToEuler q).x, eulerDeg (Gen.quatToEuler q).y,
      eulerDeg (Gen.quatToEuler q).z⟩ := rfl
  rw [hp, he]
  simp only []
  have hts : t = 2 * (q.x * q.z + q.w * q.y) := by rw [ht]; simp only [nmat]
  rw [← hts] at hs1 hs2
  rw [asin_clip_id t hs1 hs2]
  -- ρ = cos Y
  have h1t : 0 < 1 - t * t := by nlinarith
  set ρ := Real.sqrt (1 - t * t) with hρ
  have hρpos : 0 < ρ := Real.sqrt_pos.mpr h1t
  have hρρ : ρ * ρ = 1 - t * t := Real.mul_self_sqrt h1t.le
  have hn := hq
  simp only [Q4.normSq] at hn
  have hc := nmat_cofactor q
  rw [← hn1, ← hd1, ← ht, ← hn3, ← hd3, hq] at hc
  have hq9 : nmat q = ⟨⟨d3, -n3, t⟩, ⟨(nmat q).r1.x, (nmat q).r1.y, -n1⟩, ⟨(nmat q).r2.x, (nmat q).r2.y, d1⟩⟩ := by
    rw [hn3, hd3, ht, hn1, hd1, neg_neg, neg_neg]
  simp only [nmat] at hn1 hd1 ht hn3 hd3
  have hcol : d1 * d1 + n1 * n1 = ρ * ρ := by
    rw [hρρ, hd1, hn1, ht]
    linear_combination (q.w * q.w + q.x * q.x + q.y * q.y + q.z * q.z + 1) * hn
  have hrow : d3 * d3 + n3 * n3 = ρ * ρ := by
    rw [hρρ, hd3, hn3, ht]
    linear_combination (q.w * q.w + q.x * q.x + q.y * q.y + q.z * q.z + 1) * hn
  obtain ⟨hcX, hsX⟩ := cos_sin_atan2 n1 d1 ρ hρpos hcol
  obtain ⟨hcZ, hsZ⟩ := cos_sin_atan2 n3 d3 ρ hρpos hrow
  have hsY : Real.sin (Real.arcsin t) = t := Real.sin_arcsin hs1.le hs2.le
  have hcY : Real.cos (Real.arcsin t) = ρ := by rw [Real.cos_arcsin, hρ, sq]
  have hhalf : ∀ r : ℝ, eulerDeg r * (3141592653589793e-15 : ℝ) / (360e0 : ℝ) = r / 2 := by
    intro r; simp only [eulerDeg]; norm_num; ring
  have dbl : ∀ θ : ℝ, Real.cos (θ / 2) * Real.cos (θ / 2) + Real.sin (θ / 2) * Real.sin (θ / 2) = 1
      ∧ Real.cos (θ / 2) * Real.cos (θ / 2) - Real.sin (θ / 2) * Real.sin (θ / 2) = Real.cos θ
      ∧ 2 * Real.sin (θ / 2) * Real.cos (θ / 2) = Real.sin θ := by
    intro θ
    have h1 := Real.cos_sq_add_sin_sq (θ / 2)
    have h2 := Real.cos_two_mul (θ / 2)
    have h3 := Real.sin_two_mul (θ / 2)
    rw [show 2 * (θ / 2) = θ by ring] at h2 h3
    refine ⟨by linear_combination h1, by linear_combination -h1 - h2, by linear_combination -h3⟩
  obtain ⟨aX, cX, sX⟩ := dbl (HasTrig.atan2 n1 d1 : ℝ)
  obtain ⟨aY, cY, sY⟩ := dbl (Real.arcsin t)
  obtain ⟨aZ, cZ, sZ⟩ := dbl (HasTrig.atan2 n3 d3 : ℝ)
  rw [hcX] at cX; rw [hsX] at sX; rw [hcY] at cY; rw [hsY] at sY; rw [hcZ] at cZ; rw [hsZ] at sZ
  have hN := nmat_eulerToQuat_ring (⟨eulerDeg (HasTrig.atan2 n1 d1), eulerDeg (Real.arcsin t),
    eulerDeg (HasTrig.atan2 n3 d3)⟩ : V3 ℝ)
  simp only [HasTrig.sin, HasTrig.cos, hhalf] at hN
  simp only [aX, cX, sX, aY, cY, sY, aZ, cZ, sZ] at hN
  rw [hN]
  rw [hq9]
  generalize (nmat q).r1.x = N10 at hc ⊢
  generalize (nmat q).r1.y = N11 at hc ⊢
  generalize (nmat q).r2.x = N20 at hc ⊢
  generalize (nmat q).r2.y = N21 at hc ⊢
  obtain ⟨c10, c11, c20, c21⟩ := hc
  have hρne : ρ ≠ 0 := ne_of_gt hρpos
  congr 1 <;> congr 1
  · field_simp
  · field_simp
  · ring
  · field_simp; linear_combination c10 - N10 * hρρ
  · field_simp; linear_combination c11 - N11 * hρρ
  · field_simp
  · field_simp; linear_combination c20 - N20 * hρρ
  · field_simp; linear_combination c21 - N21 * hρρ
  · field_simp

/-- … hence the Euler angles read off a unit quaternion describe the rotation of that quaternion -/
theorem rotate_eulerToQuat_quatToEuler (q : Q4 ℝ) (hq : Q4.normSq q = 1)
    (hs1 : -1 < 2 * (q.x * q.z + q.w * q.y)) (hs2 : 2 * (q.x * q.z + q.w * q.y) < 1) (v : V3 ℝ) :
    Gen.rotate v (Gen.eulerToQuat ⟨eulerDeg (Gen.quatToEuler q).x, eulerDeg (Gen.quatToEuler q).y,
      eulerDeg (Gen.quatToEuler q).z⟩) = Gen.rotate v q := by
  rcases eulerToQuat_quatToEuler q hq hs1 hs2 with h | h
  · rw [h]
  · rw [h]; simp only [Gen.rotate]; congr 1 <;> ring

/-- non-vacuity: `(3/5, 4/5, 0, 0)` is a unit quaternion away from gimbal lock -/
example : Q4.normSq (⟨3 / 5, 4 / 5, 0, 0⟩ : Q4 ℝ) = 1
    ∧ (-1 : ℝ) < 2 * ((4 / 5 : ℝ) * 0 + (3 / 5) * 0) ∧ 2 * ((4 / 5 : ℝ) * 0 + (3 / 5) * 0) < (1 : ℝ) := by
  simp only [Q4.normSq]; norm_num

end EulerInv

end Brax.C09
