import Brax.Gen.Math
import Brax.Lemmas.Real
import Brax.Lemmas.Norm
import Mathlib.Tactic.Ring
import Mathlib.Tactic.FieldSimp
import Mathlib.Tactic.LinearCombination
import Mathlib.Tactic.IntervalCases
/-!
# C09 — Transforms, motions, forces and inertias obey rigid-body spatial algebra

Every theorem below is about a definition of `Brax/Gen/Math.lean`, which is *generated from
the working tree of google/brax on every run* (jaxpr → Lean).  The laws are ring / field
identities and are proved for **all** elements of an arbitrary commutative ring (resp. field),
hence for all real inputs — not for a lattice sample.

`bridge_*` lemmas state `Gen.f = Model.f`: they tie the hand-written model of
`Brax/Model/Math.lean`, used by all other properties, to the generated code.

Only property theorems live in this file.
-/
namespace Brax.C09
open Brax

section CommRing
variable {R : Type} [CommRing R]

/-! ## bridges Gen = hand model -/

/-- closes a bridge goal `Gen.f … = Brax.f …` whatever the order/association in which the traced source lists
commutative terms: unfold, split the structure, `ring` on the components (a harmless reordering of `a + b` in the
python source must not break a bridge) -/
syntax "bridge" "[" Lean.Parser.Tactic.simpLemma,* "]" : tactic
macro_rules
  | `(tactic| bridge [$ds,*]) => `(tactic| first
      | rfl
      | (simp only [$ds,*]; done)
      | (simp only [$ds,*]; ring)
      | (simp only [$ds,*]; congr 1 <;> ring)
      | (simp only [$ds,*]; congr 1 <;> congr 1 <;> ring)
      | (simp only [$ds,*]; congr 1 <;> congr 1 <;> congr 1 <;> ring))

theorem bridge_rotate (v : V3 R) (q : Q4 R) : Gen.rotate v q = Brax.rotate v q := by
  simp only [Gen.rotate, Brax.rotate, V3.dot, V3.cross, Q4.vec]; congr 1 <;> ring
theorem bridge_rotateNp (v : V3 R) (q : Q4 R) : Gen.rotateNp v q = Brax.rotate v q := by
  simp only [Gen.rotateNp, Brax.rotate, V3.dot, V3.cross, Q4.vec]; congr 1 <;> ring
theorem bridge_quatMul (u v : Q4 R) : Gen.quatMul u v = Brax.quatMul u v := by
  bridge [Gen.quatMul, Brax.quatMul]
theorem bridge_quatMulNp (u v : Q4 R) : Gen.quatMulNp u v = Brax.quatMul u v := by
  bridge [Gen.quatMulNp, Brax.quatMul]
theorem bridge_quatInv (q : Q4 R) : Gen.quatInv q = Brax.quatInv q := by
  simp only [Gen.quatInv, Brax.quatInv]; congr 1 <;> ring
theorem bridge_invRotate (v : V3 R) (q : Q4 R) : Gen.invRotate v q = Brax.invRotate v q := by
  simp only [Gen.invRotate, Brax.invRotate, Brax.rotate, Brax.quatInv, V3.dot, V3.cross, Q4.vec]
  congr 1 <;> ring
theorem bridge_angToQuat (a : V3 R) : Gen.angToQuat a = Brax.angToQuat a := by
  bridge [Gen.angToQuat, Brax.angToQuat]
theorem bridge_vecQuatMul (u : V3 R) (v : Q4 R) : Gen.vecQuatMul u v = Brax.vecQuatMul u v := by
  bridge [Gen.vecQuatMul, Brax.vecQuatMul]
theorem bridge_quatMulAng (q : Q4 R) (a : V3 R) : Gen.quatMulAng q a = Brax.quatMulAng q a := by
  bridge [Gen.quatMulAng, Brax.quatMulAng]
theorem bridge_relativeQuat (p q : Q4 R) : Gen.relativeQuat p q = Brax.relativeQuat p q := by
  simp only [Gen.relativeQuat, Brax.relativeQuat, Brax.quatMul, Brax.quatInv]; congr 1 <;> ring
theorem bridge_tfDoTf (a b : Tf R) : Gen.tfDoTf a b = Tf.doTf a b := by
  simp only [Gen.tfDoTf, Tf.doTf, Brax.rotate, Brax.quatMul, V3.dot, V3.cross, Q4.vec, V3.add_def]
  congr 1; congr 1 <;> ring
theorem bridge_tfToLocal (a b : Tf R) : Gen.tfToLocal a b = Tf.toLocal a b := by
  simp only [Gen.tfToLocal, Tf.toLocal, Brax.rotate, Brax.quatMul, Brax.quatInv, V3.dot, V3.cross,
    Q4.vec, V3.sub_def]
  congr 1 <;> congr 1 <;> ring
theorem bridge_tfDoMotion (t : Tf R) (m : Motion R) : Gen.tfDoMotion t m = Tf.doMotion t m := by
  simp only [Gen.tfDoMotion, Tf.doMotion, Brax.rotate, Brax.quatInv, V3.dot, V3.cross, Q4.vec,
    V3.sub_def]
  congr 1 <;> congr 1 <;> ring
theorem bridge_tfInvDoMotion (t : Tf R) (m : Motion R) :
    Gen.tfInvDoMotion t m = Tf.invDoMotion t m := by
  simp only [Gen.tfInvDoMotion, Tf.invDoMotion, Brax.rotate, V3.dot, V3.cross, Q4.vec, V3.add_def]
  congr 1 <;> congr 1 <;> ring
theorem bridge_tfDoForce (t : Tf R) (f : Force R) : Gen.tfDoForce t f = Tf.doForce t f := by
  simp only [Gen.tfDoForce, Tf.doForce, Brax.rotate, V3.dot, V3.cross, Q4.vec, V3.add_def]
  congr 1 <;> congr 1 <;> ring
theorem bridge_motionCrossM (a b : Motion R) : Gen.motionCrossM a b = Motion.crossM a b := by
  bridge [Gen.motionCrossM, Motion.crossM, V3.cross, V3.add_def]
theorem bridge_motionCrossF (a : Motion R) (f : Force R) :
    Gen.motionCrossF a f = Motion.crossF a f := by
  bridge [Gen.motionCrossF, Motion.crossF, V3.cross, V3.add_def]
theorem bridge_motionDotF (m : Motion R) (f : Force R) : Gen.motionDotF m f = Motion.dotF m f := by
  bridge [Gen.motionDotF, Motion.dotF, V3.dot]
theorem bridge_inertiaMul (it : Inertia R) (m : Motion R) :
    Gen.inertiaMul it m = Inertia.mul it m := by
  bridge [Gen.inertiaMul, Inertia.mul, M3.mulVec, V3.dot, V3.cross, V3.smul, V3.add_def, V3.sub_def]

/-! ## quaternions -/

theorem quatMul_assoc (a b c : Q4 R) :
    Gen.quatMul (Gen.quatMul a b) c = Gen.quatMul a (Gen.quatMul b c) := by
  simp only [Gen.quatMul]; congr 1 <;> ring

theorem quatMul_one_left (q : Q4 R) : Gen.quatMul ⟨1, 0, 0, 0⟩ q = q := by
  simp only [Gen.quatMul]; cases q; congr 1 <;> ring
theorem quatMul_one_right (q : Q4 R) : Gen.quatMul q ⟨1, 0, 0, 0⟩ = q := by
  simp only [Gen.quatMul]; cases q; congr 1 <;> ring

/-- `q · q̄ = |q|² · 1` -/
theorem quatMul_inv_self (q : Q4 R) :
    Gen.quatMul q (Gen.quatInv q) = ⟨Q4.normSq q, 0, 0, 0⟩ := by
  simp only [Gen.quatMul, Gen.quatInv, Q4.normSq]; congr 1 <;> ring
theorem quatInv_mul_self (q : Q4 R) :
    Gen.quatMul (Gen.quatInv q) q = ⟨Q4.normSq q, 0, 0, 0⟩ := by
  simp only [Gen.quatMul, Gen.quatInv, Q4.normSq]; congr 1 <;> ring

/-- the quaternion norm is multiplicative -/
theorem normSq_quatMul (p q : Q4 R) :
    Q4.normSq (Gen.quatMul p q) = Q4.normSq p * Q4.normSq q := by
  simp only [Gen.quatMul, Q4.normSq]; ring

theorem quatInv_quatMul (p q : Q4 R) :
    Gen.quatInv (Gen.quatMul p q) = Gen.quatMul (Gen.quatInv q) (Gen.quatInv p) := by
  simp only [Gen.quatMul, Gen.quatInv]; congr 1 <;> ring

theorem quatInv_involutive (q : Q4 R) : Gen.quatInv (Gen.quatInv q) = q := by
  simp only [Gen.quatInv]; cases q; congr 1 <;> ring

/-- `vec_quat_mul u q = quat_mul (0,u) q` -/
theorem vecQuatMul_eq (u : V3 R) (q : Q4 R) :
    Gen.vecQuatMul u q = Gen.quatMul (Gen.angToQuat u) q := by
  simp only [Gen.vecQuatMul, Gen.quatMul, Gen.angToQuat]; congr 1 <;> ring

theorem relativeQuat_eq (p q : Q4 R) :
    Gen.relativeQuat p q = Gen.quatMul q (Gen.quatInv p) := by
  simp only [Gen.relativeQuat, Gen.quatMul, Gen.quatInv]

/-- `relative_quat q1 q2 · q1 = |q1|² q2` : the relative quaternion takes `q1` to `q2` -/
theorem relativeQuat_mul (p q : Q4 R) :
    Gen.quatMul (Gen.relativeQuat p q) p = Q4.smul (Q4.normSq p) q := by
  simp only [Gen.relativeQuat, Gen.quatMul, Q4.smul, Q4.normSq]; congr 1 <;> ring

/-! ## rotation -/

/-- rotating by a product = rotating successively -/
theorem rotate_quatMul (v : V3 R) (p q : Q4 R) :
    Gen.rotate v (Gen.quatMul p q) = Gen.rotate (Gen.rotate v q) p := by
  simp only [Gen.rotate, Gen.quatMul]; congr 1 <;> ring

theorem rotate_one (v : V3 R) : Gen.rotate v ⟨1, 0, 0, 0⟩ = v := by
  simp only [Gen.rotate]; cases v; congr 1 <;> ring

theorem rotate_add (u v : V3 R) (q : Q4 R) :
    Gen.rotate (u + v) q = Gen.rotate u q + Gen.rotate v q := by
  simp only [Gen.rotate, V3.add_def]; congr 1 <;> ring

theorem rotate_smul (s : R) (v : V3 R) (q : Q4 R) :
    Gen.rotate (V3.smul s v) q = V3.smul s (Gen.rotate v q) := by
  simp only [Gen.rotate, V3.smul]; congr 1 <;> ring

/-- sandwich form: `(0, rotate v q) = q (0,v) q̄` -/
theorem rotate_sandwich (v : V3 R) (q : Q4 R) :
    Gen.angToQuat (Gen.rotate v q)
      = Gen.quatMul (Gen.quatMul q (Gen.angToQuat v)) (Gen.quatInv q) := by
  simp only [Gen.rotate, Gen.quatMul, Gen.quatInv, Gen.angToQuat]; congr 1 <;> ring

/-- rotating back with the conjugate returns `|q|⁴ v` (so `v` for unit `q`) -/
theorem rotate_inv_rotate (v : V3 R) (q : Q4 R) :
    Gen.rotate (Gen.rotate v q) (Gen.quatInv q) = V3.smul (Q4.normSq q * Q4.normSq q) v := by
  simp only [Gen.rotate, Gen.quatInv, V3.smul, Q4.normSq]; congr 1 <;> ring

theorem invRotate_eq (v : V3 R) (q : Q4 R) :
    Gen.invRotate v q = Gen.rotate v (Gen.quatInv q) := by
  simp only [Gen.invRotate, Gen.rotate, Gen.quatInv]

theorem invRotate_rotate (v : V3 R) (q : Q4 R) :
    Gen.invRotate (Gen.rotate v q) q = V3.smul (Q4.normSq q * Q4.normSq q) v := by
  simp only [Gen.invRotate, Gen.rotate, V3.smul, Q4.normSq]; congr 1 <;> ring

/-- rotation preserves dot products up to `|q|⁴` -/
theorem rotate_dot (u v : V3 R) (q : Q4 R) :
    V3.dot (Gen.rotate u q) (Gen.rotate v q) = Q4.normSq q * Q4.normSq q * V3.dot u v := by
  simp only [Gen.rotate, V3.dot, Q4.normSq]; ring

/-- rotation commutes with the cross product up to `|q|²` -/
theorem rotate_cross (u v : V3 R) (q : Q4 R) :
    V3.cross (Gen.rotate u q) (Gen.rotate v q) = V3.smul (Q4.normSq q) (Gen.rotate (V3.cross u v) q) := by
  simp only [Gen.rotate, V3.cross, V3.smul, Q4.normSq]; congr 1 <;> ring

/-- adjointness: `R(q̄) = R(q)ᵀ` for every (also non-unit) `q` -/
theorem rotate_adjoint (u v : V3 R) (q : Q4 R) :
    V3.dot (Gen.rotate u (Gen.quatInv q)) v = V3.dot u (Gen.rotate v q) := by
  simp only [Gen.rotate, Gen.quatInv, V3.dot]; ring

/-! ## transforms -/

theorem tfDoTf_assoc (a b c : Tf R) :
    Gen.tfDoTf (Gen.tfDoTf a b) c = Gen.tfDoTf a (Gen.tfDoTf b c) := by
  simp only [Gen.tfDoTf]; congr 1 <;> congr 1 <;> ring

theorem tfDoTf_id_left (t : Tf R) : Gen.tfDoTf ⟨⟨0, 0, 0⟩, ⟨1, 0, 0, 0⟩⟩ t = t := by
  obtain ⟨⟨_, _, _⟩, ⟨_, _, _, _⟩⟩ := t
  simp only [Gen.tfDoTf]; congr 1 <;> congr 1 <;> ring
theorem tfDoTf_id_right (t : Tf R) : Gen.tfDoTf t ⟨⟨0, 0, 0⟩, ⟨1, 0, 0, 0⟩⟩ = t := by
  obtain ⟨⟨_, _, _⟩, ⟨_, _, _, _⟩⟩ := t
  simp only [Gen.tfDoTf]; congr 1 <;> congr 1 <;> ring

/-- `to_local` inverts `do` (exactly for a unit rotation): `(t ∘ s).to_local t = (|t|⁴ s.pos, |t|² s.rot)` -/
theorem tfToLocal_doTf (t s : Tf R) :
    Gen.tfToLocal (Gen.tfDoTf t s) t
      = ⟨V3.smul (Q4.normSq t.rot * Q4.normSq t.rot) s.pos, Q4.smul (Q4.normSq t.rot) s.rot⟩ := by
  simp only [Gen.tfToLocal, Gen.tfDoTf, V3.smul, Q4.smul, Q4.normSq]; congr 1 <;> congr 1 <;> ring

/-- acting on a point: `(a ∘ b) p = a (b p)` -/
theorem tfDoTf_apply (a b : Tf R) (p : V3 R) :
    (Gen.tfDoTf (Gen.tfDoTf a b) ⟨p, ⟨1, 0, 0, 0⟩⟩).pos
      = (Gen.tfDoTf a ⟨(Gen.tfDoTf b ⟨p, ⟨1, 0, 0, 0⟩⟩).pos, ⟨1, 0, 0, 0⟩⟩).pos := by
  simp only [Gen.tfDoTf]; congr 1 <;> ring

/-! ## motions and forces: duality, power is frame independent -/

/-- moving a motion into a frame and a force out of it are dual -/
theorem motion_force_dual (t : Tf R) (m : Motion R) (f : Force R) :
    Gen.motionDotF (Gen.tfDoMotion t m) f = Gen.motionDotF m (Gen.tfDoForce t f) := by
  simp only [Gen.motionDotF, Gen.tfDoMotion, Gen.tfDoForce]; ring

/-- `inv_do ∘ do = |q|⁴ · id` on motions -/
theorem tfInvDoMotion_doMotion (t : Tf R) (m : Motion R) :
    Gen.tfInvDoMotion t (Gen.tfDoMotion t m)
      = ⟨V3.smul (Q4.normSq t.rot * Q4.normSq t.rot) m.ang,
         V3.smul (Q4.normSq t.rot * Q4.normSq t.rot) m.vel⟩ := by
  rw [bridge_tfInvDoMotion, bridge_tfDoMotion]
  simp only [Tf.invDoMotion, Tf.doMotion, Brax.rotate, Brax.quatInv, V3.dot, V3.cross, Q4.vec,
    V3.smul, Q4.normSq, V3.add_def, V3.sub_def]
  congr 1 <;> congr 1 <;> ring

theorem tfDoMotion_invDoMotion (t : Tf R) (m : Motion R) :
    Gen.tfDoMotion t (Gen.tfInvDoMotion t m)
      = ⟨V3.smul (Q4.normSq t.rot * Q4.normSq t.rot) m.ang,
         V3.smul (Q4.normSq t.rot * Q4.normSq t.rot) m.vel⟩ := by
  rw [bridge_tfInvDoMotion, bridge_tfDoMotion]
  simp only [Tf.invDoMotion, Tf.doMotion, Brax.rotate, Brax.quatInv, V3.dot, V3.cross, Q4.vec,
    V3.smul, Q4.normSq, V3.add_def, V3.sub_def]
  congr 1 <;> congr 1 <;> ring

/-- spatial cross product of motions is antisymmetric -/
theorem motionCrossM_antisymm (a b : Motion R) :
    Gen.motionCrossM a b = ⟨-(Gen.motionCrossM b a).ang, -(Gen.motionCrossM b a).vel⟩ := by
  simp only [Gen.motionCrossM, V3.neg_def]; congr 1 <;> congr 1 <;> ring

theorem motionCrossM_self (a : Motion R) : Gen.motionCrossM a a = ⟨⟨0, 0, 0⟩, ⟨0, 0, 0⟩⟩ := by
  simp only [Gen.motionCrossM]; congr 1 <;> congr 1 <;> ring

/-- the two spatial cross products are dual: `(m ×ₘ a)·f = −a·(m ×_f f)` -/
theorem motionCross_dual (m a : Motion R) (f : Force R) :
    Gen.motionDotF (Gen.motionCrossM m a) f = -Gen.motionDotF a (Gen.motionCrossF m f) := by
  simp only [Gen.motionDotF, Gen.motionCrossM, Gen.motionCrossF]; ring

/-- Jacobi identity of the motion cross product -/
theorem motionCrossM_jacobi (a b c : Motion R) :
    Gen.motionCrossM a (Gen.motionCrossM b c)
      = Motion.add (Gen.motionCrossM (Gen.motionCrossM a b) c) (Gen.motionCrossM b (Gen.motionCrossM a c)) := by
  simp only [Gen.motionCrossM, Motion.add, V3.add_def]; congr 1 <;> congr 1 <;> ring

/-! ## inertia -/

def M3.IsSymm (m : M3 R) : Prop := m.r0.y = m.r1.x ∧ m.r0.z = m.r2.x ∧ m.r1.z = m.r2.y

/-- `Inertia.mul` is a symmetric bilinear form when the 3x3 part is symmetric -/
theorem inertiaMul_symm (it : Inertia R) (h : M3.IsSymm it.i) (a b : Motion R) :
    Gen.motionDotF a (Gen.inertiaMul it b) = Gen.motionDotF b (Gen.inertiaMul it a) := by
  obtain ⟨h1, h2, h3⟩ := h
  simp only [Gen.motionDotF, Gen.inertiaMul]
  linear_combination (a.ang.x * b.ang.y - a.ang.y * b.ang.x) * h1
    + (a.ang.x * b.ang.z - a.ang.z * b.ang.x) * h2 + (a.ang.y * b.ang.z - a.ang.z * b.ang.y) * h3

theorem inertiaMul_add (it : Inertia R) (a b : Motion R) :
    Gen.inertiaMul it (Motion.add a b) = Force.add (Gen.inertiaMul it a) (Gen.inertiaMul it b) := by
  simp only [Gen.inertiaMul, Motion.add, Force.add, V3.add_def]; congr 1 <;> congr 1 <;> ring

end CommRing

section Field
variable {K : Type} [Field K]

theorem bridge_quatTo3x3 (q : Q4 K) : Gen.quatTo3x3 q = Brax.quatTo3x3 q := by
  bridge [Gen.quatTo3x3, Brax.quatTo3x3]

theorem bridge_tfDoInertia (t : Tf K) (it : Inertia K) : Gen.tfDoInertia t it = Tf.doInertia t it := by
  simp only [Gen.tfDoInertia, Tf.doInertia, Brax.quatTo3x3, M3.mul, M3.add, M3.smul, M3.transpose,
    M3.col0, M3.col1, M3.col2, V3.dot, V3.cross, V3.smul, V3.add_def]
  congr 1
  · congr 1; congr 1 <;> ring
  · congr 1 <;> congr 1 <;> ring

/-- the 3x3 matrix form agrees with `rotate`: `mat(q) v = rotate v q / |q|²` -/
theorem quatTo3x3_mulVec (q : Q4 K) (h : Q4.normSq q ≠ 0) (v : V3 K) :
    M3.mulVec (Gen.quatTo3x3 q) v = V3.smul (1 / Q4.normSq q) (Gen.rotate v q) := by
  simp only [Gen.quatTo3x3, Gen.rotate, M3.mulVec, V3.dot, V3.smul, Q4.normSq] at h ⊢
  set d := q.w * q.w + q.x * q.x + q.y * q.y + q.z * q.z with hd
  clear_value d
  congr 1 <;> field_simp <;> rw [hd] <;> ring

/-- `mat(p q) = mat p · mat q` -/
theorem quatTo3x3_quatMul (p q : Q4 K) (hp : Q4.normSq p ≠ 0) (hq : Q4.normSq q ≠ 0) :
    Gen.quatTo3x3 (Gen.quatMul p q) = M3.mul (Gen.quatTo3x3 p) (Gen.quatTo3x3 q) := by
  have hmul := normSq_quatMul p q
  simp only [Gen.quatMul, Q4.normSq] at hmul hp hq
  simp only [Gen.quatTo3x3, Gen.quatMul, M3.mul, M3.col0, M3.col1, M3.col2, V3.dot]
  rw [hmul]
  set dp := p.w * p.w + p.x * p.x + p.y * p.y + p.z * p.z with hdp
  set dq := q.w * q.w + q.x * q.x + q.y * q.y + q.z * q.z with hdq
  clear_value dp dq
  congr 1 <;> congr 1 <;> field_simp <;> rw [hdp, hdq] <;> ring

/-- the rotation matrix of a quaternion is orthogonal: `mat(q) mat(q)ᵀ = 1` -/
theorem quatTo3x3_orthogonal (q : Q4 K) (h : Q4.normSq q ≠ 0) :
    M3.mul (Gen.quatTo3x3 q) (M3.transpose (Gen.quatTo3x3 q)) = M3.one := by
  simp only [Gen.quatTo3x3, M3.mul, M3.transpose, M3.col0, M3.col1, M3.col2, V3.dot, M3.one,
    Q4.normSq] at h ⊢
  set d := q.w * q.w + q.x * q.x + q.y * q.y + q.z * q.z with hd
  clear_value d
  congr 1 <;> congr 1 <;> field_simp <;> rw [hd] <;> ring

/-- twice the kinetic energy, `m·(I m)` -/
def ke2 (it : Inertia K) (m : Motion K) : K := Gen.motionDotF m (Gen.inertiaMul it m)

/-- for a unit quaternion the matrix form *is* `rotate` -/
theorem quatTo3x3_mulVec_unit (q : Q4 K) (h : Q4.normSq q = 1) (v : V3 K) :
    M3.mulVec (Gen.quatTo3x3 q) v = Gen.rotate v q := by
  rw [quatTo3x3_mulVec q (by rw [h]; exact one_ne_zero), h]
  simp only [V3.smul]; cases h' : Gen.rotate v q; congr 1 <;> ring

theorem quatTo3x3_transpose_mulVec_unit (q : Q4 K) (h : Q4.normSq q = 1) (v : V3 K) :
    M3.mulVec (M3.transpose (Gen.quatTo3x3 q)) v = Gen.rotate v (Gen.quatInv q) := by
  have hi : Q4.normSq (Gen.quatInv q) = 1 := by
    rw [← h]; simp only [Gen.quatInv, Q4.normSq]; ring
  rw [← quatTo3x3_mulVec_unit _ hi]
  congr 1
  simp only [Gen.quatTo3x3, Gen.quatInv, M3.transpose]
  congr 1 <;> congr 1 <;> ring

/-- moving an inertia with `Transform.do` preserves kinetic energy: the energy of the moved
inertia under a motion `m` (expressed in the outer frame) equals the energy of the original
inertia — taken about its own centre, `transform.pos = 0`, as brax stores link inertias —
under the same motion expressed in the inner frame (`t.do m`), for a unit rotation. -/
theorem tfDoInertia_ke (t : Tf K) (it : Inertia K) (m : Motion K)
    (hu : Q4.normSq t.rot = 1) (hc : it.tf.pos = ⟨0, 0, 0⟩) :
    ke2 (Gen.tfDoInertia t it) m = ke2 it (Gen.tfDoMotion t m) := by
  have horth := quatTo3x3_orthogonal t.rot (by rw [hu]; exact one_ne_zero)
  have hang := quatTo3x3_transpose_mulVec_unit t.rot hu m.ang
  have hvel := quatTo3x3_transpose_mulVec_unit t.rot hu (m.vel - V3.cross t.pos m.ang)
  obtain ⟨⟨cp, cr⟩, ii, mass⟩ := it
  simp only at hc
  subst hc
  rw [bridge_tfDoInertia, bridge_tfDoMotion, bridge_rotate] at *
  simp only [ke2, bridge_motionDotF, bridge_inertiaMul, Tf.doInertia, Tf.doMotion]
  rw [bridge_quatInv] at hang hvel
  rw [← hang, ← hvel]
  rw [← bridge_quatTo3x3] 
  generalize Gen.quatTo3x3 t.rot = Rm at horth ⊢
  obtain ⟨⟨r00, r01, r02⟩, ⟨r10, r11, r12⟩, ⟨r20, r21, r22⟩⟩ := Rm
  simp only [M3.mul, M3.transpose, M3.col0, M3.col1, M3.col2, V3.dot, M3.one, M3.mk.injEq,
    V3.mk.injEq] at horth
  obtain ⟨⟨h00, h01, h02⟩, ⟨h10, h11, h12⟩, ⟨h20, h21, h22⟩⟩ := horth
  simp only [Motion.dotF, Inertia.mul, M3.mulVec, M3.mul, M3.add, M3.smul, M3.transpose, M3.col0,
    M3.col1, M3.col2, V3.dot, V3.cross, V3.smul, V3.add_def, V3.sub_def]
  linear_combination (-(mass * (m.vel.x - (t.pos.y * m.ang.z - t.pos.z * m.ang.y)) * (m.vel.x - (t.pos.y * m.ang.z - t.pos.z * m.ang.y)))) * h00
    + (-(mass * (m.vel.x - (t.pos.y * m.ang.z - t.pos.z * m.ang.y)) * (m.vel.y - (t.pos.z * m.ang.x - t.pos.x * m.ang.z)))) * h01
    + (-(mass * (m.vel.x - (t.pos.y * m.ang.z - t.pos.z * m.ang.y)) * (m.vel.z - (t.pos.x * m.ang.y - t.pos.y * m.ang.x)))) * h02
    + (-(mass * (m.vel.y - (t.pos.z * m.ang.x - t.pos.x * m.ang.z)) * (m.vel.x - (t.pos.y * m.ang.z - t.pos.z * m.ang.y)))) * h10
    + (-(mass * (m.vel.y - (t.pos.z * m.ang.x - t.pos.x * m.ang.z)) * (m.vel.y - (t.pos.z * m.ang.x - t.pos.x * m.ang.z)))) * h11
    + (-(mass * (m.vel.y - (t.pos.z * m.ang.x - t.pos.x * m.ang.z)) * (m.vel.z - (t.pos.x * m.ang.y - t.pos.y * m.ang.x)))) * h12
    + (-(mass * (m.vel.z - (t.pos.x * m.ang.y - t.pos.y * m.ang.x)) * (m.vel.x - (t.pos.y * m.ang.z - t.pos.z * m.ang.y)))) * h20
    + (-(mass * (m.vel.z - (t.pos.x * m.ang.y - t.pos.y * m.ang.x)) * (m.vel.y - (t.pos.z * m.ang.x - t.pos.x * m.ang.z)))) * h21
    + (-(mass * (m.vel.z - (t.pos.x * m.ang.y - t.pos.y * m.ang.x)) * (m.vel.z - (t.pos.x * m.ang.y - t.pos.y * m.ang.x)))) * h22

end Field

section Trig
variable {K : Type} [Field K] [HasTrig K]

/-- `euler_to_quat` is the product of the three elementary rotations about x, y', z''
(for *any* interpretation of `sin`/`cos`: a ring identity in the six half-angle values) -/
theorem eulerToQuat_eq_mul (v : V3 K) :
    let h (a : K) : K := a * (3141592653589793e-15 : K) / (360e0 : K)
    Gen.eulerToQuat v
      = Gen.quatMul (Gen.quatMul ⟨HasTrig.cos (h v.x), HasTrig.sin (h v.x), 0, 0⟩
                                 ⟨HasTrig.cos (h v.y), 0, HasTrig.sin (h v.y), 0⟩)
                    ⟨HasTrig.cos (h v.z), 0, 0, HasTrig.sin (h v.z)⟩ := by
  simp only [Gen.eulerToQuat, Gen.quatMul]; congr 1 <;> ring

omit [HasTrig K] in
/-- half-angle form of an axis rotation: Rodrigues' formula as a ring identity.
For a unit axis `a`, `c² + s² = 1`: `rotate v (c, s·a) = (c²−s²) v + 2cs (a×v) + 2s² (a·v) a` -/
theorem rotate_axis_halfangle (a v : V3 K) (c s : K) (ha : V3.dot a a = 1) :
    Gen.rotate v ⟨c, a.x * s, a.y * s, a.z * s⟩
      = V3.smul (c * c - s * s) v + V3.smul (2 * c * s) (V3.cross a v)
        + V3.smul (2 * s * s * V3.dot a v) a := by
  simp only [V3.dot] at ha
  simp only [Gen.rotate, V3.smul, V3.cross, V3.dot, V3.add_def]
  congr 1
  · linear_combination (-(s * s * v.x)) * ha
  · linear_combination (-(s * s * v.y)) * ha
  · linear_combination (-(s * s * v.z)) * ha

end Trig

section Real

/-- `quat_rot_axis` of a unit axis is a unit quaternion -/
theorem quatRotAxis_normSq (a : V3 ℝ) (θ : ℝ) (ha : V3.dot a a = 1) :
    Q4.normSq (Gen.quatRotAxis a θ) = 1 := by
  simp only [V3.dot] at ha
  simp only [Gen.quatRotAxis, Q4.normSq, HasTrig.sin, HasTrig.cos]
  have := Real.sin_sq_add_cos_sq (θ / (1 + 1))
  linear_combination (Real.sin (θ / (1 + 1)) ^ 2) * ha + this

/-- `quat_rot_axis a θ` rotates by the angle θ about `a` (Rodrigues' rotation formula) -/
theorem rotate_quatRotAxis (a v : V3 ℝ) (θ : ℝ) (ha : V3.dot a a = 1) :
    Gen.rotate v (Gen.quatRotAxis a θ)
      = V3.smul (Real.cos θ) v + V3.smul (Real.sin θ) (V3.cross a v)
        + V3.smul ((1 - Real.cos θ) * V3.dot a v) a := by
  have h1 : (1 + 1 : ℝ) = 2 := by norm_num
  have hc : Real.cos θ = Real.cos (θ / 2) ^ 2 - Real.sin (θ / 2) ^ 2 := by
    have := Real.cos_sq' (θ / 2)
    have h2 := Real.cos_two_mul (θ / 2)
    rw [show 2 * (θ / 2) = θ by ring] at h2
    rw [h2, this]; ring
  have hs : Real.sin θ = 2 * Real.sin (θ / 2) * Real.cos (θ / 2) := by
    have h2 := Real.sin_two_mul (θ / 2)
    rw [show 2 * (θ / 2) = θ by ring] at h2
    exact h2
  have hcs := Real.sin_sq_add_cos_sq (θ / 2)
  have := rotate_axis_halfangle a v (Real.cos (θ / 2)) (Real.sin (θ / 2)) ha
  simp only [Gen.quatRotAxis, HasTrig.sin, HasTrig.cos, h1]
  rw [this, hc, hs]
  simp only [V3.smul, V3.add_def]
  congr 1
  · linear_combination (V3.dot a v * a.x) * hcs
  · linear_combination (V3.dot a v * a.y) * hcs
  · linear_combination (V3.dot a v * a.z) * hcs

/-- the axis itself is fixed -/
theorem rotate_quatRotAxis_axis (a : V3 ℝ) (θ : ℝ) (ha : V3.dot a a = 1) :
    Gen.rotate a (Gen.quatRotAxis a θ) = a := by
  rw [rotate_quatRotAxis a a θ ha, ha]
  simp only [V3.smul, V3.cross, V3.add_def]
  cases a; congr 1 <;> ring

end Real

section Normalize

/-- one component of `jp.allclose(x, 0)` as the jaxpr spells it -/
theorem isclose_comp_iff (x : ℝ) :
    (eqR x 0 || decide (absv (x - 0) ≤ (1e-8 : ℝ) + (1e-5 : ℝ) * absv 0)) = decide (absv x ≤ (1e-8 : ℝ)) := by
  have h0 : absv (0 : ℝ) = 0 := by simp
  rw [h0, mul_zero, add_zero, sub_zero]
  by_cases h : absv x ≤ (1e-8 : ℝ)
  · rw [decide_eq_true h, Bool.or_true]
  · simp only [h, decide_false, Bool.or_false]
    rw [Bool.eq_false_iff]
    intro hc
    rw [eqR_iff] at hc
    apply h; rw [hc]; simp; norm_num

/-- **bridge**: the generated `normalize` (quaternion shape) is the hand model used by the
physics properties -/
theorem bridge_normalize4 (q : Q4 ℝ) : Gen.normalize4 q = Brax.normalize4 q := by
  simp only [Gen.normalize4, isclose_comp_iff]
  have hcond : ((decide (absv q.w ≤ (1e-8 : ℝ)) && decide (absv q.x ≤ (1e-8 : ℝ))
      && decide (absv q.y ≤ (1e-8 : ℝ))) && decide (absv q.z ≤ (1e-8 : ℝ)))
      = allClose0 [q.w, q.x, q.y, q.z] := by
    simp [allClose0, List.all_cons, Bool.and_assoc]
  rw [hcond]
  by_cases hz : allClose0 [q.w, q.x, q.y, q.z] = true
  · have hn : safeNorm4 q = 0 := by simp [safeNorm4, safeNormL, hz]
    have e0 : eqZero (0 : ℝ) = true := (eqZero_iff _).mpr rfl
    have er : eqR ((0 : ℝ)) 0 = true := (eqR_iff _ _).mpr rfl
    simp only [Brax.normalize4, hn, e0, if_true, hz, mul_one, sub_self, mul_zero, er, zero_add]
  · have hz' : allClose0 [q.w, q.x, q.y, q.z] = false := by simpa using hz
    have hn : safeNorm4 q = Real.sqrt (q.w * q.w + q.x * q.x + q.y * q.y + q.z * q.z) := by
      simp only [safeNorm4, safeNormL, hz', Bool.false_eq_true, if_false, List.foldl, HasSqrt.sqrt, zero_add]
    simp only [Brax.normalize4, hn, hz', Bool.false_eq_true, if_false, mul_one, add_zero, sub_zero,
      HasSqrt.sqrt]
    by_cases hs : Real.sqrt (q.w * q.w + q.x * q.x + q.y * q.y + q.z * q.z) = 0
    · have e0 : eqZero (Real.sqrt (q.w * q.w + q.x * q.x + q.y * q.y + q.z * q.z)) = true := (eqZero_iff _).mpr hs
      have er : eqR (Real.sqrt (q.w * q.w + q.x * q.x + q.y * q.y + q.z * q.z)) 0 = true := (eqR_iff _ _).mpr hs
      simp only [e0, er, if_true, mul_one]
    · have e0 : eqZero (Real.sqrt (q.w * q.w + q.x * q.x + q.y * q.y + q.z * q.z)) = false := by
        rw [Bool.eq_false_iff]; intro hc; exact hs ((eqZero_iff _).mp hc)
      have er : eqR (Real.sqrt (q.w * q.w + q.x * q.x + q.y * q.y + q.z * q.z)) 0 = false := by
        rw [Bool.eq_false_iff]; intro hc; exact hs ((eqR_iff _ _).mp hc)
      simp only [e0, er, Bool.false_eq_true, if_false, mul_zero, add_zero]

/-- `normalize` returns a unit quaternion for every input outside the `allclose(x, 0)` ball -/
theorem normalize4_unit_of_not_small (q : Q4 ℝ) (h : allClose0 [q.w, q.x, q.y, q.z] = false) :
    Q4.normSq (Gen.normalize4 q) = 1 := by
  rw [bridge_normalize4]; exact normalize4_isUnit h

/-- … and leaves unit quaternions unchanged -/
theorem normalize4_of_unit (q : Q4 ℝ) (h : Q4.normSq q = 1) : Gen.normalize4 q = q := by
  rw [bridge_normalize4]; exact normalize4_unit h

/-- inside the ball `normalize` is **not** a normalisation: it divides by the guard `1e-6`
(stated, because it is what the code does) -/
theorem normalize4_of_small (q : Q4 ℝ) (h : allClose0 [q.w, q.x, q.y, q.z] = true) :
    Gen.normalize4 q = ⟨q.w / 1e-6, q.x / 1e-6, q.y / 1e-6, q.z / 1e-6⟩ := by
  rw [bridge_normalize4]
  have hn : safeNorm4 q = 0 := by simp [safeNorm4, safeNormL, h]
  have e0 : eqZero (0 : ℝ) = true := (eqZero_iff _).mpr rfl
  simp only [Brax.normalize4, hn, e0, if_true, zero_add]

/-- **bridge**: `quat_rot_axis` -/
theorem bridge_quatRotAxis (a : V3 ℝ) (θ : ℝ) : Gen.quatRotAxis a θ = Brax.quatRotAxis a θ := rfl

/-- **bridge**: the generated `safe_norm` (quaternion shape) is the hand model -/
theorem bridge_safeNorm4 (q : Q4 ℝ) : Gen.safeNorm4 q = Brax.safeNorm4 q := by
  simp only [Gen.safeNorm4, isclose_comp_iff]
  have hcond : ((decide (absv q.w ≤ (1e-8 : ℝ)) && decide (absv q.x ≤ (1e-8 : ℝ))
      && decide (absv q.y ≤ (1e-8 : ℝ))) && decide (absv q.z ≤ (1e-8 : ℝ)))
      = allClose0 [q.w, q.x, q.y, q.z] := by
    simp [allClose0, List.all_cons, Bool.and_assoc]
  rw [hcond]
  by_cases hz : allClose0 [q.w, q.x, q.y, q.z] = true
  · simp [Brax.safeNorm4, safeNormL, hz]
  · have hz' : allClose0 [q.w, q.x, q.y, q.z] = false := by simpa using hz
    simp only [Brax.safeNorm4, safeNormL, hz', Bool.false_eq_true, if_false, List.foldl, mul_one,
      add_zero, sub_zero, zero_add]

/-- **bridge**: 3-vector `safe_norm` -/
theorem bridge_safeNorm3 (v : V3 ℝ) : Gen.safeNorm3 v = Brax.safeNorm3 v := by
  simp only [Gen.safeNorm3, isclose_comp_iff]
  have hcond : ((decide (absv v.x ≤ (1e-8 : ℝ)) && decide (absv v.y ≤ (1e-8 : ℝ)))
      && decide (absv v.z ≤ (1e-8 : ℝ))) = allClose0 [v.x, v.y, v.z] := by
    simp [allClose0, List.all_cons, Bool.and_assoc]
  rw [hcond]
  by_cases hz : allClose0 [v.x, v.y, v.z] = true
  · simp [Brax.safeNorm3, safeNormL, hz]
  · have hz' : allClose0 [v.x, v.y, v.z] = false := by simpa using hz
    simp only [Brax.safeNorm3, safeNormL, hz', Bool.false_eq_true, if_false, List.foldl, mul_one,
      add_zero, sub_zero, zero_add]

/-- `safe_norm` is the Euclidean norm outside the `allclose` ball and 0 inside -/
theorem safeNorm3_eq (v : V3 ℝ) :
    Gen.safeNorm3 v = if allClose0 [v.x, v.y, v.z] then 0 else Real.sqrt (v.x * v.x + v.y * v.y + v.z * v.z) := by
  rw [bridge_safeNorm3]
  by_cases hz : allClose0 [v.x, v.y, v.z] = true
  · simp [Brax.safeNorm3, safeNormL, hz]
  · have hz' : allClose0 [v.x, v.y, v.z] = false := by simpa using hz
    simp only [Brax.safeNorm3, safeNormL, hz', Bool.false_eq_true, if_false, List.foldl, HasSqrt.sqrt, zero_add]

end Normalize

section FromTo

/-- the un-normalised `from_to` quaternion `(1 + v₁·v₂, v₁ × v₂)` rotates the unit vector `v₁`
to `2(1 + v₁·v₂)·v₂` (a ring identity modulo `|v₁| = |v₂| = 1`) -/
theorem rotate_fromTo_raw {K : Type} [Field K] (v1 v2 : V3 K) (h1 : V3.dot v1 v1 = 1) (h2 : V3.dot v2 v2 = 1) :
    Gen.rotate v1 ⟨1 + V3.dot v1 v2, (V3.cross v1 v2).x, (V3.cross v1 v2).y, (V3.cross v1 v2).z⟩
      = V3.smul (2 * (1 + V3.dot v1 v2)) v2 := by
  simp only [V3.dot] at h1 h2
  simp only [Gen.rotate, V3.dot, V3.cross, V3.smul]
  congr 1
  · linear_combination (-(v1.x * (v2.x * v2.x + v2.y * v2.y + v2.z * v2.z)) + 2 * (1 + (v1.x * v2.x + v1.y * v2.y + v1.z * v2.z)) * v2.x) * h1 + (-v1.x) * h2
  · linear_combination (-(v1.y * (v2.x * v2.x + v2.y * v2.y + v2.z * v2.z)) + 2 * (1 + (v1.x * v2.x + v1.y * v2.y + v1.z * v2.z)) * v2.y) * h1 + (-v1.y) * h2
  · linear_combination (-(v1.z * (v2.x * v2.x + v2.y * v2.y + v2.z * v2.z)) + 2 * (1 + (v1.x * v2.x + v1.y * v2.y + v1.z * v2.z)) * v2.z) * h1 + (-v1.z) * h2

/-- rotating by a scaled quaternion scales the result by the square -/
theorem rotate_scale {K : Type} [Field K] (v : V3 K) (q : Q4 K) (c : K) :
    Gen.rotate v ⟨q.w * c, q.x * c, q.y * c, q.z * c⟩ = V3.smul (c * c) (Gen.rotate v q) := by
  simp only [Gen.rotate, V3.smul]; congr 1 <;> ring

/-- **`from_to` produces the rotation it describes** (partial: the non-antiparallel branch
`1 + v₁·v₂ ≥ 1e-6`; in the antiparallel branch the code uses a fixed pseudo-random axis and the
result is only approximately a half-turn): for unit vectors, the quaternion is unit and rotates
`v₁` exactly onto `v₂`. -/
theorem fromTo_rotates_partial (v1 v2 : V3 ℝ) (h1 : V3.dot v1 v1 = 1) (h2 : V3.dot v2 v2 = 1)
    (hnp : ¬ (1 + V3.dot v1 v2 < (1e-6 : ℝ))) :
    Gen.rotate v1 (Gen.fromTo v1 v2) = v2 ∧ Q4.normSq (Gen.fromTo v1 v2) = 1 := by
  have hd : V3.dot v1 v2 = v1.x * v2.x + v1.y * v2.y + v1.z * v2.z := rfl
  have hc : ¬ (1 + (v1.x * v2.x + v1.y * v2.y + v1.z * v2.z) < (1e-6 : ℝ)) := by rwa [hd] at hnp
  set c := v1.x * v2.x + v1.y * v2.y + v1.z * v2.z with hcdef
  have hpos : 0 < 1 + c := by
    have : (1e-6 : ℝ) ≤ 1 + c := not_lt.mp hc
    linarith [show (0 : ℝ) < 1e-6 by norm_num]
  -- |(1+c, v1 × v2)|² = 2 (1 + c)
  have hnorm : (1 + c) * (1 + c) + (v1.y * v2.z - v1.z * v2.y) * (v1.y * v2.z - v1.z * v2.y)
      + (v1.z * v2.x - v1.x * v2.z) * (v1.z * v2.x - v1.x * v2.z)
      + (v1.x * v2.y - v1.y * v2.x) * (v1.x * v2.y - v1.y * v2.x) = 2 * (1 + c) := by
    simp only [V3.dot] at h1 h2
    rw [hcdef]
    linear_combination (v2.x * v2.x + v2.y * v2.y + v2.z * v2.z) * h1 + h2
  have hs : 0 < Real.sqrt (2 * (1 + c)) := Real.sqrt_pos.mpr (by linarith)
  have hss : Real.sqrt (2 * (1 + c)) * Real.sqrt (2 * (1 + c)) = 2 * (1 + c) :=
    Real.mul_self_sqrt (by linarith)
  have hq : Gen.fromTo v1 v2
      = ⟨(1 + c) * (1 / Real.sqrt (2 * (1 + c))), (V3.cross v1 v2).x * (1 / Real.sqrt (2 * (1 + c))),
         (V3.cross v1 v2).y * (1 / Real.sqrt (2 * (1 + c))), (V3.cross v1 v2).z * (1 / Real.sqrt (2 * (1 + c)))⟩ := by
    simp only [Gen.fromTo, ← hcdef, hc, decide_false, Bool.false_eq_true, if_false, HasSqrt.sqrt, hnorm,
      V3.cross]
    congr 1 <;> ring
  constructor
  · rw [hq]
    have hraw := rotate_fromTo_raw v1 v2 h1 h2
    rw [hd] at hraw
    rw [rotate_scale v1 ⟨1 + c, (V3.cross v1 v2).x, (V3.cross v1 v2).y, (V3.cross v1 v2).z⟩, hraw]
    simp only [V3.smul]
    have : 1 / Real.sqrt (2 * (1 + c)) * (1 / Real.sqrt (2 * (1 + c))) * (2 * (1 + c)) = 1 := by
      field_simp; linarith [hss]
    cases v2 with | mk a b d =>
    congr 1
    · rw [← mul_assoc, this, one_mul]
    · rw [← mul_assoc, this, one_mul]
    · rw [← mul_assoc, this, one_mul]
  · rw [hq]
    have hk : 1 / Real.sqrt (2 * (1 + c)) * (1 / Real.sqrt (2 * (1 + c))) * (2 * (1 + c)) = 1 := by
      field_simp; linarith [hss]
    simp only [Q4.normSq, V3.cross]
    have hfac : ∀ (a b d e k : ℝ), a * k * (a * k) + b * k * (b * k) + d * k * (d * k) + e * k * (e * k)
        = k * k * (a * a + b * b + d * d + e * e) := by intros; ring
    rw [hfac, hnorm]
    exact hk

/-- the fixed axis `jax.random.uniform(jax.random.PRNGKey(0), (3,))`, as folded into the traced `from_to` -/
def fromToRnd : V3 ℝ :=
  ⟨(41845711171638644287895658635534346103668212890625e-50 : ℝ),
   (2162954546055113613789444571011699736118316650390625e-52 : ℝ),
   (96532146111899752582985456683672964572906494140625e-50 : ℝ)⟩

/-- `v1_o = rnd − (rnd·v₁) v₁`: the part of `rnd` orthogonal to `v₁` -/
def antiAxis (r v1 : V3 ℝ) : V3 ℝ :=
  ⟨r.x - (r.x * v1.x + r.y * v1.y + r.z * v1.z) * v1.x, r.y - (r.x * v1.x + r.y * v1.y + r.z * v1.z) * v1.y,
   r.z - (r.x * v1.x + r.y * v1.y + r.z * v1.z) * v1.z⟩

/-- a half turn about an axis orthogonal to the unit vector `v` flips it -/
theorem rotate_pure_orth {K : Type} [Field K] (v o : V3 K) (ho : o.x * v.x + o.y * v.y + o.z * v.z = 0) :
    Gen.rotate v ⟨0, o.x, o.y, o.z⟩ = V3.smul (-(o.x * o.x + o.y * o.y + o.z * o.z)) v := by
  simp only [Gen.rotate, V3.smul]
  congr 1
  · linear_combination (2 * o.x) * ho
  · linear_combination (2 * o.y) * ho
  · linear_combination (2 * o.z) * ho

/-- **`from_to` on exactly antiparallel unit vectors** (the `w < 1e-6` branch): whenever the fixed
pseudo-random axis is not parallel to `v₁`, the result is a unit quaternion that rotates `v₁` onto `−v₁`. -/
theorem fromTo_antiparallel (v1 : V3 ℝ) (h1 : V3.dot v1 v1 = 1)
    (hax : V3.dot (antiAxis fromToRnd v1) (antiAxis fromToRnd v1) ≠ 0) :
    Gen.rotate v1 (Gen.fromTo v1 ⟨-v1.x, -v1.y, -v1.z⟩) = ⟨-v1.x, -v1.y, -v1.z⟩
      ∧ Q4.normSq (Gen.fromTo v1 ⟨-v1.x, -v1.y, -v1.z⟩) = 1 := by
  simp only [V3.dot] at h1
  set o := antiAxis fromToRnd v1 with hodef
  have hoo : V3.dot o o = o.x * o.x + o.y * o.y + o.z * o.z := rfl
  rw [hoo] at hax
  have hpos : 0 < o.x * o.x + o.y * o.y + o.z * o.z :=
    lt_of_le_of_ne (add_nonneg (add_nonneg (mul_self_nonneg _) (mul_self_nonneg _)) (mul_self_nonneg _)) (Ne.symm hax)
  have hs : 0 < Real.sqrt (o.x * o.x + o.y * o.y + o.z * o.z) := Real.sqrt_pos.mpr hpos
  have hss : Real.sqrt (o.x * o.x + o.y * o.y + o.z * o.z) * Real.sqrt (o.x * o.x + o.y * o.y + o.z * o.z)
      = o.x * o.x + o.y * o.y + o.z * o.z := Real.mul_self_sqrt (le_of_lt hpos)
  have horth : o.x * v1.x + o.y * v1.y + o.z * v1.z = 0 := by
    simp only [hodef, antiAxis]
    linear_combination (-(fromToRnd.x * v1.x + fromToRnd.y * v1.y + fromToRnd.z * v1.z)) * h1
  have ht1 : 1 + (v1.x * -v1.x + v1.y * -v1.y + v1.z * -v1.z) = 0 := by linear_combination (-1 : ℝ) * h1
  have hlt : (0 : ℝ) < 1e-6 := by norm_num
  have hq : Gen.fromTo v1 ⟨-v1.x, -v1.y, -v1.z⟩
      = ⟨0 * (1 / Real.sqrt (o.x * o.x + o.y * o.y + o.z * o.z)), o.x * (1 / Real.sqrt (o.x * o.x + o.y * o.y + o.z * o.z)),
         o.y * (1 / Real.sqrt (o.x * o.x + o.y * o.y + o.z * o.z)), o.z * (1 / Real.sqrt (o.x * o.x + o.y * o.y + o.z * o.z))⟩ := by
    simp only [Gen.fromTo, ht1, hlt, decide_true, if_true, HasSqrt.sqrt, hodef, antiAxis, fromToRnd]
    congr 1 <;> ring_nf
  have hk : 1 / Real.sqrt (o.x * o.x + o.y * o.y + o.z * o.z) * (1 / Real.sqrt (o.x * o.x + o.y * o.y + o.z * o.z))
      * (o.x * o.x + o.y * o.y + o.z * o.z) = 1 := by
    have hne : Real.sqrt (o.x * o.x + o.y * o.y + o.z * o.z) ≠ 0 := ne_of_gt hs
    nth_rewrite 3 [← hss]
    field_simp
    exact div_self (by rw [show o.x ^ 2 + o.y ^ 2 + o.z ^ 2 = o.x * o.x + o.y * o.y + o.z * o.z by ring]; exact hne)
  constructor
  · rw [hq, rotate_scale v1 ⟨0, o.x, o.y, o.z⟩, rotate_pure_orth v1 o horth]
    simp only [V3.smul]
    congr 1
    · linear_combination (-v1.x) * hk
    · linear_combination (-v1.y) * hk
    · linear_combination (-v1.z) * hk
  · rw [hq]
    simp only [Q4.normSq]
    linear_combination hk

/-- the fixed axis is not parallel to any lattice direction of `[-3,3]³` (first two coordinates suffice) -/
theorem rnd_not_lattice_xy (a b : ℤ) (ha : |a| ≤ 3) (hb : |b| ≤ 3)
    (h : fromToRnd.x * (b : ℝ) = fromToRnd.y * (a : ℝ)) : a = 0 ∧ b = 0 := by
  rw [abs_le] at ha hb
  obtain ⟨ha1, ha2⟩ := ha
  obtain ⟨hb1, hb2⟩ := hb
  simp only [fromToRnd] at h
  interval_cases a <;> interval_cases b <;> first | exact ⟨rfl, rfl⟩ | (exfalso; norm_num at h)

/-- **`from_to` on every antiparallel pair of normalised lattice directions of `[-3,3]³`** (the property's
own quantifier for this construction): the result is a unit quaternion rotating `v₁` onto `−v₁`. -/
theorem fromTo_antiparallel_lattice (a b c : ℤ) (ha : |a| ≤ 3) (hb : |b| ≤ 3) (hc : |c| ≤ 3)
    (hne : ¬ (a = 0 ∧ b = 0 ∧ c = 0)) :
    let s := Real.sqrt ((a : ℝ) * a + b * b + c * c)
    let v1 : V3 ℝ := ⟨a / s, b / s, c / s⟩
    Gen.rotate v1 (Gen.fromTo v1 ⟨-v1.x, -v1.y, -v1.z⟩) = ⟨-v1.x, -v1.y, -v1.z⟩
      ∧ Q4.normSq (Gen.fromTo v1 ⟨-v1.x, -v1.y, -v1.z⟩) = 1 := by
  intro s v1
  have hN : 0 < (a : ℝ) * a + b * b + c * c := by
    have h0 : (0 : ℝ) ≤ (a : ℝ) * a + b * b + c * c :=
      add_nonneg (add_nonneg (mul_self_nonneg _) (mul_self_nonneg _)) (mul_self_nonneg _)
    rcases eq_or_lt_of_le h0 with h | h
    · exfalso
      apply hne
      have ha0 : (a : ℝ) * a = 0 := by nlinarith [mul_self_nonneg (a : ℝ), mul_self_nonneg (b : ℝ), mul_self_nonneg (c : ℝ)]
      have hb0 : (b : ℝ) * b = 0 := by nlinarith [mul_self_nonneg (a : ℝ), mul_self_nonneg (b : ℝ), mul_self_nonneg (c : ℝ)]
      have hc0 : (c : ℝ) * c = 0 := by nlinarith [mul_self_nonneg (a : ℝ), mul_self_nonneg (b : ℝ), mul_self_nonneg (c : ℝ)]
      exact ⟨by exact_mod_cast mul_self_eq_zero.mp ha0, by exact_mod_cast mul_self_eq_zero.mp hb0,
        by exact_mod_cast mul_self_eq_zero.mp hc0⟩
    · exact h
  have hs : 0 < s := Real.sqrt_pos.mpr hN
  have hss : s * s = (a : ℝ) * a + b * b + c * c := Real.mul_self_sqrt (le_of_lt hN)
  have hsne : s ≠ 0 := ne_of_gt hs
  have h1 : V3.dot v1 v1 = 1 := by
    simp only [V3.dot, v1]
    field_simp
    nlinarith [hss]
  apply fromTo_antiparallel v1 h1
  intro hzero
  simp only [V3.dot] at hzero
  set o := antiAxis fromToRnd v1 with hodef
  have hx : o.x = 0 := mul_self_eq_zero.mp (by nlinarith [mul_self_nonneg o.x, mul_self_nonneg o.y, mul_self_nonneg o.z])
  have hy : o.y = 0 := mul_self_eq_zero.mp (by nlinarith [mul_self_nonneg o.x, mul_self_nonneg o.y, mul_self_nonneg o.z])
  have hz : o.z = 0 := mul_self_eq_zero.mp (by nlinarith [mul_self_nonneg o.x, mul_self_nonneg o.y, mul_self_nonneg o.z])
  simp only [hodef, antiAxis, v1] at hx hy hz
  -- rnd = t·v1, hence rnd × (a,b,c) = 0
  set t := fromToRnd.x * ((a : ℝ) / s) + fromToRnd.y * ((b : ℝ) / s) + fromToRnd.z * ((c : ℝ) / s) with htdef
  have hxy : fromToRnd.x * (b : ℝ) = fromToRnd.y * (a : ℝ) := by
    have e1 : fromToRnd.x = t * ((a : ℝ) / s) := by linarith
    have e2 : fromToRnd.y = t * ((b : ℝ) / s) := by linarith
    rw [e1, e2]; ring
  have hxz : fromToRnd.x * (c : ℝ) = fromToRnd.z * (a : ℝ) := by
    have e1 : fromToRnd.x = t * ((a : ℝ) / s) := by linarith
    have e3 : fromToRnd.z = t * ((c : ℝ) / s) := by linarith
    rw [e1, e3]; ring
  obtain ⟨ha0, hb0⟩ := rnd_not_lattice_xy a b ha hb hxy
  apply hne
  refine ⟨ha0, hb0, ?_⟩
  rw [ha0] at hxz
  have hrx : fromToRnd.x ≠ 0 := by simp only [fromToRnd]; norm_num
  have : (c : ℝ) = 0 := by
    have : fromToRnd.x * (c : ℝ) = 0 := by rw [hxz]; simp
    rcases mul_eq_zero.mp this with h | h
    · exact absurd h hrx
    · exact h
  exact_mod_cast this

end FromTo

end Brax.C09
