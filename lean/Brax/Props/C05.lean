import Brax.Lemmas.KinEquiv
import Brax.Lemmas.ScanSpec
import Brax.Lemmas.C05Spring
/-!
# C05 — physics does not depend on how the scene is represented

Proved here (for every forest, of any size):

* `forward_equivariant` — rotating and translating the root coordinates of a free-rooted system
  by any rigid transform `g` transforms every link's world pose by `g` and rotates every world
  velocity; joint coordinates of non-root links are untouched (they are the same inputs).
* `scan_sibling_permutation` — relabelling the links by any permutation that keeps parents
  before children permutes the results of every per-link tree recursion accordingly.
* `components_independent` — for the disjoint union of two forests every per-link tree recursion
  is the concatenation of the two separate ones.

The last two are statements about the tree recursion `Kin.scanFwd` that *every* root-to-leaf
`scan.tree` computation of brax instantiates (kinematics `world`, `cd` of the generalized
pipeline, …), tied to the real `scan.tree` by the exact Layer-B correspondence.

* `spring_step_equivariant`, `spring_steps_equivariant`, `spring_init_equivariant`,
  `spring_trajectory_equivariant` (bottom of the file; stage lemmas in `Lemmas/C05Spring.lean`) —
  `spring.pipeline.init` and any number of contact-free `spring.pipeline.step`s commute with a rigid
  transform `g` of the whole scene (state and gravity), field by field.

Not proved (tied by the correspondence / observed by the search only): equivariance of a full
`pipeline.step` of the positional and generalized pipelines (`…Stmt` below).
-/
set_option linter.unusedSectionVars false
namespace Brax.C05
open Brax Kin KinPos KinVel KinEquiv

/-- the transformed inputs are related to the original ones link by link -/
theorem zip_rel_xform (g : Tf ℝ) (ps : List Int) (lks : List (LinkP ℝ)) (ins : List (LinkIn ℝ))
    (hok : ∀ x ∈ ps.zip (lks.zip ins), LinkOK x.1 x.2.1 x.2.2 ∧ (x.1 < 0 → x.2.2.typ = .free)) :
    List.Forall₂ (fun (x y : Int × (Tf ℝ × Motion ℝ)) =>
        x.1 = y.1 ∧ ∃ lk l, x.2 = linkArg (lk, l) ∧ y.2 = linkArg (lk, xformIn g l)
          ∧ LinkOK x.1 lk l ∧ (x.1 < 0 → l.typ = .free))
      (ps.zip ((lks.zip ins).map linkArg)) (ps.zip ((lks.zip (ins.map (xformIn g))).map linkArg)) := by
  induction ps generalizing lks ins with
  | nil => simp
  | cons p ps ih =>
    cases lks with
    | nil => simp
    | cons lk lks =>
      cases ins with
      | nil => simp
      | cons l ins =>
        simp only [List.zip_cons_cons, List.map_cons]
        have h0 := hok (p, lk, l) (by simp)
        refine List.Forall₂.cons ⟨rfl, lk, l, rfl, rfl, h0.1, h0.2⟩ (ih lks ins ?_)
        intro x hx; exact hok x (by simp [hx])

/-- **C05, rigid transform of the scene (kinematics).**  For a system all of whose roots are free,
transforming the root coordinates by a rigid transform `g` (unit quaternion): every link's world
transform is composed with `g` and every world velocity is rotated by `g`. -/
theorem forward_equivariant (s : Sys ℝ) (ins : List (LinkIn ℝ)) (g : Tf ℝ) (hg : g.rot.IsUnit)
    (hwf : ParentsWF s.parents)
    (hok : ∀ x ∈ s.parents.zip (s.links.zip ins),
      LinkOK x.1 x.2.1 x.2.2 ∧ (x.1 < 0 → x.2.2.typ = .free)) :
    forwardIns s (ins.map (xformIn g))
      = (forwardIns s ins).map (fun x => (Tf.doTf g x.1, rotM g x.2)) := by
  have hunit := forwardRaw_unit s.parents (s.links.zip ins) (fun x hx => (hok x hx).1)
  have hrel := scanFwd_rel_wf
    (fun (x y : Tf ℝ × Motion ℝ) => y = (Tf.doTf g x.1, rotM g x.2))
    (fun p (a b : Tf ℝ × Motion ℝ) => ∃ lk l, a = linkArg (lk, l) ∧ b = linkArg (lk, xformIn g l)
      ∧ LinkOK p lk l ∧ (p < 0 → l.typ = .free))
    world world
    (by
      intro p par par' a b hpar hS hroot
      obtain ⟨lk, l, ha, hb, hk, hfr⟩ := hS
      subst ha hb
      cases hpar with
      | none =>
        have hp : p < 0 := hroot.mpr rfl
        exact world_root_equiv g p lk l hk (hfr hp)
      | @some x y hxy =>
        subst hxy
        have hnf : l.typ ≠ .free := by
          intro hfree
          have h1 := (hk.free hfree).1
          have h2 := hroot.mp h1
          cases h2
        rw [xformIn_nonfree g l hnf]
        obtain ⟨x1, x2⟩ := x
        exact world_child_equiv g hg x1 x2 _)
    s.parents _ _ hwf (zip_rel_xform g s.parents s.links ins hok)
  unfold forwardIns
  generalize scanFwd world s.parents ((s.links.zip ins).map linkArg) = xs at hrel hunit
  generalize scanFwd world s.parents ((s.links.zip (ins.map (xformIn g))).map linkArg) = ys at hrel
  induction hrel with
  | nil => rfl
  | @cons x y xs ys hxy _ ih =>
    simp only [List.map_cons]
    rw [ih (fun z hz => hunit z (List.mem_cons_of_mem _ hz))]
    congr 1
    subst hxy
    have hu := hunit x (List.mem_cons_self)
    have hu' : (Tf.doTf g x.1).rot.IsUnit := by
      simp only [Tf.doTf]; exact Q4.IsUnit.mul hg hu
    simp only [normalize4_unit hu, normalize4_unit hu']

/-- joint coordinates of non-root links are inputs that the transform leaves untouched -/
theorem xform_keeps_joint_coordinates (g : Tf ℝ) (l : LinkIn ℝ) (h : l.typ ≠ .free) :
    (xformIn g l).q = l.q ∧ (xformIn g l).qd = l.qd := by
  rw [xformIn_nonfree g l h]; exact ⟨rfl, rfl⟩

/-- **C05, sibling order.**  Relabelling the links by any `σ` (inverse `τ`) under which parents
still precede children permutes the per-link results of every root-to-leaf tree recursion. -/
theorem scan_sibling_permutation {β γ : Type} (f : Option β → γ → β) (ps : List Int) (as : List γ)
    (d : γ) (n : Nat) (hps : ps.length = n) (has : as.length = n) (σ τ : Nat → Nat)
    (hσ : ∀ k, k < n → σ k < n) (hτσ : ∀ k, k < n → τ (σ k) = k) (hστ : ∀ i, i < n → σ (τ i) = i)
    (hτ : ∀ i, i < n → τ i < n)
    (hwf : ParentsWF ps) (hwf' : ParentsWF (permParents n σ τ ps)) :
    ∀ k, k < n → (scanFwd f (permParents n σ τ ps) (permArgs n σ as d))[k]?
      = (scanFwd f ps as)[σ k]? :=
  scanFwd_perm f ps as d n hps has σ τ hσ hτσ hστ hτ hwf hwf'

/-- **C05, mechanically disconnected parts.**  For the disjoint union of two forests every
root-to-leaf tree recursion is the concatenation of the two separate ones. -/
theorem components_independent {β γ : Type} (f : Option β → γ → β) (ps1 ps2 : List Int)
    (as1 as2 : List γ) (h1 : ps1.length = as1.length) (h2 : ps2.length = as2.length)
    (hwf2 : ParentsWF ps2) :
    scanFwd f (ps1 ++ shiftParents ps1.length ps2) (as1 ++ as2)
      = scanFwd f ps1 as1 ++ scanFwd f ps2 as2 :=
  scanFwd_disjoint_union f ps1 ps2 as1 as2 h1 h2 hwf2

/-- non-vacuity of the permutation theorem: swapping the two children of a root -/
example : ParentsWF [-1, 0, 0] ∧ ParentsWF (permParents 3 (fun k => [0, 2, 1].getD k 0)
    (fun i => [0, 2, 1].getD i 0) [-1, 0, 0]) := by
  constructor
  · intro i hi
    match i, hi with
    | 0, _ => simp [permParents]
    | 1, _ => simp [permParents]
    | 2, _ => simp [permParents]
  · intro i hi
    match i, hi with
    | 0, _ => simp [permParents]
    | 1, _ => simp [permParents]
    | 2, _ => simp [permParents]

/-! Full statement (kept visible): one `pipeline.step` of each native pipeline commutes with `g`
on contact-free scenes.  `forward_equivariant` is the kinematics part of it.  For the **spring**
pipeline it is proved below (`spring_step_equivariant` … `spring_trajectory_equivariant`).  For the
positional and generalized pipelines the dynamics part is still tied by the correspondence and
observed by the search only.

def step_equivariant_Stmt : Prop :=
  ∀ pipeline sys state ctrl g, step (g • sys) (g • state) ctrl = g • step sys state ctrl
-/

/-! ## The spring pipeline: `init` and `step` commute with a rigid transform of the scene

`g • sys = gSys g sys` (gravity rotated), `g • state = gState g sys state q' qd'` (`Lemmas/C05Spring.lean`):
`x, x_i, a_c ↦ g ∘ ·`; `xd, xd_i ↦ R_g ·` (both parts); `i_inv ↦ R_g · R_gᵀ`; `mass` unchanged;
`j`, `jd`, `a_p` of **non-root** links: `j`, `jd` unchanged, `a_p ↦ g ∘ a_p`; of **root** links:
`a_p` unchanged (it is `link.transform ∘ link.joint` in the fixed world frame — `world_to_joint`
recomputes it from the system alone), `j`, `jd` recomputed from the transformed child anchor and world
velocity by the root formulas of `world_to_joint` (for `a_p = identity`, as for a free link loaded
from MJCF, that is `j ↦ g ∘ j`, `jd ↦ R_g jd`: `gJ_root_id`, `gJd_root_id`).
`q'`, `qd'` are the generalized coordinates of the transformed state; `step` reads them only
through `actuator.to_tau`, so all that is needed is `ActAgree` (they agree with `q`, `qd` at the
actuated coordinates — a rigid transform changes only the coordinates of the free roots).

Hypotheses, and why each is needed:
* `g.rot.IsUnit` — `g` is a rigid transform (`rotate · g.rot` is a rotation only for unit `g.rot`);
* `FreeRooted s` — a forest whose roots are all free links: a hinge/slide attached to the world is
  anchored at a fixed world point, so moving the scene is *not* a symmetry for it;
* `s.links.length = s.numLinks`, `State.WF s st` — the shape guards (`Sys.WF`, `State.WF`) the driver
  checks on every input (outside an array the model returns `Transform.zero`, which `g` moves);
* `ActAgree` — see above.
No hypothesis on unit quaternions in the state, on masses or on the time step is needed; over ℝ the
normalisation `rot / ‖rot‖` is total (`x / 0 = 0`), where the float code would give NaN on both sides. -/
section spring
open C05L C04L MC

/-- **C05, one contact-free spring step commutes with the rigid transform `g`** — equality of
whole states; `q`, `qd` of the result are `kinematics.inverse` (`inv`) of the transformed `j`, `jd`. -/
theorem spring_step_equivariant (inv : List (Tf ℝ) → List (Motion ℝ) → List ℝ × List ℝ)
    (g : Tf ℝ) (hg : g.rot.IsUnit) (s : Sys ℝ) (st : Spring.State ℝ) (act q' qd' : List ℝ)
    (hfr : FreeRooted s) (hlinks : s.links.length = s.numLinks)
    (hwf : Spring.State.WF s st = true) (hact : ActAgree s st.q st.qd q' qd') :
    Spring.step inv (fun _ => []) (gSys g s) (gState g s st q' qd') act
      = gState g s (Spring.step inv (fun _ => []) s st act)
          (inv (gJ g s.parents (Spring.step inv (fun _ => []) s st act).a_p
                  (Spring.step inv (fun _ => []) s st act).a_c
                  (Spring.step inv (fun _ => []) s st act).j)
               (gJd g s.parents (Spring.step inv (fun _ => []) s st act).a_p
                  (Spring.step inv (fun _ => []) s st act).xd
                  (Spring.step inv (fun _ => []) s st act).jd)).1
          (inv (gJ g s.parents (Spring.step inv (fun _ => []) s st act).a_p
                  (Spring.step inv (fun _ => []) s st act).a_c
                  (Spring.step inv (fun _ => []) s st act).j)
               (gJd g s.parents (Spring.step inv (fun _ => []) s st act).a_p
                  (Spring.step inv (fun _ => []) s st act).xd
                  (Spring.step inv (fun _ => []) s st act).jd)).2 :=
  C05L.spring_step_equivariant g hg s st act q' qd' hfr (LenOK.of_wf hwf) hact inv hlinks

/-- the same, read field by field (the property's wording): link poses are composed with `g`, link
velocities rotated, joint coordinates of non-root links unchanged -/
theorem spring_step_equivariant_fields (inv : List (Tf ℝ) → List (Motion ℝ) → List ℝ × List ℝ)
    (g : Tf ℝ) (hg : g.rot.IsUnit) (s : Sys ℝ) (st : Spring.State ℝ) (act q' qd' : List ℝ)
    (hfr : FreeRooted s) (hlinks : s.links.length = s.numLinks)
    (hwf : Spring.State.WF s st = true) (hact : ActAgree s st.q st.qd q' qd') :
    let o := Spring.step inv (fun _ => []) s st act
    let o' := Spring.step inv (fun _ => []) (gSys g s) (gState g s st q' qd') act
    o'.x = o.x.map (Tf.doTf g) ∧ o'.xd = o.xd.map (rotM g)
    ∧ o'.x_i = o.x_i.map (Tf.doTf g) ∧ o'.xd_i = o.xd_i.map (rotM g)
    ∧ o'.a_c = o.a_c.map (Tf.doTf g) ∧ o'.a_p = gAp g s.parents o.a_p
    ∧ o'.i_inv = o.i_inv.map (conjM g.rot) ∧ o'.mass = o.mass
    ∧ (∀ i, i < s.numLinks → ¬ parentOf s.parents i < 0 →
        nth o'.j i = nth o.j i ∧ nth o'.jd i = nth o.jd i)
    ∧ o'.q = (inv o'.j o'.jd).1 ∧ o'.qd = (inv o'.j o'.jd).2 := by
  intro o o'
  have hq : o'.q = (inv o'.j o'.jd).1 := step_q inv _ _ _ _
  have hqd : o'.qd = (inv o'.j o'.jd).2 := step_qd inv _ _ _ _
  have hm : o'.mass = o.mass := by
    rw [step_mass, step_mass, gState_mass]
  have h : o' = gState g s o _ _ :=
    spring_step_equivariant inv g hg s st act q' qd' hfr hlinks hwf hact
  clear_value o o'
  refine ⟨?_, ?_, ?_, ?_, ?_, ?_, ?_, hm, ?_, hq, hqd⟩
  · rw [h]; rfl
  · rw [h]; rfl
  · rw [h]; rfl
  · rw [h]; rfl
  · rw [h]; rfl
  · rw [h]; rfl
  · rw [h]; rfl
  · intro i hi' hr
    have hi'' : i < s.parents.length := by rw [hfr.hlen]; exact hi'
    have hj : o'.j = gJ g s.parents o.a_p o.a_c o.j := by rw [h]; rfl
    have hjd : o'.jd = gJd g s.parents o.a_p o.xd o.jd := by rw [h]; rfl
    rw [hj, hjd]
    exact ⟨gJ_nonroot g _ _ _ _ hi'' hr, gJd_nonroot g _ _ _ _ hi'' hr⟩

/-- **C05, any number of contact-free spring steps** (`InvLocal`: `kinematics.inverse` computes the
actuated coordinates from the rows of non-root links only) -/
theorem spring_steps_equivariant (inv : List (Tf ℝ) → List (Motion ℝ) → List ℝ × List ℝ)
    (g : Tf ℝ) (hg : g.rot.IsUnit) (s : Sys ℝ) (hfr : FreeRooted s)
    (hlinks : s.links.length = s.numLinks) (hinv : InvLocal s inv) (acts : List (List ℝ))
    (st : Spring.State ℝ) (q' qd' : List ℝ) (hwf : Spring.State.WF s st = true)
    (hact : ActAgree s st.q st.qd q' qd') :
    ∃ q'' qd'', steps inv (gSys g s) (gState g s st q' qd') acts
        = gState g s (steps inv s st acts) q'' qd''
      ∧ ActAgree s (steps inv s st acts).q (steps inv s st acts).qd q'' qd'' :=
  C05L.spring_steps_equivariant g hg s inv hfr hlinks hinv acts st q' qd' (LenOK.of_wf hwf) hact

/-- **C05, `spring.pipeline.init` commutes with the rigid transform**: for the root coordinates
transformed by `xformIn g` (the transform `forward_equivariant` is about), the initial state is the
transform of the initial state -/
theorem spring_init_equivariant (g : Tf ℝ) (hg : g.rot.IsUnit) (s : Sys ℝ) (q qd q' qd' : List ℝ)
    (hfr : FreeRooted s) (hlinks : s.links.length = s.numLinks) (hpw : ParentsWF s.parents)
    (hok : ∀ x ∈ s.parents.zip (s.links.zip (linkSlices s.types q qd s.dofs)),
      LinkOK x.1 x.2.1 x.2.2 ∧ (x.1 < 0 → x.2.2.typ = .free))
    (hq : linkSlices s.types q' qd' s.dofs = (linkSlices s.types q qd s.dofs).map (xformIn g)) :
    Spring.init (gSys g s) q' qd' = gState g s (Spring.init s q qd) q' qd' := by
  apply init_equiv_of_forward g hg s q qd q' qd' hfr hlinks
  rw [forward_eq_forwardIns, forward_eq_forwardIns, hq]
  exact forward_equivariant s _ g hg hpw hok

/-- **C05, spring pipeline, whole trajectories from `init`**: `init` followed by any number of
contact-free steps, on the transformed coordinates in the transformed system, is the transform of
the original trajectory's end state -/
theorem spring_trajectory_equivariant (inv : List (Tf ℝ) → List (Motion ℝ) → List ℝ × List ℝ)
    (g : Tf ℝ) (hg : g.rot.IsUnit) (s : Sys ℝ) (q qd q' qd' : List ℝ) (acts : List (List ℝ))
    (hfr : FreeRooted s) (hlinks : s.links.length = s.numLinks) (hpw : ParentsWF s.parents)
    (hinv : InvLocal s inv)
    (hok : ∀ x ∈ s.parents.zip (s.links.zip (linkSlices s.types q qd s.dofs)),
      LinkOK x.1 x.2.1 x.2.2 ∧ (x.1 < 0 → x.2.2.typ = .free))
    (hq : linkSlices s.types q' qd' s.dofs = (linkSlices s.types q qd s.dofs).map (xformIn g))
    (hact : ActAgree s q qd q' qd') :
    ∃ q'' qd'', steps inv (gSys g s) (Spring.init (gSys g s) q' qd') acts
        = gState g s (steps inv s (Spring.init s q qd) acts) q'' qd''
      ∧ ActAgree s (steps inv s (Spring.init s q qd) acts).q
          (steps inv s (Spring.init s q qd) acts).qd q'' qd'' := by
  rw [spring_init_equivariant g hg s q qd q' qd' hfr hlinks hpw hok hq]
  exact C05L.spring_steps_equivariant g hg s inv hfr hlinks hinv acts _ q' qd'
    (LenOK.init s q qd hlinks hfr.hlen) hact

/-! ### non-vacuity: a free root carrying a hinged, actuated child; `g` = rotation by
`2·atan(4/3)` about `z` (unit quaternion `(3/5, 0, 0, 4/5)`) followed by a translation -/

/-- a link with identity `transform`/`joint`, unit mass and inertia -/
noncomputable def exLink : LinkP ℝ := ⟨Tf.id, Tf.id, ⟨Tf.id, M3.one, 1⟩, 1, 100, 1, 100, 1⟩
noncomputable def exDof (ang vel : V3 ℝ) : DofP ℝ := ⟨⟨ang, vel⟩, 0, 0, 0, none, none, 1⟩
/-- free root (link 0) with a child (link 1) on a hinge about `z`, driven by one motor -/
noncomputable def exSys : Sys ℝ :=
  { types := [.free, .one], parents := [-1, 0], links := [exLink, exLink],
    dofs := [exDof ⟨0, 0, 0⟩ ⟨1, 0, 0⟩, exDof ⟨0, 0, 0⟩ ⟨0, 1, 0⟩, exDof ⟨0, 0, 0⟩ ⟨0, 0, 1⟩,
             exDof ⟨1, 0, 0⟩ ⟨0, 0, 0⟩, exDof ⟨0, 1, 0⟩ ⟨0, 0, 0⟩, exDof ⟨0, 0, 1⟩ ⟨0, 0, 0⟩,
             exDof ⟨0, 0, 1⟩ ⟨0, 0, 0⟩],
    hasLimit := false, acts := [⟨7, 6, none, none, none, none, 1, 1, 0, 0⟩],
    gravity := ⟨0, 0, -9.81⟩, dt := 0.01, velDamping := 0, angDamping := 0, baumgarteErp := 0.1,
    springMassScale := 0, springInertiaScale := 0, jointScaleAng := 0.2, jointScalePos := 0.5,
    collideScale := 1 }
noncomputable def exG : Tf ℝ := ⟨⟨1, -2, 3⟩, ⟨3/5, 0, 0, 4/5⟩⟩
noncomputable def exState : Spring.State ℝ :=
  { q := [0, 0, 1, 1, 0, 0, 0, 0.3], qd := [0, 0, 0, 0, 0, 0, 0.1],
    x := [⟨⟨0, 0, 1⟩, Q4.one⟩, ⟨⟨1, 0, 1⟩, Q4.one⟩], xd := [⟨⟨0, 0, 0⟩, ⟨0, 0, 0⟩⟩, ⟨⟨0, 0, 0.1⟩, ⟨0, 0, 0⟩⟩],
    x_i := [⟨⟨0, 0, 1⟩, Q4.one⟩, ⟨⟨1, 0, 1⟩, Q4.one⟩],
    xd_i := [⟨⟨0, 0, 0⟩, ⟨0, 0, 0⟩⟩, ⟨⟨0, 0, 0.1⟩, ⟨0, 0, 0⟩⟩],
    j := [⟨⟨0, 0, 1⟩, Q4.one⟩, ⟨⟨0, 0, 0⟩, Q4.one⟩], jd := [⟨⟨0, 0, 0⟩, ⟨0, 0, 0⟩⟩, ⟨⟨0, 0, 0.1⟩, ⟨0, 0, 0⟩⟩],
    a_p := [Tf.id, ⟨⟨0, 0, 1⟩, Q4.one⟩], a_c := [⟨⟨0, 0, 1⟩, Q4.one⟩, ⟨⟨1, 0, 1⟩, Q4.one⟩],
    i_inv := [M3.one, M3.one], mass := [1, 1] }

theorem exSys_freeRooted : FreeRooted exSys where
  hlen := rfl
  hpar := by
    intro i hi
    have hi' : i < 2 := hi
    match i, hi' with
    | 0, _ => simp [parentOf, exSys]
    | 1, _ => simp [parentOf, exSys]
  hroot := by
    intro i hi hp
    have hi' : i < 2 := hi
    match i, hi' with
    | 0, _ => simp [exSys]
    | 1, _ => simp [parentOf, exSys] at hp

/-- the hypotheses of `spring_step_equivariant` hold for this system, state and transform (the
transformed state's `q'`, `qd'` have the root coordinates changed and the hinge angle/rate kept) -/
example : exG.rot.IsUnit ∧ FreeRooted exSys ∧ exSys.links.length = exSys.numLinks
    ∧ Spring.State.WF exSys exState = true
    ∧ ActAgree exSys exState.q exState.qd [1, -2, 4, 3/5, 0, 0, 4/5, 0.3] [0, 0, 0, 0, 0, 0, 0.1] := by
  refine ⟨?_, exSys_freeRooted, rfl, ?_, ?_⟩
  · simp only [Q4.IsUnit, Q4.normSq, exG]; norm_num
  · simp [Spring.State.WF, exSys, exState, Sys.numLinks, Sys.nq, Sys.nv, LinkType.qWidth, LinkType.qdWidth]
  · intro a ha
    simp only [exSys, List.mem_singleton] at ha
    subst ha
    simp [nthS, exState]

/-- `InvLocal` is satisfiable with an `inv` that really reads the hinge row -/
example : InvLocal exSys (fun j jd =>
    ([0, 0, 0, 1, 0, 0, 0, (nth j 1).pos.x], [0, 0, 0, 0, 0, 0, (nth jd 1).ang.z])) := by
  intro j j' jd jd' h a ha
  simp only [exSys, List.mem_singleton] at ha
  subst ha
  obtain ⟨h1, h2⟩ := h 1 (by show 1 < 2; omega) (by simp [parentOf, exSys])
  simp [nthS, h1, h2]

/-- a single free body -/
noncomputable def exSys1 : Sys ℝ :=
  { exSys with types := [.free], parents := [-1], links := [exLink], dofs := exSys.dofs.take 6, acts := [] }

theorem exSys1_freeRooted : FreeRooted exSys1 where
  hlen := rfl
  hpar := by
    intro i hi
    have hi' : i < 1 := hi
    match i, hi' with
    | 0, _ => simp [parentOf, exSys1]
  hroot := by
    intro i hi hp
    have hi' : i < 1 := hi
    match i, hi' with
    | 0, _ => simp [exSys1]

/-- the hypotheses of `spring_init_equivariant` / `spring_trajectory_equivariant` hold for a single
free body, the transform `exG` and the transformed coordinates written out as numbers -/
example : FreeRooted exSys1 ∧ exSys1.links.length = exSys1.numLinks ∧ ParentsWF exSys1.parents
    ∧ InvLocal exSys1 (fun _ _ => ([], []))
    ∧ (∀ x ∈ exSys1.parents.zip (exSys1.links.zip
          (linkSlices exSys1.types [0, 0, 1, 1, 0, 0, 0] [1, 0, 0, 0, 0, 0.5] exSys1.dofs)),
        LinkOK x.1 x.2.1 x.2.2 ∧ (x.1 < 0 → x.2.2.typ = .free))
    ∧ linkSlices exSys1.types [1, -2, 4, 3/5, 0, 0, 4/5] [-7/25, 24/25, 0, 0, 0, 0.5] exSys1.dofs
        = (linkSlices exSys1.types [0, 0, 1, 1, 0, 0, 0] [1, 0, 0, 0, 0, 0.5] exSys1.dofs).map (xformIn exG)
    ∧ ActAgree exSys1 [0, 0, 1, 1, 0, 0, 0] [1, 0, 0, 0, 0, 0.5]
        [1, -2, 4, 3/5, 0, 0, 4/5] [-7/25, 24/25, 0, 0, 0, 0.5] := by
  refine ⟨exSys1_freeRooted, rfl, ?_, ?_, ?_, ?_, ?_⟩
  · intro i hi
    have hi' : i < 1 := hi
    match i, hi' with
    | 0, _ => simp [exSys1]
  · intro j j' jd jd' _ a ha; simp [exSys1] at ha
  · intro x hx
    simp only [exSys1, exSys, linkSlices, List.zip_cons_cons, List.zip_nil_right, List.mem_singleton,
      LinkType.qWidth, LinkType.qdWidth] at hx
    subst hx
    refine ⟨⟨?_, rfl, ?_, ?_⟩, fun _ => rfl⟩
    · simp [exLink, Tf.id, Q4.IsUnit, Q4.normSq, Q4.one]
    · intro _
      refine ⟨by norm_num, rfl, rfl, by simp, 0, 0, 1, 1, 0, 0, 0, by simp, ?_⟩
      simp [Q4.IsUnit, Q4.normSq]
    · intro h; simp at h
  · simp only [exSys1, exSys, linkSlices, LinkType.qWidth, LinkType.qdWidth, List.map_cons, List.map_nil,
      xformIn, exG]
    simp only [List.take, Tf.doTf, rotate, quatMul, V3.dot, V3.cross, Q4.vec, V3.add_def]
    norm_num
  · intro a ha; simp [exSys1] at ha
end spring

end Brax.C05
