import Brax.Lemmas.KinEquiv
import Brax.Lemmas.ScanSpec
/-!
# C05 — physics does not depend on how the scene is represented

Proved here (for every forest, of any size):

* `forward_equivariant` — rotating and translating the root coordinates of a free-rooted system
  by any rigid transform `g` transforms every link's world pose by `g` and rotates every world
  velocity; joint coordinates of non-root links are untouched (they are the same inputs).
* `scan_sibling_permutation` — relabelling the links by any permutation that keeps parents
  before children permutes the results of every per-link tree recursion accordingly.
* `components_independent` — for the disjoint union of two forests every per-link tree recursion
  is the concatenation of the two separate ones.

The last two are statements about the tree recursion `Kin.scanFwd` that *every* root-to-leaf
`scan.tree` computation of brax instantiates (kinematics `world`, `cd` of the generalized
pipeline, …), tied to the real `scan.tree` by the exact Layer-B correspondence.

Not proved (tied by the correspondence / observed by the search only): equivariance of a full
`pipeline.step` of the three pipelines (`…Stmt` below).
-/
set_option linter.unusedSectionVars false
namespace Brax.C05
open Brax Kin KinPos KinVel KinEquiv

/-- the transformed inputs are related to the original ones link by link -/
theorem zip_rel_xform (g : Tf ℝ) (ps : List Int) (lks : List (LinkP ℝ)) (ins : List (LinkIn ℝ))
    (hok : ∀ x ∈ ps.zip (lks.zip ins), LinkOK x.1 x.2.1 x.2.2 ∧ (x.1 < 0 → x.2.2.typ = .free)) :
    List.Forall₂ (fun (x y : Int × (Tf ℝ × Motion ℝ)) =>
        x.1 = y.1 ∧ ∃ lk l, x.2 = linkArg (lk, l) ∧ y.2 = linkArg (lk, xformIn g l)
          ∧ LinkOK x.1 lk l ∧ (x.1 < 0 → l.typ = .free))
      (ps.zip ((lks.zip ins).map linkArg)) (ps.zip ((lks.zip (ins.map (xformIn g))).map linkArg)) := by
  induction ps generalizing lks ins with
  | nil => simp
  | cons p ps ih =>
    cases lks with
    | nil => simp
    | cons lk lks =>
      cases ins with
      | nil => simp
      | cons l ins =>
        simp only [List.zip_cons_cons, List.map_cons]
        have h0 := hok (p, lk, l) (by simp)
        refine List.Forall₂.cons ⟨rfl, lk, l, rfl, rfl, h0.1, h0.2⟩ (ih lks ins ?_)
        intro x hx; exact hok x (by simp [hx])

/-- **C05, rigid transform of the scene (kinematics).**  For a system all of whose roots are free,
transforming the root coordinates by a rigid transform `g` (unit quaternion): every link's world
transform is composed with `g` and every world velocity is rotated by `g`. -/
theorem forward_equivariant (s : Sys ℝ) (ins : List (LinkIn ℝ)) (g : Tf ℝ) (hg : g.rot.IsUnit)
    (hwf : ParentsWF s.parents)
    (hok : ∀ x ∈ s.parents.zip (s.links.zip ins),
      LinkOK x.1 x.2.1 x.2.2 ∧ (x.1 < 0 → x.2.2.typ = .free)) :
    forwardIns s (ins.map (xformIn g))
      = (forwardIns s ins).map (fun x => (Tf.doTf g x.1, rotM g x.2)) := by
  have hunit := forwardRaw_unit s.parents (s.links.zip ins) (fun x hx => (hok x hx).1)
  have hrel := scanFwd_rel_wf
    (fun (x y : Tf ℝ × Motion ℝ) => y = (Tf.doTf g x.1, rotM g x.2))
    (fun p (a b : Tf ℝ × Motion ℝ) => ∃ lk l, a = linkArg (lk, l) ∧ b = linkArg (lk, xformIn g l)
      ∧ LinkOK p lk l ∧ (p < 0 → l.typ = .free))
    world world
    (by
      intro p par par' a b hpar hS hroot
      obtain ⟨lk, l, ha, hb, hk, hfr⟩ := hS
      subst ha hb
      cases hpar with
      | none =>
        have hp : p < 0 := hroot.mpr rfl
        exact world_root_equiv g p lk l hk (hfr hp)
      | @some x y hxy =>
        subst hxy
        have hnf : l.typ ≠ .free := by
          intro hfree
          have h1 := (hk.free hfree).1
          have h2 := hroot.mp h1
          cases h2
        rw [xformIn_nonfree g l hnf]
        obtain ⟨x1, x2⟩ := x
        exact world_child_equiv g hg x1 x2 _)
    s.parents _ _ hwf (zip_rel_xform g s.parents s.links ins hok)
  unfold forwardIns
  generalize scanFwd world s.parents ((s.links.zip ins).map linkArg) = xs at hrel hunit
  generalize scanFwd world s.parents ((s.links.zip (ins.map (xformIn g))).map linkArg) = ys at hrel
  induction hrel with
  | nil => rfl
  | @cons x y xs ys hxy _ ih =>
    simp only [List.map_cons]
    rw [ih (fun z hz => hunit z (List.mem_cons_of_mem _ hz))]
    congr 1
    subst hxy
    have hu := hunit x (List.mem_cons_self)
    have hu' : (Tf.doTf g x.1).rot.IsUnit := by
      simp only [Tf.doTf]; exact Q4.IsUnit.mul hg hu
    simp only [normalize4_unit hu, normalize4_unit hu']

/-- joint coordinates of non-root links are inputs that the transform leaves untouched -/
theorem xform_keeps_joint_coordinates (g : Tf ℝ) (l : LinkIn ℝ) (h : l.typ ≠ .free) :
    (xformIn g l).q = l.q ∧ (xformIn g l).qd = l.qd := by
  rw [xformIn_nonfree g l h]; exact ⟨rfl, rfl⟩

/-- **C05, sibling order.**  Relabelling the links by any `σ` (inverse `τ`) under which parents
still precede children permutes the per-link results of every root-to-leaf tree recursion. -/
theorem scan_sibling_permutation {β γ : Type} (f : Option β → γ → β) (ps : List Int) (as : List γ)
    (d : γ) (n : Nat) (hps : ps.length = n) (has : as.length = n) (σ τ : Nat → Nat)
    (hσ : ∀ k, k < n → σ k < n) (hτσ : ∀ k, k < n → τ (σ k) = k) (hστ : ∀ i, i < n → σ (τ i) = i)
    (hτ : ∀ i, i < n → τ i < n)
    (hwf : ParentsWF ps) (hwf' : ParentsWF (permParents n σ τ ps)) :
    ∀ k, k < n → (scanFwd f (permParents n σ τ ps) (permArgs n σ as d))[k]?
      = (scanFwd f ps as)[σ k]? :=
  scanFwd_perm f ps as d n hps has σ τ hσ hτσ hστ hτ hwf hwf'

/-- **C05, mechanically disconnected parts.**  For the disjoint union of two forests every
root-to-leaf tree recursion is the concatenation of the two separate ones. -/
theorem components_independent {β γ : Type} (f : Option β → γ → β) (ps1 ps2 : List Int)
    (as1 as2 : List γ) (h1 : ps1.length = as1.length) (h2 : ps2.length = as2.length)
    (hwf2 : ParentsWF ps2) :
    scanFwd f (ps1 ++ shiftParents ps1.length ps2) (as1 ++ as2)
      = scanFwd f ps1 as1 ++ scanFwd f ps2 as2 :=
  scanFwd_disjoint_union f ps1 ps2 as1 as2 h1 h2 hwf2

/-- non-vacuity of the permutation theorem: swapping the two children of a root -/
example : ParentsWF [-1, 0, 0] ∧ ParentsWF (permParents 3 (fun k => [0, 2, 1].getD k 0)
    (fun i => [0, 2, 1].getD i 0) [-1, 0, 0]) := by
  constructor
  · intro i hi
    match i, hi with
    | 0, _ => simp [permParents]
    | 1, _ => simp [permParents]
    | 2, _ => simp [permParents]
  · intro i hi
    match i, hi with
    | 0, _ => simp [permParents]
    | 1, _ => simp [permParents]
    | 2, _ => simp [permParents]

/-! Full statement not proved (kept visible): one `pipeline.step` of each native pipeline commutes
with `g` on contact-free scenes.  `forward_equivariant` is the kinematics part of it; the
dynamics part (joint forces invariant in the joint frame, integrators commuting with `g`) is
tied by the correspondence and observed by the search only.

def step_equivariant_Stmt : Prop :=
  ∀ pipeline sys state ctrl g, step (g • sys) (g • state) ctrl = g • step sys state ctrl
-/

end Brax.C05
