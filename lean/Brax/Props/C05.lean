import Brax.Lemmas.KinEquiv
import Brax.Lemmas.ScanSpec
import Brax.Lemmas.C05Spring
import Brax.Lemmas.C05Pos
/-!
# C05 — physics does not depend on how the scene is represented

Proved here (for every forest, of any size):

* `forward_equivariant` — rotating and translating the root coordinates of a free-rooted system
  by any rigid transform `g` transforms every link's world pose by `g` and rotates every world
  velocity; joint coordinates of non-root links are untouched (they are the same inputs).
* `scan_sibling_permutation` — relabelling the links by any permutation that keeps parents
  before children permutes the results of every per-link tree recursion accordingly.
* `components_independent` — for the disjoint union of two forests every per-link tree recursion
  is the concatenation of the two separate ones.

The last two are statements about the tree recursion `Kin.scanFwd` that *every* root-to-leaf
`scan.tree` computation of brax instantiates (kinematics `world`, `cd` of the generalized
pipeline, …), tied to the real `scan.tree` by the exact Layer-B correspondence.

* `spring_step_equivariant`, `spring_steps_equivariant`, `spring_init_equivariant`,
  `spring_trajectory_equivariant` (bottom of the file; stage lemmas in `Lemmas/C05Spring.lean`) —
  `spring.pipeline.init` and any number of contact-free `spring.pipeline.step`s commute with a rigid
  transform `g` of the whole scene (state and gravity), field by field.

* `positional_step_equivariant`, `positional_steps_equivariant`, `positional_init_equivariant`,
  `positional_trajectory_equivariant` (bottom of the file; stage lemmas in `Lemmas/C05Pos.lean`) —
  the same for `positional.pipeline`, under the additional hypothesis `DispClear` that no joint
  displacement of the step lies in the dead zone of `math.safe_norm` (a coordinate-wise
  `jp.allclose(x, 0)` test, which is *not* rotation invariant: without the hypothesis the statement
  is false of the model and of the real code — a finding, see the section below).

Not proved (tied by the correspondence / observed by the search only): equivariance of a full
`pipeline.step` of the generalized pipeline (`…Stmt` below).
-/
set_option linter.unusedSectionVars false
namespace Brax.C05
open Brax Kin KinPos KinVel KinEquiv

/-- the transformed inputs are related to the original ones link by link -/
theorem zip_rel_xform (g : Tf ℝ) (ps : List Int) (lks : List (LinkP ℝ)) (ins : List (LinkIn ℝ))
    (hok : ∀ x ∈ ps.zip (lks.zip ins), LinkOK x.1 x.2.1 x.2.2 ∧ (x.1 < 0 → x.2.2.typ = .free)) :
    List.Forall₂ (fun (x y : Int × (Tf ℝ × Motion ℝ)) =>
        x.1 = y.1 ∧ ∃ lk l, x.2 = linkArg (lk, l) ∧ y.2 = linkArg (lk, xformIn g l)
          ∧ LinkOK x.1 lk l ∧ (x.1 < 0 → l.typ = .free))
      (ps.zip ((lks.zip ins).map linkArg)) (ps.zip ((lks.zip (ins.map (xformIn g))).map linkArg)) := by
  induction ps generalizing lks ins with
  | nil => simp
  | cons p ps ih =>
    cases lks with
    | nil => simp
    | cons lk lks =>
      cases ins with
      | nil => simp
      | cons l ins =>
        simp only [List.zip_cons_cons, List.map_cons]
        have h0 := hok (p, lk, l) (by simp)
        refine List.Forall₂.cons ⟨rfl, lk, l, rfl, rfl, h0.1, h0.2⟩ (ih lks ins ?_)
        intro x hx; exact hok x (by simp [hx])

/-- **C05, rigid transform of the scene (kinematics).**  For a system all of whose roots are free,
transforming the root coordinates by a rigid transform `g` (unit quaternion): every link's world
transform is composed with `g` and every world velocity is rotated by `g`. -/
theorem forward_equivariant (s : Sys ℝ) (ins : List (LinkIn ℝ)) (g : Tf ℝ) (hg : g.rot.IsUnit)
    (hwf : ParentsWF s.parents)
    (hok : ∀ x ∈ s.parents.zip (s.links.zip ins),
      LinkOK x.1 x.2.1 x.2.2 ∧ (x.1 < 0 → x.2.2.typ = .free)) :
    forwardIns s (ins.map (xformIn g))
      = (forwardIns s ins).map (fun x => (Tf.doTf g x.1, rotM g x.2)) := by
  have hunit := forwardRaw_unit s.parents (s.links.zip ins) (fun x hx => (hok x hx).1)
  have hrel := scanFwd_rel_wf
    (fun (x y : Tf ℝ × Motion ℝ) => y = (Tf.doTf g x.1, rotM g x.2))
    (fun p (a b : Tf ℝ × Motion ℝ) => ∃ lk l, a = linkArg (lk, l) ∧ b = linkArg (lk, xformIn g l)
      ∧ LinkOK p lk l ∧ (p < 0 → l.typ = .free))
    world world
    (by
      intro p par par' a b hpar hS hroot
      obtain ⟨lk, l, ha, hb, hk, hfr⟩ := hS
      subst ha hb
      cases hpar with
      | none =>
        have hp : p < 0 := hroot.mpr rfl
        exact world_root_equiv g p lk l hk (hfr hp)
      | @some x y hxy =>
        subst hxy
        have hnf : l.typ ≠ .free := by
          intro hfree
          have h1 := (hk.free hfree).1
          have h2 := hroot.mp h1
          cases h2
        rw [xformIn_nonfree g l hnf]
        obtain ⟨x1, x2⟩ := x
        exact world_child_equiv g hg x1 x2 _)
    s.parents _ _ hwf (zip_rel_xform g s.parents s.links ins hok)
  unfold forwardIns
  generalize scanFwd world s.parents ((s.links.zip ins).map linkArg) = xs at hrel hunit
  generalize scanFwd world s.parents ((s.links.zip (ins.map (xformIn g))).map linkArg) = ys at hrel
  induction hrel with
  | nil => rfl
  | @cons x y xs ys hxy _ ih =>
    simp only [List.map_cons]
    rw [ih (fun z hz => hunit z (List.mem_cons_of_mem _ hz))]
    congr 1
    subst hxy
    have hu := hunit x (List.mem_cons_self)
    have hu' : (Tf.doTf g x.1).rot.IsUnit := by
      simp only [Tf.doTf]; exact Q4.IsUnit.mul hg hu
    simp only [normalize4_unit hu, normalize4_unit hu']

/-- joint coordinates of non-root links are inputs that the transform leaves untouched -/
theorem xform_keeps_joint_coordinates (g : Tf ℝ) (l : LinkIn ℝ) (h : l.typ ≠ .free) :
    (xformIn g l).q = l.q ∧ (xformIn g l).qd = l.qd := by
  rw [xformIn_nonfree g l h]; exact ⟨rfl, rfl⟩

/-- **C05, sibling order.**  Relabelling the links by any `σ` (inverse `τ`) under which parents
still precede children permutes the per-link results of every root-to-leaf tree recursion. -/
theorem scan_sibling_permutation {β γ : Type} (f : Option β → γ → β) (ps : List Int) (as : List γ)
    (d : γ) (n : Nat) (hps : ps.length = n) (has : as.length = n) (σ τ : Nat → Nat)
    (hσ : ∀ k, k < n → σ k < n) (hτσ : ∀ k, k < n → τ (σ k) = k) (hστ : ∀ i, i < n → σ (τ i) = i)
    (hτ : ∀ i, i < n → τ i < n)
    (hwf : ParentsWF ps) (hwf' : ParentsWF (permParents n σ τ ps)) :
    ∀ k, k < n → (scanFwd f (permParents n σ τ ps) (permArgs n σ as d))[k]?
      = (scanFwd f ps as)[σ k]? :=
  scanFwd_perm f ps as d n hps has σ τ hσ hτσ hστ hτ hwf hwf'

/-- **C05, mechanically disconnected parts.**  For the disjoint union of two forests every
root-to-leaf tree recursion is the concatenation of the two separate ones. -/
theorem components_independent {β γ : Type} (f : Option β → γ → β) (ps1 ps2 : List Int)
    (as1 as2 : List γ) (h1 : ps1.length = as1.length) (h2 : ps2.length = as2.length)
    (hwf2 : ParentsWF ps2) :
    scanFwd f (ps1 ++ shiftParents ps1.length ps2) (as1 ++ as2)
      = scanFwd f ps1 as1 ++ scanFwd f ps2 as2 :=
  scanFwd_disjoint_union f ps1 ps2 as1 as2 h1 h2 hwf2

/-- non-vacuity of the permutation theorem: swapping the two children of a root -/
example : ParentsWF [-1, 0, 0] ∧ ParentsWF (permParents 3 (fun k => [0, 2, 1].getD k 0)
    (fun i => [0, 2, 1].getD i 0) [-1, 0, 0]) := by
  constructor
  · intro i hi
    match i, hi with
    | 0, _ => simp [permParents]
    | 1, _ => simp [permParents]
    | 2, _ => simp [permParents]
  · intro i hi
    match i, hi with
    | 0, _ => simp [permParents]
    | 1, _ => simp [permParents]
    | 2, _ => simp [permParents]

/-! Full statement (kept visible): one `pipeline.step` of each native pipeline commutes with `g`
on contact-free scenes.  `forward_equivariant` is the kinematics part of it.  For the **spring**
pipeline it is proved below (`spring_step_equivariant` … `spring_trajectory_equivariant`).  For the
positional pipeline it is proved below outside the dead zone of `math.safe_norm`
(`positional_step_equivariant` …; inside the dead zone it is false).  For the generalized pipeline
the dynamics part is still tied by the correspondence and observed by the search only.

def step_equivariant_Stmt : Prop :=
  ∀ pipeline sys state ctrl g, step (g • sys) (g • state) ctrl = g • step sys state ctrl
-/

/-! ## The spring pipeline: `init` and `step` commute with a rigid transform of the scene

`g • sys = gSys g sys` (gravity rotated), `g • state = gState g sys state q' qd'` (`Lemmas/C05Spring.lean`):
`x, x_i, a_c ↦ g ∘ ·`; `xd, xd_i ↦ R_g ·` (both parts); `i_inv ↦ R_g · R_gᵀ`; `mass` unchanged;
`j`, `jd`, `a_p` of **non-root** links: `j`, `jd` unchanged, `a_p ↦ g ∘ a_p`; of **root** links:
`a_p` unchanged (it is `link.transform ∘ link.joint` in the fixed world frame — `world_to_joint`
recomputes it from the system alone), `j`, `jd` recomputed from the transformed child anchor and world
velocity by the root formulas of `world_to_joint` (for `a_p = identity`, as for a free link loaded
from MJCF, that is `j ↦ g ∘ j`, `jd ↦ R_g jd`: `gJ_root_id`, `gJd_root_id`).
`q'`, `qd'` are the generalized coordinates of the transformed state; `step` reads them only
through `actuator.to_tau`, so all that is needed is `ActAgree` (they agree with `q`, `qd` at the
actuated coordinates — a rigid transform changes only the coordinates of the free roots).

Hypotheses, and why each is needed:
* `g.rot.IsUnit` — `g` is a rigid transform (`rotate · g.rot` is a rotation only for unit `g.rot`);
* `FreeRooted s` — a forest whose roots are all free links: a hinge/slide attached to the world is
  anchored at a fixed world point, so moving the scene is *not* a symmetry for it;
* `s.links.length = s.numLinks`, `State.WF s st` — the shape guards (`Sys.WF`, `State.WF`) the driver
  checks on every input (outside an array the model returns `Transform.zero`, which `g` moves);
* `ActAgree` — see above.
No hypothesis on unit quaternions in the state, on masses or on the time step is needed; over ℝ the
normalisation `rot / ‖rot‖` is total (`x / 0 = 0`), where the float code would give NaN on both sides. -/
section spring
open C05L C04L MC

/-- **C05, one contact-free spring step commutes with the rigid transform `g`** — equality of
whole states; `q`, `qd` of the result are `kinematics.inverse` (`inv`) of the transformed `j`, `jd`. -/
theorem spring_step_equivariant (inv : List (Tf ℝ) → List (Motion ℝ) → List ℝ × List ℝ)
    (g : Tf ℝ) (hg : g.rot.IsUnit) (s : Sys ℝ) (st : Spring.State ℝ) (act q' qd' : List ℝ)
    (hfr : FreeRooted s) (hlinks : s.links.length = s.numLinks)
    (hwf : Spring.State.WF s st = true) (hact : ActAgree s st.q st.qd q' qd') :
    Spring.step inv (fun _ => []) (gSys g s) (gState g s st q' qd') act
      = gState g s (Spring.step inv (fun _ => []) s st act)
          (inv (gJ g s.parents (Spring.step inv (fun _ => []) s st act).a_p
                  (Spring.step inv (fun _ => []) s st act).a_c
                  (Spring.step inv (fun _ => []) s st act).j)
               (gJd g s.parents (Spring.step inv (fun _ => []) s st act).a_p
                  (Spring.step inv (fun _ => []) s st act).xd
                  (Spring.step inv (fun _ => []) s st act).jd)).1
          (inv (gJ g s.parents (Spring.step inv (fun _ => []) s st act).a_p
                  (Spring.step inv (fun _ => []) s st act).a_c
                  (Spring.step inv (fun _ => []) s st act).j)
               (gJd g s.parents (Spring.step inv (fun _ => []) s st act).a_p
                  (Spring.step inv (fun _ => []) s st act).xd
                  (Spring.step inv (fun _ => []) s st act).jd)).2 :=
  C05L.spring_step_equivariant g hg s st act q' qd' hfr (LenOK.of_wf hwf) hact inv hlinks

/-- the same, read field by field (the property's wording): link poses are composed with `g`, link
velocities rotated, joint coordinates of non-root links unchanged -/
theorem spring_step_equivariant_fields (inv : List (Tf ℝ) → List (Motion ℝ) → List ℝ × List ℝ)
    (g : Tf ℝ) (hg : g.rot.IsUnit) (s : Sys ℝ) (st : Spring.State ℝ) (act q' qd' : List ℝ)
    (hfr : FreeRooted s) (hlinks : s.links.length = s.numLinks)
    (hwf : Spring.State.WF s st = true) (hact : ActAgree s st.q st.qd q' qd') :
    let o := Spring.step inv (fun _ => []) s st act
    let o' := Spring.step inv (fun _ => []) (gSys g s) (gState g s st q' qd') act
    o'.x = o.x.map (Tf.doTf g) ∧ o'.xd = o.xd.map (rotM g)
    ∧ o'.x_i = o.x_i.map (Tf.doTf g) ∧ o'.xd_i = o.xd_i.map (rotM g)
    ∧ o'.a_c = o.a_c.map (Tf.doTf g) ∧ o'.a_p = gAp g s.parents o.a_p
    ∧ o'.i_inv = o.i_inv.map (conjM g.rot) ∧ o'.mass = o.mass
    ∧ (∀ i, i < s.numLinks → ¬ parentOf s.parents i < 0 →
        nth o'.j i = nth o.j i ∧ nth o'.jd i = nth o.jd i)
    ∧ o'.q = (inv o'.j o'.jd).1 ∧ o'.qd = (inv o'.j o'.jd).2 := by
  intro o o'
  have hq : o'.q = (inv o'.j o'.jd).1 := step_q inv _ _ _ _
  have hqd : o'.qd = (inv o'.j o'.jd).2 := step_qd inv _ _ _ _
  have hm : o'.mass = o.mass := by
    rw [step_mass, step_mass, gState_mass]
  have h : o' = gState g s o _ _ :=
    spring_step_equivariant inv g hg s st act q' qd' hfr hlinks hwf hact
  clear_value o o'
  refine ⟨?_, ?_, ?_, ?_, ?_, ?_, ?_, hm, ?_, hq, hqd⟩
  · rw [h]; rfl
  · rw [h]; rfl
  · rw [h]; rfl
  · rw [h]; rfl
  · rw [h]; rfl
  · rw [h]; rfl
  · rw [h]; rfl
  · intro i hi' hr
    have hi'' : i < s.parents.length := by rw [hfr.hlen]; exact hi'
    have hj : o'.j = gJ g s.parents o.a_p o.a_c o.j := by rw [h]; rfl
    have hjd : o'.jd = gJd g s.parents o.a_p o.xd o.jd := by rw [h]; rfl
    rw [hj, hjd]
    exact ⟨gJ_nonroot g _ _ _ _ hi'' hr, gJd_nonroot g _ _ _ _ hi'' hr⟩

/-- **C05, any number of contact-free spring steps** (`InvLocal`: `kinematics.inverse` computes the
actuated coordinates from the rows of non-root links only) -/
theorem spring_steps_equivariant (inv : List (Tf ℝ) → List (Motion ℝ) → List ℝ × List ℝ)
    (g : Tf ℝ) (hg : g.rot.IsUnit) (s : Sys ℝ) (hfr : FreeRooted s)
    (hlinks : s.links.length = s.numLinks) (hinv : InvLocal s inv) (acts : List (List ℝ))
    (st : Spring.State ℝ) (q' qd' : List ℝ) (hwf : Spring.State.WF s st = true)
    (hact : ActAgree s st.q st.qd q' qd') :
    ∃ q'' qd'', steps inv (gSys g s) (gState g s st q' qd') acts
        = gState g s (steps inv s st acts) q'' qd''
      ∧ ActAgree s (steps inv s st acts).q (steps inv s st acts).qd q'' qd'' :=
  C05L.spring_steps_equivariant g hg s inv hfr hlinks hinv acts st q' qd' (LenOK.of_wf hwf) hact

/-- **C05, `spring.pipeline.init` commutes with the rigid transform**: for the root coordinates
transformed by `xformIn g` (the transform `forward_equivariant` is about), the initial state is the
transform of the initial state -/
theorem spring_init_equivariant (g : Tf ℝ) (hg : g.rot.IsUnit) (s : Sys ℝ) (q qd q' qd' : List ℝ)
    (hfr : FreeRooted s) (hlinks : s.links.length = s.numLinks) (hpw : ParentsWF s.parents)
    (hok : ∀ x ∈ s.parents.zip (s.links.zip (linkSlices s.types q qd s.dofs)),
      LinkOK x.1 x.2.1 x.2.2 ∧ (x.1 < 0 → x.2.2.typ = .free))
    (hq : linkSlices s.types q' qd' s.dofs = (linkSlices s.types q qd s.dofs).map (xformIn g)) :
    Spring.init (gSys g s) q' qd' = gState g s (Spring.init s q qd) q' qd' := by
  apply init_equiv_of_forward g hg s q qd q' qd' hfr hlinks
  rw [forward_eq_forwardIns, forward_eq_forwardIns, hq]
  exact forward_equivariant s _ g hg hpw hok

/-- **C05, spring pipeline, whole trajectories from `init`**: `init` followed by any number of
contact-free steps, on the transformed coordinates in the transformed system, is the transform of
the original trajectory's end state -/
theorem spring_trajectory_equivariant (inv : List (Tf ℝ) → List (Motion ℝ) → List ℝ × List ℝ)
    (g : Tf ℝ) (hg : g.rot.IsUnit) (s : Sys ℝ) (q qd q' qd' : List ℝ) (acts : List (List ℝ))
    (hfr : FreeRooted s) (hlinks : s.links.length = s.numLinks) (hpw : ParentsWF s.parents)
    (hinv : InvLocal s inv)
    (hok : ∀ x ∈ s.parents.zip (s.links.zip (linkSlices s.types q qd s.dofs)),
      LinkOK x.1 x.2.1 x.2.2 ∧ (x.1 < 0 → x.2.2.typ = .free))
    (hq : linkSlices s.types q' qd' s.dofs = (linkSlices s.types q qd s.dofs).map (xformIn g))
    (hact : ActAgree s q qd q' qd') :
    ∃ q'' qd'', steps inv (gSys g s) (Spring.init (gSys g s) q' qd') acts
        = gState g s (steps inv s (Spring.init s q qd) acts) q'' qd''
      ∧ ActAgree s (steps inv s (Spring.init s q qd) acts).q
          (steps inv s (Spring.init s q qd) acts).qd q'' qd'' := by
  rw [spring_init_equivariant g hg s q qd q' qd' hfr hlinks hpw hok hq]
  exact C05L.spring_steps_equivariant g hg s inv hfr hlinks hinv acts _ q' qd'
    (LenOK.init s q qd hlinks hfr.hlen) hact

/-! ### non-vacuity: a free root carrying a hinged, actuated child; `g` = rotation by
`2·atan(4/3)` about `z` (unit quaternion `(3/5, 0, 0, 4/5)`) followed by a translation -/

/-- a link with identity `transform`/`joint`, unit mass and inertia -/
noncomputable def exLink : LinkP ℝ := ⟨Tf.id, Tf.id, ⟨Tf.id, M3.one, 1⟩, 1, 100, 1, 100, 1⟩
noncomputable def exDof (ang vel : V3 ℝ) : DofP ℝ := ⟨⟨ang, vel⟩, 0, 0, 0, none, none, 1⟩
/-- free root (link 0) with a child (link 1) on a hinge about `z`, driven by one motor -/
noncomputable def exSys : Sys ℝ :=
  { types := [.free, .one], parents := [-1, 0], links := [exLink, exLink],
    dofs := [exDof ⟨0, 0, 0⟩ ⟨1, 0, 0⟩, exDof ⟨0, 0, 0⟩ ⟨0, 1, 0⟩, exDof ⟨0, 0, 0⟩ ⟨0, 0, 1⟩,
             exDof ⟨1, 0, 0⟩ ⟨0, 0, 0⟩, exDof ⟨0, 1, 0⟩ ⟨0, 0, 0⟩, exDof ⟨0, 0, 1⟩ ⟨0, 0, 0⟩,
             exDof ⟨0, 0, 1⟩ ⟨0, 0, 0⟩],
    hasLimit := false, acts := [⟨7, 6, none, none, none, none, 1, 1, 0, 0⟩],
    gravity := ⟨0, 0, -9.81⟩, dt := 0.01, velDamping := 0, angDamping := 0, baumgarteErp := 0.1,
    springMassScale := 0, springInertiaScale := 0, jointScaleAng := 0.2, jointScalePos := 0.5,
    collideScale := 1 }
noncomputable def exG : Tf ℝ := ⟨⟨1, -2, 3⟩, ⟨3/5, 0, 0, 4/5⟩⟩
noncomputable def exState : Spring.State ℝ :=
  { q := [0, 0, 1, 1, 0, 0, 0, 0.3], qd := [0, 0, 0, 0, 0, 0, 0.1],
    x := [⟨⟨0, 0, 1⟩, Q4.one⟩, ⟨⟨1, 0, 1⟩, Q4.one⟩], xd := [⟨⟨0, 0, 0⟩, ⟨0, 0, 0⟩⟩, ⟨⟨0, 0, 0.1⟩, ⟨0, 0, 0⟩⟩],
    x_i := [⟨⟨0, 0, 1⟩, Q4.one⟩, ⟨⟨1, 0, 1⟩, Q4.one⟩],
    xd_i := [⟨⟨0, 0, 0⟩, ⟨0, 0, 0⟩⟩, ⟨⟨0, 0, 0.1⟩, ⟨0, 0, 0⟩⟩],
    j := [⟨⟨0, 0, 1⟩, Q4.one⟩, ⟨⟨0, 0, 0⟩, Q4.one⟩], jd := [⟨⟨0, 0, 0⟩, ⟨0, 0, 0⟩⟩, ⟨⟨0, 0, 0.1⟩, ⟨0, 0, 0⟩⟩],
    a_p := [Tf.id, ⟨⟨0, 0, 1⟩, Q4.one⟩], a_c := [⟨⟨0, 0, 1⟩, Q4.one⟩, ⟨⟨1, 0, 1⟩, Q4.one⟩],
    i_inv := [M3.one, M3.one], mass := [1, 1] }

theorem exSys_freeRooted : FreeRooted exSys where
  hlen := rfl
  hpar := by
    intro i hi
    have hi' : i < 2 := hi
    match i, hi' with
    | 0, _ => simp [parentOf, exSys]
    | 1, _ => simp [parentOf, exSys]
  hroot := by
    intro i hi hp
    have hi' : i < 2 := hi
    match i, hi' with
    | 0, _ => simp [exSys]
    | 1, _ => simp [parentOf, exSys] at hp

/-- the hypotheses of `spring_step_equivariant` hold for this system, state and transform (the
transformed state's `q'`, `qd'` have the root coordinates changed and the hinge angle/rate kept) -/
example : exG.rot.IsUnit ∧ FreeRooted exSys ∧ exSys.links.length = exSys.numLinks
    ∧ Spring.State.WF exSys exState = true
    ∧ ActAgree exSys exState.q exState.qd [1, -2, 4, 3/5, 0, 0, 4/5, 0.3] [0, 0, 0, 0, 0, 0, 0.1] := by
  refine ⟨?_, exSys_freeRooted, rfl, ?_, ?_⟩
  · simp only [Q4.IsUnit, Q4.normSq, exG]; norm_num
  · simp [Spring.State.WF, exSys, exState, Sys.numLinks, Sys.nq, Sys.nv, LinkType.qWidth, LinkType.qdWidth]
  · intro a ha
    simp only [exSys, List.mem_singleton] at ha
    subst ha
    simp [nthS, exState]

/-- `InvLocal` is satisfiable with an `inv` that really reads the hinge row -/
example : InvLocal exSys (fun j jd =>
    ([0, 0, 0, 1, 0, 0, 0, (nth j 1).pos.x], [0, 0, 0, 0, 0, 0, (nth jd 1).ang.z])) := by
  intro j j' jd jd' h a ha
  simp only [exSys, List.mem_singleton] at ha
  subst ha
  obtain ⟨h1, h2⟩ := h 1 (by show 1 < 2; omega) (by simp [parentOf, exSys])
  simp [nthS, h1, h2]

/-- a single free body -/
noncomputable def exSys1 : Sys ℝ :=
  { exSys with types := [.free], parents := [-1], links := [exLink], dofs := exSys.dofs.take 6, acts := [] }

theorem exSys1_freeRooted : FreeRooted exSys1 where
  hlen := rfl
  hpar := by
    intro i hi
    have hi' : i < 1 := hi
    match i, hi' with
    | 0, _ => simp [parentOf, exSys1]
  hroot := by
    intro i hi hp
    have hi' : i < 1 := hi
    match i, hi' with
    | 0, _ => simp [exSys1]

/-- the hypotheses of `spring_init_equivariant` / `spring_trajectory_equivariant` hold for a single
free body, the transform `exG` and the transformed coordinates written out as numbers -/
example : FreeRooted exSys1 ∧ exSys1.links.length = exSys1.numLinks ∧ ParentsWF exSys1.parents
    ∧ InvLocal exSys1 (fun _ _ => ([], []))
    ∧ (∀ x ∈ exSys1.parents.zip (exSys1.links.zip
          (linkSlices exSys1.types [0, 0, 1, 1, 0, 0, 0] [1, 0, 0, 0, 0, 0.5] exSys1.dofs)),
        LinkOK x.1 x.2.1 x.2.2 ∧ (x.1 < 0 → x.2.2.typ = .free))
    ∧ linkSlices exSys1.types [1, -2, 4, 3/5, 0, 0, 4/5] [-7/25, 24/25, 0, 0, 0, 0.5] exSys1.dofs
        = (linkSlices exSys1.types [0, 0, 1, 1, 0, 0, 0] [1, 0, 0, 0, 0, 0.5] exSys1.dofs).map (xformIn exG)
    ∧ ActAgree exSys1 [0, 0, 1, 1, 0, 0, 0] [1, 0, 0, 0, 0, 0.5]
        [1, -2, 4, 3/5, 0, 0, 4/5] [-7/25, 24/25, 0, 0, 0, 0.5] := by
  refine ⟨exSys1_freeRooted, rfl, ?_, ?_, ?_, ?_, ?_⟩
  · intro i hi
    have hi' : i < 1 := hi
    match i, hi' with
    | 0, _ => simp [exSys1]
  · intro j j' jd jd' _ a ha; simp [exSys1] at ha
  · intro x hx
    simp only [exSys1, exSys, linkSlices, List.zip_cons_cons, List.zip_nil_right, List.mem_singleton,
      LinkType.qWidth, LinkType.qdWidth] at hx
    subst hx
    refine ⟨⟨?_, rfl, ?_, ?_⟩, fun _ => rfl⟩
    · simp [exLink, Tf.id, Q4.IsUnit, Q4.normSq, Q4.one]
    · intro _
      refine ⟨by norm_num, rfl, rfl, by simp, 0, 0, 1, 1, 0, 0, 0, by simp, ?_⟩
      simp [Q4.IsUnit, Q4.normSq]
    · intro h; simp at h
  · simp only [exSys1, exSys, linkSlices, LinkType.qWidth, LinkType.qdWidth, List.map_cons, List.map_nil,
      xformIn, exG]
    simp only [List.take, Tf.doTf, rotate, quatMul, V3.dot, V3.cross, Q4.vec, V3.add_def]
    norm_num
  · intro a ha; simp [exSys1] at ha
end spring

/-! ## The positional pipeline: `init` and `step` commute with a rigid transform of the scene

`g • sys = gSys g sys`, `g • state = gStateP g sys state q' qd'` (`Lemmas/C05Pos.lean`; the action is the
one of the spring section, a positional state has no `i_inv`).  Stages proved one by one:
`accUpdate_equiv` (joint forces + the spring assembly), `acceleration_equiv`, `integrateXdd_equiv`,
`jointDisplacements_equiv` (`d_j` is a function of `j`, unchanged on non-root links and masked on free
roots; `d_w` is rotated because `a_p.rot ↦ g.rot ⊗ a_p.rot`), `translationUpdate_equiv`,
`rotationUpdate_equiv`, `positionAssemble_equiv` (position deltas rotate, the additive quaternion deltas
are multiplied by `g.rot` on the left, `segment_sum` is additive), `normTf_equiv` (contact-free
`resolve_position`), `projectXd_equiv`, `resolveVelocity_nil`, `integrateXdv_equiv`, then `com.to_world`
and `world_to_joint` from the spring file.

Hypotheses in addition to those of the spring theorem, and why each is needed:
* `UnitRot s st` — the rotations `x_i.rot` of the state are unit quaternions.  `math.normalize` (used by
  `integrate_xdd` and `resolve_position`) treats a quaternion with all `|q_k| ≤ 1e-8` as zero, a
  coordinate-wise and therefore frame-dependent test; for unit rotations its argument has length `≥ 1`
  (`normSq_qstep`, `positionAssemble_rot`).  Every state brax produces satisfies it, and the step
  preserves it (`positional_step_unitRot`).
* `DispClear s st act` — **the finding.**  `_translation_update` / `_rotation_update` normalise the
  *world-frame* joint displacement `d_w` with the same `math.normalize`; a displacement of length
  between `1e-8` and `√3·1e-8` is inside the cube `|x_k| ≤ 1e-8` in one frame (no correction at all)
  and outside it in another (full correction).  `DispClear`: every `d_w` of this step (`pDisp`) is exactly
  zero or longer than `√3·1e-8` — a frame-independent condition (`pDisp_equiv`).  Without it the
  statement is false: `safeNorm3_not_rotation_invariant` (model), and on the real
  `brax.positional.pipeline.step` (x64) a free body carrying a hinged child whose joint is separated by
  `(9e-9, 9e-9, 0)` is left untouched by the step, while the same scene rotated by 45° about `z` gets
  the correction (`xd.ang` differs by `1.7e-6 rad/s`, `x_i.pos` by `1.9e-10`; separations `5e-9` and
  `9e-7` agree to `5e-15`).  See `notes/C05-deepen-positional.md`.

The unconditional statement, kept visible — FALSE of the model and of the real code:

def positional_step_equivariant_Stmt : Prop :=
  ∀ inv g s st act q' qd', g.rot.IsUnit → FreeRooted s → s.links.length = s.numLinks →
    Positional.State.WF s st = true → ActAgree s st.q st.qd q' qd' → UnitRot s st →
    Positional.step inv (fun _ => []) (gSys g s) (gStateP g s st q' qd') act
      = gStateP g s (Positional.step inv (fun _ => []) s st act) (inv …).1 (inv …).2
-/
section positional
open C05L C05P C04L MC

/-- **C05, one contact-free positional step commutes with the rigid transform `g`** — equality of
whole states; `q`, `qd` of the result are `kinematics.inverse` (`inv`) of the transformed `j`, `jd`. -/
theorem positional_step_equivariant (inv : List (Tf ℝ) → List (Motion ℝ) → List ℝ × List ℝ)
    (g : Tf ℝ) (hg : g.rot.IsUnit) (s : Sys ℝ) (st : Positional.State ℝ) (act q' qd' : List ℝ)
    (hfr : FreeRooted s) (hlinks : s.links.length = s.numLinks)
    (hwf : Positional.State.WF s st = true) (hact : ActAgree s st.q st.qd q' qd')
    (hunit : UnitRot s st) (hclear : DispClear s st act) :
    Positional.step inv (fun _ => []) (gSys g s) (gStateP g s st q' qd') act
      = gStateP g s (Positional.step inv (fun _ => []) s st act)
          (inv (gJ g s.parents (Positional.step inv (fun _ => []) s st act).a_p
                  (Positional.step inv (fun _ => []) s st act).a_c
                  (Positional.step inv (fun _ => []) s st act).j)
               (gJd g s.parents (Positional.step inv (fun _ => []) s st act).a_p
                  (Positional.step inv (fun _ => []) s st act).xd
                  (Positional.step inv (fun _ => []) s st act).jd)).1
          (inv (gJ g s.parents (Positional.step inv (fun _ => []) s st act).a_p
                  (Positional.step inv (fun _ => []) s st act).a_c
                  (Positional.step inv (fun _ => []) s st act).j)
               (gJd g s.parents (Positional.step inv (fun _ => []) s st act).a_p
                  (Positional.step inv (fun _ => []) s st act).xd
                  (Positional.step inv (fun _ => []) s st act).jd)).2 :=
  C05P.positional_step_equivariant g hg s st act q' qd' hfr hlinks (PLenOK.of_wf hwf) hact hunit inv hclear

/-- the same, read field by field (the property's wording): link poses are composed with `g`, link
velocities rotated, joint coordinates of non-root links unchanged -/
theorem positional_step_equivariant_fields (inv : List (Tf ℝ) → List (Motion ℝ) → List ℝ × List ℝ)
    (g : Tf ℝ) (hg : g.rot.IsUnit) (s : Sys ℝ) (st : Positional.State ℝ) (act q' qd' : List ℝ)
    (hfr : FreeRooted s) (hlinks : s.links.length = s.numLinks)
    (hwf : Positional.State.WF s st = true) (hact : ActAgree s st.q st.qd q' qd')
    (hunit : UnitRot s st) (hclear : DispClear s st act) :
    let o := Positional.step inv (fun _ => []) s st act
    let o' := Positional.step inv (fun _ => []) (gSys g s) (gStateP g s st q' qd') act
    o'.x = o.x.map (Tf.doTf g) ∧ o'.xd = o.xd.map (rotM g)
    ∧ o'.x_i = o.x_i.map (Tf.doTf g) ∧ o'.xd_i = o.xd_i.map (rotM g)
    ∧ o'.a_c = o.a_c.map (Tf.doTf g) ∧ o'.a_p = gAp g s.parents o.a_p ∧ o'.mass = o.mass
    ∧ (∀ i, i < s.numLinks → ¬ parentOf s.parents i < 0 →
        nth o'.j i = nth o.j i ∧ nth o'.jd i = nth o.jd i)
    ∧ o'.q = (inv o'.j o'.jd).1 ∧ o'.qd = (inv o'.j o'.jd).2 := by
  intro o o'
  have hq : o'.q = (inv o'.j o'.jd).1 := pstep_q inv _ _ _ _
  have hqd : o'.qd = (inv o'.j o'.jd).2 := pstep_qd inv _ _ _ _
  have hm : o'.mass = o.mass := by
    rw [pstep_mass, pstep_mass]; rfl
  have h : o' = gStateP g s o _ _ :=
    positional_step_equivariant inv g hg s st act q' qd' hfr hlinks hwf hact hunit hclear
  clear_value o o'
  refine ⟨?_, ?_, ?_, ?_, ?_, ?_, hm, ?_, hq, hqd⟩
  · rw [h]; rfl
  · rw [h]; rfl
  · rw [h]; rfl
  · rw [h]; rfl
  · rw [h]; rfl
  · rw [h]; rfl
  · intro i hi' hr
    have hi'' : i < s.parents.length := by rw [hfr.hlen]; exact hi'
    have hj : o'.j = gJ g s.parents o.a_p o.a_c o.j := by rw [h]; rfl
    have hjd : o'.jd = gJd g s.parents o.a_p o.xd o.jd := by rw [h]; rfl
    rw [hj, hjd]
    exact ⟨gJ_nonroot g _ _ _ _ hi'' hr, gJd_nonroot g _ _ _ _ hi'' hr⟩

/-- the step keeps the rotations unit (so `UnitRot` is an invariant of trajectories, not a
hypothesis on every step) -/
theorem positional_step_unitRot (inv : List (Tf ℝ) → List (Motion ℝ) → List ℝ × List ℝ)
    (s : Sys ℝ) (st : Positional.State ℝ) (act : List ℝ)
    (hfr : FreeRooted s) (hlinks : s.links.length = s.numLinks)
    (hwf : Positional.State.WF s st = true) (hunit : UnitRot s st) :
    UnitRot s (Positional.step inv (fun _ => []) s st act) :=
  UnitRot.step Tf.id Q4.isUnit_one s st act st.q st.qd hfr hlinks (PLenOK.of_wf hwf)
    (fun _ _ => ⟨rfl, rfl⟩) hunit inv

/-- **C05, any number of contact-free positional steps** (`InvLocal`: `kinematics.inverse` computes
the actuated coordinates from the rows of non-root links only; `TrajClear`: `DispClear` at every step
of the original trajectory) -/
theorem positional_steps_equivariant (inv : List (Tf ℝ) → List (Motion ℝ) → List ℝ × List ℝ)
    (g : Tf ℝ) (hg : g.rot.IsUnit) (s : Sys ℝ) (hfr : FreeRooted s)
    (hlinks : s.links.length = s.numLinks) (hinv : InvLocal s inv) (acts : List (List ℝ))
    (st : Positional.State ℝ) (q' qd' : List ℝ) (hwf : Positional.State.WF s st = true)
    (hunit : UnitRot s st) (hact : ActAgree s st.q st.qd q' qd') (hclear : TrajClear inv s st acts) :
    ∃ q'' qd'', psteps inv (gSys g s) (gStateP g s st q' qd') acts
        = gStateP g s (psteps inv s st acts) q'' qd''
      ∧ ActAgree s (psteps inv s st acts).q (psteps inv s st acts).qd q'' qd'' :=
  C05P.positional_steps_equivariant g hg s inv hfr hlinks hinv acts st q' qd' (PLenOK.of_wf hwf) hunit
    hact hclear

/-- **C05, `positional.pipeline.init` commutes with the rigid transform** (no dead-zone hypothesis:
`init` normalises nothing) -/
theorem positional_init_equivariant (g : Tf ℝ) (hg : g.rot.IsUnit) (s : Sys ℝ) (q qd q' qd' : List ℝ)
    (hfr : FreeRooted s) (hlinks : s.links.length = s.numLinks) (hpw : ParentsWF s.parents)
    (hok : ∀ x ∈ s.parents.zip (s.links.zip (linkSlices s.types q qd s.dofs)),
      LinkOK x.1 x.2.1 x.2.2 ∧ (x.1 < 0 → x.2.2.typ = .free))
    (hq : linkSlices s.types q' qd' s.dofs = (linkSlices s.types q qd s.dofs).map (xformIn g)) :
    Positional.init (gSys g s) q' qd' = gStateP g s (Positional.init s q qd) q' qd' := by
  apply pinit_equiv_of_forward g hg s q qd q' qd' hfr hlinks
  rw [forward_eq_forwardIns, forward_eq_forwardIns, hq]
  exact forward_equivariant s _ g hg hpw hok

/-- **C05, positional pipeline, whole trajectories from `init`** -/
theorem positional_trajectory_equivariant (inv : List (Tf ℝ) → List (Motion ℝ) → List ℝ × List ℝ)
    (g : Tf ℝ) (hg : g.rot.IsUnit) (s : Sys ℝ) (q qd q' qd' : List ℝ) (acts : List (List ℝ))
    (hfr : FreeRooted s) (hlinks : s.links.length = s.numLinks) (hpw : ParentsWF s.parents)
    (hinv : InvLocal s inv)
    (hok : ∀ x ∈ s.parents.zip (s.links.zip (linkSlices s.types q qd s.dofs)),
      LinkOK x.1 x.2.1 x.2.2 ∧ (x.1 < 0 → x.2.2.typ = .free))
    (hq : linkSlices s.types q' qd' s.dofs = (linkSlices s.types q qd s.dofs).map (xformIn g))
    (hact : ActAgree s q qd q' qd') (hunit : UnitRot s (Positional.init s q qd))
    (hclear : TrajClear inv s (Positional.init s q qd) acts) :
    ∃ q'' qd'', psteps inv (gSys g s) (Positional.init (gSys g s) q' qd') acts
        = gStateP g s (psteps inv s (Positional.init s q qd) acts) q'' qd''
      ∧ ActAgree s (psteps inv s (Positional.init s q qd) acts).q
          (psteps inv s (Positional.init s q qd) acts).qd q'' qd'' := by
  rw [positional_init_equivariant g hg s q qd q' qd' hfr hlinks hpw hok hq]
  exact C05P.positional_steps_equivariant g hg s inv hfr hlinks hinv acts _ q' qd'
    (PLenOK.init s q qd hlinks hfr.hlen) hunit hact hclear

/-! ### non-vacuity -/

/-- the state of `exState` as a positional state -/
noncomputable def exStateP : Positional.State ℝ :=
  { q := exState.q, qd := exState.qd, x := exState.x, xd := exState.xd, x_i := exState.x_i,
    xd_i := exState.xd_i, j := exState.j, jd := exState.jd, a_p := exState.a_p, a_c := exState.a_c,
    mass := exState.mass }

/-- every hypothesis of `positional_step_equivariant` except `DispClear` on the free root + hinged,
motor-driven child of the spring section (for a jointed system `DispClear` is a statement about the
result of trigonometric functions; it is the generic case — checked on the real code, not here) -/
example : exG.rot.IsUnit ∧ FreeRooted exSys ∧ exSys.links.length = exSys.numLinks
    ∧ Positional.State.WF exSys exStateP = true
    ∧ ActAgree exSys exStateP.q exStateP.qd [1, -2, 4, 3/5, 0, 0, 4/5, 0.3] [0, 0, 0, 0, 0, 0, 0.1]
    ∧ UnitRot exSys exStateP := by
  refine ⟨?_, exSys_freeRooted, rfl, ?_, ?_, ?_⟩
  · simp only [Q4.IsUnit, Q4.normSq, exG]; norm_num
  · simp [Positional.State.WF, exSys, exStateP, exState, Sys.numLinks, Sys.nq, Sys.nv, LinkType.qWidth,
      LinkType.qdWidth]
  · intro a ha
    simp only [exSys, List.mem_singleton] at ha
    subst ha
    simp [nthS, exStateP, exState]
  · intro i hi
    have hi' : i < 2 := hi
    match i, hi' with
    | 0, _ => simp [nth, exStateP, exState, Q4.IsUnit, Q4.normSq, Q4.one]
    | 1, _ => simp [nth, exStateP, exState, Q4.IsUnit, Q4.normSq, Q4.one]

/-- a positional state of the single free body `exSys1` -/
noncomputable def exStateP1 : Positional.State ℝ :=
  { q := [0, 0, 1, 1, 0, 0, 0], qd := [1, 0, 0, 0, 0, 0.5],
    x := [⟨⟨0, 0, 1⟩, Q4.one⟩], xd := [⟨⟨0, 0, 0.5⟩, ⟨1, 0, 0⟩⟩],
    x_i := [⟨⟨0, 0, 1⟩, Q4.one⟩], xd_i := [⟨⟨0, 0, 0.5⟩, ⟨1, 0, 0⟩⟩],
    j := [⟨⟨0, 0, 1⟩, Q4.one⟩], jd := [⟨⟨0, 0, 0.5⟩, ⟨1, 0, 0⟩⟩],
    a_p := [Tf.id], a_c := [⟨⟨0, 0, 1⟩, Q4.one⟩], mass := [1] }

/-- **all** hypotheses of `positional_step_equivariant` / `positional_steps_equivariant` (including
`DispClear` / `TrajClear`, for every control sequence) hold on a single free body -/
example (inv : List (Tf ℝ) → List (Motion ℝ) → List ℝ × List ℝ) (acts : List (List ℝ)) :
    exG.rot.IsUnit ∧ FreeRooted exSys1 ∧ exSys1.links.length = exSys1.numLinks
    ∧ Positional.State.WF exSys1 exStateP1 = true
    ∧ ActAgree exSys1 exStateP1.q exStateP1.qd [1, -2, 4, 3/5, 0, 0, 4/5] [-7/25, 24/25, 0, 0, 0, 0.5]
    ∧ UnitRot exSys1 exStateP1 ∧ InvLocal exSys1 (fun _ _ => ([], []))
    ∧ (∀ st, TrajClear inv exSys1 st acts) := by
  have hfree : ∀ i, i < exSys1.numLinks → exSys1.types[i]? = some .free := by
    intro i hi
    have hi' : i < 1 := hi
    match i, hi' with
    | 0, _ => simp [exSys1]
  refine ⟨?_, exSys1_freeRooted, rfl, ?_, ?_, ?_, ?_, ?_⟩
  · simp only [Q4.IsUnit, Q4.normSq, exG]; norm_num
  · simp [Positional.State.WF, exSys1, exSys, exStateP1, Sys.numLinks, Sys.nq, Sys.nv, LinkType.qWidth,
      LinkType.qdWidth]
  · intro a ha; simp [exSys1] at ha
  · intro i hi
    have hi' : i < 1 := hi
    match i, hi' with
    | 0, _ => simp [nth, exStateP1, Q4.IsUnit, Q4.normSq, Q4.one]
  · intro j j' jd jd' _ a ha; simp [exSys1] at ha
  · induction acts with
    | nil => intro st; trivial
    | cons a as ih => intro st; exact ⟨dispClear_of_free exSys1 st a hfree, ih _⟩
end positional

end Brax.C05
