import Brax.Lemmas.KinEquiv
import Brax.Lemmas.ScanSpec
import Brax.Lemmas.C05Spring
import Brax.Lemmas.C05Pos
import Brax.Lemmas.C05PermPos
import Brax.Lemmas.C05Gen
/-!
# C05 — physics does not depend on how the scene is represented

Proved here (for every forest, of any size):

* `forward_equivariant` — rotating and translating the root coordinates of a free-rooted system
  by any rigid transform `g` transforms every link's world pose by `g` and rotates every world
  velocity; joint coordinates of non-root links are untouched (they are the same inputs).
* `scan_sibling_permutation` — relabelling the links by any permutation that keeps parents
  before children permutes the results of every per-link tree recursion accordingly.
* `components_independent` — for the disjoint union of two forests every per-link tree recursion
  is the concatenation of the two separate ones.

The last two are statements about the tree recursion `Kin.scanFwd` that *every* root-to-leaf
`scan.tree` computation of brax instantiates (kinematics `world`, `cd` of the generalized
pipeline, …), tied to the real `scan.tree` by the exact Layer-B correspondence.

* `spring_step_equivariant`, `spring_steps_equivariant`, `spring_init_equivariant`,
  `spring_trajectory_equivariant` (bottom of the file; stage lemmas in `Lemmas/C05Spring.lean`) —
  `spring.pipeline.init` and any number of contact-free `spring.pipeline.step`s commute with a rigid
  transform `g` of the whole scene (state and gravity), field by field.

* `positional_step_equivariant`, `positional_steps_equivariant`, `positional_init_equivariant`,
  `positional_trajectory_equivariant` (bottom of the file; stage lemmas in `Lemmas/C05Pos.lean`) —
  the same for `positional.pipeline`, under the additional hypothesis `DispClear` that no joint
  displacement of the step lies in the dead zone of `math.safe_norm` (a coordinate-wise
  `jp.allclose(x, 0)` test, which is *not* rotation invariant: without the hypothesis the statement
  is false of the model and of the real code — a finding, see the section below).

Not proved (tied by the correspondence / observed by the search only): equivariance of a full
`pipeline.step` of the generalized pipeline (`…Stmt` below).
-/
set_option linter.unusedSectionVars false
namespace Brax.C05
open Brax Kin KinPos KinVel KinEquiv

/-- the transformed inputs are related to the original ones link by link -/
theorem zip_rel_xform (g : Tf ℝ) (ps : List Int) (lks : List (LinkP ℝ)) (ins : List (LinkIn ℝ))
    (hok : ∀ x ∈ ps.zip (lks.zip ins), LinkOK x.1 x.2.1 x.2.2 ∧ (x.1 < 0 → x.2.2.typ = .free)) :
    List.Forall₂ (fun (x y : Int × (Tf ℝ × Motion ℝ)) =>
        x.1 = y.1 ∧ ∃ lk l, x.2 = linkArg (lk, l) ∧ y.2 = linkArg (lk, xformIn g l)
          ∧ LinkOK x.1 lk l ∧ (x.1 < 0 → l.typ = .free))
      (ps.zip ((lks.zip ins).map linkArg)) (ps.zip ((lks.zip (ins.map (xformIn g))).map linkArg)) := by
  induction ps generalizing lks ins with
  | nil => simp
  | cons p ps ih =>
    cases lks with
    | nil => simp
    | cons lk lks =>
      cases ins with
      | nil => simp
      | cons l ins =>
        simp only [List.zip_cons_cons, List.map_cons]
        have h0 := hok (p, lk, l) (by simp)
        refine List.Forall₂.cons ⟨rfl, lk, l, rfl, rfl, h0.1, h0.2⟩ (ih lks ins ?_)
        intro x hx; exact hok x (by simp [hx])

/-- **C05, rigid transform of the scene (kinematics).**  For a system all of whose roots are free,
transforming the root coordinates by a rigid transform `g` (unit quaternion): every link's world
transform is composed with `g` and every world velocity is rotated by `g`. -/
theorem forward_equivariant (s : Sys ℝ) (ins : List (LinkIn ℝ)) (g : Tf ℝ) (hg : g.rot.IsUnit)
    (hwf : ParentsWF s.parents)
    (hok : ∀ x ∈ s.parents.zip (s.links.zip ins),
      LinkOK x.1 x.2.1 x.2.2 ∧ (x.1 < 0 → x.2.2.typ = .free)) :
    forwardIns s (ins.map (xformIn g))
      = (forwardIns s ins).map (fun x => (Tf.doTf g x.1, rotM g x.2)) := by
  have hunit := forwardRaw_unit s.parents (s.links.zip ins) (fun x hx => (hok x hx).1)
  have hrel := scanFwd_rel_wf
    (fun (x y : Tf ℝ × Motion ℝ) => y = (Tf.doTf g x.1, rotM g x.2))
    (fun p (a b : Tf ℝ × Motion ℝ) => ∃ lk l, a = linkArg (lk, l) ∧ b = linkArg (lk, xformIn g l)
      ∧ LinkOK p lk l ∧ (p < 0 → l.typ = .free))
    world world
    (by
      intro p par par' a b hpar hS hroot
      obtain ⟨lk, l, ha, hb, hk, hfr⟩ := hS
      subst ha hb
      cases hpar with
      | none =>
        have hp : p < 0 := hroot.mpr rfl
        exact world_root_equiv g p lk l hk (hfr hp)
      | @some x y hxy =>
        subst hxy
        have hnf : l.typ ≠ .free := by
          intro hfree
          have h1 := (hk.free hfree).1
          have h2 := hroot.mp h1
          cases h2
        rw [xformIn_nonfree g l hnf]
        obtain ⟨x1, x2⟩ := x
        exact world_child_equiv g hg x1 x2 _)
    s.parents _ _ hwf (zip_rel_xform g s.parents s.links ins hok)
  unfold forwardIns
  generalize scanFwd world s.parents ((s.links.zip ins).map linkArg) = xs at hrel hunit
  generalize scanFwd world s.parents ((s.links.zip (ins.map (xformIn g))).map linkArg) = ys at hrel
  induction hrel with
  | nil => rfl
  | @cons x y xs ys hxy _ ih =>
    simp only [List.map_cons]
    rw [ih (fun z hz => hunit z (List.mem_cons_of_mem _ hz))]
    congr 1
    subst hxy
    have hu := hunit x (List.mem_cons_self)
    have hu' : (Tf.doTf g x.1).rot.IsUnit := by
      simp only [Tf.doTf]; exact Q4.IsUnit.mul hg hu
    simp only [normalize4_unit hu, normalize4_unit hu']

/-- joint coordinates of non-root links are inputs that the transform leaves untouched -/
theorem xform_keeps_joint_coordinates (g : Tf ℝ) (l : LinkIn ℝ) (h : l.typ ≠ .free) :
    (xformIn g l).q = l.q ∧ (xformIn g l).qd = l.qd := by
  rw [xformIn_nonfree g l h]; exact ⟨rfl, rfl⟩

/-- **C05, sibling order.**  Relabelling the links by any `σ` (inverse `τ`) under which parents
still precede children permutes the per-link results of every root-to-leaf tree recursion. -/
theorem scan_sibling_permutation {β γ : Type} (f : Option β → γ → β) (ps : List Int) (as : List γ)
    (d : γ) (n : Nat) (hps : ps.length = n) (has : as.length = n) (σ τ : Nat → Nat)
    (hσ : ∀ k, k < n → σ k < n) (hτσ : ∀ k, k < n → τ (σ k) = k) (hστ : ∀ i, i < n → σ (τ i) = i)
    (hτ : ∀ i, i < n → τ i < n)
    (hwf : ParentsWF ps) (hwf' : ParentsWF (permParents n σ τ ps)) :
    ∀ k, k < n → (scanFwd f (permParents n σ τ ps) (permArgs n σ as d))[k]?
      = (scanFwd f ps as)[σ k]? :=
  scanFwd_perm f ps as d n hps has σ τ hσ hτσ hστ hτ hwf hwf'

/-- **C05, mechanically disconnected parts.**  For the disjoint union of two forests every
root-to-leaf tree recursion is the concatenation of the two separate ones. -/
theorem components_independent {β γ : Type} (f : Option β → γ → β) (ps1 ps2 : List Int)
    (as1 as2 : List γ) (h1 : ps1.length = as1.length) (h2 : ps2.length = as2.length)
    (hwf2 : ParentsWF ps2) :
    scanFwd f (ps1 ++ shiftParents ps1.length ps2) (as1 ++ as2)
      = scanFwd f ps1 as1 ++ scanFwd f ps2 as2 :=
  scanFwd_disjoint_union f ps1 ps2 as1 as2 h1 h2 hwf2

/-- non-vacuity of the permutation theorem: swapping the two children of a root -/
example : ParentsWF [-1, 0, 0] ∧ ParentsWF (permParents 3 (fun k => [0, 2, 1].getD k 0)
    (fun i => [0, 2, 1].getD i 0) [-1, 0, 0]) := by
  constructor
  · intro i hi
    match i, hi with
    | 0, _ => simp [permParents]
    | 1, _ => simp [permParents]
    | 2, _ => simp [permParents]
  · intro i hi
    match i, hi with
    | 0, _ => simp [permParents]
    | 1, _ => simp [permParents]
    | 2, _ => simp [permParents]

/-! Full statement (kept visible): one `pipeline.step` of each native pipeline commutes with `g`
on contact-free scenes.  `forward_equivariant` is the kinematics part of it.  For the **spring**
pipeline it is proved below (`spring_step_equivariant` … `spring_trajectory_equivariant`).  For the
positional pipeline it is proved below outside the dead zone of `math.safe_norm`
(`positional_step_equivariant` …; inside the dead zone it is false).  For the generalized pipeline
the dynamics part is still tied by the correspondence and observed by the search only.

def step_equivariant_Stmt : Prop :=
  ∀ pipeline sys state ctrl g, step (g • sys) (g • state) ctrl = g • step sys state ctrl
-/

/-! ## The spring pipeline: `init` and `step` commute with a rigid transform of the scene

`g • sys = gSys g sys` (gravity rotated), `g • state = gState g sys state q' qd'` (`Lemmas/C05Spring.lean`):
`x, x_i, a_c ↦ g ∘ ·`; `xd, xd_i ↦ R_g ·` (both parts); `i_inv ↦ R_g · R_gᵀ`; `mass` unchanged;
`j`, `jd`, `a_p` of **non-root** links: `j`, `jd` unchanged, `a_p ↦ g ∘ a_p`; of **root** links:
`a_p` unchanged (it is `link.transform ∘ link.joint` in the fixed world frame — `world_to_joint`
recomputes it from the system alone), `j`, `jd` recomputed from the transformed child anchor and world
velocity by the root formulas of `world_to_joint` (for `a_p = identity`, as for a free link loaded
from MJCF, that is `j ↦ g ∘ j`, `jd ↦ R_g jd`: `gJ_root_id`, `gJd_root_id`).
`q'`, `qd'` are the generalized coordinates of the transformed state; `step` reads them only
through `actuator.to_tau`, so all that is needed is `ActAgree` (they agree with `q`, `qd` at the
actuated coordinates — a rigid transform changes only the coordinates of the free roots).

Hypotheses, and why each is needed:
* `g.rot.IsUnit` — `g` is a rigid transform (`rotate · g.rot` is a rotation only for unit `g.rot`);
* `FreeRooted s` — a forest whose roots are all free links: a hinge/slide attached to the world is
  anchored at a fixed world point, so moving the scene is *not* a symmetry for it;
* `s.links.length = s.numLinks`, `State.WF s st` — the shape guards (`Sys.WF`, `State.WF`) the driver
  checks on every input (outside an array the model returns `Transform.zero`, which `g` moves);
* `ActAgree` — see above.
No hypothesis on unit quaternions in the state, on masses or on the time step is needed; over ℝ the
normalisation `rot / ‖rot‖` is total (`x / 0 = 0`), where the float code would give NaN on both sides. -/
section spring
open C05L C04L MC

/-- **C05, one contact-free spring step commutes with the rigid transform `g`** — equality of
whole states; `q`, `qd` of the result are `kinematics.inverse` (`inv`) of the transformed `j`, `jd`. -/
theorem spring_step_equivariant (inv : List (Tf ℝ) → List (Motion ℝ) → List ℝ × List ℝ)
    (g : Tf ℝ) (hg : g.rot.IsUnit) (s : Sys ℝ) (st : Spring.State ℝ) (act q' qd' : List ℝ)
    (hfr : FreeRooted s) (hlinks : s.links.length = s.numLinks)
    (hwf : Spring.State.WF s st = true) (hact : ActAgree s st.q st.qd q' qd') :
    Spring.step inv (fun _ => []) (gSys g s) (gState g s st q' qd') act
      = gState g s (Spring.step inv (fun _ => []) s st act)
          (inv (gJ g s.parents (Spring.step inv (fun _ => []) s st act).a_p
                  (Spring.step inv (fun _ => []) s st act).a_c
                  (Spring.step inv (fun _ => []) s st act).j)
               (gJd g s.parents (Spring.step inv (fun _ => []) s st act).a_p
                  (Spring.step inv (fun _ => []) s st act).xd
                  (Spring.step inv (fun _ => []) s st act).jd)).1
          (inv (gJ g s.parents (Spring.step inv (fun _ => []) s st act).a_p
                  (Spring.step inv (fun _ => []) s st act).a_c
                  (Spring.step inv (fun _ => []) s st act).j)
               (gJd g s.parents (Spring.step inv (fun _ => []) s st act).a_p
                  (Spring.step inv (fun _ => []) s st act).xd
                  (Spring.step inv (fun _ => []) s st act).jd)).2 :=
  C05L.spring_step_equivariant g hg s st act q' qd' hfr (LenOK.of_wf hwf) hact inv hlinks

/-- the same, read field by field (the property's wording): link poses are composed with `g`, link
velocities rotated, joint coordinates of non-root links unchanged -/
theorem spring_step_equivariant_fields (inv : List (Tf ℝ) → List (Motion ℝ) → List ℝ × List ℝ)
    (g : Tf ℝ) (hg : g.rot.IsUnit) (s : Sys ℝ) (st : Spring.State ℝ) (act q' qd' : List ℝ)
    (hfr : FreeRooted s) (hlinks : s.links.length = s.numLinks)
    (hwf : Spring.State.WF s st = true) (hact : ActAgree s st.q st.qd q' qd') :
    let o := Spring.step inv (fun _ => []) s st act
    let o' := Spring.step inv (fun _ => []) (gSys g s) (gState g s st q' qd') act
    o'.x = o.x.map (Tf.doTf g) ∧ o'.xd = o.xd.map (rotM g)
    ∧ o'.x_i = o.x_i.map (Tf.doTf g) ∧ o'.xd_i = o.xd_i.map (rotM g)
    ∧ o'.a_c = o.a_c.map (Tf.doTf g) ∧ o'.a_p = gAp g s.parents o.a_p
    ∧ o'.i_inv = o.i_inv.map (conjM g.rot) ∧ o'.mass = o.mass
    ∧ (∀ i, i < s.numLinks → ¬ parentOf s.parents i < 0 →
        nth o'.j i = nth o.j i ∧ nth o'.jd i = nth o.jd i)
    ∧ o'.q = (inv o'.j o'.jd).1 ∧ o'.qd = (inv o'.j o'.jd).2 := by
  intro o o'
  have hq : o'.q = (inv o'.j o'.jd).1 := step_q inv _ _ _ _
  have hqd : o'.qd = (inv o'.j o'.jd).2 := step_qd inv _ _ _ _
  have hm : o'.mass = o.mass := by
    rw [step_mass, step_mass, gState_mass]
  have h : o' = gState g s o _ _ :=
    spring_step_equivariant inv g hg s st act q' qd' hfr hlinks hwf hact
  clear_value o o'
  refine ⟨?_, ?_, ?_, ?_, ?_, ?_, ?_, hm, ?_, hq, hqd⟩
  · rw [h]; rfl
  · rw [h]; rfl
  · rw [h]; rfl
  · rw [h]; rfl
  · rw [h]; rfl
  · rw [h]; rfl
  · rw [h]; rfl
  · intro i hi' hr
    have hi'' : i < s.parents.length := by rw [hfr.hlen]; exact hi'
    have hj : o'.j = gJ g s.parents o.a_p o.a_c o.j := by rw [h]; rfl
    have hjd : o'.jd = gJd g s.parents o.a_p o.xd o.jd := by rw [h]; rfl
    rw [hj, hjd]
    exact ⟨gJ_nonroot g _ _ _ _ hi'' hr, gJd_nonroot g _ _ _ _ hi'' hr⟩

/-- **C05, any number of contact-free spring steps** (`InvLocal`: `kinematics.inverse` computes the
actuated coordinates from the rows of non-root links only) -/
theorem spring_steps_equivariant (inv : List (Tf ℝ) → List (Motion ℝ) → List ℝ × List ℝ)
    (g : Tf ℝ) (hg : g.rot.IsUnit) (s : Sys ℝ) (hfr : FreeRooted s)
    (hlinks : s.links.length = s.numLinks) (hinv : InvLocal s inv) (acts : List (List ℝ))
    (st : Spring.State ℝ) (q' qd' : List ℝ) (hwf : Spring.State.WF s st = true)
    (hact : ActAgree s st.q st.qd q' qd') :
    ∃ q'' qd'', steps inv (gSys g s) (gState g s st q' qd') acts
        = gState g s (steps inv s st acts) q'' qd''
      ∧ ActAgree s (steps inv s st acts).q (steps inv s st acts).qd q'' qd'' :=
  C05L.spring_steps_equivariant g hg s inv hfr hlinks hinv acts st q' qd' (LenOK.of_wf hwf) hact

/-- **C05, `spring.pipeline.init` commutes with the rigid transform**: for the root coordinates
transformed by `xformIn g` (the transform `forward_equivariant` is about), the initial state is the
transform of the initial state -/
theorem spring_init_equivariant (g : Tf ℝ) (hg : g.rot.IsUnit) (s : Sys ℝ) (q qd q' qd' : List ℝ)
    (hfr : FreeRooted s) (hlinks : s.links.length = s.numLinks) (hpw : ParentsWF s.parents)
    (hok : ∀ x ∈ s.parents.zip (s.links.zip (linkSlices s.types q qd s.dofs)),
      LinkOK x.1 x.2.1 x.2.2 ∧ (x.1 < 0 → x.2.2.typ = .free))
    (hq : linkSlices s.types q' qd' s.dofs = (linkSlices s.types q qd s.dofs).map (xformIn g)) :
    Spring.init (gSys g s) q' qd' = gState g s (Spring.init s q qd) q' qd' := by
  apply init_equiv_of_forward g hg s q qd q' qd' hfr hlinks
  rw [forward_eq_forwardIns, forward_eq_forwardIns, hq]
  exact forward_equivariant s _ g hg hpw hok

/-- **C05, spring pipeline, whole trajectories from `init`**: `init` followed by any number of
contact-free steps, on the transformed coordinates in the transformed system, is the transform of
the original trajectory's end state -/
theorem spring_trajectory_equivariant (inv : List (Tf ℝ) → List (Motion ℝ) → List ℝ × List ℝ)
    (g : Tf ℝ) (hg : g.rot.IsUnit) (s : Sys ℝ) (q qd q' qd' : List ℝ) (acts : List (List ℝ))
    (hfr : FreeRooted s) (hlinks : s.links.length = s.numLinks) (hpw : ParentsWF s.parents)
    (hinv : InvLocal s inv)
    (hok : ∀ x ∈ s.parents.zip (s.links.zip (linkSlices s.types q qd s.dofs)),
      LinkOK x.1 x.2.1 x.2.2 ∧ (x.1 < 0 → x.2.2.typ = .free))
    (hq : linkSlices s.types q' qd' s.dofs = (linkSlices s.types q qd s.dofs).map (xformIn g))
    (hact : ActAgree s q qd q' qd') :
    ∃ q'' qd'', steps inv (gSys g s) (Spring.init (gSys g s) q' qd') acts
        = gState g s (steps inv s (Spring.init s q qd) acts) q'' qd''
      ∧ ActAgree s (steps inv s (Spring.init s q qd) acts).q
          (steps inv s (Spring.init s q qd) acts).qd q'' qd'' := by
  rw [spring_init_equivariant g hg s q qd q' qd' hfr hlinks hpw hok hq]
  exact C05L.spring_steps_equivariant g hg s inv hfr hlinks hinv acts _ q' qd'
    (LenOK.init s q qd hlinks hfr.hlen) hact

/-! ### non-vacuity: a free root carrying a hinged, actuated child; `g` = rotation by
`2·atan(4/3)` about `z` (unit quaternion `(3/5, 0, 0, 4/5)`) followed by a translation -/

/-- a link with identity `transform`/`joint`, unit mass and inertia -/
noncomputable def exLink : LinkP ℝ := ⟨Tf.id, Tf.id, ⟨Tf.id, M3.one, 1⟩, 1, 100, 1, 100, 1⟩
noncomputable def exDof (ang vel : V3 ℝ) : DofP ℝ := ⟨⟨ang, vel⟩, 0, 0, 0, none, none, 1⟩
/-- free root (link 0) with a child (link 1) on a hinge about `z`, driven by one motor -/
noncomputable def exSys : Sys ℝ :=
  { types := [.free, .one], parents := [-1, 0], links := [exLink, exLink],
    dofs := [exDof ⟨0, 0, 0⟩ ⟨1, 0, 0⟩, exDof ⟨0, 0, 0⟩ ⟨0, 1, 0⟩, exDof ⟨0, 0, 0⟩ ⟨0, 0, 1⟩,
             exDof ⟨1, 0, 0⟩ ⟨0, 0, 0⟩, exDof ⟨0, 1, 0⟩ ⟨0, 0, 0⟩, exDof ⟨0, 0, 1⟩ ⟨0, 0, 0⟩,
             exDof ⟨0, 0, 1⟩ ⟨0, 0, 0⟩],
    hasLimit := false, acts := [⟨7, 6, none, none, none, none, 1, 1, 0, 0⟩],
    gravity := ⟨0, 0, -9.81⟩, dt := 0.01, velDamping := 0, angDamping := 0, baumgarteErp := 0.1,
    springMassScale := 0, springInertiaScale := 0, jointScaleAng := 0.2, jointScalePos := 0.5,
    collideScale := 1 }
noncomputable def exG : Tf ℝ := ⟨⟨1, -2, 3⟩, ⟨3/5, 0, 0, 4/5⟩⟩
noncomputable def exState : Spring.State ℝ :=
  { q := [0, 0, 1, 1, 0, 0, 0, 0.3], qd := [0, 0, 0, 0, 0, 0, 0.1],
    x := [⟨⟨0, 0, 1⟩, Q4.one⟩, ⟨⟨1, 0, 1⟩, Q4.one⟩], xd := [⟨⟨0, 0, 0⟩, ⟨0, 0, 0⟩⟩, ⟨⟨0, 0, 0.1⟩, ⟨0, 0, 0⟩⟩],
    x_i := [⟨⟨0, 0, 1⟩, Q4.one⟩, ⟨⟨1, 0, 1⟩, Q4.one⟩],
    xd_i := [⟨⟨0, 0, 0⟩, ⟨0, 0, 0⟩⟩, ⟨⟨0, 0, 0.1⟩, ⟨0, 0, 0⟩⟩],
    j := [⟨⟨0, 0, 1⟩, Q4.one⟩, ⟨⟨0, 0, 0⟩, Q4.one⟩], jd := [⟨⟨0, 0, 0⟩, ⟨0, 0, 0⟩⟩, ⟨⟨0, 0, 0.1⟩, ⟨0, 0, 0⟩⟩],
    a_p := [Tf.id, ⟨⟨0, 0, 1⟩, Q4.one⟩], a_c := [⟨⟨0, 0, 1⟩, Q4.one⟩, ⟨⟨1, 0, 1⟩, Q4.one⟩],
    i_inv := [M3.one, M3.one], mass := [1, 1] }

theorem exSys_freeRooted : FreeRooted exSys where
  hlen := rfl
  hpar := by
    intro i hi
    have hi' : i < 2 := hi
    match i, hi' with
    | 0, _ => simp [parentOf, exSys]
    | 1, _ => simp [parentOf, exSys]
  hroot := by
    intro i hi hp
    have hi' : i < 2 := hi
    match i, hi' with
    | 0, _ => simp [exSys]
    | 1, _ => simp [parentOf, exSys] at hp

/-- the hypotheses of `spring_step_equivariant` hold for this system, state and transform (the
transformed state's `q'`, `qd'` have the root coordinates changed and the hinge angle/rate kept) -/
example : exG.rot.IsUnit ∧ FreeRooted exSys ∧ exSys.links.length = exSys.numLinks
    ∧ Spring.State.WF exSys exState = true
    ∧ ActAgree exSys exState.q exState.qd [1, -2, 4, 3/5, 0, 0, 4/5, 0.3] [0, 0, 0, 0, 0, 0, 0.1] := by
  refine ⟨?_, exSys_freeRooted, rfl, ?_, ?_⟩
  · simp only [Q4.IsUnit, Q4.normSq, exG]; norm_num
  · simp [Spring.State.WF, exSys, exState, Sys.numLinks, Sys.nq, Sys.nv, LinkType.qWidth, LinkType.qdWidth]
  · intro a ha
    simp only [exSys, List.mem_singleton] at ha
    subst ha
    simp [nthS, exState]

/-- `InvLocal` is satisfiable with an `inv` that really reads the hinge row -/
example : InvLocal exSys (fun j jd =>
    ([0, 0, 0, 1, 0, 0, 0, (nth j 1).pos.x], [0, 0, 0, 0, 0, 0, (nth jd 1).ang.z])) := by
  intro j j' jd jd' h a ha
  simp only [exSys, List.mem_singleton] at ha
  subst ha
  obtain ⟨h1, h2⟩ := h 1 (by show 1 < 2; omega) (by simp [parentOf, exSys])
  simp [nthS, h1, h2]

/-- a single free body -/
noncomputable def exSys1 : Sys ℝ :=
  { exSys with types := [.free], parents := [-1], links := [exLink], dofs := exSys.dofs.take 6, acts := [] }

theorem exSys1_freeRooted : FreeRooted exSys1 where
  hlen := rfl
  hpar := by
    intro i hi
    have hi' : i < 1 := hi
    match i, hi' with
    | 0, _ => simp [parentOf, exSys1]
  hroot := by
    intro i hi hp
    have hi' : i < 1 := hi
    match i, hi' with
    | 0, _ => simp [exSys1]

/-- the hypotheses of `spring_init_equivariant` / `spring_trajectory_equivariant` hold for a single
free body, the transform `exG` and the transformed coordinates written out as numbers -/
example : FreeRooted exSys1 ∧ exSys1.links.length = exSys1.numLinks ∧ ParentsWF exSys1.parents
    ∧ InvLocal exSys1 (fun _ _ => ([], []))
    ∧ (∀ x ∈ exSys1.parents.zip (exSys1.links.zip
          (linkSlices exSys1.types [0, 0, 1, 1, 0, 0, 0] [1, 0, 0, 0, 0, 0.5] exSys1.dofs)),
        LinkOK x.1 x.2.1 x.2.2 ∧ (x.1 < 0 → x.2.2.typ = .free))
    ∧ linkSlices exSys1.types [1, -2, 4, 3/5, 0, 0, 4/5] [-7/25, 24/25, 0, 0, 0, 0.5] exSys1.dofs
        = (linkSlices exSys1.types [0, 0, 1, 1, 0, 0, 0] [1, 0, 0, 0, 0, 0.5] exSys1.dofs).map (xformIn exG)
    ∧ ActAgree exSys1 [0, 0, 1, 1, 0, 0, 0] [1, 0, 0, 0, 0, 0.5]
        [1, -2, 4, 3/5, 0, 0, 4/5] [-7/25, 24/25, 0, 0, 0, 0.5] := by
  refine ⟨exSys1_freeRooted, rfl, ?_, ?_, ?_, ?_, ?_⟩
  · intro i hi
    have hi' : i < 1 := hi
    match i, hi' with
    | 0, _ => simp [exSys1]
  · intro j j' jd jd' _ a ha; simp [exSys1] at ha
  · intro x hx
    simp only [exSys1, exSys, linkSlices, List.zip_cons_cons, List.zip_nil_right, List.mem_singleton,
      LinkType.qWidth, LinkType.qdWidth] at hx
    subst hx
    refine ⟨⟨?_, rfl, ?_, ?_⟩, fun _ => rfl⟩
    · simp [exLink, Tf.id, Q4.IsUnit, Q4.normSq, Q4.one]
    · intro _
      refine ⟨by norm_num, rfl, rfl, by simp, 0, 0, 1, 1, 0, 0, 0, by simp, ?_⟩
      simp [Q4.IsUnit, Q4.normSq]
    · intro h; simp at h
  · simp only [exSys1, exSys, linkSlices, LinkType.qWidth, LinkType.qdWidth, List.map_cons, List.map_nil,
      xformIn, exG]
    simp only [List.take, Tf.doTf, rotate, quatMul, V3.dot, V3.cross, Q4.vec, V3.add_def]
    norm_num
  · intro a ha; simp [exSys1] at ha
end spring

/-! ## The positional pipeline: `init` and `step` commute with a rigid transform of the scene

`g • sys = gSys g sys`, `g • state = gStateP g sys state q' qd'` (`Lemmas/C05Pos.lean`; the action is the
one of the spring section, a positional state has no `i_inv`).  Stages proved one by one:
`accUpdate_equiv` (joint forces + the spring assembly), `acceleration_equiv`, `integrateXdd_equiv`,
`jointDisplacements_equiv` (`d_j` is a function of `j`, unchanged on non-root links and masked on free
roots; `d_w` is rotated because `a_p.rot ↦ g.rot ⊗ a_p.rot`), `translationUpdate_equiv`,
`rotationUpdate_equiv`, `positionAssemble_equiv` (position deltas rotate, the additive quaternion deltas
are multiplied by `g.rot` on the left, `segment_sum` is additive), `normTf_equiv` (contact-free
`resolve_position`), `projectXd_equiv`, `resolveVelocity_nil`, `integrateXdv_equiv`, then `com.to_world`
and `world_to_joint` from the spring file.

Hypotheses in addition to those of the spring theorem, and why each is needed:
* `UnitRot s st` — the rotations `x_i.rot` of the state are unit quaternions.  `math.normalize` (used by
  `integrate_xdd` and `resolve_position`) treats a quaternion with all `|q_k| ≤ 1e-8` as zero, a
  coordinate-wise and therefore frame-dependent test; for unit rotations its argument has length `≥ 1`
  (`normSq_qstep`, `positionAssemble_rot`).  Every state brax produces satisfies it, and the step
  preserves it (`positional_step_unitRot`).
* `DispClear s st act` — **the finding.**  `_translation_update` / `_rotation_update` normalise the
  *world-frame* joint displacement `d_w` with the same `math.normalize`; a displacement of length
  between `1e-8` and `√3·1e-8` is inside the cube `|x_k| ≤ 1e-8` in one frame (no correction at all)
  and outside it in another (full correction).  `DispClear`: every `d_w` of this step (`pDisp`) is exactly
  zero or longer than `√3·1e-8` — a frame-independent condition (`pDisp_equiv`).  Without it the
  statement is false: `safeNorm3_not_rotation_invariant` (model), and on the real
  `brax.positional.pipeline.step` (x64) a free body carrying a hinged child whose joint is separated by
  `(9e-9, 9e-9, 0)` is left untouched by the step, while the same scene rotated by 45° about `z` gets
  the correction (`xd.ang` differs by `1.7e-6 rad/s`, `x_i.pos` by `1.9e-10`; separations `5e-9` and
  `9e-7` agree to `5e-15`).  See `notes/C05-deepen-positional.md`.

The unconditional statement, kept visible — FALSE of the model and of the real code:

def positional_step_equivariant_Stmt : Prop :=
  ∀ inv g s st act q' qd', g.rot.IsUnit → FreeRooted s → s.links.length = s.numLinks →
    Positional.State.WF s st = true → ActAgree s st.q st.qd q' qd' → UnitRot s st →
    Positional.step inv (fun _ => []) (gSys g s) (gStateP g s st q' qd') act
      = gStateP g s (Positional.step inv (fun _ => []) s st act) (inv …).1 (inv …).2
-/
section positional
open C05L C05P C04L MC

/-- **C05, one contact-free positional step commutes with the rigid transform `g`** — equality of
whole states; `q`, `qd` of the result are `kinematics.inverse` (`inv`) of the transformed `j`, `jd`. -/
theorem positional_step_equivariant (inv : List (Tf ℝ) → List (Motion ℝ) → List ℝ × List ℝ)
    (g : Tf ℝ) (hg : g.rot.IsUnit) (s : Sys ℝ) (st : Positional.State ℝ) (act q' qd' : List ℝ)
    (hfr : FreeRooted s) (hlinks : s.links.length = s.numLinks)
    (hwf : Positional.State.WF s st = true) (hact : ActAgree s st.q st.qd q' qd')
    (hunit : UnitRot s st) (hclear : DispClear s st act) :
    Positional.step inv (fun _ => []) (gSys g s) (gStateP g s st q' qd') act
      = gStateP g s (Positional.step inv (fun _ => []) s st act)
          (inv (gJ g s.parents (Positional.step inv (fun _ => []) s st act).a_p
                  (Positional.step inv (fun _ => []) s st act).a_c
                  (Positional.step inv (fun _ => []) s st act).j)
               (gJd g s.parents (Positional.step inv (fun _ => []) s st act).a_p
                  (Positional.step inv (fun _ => []) s st act).xd
                  (Positional.step inv (fun _ => []) s st act).jd)).1
          (inv (gJ g s.parents (Positional.step inv (fun _ => []) s st act).a_p
                  (Positional.step inv (fun _ => []) s st act).a_c
                  (Positional.step inv (fun _ => []) s st act).j)
               (gJd g s.parents (Positional.step inv (fun _ => []) s st act).a_p
                  (Positional.step inv (fun _ => []) s st act).xd
                  (Positional.step inv (fun _ => []) s st act).jd)).2 :=
  C05P.positional_step_equivariant g hg s st act q' qd' hfr hlinks (PLenOK.of_wf hwf) hact hunit inv hclear

/-- the same, read field by field (the property's wording): link poses are composed with `g`, link
velocities rotated, joint coordinates of non-root links unchanged -/
theorem positional_step_equivariant_fields (inv : List (Tf ℝ) → List (Motion ℝ) → List ℝ × List ℝ)
    (g : Tf ℝ) (hg : g.rot.IsUnit) (s : Sys ℝ) (st : Positional.State ℝ) (act q' qd' : List ℝ)
    (hfr : FreeRooted s) (hlinks : s.links.length = s.numLinks)
    (hwf : Positional.State.WF s st = true) (hact : ActAgree s st.q st.qd q' qd')
    (hunit : UnitRot s st) (hclear : DispClear s st act) :
    let o := Positional.step inv (fun _ => []) s st act
    let o' := Positional.step inv (fun _ => []) (gSys g s) (gStateP g s st q' qd') act
    o'.x = o.x.map (Tf.doTf g) ∧ o'.xd = o.xd.map (rotM g)
    ∧ o'.x_i = o.x_i.map (Tf.doTf g) ∧ o'.xd_i = o.xd_i.map (rotM g)
    ∧ o'.a_c = o.a_c.map (Tf.doTf g) ∧ o'.a_p = gAp g s.parents o.a_p ∧ o'.mass = o.mass
    ∧ (∀ i, i < s.numLinks → ¬ parentOf s.parents i < 0 →
        nth o'.j i = nth o.j i ∧ nth o'.jd i = nth o.jd i)
    ∧ o'.q = (inv o'.j o'.jd).1 ∧ o'.qd = (inv o'.j o'.jd).2 := by
  intro o o'
  have hq : o'.q = (inv o'.j o'.jd).1 := pstep_q inv _ _ _ _
  have hqd : o'.qd = (inv o'.j o'.jd).2 := pstep_qd inv _ _ _ _
  have hm : o'.mass = o.mass := by
    rw [pstep_mass, pstep_mass]; rfl
  have h : o' = gStateP g s o _ _ :=
    positional_step_equivariant inv g hg s st act q' qd' hfr hlinks hwf hact hunit hclear
  clear_value o o'
  refine ⟨?_, ?_, ?_, ?_, ?_, ?_, hm, ?_, hq, hqd⟩
  · rw [h]; rfl
  · rw [h]; rfl
  · rw [h]; rfl
  · rw [h]; rfl
  · rw [h]; rfl
  · rw [h]; rfl
  · intro i hi' hr
    have hi'' : i < s.parents.length := by rw [hfr.hlen]; exact hi'
    have hj : o'.j = gJ g s.parents o.a_p o.a_c o.j := by rw [h]; rfl
    have hjd : o'.jd = gJd g s.parents o.a_p o.xd o.jd := by rw [h]; rfl
    rw [hj, hjd]
    exact ⟨gJ_nonroot g _ _ _ _ hi'' hr, gJd_nonroot g _ _ _ _ hi'' hr⟩

/-- the step keeps the rotations unit (so `UnitRot` is an invariant of trajectories, not a
hypothesis on every step) -/
theorem positional_step_unitRot (inv : List (Tf ℝ) → List (Motion ℝ) → List ℝ × List ℝ)
    (s : Sys ℝ) (st : Positional.State ℝ) (act : List ℝ)
    (hfr : FreeRooted s) (hlinks : s.links.length = s.numLinks)
    (hwf : Positional.State.WF s st = true) (hunit : UnitRot s st) :
    UnitRot s (Positional.step inv (fun _ => []) s st act) :=
  UnitRot.step Tf.id Q4.isUnit_one s st act st.q st.qd hfr hlinks (PLenOK.of_wf hwf)
    (fun _ _ => ⟨rfl, rfl⟩) hunit inv

/-- **C05, any number of contact-free positional steps** (`InvLocal`: `kinematics.inverse` computes
the actuated coordinates from the rows of non-root links only; `TrajClear`: `DispClear` at every step
of the original trajectory) -/
theorem positional_steps_equivariant (inv : List (Tf ℝ) → List (Motion ℝ) → List ℝ × List ℝ)
    (g : Tf ℝ) (hg : g.rot.IsUnit) (s : Sys ℝ) (hfr : FreeRooted s)
    (hlinks : s.links.length = s.numLinks) (hinv : InvLocal s inv) (acts : List (List ℝ))
    (st : Positional.State ℝ) (q' qd' : List ℝ) (hwf : Positional.State.WF s st = true)
    (hunit : UnitRot s st) (hact : ActAgree s st.q st.qd q' qd') (hclear : TrajClear inv s st acts) :
    ∃ q'' qd'', psteps inv (gSys g s) (gStateP g s st q' qd') acts
        = gStateP g s (psteps inv s st acts) q'' qd''
      ∧ ActAgree s (psteps inv s st acts).q (psteps inv s st acts).qd q'' qd'' :=
  C05P.positional_steps_equivariant g hg s inv hfr hlinks hinv acts st q' qd' (PLenOK.of_wf hwf) hunit
    hact hclear

/-- **C05, `positional.pipeline.init` commutes with the rigid transform** (no dead-zone hypothesis:
`init` normalises nothing) -/
theorem positional_init_equivariant (g : Tf ℝ) (hg : g.rot.IsUnit) (s : Sys ℝ) (q qd q' qd' : List ℝ)
    (hfr : FreeRooted s) (hlinks : s.links.length = s.numLinks) (hpw : ParentsWF s.parents)
    (hok : ∀ x ∈ s.parents.zip (s.links.zip (linkSlices s.types q qd s.dofs)),
      LinkOK x.1 x.2.1 x.2.2 ∧ (x.1 < 0 → x.2.2.typ = .free))
    (hq : linkSlices s.types q' qd' s.dofs = (linkSlices s.types q qd s.dofs).map (xformIn g)) :
    Positional.init (gSys g s) q' qd' = gStateP g s (Positional.init s q qd) q' qd' := by
  apply pinit_equiv_of_forward g hg s q qd q' qd' hfr hlinks
  rw [forward_eq_forwardIns, forward_eq_forwardIns, hq]
  exact forward_equivariant s _ g hg hpw hok

/-- **C05, positional pipeline, whole trajectories from `init`** -/
theorem positional_trajectory_equivariant (inv : List (Tf ℝ) → List (Motion ℝ) → List ℝ × List ℝ)
    (g : Tf ℝ) (hg : g.rot.IsUnit) (s : Sys ℝ) (q qd q' qd' : List ℝ) (acts : List (List ℝ))
    (hfr : FreeRooted s) (hlinks : s.links.length = s.numLinks) (hpw : ParentsWF s.parents)
    (hinv : InvLocal s inv)
    (hok : ∀ x ∈ s.parents.zip (s.links.zip (linkSlices s.types q qd s.dofs)),
      LinkOK x.1 x.2.1 x.2.2 ∧ (x.1 < 0 → x.2.2.typ = .free))
    (hq : linkSlices s.types q' qd' s.dofs = (linkSlices s.types q qd s.dofs).map (xformIn g))
    (hact : ActAgree s q qd q' qd') (hunit : UnitRot s (Positional.init s q qd))
    (hclear : TrajClear inv s (Positional.init s q qd) acts) :
    ∃ q'' qd'', psteps inv (gSys g s) (Positional.init (gSys g s) q' qd') acts
        = gStateP g s (psteps inv s (Positional.init s q qd) acts) q'' qd''
      ∧ ActAgree s (psteps inv s (Positional.init s q qd) acts).q
          (psteps inv s (Positional.init s q qd) acts).qd q'' qd'' := by
  rw [positional_init_equivariant g hg s q qd q' qd' hfr hlinks hpw hok hq]
  exact C05P.positional_steps_equivariant g hg s inv hfr hlinks hinv acts _ q' qd'
    (PLenOK.init s q qd hlinks hfr.hlen) hunit hact hclear

/-! ### non-vacuity -/

/-- the state of `exState` as a positional state -/
noncomputable def exStateP : Positional.State ℝ :=
  { q := exState.q, qd := exState.qd, x := exState.x, xd := exState.xd, x_i := exState.x_i,
    xd_i := exState.xd_i, j := exState.j, jd := exState.jd, a_p := exState.a_p, a_c := exState.a_c,
    mass := exState.mass }

/-- every hypothesis of `positional_step_equivariant` except `DispClear` on the free root + hinged,
motor-driven child of the spring section (for a jointed system `DispClear` is a statement about the
result of trigonometric functions; it is the generic case — checked on the real code, not here) -/
example : exG.rot.IsUnit ∧ FreeRooted exSys ∧ exSys.links.length = exSys.numLinks
    ∧ Positional.State.WF exSys exStateP = true
    ∧ ActAgree exSys exStateP.q exStateP.qd [1, -2, 4, 3/5, 0, 0, 4/5, 0.3] [0, 0, 0, 0, 0, 0, 0.1]
    ∧ UnitRot exSys exStateP := by
  refine ⟨?_, exSys_freeRooted, rfl, ?_, ?_, ?_⟩
  · simp only [Q4.IsUnit, Q4.normSq, exG]; norm_num
  · simp [Positional.State.WF, exSys, exStateP, exState, Sys.numLinks, Sys.nq, Sys.nv, LinkType.qWidth,
      LinkType.qdWidth]
  · intro a ha
    simp only [exSys, List.mem_singleton] at ha
    subst ha
    simp [nthS, exStateP, exState]
  · intro i hi
    have hi' : i < 2 := hi
    match i, hi' with
    | 0, _ => simp [nth, exStateP, exState, Q4.IsUnit, Q4.normSq, Q4.one]
    | 1, _ => simp [nth, exStateP, exState, Q4.IsUnit, Q4.normSq, Q4.one]

/-- a positional state of the single free body `exSys1` -/
noncomputable def exStateP1 : Positional.State ℝ :=
  { q := [0, 0, 1, 1, 0, 0, 0], qd := [1, 0, 0, 0, 0, 0.5],
    x := [⟨⟨0, 0, 1⟩, Q4.one⟩], xd := [⟨⟨0, 0, 0.5⟩, ⟨1, 0, 0⟩⟩],
    x_i := [⟨⟨0, 0, 1⟩, Q4.one⟩], xd_i := [⟨⟨0, 0, 0.5⟩, ⟨1, 0, 0⟩⟩],
    j := [⟨⟨0, 0, 1⟩, Q4.one⟩], jd := [⟨⟨0, 0, 0.5⟩, ⟨1, 0, 0⟩⟩],
    a_p := [Tf.id], a_c := [⟨⟨0, 0, 1⟩, Q4.one⟩], mass := [1] }

/-- **all** hypotheses of `positional_step_equivariant` / `positional_steps_equivariant` (including
`DispClear` / `TrajClear`, for every control sequence) hold on a single free body -/
example (inv : List (Tf ℝ) → List (Motion ℝ) → List ℝ × List ℝ) (acts : List (List ℝ)) :
    exG.rot.IsUnit ∧ FreeRooted exSys1 ∧ exSys1.links.length = exSys1.numLinks
    ∧ Positional.State.WF exSys1 exStateP1 = true
    ∧ ActAgree exSys1 exStateP1.q exStateP1.qd [1, -2, 4, 3/5, 0, 0, 4/5] [-7/25, 24/25, 0, 0, 0, 0.5]
    ∧ UnitRot exSys1 exStateP1 ∧ InvLocal exSys1 (fun _ _ => ([], []))
    ∧ (∀ st, TrajClear inv exSys1 st acts) := by
  have hfree : ∀ i, i < exSys1.numLinks → exSys1.types[i]? = some .free := by
    intro i hi
    have hi' : i < 1 := hi
    match i, hi' with
    | 0, _ => simp [exSys1]
  refine ⟨?_, exSys1_freeRooted, rfl, ?_, ?_, ?_, ?_, ?_⟩
  · simp only [Q4.IsUnit, Q4.normSq, exG]; norm_num
  · simp [Positional.State.WF, exSys1, exSys, exStateP1, Sys.numLinks, Sys.nq, Sys.nv, LinkType.qWidth,
      LinkType.qdWidth]
  · intro a ha; simp [exSys1] at ha
  · intro i hi
    have hi' : i < 1 := hi
    match i, hi' with
    | 0, _ => simp [nth, exStateP1, Q4.IsUnit, Q4.normSq, Q4.one]
  · intro j j' jd jd' _ a ha; simp [exSys1] at ha
  · induction acts with
    | nil => intro st; trivial
    | cons a as ih => intro st; exact ⟨dispClear_of_free exSys1 st a hfree, ih _⟩
end positional

end Brax.C05

/-! ## sibling order and components, whole step

"Listing sibling bodies in a different order only permutes the per-link results, and mechanically
disconnected parts of one model evolve exactly as each would alone" — for a whole contact-free
`pipeline.step` of the spring and of the positional pipeline (lemmas: `Lemmas/C05Perm.lean`,
`Lemmas/C05PermPos.lean`; one general theorem, `step_restr` / `pstep_restr`: the step restricts
along any embedding of a union of connected components).

**Components.**  `unionSys s1 s2`: links of `s1` followed by links of `s2`, the non-negative parent
ids of `s2` shifted by `s1.numLinks` (`Kin.shiftParents`, as in `components_independent`), dof
arrays concatenated, actuators of `s2` re-indexed (`q_id + s1.nq`, `qd_id + s1.nv`), options of
`s1`.  `unionState`: every array of the state concatenated.  Hypotheses, all explicit:
* `Sys.WF` of both systems (array lengths, `-1 ≤ parent i < i`, actuator ids in range — the last
  one is what keeps `actuator.to_tau` of the first part from reading the second part's `q`);
* `SameGlobals` (`SameGlobalsP`): the options the step reads (`dof.limit is None`, gravity, dt, the
  two dampings, `spring_inertia_scale`; positional also `spring_mass_scale`, `joint_scale_pos/ang`)
  are equal — one model has one set of options;
* `State.WF` of both states (array lengths); `act1.length = s1.acts.length` (the controls of the
  union are split where the actuators are);
* `InvSplit`: `kinematics.inverse` (the abstract parameter `inv`) of the union is the concatenation
  of the inverses (the real one computes each link's `q`/`qd` slice from that link's own row).
Not needed: free roots, unit quaternions, positive masses.  The model's wart — `joints.resolve`
computes a root's parent-side lever arm against `x_i.take(-1)`, which in the union is the last link
of the *other* part — does not leak: that entry carries id `-1` and `segment_sum` drops it
(`C05Perm.assemble_restr`).

**Sibling order.**  `Relabel σ τ s s'`: `σ` (new index ↦ old index) is a bijection of the links with
inverse `τ`, `s'.links` / `s'.parents` are the relabelled arrays (`Kin.permParents`, as in
`scan_sibling_permutation`), same options.  `DofsRelabel`: link types and the flat dof array are
permuted blockwise.  `ActRel`: the actuators are the same actuators, in the same order, re-indexed to
the moved blocks, and read equal coordinates of `(q', qd')` and `(q, qd)` (which is what "the flat
`q`/`qd` arrays are permuted blockwise" gives).  `permState`: every per-link array relabelled.
The result's `q`, `qd` are `kinematics.inverse` of the relabelled system applied to the relabelled
`j`, `jd` (a congruence, as in `spring_step_equivariant`).
**Stronger than asked**: nothing is assumed about the order of parents and children in either
numbering — a step of these two pipelines never scans the tree (`kinematics.forward`, used by
`init` only, does).

Not proved here: the generalized pipeline; `init` (= `kinematics.forward`, for which the
scan-level statements `scan_sibling_permutation` / `components_independent` above apply);
several steps (needs `InvSplit` plus the output lengths of `inv`); scenes with contacts. -/
namespace Brax.C05
section permWhole
open C05L C05P C04L MC C05Perm

/-- **C05, mechanically disconnected parts, one whole spring step (contact-free)**: equality of
whole `Spring.State`s -/
theorem spring_step_components (inv12 inv1 inv2 : List (Tf ℝ) → List (Motion ℝ) → List ℝ × List ℝ)
    (s1 s2 : Sys ℝ) (st1 st2 : Spring.State ℝ) (act1 act2 : List ℝ)
    (hwf1 : s1.WF = true) (hwf2 : s2.WF = true) (hg : SameGlobals s1 s2)
    (hst1 : Spring.State.WF s1 st1 = true) (hst2 : Spring.State.WF s2 st2 = true)
    (hact : act1.length = s1.acts.length) (hinv : InvSplit s1.numLinks inv12 inv1 inv2) :
    Spring.step inv12 (fun _ => []) (unionSys s1 s2) (unionState st1 st2) (act1 ++ act2)
      = unionState (Spring.step inv1 (fun _ => []) s1 st1 act1)
          (Spring.step inv2 (fun _ => []) s2 st2 act2) :=
  spring_step_union inv12 inv1 inv2 s1 s2 st1 st2 act1 act2 (WFParts.of_wf hwf1) (WFParts.of_wf hwf2)
    hg (StLens.of_wf hst1) (StLens.of_wf hst2) hact hinv

/-- **C05, mechanically disconnected parts, one whole positional step (contact-free)** -/
theorem positional_step_components
    (inv12 inv1 inv2 : List (Tf ℝ) → List (Motion ℝ) → List ℝ × List ℝ)
    (s1 s2 : Sys ℝ) (st1 st2 : Positional.State ℝ) (act1 act2 : List ℝ)
    (hwf1 : s1.WF = true) (hwf2 : s2.WF = true) (hg : SameGlobalsP s1 s2)
    (hst1 : Positional.State.WF s1 st1 = true) (hst2 : Positional.State.WF s2 st2 = true)
    (hact : act1.length = s1.acts.length) (hinv : InvSplit s1.numLinks inv12 inv1 inv2) :
    Positional.step inv12 (fun _ => []) (unionSys s1 s2) (unionStateP st1 st2) (act1 ++ act2)
      = unionStateP (Positional.step inv1 (fun _ => []) s1 st1 act1)
          (Positional.step inv2 (fun _ => []) s2 st2 act2) :=
  positional_step_union inv12 inv1 inv2 s1 s2 st1 st2 act1 act2 (WFParts.of_wf hwf1)
    (WFParts.of_wf hwf2) hg (PStLens.of_wf hst1) (PStLens.of_wf hst2) hact hinv

/-- **C05, sibling order, one whole spring step (contact-free)**: the step of the relabelled
system on the relabelled state is the relabelling of the step -/
theorem spring_step_sibling_order (inv inv' : List (Tf ℝ) → List (Motion ℝ) → List ℝ × List ℝ)
    {σ τ : Nat → Nat} {s s' : Sys ℝ} (hR : Relabel σ τ s s') (hD : DofsRelabel σ s s')
    (st : Spring.State ℝ) (act q' qd' : List ℝ) (hxi : st.x_i.length = s.numLinks)
    (hA : List.Forall₂ (ActRel σ s s' st.q st.qd q' qd') s'.acts s.acts) :
    Spring.step inv' (fun _ => []) s' (permState σ s.numLinks st q' qd') act
      = permState σ s.numLinks (Spring.step inv (fun _ => []) s st act)
          (inv' (permList σ s.numLinks (Spring.step inv (fun _ => []) s st act).j)
                (permList σ s.numLinks (Spring.step inv (fun _ => []) s st act).jd)).1
          (inv' (permList σ s.numLinks (Spring.step inv (fun _ => []) s st act).j)
                (permList σ s.numLinks (Spring.step inv (fun _ => []) s st act).jd)).2 :=
  spring_step_relabel inv inv' hR st act act q' qd' hxi
    (insAgree_of_flat σ s s' act st.q st.qd q' qd' hD hA)

/-- **C05, sibling order, one whole positional step (contact-free)** -/
theorem positional_step_sibling_order
    (inv inv' : List (Tf ℝ) → List (Motion ℝ) → List ℝ × List ℝ)
    {σ τ : Nat → Nat} {s s' : Sys ℝ} (hR : RelabelP σ τ s s') (hD : DofsRelabel σ s s')
    (st : Positional.State ℝ) (act q' qd' : List ℝ) (hxi : st.x_i.length = s.numLinks)
    (hA : List.Forall₂ (ActRel σ s s' st.q st.qd q' qd') s'.acts s.acts) :
    Positional.step inv' (fun _ => []) s' (permStateP σ s.numLinks st q' qd') act
      = permStateP σ s.numLinks (Positional.step inv (fun _ => []) s st act)
          (inv' (permList σ s.numLinks (Positional.step inv (fun _ => []) s st act).j)
                (permList σ s.numLinks (Positional.step inv (fun _ => []) s st act).jd)).1
          (inv' (permList σ s.numLinks (Positional.step inv (fun _ => []) s st act).j)
                (permList σ s.numLinks (Positional.step inv (fun _ => []) s st act).jd)).2 :=
  positional_step_relabel inv inv' hR st act act q' qd' hxi
    (insAgree_of_flat σ s s' act st.q st.qd q' qd' hD hA) (insAgree0_of_dofs σ s s' hD)

/-! ### non-vacuity -/

theorem exSys_wf : exSys.WF = true := by
  simp [Sys.WF, exSys, Sys.nq, Sys.nv, LinkType.qWidth, LinkType.qdWidth, List.range_succ]
  decide

/-- an `inv` that really reads every link's row, and splits -/
noncomputable def exInv (j : List (Tf ℝ)) (jd : List (Motion ℝ)) : List ℝ × List ℝ :=
  (j.flatMap fun t => [t.pos.x], jd.flatMap fun m => [m.ang.z])

/-- all hypotheses of `spring_step_components` hold for two copies of the free root + hinged,
motor-driven child (`exSys`, `exState`): the union is a 4-link, 2-actuator model -/
example : exSys.WF = true ∧ SameGlobals exSys exSys ∧ Spring.State.WF exSys exState = true
    ∧ ([0.5] : List ℝ).length = exSys.acts.length ∧ InvSplit exSys.numLinks exInv exInv exInv
    ∧ (unionSys exSys exSys).parents = [-1, 0, -1, 2]
    ∧ (unionSys exSys exSys).acts.map (fun a => (a.qId, a.qdId)) = [(7, 6), (15, 13)] := by
  refine ⟨exSys_wf, ⟨rfl, rfl, rfl, rfl, rfl, rfl⟩, ?_, rfl, ?_, ?_, ?_⟩
  · simp [Spring.State.WF, exSys, exState, Sys.numLinks, Sys.nq, Sys.nv, LinkType.qWidth, LinkType.qdWidth]
  · intro j1 j2 jd1 jd2 _ _
    simp [exInv, List.flatMap_append]
  · simp [unionSys, exSys, Kin.shiftParents, Sys.numLinks]
  · simp [unionSys, exSys, shiftAct, Sys.nq, Sys.nv, LinkType.qWidth, LinkType.qdWidth]

/-- the positional hypotheses on the same pair -/
example : SameGlobalsP exSys exSys ∧ Positional.State.WF exSys exStateP = true :=
  ⟨⟨⟨rfl, rfl, rfl, rfl, rfl, rfl⟩, rfl, rfl, rfl⟩, by
    simp [Positional.State.WF, exSys, exStateP, exState, Sys.numLinks, Sys.nq, Sys.nv,
      LinkType.qWidth, LinkType.qdWidth]⟩

/-- a second link, to tell the two siblings apart -/
noncomputable def exLink2 : LinkP ℝ := ⟨Tf.id, Tf.id, ⟨Tf.id, M3.one, 2⟩, 1, 50, 1, 100, 1⟩
/-- free root with two hinged children (about `z` and about `y`); a motor on the first child -/
noncomputable def exSys3 : Sys ℝ :=
  { exSys with
    types := [.free, .one, .one], parents := [-1, 0, 0], links := [exLink, exLink, exLink2],
    dofs := exSys.dofs ++ [exDof ⟨0, 1, 0⟩ ⟨0, 0, 0⟩] }
/-- the same model with the two children listed in the other order: link parameters, dof blocks and
the actuator's ids move -/
noncomputable def exSys3' : Sys ℝ :=
  { exSys with
    types := [.free, .one, .one], parents := [-1, 0, 0], links := [exLink, exLink2, exLink],
    dofs := exSys.dofs.take 6 ++ [exDof ⟨0, 1, 0⟩ ⟨0, 0, 0⟩, exDof ⟨0, 0, 1⟩ ⟨0, 0, 0⟩],
    acts := [⟨8, 7, none, none, none, none, 1, 1, 0, 0⟩] }
/-- swap links 1 and 2 -/
def exSwap (k : Nat) : Nat := [0, 2, 1].getD k k

theorem exRelabel : Relabel exSwap exSwap exSys3 exSys3' where
  n' := rfl
  σlt := by
    intro k hk; have hk' : k < 3 := hk
    show exSwap k < 3
    match k, hk' with | 0, _ | 1, _ | 2, _ => decide
  τlt := by
    intro k hk; have hk' : k < 3 := hk
    show exSwap k < 3
    match k, hk' with | 0, _ | 1, _ | 2, _ => decide
  τσ := by
    intro k hk; have hk' : k < 3 := hk
    match k, hk' with | 0, _ | 1, _ | 2, _ => decide
  στ := by
    intro k hk; have hk' : k < 3 := hk
    match k, hk' with | 0, _ | 1, _ | 2, _ => decide
  links := by
    simp [exSys3, exSys3', permList, tab, nth, exSwap, Sys.numLinks, List.range_succ]
  parents := by
    simp [exSys3, exSys3', Kin.permParents, exSwap, Sys.numLinks, List.range_succ]
  plen := rfl
  llen := rfl
  par := by
    intro k hk; have hk' : k < 3 := hk
    match k, hk' with
    | 0, _ | 1, _ | 2, _ => simp [parentOf, exSys3, Sys.numLinks]
  hasLimit := rfl
  gravity := rfl
  dt := rfl
  velDamping := rfl
  angDamping := rfl
  inertiaScale := rfl

theorem exDofsRelabel : DofsRelabel exSwap exSys3 exSys3' := by
  intro k t h
  match k with
  | 0 =>
    simp [exSys3'] at h; subst h
    exact ⟨rfl, rfl⟩
  | 1 =>
    simp [exSys3'] at h; subst h
    exact ⟨rfl, rfl⟩
  | 2 =>
    simp [exSys3'] at h; subst h
    exact ⟨rfl, rfl⟩
  | k + 3 => simp [exSys3'] at h

/-- all hypotheses of `spring_step_sibling_order` / `positional_step_sibling_order` hold for the
two listings of the free root with two hinged children, with the coordinates of the two hinges
exchanged in `q'`, `qd'` -/
example :
    Relabel exSwap exSwap exSys3 exSys3' ∧ RelabelP exSwap exSwap exSys3 exSys3'
    ∧ DofsRelabel exSwap exSys3 exSys3'
    ∧ List.Forall₂ (ActRel exSwap exSys3 exSys3' [0, 0, 1, 1, 0, 0, 0, 0.3, -0.2] [0, 0, 0, 0, 0, 0, 0.1, 0.4]
        [0, 0, 1, 1, 0, 0, 0, -0.2, 0.3] [0, 0, 0, 0, 0, 0, 0.4, 0.1]) exSys3'.acts exSys3.acts := by
  refine ⟨exRelabel, ⟨exRelabel, rfl, rfl, rfl⟩, exDofsRelabel, ?_⟩
  show List.Forall₂ _ [_] [_]
  refine List.Forall₂.cons ⟨fun _ _ _ => rfl, ?_, ?_, ?_⟩ List.Forall₂.nil
  · simp [nthS]
  · simp [nthS]
  · intro k t r h hr
    match k with
    | 0 =>
      simp [exSys3'] at h; subst h
      simp [qdOff, Kin.offsets, exSys3, exSys3', exSwap, LinkType.qdWidth] at hr ⊢
      omega
    | 1 =>
      simp [exSys3'] at h; subst h
      simp [qdOff, Kin.offsets, exSys3, exSys3', exSwap, LinkType.qdWidth] at hr ⊢
      omega
    | 2 =>
      simp [exSys3'] at h; subst h
      simp [qdOff, Kin.offsets, exSys3, exSys3', exSwap, LinkType.qdWidth] at hr ⊢
    | k + 3 => simp [exSys3'] at h

end permWhole
end Brax.C05

/-! ### sibling order and components, whole step — trajectories of a disjoint union -/
namespace Brax.C05
section permTraj
open C05L C05P C04L MC C05Perm

/-- **C05, mechanically disconnected parts, any number of contact-free spring steps**: the union
driven by the concatenated controls evolves exactly as the two parts evolve alone.  `InvLen`:
`kinematics.inverse` returns `nq` positions and `nv` velocities. -/
theorem spring_trajectory_components
    (inv12 inv1 inv2 : List (Tf ℝ) → List (Motion ℝ) → List ℝ × List ℝ) (s1 s2 : Sys ℝ)
    (hwf1 : s1.WF = true) (hwf2 : s2.WF = true) (hg : SameGlobals s1 s2)
    (hinv : InvSplit s1.numLinks inv12 inv1 inv2) (hi1 : InvLen s1 inv1) (hi2 : InvLen s2 inv2)
    (acts : List (List ℝ × List ℝ)) (hact : ∀ p ∈ acts, p.1.length = s1.acts.length)
    (st1 st2 : Spring.State ℝ) (hst1 : Spring.State.WF s1 st1 = true)
    (hst2 : Spring.State.WF s2 st2 = true) :
    steps inv12 (unionSys s1 s2) (unionState st1 st2) (acts.map fun p => p.1 ++ p.2)
      = unionState (steps inv1 s1 st1 (acts.map (·.1))) (steps inv2 s2 st2 (acts.map (·.2))) :=
  spring_steps_union inv12 inv1 inv2 s1 s2 (WFParts.of_wf hwf1) (WFParts.of_wf hwf2) hg hinv hi1 hi2
    acts hact st1 st2 (StLens.of_wf hst1) (StLens.of_wf hst2)

/-- **C05, mechanically disconnected parts, any number of contact-free positional steps** -/
theorem positional_trajectory_components
    (inv12 inv1 inv2 : List (Tf ℝ) → List (Motion ℝ) → List ℝ × List ℝ) (s1 s2 : Sys ℝ)
    (hwf1 : s1.WF = true) (hwf2 : s2.WF = true) (hg : SameGlobalsP s1 s2)
    (hinv : InvSplit s1.numLinks inv12 inv1 inv2) (hi1 : InvLen s1 inv1) (hi2 : InvLen s2 inv2)
    (acts : List (List ℝ × List ℝ)) (hact : ∀ p ∈ acts, p.1.length = s1.acts.length)
    (st1 st2 : Positional.State ℝ) (hst1 : Positional.State.WF s1 st1 = true)
    (hst2 : Positional.State.WF s2 st2 = true) :
    psteps inv12 (unionSys s1 s2) (unionStateP st1 st2) (acts.map fun p => p.1 ++ p.2)
      = unionStateP (psteps inv1 s1 st1 (acts.map (·.1))) (psteps inv2 s2 st2 (acts.map (·.2))) :=
  positional_steps_union inv12 inv1 inv2 s1 s2 (WFParts.of_wf hwf1) (WFParts.of_wf hwf2) hg hinv hi1
    hi2 acts hact st1 st2 (PStLens.of_wf hst1) (PStLens.of_wf hst2)

/-! non-vacuity of `InvSplit` + `InvLen`, for **every** pair of systems: an `inv` shaped like the
real `kinematics.inverse` (each link's row gives that link's `Q_WIDTHS` / `QD_WIDTHS` entries) -/

/-- a type-driven `inv`: link `i` contributes `qWidth` copies of `j[i].pos.x` and `qdWidth` copies
of `jd[i].ang.z` -/
noncomputable def exInvS (s : Sys ℝ) (j : List (Tf ℝ)) (jd : List (Motion ℝ)) : List ℝ × List ℝ :=
  ((List.zipWith (fun (t : LinkType) (x : Tf ℝ) => List.replicate t.qWidth x.pos.x) s.types j).flatten,
   (List.zipWith (fun (t : LinkType) (m : Motion ℝ) => List.replicate t.qdWidth m.ang.z) s.types jd).flatten)

theorem exInvS_split (s1 s2 : Sys ℝ) :
    InvSplit s1.numLinks (exInvS (unionSys s1 s2)) (exInvS s1) (exInvS s2) := by
  intro j1 j2 jd1 jd2 h1 h2
  have e1 : s1.types.length = j1.length := by rw [h1]; rfl
  have e2 : s1.types.length = jd1.length := by rw [h2]; rfl
  show ((List.zipWith _ (s1.types ++ s2.types) (j1 ++ j2)).flatten,
    (List.zipWith _ (s1.types ++ s2.types) (jd1 ++ jd2)).flatten) = _
  rw [List.zipWith_append e1, List.zipWith_append e2, List.flatten_append, List.flatten_append]
  rfl

theorem flatten_zipWith_replicate_length {β : Type} (w : LinkType → Nat) (f : β → ℝ) :
    ∀ (ts : List LinkType) (xs : List β), xs.length = ts.length →
      (List.zipWith (fun t x => List.replicate (w t) (f x)) ts xs).flatten.length = (ts.map w).sum
  | [], _, _ => by simp
  | t :: ts, [], h => by simp at h
  | t :: ts, x :: xs, h => by
    simp only [List.zipWith_cons_cons, List.flatten_cons, List.length_append, List.length_replicate,
      List.map_cons, List.sum_cons]
    rw [flatten_zipWith_replicate_length w f ts xs (by simpa using h)]

theorem exInvS_len (s : Sys ℝ) : InvLen s (exInvS s) := by
  intro j jd h1 h2
  exact ⟨flatten_zipWith_replicate_length LinkType.qWidth (fun x : Tf ℝ => x.pos.x) s.types j h1,
    flatten_zipWith_replicate_length LinkType.qdWidth (fun m : Motion ℝ => m.ang.z) s.types jd h2⟩

end permTraj
end Brax.C05

/-! ===== begin section C05c (generalized pipeline), appended by the C05c deepening ===== -/

/-! ## The generalized pipeline: one constraint-free `pipeline.step` commutes with a rigid transform
(section of the C05c deepening; stage lemmas in `Lemmas/C05Gen.lean`, namespace `Brax.C05G`)

The generalized pipeline works in joint coordinates.  `g • sys = gSys g sys` (gravity rotated);
`g • q = xqFlat g sys.types q` (pose of every free root composed with `g`, hinge/slide coordinates
unchanged); `g • v = pFlat g sys.types v` for a per-dof vector `v` (`qd`, joint forces, `qdd`): the three
translational entries of every free root rotate as a vector, every other entry — including the free
root's *body-frame* angular velocity — is unchanged.  These are exactly the inputs `forward_equivariant`
is about (`C05G.linkSlices_xform`: their per-link slices are `KinEquiv.xformIn g` of the original ones).

Stages (all proved for every free-rooted forest of any size, `Lemmas/C05Gen.lean`):
`rootCom_equiv` (tree centre of mass `↦ g ∘ ·`), `cinrLink_equiv` (CoM-frame inertia `↦` the rotated
inertia, stated extensionally: `I' (R m) = R (I m)`), `cdofLink_equiv` (dof rows rotate — except the
three translational rows of a free root, which are the world axes `(0, e_k)` in *both* scenes; this is why
the translational entries of per-dof vectors rotate), `tcCd_equiv` (link velocities rotate),
`cdofdLink_equiv`, `transformCom_equiv` (all of `transform_com`), `inverse_equiv` (the whole recursive
Newton–Euler bias force, both tree scans), `passiveLink_equiv`, `toTau_congrG`, `qfSmooth_equiv`,
`integrateQFree_equiv` (the free-joint quaternion update **including its `1e-8` guard**: the guard acts on
the body-frame angular velocity, which the transform does not change — no wart), `integrate_equiv`,
`step_equiv_core`.

The linear solve: `mass.matrix` of the transformed scene is `P M Pᵀ` with `P = pFlat g` orthogonal — proved as
`C05G.dampedMass_equiv` (`(M' + D·dt)(g • y) = g • ((M + D·dt) y)` for every `y`; from `C05G.matVec_massMatrix`: every
row block of `mass.matrix · y` is the projection of a force `Φ_l` on the dof rows of link `l`, and `Φ_l` rotates).
Hence an exact solve with a unique solution commutes with the transform (`C05G.solve_equiv_of_exact`), and the
full statement `generalized_step_equivariant` follows.  `generalized_step_equivariant_of_solve` is the same
statement for *any* `solve` that commutes with the transform (`hsolve`), without the exactness hypotheses.

Hypotheses, and why each is needed:
* `g.rot.IsUnit` — `g` is a rigid transform;
* `Full` — `q`, `qd`, `sys.dof` have the sizes of the system (`q_size`, `qd_size`): otherwise the slicing of
  `scan.link_types` runs short and the flat and per-link views disagree;
* `hps`, `hlk`, `hpar` — a forest, parents before children;
* `hok` — `LinkOK` for every link (unit body quaternions, identity joint frames, unit hinge/slide axes; a free
  link is a root with unit quaternion — what `mjcf.load_model` produces) and **every root is free**: a
  hinge/slide on the world is anchored to a fixed world point, moving the scene is then not a symmetry.
  Same hypothesis as `forward_equivariant`;
* `hbasis` — a free joint has the dof rows `mjcf.load_model` writes (3 translations along the world axes, 3
  rotations about the body axes);
* `hmass` — the total mass of every tree is nonzero (`root_com` divides by it);
* `hirot` — the inertial-frame quaternions are nonzero (`quat_to_3x3` divides by `|q|²`);
* `hiso` — the three translational dofs of a free joint share damping and armature.  MJCF has one scalar per
  joint, so every loaded model satisfies it; a `System` with three different values has a damper aligned
  with the *world* axes, which genuinely is not rotation invariant (not a defect of the code);
* `hact` — the coordinates actuators read agree in the two scenes (actuators drive hinge/slide dofs);
* `htau` — the actuator force vanishes on the translational dofs of free roots (`C05G.pFlat_of_linZero`
  derives it from that); a motor pushing a free body along a *world* axis is not rotation invariant;
* `hqfc`, `hlen` — the constraint force and the solution of the solve have `qd_size` entries.  The constraint
  force `qfc` is a parameter exactly as in `Gd.step` (zero without contacts and active limits); the
  transformed scene gets `g • qfc`;
* `hsymI` — the body inertia matrices are symmetric.  `mass.matrix` computes the lower triangle and mirrors it;
  for a non-symmetric `link.inertia.i` the mirrored matrix of the rotated scene is *not* `P M Pᵀ` (garbage in,
  frame-dependent garbage out); every physical inertia tensor is symmetric;
* `hex`, `hlen`, `huniq` — `solve` is an exact linear solve and the solution for the transformed matrix is unique
  (the matrix is nonsingular; `C02.pipeline_massMatrix_spd`: it is positive definite for `PhysOK` systems).
  `exists_exact_solve` shows these three are satisfiable whenever the systems are solvable and `D'` is injective.
  The brax code computes `jax.scipy.linalg.solve`, modelled as the parameter `solve` (DESIGN.md 3).

Restrictions of the statement that remain (by the model's design, not gaps of the proof): the state is
`dynInit s q qd` (what `pipeline.init`/`pipeline.step` always hold); the constraint force is a parameter `qfc`
exactly as in `Gd.step` (contacts and active limits are outside the property's quantifier).

Full statement — PROVED below as `generalized_step_equivariant`:

def generalized_step_equivariant_Stmt : Prop :=
  ∀ solve g s q qd act qfc, g.rot.IsUnit → ExactUniqueSolve solve → (hypotheses above) →
    Gd.step solve (gSys g s) (dynInit (gSys g s) (g • q) (g • qd)) (g • q) (g • qd) act (g • qfc)
      = g • Gd.step solve s (dynInit s q qd) q qd act qfc
-/
namespace Brax.C05
section generalized
open Brax Kin KinPos KinEquiv Gd C05G

/-- `forward_equivariant` for the flat coordinates: the link poses of the transformed coordinates are the
transformed link poses -/
theorem generalized_forward_equivariant (g : Tf ℝ) (hg : g.rot.IsUnit) (s : Sys ℝ) (q qd : List ℝ)
    (hfull : Full s q qd)
    (hpar : ∀ i (h : i < s.parents.length), -1 ≤ s.parents[i] ∧ s.parents[i] < (i : Int))
    (hok : ∀ x ∈ s.parents.zip (s.links.zip (linkSlices s.types q qd s.dofs)),
      LinkOK x.1 x.2.1 x.2.2 ∧ (x.1 < 0 → x.2.2.typ = .free)) :
    (Kin.forward s (xqFlat g s.types q) (pFlat g s.types qd)).map (·.1)
      = ((Kin.forward s q qd).map (·.1)).map (Tf.doTf g) := by
  rw [forward_eq_forwardIns, forward_eq_forwardIns,
    linkSlices_xform g s.types q qd s.dofs (by rw [hfull.hq]; exact le_refl _)
      (by rw [hfull.hqd]; exact le_refl _),
    forward_equivariant s _ g hg (fun i h => (hpar i h).2) hok, List.map_map, List.map_map]
  rfl

/-- **C05, one constraint-free step of the generalized pipeline commutes with the rigid transform `g`, for any
`solve` that does** (`hsolve`) — the new `q` is the transform of the new `q`, the new `qd` and `qdd` are the
transforms of the new `qd`, `qdd`, and the refreshed dynamics terms are those of the transformed coordinates in
the transformed system. -/
theorem generalized_step_equivariant_of_solve (solve : List (List ℝ) → List ℝ → List ℝ)
    (g : Tf ℝ) (hg : g.rot.IsUnit) (s : Sys ℝ) (q qd act qfc : List ℝ)
    (hfull : Full s q qd)
    (hps : s.parents.length = s.types.length) (hlk : s.links.length = s.types.length)
    (hpar : ∀ i (h : i < s.parents.length), -1 ≤ s.parents[i] ∧ s.parents[i] < (i : Int))
    (hok : ∀ x ∈ s.parents.zip (s.links.zip (linkSlices s.types q qd s.dofs)),
      LinkOK x.1 x.2.1 x.2.2 ∧ (x.1 < 0 → x.2.2.typ = .free))
    (hbasis : ∀ l ∈ linkSlices s.types q qd s.dofs, l.typ = .free → l.dofs.map (·.motion) = freeBasis)
    (hmass : ∀ r ∈ rootIdx s.parents,
      segSum 0 (· + ·) (s.links.map (·.inertia.mass)) (rootIdx s.parents) r ≠ 0)
    (hirot : ∀ lk ∈ s.links, Q4.normSq lk.inertia.tf.rot ≠ 0)
    (hiso : ∀ l ∈ linkSlices s.types q qd s.dofs, IsoFree l)
    (hact : ActAgreeG s.acts q qd (xqFlat g s.types q) (pFlat g s.types qd))
    (htau : pFlat g s.types (toTau s.nv s.acts act q qd) = toTau s.nv s.acts act q qd)
    (hqfc : qfc.length = s.nv)
    (hlen : (solve (dampedMatrix (dynInit s q qd).massMx (s.dofs.map (·.damping)) s.dt)
        (List.zipWith (· + ·) (qfSmooth s (dynInit s q qd) q qd act) qfc)).length = s.nv)
    (hsolve : solve (dampedMatrix (dynInit (C05L.gSys g s) (xqFlat g s.types q) (pFlat g s.types qd)).massMx
          (s.dofs.map (·.damping)) s.dt)
        (pFlat g s.types (List.zipWith (· + ·) (qfSmooth s (dynInit s q qd) q qd act) qfc))
      = pFlat g s.types (solve (dampedMatrix (dynInit s q qd).massMx (s.dofs.map (·.damping)) s.dt)
          (List.zipWith (· + ·) (qfSmooth s (dynInit s q qd) q qd act) qfc))) :
    Gd.step solve (C05L.gSys g s) (dynInit (C05L.gSys g s) (xqFlat g s.types q) (pFlat g s.types qd))
        (xqFlat g s.types q) (pFlat g s.types qd) act (pFlat g s.types qfc)
      = ((xqFlat g s.types (Gd.step solve s (dynInit s q qd) q qd act qfc).1.1,
          pFlat g s.types (Gd.step solve s (dynInit s q qd) q qd act qfc).1.2.1,
          pFlat g s.types (Gd.step solve s (dynInit s q qd) q qd act qfc).1.2.2),
         dynInit (C05L.gSys g s) (xqFlat g s.types (Gd.step solve s (dynInit s q qd) q qd act qfc).1.1)
          (pFlat g s.types (Gd.step solve s (dynInit s q qd) q qd act qfc).1.2.1)) :=
  step_equiv_core g hg solve s q qd act qfc
    (StepOK.of_linkOK g s q qd hfull hps hlk hpar hok hbasis hmass hirot hiso
      (generalized_forward_equivariant g hg s q qd hfull hpar hok))
    hact htau hqfc hlen hsolve

/-- **the damped mass matrix is equivariant**: `(M' + diag(damping)·dt)(g • y) = g • ((M + diag(damping)·dt) y)`,
i.e. `mass.matrix` of the transformed scene is `P M Pᵀ` (non-root rows/columns invariant, the translational
rows/columns of every free root rotated) -/
theorem generalized_massMatrix_equivariant (g : Tf ℝ) (hg : g.rot.IsUnit) (s : Sys ℝ) (q qd : List ℝ)
    (hfull : Full s q qd)
    (hps : s.parents.length = s.types.length) (hlk : s.links.length = s.types.length)
    (hpar : ∀ i (h : i < s.parents.length), -1 ≤ s.parents[i] ∧ s.parents[i] < (i : Int))
    (hok : ∀ x ∈ s.parents.zip (s.links.zip (linkSlices s.types q qd s.dofs)),
      LinkOK x.1 x.2.1 x.2.2 ∧ (x.1 < 0 → x.2.2.typ = .free))
    (hbasis : ∀ l ∈ linkSlices s.types q qd s.dofs, l.typ = .free → l.dofs.map (·.motion) = freeBasis)
    (hmass : ∀ r ∈ rootIdx s.parents,
      segSum 0 (· + ·) (s.links.map (·.inertia.mass)) (rootIdx s.parents) r ≠ 0)
    (hirot : ∀ lk ∈ s.links, Q4.normSq lk.inertia.tf.rot ≠ 0)
    (hiso : ∀ l ∈ linkSlices s.types q qd s.dofs, IsoFree l)
    (hsymI : ∀ lk ∈ s.links, SymmI lk.inertia) (y : List ℝ) (hy : y.length = s.nv) :
    matVec (dampedMatrix (dynInit (C05L.gSys g s) (xqFlat g s.types q) (pFlat g s.types qd)).massMx
        (s.dofs.map (·.damping)) s.dt) (pFlat g s.types y)
      = pFlat g s.types (matVec (dampedMatrix (dynInit s q qd).massMx (s.dofs.map (·.damping)) s.dt) y) :=
  dampedMass_equiv g hg s q qd
    (StepOK.of_linkOK g s q qd hfull hps hlk hpar hok hbasis hmass hirot hiso
      (generalized_forward_equivariant g hg s q qd hfull hpar hok)) hsymI y hy

/-- **C05, one constraint-free step of the generalized pipeline commutes with the rigid transform `g`** — full
statement, for an exact linear solve with a unique solution. -/
theorem generalized_step_equivariant (solve : List (List ℝ) → List ℝ → List ℝ)
    (g : Tf ℝ) (hg : g.rot.IsUnit) (s : Sys ℝ) (q qd act qfc : List ℝ)
    (hfull : Full s q qd)
    (hps : s.parents.length = s.types.length) (hlk : s.links.length = s.types.length)
    (hpar : ∀ i (h : i < s.parents.length), -1 ≤ s.parents[i] ∧ s.parents[i] < (i : Int))
    (hok : ∀ x ∈ s.parents.zip (s.links.zip (linkSlices s.types q qd s.dofs)),
      LinkOK x.1 x.2.1 x.2.2 ∧ (x.1 < 0 → x.2.2.typ = .free))
    (hbasis : ∀ l ∈ linkSlices s.types q qd s.dofs, l.typ = .free → l.dofs.map (·.motion) = freeBasis)
    (hmass : ∀ r ∈ rootIdx s.parents,
      segSum 0 (· + ·) (s.links.map (·.inertia.mass)) (rootIdx s.parents) r ≠ 0)
    (hirot : ∀ lk ∈ s.links, Q4.normSq lk.inertia.tf.rot ≠ 0)
    (hiso : ∀ l ∈ linkSlices s.types q qd s.dofs, IsoFree l)
    (hsymI : ∀ lk ∈ s.links, SymmI lk.inertia)
    (hact : ActAgreeG s.acts q qd (xqFlat g s.types q) (pFlat g s.types qd))
    (htau : pFlat g s.types (toTau s.nv s.acts act q qd) = toTau s.nv s.acts act q qd)
    (hqfc : qfc.length = s.nv)
    (hex : matVec (dampedMatrix (dynInit s q qd).massMx (s.dofs.map (·.damping)) s.dt)
        (solve (dampedMatrix (dynInit s q qd).massMx (s.dofs.map (·.damping)) s.dt)
          (List.zipWith (· + ·) (qfSmooth s (dynInit s q qd) q qd act) qfc))
      = List.zipWith (· + ·) (qfSmooth s (dynInit s q qd) q qd act) qfc)
    (hlen : (solve (dampedMatrix (dynInit s q qd).massMx (s.dofs.map (·.damping)) s.dt)
        (List.zipWith (· + ·) (qfSmooth s (dynInit s q qd) q qd act) qfc)).length = s.nv)
    (huniq : ∀ y : List ℝ, y.length = s.nv →
      matVec (dampedMatrix (dynInit (C05L.gSys g s) (xqFlat g s.types q) (pFlat g s.types qd)).massMx
          (s.dofs.map (·.damping)) s.dt) y
        = pFlat g s.types (List.zipWith (· + ·) (qfSmooth s (dynInit s q qd) q qd act) qfc) →
      solve (dampedMatrix (dynInit (C05L.gSys g s) (xqFlat g s.types q) (pFlat g s.types qd)).massMx
          (s.dofs.map (·.damping)) s.dt)
        (pFlat g s.types (List.zipWith (· + ·) (qfSmooth s (dynInit s q qd) q qd act) qfc)) = y) :
    Gd.step solve (C05L.gSys g s) (dynInit (C05L.gSys g s) (xqFlat g s.types q) (pFlat g s.types qd))
        (xqFlat g s.types q) (pFlat g s.types qd) act (pFlat g s.types qfc)
      = ((xqFlat g s.types (Gd.step solve s (dynInit s q qd) q qd act qfc).1.1,
          pFlat g s.types (Gd.step solve s (dynInit s q qd) q qd act qfc).1.2.1,
          pFlat g s.types (Gd.step solve s (dynInit s q qd) q qd act qfc).1.2.2),
         dynInit (C05L.gSys g s) (xqFlat g s.types (Gd.step solve s (dynInit s q qd) q qd act qfc).1.1)
          (pFlat g s.types (Gd.step solve s (dynInit s q qd) q qd act qfc).1.2.1)) :=
  step_equiv_full g hg s q qd
    (StepOK.of_linkOK g s q qd hfull hps hlk hpar hok hbasis hmass hirot hiso
      (generalized_forward_equivariant g hg s q qd hfull hpar hok))
    hsymI solve act qfc hact htau hqfc hex hlen huniq

/-- the solve hypotheses `hex`, `hlen`, `huniq` are satisfiable: whenever `D y = b` is solvable and `D'` is
injective on vectors of the right size, a solve with the three properties exists -/
theorem exists_exact_solve (D D' : List (List ℝ)) (b b' : List ℝ) (nv : Nat)
    (hsol : ∃ y : List ℝ, y.length = nv ∧ matVec D y = b)
    (hinj : ∀ y z : List ℝ, y.length = nv → z.length = nv → matVec D' y = matVec D' z → y = z) :
    ∃ solve : List (List ℝ) → List ℝ → List ℝ,
      matVec D (solve D b) = b ∧ (solve D b).length = nv
      ∧ ∀ y : List ℝ, y.length = nv → matVec D' y = b' → solve D' b' = y := by
  classical
  refine ⟨fun m c => if h : ∃ y : List ℝ, y.length = nv ∧ matVec m y = c then Classical.choose h else [],
    ?_, ?_, ?_⟩
  · simp only [dif_pos hsol]; exact (Classical.choose_spec hsol).2
  · simp only [dif_pos hsol]; exact (Classical.choose_spec hsol).1
  · intro y hy hyb
    have h' : ∃ z : List ℝ, z.length = nv ∧ matVec D' z = b' := ⟨y, hy, hyb⟩
    simp only [dif_pos h']
    exact hinj _ _ (Classical.choose_spec h').1 hy ((Classical.choose_spec h').2.trans hyb.symm)

/-- the joint-space quantities of `pipeline.init`/`pipeline.step`, one by one (no hypothesis on the solve):
the CoM-frame terms of `transform_com`, the bias force, the passive force and the total smooth force of the
transformed scene are the transforms of the original ones -/
theorem generalized_dynamics_equivariant (g : Tf ℝ) (hg : g.rot.IsUnit) (s : Sys ℝ) (q qd act : List ℝ)
    (hfull : Full s q qd)
    (hps : s.parents.length = s.types.length) (hlk : s.links.length = s.types.length)
    (hpar : ∀ i (h : i < s.parents.length), -1 ≤ s.parents[i] ∧ s.parents[i] < (i : Int))
    (hok : ∀ x ∈ s.parents.zip (s.links.zip (linkSlices s.types q qd s.dofs)),
      LinkOK x.1 x.2.1 x.2.2 ∧ (x.1 < 0 → x.2.2.typ = .free))
    (hbasis : ∀ l ∈ linkSlices s.types q qd s.dofs, l.typ = .free → l.dofs.map (·.motion) = freeBasis)
    (hmass : ∀ r ∈ rootIdx s.parents,
      segSum 0 (· + ·) (s.links.map (·.inertia.mass)) (rootIdx s.parents) r ≠ 0)
    (hirot : ∀ lk ∈ s.links, Q4.normSq lk.inertia.tf.rot ≠ 0)
    (hiso : ∀ l ∈ linkSlices s.types q qd s.dofs, IsoFree l)
    (hact : ActAgreeG s.acts q qd (xqFlat g s.types q) (pFlat g s.types qd))
    (htau : pFlat g s.types (toTau s.nv s.acts act q qd) = toTau s.nv s.acts act q qd) :
    ComRel g s.types (dynInit s q qd).com
        (dynInit (C05L.gSys g s) (xqFlat g s.types q) (pFlat g s.types qd)).com
    ∧ biasFlat (C05L.gSys g s) (dynInit (C05L.gSys g s) (xqFlat g s.types q) (pFlat g s.types qd))
          (xqFlat g s.types q) (pFlat g s.types qd)
        = pFlat g s.types (biasFlat s (dynInit s q qd) q qd)
    ∧ passiveFlat (C05L.gSys g s) (xqFlat g s.types q) (pFlat g s.types qd)
        = pFlat g s.types (passiveFlat s q qd)
    ∧ qfSmooth (C05L.gSys g s) (dynInit (C05L.gSys g s) (xqFlat g s.types q) (pFlat g s.types qd))
          (xqFlat g s.types q) (pFlat g s.types qd) act
        = pFlat g s.types (qfSmooth s (dynInit s q qd) q qd act) := by
  have h := StepOK.of_linkOK g s q qd hfull hps hlk hpar hok hbasis hmass hirot hiso
    (generalized_forward_equivariant g hg s q qd hfull hpar hok)
  exact ⟨dynInit_com_equiv g hg s q qd h, bias_equiv g hg s q qd h, passive_equiv g hg s q qd h,
    qfSmooth_equiv g hg s q qd h act hact htau⟩

/-- the reduction of `hsolve` to an exact, unique solve and the matrix identity `D' (g • y) = g • (D y)` -/
theorem generalized_solve_equivariant (g : Tf ℝ) (ts : List LinkType)
    (solve : List (List ℝ) → List ℝ → List ℝ) (D D' : List (List ℝ)) (b : List ℝ) (nv : Nat)
    (hmass : ∀ y : List ℝ, y.length = nv → matVec D' (pFlat g ts y) = pFlat g ts (matVec D y))
    (hex : matVec D (solve D b) = b) (hlen : (solve D b).length = nv)
    (huniq : ∀ y : List ℝ, y.length = nv → matVec D' y = pFlat g ts b → solve D' (pFlat g ts b) = y) :
    solve D' (pFlat g ts b) = pFlat g ts (solve D b) :=
  solve_equiv_of_exact g ts solve D D' b nv hmass hex hlen huniq

/-! ### non-vacuity: the single free body `exSys1` (unit mass, unit inertia about its centre of mass, no
damping, no armature) under `exG`; its mass matrix is the identity in both scenes, for which
`solve := fun _ b => b` is the exact solve -/
example (act : List ℝ) :
    let q : List ℝ := [0, 0, 1, 1, 0, 0, 0]
    let qd : List ℝ := [1, 0, 0, 0, 0, 0.5]
    let qfc : List ℝ := [0, 0, 0, 0, 0, 0]
    let solve : List (List ℝ) → List ℝ → List ℝ := fun _ b => b
    exG.rot.IsUnit ∧ Full exSys1 q qd
    ∧ exSys1.parents.length = exSys1.types.length ∧ exSys1.links.length = exSys1.types.length
    ∧ (∀ i (h : i < exSys1.parents.length), -1 ≤ exSys1.parents[i] ∧ exSys1.parents[i] < (i : Int))
    ∧ (∀ x ∈ exSys1.parents.zip (exSys1.links.zip (linkSlices exSys1.types q qd exSys1.dofs)),
        LinkOK x.1 x.2.1 x.2.2 ∧ (x.1 < 0 → x.2.2.typ = .free))
    ∧ (∀ l ∈ linkSlices exSys1.types q qd exSys1.dofs, l.typ = .free → l.dofs.map (·.motion) = freeBasis)
    ∧ (∀ r ∈ rootIdx exSys1.parents,
        segSum 0 (· + ·) (exSys1.links.map (·.inertia.mass)) (rootIdx exSys1.parents) r ≠ 0)
    ∧ (∀ lk ∈ exSys1.links, Q4.normSq lk.inertia.tf.rot ≠ 0)
    ∧ (∀ l ∈ linkSlices exSys1.types q qd exSys1.dofs, IsoFree l)
    ∧ (∀ lk ∈ exSys1.links, SymmI lk.inertia)
    ∧ ActAgreeG exSys1.acts q qd (xqFlat exG exSys1.types q) (pFlat exG exSys1.types qd)
    ∧ pFlat exG exSys1.types (toTau exSys1.nv exSys1.acts act q qd) = toTau exSys1.nv exSys1.acts act q qd
    ∧ qfc.length = exSys1.nv
    ∧ (solve (dampedMatrix (dynInit exSys1 q qd).massMx (exSys1.dofs.map (·.damping)) exSys1.dt)
        (List.zipWith (· + ·) (qfSmooth exSys1 (dynInit exSys1 q qd) q qd act) qfc)).length = exSys1.nv
    ∧ solve (dampedMatrix (dynInit (C05L.gSys exG exSys1) (xqFlat exG exSys1.types q)
            (pFlat exG exSys1.types qd)).massMx (exSys1.dofs.map (·.damping)) exSys1.dt)
          (pFlat exG exSys1.types (List.zipWith (· + ·) (qfSmooth exSys1 (dynInit exSys1 q qd) q qd act) qfc))
        = pFlat exG exSys1.types (solve (dampedMatrix (dynInit exSys1 q qd).massMx
            (exSys1.dofs.map (·.damping)) exSys1.dt)
          (List.zipWith (· + ·) (qfSmooth exSys1 (dynInit exSys1 q qd) q qd act) qfc)) := by
  intro q qd qfc solve
  have hslice : linkSlices exSys1.types q qd exSys1.dofs
      = [⟨.free, q, qd, exSys1.dofs⟩] := by
    simp [exSys1, exSys, linkSlices, LinkType.qWidth, LinkType.qdWidth, q, qd]
  have hlinkok : ∀ x ∈ exSys1.parents.zip (exSys1.links.zip (linkSlices exSys1.types q qd exSys1.dofs)),
      LinkOK x.1 x.2.1 x.2.2 ∧ (x.1 < 0 → x.2.2.typ = .free) := by
    intro x hx
    rw [hslice] at hx
    simp only [exSys1, exSys, List.zip_cons_cons, List.zip_nil_right, List.mem_singleton] at hx
    subst hx
    refine ⟨⟨?_, rfl, ?_, ?_⟩, fun _ => rfl⟩
    · simp [exLink, Tf.id, Q4.IsUnit, Q4.normSq, Q4.one]
    · intro _
      refine ⟨by norm_num, rfl, rfl, by simp [qd], 0, 0, 1, 1, 0, 0, 0, by simp [q], ?_⟩
      simp [Q4.IsUnit, Q4.normSq]
    · intro h; simp at h
  have hexists : ∀ l ∈ linkSlices exSys1.types q qd exSys1.dofs, l = ⟨.free, q, qd, exSys1.dofs⟩ := by
    intro l hl; rw [hslice] at hl; simpa using hl
  have hnv : exSys1.nv = 6 := rfl
  have hgu : exG.rot.IsUnit := by simp only [Q4.IsUnit, Q4.normSq, exG]; norm_num
  have hfullx : Full exSys1 q qd := ⟨rfl, rfl, rfl⟩
  have hpar : ∀ i (h : i < exSys1.parents.length), -1 ≤ exSys1.parents[i] ∧ exSys1.parents[i] < (i : Int) := by
    intro i hi
    have hi' : i < 1 := hi
    match i, hi' with
    | 0, _ => simp [exSys1]
  have hbasis : ∀ l ∈ linkSlices exSys1.types q qd exSys1.dofs, l.typ = .free →
      l.dofs.map (·.motion) = freeBasis := by
    intro l hl _; rw [hexists l hl]; simp [exSys1, exSys, exDof, freeBasis, V3.zero]
  have hmass : ∀ r ∈ rootIdx exSys1.parents,
      segSum 0 (· + ·) (exSys1.links.map (·.inertia.mass)) (rootIdx exSys1.parents) r ≠ 0 := by
    intro r hr
    simp [exSys1, exSys, rootIdx, scanFwd] at hr
    subst hr
    simp [exSys1, exSys, rootIdx, scanFwd, segSum, exLink]
  have hirot : ∀ lk ∈ exSys1.links, Q4.normSq lk.inertia.tf.rot ≠ 0 := by
    intro lk hlk
    simp [exSys1, exSys] at hlk
    subst hlk
    simp [exLink, Tf.id, Q4.normSq, Q4.one]
  have hiso : ∀ l ∈ linkSlices exSys1.types q qd exSys1.dofs, IsoFree l := by
    intro l hl _
    rw [hexists l hl]
    exact ⟨exDof ⟨0, 0, 0⟩ ⟨1, 0, 0⟩, exDof ⟨0, 0, 0⟩ ⟨0, 1, 0⟩, exDof ⟨0, 0, 0⟩ ⟨0, 0, 1⟩,
      exDof ⟨1, 0, 0⟩ ⟨0, 0, 0⟩, exDof ⟨0, 1, 0⟩ ⟨0, 0, 0⟩, exDof ⟨0, 0, 1⟩ ⟨0, 0, 0⟩, rfl, rfl, rfl, rfl, rfl⟩
  have hq : (qfSmooth exSys1 (dynInit exSys1 q qd) q qd act).length = exSys1.nv :=
    qfSmooth_length exG hgu exSys1 q qd
      (StepOK.of_linkOK exG exSys1 q qd hfullx rfl rfl hpar hlinkok hbasis hmass hirot hiso
        (generalized_forward_equivariant exG hgu exSys1 q qd hfullx hpar hlinkok)) act
  refine ⟨hgu, hfullx, rfl, rfl, hpar, hlinkok, hbasis, hmass, hirot, hiso, ?_, ?_, ?_, rfl, ?_, rfl⟩
  · intro lk hlk
    simp [exSys1, exSys] at hlk
    subst hlk
    simp [SymmI, exLink, M3.one]
  · intro a ha; simp [exSys1] at ha
  · apply pFlat_of_linZero
    simp [exSys1, exSys, toTau, LinZero, Sys.nv, LinkType.qdWidth]
  · show (List.zipWith (· + ·) _ qfc).length = _
    simp [hq, hnv, qfc]

end generalized
end Brax.C05
/-! ===== end section C05c ===== -/

/-! ### sibling order and components, whole step — `init` and whole trajectories of a disjoint union -/
namespace Brax.C05
section permInit
open C05L C05P C04L MC C05Perm

/-- **C05, mechanically disconnected parts, `spring.pipeline.init`**: the initial state of the union
at the concatenated coordinates is the concatenation of the two initial states
(`kinematics.forward` by `scanFwd_disjoint_union`, the rest row by row) -/
theorem spring_init_components (s1 s2 : Sys ℝ) (hwf1 : s1.WF = true) (hwf2 : s2.WF = true)
    (hg : SameGlobals s1 s2) (hm : s1.springMassScale = s2.springMassScale) (q1 q2 qd1 qd2 : List ℝ)
    (hq : q1.length = s1.nq) (hqd : qd1.length = s1.nv) :
    Spring.init (unionSys s1 s2) (q1 ++ q2) (qd1 ++ qd2)
      = unionState (Spring.init s1 q1 qd1) (Spring.init s2 q2 qd2) :=
  spring_init_union s1 s2 (WFParts.of_wf hwf1) (WFParts.of_wf hwf2) hg hm q1 q2 qd1 qd2 hq hqd

/-- the same for `positional.pipeline.init` -/
theorem positional_init_components (s1 s2 : Sys ℝ) (hwf1 : s1.WF = true) (hwf2 : s2.WF = true)
    (hg : SameGlobalsP s1 s2) (q1 q2 qd1 qd2 : List ℝ)
    (hq : q1.length = s1.nq) (hqd : qd1.length = s1.nv) :
    Positional.init (unionSys s1 s2) (q1 ++ q2) (qd1 ++ qd2)
      = unionStateP (Positional.init s1 q1 qd1) (Positional.init s2 q2 qd2) :=
  positional_init_union s1 s2 (WFParts.of_wf hwf1) (WFParts.of_wf hwf2) hg q1 q2 qd1 qd2 hq hqd

/-- **C05, "mechanically disconnected parts of one model evolve exactly as each would alone"**, spring
pipeline, contact-free: `init` at the concatenated coordinates followed by any number of steps on the
concatenated controls is the concatenation of the two separate trajectories -/
theorem spring_whole_trajectory_components
    (inv12 inv1 inv2 : List (Tf ℝ) → List (Motion ℝ) → List ℝ × List ℝ) (s1 s2 : Sys ℝ)
    (hwf1 : s1.WF = true) (hwf2 : s2.WF = true) (hg : SameGlobals s1 s2)
    (hm : s1.springMassScale = s2.springMassScale)
    (hinv : InvSplit s1.numLinks inv12 inv1 inv2) (hi1 : InvLen s1 inv1) (hi2 : InvLen s2 inv2)
    (acts : List (List ℝ × List ℝ)) (hact : ∀ p ∈ acts, p.1.length = s1.acts.length)
    (q1 q2 qd1 qd2 : List ℝ) (hq1 : q1.length = s1.nq) (hqd1 : qd1.length = s1.nv)
    (hq2 : q2.length = s2.nq) (hqd2 : qd2.length = s2.nv) :
    steps inv12 (unionSys s1 s2) (Spring.init (unionSys s1 s2) (q1 ++ q2) (qd1 ++ qd2))
        (acts.map fun p => p.1 ++ p.2)
      = unionState (steps inv1 s1 (Spring.init s1 q1 qd1) (acts.map (·.1)))
          (steps inv2 s2 (Spring.init s2 q2 qd2) (acts.map (·.2))) :=
  spring_trajectory_union inv12 inv1 inv2 s1 s2 (WFParts.of_wf hwf1) (WFParts.of_wf hwf2) hg hm hinv
    hi1 hi2 acts hact q1 q2 qd1 qd2 hq1 hqd1 hq2 hqd2

/-- the same for the positional pipeline -/
theorem positional_whole_trajectory_components
    (inv12 inv1 inv2 : List (Tf ℝ) → List (Motion ℝ) → List ℝ × List ℝ) (s1 s2 : Sys ℝ)
    (hwf1 : s1.WF = true) (hwf2 : s2.WF = true) (hg : SameGlobalsP s1 s2)
    (hinv : InvSplit s1.numLinks inv12 inv1 inv2) (hi1 : InvLen s1 inv1) (hi2 : InvLen s2 inv2)
    (acts : List (List ℝ × List ℝ)) (hact : ∀ p ∈ acts, p.1.length = s1.acts.length)
    (q1 q2 qd1 qd2 : List ℝ) (hq1 : q1.length = s1.nq) (hqd1 : qd1.length = s1.nv)
    (hq2 : q2.length = s2.nq) (hqd2 : qd2.length = s2.nv) :
    psteps inv12 (unionSys s1 s2) (Positional.init (unionSys s1 s2) (q1 ++ q2) (qd1 ++ qd2))
        (acts.map fun p => p.1 ++ p.2)
      = unionStateP (psteps inv1 s1 (Positional.init s1 q1 qd1) (acts.map (·.1)))
          (psteps inv2 s2 (Positional.init s2 q2 qd2) (acts.map (·.2))) :=
  positional_trajectory_union inv12 inv1 inv2 s1 s2 (WFParts.of_wf hwf1) (WFParts.of_wf hwf2) hg hinv
    hi1 hi2 acts hact q1 q2 qd1 qd2 hq1 hqd1 hq2 hqd2

/-- non-vacuity: every hypothesis of the two whole-trajectory theorems holds for two copies of
`exSys` with `exInvS`, any controls of the right length, and the coordinates of `exState` -/
example (us : List (ℝ × ℝ)) :
    exSys.WF = true ∧ SameGlobals exSys exSys ∧ SameGlobalsP exSys exSys
    ∧ InvSplit exSys.numLinks (exInvS (unionSys exSys exSys)) (exInvS exSys) (exInvS exSys)
    ∧ InvLen exSys (exInvS exSys)
    ∧ (∀ p ∈ us.map (fun u => ([u.1], [u.2])), p.1.length = exSys.acts.length)
    ∧ exState.q.length = exSys.nq ∧ exState.qd.length = exSys.nv := by
  refine ⟨exSys_wf, ⟨rfl, rfl, rfl, rfl, rfl, rfl⟩, ⟨⟨rfl, rfl, rfl, rfl, rfl, rfl⟩, rfl, rfl, rfl⟩,
    exInvS_split _ _, exInvS_len _, ?_, ?_, ?_⟩
  · intro p hp
    obtain ⟨u, _, rfl⟩ := List.mem_map.mp hp
    rfl
  · simp [exState, exSys, Sys.nq, LinkType.qWidth]
  · simp [exState, exSys, Sys.nv, LinkType.qdWidth]

end permInit
end Brax.C05
