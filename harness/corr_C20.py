"""C20 — the tanh-normal policy distribution is a correct probability model.

correspond : float mode.  The real `NormalTanhDistribution.{sample, mode, sample_no_postprocessing,
             create_dist, log_prob, entropy, postprocess, inverse_postprocess}` and the real
             `ppo.networks.make_inference_fn(make_ppo_networks(...))` (tiny flax MLP, non-trivial
             `running_statistics` normaliser, both branches) against the Lean model
             (`Driver/C20.lean`, IEEE doubles) on the same generated inputs, |Δ| <= 1e-9·(1+|x|).
             The `jax.random.normal` draw is reproduced here with the same key and handed to the
             model as data.  On a subset of the rows the SPEC (below) is evaluated as well.
search     : the SPEC — what the property says, written independently of the model and of the
             code's formulas, in 60-digit `decimal` arithmetic — against the real code over the
             property's quantifier: range, log_prob = sum(normal log-density - log(1 - tanh^2)),
             entropy estimate, scale floor, determinism / reparameterisation, inverse round trip,
             inference-function contract (normalise, then network, then mode | sample+log_prob+raw).
replay     : re-runs one failing input of the SPEC on the current tree.
"""
from __future__ import annotations

import decimal
import os
import struct
import sys
import time
from decimal import Decimal as Dec

import numpy as np

HERE = os.path.dirname(os.path.abspath(__file__))
sys.path.insert(0, HERE)
import check as C  # noqa: E402

DRIVER = 'Driver/C20.lean'
CTX = decimal.Context(prec=60, Emax=999999, Emin=-999999)
PI = Dec('3.14159265358979323846264338327950288419716939937510582097494')
EPS = 2.0 ** -53


def f2hex(x):
  return 'x%016x' % struct.unpack('>Q', struct.pack('>d', float(x)))[0]


def hex2f(t):
  return struct.unpack('>d', struct.pack('>Q', int(t[1:], 16)))[0]


def _jax():
  import jax
  jax.config.update('jax_enable_x64', True)
  return jax


def tol(ref):
  return 1e-9 * (1.0 + abs(ref))


def close(a, b):
  """float-mode comparison of two doubles (canonical: -0.0 = 0.0, equal infinities / NaNs agree)"""
  if np.isnan(a) or np.isnan(b):
    return bool(np.isnan(a) and np.isnan(b))
  if np.isinf(a) or np.isinf(b):
    return a == b
  return abs(a - b) <= tol(b)


# ----------------------------------------------------------------------------- SPEC (decimal)


def d_softplus(s):
  return CTX.ln(CTX.add(Dec(1), CTX.exp(s)))


def d_scale(min_std, var_scale, raw):
  """the documented parameterisation: (softplus(raw) + min_std) * var_scale"""
  return CTX.multiply(CTX.add(d_softplus(Dec(raw)), Dec(min_std)), Dec(var_scale))


def d_log_one_minus_tanh_sq(x):
  """log(1 - tanh(x)^2) = log 4 - 2 log(e^x + e^-x): log |d tanh / dx|"""
  x = Dec(x)
  s = CTX.add(CTX.exp(x), CTX.exp(CTX.minus(x)))
  return CTX.subtract(CTX.ln(Dec(4)), CTX.multiply(Dec(2), CTX.ln(s)))


def d_normal_logpdf(mu, sigma, x):
  """log( 1/(sigma sqrt(2 pi)) exp(-(x-mu)^2 / (2 sigma^2)) )"""
  z = CTX.divide(CTX.subtract(Dec(x), Dec(mu)), sigma)
  return CTX.subtract(
      CTX.subtract(CTX.multiply(Dec('-0.5'), CTX.multiply(z, z)), CTX.ln(sigma)),
      CTX.multiply(Dec('0.5'), CTX.ln(CTX.multiply(Dec(2), PI))))


def d_tanh(x):
  x = Dec(x)
  a, b = CTX.exp(x), CTX.exp(CTX.minus(x))
  return CTX.divide(CTX.subtract(a, b), CTX.add(a, b))


def spec_logprob(min_std, var_scale, params, x):
  """returns (value, float-conditioning allowance) for one event vector"""
  n = len(x)
  tot, allow = Dec(0), 0.0
  for i in range(n):
    sg = d_scale(min_std, var_scale, params[n + i])
    tot = CTX.add(tot, CTX.subtract(d_normal_logpdf(params[i], sg, x[i]), d_log_one_minus_tanh_sq(x[i])))
    sgf = float(sg)
    z = abs(x[i] - params[i]) / sgf
    # the code forms x/sigma - loc/sigma in doubles: rounding error of that difference, times |z|,
    # plus the relative error of sigma itself entering z^2 and log sigma
    allow += 8 * EPS * ((abs(x[i]) + abs(params[i])) / sgf * (z + 1e-8) + z * z + 1.0)
  return float(tot), allow


def spec_entropy(min_std, var_scale, params, raw):
  """single-sample entropy estimate: sum(0.5 + 0.5 log 2pi + log sigma + log(1 - tanh(raw)^2))"""
  n = len(raw)
  tot = Dec(0)
  for i in range(n):
    sg = d_scale(min_std, var_scale, params[n + i])
    h = CTX.add(CTX.add(Dec('0.5'), CTX.multiply(Dec('0.5'), CTX.ln(CTX.multiply(Dec(2), PI)))), CTX.ln(sg))
    tot = CTX.add(tot, CTX.add(h, d_log_one_minus_tanh_sq(raw[i])))
  return float(tot)


# ----------------------------------------------------------------------------- generators


def _edge(rng, lo, hi, edges, p_edge=0.15, size=None):
  v = rng.uniform(lo, hi, size=size)
  m = rng.random(size=size) < p_edge
  e = rng.choice(np.asarray(edges, dtype=np.float64), size=size)
  return np.where(m, e, v)


def gen_cfg(rng):
  r = rng.random()
  if r < 0.2:
    return 0.001, 1.0                                  # the defaults (what PPO uses)
  if r < 0.65:
    return float(2.0 - rng.uniform(0, 2) * (1 - 1e-9)), float(2.0 - rng.uniform(0, 2) * (1 - 1e-9))  # (0, 2]
  if r < 0.9:
    return float(np.exp(rng.uniform(np.log(1e-3), np.log(2.0)))), float(np.exp(rng.uniform(np.log(1e-3), np.log(2.0))))
  return float(rng.choice([2.0, 1.0, 0.5, 1e-3])), float(rng.choice([2.0, 1.0, 0.5, 0.1]))


QUICK_SHAPES = [(), (1,), (3,), (5,), (1, 1), (2, 3), (4, 2), (3, 4)]


def gen_bshape(rng, big=False):
  """batch shapes with 0, 1, 2 leading axes.  quick: a pool of 8 shapes (each (event size, shape) pair
  costs one XLA compilation); thorough: every shape with axes in 1..6"""
  if not big:
    return QUICK_SHAPES[int(rng.integers(0, len(QUICK_SHAPES)))]
  nd = int(rng.choice([0, 1, 2], p=[0.15, 0.35, 0.5]))
  return tuple(int(rng.integers(1, 7)) for _ in range(nd))


def gen_dist_case(rng, idx, big=False):
  n = 1 + idx % 6
  bshape = gen_bshape(rng, big)
  B = int(np.prod(bshape)) if bshape else 1
  min_std, var_scale = gen_cfg(rng)
  loc = _edge(rng, -10, 10, [0.0, 10.0, -10.0, 1.0, -1.0], size=(B, n))
  raw = _edge(rng, -20, 20, [0.0, 20.0, -20.0, -5.0, 5.0], size=(B, n))
  params = np.concatenate([loc, raw], axis=-1)
  kind = rng.random(size=(B, n))
  x_far = _edge(rng, -40, 40, [0.0, 40.0, -40.0, 19.0, -19.0, 0.5], size=(B, n))
  x_mid = rng.uniform(-3, 3, size=(B, n))
  sc = (np.logaddexp(raw, 0.0) + min_std) * var_scale
  x_near = np.clip(loc + rng.normal(size=(B, n)) * sc, -40, 40)
  x = np.where(kind < 0.45, x_far, np.where(kind < 0.7, x_mid, x_near))
  ykind = rng.random(size=(B, n))
  y = np.where(ykind < 0.5, rng.uniform(-1, 1, size=(B, n)),
               np.where(ykind < 0.9, np.tanh(rng.uniform(-40, 40, size=(B, n))),
                        rng.choice([0.0, 1.0 - 2.0 ** -53, -1.0 + 2.0 ** -53, 0.5, -0.999], size=(B, n))))
  return dict(kind='dist', n=n, bshape=list(bshape), min_std=min_std, var_scale=var_scale,
              key=int(rng.integers(0, 2 ** 31 - 1)), params=params.tolist(), x=x.tolist(), y=y.tolist())


INFER_POOL = [  # (obs size, hidden layers, batch shape)
    (3, (4, 4), (2, 3)), (1, (3,), ()), (5, (5, 2), (4,)), (2, (), (1, 1)),
    (4, (4, 4), (3,)), (3, (3,), (2, 2)), (2, (5, 2), ()), (5, (), (5,))]


def gen_infer_case(rng, idx):
  n = 1 + idx % 6
  O, hidden, bshape = INFER_POOL[(idx // 2) % len(INFER_POOL)]
  B = int(np.prod(bshape)) if bshape else 1
  sizes = [O] + list(hidden) + [2 * n]
  layers = []
  for din, dout in zip(sizes[:-1], sizes[1:]):
    layers.append(dict(kernel=rng.uniform(-1.5, 1.5, size=(din, dout)).tolist(),
                       bias=rng.uniform(-1.0, 1.0, size=(dout,)).tolist()))
  # spread the last layer so that loc covers about [-10,10] and the raw scale a wide range
  layers[-1]['bias'] = np.concatenate([rng.uniform(-6, 6, size=n), rng.uniform(-8, 4, size=n)]).tolist()
  return dict(kind='infer', n=n, O=O, hidden=list(hidden), bshape=list(bshape),
              deterministic=bool(idx % 2), key=int(rng.integers(0, 2 ** 31 - 1)),
              obs=rng.uniform(-5, 5, size=(B, O)).tolist(),
              mean=rng.uniform(-2, 2, size=O).tolist(), std=rng.uniform(0.5, 3.0, size=O).tolist(),
              layers=layers)


# ----------------------------------------------------------------------------- real code


_DIST_FN = {}


def _dist_bundle(n, jit):
  """all observed methods of the real NormalTanhDistribution in one function of
  (min_std, var_scale, parameters, actions, squashed actions, key)"""
  if (n, jit) in _DIST_FN:
    return _DIST_FN[(n, jit)]
  jax = _jax()
  from brax.training import distribution as D

  def f(min_std, var_scale, P, X, Y, key):
    d = D.NormalTanhDistribution(event_size=n, min_std=min_std, var_scale=var_scale)
    assert d.param_size == 2 * n
    dist = d.create_dist(P)
    return dict(
        eps=jax.random.normal(key, shape=P.shape[:-1] + (n,)),   # the draw NormalDistribution.sample makes
        sample=d.sample(P, key), mode=d.mode(P), raw=d.sample_no_postprocessing(P, key),
        scale=dist.scale, loc=dist.loc, logp=d.log_prob(P, X), ent=d.entropy(P, key),
        post=d.postprocess(X), inv=d.inverse_postprocess(Y))

  _DIST_FN[(n, jit)] = jax.jit(f) if jit else f
  return _DIST_FN[(n, jit)]


def run_real_dist(case, jit=True):
  """calls the real NormalTanhDistribution (jitted per shape, or op by op); everything flattened to
  (B, ·) float64 numpy"""
  jax = _jax()
  import jax.numpy as jnp
  n, bshape = case['n'], tuple(case['bshape'])
  P = jnp.asarray(np.asarray(case['params'], dtype=np.float64).reshape(bshape + (2 * n,)))
  X = jnp.asarray(np.asarray(case['x'], dtype=np.float64).reshape(bshape + (n,)))
  Y = jnp.asarray(np.asarray(case['y'], dtype=np.float64).reshape(bshape + (n,)))
  key = jax.random.PRNGKey(case['key'])
  f = _dist_bundle(n, jit)
  out = dict(f(case['min_std'], case['var_scale'], P, X, Y, key))
  out['sample2'] = f(case['min_std'], case['var_scale'], P, X, Y, key)['sample']     # same key again
  res = {}
  for k, v in out.items():
    v = np.asarray(v, dtype=np.float64)
    want = bshape if k in ('logp', 'ent') else bshape + (n,)
    if v.shape != want:
      raise AssertionError(f'{k}: shape {v.shape}, expected {want}')
    res[k] = v.reshape((-1,) if k in ('logp', 'ent') else (-1, n))
  return res


def np_logits(case):
  """policy(preprocess(obs)) computed independently of brax/flax: normalise FIRST, then the MLP"""
  obs = np.asarray(case['obs'], dtype=np.float64)
  h = (obs - np.asarray(case['mean'])) / np.asarray(case['std'])
  L = case['layers']
  for i, l in enumerate(L):
    h = h @ np.asarray(l['kernel'], dtype=np.float64) + np.asarray(l['bias'], dtype=np.float64)
    if i != len(L) - 1:
      h = h / (1.0 + np.exp(-h))                     # swish
  return h


_INFER_FN = {}


def _infer_fn(O, n, hidden, det):
  k = (O, n, tuple(hidden), det)
  if k in _INFER_FN:
    return _INFER_FN[k]
  jax = _jax()
  from brax.training.agents.ppo import networks as PN
  from brax.training.acme import running_statistics as RS
  nets = PN.make_ppo_networks(O, n, preprocess_observations_fn=RS.normalize,
                              policy_hidden_layer_sizes=tuple(hidden))
  make_policy = PN.make_inference_fn(nets)

  def f(norm, pparams, obs, key):
    return make_policy((norm, pparams), deterministic=det)(obs, key)

  _INFER_FN[k] = jax.jit(f)
  return _INFER_FN[k]


def run_real_infer(case):
  jax = _jax()
  import jax.numpy as jnp
  from brax.training.acme import running_statistics as RS
  n, O, bshape = case['n'], case['O'], tuple(case['bshape'])
  pparams = {'params': {f'hidden_{i}': {'kernel': jnp.asarray(np.asarray(l['kernel'], dtype=np.float64)),
                                        'bias': jnp.asarray(np.asarray(l['bias'], dtype=np.float64))}
                        for i, l in enumerate(case['layers'])}}
  norm = RS.RunningStatisticsState(
      mean=jnp.asarray(np.asarray(case['mean'], dtype=np.float64)),
      std=jnp.asarray(np.asarray(case['std'], dtype=np.float64)),
      count=jnp.asarray(17.0), summed_variance=jnp.asarray(np.ones(O)))
  obs = jnp.asarray(np.asarray(case['obs'], dtype=np.float64).reshape(bshape + (O,)))
  key = jax.random.PRNGKey(case['key'])
  action, extra = _infer_fn(O, n, case['hidden'], case['deterministic'])(norm, pparams, obs, key)
  eps = np.asarray(jax.random.normal(key, shape=bshape + (n,)), dtype=np.float64).reshape(-1, n)
  action = np.asarray(action, dtype=np.float64)
  if action.shape != bshape + (n,):
    raise AssertionError(f'action shape {action.shape}')
  res = dict(action=action.reshape(-1, n), eps=eps, keys=sorted(extra.keys()))
  if 'log_prob' in extra:
    res['logp'] = np.asarray(extra['log_prob'], dtype=np.float64).reshape(-1)
  if 'raw_action' in extra:
    res['raw'] = np.asarray(extra['raw_action'], dtype=np.float64).reshape(-1, n)
  return res


# ----------------------------------------------------------------------------- driver lines


def dist_line(case, real):
  n = case['n']
  B = real['eps'].shape[0]
  vals = [case['min_std'], case['var_scale']]
  vals += list(np.asarray(case['params'], dtype=np.float64).ravel())
  vals += list(real['eps'].ravel())
  vals += list(np.asarray(case['x'], dtype=np.float64).ravel())
  vals += list(np.asarray(case['y'], dtype=np.float64).ravel())
  return ' '.join(['C20.dist', str(n), str(B)] + [f2hex(v) for v in vals])


def infer_lines(case, real, logits):
  n, O = case['n'], case['O']
  B = real['eps'].shape[0]
  det = '1' if case['deterministic'] else '0'
  l1 = ' '.join(['C20.infer', det, str(B), str(n)] + [f2hex(v) for v in list(logits.ravel()) + list(real['eps'].ravel())])
  toks = ['C20.inferNet', det, str(B), str(O), str(n)]
  toks += [f2hex(v) for v in np.asarray(case['obs'], dtype=np.float64).ravel()]
  toks += [f2hex(v) for v in case['mean']] + [f2hex(v) for v in case['std']]
  toks.append(str(len(case['layers'])))
  for l in case['layers']:
    k = np.asarray(l['kernel'], dtype=np.float64)
    toks += [str(k.shape[0]), str(k.shape[1])] + [f2hex(v) for v in k.ravel()] + [f2hex(v) for v in l['bias']]
  toks += [f2hex(v) for v in real['eps'].ravel()]
  return l1, ' '.join(toks)


def parse_out(line):
  t = line.split()
  return t[0], np.array([hex2f(x) for x in t[1:]], dtype=np.float64)


# ----------------------------------------------------------------------------- correspondence


def ill_conditioned(case, real, r):
  """the float64 code forms x/sigma - loc/sigma; when |x|/sigma is huge a 1-ulp difference in sigma
  (libm exp/log of XLA vs C) is amplified beyond 1e-9: such rows are counted, not compared"""
  n = case['n']
  x = np.asarray(case['x'], dtype=np.float64).reshape(-1, n)[r]
  p = np.asarray(case['params'], dtype=np.float64).reshape(-1, 2 * n)[r]
  sg = real['scale'][r]
  z = np.abs(x - p[:n]) / sg
  amp = np.sum(16 * EPS * ((np.abs(x) + np.abs(p[:n])) / sg * (z + 1e-8) + z * z))
  return amp > 0.25 * tol(real['logp'][r])


def compare_dist(case, real, out, stats, disagreements):
  n = case['n']
  B = real['eps'].shape[0]
  tag, v = parse_out(out)
  if tag != 'ok' or v.size != B * (6 * n + 2):
    disagreements.append(dict(what=f'C20.dist: driver answered {out[:80]}', case=case)); return
  v = v.reshape(B, 6 * n + 2)
  fields = [('sample', 0, n), ('mode', n, n), ('raw', 2 * n, n), ('scale', 3 * n, n),
            ('logp', 4 * n, 1), ('ent', 4 * n + 1, 1), ('post', 4 * n + 2, n), ('inv', 5 * n + 2, n)]
  yv = np.asarray(case['y'], dtype=np.float64).reshape(-1, n)
  for r in range(B):
    stats['rows'] += 1
    for name, off, ln in fields:
      m = v[r, off:off + ln]
      rr = np.atleast_1d(real[name][r])
      if name == 'logp' and ill_conditioned(case, real, r):
        stats['skipped_ill_conditioned_logp'] += 1
        continue
      for j in range(ln):
        stats['compared'] += 1
        if name == 'inv' and abs(yv[r, j]) == 1.0:
          stats['saturated_inverse(+-inf both sides)'] += 1
        if not np.isfinite(rr[j]) and not (name == 'inv'):
          stats['nonfinite_real_output'] += 1
        if not close(m[j], rr[j]):
          disagreements.append(dict(
              what=f'model and implementation differ on NormalTanhDistribution.{name}',
              field=name, row=r, dim=j, model=float(m[j]), real=float(rr[j]), case=case))
          return


def compare_infer(case, real, outs, logits, stats, disagreements):
  n = case['n']
  B = real['eps'].shape[0]
  det = case['deterministic']
  want_keys = [] if det else ['log_prob', 'raw_action']
  if real['keys'] != want_keys:
    disagreements.append(dict(what=f'make_inference_fn: extras {real["keys"]}, model says {want_keys}', case=case))
    return
  for op, out in zip(('infer(logits as data)', 'inferNet(network in the model)'), outs):
    tag, v = parse_out(out)
    width = n if det else 2 * n + 1
    if tag != ('det' if det else 'sto') or v.size != B * width:
      disagreements.append(dict(what=f'C20.{op}: driver answered {out[:80]}', case=case)); return
    v = v.reshape(B, width)
    for r in range(B):
      stats['infer_rows'] += 1
      pairs = [('action', v[r, :n], real['action'][r])]
      if not det:
        pairs += [('log_prob', v[r, n:n + 1], real['logp'][r:r + 1]), ('raw_action', v[r, n + 1:], real['raw'][r])]
      for name, m, rr in pairs:
        for j in range(len(m)):
          stats['compared'] += 1
          if not close(m[j], rr[j]):
            disagreements.append(dict(
                what=f'model and implementation differ on make_inference_fn {name} [{op}, deterministic={det}]',
                field=name, row=r, dim=j, model=float(m[j]), real=float(rr[j]), case=case))
            return


# ----------------------------------------------------------------------------- SPEC on the real code


def spec_dist(case, real=None, rows=None):
  """evaluates the property on the real code for one case; returns (failures, counters)"""
  real = real or run_real_dist(case)
  n = case['n']
  P = np.asarray(case['params'], dtype=np.float64).reshape(-1, 2 * n)
  X = np.asarray(case['x'], dtype=np.float64).reshape(-1, n)
  Y = np.asarray(case['y'], dtype=np.float64).reshape(-1, n)
  ms, vs = case['min_std'], case['var_scale']
  fails, cnt = [], dict(spec_rows=0, spec_skipped_ill_conditioned=0)

  def fail(clause, what, r, **kw):
    fails.append(dict(key=f'C20:{clause}', clause=clause, what=what, row=int(r), case=case, **kw))

  B = P.shape[0]
  for r in (range(B) if rows is None else rows):
    cnt['spec_rows'] += 1
    # 1 range of sample and mode
    for nm in ('sample', 'mode'):
      a = real[nm][r]
      if not (np.all(np.isfinite(a)) and np.all(np.abs(a) <= 1.0)):
        fail('range', f'{nm} leaves [-1, 1]', r, value=a.tolist()); break
    # mode is the squashed location, sample the squashed reparameterised draw
    for j in range(n):
      sg = float(d_scale(ms, vs, P[r, n + j]))
      if not close(real['mode'][r, j], float(d_tanh(P[r, j]))):
        fail('mode', 'mode is not tanh(loc)', r, dim=j, got=float(real['mode'][r, j])); break
      raw_spec = P[r, j] + real['eps'][r, j] * sg
      if not close(real['raw'][r, j], raw_spec):
        fail('reparam', 'sample_no_postprocessing is not loc + eps(key)*scale', r, dim=j,
             got=float(real['raw'][r, j]), want=raw_spec); break
      if not close(real['sample'][r, j], float(d_tanh(real['raw'][r, j]))):
        fail('reparam', 'sample is not tanh(loc + eps(key)*scale)', r, dim=j, got=float(real['sample'][r, j])); break
      # 4 scale floor (exact in IEEE arithmetic: softplus >= 0, rounding is monotone)
      if not (real['scale'][r, j] >= ms * vs and real['scale'][r, j] > 0):
        fail('scale_floor', 'scale below min_std*var_scale', r, dim=j, got=float(real['scale'][r, j]),
             floor=ms * vs); break
      if not close(real['scale'][r, j], sg):
        fail('scale', 'scale is not (softplus(raw)+min_std)*var_scale', r, dim=j,
             got=float(real['scale'][r, j]), want=sg); break
    # determinism in the key
    if not np.array_equal(real['sample'][r], real['sample2'][r]):
      fail('determinism', 'two calls with the same key differ', r)
    # 2 log-probability
    want, allow = spec_logprob(ms, vs, P[r], X[r])
    if allow > 0.25 * tol(want):
      cnt['spec_skipped_ill_conditioned'] += 1
    elif not abs(real['logp'][r] - want) <= tol(want):
      fail('log_prob', 'log_prob != sum(normal log-density - log(1 - tanh^2))', r,
           got=float(real['logp'][r]), want=want)
    # 3 fldj finite for large pre-squash values (through log_prob) and entropy estimate
    if not np.isfinite(real['logp'][r]):
      fail('finite', 'log_prob not finite', r, got=float(real['logp'][r]))
    went = spec_entropy(ms, vs, P[r], real['raw'][r])
    if not abs(real['ent'][r] - went) <= tol(went):
      fail('entropy', 'entropy != sum(normal entropy + log(1 - tanh(sample)^2))', r,
           got=float(real['ent'][r]), want=went)
    # postprocess / inverse
    for j in range(n):
      if not close(real['post'][r, j], float(d_tanh(X[r, j]))):
        fail('postprocess', 'postprocess is not tanh', r, dim=j, got=float(real['post'][r, j])); break
      y = Y[r, j]
      if abs(y) < 1.0:
        back = float(d_tanh(real['inv'][r, j])) if np.isfinite(real['inv'][r, j]) else np.nan
        if not (np.isfinite(back) and abs(back - y) <= 1e-9):
          fail('inverse', 'tanh(inverse_postprocess(y)) != y', r, dim=j, y=float(y),
               got=float(real['inv'][r, j])); break
  return fails, cnt


def spec_infer(case, real=None):
  real = real or run_real_infer(case)
  n = case['n']
  logits = np_logits(case)
  det = case['deterministic']
  fails = []

  def fail(clause, what, r, **kw):
    fails.append(dict(key=f'C20:{clause}', clause=clause, what=what, row=int(r), case=case, **kw))

  want_keys = [] if det else ['log_prob', 'raw_action']
  if real['keys'] != want_keys:
    fail('inference_extras', f'extras are {real["keys"]}, expected {want_keys}', 0)
    return fails
  B = logits.shape[0]
  for r in range(B):
    for j in range(n):
      if det:
        want = float(d_tanh(logits[r, j]))
        if not close(real['action'][r, j], want):
          fail('inference_deterministic', 'deterministic action is not tanh(loc(policy(normalize(obs))))',
               r, dim=j, got=float(real['action'][r, j]), want=want); break
      else:
        sg = float(d_scale(0.001, 1.0, logits[r, n + j]))
        raw = logits[r, j] + real['eps'][r, j] * sg
        if not close(real['raw'][r, j], raw):
          fail('inference_raw', 'raw_action is not loc + eps(key)*scale of policy(normalize(obs))', r, dim=j,
               got=float(real['raw'][r, j]), want=raw); break
        if not close(real['action'][r, j], float(d_tanh(real['raw'][r, j]))):
          fail('inference_action', 'action is not tanh(raw_action)', r, dim=j,
               got=float(real['action'][r, j])); break
    else:
      if not det:
        want, allow = spec_logprob(0.001, 1.0, logits[r], real['raw'][r])
        if allow <= 0.25 * tol(want) and not abs(real['logp'][r] - want) <= tol(want):
          fail('inference_log_prob', 'extras.log_prob is not the log-probability of raw_action', r,
               got=float(real['logp'][r]), want=want)
    if np.any(np.abs(real['action'][r]) > 1.0):
      fail('range', 'action leaves [-1, 1]', r, value=real['action'][r].tolist())
  return fails


def odd_params_rejected():
  """`jnp.split(parameters, 2)` raises on an odd parameter vector (the model's guard: the driver
  answers bad-args, the theorems assume `params = loc ++ raw` with equal lengths)"""
  _jax()
  import jax.numpy as jnp
  from brax.training import distribution as D
  try:
    D.NormalTanhDistribution(event_size=1).mode(jnp.zeros((3,)))
  except Exception:
    return True
  return False


# ----------------------------------------------------------------------------- API


def _minimise(f):
  """shrink a failing case to the single failing row (batch shape ()), if it still fails"""
  case = f['case']
  try:
    r = f.get('row', 0)
    small = dict(case)
    small['bshape'] = []
    if case['kind'] == 'dist':
      n = case['n']
      for k, w in (('params', 2 * n), ('x', n), ('y', n)):
        small[k] = np.asarray(case[k], dtype=np.float64).reshape(-1, w)[r:r + 1].tolist()
      fs, _ = spec_dist(small)
    else:
      small['obs'] = np.asarray(case['obs'], dtype=np.float64).reshape(-1, case['O'])[r:r + 1].tolist()
      fs = spec_infer(small)
    fs = [g for g in fs if g['clause'] == f['clause']]
    if fs:
      return fs[0]
  except Exception:
    pass
  return f


def correspond(ctx):
  _jax()
  rng = np.random.default_rng(ctx.seed)
  target_rows = ctx.budget(500, 20000)
  n_infer = ctx.budget(48, 600)
  n_eager = ctx.budget(6, 40)          # cases run op by op (no jit)
  spec_rows_budget = ctx.budget(500, 4000)
  big = ctx.tier == 'thorough'
  stats = dict(rows=0, infer_rows=0, compared=0, skipped_ill_conditioned_logp=0, nonfinite_real_output=0)
  stats['saturated_inverse(+-inf both sides)'] = 0
  hist = dict(event_size={}, batch_ndim={}, cfg_default=0, infer_det=0, infer_sto=0, hidden={})
  disagreements, spec_failures, samples = [], [], []
  spec_cnt = dict(spec_rows=0, spec_skipped_ill_conditioned=0)
  cases, reals, lines = [], [], []
  rows, idx = 0, 0
  distinct = set()
  while rows < target_rows:
    case = gen_dist_case(rng, idx, big); idx += 1
    real = run_real_dist(case, jit=not (idx <= n_eager))
    cases.append(case); reals.append(real); lines.append(dist_line(case, real))
    B = real['eps'].shape[0]
    rows += B
    hist['event_size'][case['n']] = hist['event_size'].get(case['n'], 0) + B
    nd = len(case['bshape'])
    hist['batch_ndim'][nd] = hist['batch_ndim'].get(nd, 0) + 1
    hist['cfg_default'] += int(case['min_std'] == 0.001 and case['var_scale'] == 1.0)
    P = np.asarray(case['params']).reshape(-1, 2 * case['n'])
    for r in range(B):
      if np.any(P[r] != 0):
        distinct.add((case['n'], case['min_std'], case['var_scale'], tuple(P[r].tolist())))
    if spec_cnt['spec_rows'] < spec_rows_budget:
      fs, c = spec_dist(case, real)
      for k in c:
        spec_cnt[k] += c[k]
      spec_failures += fs[:1]
  icases, ireals, ilines, ilogits = [], [], [], []
  for i in range(n_infer):
    case = gen_infer_case(rng, i)
    real = run_real_infer(case)
    logits = np_logits(case)
    l1, l2 = infer_lines(case, real, logits)
    icases.append(case); ireals.append(real); ilogits.append(logits); ilines += [l1, l2]
    hist['infer_det' if case['deterministic'] else 'infer_sto'] += 1
    hk = str(tuple(case['hidden']))
    hist['hidden'][hk] = hist['hidden'].get(hk, 0) + 1
    distinct.add(('infer', case['n'], case['O'], case['key'], case['deterministic']))
    spec_failures += spec_infer(case, real)[:1]
  if not odd_params_rejected():
    disagreements.append(dict(what='an odd parameter vector is accepted by create_dist (model: rejected)'))
  out = C.run_driver(DRIVER, lines + ilines + ['C20.nonsense', 'C20.dist 1 1 x0'])
  if len(out) != len(lines) + len(ilines) + 2:
    raise RuntimeError(f'driver returned {len(out)} lines for {len(lines) + len(ilines) + 2}')
  if out[-2] != 'bad-op' or out[-1] != 'bad-args':
    raise RuntimeError(f'driver does not reject malformed input: {out[-2:]}')
  for case, real, o in zip(cases, reals, out[:len(lines)]):
    if len(disagreements) >= 5:
      break
    compare_dist(case, real, o, stats, disagreements)
  io = out[len(lines):len(lines) + len(ilines)]
  for k, (case, real, logits) in enumerate(zip(icases, ireals, ilogits)):
    if len(disagreements) >= 5:
      break
    compare_infer(case, real, io[2 * k:2 * k + 2], logits, stats, disagreements)
  for c, r in list(zip(cases, reals))[:2]:
    samples.append(dict(n=c['n'], bshape=c['bshape'], min_std=c['min_std'], var_scale=c['var_scale'],
                        params_row0=np.asarray(c['params']).reshape(-1, 2 * c['n'])[0].tolist(),
                        x_row0=np.asarray(c['x']).reshape(-1, c['n'])[0].tolist(),
                        log_prob_row0=float(r['logp'][0]), sample_row0=r['sample'][0].tolist()))
  if icases:
    c, r = icases[0], ireals[0]
    samples.append(dict(inference=dict(n=c['n'], O=c['O'], hidden=c['hidden'], deterministic=c['deterministic'],
                                       action_row0=r['action'][0].tolist())))
  # de-duplicate spec failures by clause, minimise
  seen, sf = set(), []
  for f in spec_failures:
    if f['key'] not in seen:
      seen.add(f['key']); sf.append(_minimise(f))
  stats.update(spec_cnt)
  return dict(
      evaluations=stats['rows'] + stats['infer_rows'], distinct_nontrivial=len(distinct),
      rule='one evaluation = one event vector (row) pushed through all eight distribution methods on both '
           'sides, or one observation row through make_inference_fn (two model variants); distinct = distinct '
           '(event size, min_std, var_scale, parameter row) with a non-zero parameter row, plus distinct '
           '(sizes, key, branch) inference cases; compared scalars are counted separately',
      samples=samples, disagreements=disagreements, spec_failures=sf,
      trusted_base=[
          'correspondence harness harness/corr_C20.py and its generators (agreement on sampled inputs only, float mode 1e-9)',
          'Lean Float (C libm exp/log/tanh) vs XLA CPU float64 kernels agree to 1e-9',
          'jax.random.normal is a function of (key, shape): the draw is reproduced with the same key and passed to the model as data',
          'flax MLP / running_statistics.normalize are re-computed in numpy (normalise, then dense+swish) to obtain the logits'],
      assumptions=[
          'theorems are over the reals: IEEE round-off, overflow and tanh saturation (|x| > 19.06 gives exactly +-1, hence '
          'the closed interval [-1,1] and inverse_postprocess = inf there) are not modelled',
          'the scale floor proved is min_std*var_scale (for var_scale < 1 this is below min_std; PPO uses var_scale = 1)',
          'density integrates to one: proved for the model over R (change of variables + Gaussian integral); tied to the code only through log_prob',
          'observations are arrays (the dict/obs_key selection of make_policy_network.apply is not modelled)'],
      explanation='Tie B (float mode): the real NormalTanhDistribution methods and the real PPO inference function '
                  'against the Lean model run at IEEE doubles on the same inputs; the spec (60-digit decimal) is '
                  'evaluated on the real code for a subset of the rows on every run.',
      extra=dict(stats=stats, histogram=hist, dist_cases=len(cases), infer_cases=len(icases)))


def search(ctx, broken, corr):
  _jax()
  rng = np.random.default_rng(ctx.seed + 1)
  t_end = time.time() + ctx.budget(55, 540)
  found, seen = [], set()
  # first the disagreeing inputs themselves
  for d in corr.get('disagreements', []):
    case = d.get('case')
    if not case:
      continue
    fs = spec_dist(case)[0] if case['kind'] == 'dist' else spec_infer(case)
    for f in fs:
      if f['key'] not in seen:
        seen.add(f['key']); found.append(_minimise(f))
  idx = 0
  while time.time() < t_end and len(found) < 3:
    if idx % 4 == 3:
      fs = spec_infer(gen_infer_case(rng, idx // 4))
    else:
      fs, _ = spec_dist(gen_dist_case(rng, idx))
    idx += 1
    for f in fs:
      if f['key'] not in seen:
        seen.add(f['key']); found.append(_minimise(f))
    if found and idx > 40:
      break
  return found


def replay(ctx, rp):
  _jax()
  if rp.get('kind') != 'failing-input':
    return True, f'replay names broken obligations only: {rp.get("broken")}'
  case = rp['case']
  fs = spec_dist(case)[0] if case['kind'] == 'dist' else spec_infer(case)
  fs = [f for f in fs if f['clause'] == rp['clause']] or fs
  if fs:
    f = fs[0]
    info = {k: v for k, v in f.items() if k not in ('case', 'key')}
    return False, f'spec clause {f["clause"]} fails on the real code: {info}'
  return True, f'spec clause {rp["clause"]} holds on the replay input'
