"""C19 — generalized advantage estimation equals its definition.

correspond : exact-rational mode.  For every generated case (T in 1..12, B in 1..4, dyadic /
             rational rewards, values, bootstrap in [-5, 5], lambda, discount in [0, 1] incl. the
             end points, mutually exclusive 0/1 termination / truncation masks incl. all-zero,
             all-one and last-step patterns)
               (a) `compute_gae` of $VERIF_REPO is traced (`jax.make_jaxpr`) and its own jaxpr is
                   interpreted over `fractions.Fraction`           -> exact implementation output,
               (b) the Lean model `Brax.C19.gaeBatch` runs at `Rat` -> must be EQUAL to (a),
               (c) the Lean spec `Brax.C19.Spec.gae` (defining sum) -> must be EQUAL to (a),
               (d) the real jitted function runs in float64         -> must agree with (a) to 1e-9
                   (self-check of the interpreter; a mismatch is an internal error),
               (e) "carrying no gradient": `jax.grad` of a random linear functional of both
                   outputs w.r.t. values, rewards, bootstrap, lambda, discount and the
                   `jax.jvp` tangent are exactly zero (a non-zero one is a spec failure).
search     : the real function (exact, via its jaxpr) against the defining sum written
             independently in python over Fractions (two formulations: product of factors, and
             the prose "accumulate until the episode ends"); a failing case is shrunk.
replay     : re-runs exactly one stored case.
"""
from __future__ import annotations

import hashlib
import itertools
import os
import sys
import time
from fractions import Fraction as F

import numpy as np

HERE = os.path.dirname(os.path.abspath(__file__))
sys.path.insert(0, HERE)
import check as C  # noqa: E402
import jaxpr_eval as J  # noqa: E402

DRIVER = 'Driver/C19.lean'

# ----------------------------------------------------------------------------- implementation


def _losses(ctx):
  import jax
  jax.config.update('jax_enable_x64', True)
  from brax.training.agents.ppo import losses
  want = os.path.realpath(ctx.repo)
  got = os.path.realpath(losses.__file__)
  if not got.startswith(want + os.sep):
    raise RuntimeError(f'brax imported from {got}, expected under {want}')
  return losses


# private jaxpr evaluation: harness/jaxpr_eval.py's `scan` reads the parameters of older jax
# (`num_consts`, `num_carry`, ClosedJaxpr body); jax 0.11 passes `ft_in`/`ft_out` flat trees and
# a plain Jaxpr.  Everything else is delegated to the shared interpreter.

_CALLS = ('jit', 'pjit', 'closed_call', 'core_call', 'custom_jvp_call', 'custom_vjp_call',
          'custom_vjp_call_jaxpr', 'remat', 'checkpoint')


def _body(j):
  consts = tuple(getattr(j, 'consts', ()) or ())
  inner = getattr(j, 'jaxpr', j)
  if inner is j or not hasattr(inner, 'eqns'):
    inner = j
  return inner, consts


def _scan_private(eqn, ins, dom):
  p = eqn.params
  if 'num_consts' in p:
    n_consts, n_carry = p['num_consts'], p['num_carry']
  else:
    parts = p['ft_in'].unpack()
    n_consts, n_carry = len(parts[0].vals), len(parts[1].vals)
  body, bconsts = _body(p['jaxpr'])
  length, reverse = p['length'], p['reverse']
  consts = list(ins[:n_consts])
  carry = list(ins[n_consts:n_consts + n_carry])
  xs = ins[n_consts + n_carry:]
  n_y = len(body.outvars) - n_carry
  if len(eqn.outvars) != n_carry + n_y:
    raise J.Unsupported('scan with forwarded outputs')
  collected = {}
  for t in (range(length - 1, -1, -1) if reverse else range(length)):
    xt = [np.asarray(x)[t] if not isinstance(x, np.ndarray) else x[t] for x in xs]
    xt = [x if isinstance(x, np.ndarray) else J._obj(x) for x in xt]
    outs = _eval_private(body, bconsts, consts + carry + xt, dom)
    carry = list(outs[:n_carry])
    collected[t] = outs[n_carry:]
  ys = []
  for k in range(n_y):
    elems = [collected[t][k] for t in range(length)]
    elems = [e if J._is_dom(e) else J.lift(dom, e) for e in elems]
    ys.append(np.stack(elems) if elems else np.empty((0,), dtype=object))
  return carry + ys


def _eval_private(jaxpr, consts, args, dom):
  env = {}

  def read(v):
    if type(v).__name__ == 'Literal':
      if J._is_float_aval(v.aval):
        return J.emap(dom.lit, np.asarray(v.val))
      return np.asarray(v.val)
    return env[v]

  for v, c in zip(jaxpr.constvars, consts):
    c_np = np.asarray(c)
    if np.issubdtype(c_np.dtype, np.floating):
      c_np = J.emap(dom.const, c_np)
    env[v] = c_np
  for v, a in zip(jaxpr.invars, args):
    env[v] = a
  for eqn in jaxpr.eqns:
    ins = [read(v) for v in eqn.invars]
    name = eqn.primitive.name
    if name == 'scan':
      outs = _scan_private(eqn, ins, dom)
    elif name in _CALLS:
      sub = J._sub_jaxpr(eqn.params)
      if sub is None:
        raise J.Unsupported(f'{name} without jaxpr')
      outs = _eval_private(sub[0], sub[1], ins, dom)
    else:
      outs = J._apply(eqn, ins, dom)
      if not eqn.primitive.multiple_results:
        outs = [outs]
    for v, o in zip(eqn.outvars, outs):
      env[v] = o
  return [read(v) for v in jaxpr.outvars]


def _has_indexing(jaxpr):
  for eqn in jaxpr.eqns:
    if eqn.primitive.name in ('gather', 'scatter', 'scatter-add', 'scatter_add', 'dynamic_slice',
                              'dynamic_update_slice'):
      return True
    for sub in eqn.params.values():
      inner = getattr(sub, 'jaxpr', sub)
      if hasattr(inner, 'eqns') and _has_indexing(inner):
        return True
  return False


class Impl:
  """the real `compute_gae`: traced once per shape; exact (Fraction) and float64 evaluation"""

  def __init__(self, ctx):
    import jax
    import jax.numpy as jnp
    self.jax, self.jnp = jax, jnp
    self.losses = _losses(ctx)
    self.fn = lambda tr, te, r, v, b, lam, disc: self.losses.compute_gae(tr, te, r, v, b, lam, disc)
    self.jit = jax.jit(self.fn)
    self._jaxprs = {}
    self._const = {}
    self._grad = {}
    self.primitives = set()

  def jaxpr(self, T, B):
    if (T, B) not in self._jaxprs:
      z = self.jnp.zeros((T, B))
      cj = self.jax.make_jaxpr(self.fn)(z, z, z, z, self.jnp.zeros((B,)), 0.5, 0.5)
      if _has_indexing(cj.jaxpr):
        raise J.Unsupported('compute_gae jaxpr contains gather/scatter')
      self._collect(cj.jaxpr)
      self._jaxprs[(T, B)] = cj
    return self._jaxprs[(T, B)]

  def _collect(self, jaxpr):
    for e in jaxpr.eqns:
      self.primitives.add(e.primitive.name)
      for sub in e.params.values():
        inner = getattr(sub, 'jaxpr', sub)
        if hasattr(inner, 'eqns'):
          self._collect(inner)

  @staticmethod
  def _arr(rows):
    return np.array(rows, dtype=object)

  def exact(self, case):
    """-> (vs, adv) as [T][B] lists of Fractions, by interpreting the function's own jaxpr"""
    T, B = case['T'], case['B']
    args = [self._arr(case[k]) for k in ('trunc', 'term', 'rew', 'val')] + [self._arr(case['boot'])]
    if case.get('const'):
      cj = self.jaxpr_const(T, B, case['lam'], case['disc'])
    else:
      cj = self.jaxpr(T, B)
      args += [J._obj(case['lam']), J._obj(case['disc'])]
    inner, consts = _body(cj)
    vs, adv = _eval_private(inner, consts, args, J.FracDomain())
    return ([[F(x) for x in row] for row in vs.tolist()], [[F(x) for x in row] for row in adv.tolist()])

  def jaxpr_const(self, T, B, lam, disc):
    """lambda_/discount as python floats baked into the trace (the way ppo/train.py calls it)"""
    key = (T, B, lam, disc)
    if key not in self._const:
      z = self.jnp.zeros((T, B))
      g = lambda tr, te, r, v, b: self.losses.compute_gae(tr, te, r, v, b, lambda_=float(lam), discount=float(disc))
      self._const[key] = (self.jax.make_jaxpr(g)(z, z, z, z, self.jnp.zeros((B,))), self.jax.jit(g))
      self._collect(self._const[key][0].jaxpr)
    return self._const[key][0]

  def _f64(self, case):
    f = lambda rows: self.jnp.asarray(np.array([[float(x) for x in row] for row in rows], dtype=np.float64))
    return [f(case[k]) for k in ('trunc', 'term', 'rew', 'val')] + [
        self.jnp.asarray(np.array([float(x) for x in case['boot']], dtype=np.float64))]

  def float64(self, case):
    args = self._f64(case)
    if case.get('const'):
      self.jaxpr_const(case['T'], case['B'], case['lam'], case['disc'])
      vs, adv = self._const[(case['T'], case['B'], case['lam'], case['disc'])][1](*args)
    else:
      vs, adv = self.jit(*args, float(case['lam']), float(case['disc']))
    return np.asarray(vs, dtype=np.float64), np.asarray(adv, dtype=np.float64)

  def gradient(self, case, rng):
    """max |gradient| / |tangent| of a random linear functional of both outputs"""
    jax, jnp = self.jax, self.jnp
    T, B = case['T'], case['B']
    if (T, B) not in self._grad:
      def scal(v, r, b, lam, disc, tr, te, w1, w2):
        vs, adv = self.losses.compute_gae(tr, te, r, v, b, lam, disc)
        return jnp.sum(w1 * vs) + jnp.sum(w2 * adv)
      def tang(v, r, b, lam, disc, tr, te, dv, dr, db, dl, dd):
        f = lambda v, r, b, lam, disc: self.losses.compute_gae(tr, te, r, v, b, lam, disc)
        return jax.jvp(f, (v, r, b, lam, disc), (dv, dr, db, dl, dd))[1]
      self._grad[(T, B)] = (jax.jit(jax.grad(scal, argnums=(0, 1, 2, 3, 4))), jax.jit(tang))
    g, t = self._grad[(T, B)]
    tr, te, r, v, b = self._f64(case)
    lam, disc = jnp.float64(float(case['lam'])), jnp.float64(float(case['disc']))
    w1, w2 = (jnp.asarray(rng.uniform(0.5, 2.0, size=(T, B))) for _ in range(2))
    grads = g(v, r, b, lam, disc, tr, te, w1, w2)
    gmax = max(float(np.max(np.abs(np.asarray(x)))) for x in grads)
    tans = t(v, r, b, lam, disc, tr, te, jnp.ones((T, B)), jnp.ones((T, B)), jnp.ones((B,)),
             jnp.float64(1.0), jnp.float64(1.0))
    tmax = max(float(np.max(np.abs(np.asarray(x)))) for x in tans)
    return gmax, tmax


# ----------------------------------------------------------------------------- python spec


def spec_sum(case, b):
  """defining sum, product-of-factors form, for batch member b -> (vs, adv) lists of Fractions"""
  T = case['T']
  col = lambda k: [case[k][t][b] for t in range(T)]
  trunc, term, rew, val = col('trunc'), col('term'), col('rew'), col('val')
  boot, lam, disc = case['boot'][b], case['lam'], case['disc']
  V = val + [boot]
  c = [disc * lam * (1 - term[j]) * (1 - trunc[j]) for j in range(T)]
  d = [(rew[k] + disc * (1 - term[k]) * V[k + 1] - val[k]) * (1 - trunc[k]) for k in range(T)]
  vs = []
  for t in range(T):
    s = F(0)
    for k in range(t, T):
      p = F(1)
      for j in range(t, k):
        p *= c[j]
      s += p * d[k]
    vs.append(val[t] + s)
  VS = vs + [boot]
  adv = [(rew[t] + disc * (1 - term[t]) * VS[t + 1] - val[t]) * (1 - trunc[t]) for t in range(T)]
  return vs, adv


def spec_prose(case, b):
  """the property's prose for 0/1 masks: discounted lambda-weighted TD errors accumulated until
  the episode ends, bootstrapping from the next value except across a termination, nothing at and
  nothing across a truncated step"""
  T = case['T']
  col = lambda k: [case[k][t][b] for t in range(T)]
  trunc, term, rew, val = col('trunc'), col('term'), col('rew'), col('val')
  boot, lam, disc = case['boot'][b], case['lam'], case['disc']
  for m in trunc + term:
    if m not in (0, 1):
      return None
  def td(k):
    if trunc[k] == 1:
      return F(0)
    if term[k] == 1:
      return rew[k] - val[k]
    nxt = val[k + 1] if k + 1 < T else boot
    return rew[k] + disc * nxt - val[k]
  vs = []
  for t in range(T):
    s, w, k = F(0), F(1), t
    while k < T:
      s += w * td(k)
      if trunc[k] == 1 or term[k] == 1:
        break
      w *= disc * lam
      k += 1
    vs.append(val[t] + s)
  adv = []
  for t in range(T):
    if trunc[t] == 1:
      adv.append(F(0))
    elif term[t] == 1:
      adv.append(rew[t] - val[t])
    else:
      nxt = vs[t + 1] if t + 1 < T else boot
      adv.append(rew[t] + disc * nxt - val[t])
  return vs, adv


def spec_case(case):
  """-> (vs, adv) as [T][B]; the two python formulations are cross-checked (harness self-check)"""
  T, B = case['T'], case['B']
  cols = []
  for b in range(B):
    s = spec_sum(case, b)
    p = spec_prose(case, b)
    if p is not None and p != s:
      raise RuntimeError('python spec formulations disagree with each other')
    cols.append(s)
  vs = [[cols[b][0][t] for b in range(B)] for t in range(T)]
  adv = [[cols[b][1][t] for b in range(B)] for t in range(T)]
  return vs, adv


# ----------------------------------------------------------------------------- generator

LAMS = [F(0), F(1), F(1, 2), F(19, 20), F(3, 4), F(1, 4), F(1, 3), F(97, 100)]
DISCS = [F(1), F(0), F(99, 100), F(1, 2), F(9, 10), F(3, 4), F(2, 3), F(997, 1000)]
MASK_KINDS = ['none', 'all_term', 'all_trunc', 'last_term', 'last_trunc', 'random', 'one_boundary',
              'dense', 'first_term', 'first_trunc']


def _value(rng, style):
  if style == 'dyadic':
    return F(int(rng.integers(-40, 41)), 8)
  if style == 'int':
    return F(int(rng.integers(-5, 6)))
  if style == 'decimal':
    return F(int(rng.integers(-500, 501)), 100)
  return F(int(rng.integers(-15, 16)), 3)        # thirds


def _mask_column(rng, T, kind):
  """-> list of (trunc, term) per step, mutually exclusive"""
  none, term, trunc = (0, 0), (0, 1), (1, 0)
  if kind == 'none':
    return [none] * T
  if kind == 'all_term':
    return [term] * T
  if kind == 'all_trunc':
    return [trunc] * T
  if kind == 'last_term':
    return [none] * (T - 1) + [term]
  if kind == 'last_trunc':
    return [none] * (T - 1) + [trunc]
  if kind == 'first_term':
    return [term] + [none] * (T - 1)
  if kind == 'first_trunc':
    return [trunc] + [none] * (T - 1)
  if kind == 'one_boundary':
    col = [none] * T
    col[int(rng.integers(0, T))] = term if rng.random() < 0.5 else trunc
    return col
  p = 0.5 if kind == 'dense' else 0.2
  col = []
  for _ in range(T):
    u = rng.random()
    col.append(term if u < p / 2 else trunc if u < p else none)
  return col


def make_case(rng, T, B, kinds=None, lam=None, disc=None, style=None, const=False, cols=None):
  style = style or ['dyadic', 'dyadic', 'int', 'decimal', 'thirds'][int(rng.integers(0, 5))]
  if lam is None:
    lam = LAMS[int(rng.integers(0, len(LAMS)))] if rng.random() < 0.7 else F(int(rng.integers(0, 17)), 16)
  if disc is None:
    disc = DISCS[int(rng.integers(0, len(DISCS)))] if rng.random() < 0.7 else F(int(rng.integers(0, 17)), 16)
  if cols is None:
    kinds = kinds or [MASK_KINDS[int(rng.integers(0, len(MASK_KINDS)))] for _ in range(B)]
    cols = [_mask_column(rng, T, k) for k in kinds]
  else:
    kinds = ['enumerated'] * B
  grid = lambda f: [[f(t, b) for b in range(B)] for t in range(T)]
  return dict(T=T, B=B, lam=lam, disc=disc, const=bool(const), style=style, kinds=list(kinds),
              trunc=grid(lambda t, b: F(cols[b][t][0])), term=grid(lambda t, b: F(cols[b][t][1])),
              rew=grid(lambda t, b: _value(rng, style)), val=grid(lambda t, b: _value(rng, style)),
              boot=[_value(rng, style) for _ in range(B)])


def edge_cases(rng):
  out = []
  for T, B in ((1, 1), (1, 4), (2, 1), (12, 4), (12, 1), (5, 3)):
    for lam, disc in ((F(0), F(0)), (F(1), F(1)), (F(0), F(1)), (F(1), F(0))):
      for kind in ('none', 'all_term', 'all_trunc', 'last_term', 'last_trunc'):
        out.append(make_case(rng, T, B, kinds=[kind] * B, lam=lam, disc=disc))
  # all-zero data, extreme data
  c = make_case(rng, 4, 2, kinds=['none', 'random'])
  c['rew'] = [[F(0)] * 2 for _ in range(4)]; c['val'] = [[F(0)] * 2 for _ in range(4)]; c['boot'] = [F(0)] * 2
  out.append(c)
  c = make_case(rng, 12, 4, kinds=['none'] * 4, lam=F(1), disc=F(1))
  c['rew'] = [[F(5)] * 4 for _ in range(12)]; c['val'] = [[F(-5)] * 4 for _ in range(12)]; c['boot'] = [F(5)] * 4
  out.append(c)
  # lambda_/discount given as python floats (dyadic so that the decimal and the binary reading agree)
  for lam, disc in ((F(1), F(1)), (F(1, 2), F(3, 4)), (F(0), F(1, 2)), (F(3, 4), F(0)), (F(7, 8), F(15, 16))):
    out.append(make_case(rng, int(rng.integers(2, 9)), int(rng.integers(1, 5)), lam=lam, disc=disc, const=True))
  return out


def generate(ctx, rng):
  cases = edge_cases(rng)
  per_shape = ctx.budget(4, 8)
  for T in range(1, 13):
    for B in range(1, 5):
      for _ in range(per_shape):
        cases.append(make_case(rng, T, B))
  if ctx.tier == 'thorough':
    # every mutually exclusive mask pattern for T <= 5, packed four to a batch
    opts = [(0, 0), (0, 1), (1, 0)]
    for T in range(1, 6):
      pats = list(itertools.product(opts, repeat=T))
      for i in range(0, len(pats), 4):
        cols = [list(p) for p in pats[i:i + 4]]
        cases.append(make_case(rng, T, len(cols), cols=cols))
    for _ in range(3000 - 48 * per_shape):
      cases.append(make_case(rng, int(rng.integers(1, 13)), int(rng.integers(1, 5))))
  return cases


# ----------------------------------------------------------------------------- wire


def tok(x):
  x = F(x)
  return str(x.numerator) if x.denominator == 1 else f'{x.numerator}/{x.denominator}'


def case_line(tag, c):
  flat = lambda rows: [tok(x) for row in rows for x in row]
  return ' '.join([tag, str(c['T']), str(c['B']), tok(c['lam']), tok(c['disc'])] + flat(c['trunc'])
                  + flat(c['term']) + flat(c['rew']) + flat(c['val']) + [tok(x) for x in c['boot']])


def parse_out(line, T, B):
  ts = line.split()
  if len(ts) != 2 * T * B:
    return None
  xs = [F(t) for t in ts]
  grid = lambda off: [[xs[off + t * B + b] for b in range(B)] for t in range(T)]
  return grid(0), grid(T * B)


def case_json(c):
  j = dict(c)
  for k in ('trunc', 'term', 'rew', 'val'):
    j[k] = [[tok(x) for x in row] for row in c[k]]
  j['boot'] = [tok(x) for x in c['boot']]
  j['lam'], j['disc'] = tok(c['lam']), tok(c['disc'])
  return j


def case_from_json(j):
  c = dict(j)
  for k in ('trunc', 'term', 'rew', 'val'):
    c[k] = [[F(x) for x in row] for row in j[k]]
  c['boot'] = [F(x) for x in j['boot']]
  c['lam'], c['disc'] = F(j['lam']), F(j['disc'])
  return c


def case_key(c):
  return hashlib.sha1(case_line('k', c).encode() + (b'c' if c.get('const') else b'')).hexdigest()[:16]


def show(grid):
  return [[tok(x) for x in row] for row in grid]


# ----------------------------------------------------------------------------- correspondence


def float_check(impl, case, exact):
  vs, adv = impl.float64(case)
  for name, got, want in (('vs', vs, exact[0]), ('advantages', adv, exact[1])):
    w = np.array([[float(x) for x in row] for row in want], dtype=np.float64)
    if got.shape != w.shape or not np.all(np.abs(got - w) <= 1e-9 * (1 + np.abs(w))):
      raise RuntimeError(f'interpreter self-check: rational evaluation of the jaxpr and the jitted float64 '
                         f'call differ on {name}: {got.tolist()} vs {w.tolist()} for {case_json(case)}')


def correspond(ctx):
  rng = np.random.default_rng(ctx.seed)
  ok, log = C.lake_build(['Brax.Model.C19.Driver'], os.path.join(ctx.work, 'drv.log'))
  if not ok:
    raise RuntimeError('driver does not build:\n' + log[-2000:])
  impl = Impl(ctx)
  cases = generate(ctx, rng)
  t0 = time.time()
  exact = []
  for c in cases:
    e = impl.exact(c)
    float_check(impl, c, e)
    exact.append(e)
  t_impl = time.time() - t0
  t0 = time.time()
  lines = [case_line('C19.gae', c) for c in cases] + [case_line('C19.spec', c) for c in cases]
  out = C.run_driver(DRIVER, lines)
  t_lean = time.time() - t0
  if len(out) != len(lines):
    raise RuntimeError(f'driver returned {len(out)} lines for {len(lines)} cases')
  # the driver must reject malformed input
  bad = C.run_driver(DRIVER, ['C19.gae 2 1 1 1 0 0 0 0 1 2 3 4', 'C19.nop 1', 'C19.gae 1 1 1 1 0 0 1 1/0 3'])
  if bad != ['bad-args', 'bad-op', 'bad-args']:
    raise RuntimeError(f'driver does not reject malformed input: {bad}')
  n = len(cases)
  disagreements, distinct = [], set()
  hist = dict(T={}, B={}, mask_kind={}, style={}, steps=dict(live=0, terminated=0, truncated=0),
              lambda_end_points=0, discount_end_points=0, python_float_constants=0,
              boundary_inside=0, T_le5_enumerated_columns=0)
  for i, (c, e) in enumerate(zip(cases, exact)):
    T, B = c['T'], c['B']
    for which, o in (('model', out[i]), ('spec', out[n + i])):
      got = parse_out(o, T, B) if not o.startswith('bad') else None
      if got is None or got[0] != e[0] or got[1] != e[1]:
        if len(disagreements) < 20:
          disagreements.append(dict(
              what=f'Lean {which} ({"Brax.C19.gaeBatch" if which == "model" else "Brax.C19.Spec.gae"}) '
                   f'differs from compute_gae evaluated exactly',
              case=case_json(c), lean=o, implementation=dict(vs=show(e[0]), advantages=show(e[1]))))
        else:
          disagreements.append(dict(what=f'Lean {which} differs (further case)', case=case_json(c)))
    # histograms
    hist['T'][T] = hist['T'].get(T, 0) + 1
    hist['B'][B] = hist['B'].get(B, 0) + 1
    hist['style'][c['style']] = hist['style'].get(c['style'], 0) + 1
    for k in c['kinds']:
      hist['mask_kind'][k] = hist['mask_kind'].get(k, 0) + 1
    hist['T_le5_enumerated_columns'] += sum(1 for k in c['kinds'] if k == 'enumerated')
    hist['lambda_end_points'] += c['lam'] in (0, 1)
    hist['discount_end_points'] += c['disc'] in (0, 1)
    hist['python_float_constants'] += bool(c.get('const'))
    for t in range(T):
      for b in range(B):
        kind = 'truncated' if c['trunc'][t][b] == 1 else 'terminated' if c['term'][t][b] == 1 else 'live'
        hist['steps'][kind] += 1
        if kind != 'live' and t + 1 < T:
          hist['boundary_inside'] += 1
    if any(e[0][t][b] != c['val'][t][b] for t in range(T) for b in range(B)):
      distinct.add(case_key(c))
  # (e) no gradient
  spec_failures = []
  g_rng = np.random.default_rng(ctx.seed + 17)
  shapes = sorted({(c['T'], c['B']) for c in cases})
  if ctx.tier != 'thorough':
    shapes = [s for k, s in enumerate(shapes) if k % 4 == ctx.seed % 4] + [(12, 4), (1, 1)]
  n_grad, seen = 0, {}
  for c in cases:
    s = (c['T'], c['B'])
    if s not in shapes or seen.get(s, 0) >= ctx.budget(1, 3) or c.get('const'):
      continue
    if all(x == 1 for row in c['trunc'] for x in row):
      continue                                   # nothing could flow anyway
    seen[s] = seen.get(s, 0) + 1
    gmax, tmax = impl.gradient(c, g_rng)
    n_grad += 1
    if gmax != 0.0 or tmax != 0.0:
      spec_failures.append(dict(key='gradient-flows', kind_of='gradient', case=case_json(c),
                                max_abs_gradient=gmax, max_abs_tangent=tmax,
                                what=f'compute_gae outputs carry a gradient: max |grad| = {gmax}, '
                                     f'max |jvp tangent| = {tmax} (stop_gradient missing)'))
      break
  hist['gradient_checks'] = n_grad
  hist['seconds'] = dict(implementation=round(t_impl, 1), lean=round(t_lean, 1))
  hist['jaxpr_primitives'] = sorted(impl.primitives)
  global _last
  _last = dict(cases=cases, disagreements=disagreements)
  nice = [j for j, c in enumerate(cases) if 3 <= c['T'] <= 5 and c['B'] == 2
          and any(k in ('random', 'one_boundary', 'dense') for k in c['kinds'])][:2] or [len(cases) - 1]
  samples = [dict(case=case_json(cases[j]), vs=show(exact[j][0]), advantages=show(exact[j][1])) for j in nice]
  return dict(
      evaluations=2 * n + n + n_grad, distinct_nontrivial=len(distinct),
      rule='each case: compute_gae jaxpr interpreted over Fractions == Lean model at Rat == Lean spec at Rat '
           '(equality), float64 jitted call within 1e-9; distinct_nontrivial = distinct inputs (hash of the '
           'whole case) whose value targets differ from the values somewhere (some TD error is non-zero)',
      samples=samples, disagreements=disagreements, spec_failures=spec_failures,
      trusted_base=['correspondence harness harness/corr_C19.py: jax.make_jaxpr faithful; jaxpr interpreter '
                    '(harness/jaxpr_eval.py + private scan for jax 0.11) cross-checked on every case against '
                    'the jitted float64 call',
                    'agreement of model and implementation is established on the generated cases only'],
      assumptions=['theorems are over exact commutative rings (Q, R): float32/float64 round-off is not modelled',
                   '"carrying no gradient" is tied by jax.grad / jax.jvp of the real function (exactly zero), '
                   'not proved in Lean (stop_gradient is the identity on values)',
                   'the batch model is gae mapped over members; the driver transposes the time-major arrays'],
      explanation='Tie B, exact-rational mode: the implementation is evaluated exactly through its own jaxpr and '
                  'compared for equality with the Lean model and the Lean defining-sum spec on the same inputs.',
      extra=hist)


_last = {}

# ----------------------------------------------------------------------------- search / replay


def check_case(impl, case):
  """real function (exact + float64) against the python defining sum -> None or description"""
  e = impl.exact(case)
  float_check(impl, case, e)
  s = spec_case(case)
  if e[0] != s[0] or e[1] != s[1]:
    T, B = case['T'], case['B']
    where = [(n, t, b) for n, k in (('vs', 0), ('advantages', 1)) for t in range(T) for b in range(B)
             if e[k][t][b] != s[k][t][b]]
    n, t, b = where[0]
    k = 0 if n == 'vs' else 1
    return dict(implementation=dict(vs=show(e[0]), advantages=show(e[1])),
                spec=dict(vs=show(s[0]), advantages=show(s[1])),
                first=f'{n}[t={t}, b={b}]: compute_gae gives {tok(e[k][t][b])}, the defining sum gives {tok(s[k][t][b])}')
  return None


def _member(case, b):
  c = dict(case, B=1, kinds=[case['kinds'][b]] if case.get('kinds') else [])
  for k in ('trunc', 'term', 'rew', 'val'):
    c[k] = [[row[b]] for row in case[k]]
  c['boot'] = [case['boot'][b]]
  return c


def _suffix(case, t0):
  c = dict(case, T=case['T'] - t0)
  for k in ('trunc', 'term', 'rew', 'val'):
    c[k] = [list(r) for r in case[k][t0:]]
  return c


def shrink(impl, case):
  fails = lambda c: check_case(impl, c) is not None
  best = case
  for b in range(case['B']):
    m = _member(case, b)
    if fails(m):
      best = m
      break
  for t0 in range(best['T'] - 1, 0, -1):
    s = _suffix(best, t0)
    if fails(s):
      best = s
      break
  # simplify entries
  for k in ('rew', 'val'):
    for t in range(best['T']):
      for b in range(best['B']):
        for v in (F(0), F(1)):
          if best[k][t][b] == v:
            break
          c = dict(best); c[k] = [list(r) for r in best[k]]; c[k][t][b] = v
          if fails(c):
            best = c
            break
  for b in range(best['B']):
    for v in (F(0), F(1)):
      if best['boot'][b] != v:
        c = dict(best); c['boot'] = list(best['boot']); c['boot'][b] = v
        if fails(c):
          best = c
          break
  return best


def search(ctx, broken, corr):
  impl = Impl(ctx)
  rng = np.random.default_rng(ctx.seed + 1)
  t_end = time.time() + ctx.budget(60, 600)
  first = [case_from_json(d['case']) for d in corr.get('disagreements', []) if 'case' in d][:10]
  pool = first + edge_cases(rng)
  def gen():
    for c in pool:
      yield c
    while True:
      yield make_case(rng, int(rng.integers(1, 13)), int(rng.integers(1, 5)))
  n = 0
  for c in gen():
    if time.time() > t_end or n > ctx.budget(3000, 30000):
      break
    n += 1
    bad = check_case(impl, c)
    if bad is not None:
      small = shrink(impl, c)
      bad = check_case(impl, small)
      return [dict(key='gae-ne-defining-sum:' + case_key(small), kind_of='values', case=case_json(small),
                   what='compute_gae differs from the defining sum: ' + bad['first'], **bad)]
  return []


def replay(ctx, rp):
  if rp.get('kind') != 'failing-input':
    return True, f'replay names broken obligations only: {rp.get("broken")}'
  impl = Impl(ctx)
  case = case_from_json(rp['case'])
  if rp.get('kind_of') == 'gradient':
    gmax, tmax = impl.gradient(case, np.random.default_rng(int(rp.get('seed', 0)) + 17))
    return (gmax == 0.0 and tmax == 0.0), f'max |gradient| = {gmax}, max |jvp tangent| = {tmax} (must be 0)'
  bad = check_case(impl, case)
  if bad is None:
    return True, 'compute_gae equals the defining sum on the replayed case'
  return False, 'compute_gae differs from the defining sum: ' + bad['first']
