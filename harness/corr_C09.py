"""C09 — spatial algebra.  Tie A (translator) + lattice evaluation of the laws.

prepare    : regenerate lean/Brax/Gen/Math.lean (+ driver) from $VERIF_REPO.
correspond : (a) translator self-check: the *generated Lean definitions*, run by Lean at Rat
             (exact) and Float, against the real jitted functions on lattice points;
             (b) the laws of Props/C09.lean evaluated with the real functions on the integer
             lattice [-9,9]^n (exact in float64) and on unit quaternions (round-off).
search     : (b) with a larger budget; a failing law instance is the replay.
"""
from __future__ import annotations

import os
import struct
import sys

import numpy as np

HERE = os.path.dirname(os.path.abspath(__file__))
sys.path.insert(0, HERE)
import check as C  # noqa: E402
import gen_lean as G  # noqa: E402

GEN = os.path.join(C.LEAN, 'Brax', 'Gen', 'Math.lean')
GEN_DRV = os.path.join(C.LEAN, 'Brax', 'Gen', 'MathDriver.lean')
_report = {}


def prepare(ctx):
  global _report
  import jax
  jax.config.update('jax_enable_x64', True)
  _, rep = G.generate(GEN, seed=ctx.seed)
  G.generate_driver(rep, GEN_DRV)
  _report = rep
  broken = []
  for name, r in rep.items():
    if not r.get('ok'):
      broken.append(f'translator: {name}: {r.get("error")}')
    elif not (r['selftest_err'] < 1e-9):
      broken.append(f'translator self-test: {name}: jaxpr interpreter differs from the real call by {r["selftest_err"]}')
  return dict(broken=broken)


def f2hex(x):
  return 'x%016x' % struct.unpack('>Q', struct.pack('>d', float(x)))[0]


def hex2f(t):
  return struct.unpack('>d', struct.pack('>Q', int(t[1:], 16)))[0]


def parse_tok(t):
  if t.startswith('x'):
    return hex2f(t)
  if '/' in t:
    a, b = t.split('/')
    return int(a) / int(b)
  return float(int(t))


# ----------------------------------------------------------------------------- laws (spec)


def _laws():
  import jax.numpy as jp
  from brax import math as m
  from brax import base
  T, M, F, I = base.Transform, base.Motion, base.Force, base.Inertia
  one = jp.array([1., 0, 0, 0])
  def tf(x): return T(pos=x[:3], rot=x[3:7])
  def mo(x): return M(ang=x[:3], vel=x[3:6])
  def fo(x): return F(ang=x[:3], vel=x[3:6])
  def fl(o):
    import jax
    return jp.concatenate([jp.ravel(l) for l in jax.tree_util.tree_leaves(o)])
  n2 = lambda q: jp.dot(q, q)
  L = {}
  # name -> (sizes of integer inputs, fn -> (lhs, rhs)); polynomial: compared exactly
  L['quatMul_assoc'] = ([4, 4, 4], lambda a, b, c: (m.quat_mul(m.quat_mul(a, b), c), m.quat_mul(a, m.quat_mul(b, c))))
  L['quatMul_one'] = ([4], lambda q: (jp.concatenate([m.quat_mul(one, q), m.quat_mul(q, one)]), jp.concatenate([q, q])))
  L['quatMul_inv_self'] = ([4], lambda q: (m.quat_mul(q, m.quat_inv(q)), n2(q) * one))
  L['normSq_quatMul'] = ([4, 4], lambda p, q: (n2(m.quat_mul(p, q))[None], (n2(p) * n2(q))[None]))
  L['quatInv_quatMul'] = ([4, 4], lambda p, q: (m.quat_inv(m.quat_mul(p, q)), m.quat_mul(m.quat_inv(q), m.quat_inv(p))))
  L['vecQuatMul_eq'] = ([3, 4], lambda u, q: (m.vec_quat_mul(u, q), m.quat_mul(m.ang_to_quat(u), q)))
  L['relativeQuat_mul'] = ([4, 4], lambda p, q: (m.quat_mul(m.relative_quat(p, q), p), n2(p) * q))
  L['rotate_quatMul'] = ([3, 4, 4], lambda v, p, q: (m.rotate(v, m.quat_mul(p, q)), m.rotate(m.rotate(v, q), p)))
  L['rotate_one'] = ([3], lambda v: (m.rotate(v, one), v))
  L['rotate_add'] = ([3, 3, 4], lambda u, v, q: (m.rotate(u + v, q), m.rotate(u, q) + m.rotate(v, q)))
  L['rotate_sandwich'] = ([3, 4], lambda v, q: (m.ang_to_quat(m.rotate(v, q)), m.quat_mul(m.quat_mul(q, m.ang_to_quat(v)), m.quat_inv(q))))
  L['rotate_inv_rotate'] = ([3, 4], lambda v, q: (m.rotate(m.rotate(v, q), m.quat_inv(q)), n2(q) ** 2 * v))
  L['invRotate_rotate'] = ([3, 4], lambda v, q: (m.inv_rotate(m.rotate(v, q), q), n2(q) ** 2 * v))
  L['rotate_dot'] = ([3, 3, 4], lambda u, v, q: (jp.dot(m.rotate(u, q), m.rotate(v, q))[None], (n2(q) ** 2 * jp.dot(u, v))[None]))
  L['rotate_cross'] = ([3, 3, 4], lambda u, v, q: (jp.cross(m.rotate(u, q), m.rotate(v, q)), n2(q) * m.rotate(jp.cross(u, v), q)))
  L['rotate_adjoint'] = ([3, 3, 4], lambda u, v, q: (jp.dot(m.rotate(u, m.quat_inv(q)), v)[None], jp.dot(u, m.rotate(v, q))[None]))
  L['rotateNp_eq'] = ([3, 4], lambda v, q: (jp.asarray(m.rotate_np(np.asarray(v), np.asarray(q))), m.rotate(v, q)))
  L['quatMulNp_eq'] = ([4, 4], lambda p, q: (jp.asarray(m.quat_mul_np(np.asarray(p), np.asarray(q))), m.quat_mul(p, q)))
  L['tfDoTf_assoc'] = ([7, 7, 7], lambda a, b, c: (fl(tf(a).do(tf(b)).do(tf(c))), fl(tf(a).do(tf(b).do(tf(c))))))
  L['tfDoTf_id'] = ([7], lambda a: (jp.concatenate([fl(T.zero().do(tf(a))), fl(tf(a).do(T.zero()))]), jp.concatenate([a, a])))
  L['tfToLocal_doTf'] = ([7, 7], lambda t, s: (fl(tf(t).do(tf(s)).to_local(tf(t))), jp.concatenate([n2(t[3:]) ** 2 * s[:3], n2(t[3:]) * s[3:]])))
  L['motion_force_dual'] = ([7, 6, 6], lambda t, a, f: (tf(t).do(mo(a)).dot(fo(f))[None], mo(a).dot(tf(t).do(fo(f)))[None]))
  L['tfInvDoMotion_doMotion'] = ([7, 6], lambda t, a: (fl(tf(t).inv_do(tf(t).do(mo(a)))), n2(t[3:]) ** 2 * a))
  L['tfDoMotion_invDoMotion'] = ([7, 6], lambda t, a: (fl(tf(t).do(tf(t).inv_do(mo(a)))), n2(t[3:]) ** 2 * a))
  L['motionCrossM_antisymm'] = ([6, 6], lambda a, b: (fl(mo(a).cross(mo(b))), -fl(mo(b).cross(mo(a)))))
  L['motionCross_dual'] = ([6, 6, 6], lambda a, b, f: (mo(a).cross(mo(b)).dot(fo(f))[None], -mo(b).dot(mo(a).cross(fo(f)))[None]))
  L['motionCrossM_jacobi'] = ([6, 6, 6], lambda a, b, c: (fl(mo(a).cross(mo(b).cross(mo(c)))), fl(mo(a).cross(mo(b)).cross(mo(c))) + fl(mo(b).cross(mo(a).cross(mo(c))))))
  def sym_inertia(x):
    s = x[:6]
    i = jp.array([[s[0], s[1], s[2]], [s[1], s[3], s[4]], [s[2], s[4], s[5]]])
    return I(transform=T(pos=x[6:9], rot=one), i=i, mass=x[9])
  L['inertiaMul_symm'] = ([10, 6, 6], lambda it, a, b: (mo(a).dot(sym_inertia(it).mul(mo(b)))[None], mo(b).dot(sym_inertia(it).mul(mo(a)))[None]))
  # laws that divide / need unit quaternions: float tolerance
  U = {}
  def unit(q): return q / jp.linalg.norm(q)
  U['quatTo3x3_mulVec'] = ([4, 3], lambda q, v: (m.quat_to_3x3(q) @ v * n2(q), m.rotate(v, q)))
  U['quatTo3x3_quatMul'] = ([4, 4], lambda p, q: (jp.ravel(m.quat_to_3x3(m.quat_mul(p, q))), jp.ravel(m.quat_to_3x3(p) @ m.quat_to_3x3(q))))
  U['quatTo3x3_orthogonal'] = ([4], lambda q: (jp.ravel(m.quat_to_3x3(q) @ m.quat_to_3x3(q).T), jp.ravel(jp.eye(3))))
  def ke(it, mot): return mot.dot(it.mul(mot))
  def ke_law(t, it, a):
    tt = T(pos=t[:3], rot=unit(t[3:7]))
    it0 = sym_inertia(jp.concatenate([it[:6], jp.zeros(3), it[9:10]]))
    return ke(tt.do(it0), mo(a))[None], ke(it0, tt.do(mo(a)))[None]
  U['tfDoInertia_ke'] = ([7, 10, 6], ke_law)
  def euler_law(v):
    h = v * jp.pi / 360
    qx = jp.array([jp.cos(h[0]), jp.sin(h[0]), 0, 0]); qy = jp.array([jp.cos(h[1]), 0, jp.sin(h[1]), 0])
    qz = jp.array([jp.cos(h[2]), 0, 0, jp.sin(h[2])])
    return m.euler_to_quat(v), m.quat_mul(m.quat_mul(qx, qy), qz)
  U['eulerToQuat_eq_mul'] = ([3], euler_law)
  def rod(a, v, th):
    a = a / jp.linalg.norm(a); th = th[0] / 3.0
    return (m.rotate(v, m.quat_rot_axis(a, th)),
            jp.cos(th) * v + jp.sin(th) * jp.cross(a, v) + (1 - jp.cos(th)) * jp.dot(a, v) * a)
  U['rotate_quatRotAxis'] = ([3, 3, 1], rod)
  def from_to_law(a, b):
    v1 = a / jp.linalg.norm(a); v2 = b / jp.linalg.norm(b)
    q = m.from_to(v1, v2)
    return jp.concatenate([m.rotate(v1, q), n2(q)[None]]), jp.concatenate([v2, jp.ones(1)])
  U['fromTo_rotates'] = ([3, 3], from_to_law)
  def euler_rt(q):
    q = unit(q)
    e = m.quat_to_euler(q)
    q2 = m.euler_to_quat(e * 180 / jp.pi)
    sgn = jp.where(jp.dot(q, q2) < 0, -1.0, 1.0)
    lock = jp.abs(2 * q[1] * q[3] + 2 * q[0] * q[2]) > 1 - 1e-9     # gimbal lock: x, z not determined
    return jp.where(lock, q, sgn * q2), q
  U['quatToEuler_roundtrip'] = ([4], euler_rt)
  return L, U


def from_to_exhaustive():
  """`from_to` on every pair of parallel and antiparallel normalised lattice directions of [-3,3]^3 (the
  property's own lattice) and on all pairs of the 26 directions of {-1,0,1}^3: the result must be a unit
  quaternion rotating v1 onto v2.  Returns (evaluations, failures)."""
  import itertools
  import jax
  import jax.numpy as jp
  from brax import math as m
  dirs = np.array([v for v in itertools.product(range(-3, 4), repeat=3) if any(v)], dtype=np.float64)
  small = np.array([v for v in itertools.product(range(-1, 2), repeat=3) if any(v)], dtype=np.float64)
  A = np.concatenate([dirs, dirs, np.repeat(small, len(small), axis=0)])
  B = np.concatenate([-dirs, 2 * dirs, np.tile(small, (len(small), 1))])
  def one(a, b):
    v1 = a / jp.linalg.norm(a); v2 = b / jp.linalg.norm(b)
    q = m.from_to(v1, v2)
    return jp.concatenate([m.rotate(v1, q), jp.dot(q, q)[None]]), jp.concatenate([v2, jp.ones(1)])
  lhs, rhs = jax.jit(jax.vmap(one))(jp.asarray(A), jp.asarray(B))
  lhs, rhs = np.asarray(lhs), np.asarray(rhs)
  bad = ~(np.abs(lhs - rhs).max(axis=1) <= 1e-9)      # NaN counts as bad
  fails = []
  for k in np.nonzero(bad)[0][:1]:
    fails.append(dict(key='law:fromTo_rotates', law='fromTo_rotates', inputs=[A[k].tolist(), B[k].tolist()],
                      lhs=lhs[k].tolist(), rhs=rhs[k].tolist(),
                      what='from_to does not return a unit quaternion rotating v1 onto v2 '
                           f'({int(bad.sum())} of {len(A)} lattice pairs fail)'))
  return len(A), fails


def eval_laws(rng, n_points, only=None):
  """returns (evaluations, failures[list of dict]) using the real functions"""
  import jax
  import jax.numpy as jp
  L, U = _laws()
  fails, evals, distinct = [], 0, set()
  for exact, table in ((True, L), (False, U)):
    for name, (sizes, fn) in table.items():
      if only and name not in only:
        continue
      jfn = fn if name.endswith('Np_eq') else jax.jit(fn)
      for _ in range(n_points):
        xs = [rng.integers(-9, 10, size=s).astype(np.float64) for s in sizes]
        if name == 'fromTo_rotates':
          xs = [rng.integers(-3, 4, size=3).astype(np.float64) for _ in sizes]
          if not xs[0].any() or not xs[1].any():
            continue
        if not exact and any(s == 4 and not x.any() for s, x in zip(sizes, xs)):
          continue
        if not exact and any((s == 7 and not x[3:].any()) or (s == 3 and name == 'rotate_quatRotAxis' and not x.any()) for s, x in zip(sizes, xs)):
          continue
        lhs, rhs = jfn(*[jp.asarray(x) for x in xs])
        lhs, rhs = np.asarray(lhs, dtype=np.float64), np.asarray(rhs, dtype=np.float64)
        evals += 1
        distinct.add((name, tuple(np.concatenate(xs).tolist())))
        if exact:
          bad = not np.array_equal(lhs, rhs)
        else:
          bad = not np.allclose(lhs, rhs, rtol=1e-9, atol=1e-9 * (1 + np.abs(rhs).max()))
        if bad:
          fails.append(dict(key=f'law:{name}', law=name, inputs=[x.tolist() for x in xs],
                            lhs=lhs.tolist(), rhs=rhs.tolist(),
                            what=f'law {name} fails on the real functions'))
          break
  return evals, len(distinct), fails


# ----------------------------------------------------------------------------- translator tie


def translator_check(ctx, rng, n_points):
  """generated Lean definitions (run by Lean) vs the real functions"""
  import jax
  import jax.numpy as jp
  S = G.specs()
  lines, expect, meta = [], [], []
  for name, spec in S.items():
    rep = _report.get(name, {})
    if not rep.get('ok'):
      continue
    n_in = [len(G.KINDS[k]) for k in spec['ins']]
    opaque = any(c in rep['classes'] for c in ('HasSqrt', 'HasTrig', 'HasExp'))
    def flat_fn(*flat, spec=spec, n_in=n_in):
      objs, pos = [], 0
      for kd, n in zip(spec['ins'], n_in):
        objs.append(G._build(kd, list(flat[pos:pos + n]))); pos += n
      out = spec['fn'](*objs)
      return jp.concatenate([jp.ravel(jp.asarray(l, dtype=jp.float64)) for l in jax.tree_util.tree_leaves(out)])
    jfn = flat_fn if spec['np_twin'] else jax.jit(flat_fn)
    for k in range(n_points):
      if opaque or k % 2:
        xs = np.round(rng.uniform(-3, 3, size=sum(n_in)), 3)
        mode = 'F'
      else:
        xs = rng.integers(-9, 10, size=sum(n_in)).astype(np.float64)
        mode = 'R'
      if spec['np_twin']:
        objs, pos = [], 0
        for kd, n in zip(spec['ins'], n_in):
          objs.append(np.asarray(xs[pos:pos + n])); pos += n
        real = np.ravel(np.asarray(spec['fn'](*objs), dtype=np.float64))
      else:
        real = np.asarray(jfn(*[jp.asarray(x) for x in xs]))
      toks = [f2hex(x) if mode == 'F' else str(int(x)) for x in xs]
      lines.append(' '.join([name, mode] + toks))
      expect.append(real)
      meta.append((name, mode, xs.tolist()))
  out = C.run_driver('Driver/C09.lean', lines)
  disagreements, n = [], 0
  if len(out) != len(lines):
    return 0, [dict(what=f'driver returned {len(out)} lines for {len(lines)} cases')]
  for o, real, (name, mode, xs) in zip(out, expect, meta):
    n += 1
    if o.startswith('bad'):
      disagreements.append(dict(what=f'generated {name}: driver says {o}', inputs=xs)); continue
    got = np.array([parse_tok(t) for t in o.split()])
    fin = np.isfinite(real)
    if got.shape != real.shape or not np.allclose(got[fin], real[fin], rtol=1e-9, atol=1e-9):
      if not fin.all() and got.shape == real.shape:
        continue
      disagreements.append(dict(what=f'generated Lean {name} ({mode}) differs from the real function',
                                inputs=xs, lean=got.tolist(), real=real.tolist()))
  return n, disagreements


def correspond(ctx):
  rng = np.random.default_rng(ctx.seed)
  ok_drv, log = C.lake_build(['Brax.Gen.MathDriver'], os.path.join(ctx.work, 'drv.log'))
  disagreements = []
  n_tie = 0
  if ok_drv:
    n_tie, disagreements = translator_check(ctx, rng, ctx.budget(6, 60))
  else:
    disagreements.append(dict(what='generated Lean does not compile', log=log[-1500:]))
  n_laws, n_distinct, fails = eval_laws(rng, ctx.budget(60, 1500))
  n_ft, ft_fails = from_to_exhaustive()
  n_laws += n_ft; n_distinct += n_ft; fails += ft_fails
  return dict(
      evaluations=n_tie + n_laws, distinct_nontrivial=n_distinct,
      rule='(a) every generated definition evaluated by Lean at Rat on integer lattice points and at '
           'Float on decimal points vs the real jitted function; (b) every law of Props/C09 evaluated '
           'with the real functions on integer lattice points of [-9,9]^n (exact) resp. unit quaternions '
           '(1e-9); from_to on every parallel / antiparallel pair of normalised lattice directions of [-3,3]^3 and all pairs of '
           '{-1,0,1}^3 directions; distinct = distinct (law, input) pairs',
      samples=[dict(law='rotate_quatMul', inputs='v,p,q in [-9,9]^n integers'),
               dict(generated=sorted(k for k, v in _report.items() if v.get('ok')))],
      disagreements=disagreements, spec_failures=fails,
      trusted_base=['translator harness/gen_lean.py + jaxpr_eval.py (jax.make_jaxpr faithful; ~30 primitives; '
                    'self-checked against the real call and by running the generated Lean on this run)'],
      assumptions=['theorems are over exact commutative rings / fields / R: IEEE round-off is not modelled',
                   'inv_3x3, from_to, orthogonals, normalize, quat_to_euler, signed_angle are generated and '
                   'tie-checked but carry no law theorem yet'],
      explanation='Tie A: theorems are stated about definitions regenerated from the source on this run.',
      extra=dict(translated=len([1 for v in _report.values() if v.get('ok')]), tie_cases=n_tie, law_cases=n_laws))


def search(ctx, broken, corr):
  rng = np.random.default_rng(ctx.seed + 1)
  _, _, fails = eval_laws(rng, ctx.budget(2000, 20000))
  return fails + from_to_exhaustive()[1]


def replay(ctx, rp):
  import jax
  jax.config.update('jax_enable_x64', True)
  import jax.numpy as jp
  if rp.get('kind') != 'failing-input':
    return True, f'replay names broken obligations only: {rp.get("broken")}'
  L, U = _laws()
  name = rp['law']
  exact = name in L
  sizes, fn = (L if exact else U)[name]
  lhs, rhs = fn(*[jp.asarray(np.asarray(x, dtype=np.float64)) for x in rp['inputs']])
  lhs, rhs = np.asarray(lhs), np.asarray(rhs)
  ok = np.array_equal(lhs, rhs) if exact else np.allclose(lhs, rhs, rtol=1e-9, atol=1e-9 * (1 + np.abs(rhs).max()))
  return bool(ok), f'law {name}: lhs={lhs.tolist()} rhs={rhs.tolist()}'
