"""Seeded MJCF forest generator shared by the physics properties (C01-C08, C10-C12).

`gen_model(rng, **opts)` returns `(xml, meta)`.  Every random choice comes from `rng`.
The documents respect what `mjcf.validate_model` accepts (one anchor per joint stack, no `ref`,
no ball joints ...) unless a caller injects a feature on purpose.

Quantifier covered (properties.jsonl): forests of 1-6 links; free roots and world-attached
roots; 1-3 hinge/slide joints stacked per link with arbitrary (also non-orthogonal) axes;
arbitrary body, joint-anchor and geom offsets and orientations; optional limits, damping,
armature, stiffness; motor/position/velocity actuators.
"""
from __future__ import annotations

import numpy as np


def _f(x):
  return ' '.join(repr(float(v)) for v in np.atleast_1d(x))


def rand_unit_quat(rng):
  q = rng.normal(size=4)
  q /= np.linalg.norm(q)
  return q if q[0] >= 0 else -q


def rand_unit_vec(rng):
  v = rng.normal(size=3)
  return v / np.linalg.norm(v)


def rand_frame(rng):
  """random orthonormal frame with random handedness (rows)"""
  a = rand_unit_vec(rng)
  b = rng.normal(size=3)
  b -= a * a.dot(b)
  b /= np.linalg.norm(b)
  c = np.cross(a, b)
  if rng.random() < 0.5:
    c = -c
  return np.stack([a, b, c])


DEFAULTS = dict(
    n_links=(1, 6), roots='mixed', stack=(1, 3), kinds='mixed', orthogonal=False,
    body_offsets=True, body_rot=True, anchor_offset=True, limits=0.3, damping=0.5, armature=0.5,
    stiffness=0.3, actuators=(0, 3), geoms=('sphere', 'capsule', 'box'), geom_offsets=True,
    collide=False, ground=False, gravity=(0.0, 0.0, -9.81), timestep=0.002, max_children=2, topology='random', limit_excl_zero=0.0, parents=None,
    limit_range=(0.3, 2.5), custom=None, elasticity=False)


def gen_model(rng, **opts):
  o = dict(DEFAULTS)
  o.update(opts)
  n = int(rng.integers(o['n_links'][0], o['n_links'][1] + 1))
  if o['parents'] is not None:
    n = len(o['parents'])          # explicit forest (parents precede children, document order)
  bodies = []          # dict(name,parent,free,pos,quat,joints,anchor,geoms)
  for i in range(n):
    # parent choice: a forest; roots have parent -1
    if o['parents'] is not None:
      parent = int(o['parents'][i])
    elif o['topology'] == 'chain':
      parent = i - 1
    elif o['topology'] == 'star':
      parent = -1 if i == 0 else 0
    elif i == 0 or rng.random() < 0.25:
      parent = -1
    else:
      cands = [b for b in range(i) if sum(1 for x in bodies if x['parent'] == b) < o['max_children']]
      parent = int(rng.choice(cands)) if cands else -1
    if parent == -1:
      free = {'free': True, 'world': False}.get(o['roots'], rng.random() < 0.5)
    else:
      free = False
    pos = rng.uniform(-0.5, 0.5, size=3) if o['body_offsets'] else np.zeros(3)
    if parent == -1:
      pos = pos + np.array([0.0, 0.0, 1.0 + i])
    quat = rand_unit_quat(rng) if o['body_rot'] and rng.random() < 0.8 else np.array([1.0, 0, 0, 0])
    joints = []
    anchor = np.zeros(3)
    if not free:
      k = int(rng.integers(o['stack'][0], o['stack'][1] + 1))
      kinds = o['kinds']
      if kinds == 'mixed':
        ks = [('hinge' if rng.random() < 0.6 else 'slide') for _ in range(k)]
      elif kinds == 'one_kind':
        ks = [('hinge' if rng.random() < 0.6 else 'slide')] * k
      elif kinds == 'slides_then_hinge':
        ks = ['slide'] * (k - 1) + ['hinge'] if rng.random() < 0.5 else \
             [('hinge' if rng.random() < 0.6 else 'slide')] * k
      else:
        ks = [kinds] * k
      frame = rand_frame(rng) if o['orthogonal'] else None
      if o['anchor_offset'] and rng.random() < 0.6:
        anchor = rng.uniform(-0.3, 0.3, size=3)
      for d, kind in enumerate(ks):
        axis = frame[d] if frame is not None else rand_unit_vec(rng)
        jt = dict(name=f'j{i}_{d}', type=kind, axis=axis)
        if rng.random() < o['limits']:
          lo = -rng.uniform(*o['limit_range']); hi = rng.uniform(*o['limit_range'])
          if o['limit_excl_zero'] > 0 and rng.random() < o['limit_excl_zero']:
            # a legal range that does not contain 0 (e.g. a telescopic link that cannot fully retract)
            sgn = 1.0 if rng.random() < 0.5 else -1.0
            a, b = rng.uniform(0.1, 0.4), rng.uniform(0.5, 1.2)
            lo, hi = (a, b) if sgn > 0 else (-b, -a)
          jt['range'] = (lo, hi)
        if rng.random() < o['damping']:
          jt['damping'] = float(rng.uniform(0.1, 2.0))
        if rng.random() < o['armature']:
          jt['armature'] = float(rng.uniform(0.01, 0.5))
        if rng.random() < o['stiffness']:
          jt['stiffness'] = float(rng.uniform(0.5, 20.0))
        joints.append(jt)
    geoms = []
    for g in range(int(rng.integers(1, 3))):
      typ = str(rng.choice(list(o['geoms'])))
      gd = dict(name=f'g{i}_{g}', type=typ)
      if typ == 'sphere':
        gd['size'] = [float(rng.uniform(0.05, 0.2))]
      elif typ == 'capsule':
        gd['size'] = [float(rng.uniform(0.04, 0.1)), float(rng.uniform(0.05, 0.25))]
      elif typ == 'box':
        gd['size'] = list(rng.uniform(0.05, 0.2, size=3))
      if o['geom_offsets']:
        gd['pos'] = rng.uniform(-0.2, 0.2, size=3)
        gd['quat'] = rand_unit_quat(rng)
      gd['density'] = float(rng.uniform(200, 3000))
      if o['elasticity']:
        gd['elasticity'] = float(np.round(rng.uniform(0, 0.9), 3))
      geoms.append(gd)
    bodies.append(dict(name=f'b{i}', parent=parent, free=free, pos=pos, quat=quat, joints=joints,
                       anchor=anchor, geoms=geoms))
  # actuators
  acts = []
  jn = [(b, jt) for b in bodies for jt in b['joints']]
  if jn:
    na = int(rng.integers(o['actuators'][0], o['actuators'][1] + 1))
    for a in range(na):
      _, jt = jn[int(rng.integers(len(jn)))]
      kind = str(rng.choice(['motor', 'position', 'velocity']))
      ad = dict(name=f'a{a}', kind=kind, joint=jt['name'], gear=float(np.round(rng.uniform(0.5, 30), 2)))
      if kind == 'position':
        ad['kp'] = float(np.round(rng.uniform(1, 50), 2))
      if kind == 'velocity':
        ad['kv'] = float(np.round(rng.uniform(0.1, 5), 2))
      if rng.random() < 0.5:
        ad['ctrlrange'] = (-float(np.round(rng.uniform(0.2, 1.5), 2)), float(np.round(rng.uniform(0.2, 1.5), 2)))
      if rng.random() < 0.4:
        ad['forcerange'] = (-float(np.round(rng.uniform(0.5, 20), 2)), float(np.round(rng.uniform(0.5, 20), 2)))
      acts.append(ad)
  # MuJoCo numbers bodies in document (depth-first) order: renumber accordingly
  order = []
  def dfs(i):
    order.append(i)
    for c, cb in enumerate(bodies):
      if cb['parent'] == i:
        dfs(c)
  for i, b in enumerate(bodies):
    if b['parent'] == -1:
      dfs(i)
  new_index = {old: new for new, old in enumerate(order)}
  bodies = [dict(bodies[old], parent=(-1 if bodies[old]['parent'] == -1 else new_index[bodies[old]['parent']]))
            for old in order]
  xml = to_xml(bodies, acts, o)
  meta = dict(n_links=n, bodies=bodies, acts=acts,
              link_types=''.join('f' if b['free'] else str(len(b['joints'])) for b in bodies),
              parents=[b['parent'] for b in bodies])
  return xml, meta


def to_xml(bodies, acts, o):
  con = '1' if o['collide'] else '0'
  out = ['<mujoco model="gen">',
         '<compiler angle="radian" autolimits="false"/>',
         f'<option timestep="{o["timestep"]}" gravity="{_f(o["gravity"])}"/>']
  if o.get('custom'):
    out.append('<custom>')
    for k, v in o['custom'].items():
      out.append(f'<numeric data="{_f(v)}" name="{k}"/>')
    out.append('</custom>')
  out.append('<worldbody>')
  if o['ground']:
    out.append(f'<geom name="ground" type="plane" size="40 40 40" pos="0 0 0" contype="{con}" conaffinity="{con}"/>')

  def emit(i, depth):
    b = bodies[i]
    ind = '  ' * depth
    out.append(f'{ind}<body name="{b["name"]}" pos="{_f(b["pos"])}" quat="{_f(b["quat"])}">')
    if b['free']:
      out.append(f'{ind}  <freejoint name="root{i}"/>')
    for jt in b['joints']:
      s = (f'{ind}  <joint name="{jt["name"]}" type="{jt["type"]}" axis="{_f(jt["axis"])}" '
           f'pos="{_f(b["anchor"])}"')
      if 'range' in jt:
        s += f' limited="true" range="{_f(jt["range"])}"'
      else:
        s += ' limited="false"'
      for k in ('damping', 'armature', 'stiffness'):
        if k in jt:
          s += f' {k}="{jt[k]!r}"'
      out.append(s + '/>')
    for g in b['geoms']:
      s = f'{ind}  <geom name="{g["name"]}" type="{g["type"]}" size="{_f(g["size"])}" density="{g["density"]!r}"'
      if 'pos' in g:
        s += f' pos="{_f(g["pos"])}" quat="{_f(g["quat"])}"'
      s += f' contype="{con}" conaffinity="{con}"'
      out.append(s + '/>')
    for c, cb in enumerate(bodies):
      if cb['parent'] == i:
        emit(c, depth + 1)
    out.append(f'{ind}</body>')

  for i, b in enumerate(bodies):
    if b['parent'] == -1:
      emit(i, 1)
  out.append('</worldbody>')
  if acts:
    out.append('<actuator>')
    for a in acts:
      s = f'<{"motor" if a["kind"] == "motor" else a["kind"]} name="{a["name"]}" joint="{a["joint"]}" gear="{a["gear"]!r}"'
      if 'kp' in a: s += f' kp="{a["kp"]!r}"'
      if 'kv' in a: s += f' kv="{a["kv"]!r}"'
      if 'ctrlrange' in a: s += f' ctrllimited="true" ctrlrange="{_f(a["ctrlrange"])}"'
      else: s += ' ctrllimited="false"'
      if 'forcerange' in a: s += f' forcelimited="true" forcerange="{_f(a["forcerange"])}"'
      else: s += ' forcelimited="false"'
      out.append(s + '/>')
    out.append('</actuator>')
  out.append('</mujoco>')
  return '\n'.join(out)


def rand_state(rng, sys, q_range=2.0, qd_range=1.0):
  """q with joint coordinates in [-q_range, q_range], unit root quaternions; qd uniform"""
  q = []
  for t in sys.link_types:
    if t == 'f':
      q += list(rng.uniform(-1, 1, size=3) + np.array([0, 0, 1.5])) + list(rand_unit_quat(rng))
    else:
      q += list(rng.uniform(-q_range, q_range, size=int(t)))
  qd = rng.uniform(-qd_range, qd_range, size=sys.qd_size())
  return np.array(q, dtype=np.float64), np.array(qd, dtype=np.float64)
