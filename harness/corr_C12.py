"""C12 — generalized integrator: conserved quantities drift only O(dt).

correspond : (a) whole trajectories of the real `generalized.pipeline.step` on one-dof spring
             models (random mass, armature, stiffness, damping, axis, body orientation; exact
             matrix inverse) against the Lean model `C12.oscIter` (float, 1e-9 relative) — this ties
             the family the theorems of Props/C12.lean talk about to the code;
             (b) the property's own observation on conservative generator models: energy drift (and,
             for free-floating models, momentum drift) over a fixed horizon at dt, dt/2, dt/4 —
             the drift must shrink like dt (Richardson extrapolate ~ 0).  (b) is an *observation*,
             not a proof: first-order convergence for general articulated models is not a theorem
             here (DESIGN.md 5 C12).
search     : (b) with a larger budget.
"""
from __future__ import annotations

import os
import sys

import numpy as np

HERE = os.path.dirname(os.path.abspath(__file__))
sys.path.insert(0, HERE)
import check as C  # noqa: E402
import modelgen  # noqa: E402
import wire  # noqa: E402


def _setup():
  import jax
  jax.config.update('jax_enable_x64', True)


def spring_xml(rng):
  axis = modelgen.rand_unit_vec(rng)
  quat = modelgen.rand_unit_quat(rng)
  k = float(np.round(rng.uniform(0.5, 50), 3))
  d = float(np.round(rng.uniform(0, 2), 3)) if rng.random() < 0.5 else 0.0
  arm = float(np.round(rng.uniform(0, 0.5), 3)) if rng.random() < 0.5 else 0.0
  dt = float(rng.choice([0.001, 0.002, 0.005, 0.01]))
  r = float(np.round(rng.uniform(0.05, 0.2), 3))
  xml = f'''<mujoco model="spring">
<compiler angle="radian" autolimits="false"/>
<option timestep="{dt}" gravity="0 0 0"/>
<custom><numeric data="0" name="matrix_inv_iterations"/></custom>
<worldbody>
  <body name="b0" pos="0.1 -0.2 1" quat="{modelgen._f(quat)}">
    <joint name="j0" type="slide" axis="{modelgen._f(axis)}" pos="0 0 0" limited="false" stiffness="{k!r}" damping="{d!r}" armature="{arm!r}"/>
    <geom name="g0" type="sphere" size="{r!r}" density="1000" contype="0" conaffinity="0"/>
  </body>
</worldbody>
</mujoco>'''
  return xml, dict(k=k, d=d, arm=arm, dt=dt)


def spring_cases(ctx, n_models, n_steps):
  _setup()
  import jax
  import jax.numpy as jp
  from brax.generalized import pipeline
  from brax.io import mjcf
  rng = np.random.default_rng(ctx.seed)
  lines, real, meta = [], [], []
  for _ in range(n_models):
    xml, par = spring_xml(rng)
    sysm = mjcf.loads(xml)
    m = float(np.asarray(sysm.link.inertia.mass)[0]) + par['arm']
    # joint coordinates are unwrapped multi-turn / multi-metre quantities: a third of the cases start beyond +-pi
    qr = 1.0 if rng.random() < 0.67 else 6.5
    q0 = float(np.round(rng.uniform(-qr, qr), 3)); v0 = float(np.round(rng.uniform(-1, 1), 3))
    step = jax.jit(lambda st, sysm=sysm: pipeline.step(sysm, st, jp.zeros(sysm.act_size())))
    st = jax.jit(lambda q, qd, sysm=sysm: pipeline.init(sysm, q, qd))(jp.array([q0]), jp.array([v0]))
    traj = [(q0, v0)]
    for _ in range(n_steps):
      st = step(st)
      traj.append((float(st.q[0]), float(st.qd[0])))
    lines.append(' '.join(['osc'] + [wire.f2hex(x) for x in (m, par['k'], par['d'], par['dt'], q0, v0)] + [str(n_steps)]))
    real.append(np.array(traj).reshape(-1))
    meta.append(dict(xml=xml, q0=q0, v0=v0, m=m, **par))
  out = C.run_driver('Driver/C12.lean', lines)
  dis = []
  for o, r, mt in zip(out, real, meta):
    if o.startswith('bad'):
      dis.append(dict(what=f'driver: {o}', **mt)); continue
    got = np.array([wire.parse(t) for t in o.split()])
    if got.shape != r.shape or not np.allclose(got, r, rtol=1e-9, atol=1e-9):
      k = int(np.argmax(np.abs(got - r))) if got.shape == r.shape else -1
      dis.append(dict(what='one-dof spring: generalized.pipeline.step trajectory differs from C12.oscIter',
                      first_bad_index=k, lean=got[max(0, k - 2):k + 2].tolist(), real=r[max(0, k - 2):k + 2].tolist(), **mt))
  return len(lines), dis, meta


def slides_xml(rng):
  """a tree of 2-4 bodies, every body attached by ONE slide joint (random unit axis, random body orientation,
  joint stiffness, optional armature), no gravity, no damping: constant coupled mass matrix, linear springs"""
  n = int(rng.integers(2, 5))
  parents = [-1] + [int(rng.integers(0, i)) for i in range(1, n)]
  dt = float(rng.choice([0.001, 0.002, 0.005]))
  ks, arms = [], []
  def body(i):
    axis = modelgen.rand_unit_vec(rng); quat = modelgen.rand_unit_quat(rng)
    k = float(np.round(rng.uniform(0.5, 40), 3)); ks.append(k)
    arm = float(np.round(rng.uniform(0, 0.3), 3)) if rng.random() < 0.5 else 0.0; arms.append(arm)
    r = float(np.round(rng.uniform(0.05, 0.2), 3))
    pos = np.round(rng.uniform(-0.3, 0.3, size=3), 3)
    kids = ''.join(body(c) for c in range(n) if parents[c] == i)
    return (f'<body name="b{i}" pos="{modelgen._f(pos)}" quat="{modelgen._f(quat)}">'
            f'<joint name="j{i}" type="slide" axis="{modelgen._f(axis)}" pos="0 0 0" limited="false" '
            f'stiffness="{k!r}" damping="0" armature="{arm!r}"/>'
            f'<geom name="g{i}" type="sphere" size="{r!r}" density="1000" contype="0" conaffinity="0"/>{kids}</body>')
  xml = (f'<mujoco model="slides"><compiler angle="radian" autolimits="false"/>'
         f'<option timestep="{dt}" gravity="0 0 0"/>'
         f'<custom><numeric data="0" name="matrix_inv_iterations"/></custom><worldbody>'
         + ''.join(body(i) for i in range(n) if parents[i] == -1) + '</worldbody></mujoco>')
  return xml, dict(n=n, dt=dt, parents=parents)


def lin_cases(ctx, n_models, n_steps):
  """whole trajectories of the real generalized pipeline on slide-only trees vs C12.linIter (A = M^-1 K)"""
  _setup()
  import jax
  import jax.numpy as jp
  from brax.generalized import pipeline
  from brax.io import mjcf
  rng = np.random.default_rng(ctx.seed + 900)
  lines, real, meta = [], [], []
  for _ in range(n_models):
    xml, par = slides_xml(rng)
    sysm = mjcf.loads(xml)
    n = sysm.qd_size()
    qr = 0.5 if rng.random() < 0.67 else 6.5
    q0 = np.round(rng.uniform(-qr, qr, size=n), 3); v0 = np.round(rng.uniform(-1, 1, size=n), 3)
    step = jax.jit(lambda st, sysm=sysm: pipeline.step(sysm, st, jp.zeros(sysm.act_size())))
    st = jax.jit(lambda q, qd, sysm=sysm: pipeline.init(sysm, q, qd))(jp.asarray(q0), jp.asarray(v0))
    M = np.asarray(st.mass_mx, dtype=np.float64)
    k = np.asarray(sysm.dof.stiffness, dtype=np.float64)
    traj = [np.concatenate([q0, v0])]
    for _ in range(n_steps):
      st = step(st)
      traj.append(np.concatenate([np.asarray(st.q), np.asarray(st.qd)]))
    h = wire.f2hex
    lines.append(' '.join(['lin', str(n)] + [h(x) for x in M.reshape(-1)] + [str(n)] + [h(x) for x in k] + [h(par['dt'])]
                          + [str(n)] + [h(x) for x in q0] + [str(n)] + [h(x) for x in v0] + [str(n_steps)]))
    real.append(np.concatenate(traj))
    meta.append(dict(xml=xml, q0=q0.tolist(), v0=v0.tolist(), M=M.tolist(), k=k.tolist(), **par))
  out = C.run_driver('Driver/C12.lean', lines)
  dis = []
  for o, r, mt in zip(out, real, meta):
    if o.startswith('bad'):
      dis.append(dict(what=f'driver: {o}', **mt)); continue
    got = np.array([wire.parse(t) for t in o.split()])
    if got.shape != r.shape or not np.allclose(got, r, rtol=1e-9, atol=1e-9):
      kk = int(np.argmax(np.abs(got - r))) if got.shape == r.shape else -1
      dis.append(dict(what='slide-only tree: generalized.pipeline.step trajectory differs from C12.linIter (A = M^-1 K)',
                      first_bad_index=kk, lean=got[max(0, kk - 2):kk + 2].tolist(), real=r[max(0, kk - 2):kk + 2].tolist(), **mt))
  return len(lines), dis, meta


# ----------------------------------------------------------------------------- drift observation


def energy(sysm, st):
  """total mechanical energy of the state (q, qd), computed by the REFERENCE engine from the same
  model (mj_energyPos + mj_energyVel: gravity + joint springs + kinetic) — independent of the
  pipeline's own mass matrix, so that a wrong but self-consistent M cannot hide"""
  import mujoco
  m = sysm.mj_model
  d = mujoco.MjData(m)
  d.qpos[:] = np.asarray(st.q)
  d.qvel[:] = np.asarray(st.qd)
  old = m.opt.enableflags
  m.opt.enableflags |= mujoco.mjtEnableBit.mjENBL_ENERGY
  try:
    mujoco.mj_forward(m, d)
    e = float(d.energy[0] + d.energy[1])
  finally:
    m.opt.enableflags = old
  return e


def drift_case(rng, horizon_steps=64, dt0=1e-3, gen=None):
  """returns dict with drifts at dt, dt/2, dt/4 for one conservative generator model"""
  _setup()
  import jax
  import jax.numpy as jp
  from brax.generalized import pipeline
  from brax.io import mjcf
  o = dict(n_links=(1, 4), limits=0.0, damping=0.0, actuators=(0, 0), stiffness=0.4,
           custom={'matrix_inv_iterations': 0}, timestep=dt0)
  o.update({k: v for k, v in (gen or {}).items() if k not in ('q_range', 'slow_root')})
  xml, meta = modelgen.gen_model(rng, **o)
  sys0 = mjcf.loads(xml)
  q, qd = modelgen.rand_state(rng, sys0, q_range=(gen or {}).get('q_range', 1.0), qd_range=1.0)
  if (gen or {}).get('slow_root') and sys0.link_types[0] == 'f':
    qd[3:6] *= (gen or {})['slow_root']       # a slowly tumbling free root (|w| dt far below every small-angle guard)
  drifts = []
  e0 = None
  for lvl in range(3):
    dt = dt0 / 2 ** lvl
    sysm = sys0.tree_replace({'opt.timestep': dt})
    step = jax.jit(lambda st, sysm=sysm: pipeline.step(sysm, st, jp.zeros(sysm.act_size())))
    st = jax.jit(lambda q, qd, sysm=sysm: pipeline.init(sysm, q, qd))(jp.asarray(q), jp.asarray(qd))
    e0 = energy(sysm, st)
    for _ in range(horizon_steps * 2 ** lvl):
      st = step(st)
    if not np.all(np.isfinite(np.asarray(st.qd))) or not np.all(np.isfinite(np.asarray(st.q))):
      return dict(xml=xml, q=q.tolist(), qd=qd.tolist(), drifts=[float('nan')] * 3, e0=e0, types=meta['link_types'],
                  nonfinite=True)
    drifts.append(energy(sysm, st) - e0)
  return dict(xml=xml, q=q.tolist(), qd=qd.tolist(), drifts=drifts, e0=e0, types=meta['link_types'])


def drift_ok(c):
  if c.get('nonfinite'):
    return False      # a conservative model with |qd| <= 1 must stay finite over 64 ms
  d1, d2, d4 = c['drifts']
  scale = 1e-9 * (1 + abs(c['e0']))
  # first order: the Richardson extrapolate 2 D(dt/2) - D(dt) is second-order small
  return abs(2 * d2 - d1) <= 0.5 * abs(d1) + scale and abs(2 * d4 - d2) <= 0.5 * abs(d2) + scale


def drift_cases(ctx, n, seed_offset=0):
  rng = np.random.default_rng(ctx.seed + 500 + seed_offset)
  cases, fails = [], []
  # history dependence: the same joint layout (link_types) with a different topology, one after the other in
  # this process (chain then star, world-attached and free-rooted) — a stale per-layout cache would show here
  twins = [dict(n_links=(3, 3), stack=(1, 1), roots='world', topology=t) for t in ('chain', 'star')]
  twins += [dict(n_links=(3, 3), stack=(1, 1), roots='free', topology=t) for t in ('chain', 'star')]
  # one model with springs on every joint started far from the rest position (|q| up to 5: beyond half a turn / 3 m)
  far = [dict(n_links=(1, 2), stack=(1, 2), roots='world', stiffness=1.0, q_range=5.0)]
  # a free-floating articulated model whose root tumbles slowly (|w| ~ 0.05 rad/s)
  slow = [dict(n_links=(2, 3), stack=(1, 1), roots='free', topology='chain', slow_root=0.05)]
  gens = twins + far + slow + [None] * max(0, n - len(twins) - len(far) - len(slow))
  for g in gens:
    c = drift_case(rng, gen=g)
    cases.append(c)
    if not drift_ok(c):
      fails.append(dict(key=f'drift:{c["types"]}', what='energy drift of the generalized pipeline does not shrink like dt',
                        **c))
  return cases, fails


def correspond(ctx):
  n, dis, meta = spring_cases(ctx, ctx.budget(12, 120), ctx.budget(60, 300))
  n2, dis2, meta2 = lin_cases(ctx, ctx.budget(8, 80), ctx.budget(40, 200))
  n += n2; dis += dis2
  cases, fails = drift_cases(ctx, ctx.budget(7, 40))
  return dict(
      evaluations=n + len(cases), distinct_nontrivial=n + len({c['types'] for c in cases}),
      rule='(a) one-dof spring models (random unit axis, body orientation, mass, armature, stiffness, damping or not, '
           'dt in {1,2,5,10} ms): 60-step trajectories of generalized.pipeline.step vs C12.oscIter (1e-9); '
           '(a2) slide-only trees of 2-4 bodies (random axes/orientations/topology, stiffness, armature; constant coupled mass '
           'matrix): 40-step trajectories vs C12.linIter with A = M^-1 K (1e-9); '
           '(b) conservative generator models (1-4 links, no damping/limits/actuators, springs allowed, exact inverse): '
           'energy drift over 64 ms at dt, dt/2, dt/4 must shrink like dt (observation only)',
      samples=[{k: v for k, v in meta[0].items() if k != 'xml'}] + [dict(types=c['types'], drifts=c['drifts']) for c in cases[:2]],
      disagreements=dis, spec_failures=fails,
      trusted_base=['correspondence harness corr_C12.py (sampled one-dof spring models, float64 1e-9)'],
      assumptions=['theorems cover the one-dof spring family and every constant-mass-matrix system with linear springs (slide-only trees); first-order convergence of the drift for general '
                   'articulated models is observed (Richardson test), not proved',
                   'exact reals: round-off not modelled'],
      explanation='Props/C12.lean proves exact conservation of the modified energy and an O(dt) drift bound uniform in the '
                  'horizon for the family that this correspondence ties to the real pipeline.',
      extra=dict(drift_observations=[dict(types=c['types'], drifts=c['drifts']) for c in cases]))


def search(ctx, broken, corr):
  _, fails = drift_cases(ctx, ctx.budget(10, 120), seed_offset=1)
  return fails


def replay(ctx, rp):
  if rp.get('kind') != 'failing-input':
    return True, f'replay names broken obligations only: {rp.get("broken")}'
  _setup()
  import jax
  import jax.numpy as jp
  from brax.generalized import pipeline
  from brax.io import mjcf
  sys0 = mjcf.loads(rp['xml'])
  q, qd = np.array(rp['q']), np.array(rp['qd'])
  drifts = []
  for lvl in range(3):
    dt = 1e-3 / 2 ** lvl
    sysm = sys0.tree_replace({'opt.timestep': dt})
    step = jax.jit(lambda st, sysm=sysm: pipeline.step(sysm, st, jp.zeros(sysm.act_size())))
    st = pipeline.init(sysm, jp.asarray(q), jp.asarray(qd))
    e0 = energy(sysm, st)
    for _ in range(64 * 2 ** lvl):
      st = step(st)
    drifts.append(energy(sysm, st) - e0)
  c = dict(drifts=drifts, e0=e0)
  return drift_ok(c), f'drifts at dt, dt/2, dt/4: {drifts}'
