"""C14 — unsupported models are rejected, accepted models load consistently.

correspond : seeded MJCF forests (1-6 bodies, free or world-attached roots, 1-3 hinge/slide joints
             per body, sphere/capsule/box/cylinder geoms, optional actuators, occasional jointless
             bodies that `_fuse_bodies` removes), each either clean or with exactly ONE unsupported
             feature injected at one eligible element.  For every document
               real   : `mjcf.loads(xml)` then `pipeline.init(sys, sys.init_q, 0)` of the three native
                        pipelines -> {ok, NotImplementedError, RuntimeError, other}
               model  : `MjFeatures` extracted from `mujoco.MjModel` (of the fused XML) -> Lean
                        `validate`, `init`, `loadStructure`, `dofLink` ... (Driver/C14.lean)
             verdict and error KIND are compared (never the message); for accepted models
             link_types, link_parents, nq/nv, dof_link (both variants), dof_ranges, q_idx/qd_idx,
             actuator q_id/qd_id and init_q are compared exactly.
             A second, cheap leg compares the `base.System` index helpers on random type strings /
             parent tuples (including invalid ones: KeyError) with the Lean helpers.
             The SPEC (property statement, independent of the Lean model) is evaluated on the same
             documents: an injected feature must make every pipeline raise; a clean document must be
             accepted and its structure must agree with the source model.
search     : the spec alone, on fresh generator documents (every feature).
replay     : re-runs one XML document + expectation on the current tree.
"""
from __future__ import annotations

import copy
import os
import struct
import sys
import time

import numpy as np

HERE = os.path.dirname(os.path.abspath(__file__))
sys.path.insert(0, HERE)
import check as C  # noqa: E402

PIPES = ('generalized', 'spring', 'positional')
SELS = ('f', '1', '2', '3', '123', 'f123')
# the property's list of unsupported features (generator feature names)
FEATURES = ('integrator', 'cone', 'wind', 'fluid', 'impratio', 'trn', 'gain', 'bias', 'ref', 'ball',
            'freestiff', 'solmix', 'priority', 'cylinder', 'anchor')


def f2hex(x):
  return 'x%016x' % struct.unpack('>Q', struct.pack('>d', float(x)))[0]


# ----------------------------------------------------------------------------- generator


def _vec(rng, lo=-0.5, hi=0.5, n=3):
  return [round(float(v), 2) for v in rng.uniform(lo, hi, size=n)]


def _axis(rng):
  a = [0.0, 0.0, 0.0]
  a[int(rng.integers(0, 3))] = 1.0 if rng.random() < 0.8 else -1.0
  if rng.random() < 0.2:
    a = _vec(rng, -1, 1)
    if not any(a):
      a = [1.0, 0.0, 0.0]
  return a


def _geom(rng, kind=None, box=True):
  kind = kind or (('sphere', 'capsule', 'box') if box else ('sphere', 'capsule'))[int(rng.integers(0, 3 if box else 2))]
  g = dict(type=kind, attrs={})
  if kind == 'sphere':
    g['size'] = [round(float(rng.uniform(0.05, 0.2)), 2)]
  elif kind == 'capsule':
    g['size'] = [round(float(rng.uniform(0.03, 0.1)), 2), round(float(rng.uniform(0.05, 0.3)), 2)]
  elif kind == 'box':
    g['size'] = [round(float(v), 2) for v in rng.uniform(0.05, 0.2, size=3)]
  elif kind == 'cylinder':
    # a *clean* cylinder: short (incl. exactly the 0.001 boundary) and colliding, or long and
    # collision-free
    r = round(float(rng.uniform(0.05, 0.2)), 2)
    c = int(rng.integers(0, 3))
    if c == 0:
      g['size'] = [r, 0.001]
    elif c == 1:
      g['size'] = [r, 0.0005]
    else:
      g['size'] = [r, round(float(rng.uniform(0.05, 0.3)), 2)]
      g['attrs'].update(contype='0', conaffinity='0')
  if rng.random() < 0.5:
    g['attrs']['pos'] = ' '.join(map(str, _vec(rng, -0.2, 0.2)))
  return g


def gen_doc(rng, want=()):
  """a clean document.  `want` biases the generator so that the named features have an eligible
  element (actuators, a free root, a multi-joint body, a cylinder, >= 2 geoms)."""
  nb = int(rng.integers(1, 7))
  bodies = []
  # mjx.put_model (called by load_model) has no cylinder-box collision function: a document has
  # boxes or cylinders, never both
  cyl = 'cylinder' in want or rng.random() < 0.5
  for i in range(nb):
    parent = -1 if (i == 0 or rng.random() < 0.3) else int(rng.integers(0, i))
    free = parent == -1 and rng.random() < (0.8 if 'freestiff' in want else 0.45)
    if free:
      joints = [dict(type='free', tag='freejoint' if rng.random() < 0.3 else 'joint', attrs={})]
      if rng.random() < 0.2 and joints[0]['tag'] == 'joint':
        joints[0]['attrs']['stiffness'] = '0'          # harmless edge: zero stiffness is accepted
    else:
      k = int(rng.integers(1, 4))
      if 'anchor' in want and i == nb - 1 and not any(len(b['joints']) > 1 for b in bodies):
        k = int(rng.integers(2, 4))
      anchor = _vec(rng, -0.2, 0.2) if rng.random() < 0.4 else None
      joints = []
      for _ in range(k):
        j = dict(type='hinge' if rng.random() < 0.65 else 'slide', tag='joint',
                 attrs={'axis': ' '.join(map(str, _axis(rng)))})
        if anchor is not None:
          j['attrs']['pos'] = ' '.join(map(str, anchor))
        if rng.random() < 0.3:
          j['attrs']['range'] = '-1 1'
          j['attrs']['limited'] = 'true'
        if rng.random() < 0.2:
          j['attrs']['stiffness'] = '2'
        if rng.random() < 0.1:
          j['attrs']['ref'] = '0'                      # harmless edge: explicit zero reference
        joints.append(j)
    geoms = [_geom(rng, box=not cyl)]
    if rng.random() < 0.4:
      geoms.append(_geom(rng, box=not cyl))
    if cyl and rng.random() < (0.7 if 'cylinder' in want else 0.5):
      geoms.append(_geom(rng, 'cylinder'))
    b = dict(parent=parent, pos=_vec(rng, -1, 1), joints=joints, geoms=geoms, sites=1, fusechild=None)
    if rng.random() < 0.15:
      b['fusechild'] = dict(pos=_vec(rng, -0.3, 0.3), geoms=[_geom(rng, box=not cyl)])   # jointless: fused away
    bodies.append(b)
  world_geoms = []
  if rng.random() < 0.7 or 'solmix' in want or 'priority' in want:
    world_geoms.append(dict(type='plane', size=[5, 5, 0.1], attrs={}))
  acts = []
  p_act = 0.8 if any(w in want for w in ('trn', 'gain', 'bias')) else 0.35
  for i, b in enumerate(bodies):
    for k, j in enumerate(b['joints']):
      if j['type'] != 'free' and rng.random() < p_act:
        kind = ('motor', 'position', 'velocity', 'general-affine')[int(rng.integers(0, 4))]
        acts.append(dict(kind=kind, body=i, joint=k, attrs={}))
  if any(w in want for w in ('trn', 'gain', 'bias')) and not acts:
    cands = [(i, k) for i, b in enumerate(bodies) for k, j in enumerate(b['joints']) if j['type'] != 'free']
    if cands:
      i, k = cands[int(rng.integers(0, len(cands)))]
      acts.append(dict(kind='motor', body=i, joint=k, attrs={}))
  rng.shuffle(acts)
  option = {}
  if rng.random() < 0.2:
    option['impratio'] = '1'                            # harmless edge
  if rng.random() < 0.2:
    option['integrator'] = 'Euler'
  if rng.random() < 0.2:
    option['wind'] = '0 0 0'
  doc = dict(option=option, bodies=bodies, world_geoms=world_geoms, acts=acts, tendons=[],
             all_solmix=None)
  if rng.random() < 0.1:
    doc['all_solmix'] = '2'                             # harmless edge: the same non-default solmix everywhere
  return doc


def _attrs(d):
  return ''.join(f' {k}="{v}"' for k, v in d.items())


def _geom_xml(g, doc):
  a = dict(g['attrs'])
  if doc.get('all_solmix') and 'solmix' not in a:
    a['solmix'] = doc['all_solmix']
  return f'<geom type="{g["type"]}" size="{" ".join(map(str, g["size"]))}"{_attrs(a)}/>'


def render(doc):
  bodies = doc['bodies']
  kids = {i: [] for i in range(-1, len(bodies))}
  for i, b in enumerate(bodies):
    kids[b['parent']].append(i)

  def body_xml(i):
    b = bodies[i]
    s = f'<body name="b{i}" pos="{" ".join(map(str, b["pos"]))}">'
    for k, j in enumerate(b['joints']):
      if j['tag'] == 'freejoint':
        s += f'<freejoint name="j{i}_{k}"{_attrs(j["attrs"])}/>'
      else:
        s += f'<joint name="j{i}_{k}" type="{j["type"]}"{_attrs(j["attrs"])}/>'
    for g in b['geoms']:
      s += _geom_xml(g, doc)
    s += f'<site name="s{i}"/>'
    if b.get('fusechild'):
      fc = b['fusechild']
      s += f'<body name="fc{i}" pos="{" ".join(map(str, fc["pos"]))}">' + ''.join(_geom_xml(g, doc) for g in fc['geoms']) + '</body>'
    for c in kids[i]:
      s += body_xml(c)
    return s + '</body>'

  x = '<mujoco>'
  if doc['option']:
    x += f'<option{_attrs(doc["option"])}/>'
  x += '<worldbody>' + ''.join(_geom_xml(g, doc) for g in doc['world_geoms'])
  x += ''.join(body_xml(i) for i in kids[-1]) + '</worldbody>'
  if doc['tendons']:
    x += '<tendon>' + ''.join(f'<fixed name="{t["name"]}"><joint joint="{t["joint"]}" coef="1"/></fixed>' for t in doc['tendons']) + '</tendon>'
  if doc['acts']:
    x += '<actuator>'
    for a in doc['acts']:
      jn = f'j{a["body"]}_{a["joint"]}'
      kind, at = a['kind'], dict(a['attrs'])
      target = at.pop('_target', f'joint="{jn}"')
      if kind == 'motor':
        x += f'<motor {target}{_attrs(at)}/>'
      elif kind == 'position':
        x += f'<position {target} kp="2"{_attrs(at)}/>'
      elif kind == 'velocity':
        x += f'<velocity {target} kv="1"{_attrs(at)}/>'
      elif kind == 'general-affine':
        x += f'<general {target} biastype="affine" biasprm="0 -1 0"{_attrs(at)}/>'
      elif kind == 'general':
        x += f'<general {target}{_attrs(at)}/>'
      elif kind == 'damper':
        x += f'<damper {target} ctrlrange="0 1"{_attrs(at)}/>'
      elif kind == 'adhesion':
        x += f'<adhesion {target} ctrlrange="0 1"{_attrs(at)}/>'
      else:
        raise ValueError(kind)
    x += '</actuator>'
  return x + '</mujoco>'


def _all_geoms(doc):
  """[(path, geom dict)] in a fixed order (world geoms, then per body)"""
  out = [(('w', n), g) for n, g in enumerate(doc['world_geoms'])]
  for i, b in enumerate(doc['bodies']):
    out += [(('b', i, n), g) for n, g in enumerate(b['geoms'])]
    if b.get('fusechild'):
      out += [(('fc', i, n), g) for n, g in enumerate(b['fusechild']['geoms'])]
  return out


MUSCLE_PRM = '0.75 1.05 -1 200 0.5 1.6 1.5 1.3 1.2'
VARIANTS = {
    'integrator': ['RK4', 'implicitfast', 'implicit'],
    'cone': ['elliptic'],
    'wind': ['0.5', '-2'],
    'fluid': ['ellipsoid'],
    'impratio': ['2', '0.5', '1.5'],
    'trn': ['site', 'jointinparent', 'tendon', 'body'],
    'gain': ['affine', 'damper', 'user', 'muscle'],
    'bias': ['user', 'muscle'],
    'ref': ['0.3', '-0.25', '1e-9'],
    'ball': ['alone', 'limited', 'stacked'],
    'freestiff': ['1', '0.001'],
    'solmix': ['2', '0.5'],
    'priority': ['1', '-1'],
    'cylinder': ['both', 'contype-only', 'contype2', 'conaffinity-only', 'just-above'],
    'anchor': ['x', 'z'],
}


def eligible(doc, feature):
  """elements of `doc` at which `feature` can be injected"""
  bodies = doc['bodies']
  if feature in ('integrator', 'cone', 'impratio'):
    return [0]
  if feature == 'wind':
    return [0, 1, 2]
  if feature == 'fluid':
    return list(range(len(_all_geoms(doc))))
  if feature in ('solmix', 'priority'):
    n = len(_all_geoms(doc))
    return list(range(n)) if n >= 2 else []
  if feature in ('trn', 'gain', 'bias'):
    return list(range(len(doc['acts'])))
  if feature == 'ref':
    return [(i, k) for i, b in enumerate(bodies) for k, j in enumerate(b['joints']) if j['type'] != 'free']
  if feature == 'ball':
    return [i for i, b in enumerate(bodies) if b['joints'][0]['type'] != 'free']
  if feature == 'freestiff':
    return [i for i, b in enumerate(bodies) if b['joints'][0]['type'] == 'free']
  if feature == 'cylinder':
    return [n for n, (_, g) in enumerate(_all_geoms(doc)) if g['type'] == 'cylinder']
  if feature == 'anchor':
    return [(i, k) for i, b in enumerate(bodies) if len(b['joints']) >= 2 for k in range(len(b['joints']))]
  raise ValueError(feature)


def inject(doc, feature, elem, variant):
  """a copy of `doc` with exactly one unsupported feature at `elem`"""
  d = copy.deepcopy(doc)
  bodies = d['bodies']
  if feature == 'integrator':
    d['option']['integrator'] = variant
  elif feature == 'cone':
    d['option']['cone'] = variant
  elif feature == 'impratio':
    d['option']['impratio'] = variant
  elif feature == 'wind':
    w = ['0', '0', '0']
    w[elem] = variant
    d['option']['wind'] = ' '.join(w)
  elif feature == 'fluid':
    _all_geoms(d)[elem][1]['attrs']['fluidshape'] = 'ellipsoid'
  elif feature == 'solmix':
    _all_geoms(d)[elem][1]['attrs']['solmix'] = variant if d.get('all_solmix') != variant else '3'
  elif feature == 'priority':
    _all_geoms(d)[elem][1]['attrs']['priority'] = variant
  elif feature == 'trn':
    a = d['acts'][elem]
    if variant == 'site':
      a['attrs']['_target'] = f'site="s{a["body"]}"'
      a['attrs']['gear'] = '0 0 0 1 0 0'
    elif variant == 'jointinparent':
      a['attrs']['_target'] = f'jointinparent="j{a["body"]}_{a["joint"]}"'
    elif variant == 'tendon':
      d['tendons'].append(dict(name='t0', joint=f'j{a["body"]}_{a["joint"]}'))
      a['attrs']['_target'] = 'tendon="t0"'
    elif variant == 'body':
      a['kind'] = 'adhesion'
      a['attrs'] = {'_target': f'body="b{a["body"]}"'}
  elif feature == 'gain':
    a = d['acts'][elem]
    if variant == 'damper':
      a['kind'], a['attrs'] = 'damper', {}
    else:
      a['kind'] = 'general'
      a['attrs'] = {'gaintype': variant}
      if variant == 'muscle':
        a['attrs'].update(gainprm=MUSCLE_PRM, lengthrange='0.5 1.5')
      if variant == 'affine':
        a['attrs']['gainprm'] = '1 0 0'
  elif feature == 'bias':
    a = d['acts'][elem]
    a['kind'] = 'general'
    a['attrs'] = {'biastype': variant}
    if variant == 'muscle':
      a['attrs'].update(biasprm=MUSCLE_PRM, lengthrange='0.5 1.5')
  elif feature == 'ref':
    i, k = elem
    bodies[i]['joints'][k]['attrs']['ref'] = variant
  elif feature == 'ball':
    b = bodies[elem]
    moved = {(elem, k) for k in range(len(b['joints']))}
    first = b['joints'][0]
    ball = dict(type='ball', tag='joint', attrs={})
    if 'pos' in first['attrs']:
      ball['attrs']['pos'] = first['attrs']['pos']
    if variant == 'limited':
      ball['attrs'].update(range='0 1', limited='true')
    if variant == 'stacked':
      b['joints'] = [first, ball]
      keep = {(elem, 0)}
    else:
      b['joints'] = [ball]
      keep = set()
    d['acts'] = [a for a in d['acts'] if (a['body'], a['joint']) not in (moved - keep)]
  elif feature == 'freestiff':
    j = bodies[elem]['joints'][0]
    j['tag'] = 'joint'
    j['attrs']['stiffness'] = variant
  elif feature == 'cylinder':
    g = _all_geoms(d)[elem][1]
    ct, ca = {'both': ('1', '1'), 'contype-only': ('1', '0'), 'contype2': ('2', '0'),
              'conaffinity-only': ('0', '1'), 'just-above': ('1', '1')}[variant]
    g['size'] = [g['size'][0], 0.0011 if variant == 'just-above' else 0.2]
    g['attrs'].update(contype=ct, conaffinity=ca)
  elif feature == 'anchor':
    i, k = elem
    js = bodies[i]['joints']
    p = [float(v) for v in js[k]['attrs'].get('pos', '0 0 0').split()]
    p[0 if variant == 'x' else 2] += 0.1
    # every joint of the stack keeps an explicit pos so that only joint k differs
    for jj in js:
      jj['attrs'].setdefault('pos', '0 0 0')
    js[k]['attrs']['pos'] = ' '.join(str(round(v, 4)) for v in p)
  else:
    raise ValueError(feature)
  return d


# ----------------------------------------------------------------------------- real side


_mods = {}


def _brax():
  if not _mods:
    import jax
    jax.config.update('jax_enable_x64', True)
    import jax.numpy as jp
    import mujoco
    from brax.io import mjcf
    from brax.generalized import pipeline as g
    from brax.spring import pipeline as s
    from brax.positional import pipeline as p
    from brax import base
    mujoco.set_mju_user_warning(lambda *a: None)   # 'inertia close to singular' chatter of the compiler
    _mods.update(jax=jax, jp=jp, mujoco=mujoco, mjcf=mjcf, base=base,
                 pipes=dict(generalized=g, spring=s, positional=p))
  return _mods


def kind_of(e):
  if isinstance(e, NotImplementedError):
    return 'NI'
  if isinstance(e, RuntimeError):
    return 'RT'
  return 'OTHER'


def run_real(xml, with_structure=True, execute=False):
  """outcome of the real code on one document.

  `init` is a python function whose only raising statements run at python level
  (`validate_model`, dict lookups on `link_types`), so it is observed by *tracing* the real
  `pipeline.init` with `jax.eval_shape` (the whole body runs, no XLA compile: ~2 s per accepted
  model instead of ~30 s eagerly); with `execute=True` it is also jitted and run on concrete
  arrays and the result must be finite-shaped the same way."""
  B = _brax()
  mjcf, jp, mujoco, jax = B['mjcf'], B['jp'], B['mujoco'], B['jax']
  out = dict(stage=None, mj=None)
  try:
    fused = mjcf.fuse_bodies(xml)
    out['mj'] = mujoco.MjModel.from_xml_string(fused)
  except Exception as e:  # MuJoCo's own compiler (or the XML layer) rejects the document
    out.update(stage='mujoco', error=f'{type(e).__name__}: {str(e)[:120]}')
    return out
  try:
    sys_ = mjcf.loads(xml)
  except Exception as e:
    out.update(stage='load', kind=kind_of(e), error=f'{type(e).__name__}: {str(e)[:120]}')
    return out
  out['stage'] = 'init'
  out['init'] = {}
  out['executed'] = False
  qd = jp.zeros(sys_.qd_size())
  for name in PIPES:
    fn = lambda q, v, name=name: B['pipes'][name].init(sys_, q, v)
    try:
      jax.eval_shape(fn, sys_.init_q, qd)
      out['init'][name] = 'ok'
    except Exception as e:
      out['init'][name] = kind_of(e)
      out.setdefault('errors', {})[name] = f'{type(e).__name__}: {str(e)[:80]}'
  if execute and all(v == 'ok' for v in out['init'].values()):
    for name in PIPES:
      fn = lambda q, v, name=name: B['pipes'][name].init(sys_, q, v)
      try:
        st = jax.jit(fn)(sys_.init_q, qd)
        jax.block_until_ready(st.q)
      except Exception as e:
        out['init'][name] = kind_of(e)
        out.setdefault('errors', {})[name] = f'executed: {type(e).__name__}: {str(e)[:80]}'
    out['executed'] = True
  if with_structure:
    out['sys'] = sys_
  return out


def helpers_of(sys_):
  """the System helper outputs as strings in the driver's format ('none' when they raise)"""
  def nats(a):
    return ','.join(str(int(v)) for v in np.asarray(a).reshape(-1))
  def guard(f):
    try:
      return f()
    except (KeyError, IndexError, RecursionError):
      return 'none'
  r = {}
  r['dl'] = guard(lambda: nats(sys_.dof_link()))
  r['dld'] = guard(lambda: nats(sys_.dof_link(depth=True)))
  r['dr'] = guard(lambda: '|'.join(','.join(map(str, x)) for x in sys_.dof_ranges()))
  for s in SELS:
    r['q' + s] = guard(lambda s=s: nats(sys_.q_idx(s)))
    r['d' + s] = guard(lambda s=s: nats(sys_.qd_idx(s)))
  return r


def structure_of(sys_):
  r = dict(lt=sys_.link_types, lp=','.join(str(int(p)) for p in sys_.link_parents),
           aq=','.join(str(int(v)) for v in np.asarray(sys_.actuator.q_id)),
           aqd=','.join(str(int(v)) for v in np.asarray(sys_.actuator.qd_id)),
           iq=[float(v) for v in np.asarray(sys_.init_q)], nq=int(sys_.q_size()), nv=int(sys_.qd_size()))
  r.update(helpers_of(sys_))
  return r


def features_line(mj):
  """`MjFeatures` of an MjModel, flattened for Driver/C14.lean"""
  t = ['C14.model', str(int(mj.opt.integrator)), str(int(mj.opt.cone)), f2hex(mj.opt.impratio),
       str(int(mj.nq)), str(int(mj.nv))] + [f2hex(v) for v in mj.opt.wind]
  t.append(str(mj.ngeom))
  for i in range(mj.ngeom):
    t += [str(int(mj.geom_type[i])), str(int(mj.geom_contype[i])), str(int(mj.geom_conaffinity[i])),
          str(int(mj.geom_priority[i])), f2hex(mj.geom_solmix[i])] + [f2hex(v) for v in mj.geom_size[i]]
    fl = np.asarray(mj.geom_fluid).reshape(mj.ngeom, -1)[i]
    t += [str(len(fl))] + [f2hex(v) for v in fl]
  t.append(str(mj.nu))
  for i in range(mj.nu):
    t += [str(int(mj.actuator_biastype[i])), str(int(mj.actuator_gaintype[i])),
          str(int(mj.actuator_trntype[i])), str(int(mj.actuator_trnid[i, 0]))]
  t.append(str(mj.njnt))
  for i in range(mj.njnt):
    def ext(v):
      return ('inf' if v > 0 else '-inf') if np.isinf(v) else f2hex(v)
    t += [str(int(mj.jnt_type[i])), str(int(mj.jnt_bodyid[i]))] + [f2hex(v) for v in mj.jnt_pos[i]]
    t += [str(int(mj.jnt_limited[i] == 1)), ext(mj.jnt_range[i, 0]), ext(mj.jnt_range[i, 1]),
          f2hex(mj.jnt_stiffness[i]), str(int(mj.jnt_qposadr[i])), str(int(mj.jnt_dofadr[i]))]
  t += [str(len(mj.qpos0))] + [f2hex(v) for v in mj.qpos0]
  t += [str(mj.nbody)] + [str(int(v)) for v in mj.body_parentid]
  return ' '.join(t)


def parse_answer(line):
  if line.startswith('bad'):
    raise RuntimeError(f'C14 driver rejected a case: {line}')
  return dict(tok.split('=', 1) for tok in line.split())


def rat_tok(t):
  if '/' in t:
    a, b = t.split('/')
    return int(a) / int(b)
  return float(int(t))


# ----------------------------------------------------------------------------- spec


def spec_structure(mj, st):
  """the property's second sentence, evaluated on the real system against the source model;
  returns a list of violated clauses (strings)"""
  B = _brax()
  QW, QDW = B['base'].Q_WIDTHS, B['base'].QD_WIDTHS
  bad = []
  lt = st['lt']
  if any(c not in QW for c in lt):
    return [f'link_types {lt!r} has an unknown type']
  if sum(QW[c] for c in lt) != mj.nq or st['nq'] != mj.nq or len(st['iq']) != mj.nq:
    bad.append(f'coordinate count: sum Q_WIDTHS={sum(QW[c] for c in lt)} q_size={st["nq"]} |init_q|={len(st["iq"])} nq={mj.nq}')
  if sum(QDW[c] for c in lt) != mj.nv or st['nv'] != mj.nv:
    bad.append(f'dof count: sum QD_WIDTHS={sum(QDW[c] for c in lt)} nv={mj.nv}')
  jointed = sorted(set(int(b) for b in mj.jnt_bodyid))
  if len(lt) != len(jointed) or len(lt) != mj.nbody - 1:
    bad.append(f'link count {len(lt)} vs bodies with joints {len(jointed)} vs nbody-1 {mj.nbody - 1}')
  else:
    for i, c in enumerate(lt):
      typs = [int(t) for t, b in zip(mj.jnt_type, mj.jnt_bodyid) if b == i + 1]
      want = 'f' if typs == [0] else str(len(typs))
      if c != want:
        bad.append(f'link {i}: type {c!r} but body {i + 1} has joints {typs}')
    lp = [int(v) for v in st['lp'].split(',')] if st['lp'] else []
    for i, p in enumerate(lp):
      if not (-1 <= p < i) or p != int(mj.body_parentid[i + 1]) - 1:
        bad.append(f'link {i}: parent {p} (body parent {int(mj.body_parentid[i + 1])})')
  aq = [int(v) for v in st['aq'].split(',')] if st['aq'] else []
  aqd = [int(v) for v in st['aqd'].split(',')] if st['aqd'] else []
  if len(aq) != mj.nu:
    bad.append(f'{len(aq)} actuators for nu={mj.nu}')
  else:
    for a in range(mj.nu):
      j = int(mj.actuator_trnid[a, 0])
      if aq[a] != int(mj.jnt_qposadr[j]) or aqd[a] != int(mj.jnt_dofadr[j]):
        bad.append(f'actuator {a}: q_id {aq[a]} qd_id {aqd[a]} but joint {j} lives at {int(mj.jnt_qposadr[j])}/{int(mj.jnt_dofadr[j])}')
  if not np.array_equal(np.asarray(st['iq']), np.asarray(mj.qpos0)):
    bad.append('init_q differs from qpos0')
  # index helpers: partition facts
  if st['dr'] != 'none':
    flat = [int(v) for r in st['dr'].split('|') for v in r.split(',') if v]
    if flat != list(range(mj.nv)):
      bad.append('dof_ranges do not partition [0,nv) in order')
  for s, n in (('q', mj.nq), ('d', mj.nv)):
    parts = []
    for c in 'f123':
      v = st[s + c]
      parts += [int(x) for x in v.split(',') if x] if v != 'none' else [-1]
    if sorted(parts) != list(range(n)):
      bad.append(f'{"q_idx" if s == "q" else "qd_idx"} of the four types do not enumerate [0,{n})')
  dl = [int(x) for x in st['dl'].split(',') if x] if st['dl'] != 'none' else None
  if dl is None or len(dl) != mj.nv or any(a > b for a, b in zip(dl, dl[1:])):
    bad.append('dof_link is not a non-decreasing list of length nv')
  return bad


def spec_verdict(label, xml, real):
  """the property's first sentence on one document whose load succeeded: an injected feature
  must make every native pipeline raise; a clean document must be accepted.
  keys: `unsupported-accepted:<feature>[:<variant>]` when all three pipelines accept (the validator
  itself misses the feature), `init-no-validate:<pipeline>:<feature>` when only some do."""
  f = label.get('feature')
  where = f'{f}/{label.get("variant")}@{label.get("elem")}' if f else 'clean'
  out = []
  acc = [p for p in PIPES if real['init'][p] == 'ok']
  if f is not None and acc:
    tail = f'{f}:{label["variant"]}' if f == 'cylinder' else f
    if len(acc) == len(PIPES):
      out.append(dict(key=f'unsupported-accepted:{tail}',
                      what=f'all three pipeline.init accept a model with unsupported feature {where}',
                      xml=xml, pipelines=acc, expect='error', feature=f, variant=label.get('variant')))
    else:
      for p in acc:
        out.append(dict(key=f'init-no-validate:{p}:{tail}',
                        what=f'{p}.init accepts a model with unsupported feature {where} that the other pipelines reject',
                        xml=xml, pipeline=p, expect='error', feature=f, variant=label.get('variant')))
  if f is None:
    for p in PIPES:
      if real['init'][p] != 'ok':
        out.append(dict(key=f'clean-rejected:{p}', what=f'{p}.init rejects a clean document: {real["errors"][p]}',
                        xml=xml, pipeline=p, expect='accepted'))
  return out


def colliding_evidence(sys_, geom_id):
  """does brax's own contact generation consider geom `geom_id`?  (candidate contacts of `contact.get`)"""
  B = _brax()
  from brax import contact, kinematics
  x, _ = kinematics.forward(sys_, sys_.init_q, B['jp'].zeros(sys_.qd_size()))
  c = contact.get(sys_, x)
  if c is None:
    return 0
  g = np.asarray(c.geom)
  return int((g == geom_id).any(axis=-1).sum())


# ----------------------------------------------------------------------------- cases


def make_cases(ctx, rng):
  """[(label dict, xml)]"""
  cases = []
  if ctx.tier == 'thorough':
    n_base = 100
    for b in range(n_base):
      doc = gen_doc(rng, want=FEATURES if b % 2 else ())
      cases.append((dict(base=b, feature=None), render(doc)))
      for f in FEATURES:
        for e in eligible(doc, f):
          vs = VARIANTS[f]
          v = vs[int(rng.integers(0, len(vs)))]
          cases.append((dict(base=b, feature=f, elem=e, variant=v), render(inject(doc, f, e, v))))
    return cases
  n_clean, per_feature = 12, 3
  for b in range(n_clean):
    cases.append((dict(base=b, feature=None), render(gen_doc(rng, want=FEATURES if b % 3 == 0 else ()))))
  b = n_clean
  for f in FEATURES:
    vs = list(VARIANTS[f])
    rng.shuffle(vs)
    for r in range(max(per_feature, len(vs))):      # every variant of every feature at least once
      for _ in range(50):
        doc = gen_doc(rng, want=(f,))
        el = eligible(doc, f)
        if el:
          break
      else:
        raise RuntimeError(f'generator never produced an element eligible for {f}')
      # "wherever in the model the feature occurs": first eligible element, last one, then random ones
      e = el[0] if r == 0 else el[-1] if r == 1 else el[int(rng.integers(0, len(el)))]
      v = vs[r % len(vs)]
      cases.append((dict(base=b, feature=f, elem=e, variant=v), render(inject(doc, f, e, v))))
      b += 1
  return cases


def judge(label, xml, real, ans):
  """compare one document's real outcome with the model's answer and with the spec.
  returns (disagreements, spec_failures, stats-tag)"""
  dis, spec = [], []
  f = label.get('feature')
  where = f'{f}/{label.get("variant")}@{label.get("elem")}' if f else 'clean'
  if real['stage'] == 'mujoco':
    return dis, spec, 'mujoco-rejected'
  mv = ans['v']
  if ans['wf'] != '1':
    raise RuntimeError(f'harness bug: MjFeatures of a compiled model violates WF ({where})')
  if real['stage'] == 'load':
    # load_model itself raised (mjx.put_model on an unsupported option / transmission)
    if mv == 'ok' and ans.get('load') == 'ok':
      dis.append(dict(what=f'loads raises {real["error"]} but the model accepts ({where})', xml=xml))
    if f is None:
      spec.append(dict(key='clean-rejected-at-load', what=f'clean document rejected by loads: {real["error"]}', xml=xml,
                       expect='accepted'))
    return dis, spec, 'rejected-at-load'
  for p, key in zip(PIPES, ('ig', 'is', 'ip')):
    rv = real['init'][p]
    if rv != ans[key]:
      dis.append(dict(what=f'{p}.init: real {rv} ({real.get("errors", {}).get(p, "")}) but model {ans[key]} ({where})',
                      xml=xml, pipeline=p, real=rv, model=ans[key]))
  spec += spec_verdict(label, xml, real)
  if all(v == 'ok' for v in real['init'].values()):
    st = structure_of(real['sys'])
    if ans.get('load') != 'ok':
      dis.append(dict(what=f'model loadStructure fails but the real load succeeds ({where})', xml=xml))
    else:
      for k in ('lt', 'lp', 'aq', 'aqd', 'dl', 'dld', 'dr') + tuple('q' + s for s in SELS) + tuple('d' + s for s in SELS):
        if st[k] != ans[k]:
          dis.append(dict(what=f'structure field {k}: real {st[k]!r} model {ans[k]!r} ({where})', xml=xml, field=k))
      miq = [rat_tok(t) for t in ans['iq'].split(',') if t]
      if miq != st['iq']:
        dis.append(dict(what=f'init_q: real {st["iq"]} model {miq} ({where})', xml=xml, field='iq'))
    if f is None:
      for clause in spec_structure(real['mj'], st):
        spec.append(dict(key='structure:' + clause.split(':')[0].split(' ')[0], what=f'accepted model inconsistent with its source: {clause}',
                         xml=xml, expect='consistent'))
    return dis, spec, 'accepted'
  return dis, spec, 'rejected-at-init'


def helper_leg(ctx, rng, n):
  """base.System index helpers on arbitrary type strings / parent tuples vs the Lean helpers"""
  B = _brax()
  sys0 = B['mjcf'].loads('<mujoco><worldbody><body><joint type="hinge"/><geom size="0.1"/></body></worldbody></mujoco>')
  lines, real = [], []
  for k in range(n):
    ln = int(rng.integers(0, 8))
    alphabet = 'f123' if rng.random() < 0.85 else 'f1234x0'
    lt = ''.join(alphabet[int(rng.integers(0, len(alphabet)))] for _ in range(ln))
    mode = rng.random()
    if mode < 0.75:
      ps = [int(rng.integers(-1, i)) if i else -1 for i in range(ln)]
    elif mode < 0.9:
      m = int(rng.integers(0, 8))
      ps = [int(rng.integers(-2, max(m, 1))) for _ in range(m)]       # arbitrary: wrong length, cycles, -2
    else:
      ps = [int(rng.integers(-1, i)) if i else -1 for i in range(ln + 1)]
    s = sys0.replace(link_types=lt, link_parents=tuple(ps))
    real.append((lt, ps, helpers_of(s)))
    lines.append(' '.join(['C14.helpers', lt or '-', str(len(ps))] + [str(p) for p in ps]))
  out = C.run_driver('Driver/C14.lean', lines)
  if len(out) != len(lines):
    raise RuntimeError(f'driver returned {len(out)} lines for {len(lines)} helper cases')
  dis = []
  for (lt, ps, r), o in zip(real, out):
    a = parse_answer(o)
    for k, v in r.items():
      if a[k] != v:
        dis.append(dict(what=f'System helper {k} on link_types={lt!r} parents={ps}: real {v!r} model {a[k]!r}',
                        link_types=lt, link_parents=ps, field=k))
  return len(lines), dis, len({(lt, tuple(ps)) for lt, ps, _ in real})


def correspond(ctx):
  rng = np.random.default_rng(ctx.seed)
  t0 = time.time()
  cases = make_cases(ctx, rng)
  reals, lines, idx = [], [], []
  n_exec, max_exec = 0, ctx.budget(1, 12)
  for n, (label, xml) in enumerate(cases):
    r = run_real(xml, execute=(label.get('feature') is None and n_exec < max_exec))
    n_exec += bool(r.get('executed'))
    reals.append(r)
    if r['mj'] is not None:
      idx.append(n)
      lines.append(features_line(r['mj']))
  out = C.run_driver('Driver/C14.lean', lines)
  if len(out) != len(lines):
    raise RuntimeError(f'driver returned {len(out)} lines for {len(lines)} cases')
  answers = {n: parse_answer(o) for n, o in zip(idx, out)}
  line_of = dict(zip(idx, lines))
  disagreements, spec_failures = [], []
  hist, by_feature, branches, kinds, link_types, distinct = {}, {}, {}, {}, {}, set()
  mj_rejected = []
  samples = []
  for n, (label, xml) in enumerate(cases):
    real = reals[n]
    ans = answers.get(n)
    dis, spec, tag = judge(label, xml, real, ans)
    disagreements += dis
    # one spec failure per key is enough for the replay; keep the first
    for s in spec:
      if s['key'] not in {x['key'] for x in spec_failures}:
        if s.get('feature') == 'cylinder' and s.get('variant') == 'conaffinity-only' and 'sys' not in s:
          # is the cylinder really a collision candidate for brax?
          try:
            sys_ = _brax()['mjcf'].loads(xml)
            mj = real['mj']
            cyl = [i for i in range(mj.ngeom) if mj.geom_type[i] == 5 and mj.geom_size[i, 1] > 0.001 and mj.geom_conaffinity[i]]
            s['contacts_involving_the_cylinder'] = sum(colliding_evidence(sys_, g) for g in cyl)
          except Exception as e:  # evidence only
            s['contacts_involving_the_cylinder'] = f'not measured: {type(e).__name__}'
        spec_failures.append(s)
    hist[tag] = hist.get(tag, 0) + 1
    f = label.get('feature') or 'clean'
    by_feature.setdefault(f, {}).setdefault(tag, 0)
    by_feature[f][tag] += 1
    if tag == 'mujoco-rejected':
      mj_rejected.append(f'{f}/{label.get("variant")}')
    if ans is not None:
      branches[ans['br']] = branches.get(ans['br'], 0) + 1
      kinds[ans['v']] = kinds.get(ans['v'], 0) + 1
      if tag == 'accepted':
        link_types[ans.get('lt', '?')] = link_types.get(ans.get('lt', '?'), 0) + 1
      distinct.add((f, label.get('variant'), line_of[n]))
    if len(samples) < 4 and (n % 7 == 0):
      samples.append(dict(label={k: str(v) for k, v in label.items()}, xml=xml[:600], outcome=tag,
                          model=None if ans is None else {k: ans[k] for k in ('v', 'br') if k in ans}))
  n_h, dis_h, dist_h = helper_leg(ctx, rng, ctx.budget(150, 1500))
  disagreements += dis_h
  names = ['integrator', 'cone', 'fluid', 'wind', 'impratio', 'bias', 'gain', 'trn', 'solmix', 'priority',
           'ref', 'anchors', 'dofs', 'stacks', 'cylinders']
  return dict(
      evaluations=len(cases) * 3 + n_h,
      distinct_nontrivial=len(distinct) + dist_h,
      rule='documents = seeded MJCF forests, clean or with exactly one unsupported feature at one eligible '
           'element; each is loaded by mjcf.loads and initialised by the 3 native pipelines (evaluations = '
           'documents x 3 + helper cases); distinct = distinct (feature, variant, MjFeatures line) triples '
           'that MuJoCo compiled, plus distinct (link_types, link_parents) helper cases; all are non-trivial '
           '(>= 1 body with a joint and a geom)',
      samples=samples, disagreements=disagreements, spec_failures=spec_failures,
      trusted_base=['harness/corr_C14.py: MJCF generator, MjFeatures extraction from mujoco.MjModel, outcome mapping',
                    'mujoco XML compiler and mjx.put_model (external; documents they reject are counted, not judged)',
                    'agreement model = code is established on the sampled documents only'],
      assumptions=['WF (array shapes, joints listed body by body, qposadr/dofadr = prefix sums of joint widths, '
                   'parent id < body id, every non-world body has a joint after _fuse_bodies, 0 <= contype/conaffinity < 2^31) is an assumption '
                   'about MuJoCo; the driver checks it on every input',
                   'link-count / width theorems assume at most 3 joints per body (4 hinges on one body are accepted '
                   'by validate_model and fail later with KeyError; outside the generator)',
                   'no init_qpos custom numeric (init_q = qpos0)',
                   'error kind is compared, message text is not'],
      explanation='Tie B: Lean validate/init/loadStructure/helpers against mjcf.loads + 3 x pipeline.init on the same documents.',
      extra=dict(outcomes=hist, by_feature=by_feature, model_verdicts=kinds,
                 first_failing_check={(names[int(k)] if k != '-' else 'none'): v for k, v in branches.items()},
                 accepted_link_types=dict(sorted(link_types.items(), key=lambda kv: -kv[1])[:12]),
                 rejected_by_mujoco_compiler=sorted(set(mj_rejected)), n_rejected_by_mujoco_compiler=len(mj_rejected),
                 helper_cases=n_h, documents=len(cases), init_executed_concretely=n_exec,
                 init_observed_by='jax.eval_shape of the real pipeline.init (python-level raises); first accepted clean documents also jitted and run', wall_correspond_s=round(time.time() - t0, 1)))


# ----------------------------------------------------------------------------- search / replay


def spec_only(label, xml):
  """the property's own observation on one document; returns a failure dict or None"""
  real = run_real(xml)
  f = label.get('feature')
  if real['stage'] == 'mujoco':
    return None
  if real['stage'] == 'load':
    if f is None:
      return dict(key='clean-rejected-at-load', what=f'clean document rejected by loads: {real["error"]}', xml=xml,
                  expect='accepted')
    return None
  v = spec_verdict(label, xml, real)
  if v:
    return v[0]
  if f is None:
    bad = spec_structure(real['mj'], structure_of(real['sys']))
    if bad:
      return dict(key='structure:' + bad[0].split(':')[0].split(' ')[0],
                  what=f'accepted model inconsistent with its source: {bad[0]}', xml=xml, expect='consistent')
  return None


def search(ctx, broken, corr):
  rng = np.random.default_rng(ctx.seed + 1000003)
  deadline = time.time() + ctx.budget(55, 580)
  found, keys = [], set()
  b = 0
  while time.time() < deadline and len(found) < 3:
    doc = gen_doc(rng, want=FEATURES if b % 2 else ())
    todo = [(dict(base=b, feature=None), doc)]
    for f in FEATURES:
      el = eligible(doc, f)
      if el:
        e = el[int(rng.integers(0, len(el)))]
        vs = VARIANTS[f]
        v = vs[int(rng.integers(0, len(vs)))]
        todo.append((dict(base=b, feature=f, elem=e, variant=v), inject(doc, f, e, v)))
    for label, d in todo:
      r = spec_only(label, render(d))
      if r and r['key'] not in keys:
        keys.add(r['key'])
        found.append(r)
    b += 1
  return found


def replay(ctx, rp):
  if rp.get('kind') != 'failing-input' or 'xml' not in rp:
    return True, f'replay names broken obligations only: {rp.get("broken")}'
  real = run_real(rp['xml'])
  if real['stage'] == 'mujoco':
    return True, f'MuJoCo rejects the document now: {real["error"]}'
  if real['stage'] == 'load':
    ok = rp.get('expect') == 'error'
    return ok, f'loads raises {real["error"]} (expected {rp.get("expect")})'
  msg = f'init outcomes {real["init"]} {real.get("errors", {})} (expected {rp.get("expect")})'
  if rp.get('expect') == 'error':
    ps = [rp['pipeline']] if rp.get('pipeline') else PIPES
    return all(real['init'][p] != 'ok' for p in ps), msg
  if rp.get('expect') == 'accepted':
    return all(v == 'ok' for v in real['init'].values()), msg
  if rp.get('expect') == 'consistent':
    if not all(v == 'ok' for v in real['init'].values()):
      return True, msg
    bad = spec_structure(real['mj'], structure_of(real['sys']))
    return not bad, f'structure clauses violated: {bad}'
  return True, msg


def reproduce_known(ctx, entry):
  rp = dict(entry.get('replay', {}))
  if 'xml' not in rp:
    return True
  rp.setdefault('kind', 'failing-input')
  ok, _ = replay(ctx, rp)
  return not ok
