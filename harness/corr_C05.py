"""C05 — physics does not depend on how the scene is represented.

Lean side (Props/C05.lean): `forward_equivariant` (kinematics commutes with a rigid transform of the
root coordinates, every forest), `scan_sibling_permutation`, `components_independent` (every
root-to-leaf tree recursion), `xform_keeps_joint_coordinates`.

This harness
 (a) ties the model used by `forward_equivariant` to the implementation ON TRANSFORMED INPUTS:
     real `kinematics.forward(sys, q_g, qd_g)` vs Lean `fwdx` (= `Kin.forward` after the Lean model
     of the transform, `C05M.xformIn`), the harness's own transform vs the Lean one (`xform`), and
     the Lean model against itself (`fwdx` vs `gfwd`: both sides of the theorem, numerically);
 (b) evaluates the property's own observation (the SPEC) on the implementation for all three
     pipelines: init + N steps of (sys_g, q_g, qd_g) against g applied to init + N steps of
     (sys, q, qd);
 (c) sibling order: the same document with the children of every body (and of the world) listed
     in another order; per-link results must be permuted;
 (d) components: two generator documents merged into one worldbody evolve as each alone.

Work is split into units (pair of models x pipeline) that run in a pool of worker processes: the
cost is dominated by XLA compilation (one per (document, pipeline)), which parallelises cleanly.
Every random choice of a unit derives from `default_rng([seed, salt, pair])`, so results do not
depend on the pool size.
"""
from __future__ import annotations

import copy
import json
import os
import sys
import time
import xml.etree.ElementTree as ET

import numpy as np

HERE = os.path.dirname(os.path.abspath(__file__))
sys.path.insert(0, HERE)
import check as C  # noqa: E402
import modelgen  # noqa: E402
import wire  # noqa: E402

PIPES = ('generalized', 'spring', 'positional')
TOL_KIN = 1e-9       # kinematics (init), model <-> implementation
TOL_STEP = 1e-7      # the property's round-off allowance for stepped trajectories
TOL_MERGE = {'generalized': 1e-7, 'spring': 1e-9, 'positional': 1e-9}
DIVERGED = 1e4
BASE_OPTS = dict(roots='free', collide=False, ground=False, timestep=0.002,
                 custom={'matrix_inv_iterations': 0})
FIELDS = ('pos', 'rot', 'ang', 'vel', 'q', 'qd')


# ----------------------------------------------------------------------------- small algebra


def qmul(a, b):
  a, b = np.asarray(a, dtype=np.float64), np.asarray(b, dtype=np.float64)
  aw, ax, ay, az = a[..., 0], a[..., 1], a[..., 2], a[..., 3]
  bw, bx, by, bz = b[..., 0], b[..., 1], b[..., 2], b[..., 3]
  return np.stack([aw * bw - ax * bx - ay * by - az * bz,
                   aw * bx + ax * bw + ay * bz - az * by,
                   aw * by - ax * bz + ay * bw + az * bx,
                   aw * bz + ax * by - ay * bx + az * bw], axis=-1)


def qrot(v, q):
  """rotate vectors v (..., 3) by the unit quaternion q (4,)"""
  v = np.asarray(v, dtype=np.float64)
  q = np.asarray(q, dtype=np.float64)
  s, u = q[0], q[1:]
  return 2 * (v @ u)[..., None] * u + (s * s - u @ u) * v + 2 * s * np.cross(u, v)


def rand_g(rng):
  """uniform random rotation (normalised gaussian quaternion), translation in [-3,3]^3"""
  r = rng.normal(size=4)
  r /= np.linalg.norm(r)
  return np.concatenate([rng.uniform(-3, 3, size=3), r])


def link_slices(types):
  """[(q start, q width, qd start, qd width)] per link"""
  out, a, b = [], 0, 0
  for t in types:
    wq, wv = (7, 6) if t == 'f' else (int(t), int(t))
    out.append((a, wq, b, wv))
    a += wq; b += wv
  return out


def xform_q(types, q, qd, g):
  """the scene transform on coordinate vectors (last axis): free links get pos -> g.pos + R pos,
  rot -> g.rot * rot, linear velocity rotated, body-frame angular velocity unchanged; joint
  coordinates of every other link unchanged"""
  q, qd = np.array(q, dtype=np.float64), np.array(qd, dtype=np.float64)
  for t, (a, _, b, _) in zip(types, link_slices(types)):
    if t == 'f':
      q[..., a:a + 3] = g[:3] + qrot(q[..., a:a + 3], g[3:])
      q[..., a + 3:a + 7] = qmul(g[3:], q[..., a + 3:a + 7])
      qd[..., b:b + 3] = qrot(qd[..., b:b + 3], g[3:])
  return q, qd


def xform_obs(types, o, g):
  """g applied to an observed trajectory"""
  q, qd = xform_q(types, o['q'], o['qd'], g)
  return dict(pos=g[:3] + qrot(o['pos'], g[3:]), rot=qmul(g[3:], o['rot']),
              ang=qrot(o['ang'], g[3:]), vel=qrot(o['vel'], g[3:]), q=q, qd=qd)


def perm_obs(types_old, order, o):
  """per-link results of the original document listed in the order of the permuted document
  (`order[k]` = old index of new link k)"""
  sl = link_slices(types_old)
  qi = [i for k in order for i in range(sl[k][0], sl[k][0] + sl[k][1])]
  vi = [i for k in order for i in range(sl[k][2], sl[k][2] + sl[k][3])]
  return dict(pos=o['pos'][:, order], rot=o['rot'][:, order], ang=o['ang'][:, order],
              vel=o['vel'][:, order], q=o['q'][..., qi], qd=o['qd'][..., vi])


def cat_obs(a, b):
  return {k: np.concatenate([a[k], b[k]], axis=1 if k in ('pos', 'rot', 'ang', 'vel') else -1)
          for k in FIELDS}


def align_quats(types, exp, got):
  """quaternions are compared up to sign: flip `got` towards `exp` (link rotations and the
  quaternion part of the root coordinates)"""
  got = {k: np.array(v) for k, v in got.items()}
  s = np.sign(np.sum(exp['rot'] * got['rot'], axis=-1, keepdims=True))
  got['rot'] = got['rot'] * np.where(s == 0, 1.0, s)
  for t, (a, _, _, _) in zip(types, link_slices(types)):
    if t == 'f':
      s = np.sign(np.sum(exp['q'][..., a + 3:a + 7] * got['q'][..., a + 3:a + 7], axis=-1, keepdims=True))
      got['q'][..., a + 3:a + 7] *= np.where(s == 0, 1.0, s)
  return got


def first_divergence(*trajs):
  """first step at which some trajectory has |qd| > 1e4 (None: never).  The property counts such
  trajectories and compares them only up to that step."""
  T = trajs[0]['qd'].shape[0]
  for k in range(T):
    for o in trajs:
      v = o['qd'][k]
      if np.max(np.abs(v[np.isfinite(v)]), initial=0.0) > DIVERGED:
        return k
  return None


def compare(types, exp, got, tol_init, tol_step, upto=None):
  """compare two observed trajectories step by step; returns (mismatch | None, diverged_at, worst)
  where mismatch = dict(step, field, index, expected, got, err, scale).  A non-finite value before
  any divergence is a mismatch (a NaN is not the transform / permutation / part of anything)."""
  if upto is not None:
    exp = {k: v[:upto + 1] for k, v in exp.items()}
    got = {k: v[:upto + 1] for k, v in got.items()}
  got = align_quats(types, exp, got)
  div = first_divergence(exp, got)
  T = exp['qd'].shape[0] if div is None else div
  worst = 0.0
  for k in range(T):
    tol = tol_init if k == 0 else tol_step
    for f in FIELDS:
      a, b = exp[f][k], got[f][k]
      if a.size == 0:
        continue
      d = np.abs(a - b)
      bad = ~np.isfinite(d)
      if bad.any():
        idx = np.unravel_index(int(np.argmax(bad)), d.shape)
        return (dict(step=k, field=f, index=[int(i) for i in idx], expected=float(a[idx]), got=float(b[idx]),
                     err=1e300, scale=1.0, tol=tol, nonfinite=True), div, 1e300)
      scale = 1.0 + max(np.max(np.abs(a)), np.max(np.abs(b)))
      err = float(np.max(d))
      worst = max(worst, err / scale / tol)
      if err > tol * scale:
        idx = np.unravel_index(int(np.argmax(d)), d.shape)
        return (dict(step=k, field=f, index=[int(i) for i in idx], expected=float(a[idx]),
                     got=float(b[idx]), err=err, scale=float(scale), tol=tol), div, worst)
  return None, div, worst


# ----------------------------------------------------------------------------- documents


def jsonable(x):
  if isinstance(x, dict):
    return {k: jsonable(v) for k, v in x.items()}
  if isinstance(x, (list, tuple)):
    return [jsonable(v) for v in x]
  if isinstance(x, np.ndarray):
    return x.tolist()
  if isinstance(x, (np.floating, np.integer)):
    return x.item()
  return x


def full_opts(opts):
  o = dict(modelgen.DEFAULTS)
  o.update(opts)
  return o


def doc_xml(doc, opts):
  return modelgen.to_xml(doc['bodies'], doc['acts'], full_opts(opts))


def doc_types(doc):
  return ''.join('f' if b['free'] else str(len(b['joints'])) for b in doc['bodies'])


def children_of(bodies, i):
  return [c for c, b in enumerate(bodies) if b['parent'] == i]


def permute_doc(doc, rng):
  """list the children of every body (and of the world) in another order; returns
  (new doc, order) with order[k] = index in `doc` of body k of the new document, or None when the
  forest has no two siblings anywhere (nothing to permute)"""
  bodies = doc['bodies']
  groups = [children_of(bodies, i) for i in [-1] + list(range(len(bodies)))]
  if all(len(g) < 2 for g in groups):
    return None
  for _ in range(20):
    order = []
    def dfs(i):
      order.append(i)
      ch = children_of(bodies, i)
      for c in rng.permutation(ch) if len(ch) > 1 else ch:
        dfs(int(c))
    roots = children_of(bodies, -1)
    for r in rng.permutation(roots) if len(roots) > 1 else roots:
      dfs(int(r))
    if order != list(range(len(bodies))):
      break
  else:
    return None
  new_index = {old: new for new, old in enumerate(order)}
  nb = [dict(bodies[old], parent=(-1 if bodies[old]['parent'] == -1 else new_index[bodies[old]['parent']]))
        for old in order]
  return dict(bodies=nb, acts=doc['acts']), order


def apply_order(doc, order):
  bodies = doc['bodies']
  new_index = {old: new for new, old in enumerate(order)}
  nb = [dict(bodies[old], parent=(-1 if bodies[old]['parent'] == -1 else new_index[bodies[old]['parent']]))
        for old in order]
  return dict(bodies=nb, acts=doc['acts'])


ACT_TAGS = ('motor', 'position', 'velocity', 'general')


def merge_xml(xml_a, xml_b):
  """merge two generator documents into one worldbody: names get the prefixes A_/B_, the bodies
  and actuators of the second document follow those of the first"""
  A, B = ET.fromstring(xml_a), ET.fromstring(xml_b)
  for tag in ('option', 'custom', 'compiler'):
    ea, eb = A.find(tag), B.find(tag)
    sa = None if ea is None else ET.tostring(ea).strip()
    sb = None if eb is None else ET.tostring(eb).strip()
    if sa != sb:
      raise ValueError(f'documents differ in <{tag}>')
  for root, pre in ((A, 'A_'), (B, 'B_')):
    for el in root.iter():
      if el.tag in ('body', 'joint', 'freejoint', 'geom') + ACT_TAGS and 'name' in el.attrib:
        el.set('name', pre + el.get('name'))
      if el.tag in ACT_TAGS and 'joint' in el.attrib:
        el.set('joint', pre + el.get('joint'))
  wa = A.find('worldbody')
  for child in list(B.find('worldbody')):
    wa.append(child)
  ab = B.find('actuator')
  if ab is not None:
    aa = A.find('actuator')
    if aa is None:
      aa = ET.SubElement(A, 'actuator')
    for child in list(ab):
      aa.append(child)
  return ET.tostring(A, encoding='unicode')


# ----------------------------------------------------------------------------- running brax


_RUNNERS = {}
COMPILES = [0]


def _setup():
  import jax
  jax.config.update('jax_enable_x64', True)
  # the cost of this check is XLA compilation (one program per (document, pipeline)); the expensive
  # optimisation passes only change round-off, which the tolerances absorb.  VERIF_C05_XLA_OPT=1
  # compiles with the default optimisation level.
  if os.environ.get('VERIF_C05_XLA_OPT') != '1':
    jax.config.update('jax_disable_most_optimizations', True)


class Runner:
  """one loaded document; one jitted (init + N steps) function per pipeline, gravity an argument"""

  def __init__(self, xml):
    _setup()
    from brax.io import mjcf
    self.xml = xml
    self.sys = mjcf.loads(xml)
    self.types = self.sys.link_types
    self.parents = [int(p) for p in self.sys.link_parents]
    self.gravity = np.asarray(self.sys.gravity, dtype=np.float64)
    self.nu = int(self.sys.act_size())
    self._fn = {}
    self.compiles = 0

  def fn(self, pipe, nsteps):
    key = (pipe, nsteps)
    if key in self._fn:
      return self._fn[key]
    import importlib
    import jax
    from brax import kinematics
    P = importlib.import_module(f'brax.{pipe}.pipeline')
    sysm = self.sys

    def obs(st):
      return (st.x.pos, st.x.rot, st.xd.ang, st.xd.vel, st.q, st.qd)

    def f(grav, q, qd, ctrl):
      # every native pipeline reads gravity from `sys.gravity` only (spring/pipeline.py,
      # positional/pipeline.py, generalized/dynamics.py)
      s = sysm.replace(gravity=grav)
      st = P.init(s, q, qd)

      def body(st, _):
        st2 = P.step(s, st, ctrl)
        return st2, obs(st2)

      _, tr = jax.lax.scan(body, st, None, length=nsteps)
      x, xd = kinematics.forward(s, q, qd)
      return obs(st), tr, (x.pos, x.rot, xd.ang, xd.vel)

    self._fn[key] = jax.jit(f)
    self.compiles += 1
    COMPILES[0] += 1
    return self._fn[key]

  def run(self, pipe, nsteps, grav, q, qd, ctrl):
    """observed trajectory: dict field -> array with leading axis nsteps+1 (0 = after init);
    plus `kin` = kinematics.forward(sys, q, qd) as an (n, 13) array"""
    import jax.numpy as jp
    o0, tr, kin = self.fn(pipe, nsteps)(jp.asarray(grav), jp.asarray(q), jp.asarray(qd), jp.asarray(ctrl))
    out = {}
    for k, a, b in zip(FIELDS, o0, tr):
      out[k] = np.concatenate([np.asarray(a)[None], np.asarray(b)], axis=0).astype(np.float64)
    out['kin'] = np.concatenate([np.asarray(v) for v in kin], axis=1).astype(np.float64)
    return out


def runner(xml):
  if xml not in _RUNNERS:
    if len(_RUNNERS) > 12:
      _RUNNERS.pop(next(iter(_RUNNERS)))
    _RUNNERS[xml] = Runner(xml)
  return _RUNNERS[xml]


# ----------------------------------------------------------------------------- the three observations
# every evaluator takes a `case` (plain JSON data, what a replay stores) and returns
# (failure | None, info) ; failure = dict(key, what, ...details)


def eval_transform(case):
  r = runner(case['xml'])
  q, qd, ctrl, g = (np.array(case[k], dtype=np.float64) for k in ('q', 'qd', 'ctrl', 'g'))
  pipe, n = case['pipeline'], case['nsteps']
  qg, qdg = xform_q(r.types, q, qd, g)
  o = r.run(pipe, n, r.gravity, q, qd, ctrl)
  og = r.run(pipe, n, qrot(r.gravity, g[3:]), qg, qdg, ctrl)
  exp = xform_obs(r.types, o, g)
  mis, div, worst = compare(r.types, exp, og, TOL_STEP, TOL_STEP, case.get('compare_steps'))
  info = dict(diverged=div is not None, worst=worst, types=r.types, o=o, og=og, qg=qg, qdg=qdg)
  # kinematics on the implementation: forward(q_g) = g o forward(q)
  kin, king = o['kin'], og['kin']
  ekin = np.concatenate([g[:3] + qrot(kin[:, :3], g[3:]), qmul(g[3:], kin[:, 3:7]),
                         qrot(kin[:, 7:10], g[3:]), qrot(kin[:, 10:13], g[3:])], axis=1)
  s = np.sign(np.sum(ekin[:, 3:7] * king[:, 3:7], axis=1, keepdims=True))
  king2 = king.copy(); king2[:, 3:7] *= np.where(s == 0, 1.0, s)
  if not np.allclose(ekin, king2, atol=TOL_KIN * (1 + np.abs(ekin).max()), rtol=0):
    i = int(np.argmax(np.abs(ekin - king2).max(axis=1)))
    return dict(key='transform:kinematics',
                what=f'kinematics.forward on the transformed coordinates differs from g o forward at link {i} '
                     f'({r.types}): expected {ekin[i].tolist()} got {king2[i].tolist()}', link=i), info
  if mis is not None:
    what = (f'{pipe}: stepping the transformed scene differs from transforming the stepped scene at step '
            f'{mis["step"]}, field {mis["field"]}{mis["index"]}: expected {mis["expected"]!r} got {mis["got"]!r} '
            f'(|err| {mis["err"]:.3e}, allowed {mis["tol"] * mis["scale"]:.1e}); link_types {r.types}')
    return dict(key=f'transform:{pipe}', what=what, mismatch=mis), info
  return None, info


def eval_perm(case):
  r, rp = runner(case['xml']), runner(case['xml_perm'])
  order = [int(k) for k in case['order']]
  q, qd, ctrl = (np.array(case[k], dtype=np.float64) for k in ('q', 'qd', 'ctrl'))
  pipe, n = case['pipeline'], case['nsteps']
  if [r.types[k] for k in order] != list(rp.types) or \
     [(-1 if r.parents[k] < 0 else order.index(r.parents[k])) for k in order] != rp.parents:
    raise RuntimeError('permuted document does not have the permuted tree')
  o = r.run(pipe, n, r.gravity, q, qd, ctrl)
  exp = perm_obs(r.types, order, o)
  op = rp.run(pipe, n, rp.gravity, exp['q'][0], exp['qd'][0], ctrl)
  mis, div, worst = compare(rp.types, exp, op, TOL_KIN, TOL_STEP, case.get('compare_steps'))
  info = dict(diverged=div is not None, worst=worst, types=r.types)
  kin = o['kin'][order]
  if not np.allclose(kin, op['kin'], atol=TOL_KIN * (1 + np.abs(kin).max()), rtol=0):
    i = int(np.argmax(np.abs(kin - op['kin']).max(axis=1)))
    return dict(key='perm:kinematics', what=f'kinematics.forward of the document with permuted siblings is not '
                f'the permuted result at new link {i} (old {order[i]}), link_types {r.types}', link=i), info
  if mis is not None:
    what = (f'{pipe}: document with permuted siblings (order {order}) does not give the permuted per-link results '
            f'at step {mis["step"]}, field {mis["field"]}{mis["index"]}: expected {mis["expected"]!r} got '
            f'{mis["got"]!r} (|err| {mis["err"]:.3e}); link_types {r.types}')
    return dict(key=f'perm:{pipe}', what=what, mismatch=mis), info
  return None, info


def limit_active(r, o, upto):
  """does some joint coordinate violate its limit at a step < upto (the states the constraint
  solver of the compared steps saw)?"""
  if r.sys.dof.limit is None:
    return False
  lo, hi = (np.asarray(v, dtype=np.float64) for v in r.sys.dof.limit)
  for t, (a, wq, b, wv) in zip(r.types, link_slices(r.types)):
    if t == 'f':
      continue
    q = o['q'][:max(1, upto), a:a + wq]
    if np.any(q < lo[b:b + wv]) or np.any(q > hi[b:b + wv]):
      return True
  return False


def eval_merge(case):
  ra, rb, rab = runner(case['xml_a']), runner(case['xml_b']), runner(case['xml_ab'])
  pipe, n = case['pipeline'], case['nsteps']
  A = lambda k: np.array(case[k], dtype=np.float64)
  if rab.types != ra.types + rb.types or \
     rab.parents != ra.parents + [p if p < 0 else p + len(ra.types) for p in rb.parents] or rab.nu != ra.nu + rb.nu:
    raise RuntimeError('merged document is not the disjoint union of the parts')
  oa = ra.run(pipe, n, ra.gravity, A('q_a'), A('qd_a'), A('ctrl_a'))
  ob = rb.run(pipe, n, rb.gravity, A('q_b'), A('qd_b'), A('ctrl_b'))
  oab = rab.run(pipe, n, rab.gravity, np.concatenate([A('q_a'), A('q_b')]),
                np.concatenate([A('qd_a'), A('qd_b')]), np.concatenate([A('ctrl_a'), A('ctrl_b')]))
  exp = cat_obs(oa, ob)
  mis, div, worst = compare(rab.types, exp, oab, TOL_KIN, TOL_MERGE[pipe], case.get('compare_steps'))
  info = dict(diverged=div is not None, worst=worst, types=rab.types)
  if mis is not None:
    part = 'A' if (mis['index'][0] < (len(ra.types) if mis['field'] in ('pos', 'rot', 'ang', 'vel') else
                                      (oa['q'].shape[-1] if mis['field'] == 'q' else oa['qd'].shape[-1]))) else 'B'
    what = (f'{pipe}: part {part} of a merged document does not evolve as alone at step {mis["step"]}, field '
            f'{mis["field"]}{mis["index"]}: alone {mis["expected"]!r} merged {mis["got"]!r} (|err| {mis["err"]:.3e}); '
            f'link_types {ra.types}+{rb.types}, limits: A {ra.sys.dof.limit is not None} B {rb.sys.dof.limit is not None}')
    la, lb = ra.sys.dof.limit is not None, rb.sys.dof.limit is not None
    key = f'merge:{pipe}'
    if la != lb and pipe == 'positional':
      # circumstance of defect D4 (positional/joints.py pad_x_dof, fixed in 0130879): a part without
      # any joint limit (`dof.limit is None`) merged with a part that has one
      key = 'merge:positional:limit-none-part'
    elif (pipe == 'generalized' and mis['step'] >= 1 and not mis.get('nonfinite')
          and limit_active(ra, oa, mis['step']) and limit_active(rb, ob, mis['step'])):
      # circumstance of finding F-C05-1: constraint.force solves ONE truncated projected-gradient
      # problem over the limit constraints of all parts (global step size and stopping rule)
      key = 'merge:generalized:limits-active-in-both-parts'
    return dict(key=key, what=what, mismatch=mis), info
  return None, info


DEADZONE_XML = '''<mujoco><compiler angle="radian" autolimits="false"/><option timestep="0.01" gravity="0 0 0"/>
<worldbody><body name="a" pos="0 0 1"><freejoint/><geom type="sphere" size="0.1" mass="1" contype="0" conaffinity="0"/>
<body name="b" pos="0.5 0 0"><joint type="hinge" axis="0 0 1" pos="0 0 0" limited="false"/>
<geom type="sphere" size="0.1" mass="1" contype="0" conaffinity="0"/></body></body></worldbody></mujoco>'''


def eval_state_transform(case):
  """state-level transform clause on the positional pipeline: a well-shaped state at rest whose child link is
  displaced from its joint by `eps` (so that the world-frame joint displacement has length |eps|), stepped once in the
  original frame and in the frame transformed by g (rotation about z by `angle`, translation `t`).  Listed finding:
  for 1e-8 < |eps| < sqrt(3)*1e-8 `math.safe_norm`'s coordinate-wise zero test (a cube, not a ball) suppresses the
  joint correction in one frame and not in the other."""
  _setup()
  import jax.numpy as jp
  from brax import kinematics, math as bmath
  from brax.base import Transform, Motion
  from brax.io import mjcf
  from brax.positional import pipeline
  sysm = mjcf.loads(case.get('xml', DEADZONE_XML))
  eps = jp.asarray(case['eps'], dtype=jp.float64)
  ang, t = float(case['angle']), jp.asarray(case['t'], dtype=jp.float64)
  grot = jp.array([np.cos(ang / 2), 0.0, 0.0, np.sin(ang / 2)])
  st = pipeline.init(sysm, sysm.init_q, jp.zeros(sysm.qd_size()))
  def rebuild(st, x, xd, x_i, xd_i):
    j, jd, a_p, a_c = kinematics.world_to_joint(sysm, x, xd)
    return st.replace(x=x, xd=xd, x_i=x_i, xd_i=xd_i, j=j, jd=jd, a_p=a_p, a_c=a_c)
  shift = jp.zeros((2, 3)).at[1].set(eps)
  st0 = rebuild(st, st.x.replace(pos=st.x.pos + shift), st.xd, st.x_i.replace(pos=st.x_i.pos + shift), st.xd_i)
  def act(x):
    return Transform(pos=t + jp.stack([bmath.rotate(p, grot) for p in x.pos]),
                     rot=jp.stack([bmath.quat_mul(grot, r) for r in x.rot]))
  def actm(m):
    return Motion(ang=jp.stack([bmath.rotate(a, grot) for a in m.ang]), vel=jp.stack([bmath.rotate(v, grot) for v in m.vel]))
  stg = rebuild(st0, act(st0.x), actm(st0.xd), act(st0.x_i), actm(st0.xd_i))
  s1 = pipeline.step(sysm, st0, jp.zeros(0))
  s1g = pipeline.step(sysm, stg, jp.zeros(0))
  exp_x, exp_xd = act(s1.x), actm(s1.xd)
  err = dict(x_pos=float(jp.abs(exp_x.pos - s1g.x.pos).max()), xd_ang=float(jp.abs(exp_xd.ang - s1g.xd.ang).max()),
             xd_vel=float(jp.abs(exp_xd.vel - s1g.xd.vel).max()))
  worst = max(err.values())
  info = dict(worst=worst, err=err)
  if worst > 1e-7:
    n_eps = float(np.linalg.norm(np.asarray(case['eps'], dtype=float)))
    in_shell = 1e-8 < n_eps <= np.sqrt(3) * 1e-8 * (1 + 1e-9)
    return dict(key='transform:positional:safe-norm-dead-zone' if in_shell else 'transform:positional:state',
                what=f'positional: stepping the transformed STATE differs from transforming the stepped state (joint displaced '
                     f'by eps={list(case["eps"])}): errors {err}', err=err), info
  return None, info


EVAL = dict(transform=eval_transform, perm=eval_perm, merge=eval_merge, state_transform=eval_state_transform)


# ----------------------------------------------------------------------------- shrinking


def _doc_state(doc, q, qd, ctrl):
  """split state vectors per body / actuator for structural edits"""
  types = doc_types(doc)
  sl = link_slices(types)
  return ([list(q[a:a + w]) for a, w, _, _ in sl], [list(qd[b:b + w]) for _, _, b, w in sl], list(ctrl))


def _shrink_variants(doc, q, qd, ctrl):
  """smaller variants of (doc, state): drop a leaf body, drop the last joint of a stack, drop an
  actuator, strip optional joint attributes, drop extra geoms"""
  bodies, acts = doc['bodies'], doc['acts']
  qs, qds, cs = _doc_state(doc, q, qd, ctrl)
  flat = lambda xs: [v for x in xs for v in x]
  n = len(bodies)
  for i in reversed(range(n)):
    if children_of(bodies, i) or n == 1:
      continue
    jn = {jt['name'] for jt in bodies[i]['joints']}
    keep = [k for k in range(n) if k != i]
    nb = [dict(bodies[k], parent=(bodies[k]['parent'] - (1 if bodies[k]['parent'] > i else 0))) for k in keep]
    ka = [a for a, ad in enumerate(acts) if ad['joint'] not in jn]
    yield (dict(bodies=nb, acts=[acts[a] for a in ka]), flat([qs[k] for k in keep]), flat([qds[k] for k in keep]),
           [cs[a] for a in ka], f'drop body {i}')
  for a in range(len(acts)):
    yield (dict(bodies=bodies, acts=acts[:a] + acts[a + 1:]), flat(qs), flat(qds), cs[:a] + cs[a + 1:], f'drop actuator {a}')
  for i in range(n):
    b = bodies[i]
    if len(b['joints']) > 1:
      last = b['joints'][-1]['name']
      ka = [a for a, ad in enumerate(acts) if ad['joint'] != last]
      nb = list(bodies); nb[i] = dict(b, joints=b['joints'][:-1])
      q2 = list(qs); q2[i] = qs[i][:-1]
      v2 = list(qds); v2[i] = qds[i][:-1]
      yield (dict(bodies=nb, acts=[acts[a] for a in ka]), flat(q2), flat(v2), [cs[a] for a in ka], f'drop last joint of body {i}')
  for i in range(n):
    b = bodies[i]
    for d, jt in enumerate(b['joints']):
      for attr in ('range', 'stiffness', 'damping', 'armature'):
        if attr in jt:
          nj = list(b['joints']); nj[d] = {k: v for k, v in jt.items() if k != attr}
          nb = list(bodies); nb[i] = dict(b, joints=nj)
          yield (dict(bodies=nb, acts=acts), flat(qs), flat(qds), cs, f'strip {attr} of {jt["name"]}')
    if len(b['geoms']) > 1:
      nb = list(bodies); nb[i] = dict(b, geoms=b['geoms'][:1])
      yield (dict(bodies=nb, acts=acts), flat(qs), flat(qds), cs, f'one geom on body {i}')


def _build(kind, pipe, nsteps, opts, docs, states, extra):
  """assemble an evaluable case from documents (meta level) and states"""
  case = dict(clause=kind, pipeline=pipe, nsteps=nsteps, opts=jsonable(opts), docs=jsonable(docs))
  if extra.get('compare_steps') is not None:
    case['compare_steps'] = int(extra['compare_steps'])
  if kind == 'merge':
    (qa, qda, ca), (qb, qdb, cb) = states
    xa, xb = doc_xml(docs[0], opts), doc_xml(docs[1], opts)
    case.update(xml_a=xa, xml_b=xb, xml_ab=merge_xml(xa, xb), q_a=list(qa), qd_a=list(qda), ctrl_a=list(ca),
                q_b=list(qb), qd_b=list(qdb), ctrl_b=list(cb))
  else:
    (q, qd, c), = states
    case.update(xml=doc_xml(docs[0], opts), q=list(q), qd=list(qd), ctrl=list(c))
    if kind == 'transform':
      case['g'] = list(extra['g'])
    else:
      case['order'] = list(extra['order'])
      case['xml_perm'] = doc_xml(apply_order(docs[0], extra['order']), opts)
  return jsonable(case)


def shrink(case, failure, budget_s=45.0):
  """greedy structural shrinking of a failing case (same failure key required)"""
  t0 = time.time()
  key = failure['key']
  if 'mismatch' in failure:
    case = dict(case, nsteps=max(1, failure['mismatch']['step']))
  kind, pipe, opts = case['clause'], case['pipeline'], case['opts']
  docs = copy.deepcopy(case['docs'])
  if kind == 'merge':
    states = [(case['q_a'], case['qd_a'], case['ctrl_a']), (case['q_b'], case['qd_b'], case['ctrl_b'])]
  else:
    states = [(case['q'], case['qd'], case['ctrl'])]
  extra = {k: case[k] for k in ('g', 'order') if k in case}
  best, best_f = case, failure
  progress = True
  while progress and time.time() - t0 < budget_s:
    progress = False
    for di in range(len(docs)):
      for nd, q, qd, c, _ in _shrink_variants(docs[di], *states[di]):
        if time.time() - t0 > budget_s:
          break
        ex = dict(extra)
        if kind == 'perm':
          # a permutation of the smaller forest: keep relative order of the survivors where possible
          res = permute_doc(nd, np.random.default_rng(0))
          if res is None or len(nd['bodies']) < 3:
            continue
          ex['order'] = res[1]
        docs2 = list(docs); docs2[di] = nd
        st2 = list(states); st2[di] = (q, qd, c)
        try:
          cand = _build(kind, pipe, best['nsteps'], opts, docs2, st2, ex)
          f, _ = EVAL[kind](cand)
        except Exception:   # an edit that makes the document invalid is simply not taken
          continue
        if f is not None and f['key'] == key:
          docs, states, extra, best, best_f = docs2, st2, ex, cand, f
          progress = True
          break
  return best, best_f


# ----------------------------------------------------------------------------- work units


def gen_pair(seed, salt, pair, n_states):
  """two free-rooted generator documents with common options, states, controls, transforms"""
  rng = np.random.default_rng([seed, salt, pair])
  opts = dict(BASE_OPTS)
  u = rng.random()
  if u < 0.25:    # arbitrary gravity vector (the property rotates it anyway)
    opts['gravity'] = tuple(float(v) for v in modelgen.rand_unit_vec(rng) * rng.uniform(1, 15))
  elif u < 0.32:
    opts['gravity'] = (0.0, 0.0, 0.0)
  docs = []
  for _ in range(2):
    _, meta = modelgen.gen_model(rng, **opts)
    docs.append(dict(bodies=meta['bodies'], acts=meta['acts']))
  return rng, opts, docs


def unit(args):
  """all observations of one (pair of models, pipeline); runs in a worker process"""
  seed, salt, pair, pipe, nsteps, n_states, repo = args
  if repo not in sys.path[:1]:
    sys.path.insert(0, repo)
  t0, c0 = time.time(), COMPILES[0]
  rng, opts, docs = gen_pair(seed, salt, pair, n_states)
  res = dict(pair=pair, pipe=pipe, failures=[], lean=[], stats=dict(
      evals=0, diverged=dict(transform=0, perm=0, merge=0), cases=dict(transform=0, perm=0, merge=0),
      perm_skipped_small=0, perm_skipped_no_siblings=0, types=[], shapes=[], worst=dict(transform=0.0, perm=0.0, merge=0.0),
      limits=[]))
  st = res['stats']
  xmls = [doc_xml(d, opts) for d in docs]
  rs = [runner(x) for x in xmls]
  states = []
  for di, (doc, r) in enumerate(zip(docs, rs)):
    if r.types != doc_types(doc):
      raise RuntimeError(f'loader link_types {r.types} differ from the generator {doc_types(doc)}')
    st['types'].append(r.types); st['shapes'].append((r.types, tuple(r.parents)))
    st['limits'].append(r.sys.dof.limit is not None)
    per = []
    for si in range(n_states):
      q, qd = modelgen.rand_state(rng, r.sys)
      ctrl = rng.uniform(-1, 1, size=r.nu)
      g = rand_g(rng)
      per.append((q, qd, ctrl, g))
    states.append(per)
    prm = permute_doc(doc, rng)
    # ---- (b) rigid transform
    for si, (q, qd, ctrl, g) in enumerate(per):
      case = _build('transform', pipe, nsteps, opts, [doc], [(q, qd, ctrl)], dict(g=g))
      f, info = eval_transform(case)
      st['evals'] += 1; st['cases']['transform'] += 1
      st['diverged']['transform'] += int(info['diverged']); st['worst']['transform'] = max(st['worst']['transform'], info['worst'])
      if f is not None:
        res['failures'].append((case, f))
      if pipe == 'spring':
        # ---- (a) model <-> implementation on transformed inputs (lines for the Lean driver)
        toks = wire.sys_tokens(r.sys) + wire.vec_tokens(q) + wire.vec_tokens(qd) + wire.toks(g)
        res['lean'].append(dict(tokens=' '.join(toks), types=r.types, xml=xmls[di], q=q.tolist(), qd=qd.tolist(),
                                g=g.tolist(), real_g=info['og']['kin'].tolist(), real=info['o']['kin'].tolist(),
                                qg=np.concatenate([info['qg'], info['qdg']]).tolist()))
    # ---- (c) sibling order
    if len(doc['bodies']) < 3:
      st['perm_skipped_small'] += 1
    elif prm is None:
      st['perm_skipped_no_siblings'] += 1
    else:
      q, qd, ctrl, _ = per[0]
      case = _build('perm', pipe, nsteps, opts, [doc], [(q, qd, ctrl)], dict(order=prm[1], compare_steps=min(nsteps, 3)))
      f, info = eval_perm(case)
      st['evals'] += 1; st['cases']['perm'] += 1
      st['diverged']['perm'] += int(info['diverged']); st['worst']['perm'] = max(st['worst']['perm'], info['worst'])
      if f is not None:
        res['failures'].append((case, f))
  # ---- (d) components
  (qa, qda, ca, _), (qb, qdb, cb, _) = states[0][-1], states[1][-1]
  case = _build('merge', pipe, nsteps, opts, docs, [(qa, qda, ca), (qb, qdb, cb)], dict(compare_steps=min(nsteps, 3)))
  f, info = eval_merge(case)
  st['evals'] += 1; st['cases']['merge'] += 1
  st['diverged']['merge'] += int(info['diverged']); st['worst']['merge'] = max(st['worst']['merge'], info['worst'])
  if f is not None:
    res['failures'].append((case, f))
  st['compiles'] = COMPILES[0] - c0
  st['wall'] = time.time() - t0
  return res


def n_jobs():
  if os.environ.get('VERIF_JOBS'):
    return max(1, int(os.environ['VERIF_JOBS']))
  return max(1, min(12, (os.cpu_count() or 2) * 3 // 4))


def run_units(ctx, salt, n_pairs, nsteps, n_states, deadline=None):
  """run all (pair, pipeline) units; units not yet started when `deadline` passes are skipped
  (their number is recorded in ctx.notes and in the evidence)"""
  import concurrent.futures as cf
  import multiprocessing as mp
  tasks = [(ctx.seed, salt, p, pipe, nsteps, n_states, ctx.repo) for p in range(n_pairs) for pipe in PIPES]
  out, skipped = [], 0
  jobs = n_jobs()
  if jobs == 1:
    for t in tasks:
      if deadline is not None and time.time() > deadline:
        skipped += 1
        continue
      out.append(unit(t))
  else:
    with cf.ProcessPoolExecutor(max_workers=jobs, mp_context=mp.get_context('spawn')) as ex:
      futs = [ex.submit(unit, t) for t in tasks]
      for f in futs:
        if deadline is not None and time.time() > deadline and f.cancel():
          skipped += 1
          continue
        out.append(f.result())      # a worker exception is an internal error: propagate
  if skipped:
    ctx.notes.append(f'C05: {skipped} of {len(tasks)} units skipped at the time limit (salt {salt})')
  SKIPPED[salt] = skipped
  return out


SKIPPED = {}


def collect(ctx, units, shrink_budget=45.0, max_shrunk=3):
  """merge unit results; shrink the first failure of each key"""
  fails, seen = [], {}
  for u in units:
    for case, f in u['failures']:
      seen.setdefault(f['key'], []).append((case, f))
  known = {e['key'] for e in C.load_known('C05') if e.get('kind') == 'known'}
  shrunk = 0
  for key, lst in sorted(seen.items()):
    case, f = lst[0]
    if key not in known and shrunk < max_shrunk:    # a listed finding already has its minimised witness
      case, f = shrink(case, f, shrink_budget)
      shrunk += 1
    rp = dict(case)
    rp.pop('docs', None)
    fails.append(dict(key=key, what=f['what'], occurrences=len(lst), **rp))
  return fails


def lean_leg(units):
  """(a): real kinematics.forward on transformed coordinates vs Lean `fwdx`; harness transform vs Lean
  `xform`; Lean `fwdx` vs Lean `gfwd` (both sides of forward_equivariant on the model)"""
  rows = [row for u in units for row in u['lean']]
  lines = []
  for row in rows:
    for op in ('fwdx', 'gfwd', 'xform'):
      lines.append(op + ' ' + row['tokens'])
  if not lines:
    return 0, []
  out = C.run_driver('Driver/C05.lean', lines)
  if len(out) != len(lines):
    raise RuntimeError(f'driver answered {len(out)} lines for {len(lines)}')
  dis = []

  def close(a, b, tol):
    a, b = np.array(a), np.array(b)
    s = np.sign(np.sum(a[:, 3:7] * b[:, 3:7], axis=1, keepdims=True))
    b = b.copy(); b[:, 3:7] *= np.where(s == 0, 1.0, s)
    return np.allclose(a, b, atol=tol * (1 + np.abs(a).max()), rtol=0)

  for k, row in enumerate(rows):
    o = out[3 * k:3 * k + 3]
    if any(x.startswith('bad') for x in o):
      dis.append(dict(what=f'driver rejected a case: {[x[:12] for x in o]}', xml=row['xml'])); continue
    n = len(row['types'])
    fwdx = np.array([wire.parse(t) for t in o[0].split()]).reshape(n, 13)
    gfwd = np.array([wire.parse(t) for t in o[1].split()]).reshape(n, 13)
    xf = np.array([wire.parse(t) for t in o[2].split()])
    base = dict(xml=row['xml'], q=row['q'], qd=row['qd'], g=row['g'])
    if xf.shape != np.array(row['qg']).shape or not np.allclose(xf, row['qg'], atol=1e-12, rtol=1e-12):
      dis.append(dict(what=f'the transform of the coordinates (Lean C05M.xformState) differs from the harness transform, {row["types"]}',
                      lean=xf.tolist(), harness=row['qg'], **base)); continue
    if not close(row['real_g'], fwdx, TOL_KIN):
      dis.append(dict(what=f'Kin.forward on transformed coordinates (Lean fwdx) differs from kinematics.forward, {row["types"]}',
                      lean=fwdx.tolist(), real=row['real_g'], **base)); continue
    if not close(gfwd, fwdx, TOL_KIN):
      dis.append(dict(what=f'Lean model: forwardX differs from g o forward numerically (reading of forward_equivariant), {row["types"]}',
                      fwdx=fwdx.tolist(), gfwd=gfwd.tolist(), **base)); continue
  return len(lines), dis


def summarise(units):
  tot = dict(evals=0, compiles=0, diverged=dict(transform=0, perm=0, merge=0), cases=dict(transform=0, perm=0, merge=0),
             worst_over_tol=dict(transform=0.0, perm=0.0, merge=0.0), perm_skipped_small=0, perm_skipped_no_siblings=0)
  hist, shapes, per_pipe = {}, set(), {p: dict(cases=0, diverged=0) for p in PIPES}
  limits = {'with_limits': 0, 'without_limits': 0}
  for u in units:
    s = u['stats']
    tot['evals'] += s['evals']; tot['compiles'] += s['compiles']
    for k in ('transform', 'perm', 'merge'):
      tot['diverged'][k] += s['diverged'][k]; tot['cases'][k] += s['cases'][k]
      tot['worst_over_tol'][k] = max(tot['worst_over_tol'][k], s['worst'][k])
    per_pipe[u['pipe']]['cases'] += sum(s['cases'].values())
    per_pipe[u['pipe']]['diverged'] += sum(s['diverged'].values())
    if u['pipe'] == 'spring':
      tot['perm_skipped_small'] += s['perm_skipped_small']
      tot['perm_skipped_no_siblings'] += s['perm_skipped_no_siblings']
      for t in s['types']:
        hist[t] = hist.get(t, 0) + 1
      for sh in s['shapes']:
        shapes.add((sh[0], tuple(sh[1])))
      for l in s['limits']:
        limits['with_limits' if l else 'without_limits'] += 1
  return tot, hist, shapes, per_pipe, limits


# ----------------------------------------------------------------------------- check.py API


def prepare(ctx):
  """the driver imports Brax.Model.C05, which no Props file imports: build it here"""
  ok, log = C.lake_build(['Brax.Model.C05'], os.path.join(ctx.work, 'lake-model.log'))
  if not ok:
    raise RuntimeError('Brax.Model.C05 does not build:\n' + log[-2000:])
  return {}


def correspond(ctx):
  n_pairs = ctx.budget(4, 75)
  nsteps = ctx.budget(2, 5)
  n_states = ctx.budget(1, 2)
  units = run_units(ctx, 0, n_pairs, nsteps, n_states, deadline=time.time() + ctx.budget(140.0, 960.0))
  n_lines, dis = lean_leg(units)
  # the sibling-order and components theorems are statements about the scans: Layer B (scan.tree both directions,
  # scan.link_types, and their grouped transcriptions) is tied here too — every forest of <= 6 links, exact integers
  import corr_C01
  n_b, dis_b = corr_C01.layer_b(ctx, ctx.budget(4, 60))
  n_lines += n_b; dis += dis_b
  fails = collect(ctx, units, shrink_budget=ctx.budget(40.0, 120.0))
  # state-level transform clause on the positional pipeline (hand-built well-shaped states: a joint displaced by eps),
  # OUTSIDE the dead zone of math.safe_norm (the shell 1e-8 .. sqrt(3)e-8 is the listed finding, re-run below)
  rng_s = np.random.default_rng(ctx.seed + 4242)
  for k in range(ctx.budget(2, 10)):
    mag = 10.0 ** rng_s.uniform(-6.5, -3)
    d = rng_s.normal(size=3); d = d / np.linalg.norm(d) * mag
    case = dict(clause='state_transform', pipeline='positional', eps=d.tolist(),
                angle=float(rng_s.uniform(0.2, 3.0)), t=rng_s.uniform(-3, 3, size=3).tolist())
    f, _ = eval_state_transform(case)
    if f is not None:
      f.update(case); f['occurrences'] = 1
      fails.append(f)
  tot, hist, shapes, per_pipe, limits = summarise(units)
  n_models = sum(hist.values())
  first = next((row for u in units for row in u['lean']), None)
  sample = None if first is None else dict(link_types=first['types'], q=first['q'][:8], g=first['g'])
  return dict(
      evaluations=tot['evals'] + n_lines, distinct_nontrivial=len(shapes),
      rule=f'{n_models} free-rooted contact-free generator forests (1-6 links, stacks 1-3, limits, actuators, random '
           f'gravity in a third of the pairs) x {n_states} state(s)/control(s)/uniform random rigid transform(s) x '
           f'{{generalized with exact inverse, spring, positional}}: init + {nsteps} steps of the transformed scene vs the '
           'transformed trajectory (1e-7 relative, |qd|>1e4 counted not compared); every model with >= 3 bodies and two '
           'siblings somewhere also with the siblings permuted at every level; every pair also merged into one document; '
           'kinematics on transformed coordinates vs the Lean model (1e-9). distinct = distinct (link_types, parents)',
      samples=[sample] if sample else [], disagreements=dis, spec_failures=fails,
      trusted_base=['correspondence harness corr_C05.py (sampled inputs, float64)',
                    'full pipeline.step equivariance / permutation / component independence are OBSERVED on the '
                    'implementation, not proved; proved: kinematics equivariance and the two scan-level theorems',
                    'scan.tree: level-grouped code transcribed and proved equal to the recursion (Layer B stage 2, Props/C01.scanTree_levels_eq_recursion); transcription tied exhaustively in the C01 check',
                    'mujoco XML compiler, mjcf.load_model array extraction, jax.jit / lax.scan'],
      assumptions=['IEEE round-off not modelled; theorems over the reals',
                   'generalized pipeline run with matrix_inv_iterations = 0 (exact inverse) as the property states'],
      explanation='Kin.forward tied to kinematics.forward on transformed coordinates; the property observation itself '
                  '(transform, sibling order, merged components) evaluated on all three pipelines',
      extra=dict(link_type_histogram=hist, cases=tot['cases'], diverged_trajectories=tot['diverged'],
                 per_pipeline=per_pipe, worst_error_over_tolerance=tot['worst_over_tol'], jit_compiles=tot['compiles'],
                 perm_skipped_fewer_than_3_bodies=tot['perm_skipped_small'],
                 perm_skipped_no_siblings=tot['perm_skipped_no_siblings'], models_limits=limits,
                 lean_lines=n_lines, workers=n_jobs(), units_run=len(units), units_skipped_time_limit=SKIPPED.get(0, 0),
                 failures_by_key={f['key']: f['occurrences'] for f in fails}))


def search(ctx, broken, corr):
  """the property's own observation (b, c, d) with a larger budget and fresh models"""
  t_budget = ctx.budget(60.0, 600.0)
  n_pairs = ctx.budget(6, 60)
  units = run_units(ctx, 1, n_pairs, ctx.budget(2, 5), 1, deadline=time.time() + t_budget)
  return collect(ctx, units, shrink_budget=ctx.budget(20.0, 120.0))


def replay(ctx, rp):
  if rp.get('kind') != 'failing-input' or rp.get('clause') not in EVAL:
    return True, f'replay names broken obligations only: {rp.get("broken")}'
  f, info = EVAL[rp['clause']](rp)
  if f is None:
    return True, f'{rp["clause"]} / {rp["pipeline"]}: agrees now (worst error / tolerance {info["worst"]:.3g})'
  return False, f['what']


def reproduce_known(ctx, entry):
  """re-run the stored case of a listed finding on the current tree: does it still fail with the
  same key?"""
  if entry.get('clause') not in EVAL:
    return True
  f, _ = EVAL[entry['clause']](entry)
  return f is not None and f['key'] == entry['key']
