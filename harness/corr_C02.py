"""C02 — generalized-pipeline dynamics terms equal the reference engine.

Triangle (DESIGN.md 2.2):
  * leg A  implementation <-> Lean Model (`Brax.Gd.*`, Driver/C02.lean `dyn`): every stage of
    `pipeline.init` / `dynamics.inverse|_passive|forward` / `actuator.to_tau` / `pipeline.step`
    in float mode (1e-9), plus exact-lattice mode for the polynomial stages (`mass.matrix`,
    `dynamics.inverse`, `_passive`/`forward`) on small-integer inputs and the Layer-B tie of the
    additive reverse scan;
  * leg B  Lean Spec (`Brax.MjD.*`, `mjdyn`) <-> real MuJoCo (`MjData` fields, `mj_step`);
  * the property's own observation (real brax vs real MuJoCo) runs on every case and feeds
    `spec_failures` / `search`.
"""
from __future__ import annotations

import os
import sys

import numpy as np

HERE = os.path.dirname(os.path.abspath(__file__))
sys.path.insert(0, HERE)
import check as C  # noqa: E402
import modelgen  # noqa: E402
import wire  # noqa: E402

TOL = 1e-9          # model <-> implementation, float stages without a linear solve
TOL_SOLVE = 1e-7    # stages behind the linear solve (relative to the scale of the result)
TOL_MJ = 1e-8       # against MuJoCo
D2_KEY = 'transform_com:cdof.vel-not-rotated'


def _setup():
  import jax
  jax.config.update('jax_enable_x64', True)


# ----------------------------------------------------------------------------- real brax


def real_fn(sysm):
  """one jitted function computing every observed quantity of the generalized pipeline"""
  import jax
  import jax.numpy as jp
  from brax import actuator
  from brax.generalized import dynamics, pipeline

  def f(q, qd, act):
    st = pipeline.init(sysm, q, qd)
    bias = dynamics.inverse(sysm, st)
    pas = dynamics._passive(sysm, st)
    tau = actuator.to_tau(sysm, act, st.q, st.qd)
    qfs = dynamics.forward(sysm, st, tau)
    st2 = pipeline.step(sysm, st, act)
    return dict(
        root_com=st.root_com,
        cinr=jp.concatenate([st.cinr.transform.pos, st.cinr.i.reshape((-1, 9)), st.cinr.mass[:, None]], axis=1),
        cd=jp.concatenate([st.cd.ang, st.cd.vel], axis=1),
        cdof=jp.concatenate([st.cdof.ang, st.cdof.vel], axis=1),
        cdofd=jp.concatenate([st.cdofd.ang, st.cdofd.vel], axis=1),
        mass_mx=st.mass_mx, bias=bias, passive=pas, tau=tau, qf_smooth=qfs,
        q1=st2.q, qd1=st2.qd, qdd=st2.qdd, mass_mx1=st2.mass_mx,
        qf_constraint=st2.qf_constraint)

  return jax.jit(f)


SECTIONS = ['root_com', 'cinr', 'cd', 'cdof', 'cdofd', 'mass_mx', 'bias', 'passive', 'tau', 'qf_smooth',
            'q1', 'qd1', 'qdd', 'mass_mx1']
SOLVE_SECTIONS = {'q1', 'qd1', 'qdd', 'mass_mx1'}
MJ_SECTIONS = ['root_com', 'cinr', 'crb', 'cdof', 'cd', 'cdofd', 'mass_mx', 'bias', 'passive', 'tau', 'qf_smooth',
               'q1', 'qd1']


def parse_sections(line, names):
  parts = line.split('|')
  if len(parts) != len(names):
    raise RuntimeError(f'driver answered {len(parts)} sections, expected {len(names)}: {line[:80]}')
  return {n: np.array([wire.parse(t) for t in p.split()], dtype=np.float64) for n, p in zip(names, parts)}


# ----------------------------------------------------------------------------- real MuJoCo


def mj_all(sysm, q, qd, act):
  import mujoco
  m = sysm.mj_model
  d = mujoco.MjData(m)
  d.qpos[:] = q
  d.qvel[:] = qd
  if m.nu:
    d.ctrl[:] = act
  mujoco.mj_forward(m, d)
  M = np.zeros((m.nv, m.nv))
  mujoco.mj_fullM(m, d, M)
  root = m.body_rootid[1:]
  ci = d.cinert[1:]
  # cinert: Ixx Iyy Izz Ixy Ixz Iyz, m*off (3), m   ->  pos(3) = m*off, i(9), mass
  i9 = np.stack([ci[:, 0], ci[:, 3], ci[:, 4], ci[:, 3], ci[:, 1], ci[:, 5], ci[:, 4], ci[:, 5], ci[:, 2]], axis=1)
  cr = d.crb[1:]
  c9 = np.stack([cr[:, 0], cr[:, 3], cr[:, 4], cr[:, 3], cr[:, 1], cr[:, 5], cr[:, 4], cr[:, 5], cr[:, 2]], axis=1)
  out = dict(
      root_com=d.subtree_com[root].copy(),
      cinr=np.concatenate([ci[:, 6:9], i9, ci[:, 9:10]], axis=1),
      crb=np.concatenate([cr[:, 6:9], c9, cr[:, 9:10]], axis=1),
      cd=d.cvel[1:].copy(), cdof=d.cdof.copy(), cdofd=d.cdof_dot.copy(),
      mass_mx=M, bias=d.qfrc_bias.copy(), passive=d.qfrc_passive.copy(), tau=d.qfrc_actuator.copy(),
      qf_smooth=d.qfrc_smooth.copy(), ncon=int(d.ncon), nefc=int(d.nefc))
  mujoco.mj_step(m, d)
  out.update(q1=d.qpos.copy(), qd1=d.qvel.copy())
  return out


OBS_ORDER = ['root_com', 'cinr', 'cdof', 'cd', 'cdofd', 'mass_mx', 'bias', 'passive', 'tau', 'qf_smooth', 'qd1', 'q1']


def close(a, b, tol):
  a, b = np.asarray(a, dtype=np.float64).reshape(-1), np.asarray(b, dtype=np.float64).reshape(-1)
  if a.shape != b.shape:
    return False
  return bool(np.all(np.abs(a - b) <= tol * (1 + np.abs(b))))


def q_close(sysm, a, b, tol):
  """generalized positions: free-joint quaternions up to sign"""
  a, b = np.asarray(a, dtype=np.float64), np.asarray(b, dtype=np.float64)
  i = 0
  for t in sysm.link_types:
    if t == 'f':
      if not close(a[i:i + 3], b[i:i + 3], tol):
        return False
      if not (close(a[i + 3:i + 7], b[i + 3:i + 7], tol) or close(a[i + 3:i + 7], -b[i + 3:i + 7], tol)):
        return False
      i += 7
    else:
      k = int(t)
      if not close(a[i:i + k], b[i:i + k], tol):
        return False
      i += k
  return True


def observe(sysm, real, mj, case):
  """the property itself: real brax vs real MuJoCo.  Returns a spec_failure dict or None; the
  first deviating quantity (in data-flow order) names the key."""
  if mj['ncon'] or mj['nefc'] or np.abs(np.asarray(real['qf_constraint'])).max(initial=0.0) > 0:
    return None   # outside the clause "meets no contact or joint limit" (generator avoids it)
  for name in OBS_ORDER:
    ok = q_close(sysm, real[name], mj[name], TOL_MJ) if name == 'q1' else close(real[name], mj[name], TOL_MJ)
    if ok:
      continue
    key = f'{name}:{sysm.link_types}'
    what = f'{name} of the generalized pipeline differs from MuJoCo'
    if name == 'cdof':
      # D2 signature: angular parts agree everywhere, the first differing dof is a slide of a 1/2/3-dof link
      r, mm = np.asarray(real['cdof']), np.asarray(mj['cdof'])
      bad = [i for i in range(r.shape[0]) if not close(r[i], mm[i], TOL_MJ)]
      dl = np.asarray(sysm.dof_link())
      i0 = bad[0]
      is_slide = not np.asarray(sysm.dof.motion.ang)[i0].any() and sysm.link_types[int(dl[i0])] != 'f'
      if is_slide and close(r[:, :3], mm[:, :3], TOL_MJ):
        key = D2_KEY
        what = ('transform_com leaves cdof.vel in the joint frame: slide dof %d has cdof.vel %s, MuJoCo %s'
                % (i0, r[i0, 3:].tolist(), mm[i0, 3:].tolist()))
    return dict(key=key, what=what, quantity=name, xml=case['xml'], q=case['q'].tolist(), qd=case['qd'].tolist(),
                act=case['act'].tolist(), brax=np.asarray(real[name]).reshape(-1).tolist()[:40],
                mujoco=np.asarray(mj[name]).reshape(-1).tolist()[:40])
  return None


# ----------------------------------------------------------------------------- generator


def clamp_into_limits(sysm, q, rng):
  """keep limited joints strictly inside their range (the step clause needs inactive limits)"""
  if sysm.dof.limit is None:
    return q
  lo, hi = np.asarray(sysm.dof.limit[0]), np.asarray(sysm.dof.limit[1])
  q = q.copy()
  qi, di = 0, 0
  for t in sysm.link_types:
    if t == 'f':
      qi += 7; di += 6; continue
    for _ in range(int(t)):
      if np.isfinite(lo[di]) and np.isfinite(hi[di]):
        w = hi[di] - lo[di]
        q[qi] = rng.uniform(lo[di] + 0.1 * w, hi[di] - 0.1 * w)
      qi += 1; di += 1
  return q


def gen_cases(ctx, n_models, n_states, seed_offset=0, gen_opts=None):
  _setup()
  import jax.numpy as jp
  from brax.io import mjcf
  rng = np.random.default_rng(ctx.seed + seed_offset)
  cases = []
  for mi in range(n_models):
    opts = dict(custom={'matrix_inv_iterations': 0})
    # limit rows make the (inactive) constraint solver part of the step: keep them in a minority
    opts['limits'] = 0.3 if mi % 4 == 3 else 0.0
    if mi % 5 == 1:
      opts.update(kinds='slide')        # prismatic joints on arbitrarily rotated bodies
    if mi % 5 == 2:
      opts.update(stack=(2, 3))         # mixed stacks
    if mi % 7 == 6:
      opts.update(gravity=(0.3, -0.2, -9.81))
    if mi % 5 == 4:
      # floating base with several actuators behind it: q and qd indices of a joint differ (7 vs 6 per free joint)
      opts.update(roots='free', n_links=(2, 4), actuators=(2, 4), topology='chain')
    if mi in (0, 1) and not gen_opts:
      # history dependence within one process: the same joint layout ('111') as a chain, then as a star
      opts.update(n_links=(3, 3), stack=(1, 1), roots='world', topology=('chain', 'star')[mi])
    opts.update(gen_opts or {})
    xml, meta = modelgen.gen_model(rng, **opts)
    sysm = mjcf.loads(xml)
    fn = real_fn(sysm)
    for si in range(n_states):
      q, qd = modelgen.rand_state(rng, sysm)
      q = clamp_into_limits(sysm, q, rng)
      if si == n_states - 1 and mi % 3 == 0:
        qd = np.zeros_like(qd)          # rest state (bias = gravity only)
      act = rng.uniform(-2, 2, size=sysm.act_size())
      real = {k: np.asarray(v) for k, v in fn(jp.asarray(q), jp.asarray(qd), jp.asarray(act)).items()}
      mj = mj_all(sysm, q, qd, act)
      cases.append(dict(xml=xml, meta=meta, sys=sysm, q=q, qd=qd, act=act, real=real, mj=mj,
                        types=meta['link_types'], parents=meta['parents']))
  return cases


# ----------------------------------------------------------------------------- exact lattice


def lattice_lines(ctx, n):
  """small-integer inputs for the polynomial stages; returns (lines, expected arrays, descriptions)"""
  _setup()
  import jax
  import jax.numpy as jp
  from brax import scan
  from brax.base import Inertia, Motion, Transform
  from brax.generalized import dynamics, mass, pipeline
  from brax.io import mjcf
  rng = np.random.default_rng(ctx.seed + 77)
  lines, expect, desc = [], [], []
  I = lambda *shape: rng.integers(-4, 5, size=shape).astype(np.float64)
  for k in range(n):
    xml, meta = modelgen.gen_model(rng, limits=0.0, actuators=(0, 0), custom={'matrix_inv_iterations': 0})
    sysm = mjcf.loads(xml)
    nl, nv = sysm.num_links(), sysm.qd_size()
    st0 = jax.jit(lambda q, qd, sysm=sysm: pipeline.init(sysm, q, qd))(jp.asarray(sysm.init_q), jp.zeros(nv))
    sym = I(nl, 3, 3)
    cinr = Inertia(Transform(pos=jp.asarray(I(nl, 3)), rot=jp.asarray(I(nl, 4))), jp.asarray(sym + sym.transpose(0, 2, 1)),
                   jp.asarray(rng.integers(1, 5, size=nl).astype(np.float64)))
    cd = Motion(jp.asarray(I(nl, 3)), jp.asarray(I(nl, 3)))
    cdof = Motion(jp.asarray(I(nv, 3)), jp.asarray(I(nv, 3)))
    cdofd = Motion(jp.asarray(I(nv, 3)), jp.asarray(I(nv, 3)))
    qd = I(nv)
    arm = rng.integers(0, 4, size=nv).astype(np.float64)
    grav = I(3)
    sys2 = sysm.replace(gravity=jp.asarray(grav), dof=sysm.dof.replace(armature=jp.asarray(arm)))
    st = st0.replace(cinr=cinr, cd=cd, cdof=cdof, cdofd=cdofd, qd=jp.asarray(qd))
    mx = np.asarray(jax.jit(lambda st, s=sys2: mass.matrix(s, st))(st))
    tau = np.asarray(jax.jit(lambda st, s=sys2: dynamics.inverse(s, st))(st))
    T = lambda a: wire.toks(np.asarray(a), 'I')
    def inertia_toks(i):
      return T(cinr.transform.pos[i]) + T(cinr.transform.rot[i]) + T(cinr.i[i]) + T(cinr.mass[i])
    def motion_list(m):
      return [str(m.ang.shape[0])] + [t for i in range(m.ang.shape[0]) for t in T(m.ang[i]) + T(m.vel[i])]
    body = ([sysm.link_types, str(nl)] + [str(int(p)) for p in sysm.link_parents] + T(grav)
            + [str(nl)] + [t for i in range(nl) for t in inertia_toks(i)]
            + motion_list(cd) + motion_list(cdof) + motion_list(cdofd)
            + wire.vec_tokens(qd, 'I') + wire.vec_tokens(arm, 'I'))
    lines.append(' '.join(['lat.mass'] + body)); expect.append(mx.reshape(-1)); desc.append(('mass.matrix', xml))
    lines.append(' '.join(['lat.inv'] + body)); expect.append(tau.reshape(-1)); desc.append(('dynamics.inverse', xml))
    # _passive / forward with integer stiffness, damping, q, qd, bias, tau
    stiff = rng.integers(0, 4, size=nv).astype(np.float64)
    damp = rng.integers(0, 4, size=nv).astype(np.float64)
    sys3 = sys2.replace(dof=sys2.dof.replace(stiffness=jp.asarray(stiff), damping=jp.asarray(damp)))
    qint = I(sysm.q_size())
    tau_in = I(nv)
    st3 = st.replace(q=jp.asarray(qint))
    pas = np.asarray(jax.jit(lambda st, s=sys3: dynamics._passive(s, st))(st3))
    fwd = np.asarray(jax.jit(lambda st, t, s=sys3: dynamics.forward(s, st, t))(st3, jp.asarray(tau_in)))
    bias3 = np.asarray(jax.jit(lambda st, s=sys3: dynamics.inverse(s, st))(st3))
    lines.append(' '.join(['lat.fwd'] + wire.sys_tokens(sys3) + wire.vec_tokens(qint, 'I')
                          + wire.vec_tokens(qd, 'I') + wire.vec_tokens(bias3, 'I') + wire.vec_tokens(tau_in, 'I')))
    expect.append(np.concatenate([pas, fwd])); desc.append(('_passive/forward', xml))
    # Layer B: additive reverse scan on integers
    vals = rng.integers(1, 10 ** 6, size=nl).astype(np.float64)
    def add_fn(child, a):
      return a if child is None else a + child
    rs = np.asarray(scan.tree(sysm, add_fn, 'l', jp.asarray(vals), reverse=True))
    lines.append(' '.join(['revacc', str(nl)] + [str(int(p)) for p in sysm.link_parents] + wire.vec_tokens(vals, 'I')))
    expect.append(rs); desc.append(('scan.tree reverse (additive)', xml))
  return lines, expect, desc


def run_lattice(ctx, n):
  lines, expect, desc = lattice_lines(ctx, n)
  out = C.run_driver('Driver/C02.lean', lines)
  dis = []
  for o, e, (what, xml) in zip(out, expect, desc):
    if o.startswith('bad'):
      dis.append(dict(what=f'exact-lattice {what}: driver rejected the input ({o})', xml=xml)); continue
    got = np.array([wire.parse(t) for t in o.replace('|', ' ').split()], dtype=np.float64)
    if got.shape != e.shape or not np.array_equal(got, e):
      dis.append(dict(what=f'exact-lattice {what}: Lean model differs from the implementation (exact integers)',
                      xml=xml, lean=got.tolist()[:30], real=e.tolist()[:30]))
  return len(lines), dis


# ----------------------------------------------------------------------------- legs


def run_cases(ctx, n_models, n_states, seed_offset=0, gen_opts=None, legs=True):
  cases = gen_cases(ctx, n_models, n_states, seed_offset, gen_opts)
  spec_failures, disagreements = [], []
  hist = {}
  for c in cases:
    hist[c['types']] = hist.get(c['types'], 0) + 1
    f = observe(c['sys'], c['real'], c['mj'], c)
    if f is not None:
      spec_failures.append(f)
  if legs:
    lines = []
    for c in cases:
      args = wire.sys_tokens(c['sys']) + wire.vec_tokens(c['q']) + wire.vec_tokens(c['qd']) + wire.vec_tokens(c['act'])
      lines.append(' '.join(['dyn'] + args))
      lines.append(' '.join(['mjdyn'] + args))
    out_all = C.run_driver('Driver/C02.lean', lines)
    out, out_mj = out_all[0::2], out_all[1::2]
    # leg B: Lean Spec vs real MuJoCo
    for c, o in zip(cases, out_mj):
      if o.startswith('bad'):
        disagreements.append(dict(what=f'driver rejected a generated case (mjdyn): {o}', xml=c['xml'])); continue
      if c['mj']['ncon'] or c['mj']['nefc']:
        continue
      spec = parse_sections(o, MJ_SECTIONS)
      for name in MJ_SECTIONS:
        tol = TOL_SOLVE if name in ('q1', 'qd1') else TOL_MJ
        ok = q_close(c['sys'], spec[name], c['mj'][name], tol) if name == 'q1' else close(spec[name], c['mj'][name], tol)
        if not ok:
          a, b = spec[name].reshape(-1), np.asarray(c['mj'][name]).reshape(-1)
          k = int(np.argmax(np.abs(a - b))) if a.shape == b.shape else -1
          disagreements.append(dict(
              what=f'Spec stage {name} (Lean MjD) differs from real MuJoCo ({c["types"]})',
              xml=c['xml'], q=c['q'].tolist(), qd=c['qd'].tolist(), act=c['act'].tolist(), index=k,
              lean=(a[k] if k >= 0 else a.shape), mujoco=(b[k] if k >= 0 else b.shape)))
          break
    # leg A: Lean Model vs the implementation
    for c, o in zip(cases, out):
      if o.startswith('bad'):
        disagreements.append(dict(what=f'driver rejected a generated case: {o}', xml=c['xml'])); continue
      mod = parse_sections(o, SECTIONS)
      for name in SECTIONS:
        tol = TOL_SOLVE if name in SOLVE_SECTIONS else TOL
        ok = q_close(c['sys'], mod[name], c['real'][name], tol) if name == 'q1' else close(mod[name], c['real'][name], tol)
        if not ok:
          a, b = mod[name].reshape(-1), np.asarray(c['real'][name]).reshape(-1)
          k = int(np.argmax(np.abs(a - b))) if a.shape == b.shape else -1
          disagreements.append(dict(
              what=f'Lean model stage {name} differs from the implementation ({c["types"]})',
              xml=c['xml'], q=c['q'].tolist(), qd=c['qd'].tolist(), act=c['act'].tolist(), index=k,
              lean=(a[k] if k >= 0 else a.shape), real=(b[k] if k >= 0 else b.shape)))
          break
  return cases, disagreements, spec_failures, hist


def correspond(ctx):
  n_models = ctx.budget(12, 90)
  cases, dis, fails, hist = run_cases(ctx, n_models, 2)
  n_lat, dis_lat = run_lattice(ctx, ctx.budget(4, 30))
  dis += dis_lat
  # one representative per key
  seen, uniq = set(), []
  for f in fails:
    if f['key'] not in seen:
      seen.add(f['key']); uniq.append(f)
  distinct = len({(c['types'], tuple(c['parents'])) for c in cases})
  kinds = {'slide_dofs': 0, 'hinge_dofs': 0, 'free_links': 0, 'rest_states': 0, 'with_actuators': 0, 'with_limits': 0}
  for c in cases:
    s = c['sys']
    ang = np.asarray(s.dof.motion.ang)
    dl = np.asarray(s.dof_link())
    for i in range(ang.shape[0]):
      if s.link_types[int(dl[i])] != 'f':
        kinds['hinge_dofs' if ang[i].any() else 'slide_dofs'] += 1
    kinds['free_links'] += s.link_types.count('f')
    kinds['rest_states'] += int(not c['qd'].any())
    kinds['with_actuators'] += int(s.act_size() > 0)
    kinds['with_limits'] += int(s.dof.limit is not None)
  sample = dict(link_types=cases[0]['types'], parents=cases[0]['parents'], q=cases[0]['q'].tolist()[:8],
                act=cases[0]['act'].tolist())
  return dict(
      evaluations=len(cases) + n_lat, distinct_nontrivial=distinct,
      rule='generator forests (1-6 links, free/world roots, 1-3 stacked hinge/slide joints, arbitrary axes, body/'
           'anchor/geom offsets, armature/damping/stiffness, motor/position/velocity actuators, optional inactive '
           'limits; matrix_inv_iterations=0) x 2 states (q in [-2,2] inside limits, unit root quaternions, qd in '
           '[-1,1] or rest, ctrl in [-2,2]); per case: 14 stages of the real pipeline vs the Lean model (1e-9; '
           '1e-7 behind the linear solve), the property observation real brax vs MuJoCo (1e-8, 12 quantities), '
           'plus exact-lattice cases (integers, equality) for mass.matrix / dynamics.inverse / _passive / forward '
           'and the additive reverse scan; distinct = distinct (link_types, parents) shapes',
      samples=[sample], disagreements=dis, spec_failures=uniq,
      trusted_base=['correspondence harness corr_C02.py (sampled inputs; float64 1e-9, 1e-7 behind the solve; exact on the lattice)',
                    'MuJoCo 3.x (mj_forward fields, mj_fullM, mj_step) as the reference engine',
                    'scan.tree / scan.link_types: the grouped code is transcribed faithfully and PROVED equal to the recursion/slicing (Layer B stage 2, Props/C01, Props/C02); the transcriptions are tied to the real functions by an exhaustive exact-integer correspondence in the C01 check',
                    'jax.scipy.linalg.solve modelled as an exact linear solve (parameter `solve`)',
                    'constraint.force returns 0 when no contact candidate and no limit row is active (observed on every case)'],
      assumptions=['IEEE round-off not modelled; theorems over the reals / any field',
                   'matrix_inv_iterations = 0 (exact inverse), no fluid forces'],
      explanation='Model<->implementation leg of the triangle on every stage; property observation against MuJoCo',
      extra=dict(link_type_histogram=hist, coverage=kinds, spec_failure_count=len(fails)))


def search(ctx, broken, corr):
  _, _, fails, _ = run_cases(ctx, ctx.budget(12, 110), 2, seed_offset=1000, legs=False)
  seen, uniq = set(), []
  for f in fails:
    if f['key'] not in seen:
      seen.add(f['key']); uniq.append(f)
  return uniq


def replay(ctx, rp):
  _setup()
  import jax.numpy as jp
  from brax.io import mjcf
  if rp.get('kind') != 'failing-input':
    return True, f'replay names broken obligations only: {rp.get("broken")}'
  sysm = mjcf.loads(rp['xml'])
  q, qd, act = np.array(rp['q']), np.array(rp['qd']), np.array(rp['act'])
  real = {k: np.asarray(v) for k, v in real_fn(sysm)(jp.asarray(q), jp.asarray(qd), jp.asarray(act)).items()}
  mj = mj_all(sysm, q, qd, act)
  name = rp['quantity']
  ok = q_close(sysm, real[name], mj[name], TOL_MJ) if name == 'q1' else close(real[name], mj[name], TOL_MJ)
  a, b = np.asarray(real[name], dtype=np.float64).reshape(-1), np.asarray(mj[name], dtype=np.float64).reshape(-1)
  k = int(np.argmax(np.abs(a - b))) if a.shape == b.shape and a.size else 0
  return bool(ok), (f'{name}[{k}]: brax {a[k] if a.size else None} mujoco {b[k] if b.size else None} '
                    f'(max |diff| over {a.size} entries)')
