#!/venv/bin/python
"""./bin/check <Cxx> {quick|thorough}   |   ./bin/check --replay <file>

Common driver of every property check (DESIGN.md 2.3):

 1. prepare        regenerate generated Lean from $VERIF_REPO (translator properties)
 2. lean           `lake build Brax.Props.Cxx` (file lock), then the axiom audit
                   (`#print axioms` of every theorem of the Props file, forbidden-token grep)
 3. correspondence model (Lean driver) vs implementation on generated inputs
 4. search         only if 2 or 3 broke: evaluate the *spec* on the implementation
 5. known findings re-run every listed finding, print KNOWN-FINDING lines
 6. evidence       evidence/Cxx.json
 7. exit 0 | exit 1 + `VIOLATION property=Cxx replay=<path>` | exit 2 (internal error)
"""
from __future__ import annotations

import fcntl
import importlib
import json
import os
import re
import shutil
import subprocess
import sys
import tempfile
import time
import traceback

HERE = os.path.dirname(os.path.abspath(__file__))
ROOT = os.path.dirname(HERE)
LEAN = os.path.join(ROOT, 'lean')
WORK = os.path.join(ROOT, '.work')
ALLOWED_AXIOMS = {'propext', 'Classical.choice', 'Quot.sound'}
FORBIDDEN = re.compile(
    r'\bsorry\b|\badmit\b|^\s*axiom\s|native_decide|bv_decide|implemented_by|\bunsafe\s|maxHeartbeats\s+0\b|'
    r'@\[extern|\bopaque\s+\w+\s*:.*Prop', re.M)


class Ctx:
  def __init__(self, prop, tier, seed):
    self.prop, self.tier, self.seed = prop, tier, seed
    self.repo = os.environ.get('VERIF_REPO', '/repo')
    self.root, self.lean = ROOT, LEAN
    os.makedirs(WORK, exist_ok=True)
    self.work = tempfile.mkdtemp(prefix=f'{prop}-', dir=WORK)
    self.t0 = time.time()
    self.notes = []

  def cleanup(self):
    shutil.rmtree(self.work, ignore_errors=True)

  def budget(self, quick, thorough):
    return thorough if self.tier == 'thorough' else quick


# ----------------------------------------------------------------------------- lean side


def _strip_comments(src: str) -> str:
  out, i, depth = [], 0, 0
  n = len(src)
  while i < n:
    if src.startswith('/-', i):
      depth += 1; i += 2; continue
    if depth and src.startswith('-/', i):
      depth -= 1; i += 2; continue
    if depth:
      if src[i] == '\n':
        out.append('\n')
      i += 1; continue
    if src.startswith('--', i):
      while i < n and src[i] != '\n':
        i += 1
      continue
    out.append(src[i]); i += 1
  return ''.join(out)


def lean_imports(path, seen=None):
  """transitive closure of `import Brax.*` files starting at `path`"""
  seen = seen if seen is not None else {}
  if path in seen or not os.path.exists(path):
    return seen
  src = open(path).read()
  seen[path] = src
  for m in re.finditer(r'^import\s+(Brax[\w.]*)', src, re.M):
    lean_imports(os.path.join(LEAN, m.group(1).replace('.', '/') + '.lean'), seen)
  return seen


def theorem_names(props_path):
  """[(fully qualified name, first line, kind)] of the theorems of a Props file"""
  src = _strip_comments(open(props_path).read())
  ns = []
  names = []
  for ln, line in enumerate(src.split('\n'), 1):
    m = re.match(r'\s*namespace\s+(\S+)', line)
    if m:
      ns.append(m.group(1)); continue
    m = re.match(r'\s*end\s+(\S+)\s*$', line)
    if m and ns and ns[-1] == m.group(1):
      ns.pop(); continue
    m = re.match(r'\s*(?:@\[[^\]]*\]\s*)*(?:private\s+|protected\s+)?(theorem|lemma)\s+([^\s:({\[]+)', line)
    if m:
      names.append(('.'.join(ns + [m.group(2)]), ln, m.group(1)))
  return names


def lake_build(targets, log_path, clean=False):
  lock = open(os.path.join(WORK, 'lake.lock'), 'w')
  fcntl.flock(lock, fcntl.LOCK_EX)
  try:
    if clean:
      shutil.rmtree(os.path.join(LEAN, '.lake', 'build'), ignore_errors=True)
    p = subprocess.run(['lake', 'build'] + targets, cwd=LEAN, capture_output=True, text=True)
    open(log_path, 'w').write(p.stdout + p.stderr)
    return p.returncode == 0, p.stdout + p.stderr
  finally:
    fcntl.flock(lock, fcntl.LOCK_UN)
    lock.close()


def failed_theorems(log, props_rel, names):
  """map `file:line:col: error` messages of the Props file to theorem names"""
  bad = set()
  lines = sorted((ln, nm) for nm, ln, _ in names)
  pat = r'(?:error: ' + re.escape(props_rel) + r':(\d+):\d+)|(?:' + re.escape(props_rel) + r':(\d+):\d+: error)'
  for m in re.finditer(pat, log):
    ln = int(m.group(1) or m.group(2))
    owner = None
    for l0, nm in lines:
      if l0 <= ln:
        owner = nm
    # errors above the first theorem (imports etc.): blame everything
    bad.add(owner or '*')
  return sorted(bad)


def audit(ctx, module, names):
  """#print axioms for every theorem; returns (discharged names, problems)"""
  path = os.path.join(ctx.work, 'Audit.lean')
  with open(path, 'w') as f:
    for mod in ([module] if isinstance(module, str) else module):
      f.write(f'import {mod}\n')
    for nm, _, _ in names:
      f.write(f'#print axioms {nm}\n')
  p = subprocess.run(['lake', 'env', 'lean', path], cwd=LEAN, capture_output=True, text=True)
  out = p.stdout + p.stderr
  ok, problems = [], []
  found = {}
  for m in re.finditer(r"'([^']+)' depends on axioms: \[([^\]]*)\]", out):
    found[m.group(1)] = {a.strip() for a in m.group(2).replace('\n', ' ').split(',') if a.strip()}
  for m in re.finditer(r"'([^']+)' does not depend on any axioms", out):
    found[m.group(1)] = set()
  for nm, _, _ in names:
    if nm not in found:
      problems.append(f'{nm}: no axiom report ({"missing" if p.returncode else "unparsed"})')
    elif found[nm] - ALLOWED_AXIOMS:
      problems.append(f'{nm}: uses axioms {sorted(found[nm] - ALLOWED_AXIOMS)}')
    else:
      ok.append(nm)
  return ok, problems, out


def grep_forbidden(files):
  hits = []
  for path, src in files.items():
    body = _strip_comments(src)
    for m in FORBIDDEN.finditer(body):
      ln = body.count('\n', 0, m.start()) + 1
      hits.append(f'{os.path.relpath(path, ROOT)}:{ln}: {m.group(0).strip()}')
  return hits


def lean_stage(ctx, extra_targets=()):
  """build + audit; returns dict(ok, obligations, discharged, failed, problems, log).
  The property theorems of `Cxx` live in `Brax/Props/Cxx.lean` and, when an import cycle forces a split, in further
  files `Brax/Props/Cxx<Suffix>.lean` (e.g. `C08Forest.lean`); all of them are built and audited."""
  import glob as _glob
  rels = sorted(os.path.relpath(f, LEAN) for f in _glob.glob(os.path.join(LEAN, f'Brax/Props/{ctx.prop}*.lean')))
  main_rel = f'Brax/Props/{ctx.prop}.lean'
  rels = [main_rel] + [r for r in rels if r != main_rel]
  modules = [r[:-5].replace('/', '.') for r in rels]
  per_file = [(rel, theorem_names(os.path.join(LEAN, rel))) for rel in rels]
  names = [t for _, ns in per_file for t in ns]
  log_path = os.path.join(ctx.work, 'lake.log')
  ok, log = lake_build(modules + list(extra_targets), log_path, clean=False)
  res = dict(ok=ok, obligations=[n for n, _, _ in names], discharged=[], failed=[], problems=[],
             log=log[-6000:])
  if not ok:
    failed = []
    for rel, ns in per_file:
      failed += failed_theorems(log, rel, ns)
    res['failed'] = failed or ['*']
    # theorems that did compile cannot be told apart cheaply when the file fails: count none
    return res
  files = {}
  for rel in rels:
    files.update(lean_imports(os.path.join(LEAN, rel)))
  hits = grep_forbidden(files)
  good, problems, out = audit(ctx, modules, names)
  res['discharged'] = good
  res['problems'] = problems + [f'forbidden token {h}' for h in hits]
  res['ok'] = not res['problems']
  res['audit_out'] = out[-3000:]
  res['files'] = sorted(os.path.relpath(p, ROOT) for p in files)
  return res


def run_driver(driver_rel, lines, cwd=None):
  """pipe lines through `lake env lean --run <driver>`; returns list of output lines"""
  # the driver's own imports must be built (they need not be imported by any Props file)
  drv_src = open(os.path.join(LEAN, driver_rel)).read()
  mods = re.findall(r'^import\s+(Brax[\w.]*)', drv_src, re.M)
  if mods:
    ok, log = lake_build(mods, os.path.join(WORK, f'drv-{os.getpid()}.log'))
    try:
      os.remove(os.path.join(WORK, f'drv-{os.getpid()}.log'))
    except OSError:
      pass
    if not ok:
      raise RuntimeError(f'lean driver imports do not build: {log[-2000:]}')
  p = subprocess.run(['lake', 'env', 'lean', '--run', driver_rel], cwd=LEAN,
                     input='\n'.join(lines) + '\n', capture_output=True, text=True)
  if p.returncode != 0:
    raise RuntimeError(f'lean driver failed: {p.stderr[-2000:]} {p.stdout[-1000:]}')
  out = p.stdout.split('\n')
  if out and out[-1] == '':
    out.pop()
  return out


# ----------------------------------------------------------------------------- findings


def load_known(prop):
  path = os.path.join(ROOT, 'KNOWN_FINDINGS.json')
  if not os.path.exists(path):
    return []
  return [e for e in json.load(open(path)).get('findings', []) if e.get('property') == prop]


# ----------------------------------------------------------------------------- evidence


def write_evidence(ctx, lean_res, corr, violations, extra_assumptions=()):
  os.makedirs(os.path.join(ROOT, 'evidence'), exist_ok=True)
  cov = {
      'obligations': len(lean_res['obligations']),
      'discharged': len(lean_res['discharged']),
      'checker_cmd': f'cd lean && lake build Brax.Props.{ctx.prop} && lake env lean <audit: #print axioms of every theorem>',
      'trusted_base': [
          'Lean 4.33.0 kernel',
          'axioms allowed: propext, Classical.choice, Quot.sound (audited per theorem on this run)',
          'Mathlib v4.33.0 (kernel-checked library)',
      ] + list(corr.get('trusted_base', [])),
      'theorems': lean_res['obligations'],
      'evaluations': int(corr.get('evaluations', 0)),
      'distinct_nontrivial': int(corr.get('distinct_nontrivial', 0)),
      'rule': corr.get('rule', ''),
      'samples': corr.get('samples', [])[:5],
      'explanation': corr.get('explanation', ''),
  }
  for k, v in corr.get('extra', {}).items():
    cov[k] = v
  ev = {
      'property_id': ctx.prop,
      'tier': ctx.tier,
      'seed': ctx.seed,
      'level': 'proof',
      'coverage': cov,
      'assumptions': list(corr.get('assumptions', [])) + list(extra_assumptions),
      'wall_s': round(time.time() - ctx.t0, 2),
      'violations': violations,
  }
  path = os.path.join(ROOT, 'evidence', f'{ctx.prop}.json')
  with open(path, 'w') as f:
    json.dump(ev, f, indent=1, default=str)
  return path


def write_replay(ctx, obj):
  d = os.path.join(ROOT, 'replays')
  os.makedirs(d, exist_ok=True)
  n = 0
  while os.path.exists(os.path.join(d, f'{ctx.prop}-{ctx.seed}-{n}.json')):
    n += 1
  path = os.path.join(d, f'{ctx.prop}-{ctx.seed}-{n}.json')
  obj = dict(obj)
  obj.setdefault('property', ctx.prop)
  obj.setdefault('seed', ctx.seed)
  obj.setdefault('tier', ctx.tier)
  with open(path, 'w') as f:
    json.dump(obj, f, indent=1, default=str)
  return os.path.relpath(path, ROOT)


# ----------------------------------------------------------------------------- main


def load_module(prop):
  sys.path.insert(0, HERE)
  return importlib.import_module(f'corr_{prop}')


def main(argv):
  if len(argv) >= 2 and argv[0] == '--replay':
    rp = json.load(open(argv[1]))
    ctx = Ctx(rp['property'], 'quick', int(rp.get('seed', 0)))
    try:
      sys.path.insert(0, ctx.repo)
      mod = load_module(rp['property'])
      ok, msg = mod.replay(ctx, rp)
      print(msg)
      if not ok:
        print(f'VIOLATION property={rp["property"]} replay={argv[1]}')
        return 1
      return 0
    finally:
      ctx.cleanup()
  if len(argv) < 1:
    print(__doc__); return 2
  prop = argv[0]
  tier = argv[1] if len(argv) > 1 else os.environ.get('VERIF_TIER', 'quick')
  seed = int(os.environ.get('VERIF_SEED', '0'))
  ctx = Ctx(prop, tier, seed)
  os.chdir(ctx.work)           # MuJoCo drops MUJOCO_LOG.TXT into the cwd
  try:
    sys.path.insert(0, ctx.repo)
    mod = load_module(prop)
    broken = []          # descriptions of what no longer checks
    # 1 prepare -------------------------------------------------------------
    prep = mod.prepare(ctx) if hasattr(mod, 'prepare') else {}
    if prep.get('broken'):
      broken += prep['broken']
    # generated Lean used by this property's theorems must reflect the tree under test
    props_path = os.path.join(LEAN, 'Brax', 'Props', f'{prop}.lean')
    gen_path = os.path.join(LEAN, 'Brax', 'Gen', 'Math.lean')
    if prop != 'C09' and gen_path in lean_imports(props_path):
      import corr_C09
      g = corr_C09.prepare(ctx)
      if g.get('broken'):
        ctx.notes.append('translator: ' + '; '.join(g['broken'])[:500])
    # 2 lean ----------------------------------------------------------------
    clean = tier == 'thorough' and os.environ.get('VERIF_NO_CLEAN') != '1'
    lean_res = lean_stage(ctx)
    if not lean_res['ok']:
      if lean_res['failed']:
        broken += [f'theorem {t} no longer checks' for t in lean_res['failed']]
      if lean_res['problems']:
        # audit problems are defects of the proof development, not of brax
        print('AUDIT PROBLEMS:\n  ' + '\n  '.join(lean_res['problems']))
        write_evidence(ctx, lean_res, {}, 0)
        return 2
    if clean and lean_res['ok']:
      p = subprocess.run(['lake', 'env', 'leanchecker', f'Brax.Props.{prop}'], cwd=LEAN,
                         capture_output=True, text=True)
      ctx.notes.append(f'leanchecker exit {p.returncode}')
      if p.returncode != 0:
        print('leanchecker failed:\n' + (p.stdout + p.stderr)[-2000:])
        return 2
    # 3 correspondence --------------------------------------------------------
    corr = mod.correspond(ctx)
    for d in corr.get('disagreements', []):
      broken.append('correspondence: ' + d['what'])
    # 4 search ------------------------------------------------------------------
    violations = []
    known = load_known(prop)
    if broken or corr.get('spec_failures'):
      known_keys = {e['key'] for e in known if e.get('kind') == 'known'}
      found = [f for f in corr.get('spec_failures', []) if f.get('key') not in known_keys]
      if not found and broken:
        found = [f for f in (mod.search(ctx, broken, corr) or []) if f.get('key') not in known_keys]
      if found:
        for f in found[:3]:
          rp = write_replay(ctx, dict(kind='failing-input', broken=broken, **f))
          violations.append((rp, ''))
      elif broken:
        first = (corr.get('disagreements') or [{}])[0]
        rp = write_replay(ctx, dict(kind='no-failing-input-found', broken=broken,
                                    first_disagreement=first, lean_log=lean_res.get('log', '')[-3000:]))
        violations.append((rp, ' no-failing-input-found'))
      # else: only listed known findings reproduced -> KNOWN-FINDING lines below, no violation
    # 5 known findings ------------------------------------------------------------
    for e in known:
      if e.get('kind') != 'known':
        continue
      still = mod.reproduce_known(ctx, e) if hasattr(mod, 'reproduce_known') else True
      if still:
        print(f'KNOWN-FINDING: property={prop} {e["what"]}')
      else:
        print(f'note: listed finding no longer reproduces: {e["key"]}')
    # 6 evidence ---------------------------------------------------------------------
    corr.setdefault('extra', {})['notes'] = ctx.notes
    corr['extra']['broken'] = broken
    write_evidence(ctx, lean_res, corr, len(violations))
    # 7 verdict -----------------------------------------------------------------------
    for rp, suffix in violations:
      print(f'VIOLATION property={prop} replay={rp}{suffix}')
    if violations:
      return 1
    n_ob, n_di = len(lean_res['obligations']), len(lean_res['discharged'])
    print(f'OK property={prop} tier={tier} seed={seed} theorems={n_di}/{n_ob} '
          f'cases={corr.get("evaluations", 0)} wall={time.time() - ctx.t0:.1f}s')
    return 0
  except Exception:
    traceback.print_exc()
    return 2
  finally:
    os.chdir(ROOT)
    ctx.cleanup()


if __name__ == '__main__':
  sys.exit(main(sys.argv[1:]))
