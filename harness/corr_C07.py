"""C07 — batching and compilation are transparent; batch members are independent.

That `jax.vmap` maps and `jax.jit` preserves meaning is JAX's contract; the theorems of
`Props/C07.lean` say that brax's own batched code (training wrappers, `where_done`, the
whole-argument reductions) is written so that the contract applies member by member.  This harness
carries the rest of the claim by **observation on the real code** (the property's own
`observe_at`: `jax.jit(jax.vmap(f))(batch)[i]` vs `f(batch[i])`):

 leg R  reductions     real `vmap(safe_norm / normalize / orthogonals / link_to_joint_frame)` on
                       batches with members at the singular inputs (exact zero, 1e-9, zero axis)
                       vs the solo call (spec) and vs the Lean batched model (tie); the Lean
                       whole-batch model is tied to a hand mis-batched python function and must
                       differ from the real result on the witnesses of the theorems
 leg W  where_done     an environment whose pipeline state has leaves of rank 1..4 and a rank-3
                       observation through AutoResetWrapper; the restored leaves vs member-wise
                       selection (spec) and vs the Lean literal broadcast model `whereDone` (tie)
 leg C  wrappers       C15's scripted environment through `training.wrap` (+EvalWrapper): member i
                       of the batched run == solo run through un-vmapped Episode/AutoReset wrappers
                       (exact), 10-40 steps, batches 2-8, per-member termination schedules; other
                       members changed => member i bit-identical; `VmapWrapper(batch_size)` key split
 leg E  model tie      batched Lean wrapper model == single-member Lean model == implementation
                       (through `Driver/C15.lean`)
 leg B  bundled env    inverted_pendulum (spring; thorough also positional), batch 4, 24 steps,
                       vs solo wrapped env, 1e-9 relative, across episode boundaries
 leg D  domain rand.   `DomainRandomizationVmapWrapper` with per-member masses, frictions, gears on a
                       generator model with contacts vs a solo environment built from member i's system
 leg A  physics        generator models with/without contacts x {generalized, spring, positional}:
                       `jit(vmap(init + 1..3 steps))(batch)[i]` vs `jit(init + steps)(batch[i])` on
                       every leaf of the pipeline state, 1e-9 relative (XLA does not promise
                       bit-equality between differently shaped programs); other members replaced =>
                       member i bit-identical (same executable); jit vs eager on one tiny model per
                       pipeline

Failures of the spec inside the quantifier are `spec_failures` (with the batch, the member index and
both results); an exception of the implementation on a valid batch is a spec failure too.
"""
from __future__ import annotations

import os
import sys
import time
import traceback

import numpy as np

HERE = os.path.dirname(os.path.abspath(__file__))
sys.path.insert(0, HERE)
import check as C  # noqa: E402
import corr_C15 as W  # noqa: E402   scripted environment + protocol of Driver/C15.lean
import modelgen  # noqa: E402
import wire  # noqa: E402

RTOL = 1e-9
PIPES = ('generalized', 'spring', 'positional')
_M = {}


# ----------------------------------------------------------------------------- brax side


def mods():
  if _M:
    return _M
  m = W.mods()          # x64, brax.v1 stub, training / acting imported, Scripted environment
  jax, jp = m['jax'], m['jp']
  from brax import envs, kinematics, math
  from brax.base import Motion
  from brax.envs.base import Env, PipelineEnv, State, Wrapper
  from brax.generalized import pipeline as gp
  from brax.io import mjcf
  from brax.positional import pipeline as pp
  from brax.spring import pipeline as sp

  class RankEnv(Env):
    """Deterministic environment whose pipeline state has leaves of member rank 0..3 and whose
    observation has member rank 2.  rng = [dbits, w]; sub-step g terminates iff bit g of dbits."""
    SH = {'s': (), 'v': (3,), 'm': (2, 3), 't': (2, 1, 2)}

    def _ps(self, b, t):
      return {k: b + t + 10.0 * jp.arange(float(max(1, int(np.prod(sh))))).reshape(sh) for k, sh in self.SH.items()}

    def reset(self, rng):
      d, w = rng[0].astype(jp.uint32), rng[1].astype(jp.uint32)
      b = (w & 7).astype(jp.float64) * 1000.0
      z = jp.zeros(())
      ps = self._ps(b, z)
      return State(ps, ps['m'][:, :2] + 0.5, z, z, {}, {'g': z, 'dbits': d, 'b': b})

    def step(self, state, action):
      g, d, b = state.info['g'], state.info['dbits'], state.info['b']
      t = state.pipeline_state['s'] - b + 1 + action[0]
      done = ((d >> jp.minimum(g, 31).astype(jp.uint32)) & 1).astype(jp.float64)
      ps = self._ps(b, t)
      state.info.update(g=g + 1)
      return state.replace(pipeline_state=ps, obs=ps['m'][:, :2] + 0.5, reward=t, done=done)

    @property
    def observation_size(self):
      return 2

    @property
    def action_size(self):
      return 1

    @property
    def backend(self):
      return 'none'

  class Rec(Wrapper):
    """records what the wrapped step returned (before AutoResetWrapper's where_done) in info"""

    def reset(self, rng):
      s = self.env.reset(rng)
      s.info['pre_ps'], s.info['pre_obs'] = s.pipeline_state, s.obs
      return s

    def step(self, state, action):
      s = self.env.step(state, action)
      s.info['pre_ps'], s.info['pre_obs'] = s.pipeline_state, s.obs
      return s

  class GenEnv(PipelineEnv):
    """minimal PipelineEnv around a generator model: obs = (q, qd); terminates when the summed
    action exceeds 0.8 or a velocity exceeds 6"""

    def __init__(self, sysm, backend):
      super().__init__(sysm, backend=backend, n_frames=1)
      self._quat = []
      i = 0
      for t in sysm.link_types:
        if t == 'f':
          self._quat.append(i + 3)
          i += 7
        else:
          i += int(t)

    def reset(self, rng):
      r1, r2 = jax.random.split(rng)
      q = self.sys.init_q + jax.random.uniform(r1, (self.sys.q_size(),), minval=-0.1, maxval=0.1)
      for s in self._quat:
        q = q.at[s:s + 4].set(q[s:s + 4] / jp.linalg.norm(q[s:s + 4]))
      qd = jax.random.uniform(r2, (self.sys.qd_size(),), minval=-0.5, maxval=0.5)
      ps = self.pipeline_init(q, qd)
      z = jp.zeros(())
      return State(ps, jp.concatenate([ps.q, ps.qd]), z, z, {'e': z}, {})

    def step(self, state, action):
      ps = self.pipeline_step(state.pipeline_state, action)
      done = jp.where((jp.sum(action) > 0.8) | (jp.max(jp.abs(ps.qd), initial=0.0) > 6.0), 1.0, 0.0)
      state.metrics.update(e=jp.sum(ps.qd ** 2))
      return state.replace(pipeline_state=ps, obs=jp.concatenate([ps.q, ps.qd]), reward=-0.01 * jp.sum(ps.qd ** 2),
                           done=done)

  _M.update(m)
  _M.update(envs=envs, kinematics=kinematics, math=math, Motion=Motion, mjcf=mjcf, RankEnv=RankEnv, Rec=Rec,
            GenEnv=GenEnv, pipes=dict(generalized=gp, spring=sp, positional=pp))
  return _M


# ----------------------------------------------------------------------------- comparison helpers


def named_leaves(tree):
  jax = mods()['jax']
  flat = jax.tree_util.tree_flatten_with_path(tree)[0]
  return [(jax.tree_util.keystr(p), np.asarray(v)) for p, v in flat]


def member(tree, i):
  return mods()['jax'].tree.map(lambda x: x[i], tree)


def first_diff(got, ref, exact):
  """first leaf entry where `got` (member of the batched result) differs from `ref` (solo);
  float leaves: equal, both NaN, or |got-ref| <= 1e-9 (1+|ref|) unless `exact`"""
  a, b = named_leaves(got), named_leaves(ref)
  if [n for n, _ in a] != [n for n, _ in b]:
    return dict(leaf='<structure>', got=str([n for n, _ in a][:6]), ref=str([n for n, _ in b][:6]))
  worst = 0.0
  for (n, x), (_, y) in zip(a, b):
    if x.shape != y.shape:
      return dict(leaf=n, got=f'shape {x.shape}', ref=f'shape {y.shape}')
    if x.size == 0:
      continue
    if x.dtype.kind in 'biu' or y.dtype.kind in 'biu':
      ok = (x == y)
    else:
      x64, y64 = x.astype(np.float64), y.astype(np.float64)
      with np.errstate(invalid='ignore'):
        ok = (x64 == y64) | (np.isnan(x64) & np.isnan(y64))
        if not exact:
          err = np.abs(x64 - y64) / (1.0 + np.abs(y64))
          ok = ok | (err <= RTOL)
          fin = np.isfinite(err)
          if fin.any():
            worst = max(worst, float(err[fin].max()))
    if not np.all(ok):
      idx = tuple(int(v) for v in np.argwhere(~np.asarray(ok).reshape(x.shape))[0]) if x.shape else ()
      return dict(leaf=n, index=list(idx), got=float(x[idx]), ref=float(y[idx]))
  return dict(worst=worst) if worst else None


def is_fail(d):
  return d is not None and 'leaf' in d


def worst_dev(got, ref):
  """largest |got-ref| / (1+|ref|) over the finite float entries of two pytrees of the same structure"""
  w = 0.0
  for (_, x), (_, y) in zip(named_leaves(got), named_leaves(ref)):
    if x.shape != y.shape or x.size == 0 or x.dtype.kind in 'biu':
      continue
    with np.errstate(invalid='ignore'):
      err = np.abs(x.astype(np.float64) - y.astype(np.float64)) / (1.0 + np.abs(y.astype(np.float64)))
    fin = np.isfinite(err)
    if fin.any():
      w = max(w, float(err[fin].max()))
  return w


def sensitivity(fs, q, qd, act, n, seed=0):
  """how much the SOLO executable's own result moves when (q, qd) are perturbed by one part in 1e15
  (about 4 ulp): the property only speaks about inputs where the step is continuous, and an input where
  round-off is amplified beyond the comparison tolerance cannot be compared across executables"""
  jp = mods()['jp']
  r = np.random.default_rng(seed)
  q, qd = np.asarray(q, dtype=np.float64), np.asarray(qd, dtype=np.float64)
  base = fs(jp.asarray(q), jp.asarray(qd), jp.asarray(act), n)
  amp = 0.0
  for _ in range(3):
    qq = q * (1 + 1e-15 * r.choice([-1.0, 1.0], size=q.shape))
    qdq = qd * (1 + 1e-15 * r.choice([-1.0, 1.0], size=qd.shape))
    amp = max(amp, worst_dev(fs(jp.asarray(qq), jp.asarray(qdq), jp.asarray(act), n), base))
  return amp


def hexl(arr):
  return [wire.f2hex(v) for v in np.asarray(arr, dtype=np.float64).reshape(-1)]


def lean_floats(line):
  if line.startswith('bad'):
    raise RuntimeError(f'Driver/C07 rejected a case: {line}')
  return np.array([wire.parse(t) for t in line.split()], dtype=np.float64)


def close(a, b, tol=RTOL):
  """leaf functions: equal, or within 1e-9 of the largest entry of the member's own output row (purely
  relative: the singular members produce values such as 0 against 1e-9, which an absolute term would hide)"""
  a, b = np.asarray(a, dtype=np.float64), np.asarray(b, dtype=np.float64)
  if a.shape != b.shape:
    return False
  scale = np.maximum(np.abs(a), np.abs(b)).max(axis=-1, keepdims=True) if a.ndim else np.maximum(abs(a), abs(b))
  return bool(np.all((a == b) | (np.abs(a - b) <= tol * scale)))


class Acc:
  """accumulator of one run"""

  def __init__(self):
    self.evals = 0
    self.distinct = set()
    self.dis, self.fails, self.samples = [], [], []
    self.extra = {}
    self.lines, self.after = [], []      # Driver/C07 lines and their continuations

  def fail(self, **kw):
    if len(self.fails) < 8:
      self.fails.append(kw)

  def disagree(self, **kw):
    if len(self.dis) < 8:
      self.dis.append(kw)


# ----------------------------------------------------------------------------- leg R: reductions


def whole_py(name):
  """the hand mis-batched twins (reduction over the whole batched array) — NOT brax code"""
  jp = mods()['jp']

  def safe_norm(x):
    z = jp.allclose(x, 0.0)
    x = x + z * 1.0
    return jp.linalg.norm(x, axis=-1) * (1.0 - z)

  def normalize(x):
    n = safe_norm(x)
    return x / (n + 1e-6 * (n == 0.0))[:, None], n

  def orthogonals(a):
    y, z = jp.array([0., 1, 0]), jp.array([0., 0, 1])
    b = jp.where(((-0.5 < a[:, 1]) & (a[:, 1] < 0.5))[:, None], y, z)
    b = b - a * jp.sum(a * b, axis=-1, keepdims=True)
    bn = mods()['jax'].vmap(lambda v: mods()['math'].normalize(v)[0])(b)
    b = bn * jp.any(a)
    return b, jp.cross(a, b)

  return dict(safenorm=safe_norm, normalize=normalize, ortho=orthogonals)[name]


def reduction_rows(rng, B, n):
  """[B, n] batch with members at the singular inputs; never within a decade of the 1e-8 threshold"""
  X = rng.uniform(-2, 2, size=(B, n))
  kinds = []
  for b in range(B):
    k = rng.choice(['random', 'zero', 'tiny', 'mixed', 'small', 'axis'], p=[0.3, 0.2, 0.2, 0.1, 0.1, 0.1])
    if k == 'zero':
      X[b] = 0.0
    elif k == 'tiny':
      X[b] = rng.choice([-1.0, 1.0], size=n) * rng.uniform(1e-12, 1e-9, size=n) * (rng.random(n) < 0.7)
    elif k == 'mixed':
      X[b] = 0.0
      X[b, rng.integers(n)] = rng.uniform(0.5, 2)
    elif k == 'small':
      X[b] = rng.uniform(1e-6, 1e-3, size=n)
    elif k == 'axis':
      X[b] = 0.0
      X[b, rng.integers(n)] = rng.choice([-1.0, 1.0])
    kinds.append(str(k))
  if n >= 2:   # orthogonals switches at |a[1]| = 0.5
    near = np.abs(np.abs(X[:, 1]) - 0.5) < 1e-3
    X[near, 1] = 0.25
  return X, kinds


def leg_reductions(ctx, acc, rng):
  m = mods()
  jax, jp, math, kin, Motion = m['jax'], m['jp'], m['math'], m['kinematics'], m['Motion']
  fns = dict(
      safenorm=(lambda x: math.safe_norm(x), None),
      normalize=(lambda x: math.normalize(x), None),
      ortho=(lambda a: math.orthogonals(a), 3),
      frame1=(lambda a: kin.link_to_joint_frame(Motion(ang=a[None], vel=jp.zeros((1, 3))))[0].ang, 3))
  flat = lambda out: np.concatenate([np.asarray(o, dtype=np.float64).reshape(len(np.asarray(o)), -1)
                                     for o in (out if isinstance(out, tuple) else (out,))], axis=1)
  n_cases = ctx.budget(6, 30)
  hist = {}
  wit = {  # the witnesses of the theorems of Props/C07.lean
      'safenorm': [np.array([[1e-9, 0, 0], [0, 0, 0]]), np.array([[1e-9, 0, 0], [1.0, 0, 0]])],
      'normalize': [np.array([[1e-9, 0, 0], [0, 0, 0]]), np.array([[1e-9, 0, 0], [1.0, 0, 0]])],
      'ortho': [np.zeros((2, 3)), np.array([[0., 0, 0], [1.0, 0, 0]])],
      'frame1': [np.zeros((2, 3)), np.array([[0., 0, 0], [1.0, 0, 0]])]}
  for name, (fn, fixed_n) in fns.items():
    batches = [(x, ['witness'] * len(x)) for x in wit[name]]
    for _ in range(n_cases):
      B = int(rng.integers(2, 9))
      n = fixed_n or int(rng.choice([1, 2, 3, 4, 6]))
      batches.append(reduction_rows(rng, B, n))
    for X, kinds in batches:
      B, n = X.shape
      for k in kinds:
        hist[k] = hist.get(k, 0) + 1
      info = dict(leg='reduction', fn=name, batch=X.tolist())
      try:
        real = flat(jax.jit(jax.vmap(fn, axis_name='batch'))(jp.asarray(X)))
        solo = np.stack([flat(jax.tree.map(lambda v: v[None], fn(jp.asarray(X[i]))))[0] for i in range(B)])
      except Exception as e:   # noqa: BLE001
        acc.fail(key=f'C07:exception:{name}', what=f'{name} raises {type(e).__name__}: {e} on a valid batch', **info)
        continue
      acc.evals += B
      acc.distinct.update((name, tuple(X[i])) for i in range(B) if kinds[i] != 'random')
      for i in range(B):
        if not close(real[i], solo[i]):
          acc.fail(key=f'C07:vmap:{name}', what=f'vmap({name})(batch)[{i}] = {real[i].tolist()} but {name}(batch[{i}]) = '
                   f'{solo[i].tolist()} (member kinds {kinds})', member=i, **info)
          break
      acc.lines.append(' '.join([name, str(B)] + ([str(n)] if fixed_n is None else []) + hexl(X)))
      ref_whole = flat(whole_py(name)(jp.asarray(X))) if name != 'frame1' else None
      acc.after.append(('reduction', name, X, real, ref_whole, kinds))
  acc.extra['reduction_member_kinds'] = hist


def finish_reduction(acc, out, name, X, real, ref_whole, kinds):
  B = len(X)
  vals = lean_floats(out)
  per = real.shape[1]
  if vals.size != 2 * B * per:
    raise RuntimeError(f'Driver/C07 {name}: {vals.size} numbers, expected {2 * B * per}')
  if name == 'normalize':   # driver prints all rows, then all norms
    n = per - 1
    unp = lambda v: np.concatenate([v[:B * n].reshape(B, n), v[B * n:].reshape(B, 1)], axis=1)
    lb, lw = unp(vals[:B * per]), unp(vals[B * per:])
  else:
    lb, lw = vals[:B * per].reshape(B, per), vals[B * per:].reshape(B, per)
  acc.evals += 1
  if not close(lb, real):
    i = int(np.argmax(np.abs(lb - real).max(axis=1)))
    acc.disagree(what=f'Lean batched model of {name} differs from jax.vmap({name}) at member {i}: model {lb[i].tolist()} '
                 f'implementation {real[i].tolist()}', fn=name, batch=X.tolist())
  if ref_whole is not None and not close(lw, ref_whole):
    acc.disagree(what=f'Lean whole-batch model of {name} differs from the hand mis-batched python twin', fn=name,
                 batch=X.tolist(), lean=lw.tolist(), python=ref_whole.tolist())
  differs = not close(lw, real)
  st = acc.extra.setdefault('whole_batch_model_differs_from_real', {})
  st[name] = st.get(name, 0) + int(differs)
  if kinds[0] == 'witness' and np.abs(X[1]).max() > 0 and not differs:
    acc.disagree(what=f'the witness of {name}Whole_not_independent is not separated from the real result', fn=name,
                 batch=X.tolist())


# ----------------------------------------------------------------------------- leg W: where_done, any rank


def leg_where_done(ctx, acc, rng):
  m = mods()
  jax, jp, T = m['jax'], m['jp'], m['training']
  n_cases = ctx.budget(3, 12)
  ranks = {}
  for ci in range(n_cases):
    B = int(rng.integers(1, 9)) if ci else 1       # B = 1: the leading axis of the mask is itself a singleton
    L, steps = int(rng.integers(2, 7)), int(rng.integers(6, 14))
    bits = np.stack([rng.integers(0, 1 << 12, size=B, dtype=np.uint64) & rng.integers(0, 1 << 12, size=B, dtype=np.uint64),
                     rng.integers(0, 1 << 16, size=B, dtype=np.uint64)], axis=1)
    acts = rng.integers(0, 3, size=(steps, B)).astype(np.float64)
    env = T.AutoResetWrapper(m['Rec'](T.EpisodeWrapper(T.VmapWrapper(m['RankEnv']()), L, 1)))
    info = dict(leg='rank', L=L, bits=bits.tolist(), acts=acts.tolist())
    try:
      st = jax.jit(env.reset)(jp.asarray(bits.astype(np.uint32)))
      step = jax.jit(env.step)
      for t in range(steps):
        st = step(st, jp.asarray(acts[t])[:, None])
        done = np.asarray(st.done)
        leaves = [(k, st.info['first_pipeline_state'][k], st.info['pre_ps'][k], st.pipeline_state[k])
                  for k in ('s', 'v', 'm', 't')] + [('obs', st.info['first_obs'], st.info['pre_obs'], st.obs)]
        for name, x, y, res in leaves:
          x, y, res = np.asarray(x), np.asarray(y), np.asarray(res)
          exp = np.where(done.reshape((B,) + (1,) * (x.ndim - 1)) != 0, x, y)
          for i in range(B):   # the spec, member by member: own snapshot iff own flag
            want = x[i] if done[i] else y[i]
            if not np.array_equal(res[i], want):
              acc.fail(key='C07:where_done', what=f'where_done: leaf {name} (rank {x.ndim}) of member {i} is '
                       f'{res[i].tolist()} but its done flag is {done[i]} (snapshot {x[i].tolist()}, stepped '
                       f'{y[i].tolist()}; done of the batch {done.tolist()})', step=t, member=i, **info)
              break
          acc.evals += B
          ranks[x.ndim] = ranks.get(x.ndim, 0) + 1
          if done.any() and not done.all():
            acc.distinct.add(('rank', x.ndim, tuple(done.tolist()), ci, t))
          dims = list(x.shape)
          acc.lines.append(' '.join(['wheredone', str(x.ndim - 1)] + [str(d) for d in dims] +
                                    [str(int(d != 0)) for d in done] + [W.hexf(v) for v in x.ravel()] +
                                    [W.hexf(v) for v in y.ravel()]))
          acc.after.append(('rank', name, res, exp, dict(info, step=t)))
    except Exception as e:   # noqa: BLE001
      acc.fail(key='C07:exception:rank', what=f'wrapped rank environment raises {type(e).__name__}: {e}', **info)
  acc.extra['where_done_leaf_ranks'] = ranks


def finish_rank(acc, out, name, res, exp, info):
  vals = lean_floats(out)
  N = res.size
  acc.evals += 1
  if vals.size != 2 * N:
    raise RuntimeError(f'Driver/C07 wheredone: {vals.size} numbers, expected {2 * N}')
  if not np.array_equal(vals[:N], res.ravel()) or not np.array_equal(vals[N:], res.ravel()):
    acc.disagree(what=f'Lean whereDone (literal [B,1,..] broadcast) / selectMember differ from AutoResetWrapper.where_done '
                 f'on leaf {name} of rank {res.ndim}', lean=vals[:N].tolist()[:12], real=res.ravel().tolist()[:12], **info)


# ----------------------------------------------------------------------------- leg C / E: wrappers


def _rows_solo(st, with_eval):
  return W._state_rows(mods()['jax'].tree.map(lambda x: x[None], st), with_eval)[0]


def run_solo(L, r, thin, bits_i, acts_i):
  """member alone through the *un-vmapped* wrappers: AutoReset(Episode(env)) + EvalWrapper"""
  m = mods()
  jax, jp, T = m['jax'], m['jp'], m['training']
  key = ('solo', L, r, thin)
  if key not in _M:
    env = T.EvalWrapper(T.AutoResetWrapper(T.EpisodeWrapper(m['Scripted'](thin, r), L, r)))
    _M[key] = (jax.jit(env.reset), jax.jit(env.step))
  reset, step = _M[key]
  st = reset(jp.asarray(np.asarray(bits_i, dtype=np.uint32)))
  rows = [_rows_solo(st, True)]
  for a in acts_i:
    st = step(st, jp.asarray([float(a)]))
    rows.append(_rows_solo(st, True))
  return np.stack(rows)


def run_batched(L, r, thin, bits, acts):
  m = mods()
  jax, jp, T = m['jax'], m['jp'], m['training']
  key = ('batched', L, r, thin)
  if key not in _M:
    env = T.EvalWrapper(T.wrap(m['Scripted'](thin, r), episode_length=L, action_repeat=r))
    _M[key] = (jax.jit(env.reset), jax.jit(env.step))
  reset, step = _M[key]
  st = reset(jp.asarray(np.asarray(bits, dtype=np.uint32)))
  rows = [W._state_rows(st, True)]
  for a in acts:
    st = step(st, jp.asarray(np.asarray(a, dtype=np.float64))[:, None])
    rows.append(W._state_rows(st, True))
  return np.stack(rows)     # [T+1, B, 25]


def wrap_case(rng, ci):
  L = int(rng.integers(3, 13))
  r = int(rng.integers(1, 4))
  B = int(rng.integers(2, 9))
  T = int(rng.integers(10, 41))
  thin = 1
  bits = W.rand_bits(rng, B, thin, -1)
  acts = W.rand_actions(rng, T, B, 0.04 if ci % 2 else 0.0)
  return dict(L=L, r=r, thin=thin, bits=bits, acts=acts)


def check_wrap_case(c, acc=None):
  """member i of the batched run == solo run (exact); returns the first failure or None"""
  L, r, thin, bits, acts = c['L'], c['r'], c['thin'], np.asarray(c['bits'], dtype=np.uint64), np.asarray(c['acts'])
  T, B = acts.shape
  rp = dict(leg='wrap', L=L, r=r, thin=thin, bits=bits.tolist(), acts=acts.tolist())
  try:
    rb = run_batched(L, r, thin, bits, acts)
    solos = [run_solo(L, r, thin, bits[b], acts[:, b]) for b in range(B)]
  except Exception as e:   # noqa: BLE001
    return dict(key='C07:exception:wrap', what=f'wrapped scripted environment raises {type(e).__name__}: {e}', **rp), None
  for b in range(B):
    if not np.array_equal(rb[:, b, :], solos[b]):
      t, f = [int(v) for v in np.argwhere(rb[:, b, :] != solos[b])[0]]
      return dict(key=f'C07:wrap:{W.FIELDS[f]}', what=f'member {b} of the batched wrapped run differs from its solo run at '
                  f'step {t}: {W.FIELDS[f]} = {rb[t, b, f]} in the batch, {solos[b][t, f]} alone (L={L}, r={r}, B={B}; '
                  f'done flags of the batch at that step {rb[t, :, 4].tolist()})', member=b, step=t, field=W.FIELDS[f],
                  batched=float(rb[t, b, f]), solo=float(solos[b][t, f]), **rp), rb
  return None, rb


def eager_purity(L, r, thin, bits_i, acts_i):
  """EAGER evaluation of the un-vmapped wrappers agrees with jit — also when the same retained input state is stepped
  twice (a state object is a value: stepping it again must give the same result, as it does under jit).  In-place
  updates of the input's info dict that do not change any result (AutoResetWrapper zeroing `steps` of a done state)
  are not judged.  Returns a failure dict or None."""
  m = mods()
  jax, jp, T = m['jax'], m['jp'], m['training']
  env = T.AutoResetWrapper(T.EpisodeWrapper(m['Scripted'](thin, r), L, r))
  jstep = jax.jit(env.step)
  snap = lambda st: [(k, np.array(v)) for k, v in named_leaves(st)]
  st = env.reset(jp.asarray(np.asarray(bits_i, dtype=np.uint32)))
  rp = dict(leg='eager-wrap', L=L, r=r, thin=thin, bits=[int(b) for b in bits_i], acts=[float(a) for a in acts_i])
  for t, a in enumerate(acts_i):
    a = jp.asarray([float(a)])
    ref = snap(jstep(st, a))
    nst = env.step(st, a)                     # eager, first evaluation
    again = env.step(st, a)                   # eager, the same retained input once more
    for which, got in (('first', nst), ('second', again)):
      for (k, x), (_, y) in zip(snap(got), ref):
        if x.shape != y.shape or not np.allclose(x, y, rtol=1e-12, atol=1e-12):
          return dict(key='C07:jit-eager:wrap', what=f'eager wrapped step {t} (L={L}, action_repeat={r}), {which} evaluation on the '
                      f'same input state, differs from the jitted step at {k}: {x.tolist()} vs {y.tolist()}',
                      step=t, leaf=k, evaluation=which, **rp)
    st = nst
  return None


def leg_wrappers(ctx, acc, rng):
  m = mods()
  jax, jp, T = m['jax'], m['jp'], m['training']
  n_cases = ctx.budget(5, 40)
  # eager evaluation of the wrappers, action_repeat 1 and 2: purity of step and agreement with jit
  for r_e in (1, 2):
    L_e = int(rng.integers(3, 7))
    f = eager_purity(L_e, r_e, 1, W.rand_bits(rng, 1, 1, -1)[0], W.rand_actions(rng, 6, 1, 0.0)[:, 0])
    acc.evals += 1
    if f:
      acc.fail(**f)
  hist = dict(B={}, episodes=0, by_time_limit=0, by_termination=0, steps=0)
  c15_lines, c15_real, c15_info = [], [], []
  for ci in range(n_cases):
    c = wrap_case(rng, ci)
    f, rb = check_wrap_case(c)
    L, r, thin, bits, acts = c['L'], c['r'], c['thin'], c['bits'], c['acts']
    Tn, B = acts.shape
    if f:
      acc.fail(**f)
    if rb is None:
      continue
    acc.evals += B
    hist['B'][B] = hist['B'].get(B, 0) + 1
    hist['steps'] += Tn * B
    dn, tr = rb[1:, :, 4], rb[1:, :, 6]
    hist['episodes'] += int(dn.sum())
    hist['by_time_limit'] += int(tr.sum())
    hist['by_termination'] += int(dn.sum() - tr.sum())
    for b in range(B):
      if dn[:, b].any():
        acc.distinct.add(('wrap', L, r, int(bits[b][0]), int(bits[b][1]), tuple(acts[:, b].tolist())))
    # independence: same jitted functions, member i kept, everything else replaced
    i = int(rng.integers(B))
    bits2, acts2 = W.rand_bits(rng, B, thin, -1), W.rand_actions(rng, Tn, B, 0.1)
    bits2[i], acts2[:, i] = bits[i], acts[:, i]
    rb2 = run_batched(L, r, thin, bits2, acts2)
    acc.evals += 1
    if not np.array_equal(rb2[:, i, :], rb[:, i, :]):
      t, fl = [int(v) for v in np.argwhere(rb2[:, i, :] != rb[:, i, :])[0]]
      acc.fail(key=f'C07:independence:{W.FIELDS[fl]}', what=f'member {i} changes when the keys and actions of the other '
               f'members change: step {t}, {W.FIELDS[fl]} = {rb[t, i, fl]} vs {rb2[t, i, fl]}', leg='wrap-indep', L=L, r=r,
               thin=thin, member=i, bits=bits.tolist(), acts=acts.tolist(), bits2=bits2.tolist(), acts2=acts2.tolist())
    # another batch size / position
    B3 = int(rng.integers(2, 9))
    j = int(rng.integers(B3))
    bits3, acts3 = W.rand_bits(rng, B3, thin, -1), W.rand_actions(rng, Tn, B3, 0.05)
    bits3[j], acts3[:, j] = bits[i], acts[:, i]
    rb3 = run_batched(L, r, thin, bits3, acts3)
    acc.evals += 1
    if not np.array_equal(rb3[:, j, :], rb[:, i, :]):
      t, fl = [int(v) for v in np.argwhere(rb3[:, j, :] != rb[:, i, :])[0]]
      acc.fail(key=f'C07:independence:{W.FIELDS[fl]}', what=f'member placed at index {j} of a batch of {B3} differs from the '
               f'same member at index {i} of a batch of {B}: step {t}, {W.FIELDS[fl]}', leg='wrap-indep', L=L, r=r, thin=thin,
               member=j, bits=bits3.tolist(), acts=acts3.tolist(), bits2=None, acts2=None, ref_bits=bits[i].tolist(),
               ref_acts=acts[:, i].tolist())
    # leg E: model tie through Driver/C15.lean — batched Lean model and single-member Lean model
    N = Tn * r + 1
    mems = [W.decode(bits[b][0], bits[b][1], thin, N) for b in range(B)]
    mtoks = [W.member_tokens(mm, N) for mm in mems]
    c15_lines.append(' '.join(['bwrap'] + [str(x) for x in [L, r, B, Tn, N, r]] + sum(mtoks, []) +
                              [W.hexf(x) for x in acts.ravel()]))
    c15_real.append(rb); c15_info.append(dict(op='bwrap', L=L, r=r, B=B, T=Tn))
    for b in ([i] if ctx.tier == 'quick' else range(B)):
      c15_lines.append(' '.join(['wrap', str(L), str(r), str(Tn), str(N), str(r)] + mtoks[b] + [W.hexf(x) for x in acts[:, b]]))
      c15_real.append(rb[:, b, :]); c15_info.append(dict(op='wrap', L=L, r=r, member=b, T=Tn))
    if ci < 2:
      acc.samples.append(dict(leg='wrap', L=L, r=r, B=B, T=Tn, key_words=[int(x) for x in bits[0]],
                              dones_member0=rb[1:, 0, 4].tolist()))
  # VmapWrapper(batch_size): the key is split into batch_size member keys
  for B in (2, 5):
    env = T.VmapWrapper(m['Scripted'](1, 1), batch_size=B)
    key = jax.random.PRNGKey(int(rng.integers(1 << 30)))
    st = jax.jit(env.reset)(key)
    keys = jax.random.split(key, B)
    solo = [jax.jit(m['Scripted'](1, 1).reset)(keys[i]) for i in range(B)]
    acc.evals += B
    for i in range(B):
      d = first_diff(member(st, i), solo[i], True)
      if is_fail(d):
        acc.fail(key='C07:vmap-reset-split', what=f'VmapWrapper(batch_size={B}).reset(key): member {i} differs from '
                 f'env.reset(split(key, {B})[{i}]) at {d["leaf"]}: {d["got"]} vs {d["ref"]}', leg='split', B=B,
                 key_data=np.asarray(key).tolist(), member=i)
        break
    if len({tuple(np.asarray(st.obs)[i].tolist()) + (float(np.asarray(st.info["dbits"])[i]),) for i in range(B)}) < 2:
      acc.fail(key='C07:vmap-reset-split', what=f'VmapWrapper(batch_size={B}).reset(key) gives every member the same state',
               leg='split', B=B, key_data=np.asarray(key).tolist(), member=0)
  acc.extra['wrappers'] = hist
  # run the C15 driver
  if c15_lines:
    out = C.run_driver('Driver/C15.lean', c15_lines)
    if len(out) != len(c15_lines):
      raise RuntimeError(f'Driver/C15 returned {len(out)} lines for {len(c15_lines)}')
    for o, rl, info in zip(out, c15_real, c15_info):
      if o.startswith('bad'):
        raise RuntimeError(f'Driver/C15 rejected a case: {o}')
      acc.evals += 1
      W.cmp_exact(rl, W.frac_rows(o), f'{info["op"]}: Lean wrapper model vs implementation', info, acc.dis)
    acc.extra['model_tie_lines'] = len(c15_lines)


# ----------------------------------------------------------------------------- leg B: bundled environment


def bundled_case(seed, backend, name='inverted_pendulum', B=4, T=24):
  rng = np.random.default_rng(seed)
  return dict(leg='bundled', env=name, backend=backend, B=B, T=T, L=int(rng.integers(9, 14)), r=int(rng.integers(1, 3)),
              prng=int(rng.integers(1 << 30)), seed=seed)


def check_bundled(c):
  m = mods()
  jax, jp, T, envs = m['jax'], m['jp'], m['training'], m['envs']
  rng = np.random.default_rng(c['seed'] + 1)
  ck = ('bundled', c['env'], c['backend'], c['L'], c['r'])
  try:
    if ck not in _M:
      benv = T.wrap(envs.get_environment(c['env'], backend=c['backend']), episode_length=c['L'], action_repeat=c['r'])
      senv = T.AutoResetWrapper(T.EpisodeWrapper(envs.get_environment(c['env'], backend=c['backend']), c['L'], c['r']))
      _M[ck] = (jax.jit(benv.reset), jax.jit(benv.step), jax.jit(senv.reset), jax.jit(senv.step), benv.action_size)
    br, bs, sr, ss, na = _M[ck]
    keys = jax.random.split(jax.random.PRNGKey(c['prng']), c['B'])
    acts = rng.uniform(-3, 3, size=(c['T'], c['B'], na))
    for b in range(0, c['B'], 2):   # even members push one way: they terminate early, at their own times
      acts[:, b, :] = rng.choice([-1.0, 1.0]) * rng.uniform(1.5, 3.0)
    st = br(keys)
    sts = [sr(keys[i]) for i in range(c['B'])]
    stats = dict(dones=0, truncations=0, worst=0.0)
    for t in range(c['T'] + 1):
      for i in range(c['B']):
        d = first_diff(member(st, i), sts[i], False)
        if is_fail(d):
          return dict(key=f'C07:bundled:{d["leaf"]}', what=f'{c["env"]}/{c["backend"]} through training.wrap: member {i} of the '
                      f'batch differs from the solo wrapped environment at step {t}, leaf {d["leaf"]}{d.get("index", "")}: '
                      f'{d["got"]} vs {d["ref"]}', member=i, step=t, batched=d['got'], solo=d['ref'], **c), stats
        if d:
          stats['worst'] = max(stats['worst'], d['worst'])
      if t == c['T']:
        break
      st = bs(st, jp.asarray(acts[t]))
      sts = [ss(sts[i], jp.asarray(acts[t, i])) for i in range(c['B'])]
      stats['dones'] += int(np.asarray(st.done).sum())
      stats['truncations'] += int(np.asarray(st.info['truncation']).sum())
    return None, stats
  except Exception as e:   # noqa: BLE001
    return dict(key='C07:exception:bundled', what=f'{c["env"]}/{c["backend"]} raises {type(e).__name__}: {e}', **c), {}


def leg_bundled(ctx, acc, rng):
  backs = ['spring'] if ctx.tier == 'quick' else ['spring', 'positional']
  out = {}
  for bk in backs:
    c = bundled_case(int(rng.integers(1 << 30)), bk)
    f, stats = check_bundled(c)
    if f:
      acc.fail(**f)
    acc.evals += c['B'] * (c['T'] + 1)
    acc.distinct.update(('bundled', bk, i) for i in range(c['B']))
    out[bk] = dict(stats, L=c['L'], r=c['r'])
  acc.extra['bundled'] = out


# ----------------------------------------------------------------------------- leg D: domain randomisation


def dr_case(seed, backend, B=None):
  rng = np.random.default_rng(seed)
  return dict(leg='dr', backend=backend, seed=seed, B=int(B or rng.integers(2, 6)), T=int(rng.integers(8, 16)),
              L=int(rng.integers(4, 8)), prng=int(rng.integers(1 << 30)))


def check_dr(c):
  m = mods()
  jax, jp, T = m['jax'], m['jp'], m['training']
  rng = np.random.default_rng(c['seed'] + 1)
  xml, meta = modelgen.gen_model(rng, n_links=(1, 3), roots='free', collide=True, ground=True, geoms=('sphere', 'capsule'),
                                 actuators=(1, 2))
  try:
    sysm = m['mjcf'].loads(xml)
    B = c['B']
    nl, ng, na = sysm.num_links(), sysm.ngeom, sysm.act_size()
    mass = np.asarray(sysm.link.inertia.mass)[None] * rng.uniform(0.5, 2.0, size=(B, nl))
    fric = np.asarray(sysm.geom_friction)[None] * rng.uniform(0.2, 2.0, size=(B, ng, 1))
    repl = {'link.inertia.mass': jp.asarray(mass), 'geom_friction': jp.asarray(fric)}
    if na:
      repl['actuator.gear'] = jp.asarray(np.asarray(sysm.actuator.gear)[None] * rng.uniform(0.5, 2.0, size=(B, na)))
    names = list(repl)

    def rand_fn(s):
      in_axes = jax.tree.map(lambda x: None, s).tree_replace({k: 0 for k in names})
      return s.tree_replace(repl), in_axes

    benv = T.wrap(m['GenEnv'](sysm, c['backend']), episode_length=c['L'], action_repeat=1, randomization_fn=rand_fn)

    def solo_env(vals):   # a solo environment built from member i's system
      return T.AutoResetWrapper(T.EpisodeWrapper(m['GenEnv'](sysm.tree_replace(dict(zip(names, vals))), c['backend']), c['L'], 1))

    sr = jax.jit(lambda vals, key: solo_env(vals).reset(key))
    ss = jax.jit(lambda vals, st, a: solo_env(vals).step(st, a))
    br, bs = jax.jit(benv.reset), jax.jit(benv.step)
    keys = jax.random.split(jax.random.PRNGKey(c['prng']), B)
    acts = rng.uniform(-1, 1, size=(c['T'], B, na))
    vals = [[repl[k][i] for k in names] for i in range(B)]
    st = br(keys)
    sts = [sr(vals[i], keys[i]) for i in range(B)]
    stats = dict(dones=0, worst=0.0, links=meta['link_types'], randomised=names, contacts=0)
    for t in range(c['T'] + 1):
      for i in range(B):
        d = first_diff(member(st, i), sts[i], False)
        if is_fail(d):
          return dict(key=f'C07:dr:{d["leaf"]}', what=f'DomainRandomizationVmapWrapper ({c["backend"]}): member {i} differs from '
                      f'the solo environment built from member {i}\'s system at step {t}, leaf {d["leaf"]}{d.get("index", "")}: '
                      f'{d["got"]} vs {d["ref"]} (member masses {mass[i].tolist()})', member=i, step=t, batched=d['got'],
                      solo=d['ref'], **c), stats
        if d:
          stats['worst'] = max(stats['worst'], d['worst'])
      if t == c['T']:
        break
      st = bs(st, jp.asarray(acts[t]))
      sts = [ss(vals[i], sts[i], jp.asarray(acts[t, i])) for i in range(B)]
      stats['dones'] += int(np.asarray(st.done).sum())
    # non-vacuity: the randomised system matters — member 1 stepped alone with member 0's system differs
    s1 = sr(vals[0], keys[1])
    for t in range(min(c['T'], c['L'] - 1)):
      s1 = ss(vals[0], s1, jp.asarray(acts[t, 1]))
    s2 = sr(vals[1], keys[1])
    for t in range(min(c['T'], c['L'] - 1)):
      s2 = ss(vals[1], s2, jp.asarray(acts[t, 1]))
    stats['system_matters'] = bool(is_fail(first_diff(s1, s2, False)))
    return None, stats
  except Exception as e:   # noqa: BLE001
    return dict(key='C07:exception:dr', what=f'DomainRandomizationVmapWrapper/{c["backend"]} raises {type(e).__name__}: {e}',
                trace=traceback.format_exc()[-800:], **c), {}


def leg_dr(ctx, acc, rng):
  backs = [PIPES[1 + ctx.seed % 2]] if ctx.tier == 'quick' else list(PIPES[1:])
  out = {}
  for bk in backs:
    c = dr_case(int(rng.integers(1 << 30)), bk)
    f, stats = check_dr(c)
    if f:
      acc.fail(**f)
    acc.evals += c['B'] * (c['T'] + 1)
    acc.distinct.update(('dr', bk, c['seed'], i) for i in range(c['B']))
    out[bk] = stats
  acc.extra['domain_randomisation'] = out


# ----------------------------------------------------------------------------- leg A: physics pipelines


def make_fn(pipe, sysm):
  m = mods()
  jax, P = m['jax'], m['pipes'][pipe]

  def f(q, qd, act, n):
    s = P.init(sysm, q, qd)
    return jax.lax.fori_loop(0, n, lambda i, s: P.step(sysm, s, act), s)
  return f


def q_layout(sysm):
  """(start of free-root blocks, joint coordinate indices)"""
  free, joint, i = [], [], 0
  for t in sysm.link_types:
    if t == 'f':
      free.append(i); i += 7
    else:
      joint += list(range(i, i + int(t))); i += int(t)
  return free, joint


def physics_batch(rng, sysm, B):
  """per-member (q, qd, ctrl) with members placed at the singular inputs"""
  free, joint = q_layout(sysm)
  qs, qds = zip(*[modelgen.rand_state(rng, sysm) for _ in range(B)])
  qs, qds = np.stack(qs), np.stack(qds)
  acts = rng.uniform(-1, 1, size=(B, sysm.act_size()))
  roles = ['random'] * B
  pool = ['zero_qd', 'zero_q', 'dup0', 'zero_act', 'low', 'high', 'rest']
  rng.shuffle(pool)
  for b in range(1, B):
    if rng.random() < 0.85:
      roles[b] = pool[(b - 1) % len(pool)]
  for b, role in enumerate(roles):
    if role in ('zero_qd', 'rest'):
      qds[b] = 0.0
    if role in ('zero_q', 'rest'):
      qs[b, joint] = 0.0
      for s in free:
        qs[b, s + 3:s + 7] = [1.0, 0, 0, 0]
    if role == 'dup0':
      qs[b], qds[b], acts[b] = qs[0], qds[0], acts[0]
    if role in ('zero_act', 'rest'):
      acts[b] = 0.0
    if role == 'low':
      for s in free:
        qs[b, s + 2] = rng.uniform(0.0, 0.15)
    if role == 'high':
      for s in free:
        qs[b, s + 2] = 6.0 + s
  return qs, qds, acts, roles


def physics_model(rng, contacts, tiny=False):
  if tiny:
    return modelgen.gen_model(rng, n_links=(1, 1), stack=(1, 1), roots='world', geoms=('sphere',), actuators=(1, 1))
  if contacts:
    return modelgen.gen_model(rng, n_links=(1, 3), collide=True, ground=True, geoms=('sphere', 'capsule'))
  return modelgen.gen_model(rng, n_links=(1, 4))


def check_physics(pipe, xml, qs, qds, acts, n, cache=None):
  """jit(vmap(f))(batch)[i] vs jit(f)(batch[i]) on every leaf of the pipeline state.
  returns (failure or None, batched result, jitted batched fn, worst relative deviation)"""
  m = mods()
  jax, jp = m['jax'], m['jp']
  rp = dict(leg='physics', pipeline=pipe, xml=xml, q=np.asarray(qs).tolist(), qd=np.asarray(qds).tolist(),
            act=np.asarray(acts).tolist(), n=int(n))
  try:
    sysm = m['mjcf'].loads(xml)
    if cache is not None and 'fb' in cache:
      fb, fs = cache['fb'], cache['fs']
    else:
      f = make_fn(pipe, sysm)
      fb, fs = jax.jit(jax.vmap(f, in_axes=(0, 0, 0, None), axis_name='batch')), jax.jit(f)
      if cache is not None:
        cache.update(fb=fb, fs=fs)
    ob = fb(jp.asarray(qs), jp.asarray(qds), jp.asarray(acts), n)
    worst = 0.0
    for i in range(len(qs)):
      os_ = fs(jp.asarray(qs[i]), jp.asarray(qds[i]), jp.asarray(acts[i]), n)
      d = first_diff(member(ob, i), os_, False)
      if is_fail(d):
        dev = worst_dev(member(ob, i), os_)
        amp = sensitivity(fs, qs[i], qds[i], acts[i], n)
        if amp > RTOL:   # the solo step itself amplifies a 1e-15 perturbation beyond the tolerance: not comparable
          if cache is not None:
            cache.setdefault('ill', []).append(dict(member=i, deviation=dev, solo_amplification_of_1e15=amp, leaf=d['leaf']))
          continue
        return dict(key=f'C07:physics:{pipe}', what=f'{pipe}: jit(vmap(init+{n} steps))(batch)[{i}] differs from '
                    f'jit(init+{n} steps)(batch[{i}]) at leaf {d["leaf"]}{d.get("index", "")}: {d["got"]} vs {d["ref"]} '
                    f'(largest relative deviation {dev:.3g}; the solo step moves by {amp:.3g} under a 1e-15 perturbation)',
                    member=i, batched=d['got'], solo=d['ref'], **rp), ob, fb, worst
      if d:
        worst = max(worst, d['worst'])
    return None, ob, fb, worst
  except Exception as e:   # noqa: BLE001
    return dict(key=f'C07:exception:{pipe}', what=f'{pipe} pipeline raises {type(e).__name__}: {str(e)[:300]} on a valid batch',
                **rp), None, None, 0.0


def leg_physics(ctx, acc, rng, t_end):
  m = mods()
  jax, jp = m['jax'], m['jp']
  n_models = ctx.budget(2, 8)
  jobs = []
  for mi in range(n_models):
    contacts = mi % 2 == 1
    xml, meta = physics_model(rng, contacts)
    order = list(PIPES)
    rng.shuffle(order)
    jobs += [(xml, meta, contacts, p) for p in order]
  hist = dict(jobs=0, members=0, roles={}, B={}, contacts=0, link_types={}, worst_rel={}, indep_exact=0, indep_inexact=[],
              eager={}, skipped_jobs=0, skipped_ill_conditioned=0, ill_conditioned_examples=[])
  for ji, (xml, meta, contacts, pipe) in enumerate(jobs):
    if time.time() > t_end and hist['jobs'] >= 3:
      hist['skipped_jobs'] = len(jobs) - ji
      ctx.notes.append(f'physics leg: time budget reached after {ji} of {len(jobs)} (model, pipeline) jobs')
      break
    try:
      sysm = m['mjcf'].loads(xml)
    except Exception as e:   # noqa: BLE001
      acc.fail(key='C07:exception:load', what=f'mjcf.loads raises {type(e).__name__}: {e} on a generator model', leg='load', xml=xml)
      continue
    B = int(rng.integers(2, 9))
    n = int(rng.integers(1, 4))
    qs, qds, acts, roles = physics_batch(rng, sysm, B)
    cache = {}
    f, ob, fb, worst = check_physics(pipe, xml, qs, qds, acts, n, cache)
    if f:
      acc.fail(**dict(f, roles=roles))
    hist['jobs'] += 1
    if ob is None:
      continue
    hist['members'] += B
    hist['contacts'] += int(contacts)
    hist['B'][B] = hist['B'].get(B, 0) + 1
    hist['link_types'][meta['link_types']] = hist['link_types'].get(meta['link_types'], 0) + 1
    hist['worst_rel'][pipe] = max(hist['worst_rel'].get(pipe, 0.0), worst)
    ill = {e['member'] for e in cache.get('ill', [])}
    hist['skipped_ill_conditioned'] += len(ill)
    hist['ill_conditioned_examples'] += [dict(e, pipeline=pipe, contacts=contacts, role=roles[e['member']])
                                         for e in cache.get('ill', [])][:2]
    for r_ in roles:
      hist['roles'][r_] = hist['roles'].get(r_, 0) + 1
    acc.evals += B
    acc.distinct.update((pipe, meta['link_types'], contacts, tuple(np.round(qs[i], 9)), tuple(np.round(qds[i], 9)))
                        for i in range(B))
    if ji < 2:
      acc.samples.append(dict(leg='physics', pipeline=pipe, link_types=meta['link_types'], contacts=contacts, B=B, steps=n,
                              roles=roles, worst_relative_deviation=worst))
    # a duplicated member must reproduce member 0 (same executable, same lanes or not: 1e-9)
    for b, role in enumerate(roles):
      if role == 'dup0':
        d = first_diff(member(ob, b), member(ob, 0), False)
        if is_fail(d) and 0 not in ill and sensitivity(cache['fs'], qs[0], qds[0], acts[0], n) <= RTOL:
          acc.fail(key=f'C07:physics-dup:{pipe}', what=f'{pipe}: two identical members of one batch (0 and {b}) get different '
                   f'results at {d["leaf"]}: {d["got"]} vs {d["ref"]}', leg='physics', pipeline=pipe, xml=xml, q=qs.tolist(),
                   qd=qds.tolist(), act=acts.tolist(), n=n, member=b)
    # independence: the same compiled function on batches in which only member i is kept
    for variant in ('fresh', 'singular', 'copies'):
      i = int(rng.integers(B))
      q2, qd2, a2, _ = physics_batch(rng, sysm, B)
      if variant == 'singular':
        _, joint = q_layout(sysm)
        qd2[:] = 0.0; a2[:] = 0.0; q2[:, joint] = 0.0
      if variant == 'copies':
        q2[:], qd2[:], a2[:] = qs[i], qds[i], acts[i]
      q2[i], qd2[i], a2[i] = qs[i], qds[i], acts[i]
      try:
        ob2 = fb(jp.asarray(q2), jp.asarray(qd2), jp.asarray(a2), n)
      except Exception as e:   # noqa: BLE001
        acc.fail(key=f'C07:exception:{pipe}', what=f'{pipe} pipeline raises {type(e).__name__} on a valid batch', leg='physics',
                 pipeline=pipe, xml=xml, q=q2.tolist(), qd=qd2.tolist(), act=a2.tolist(), n=n, member=i)
        continue
      acc.evals += 1
      d = first_diff(member(ob2, i), member(ob, i), True)
      if is_fail(d):
        loose = first_diff(member(ob2, i), member(ob, i), False)
        if is_fail(loose):
          acc.fail(key=f'C07:physics-indep:{pipe}', what=f'{pipe}: member {i} changes when the other members of the batch are '
                   f'replaced ({variant}): leaf {d["leaf"]}{d.get("index", "")}: {d["got"]} vs {d["ref"]}', leg='physics-indep',
                   pipeline=pipe, xml=xml, q=qs.tolist(), qd=qds.tolist(), act=acts.tolist(), q2=q2.tolist(), qd2=qd2.tolist(),
                   act2=a2.tolist(), n=n, member=i)
        else:   # not bit-identical but within round-off: measured and reported, see notes/C07.md
          hist['indep_inexact'].append(dict(pipeline=pipe, variant=variant, leaf=d['leaf'], got=d['got'], ref=d['ref']))
      else:
        hist['indep_exact'] += 1
  # jit vs eager, one tiny model per pipeline
  tiny_rng = np.random.default_rng(ctx.seed + 5)
  xml, meta = physics_model(tiny_rng, False, tiny=True)
  for pipe in PIPES:
    if ctx.tier == 'quick' and time.time() > t_end + 40:
      ctx.notes.append(f'eager leg: skipped {pipe} (time budget)')
      continue
    t0 = time.time()
    try:
      sysm = m['mjcf'].loads(xml)
      q, qd = modelgen.rand_state(tiny_rng, sysm)
      act = tiny_rng.uniform(-1, 1, size=sysm.act_size())
      f = make_fn(pipe, sysm)
      oj = jax.jit(f)(jp.asarray(q), jp.asarray(qd), jp.asarray(act), 1)
      with jax.disable_jit():
        oe = f(jp.asarray(q), jp.asarray(qd), jp.asarray(act), 1)
      d = first_diff(oj, oe, False)
    except Exception as e:   # noqa: BLE001
      acc.fail(key=f'C07:exception:eager:{pipe}', what=f'{pipe}: eager/jit evaluation raises {type(e).__name__}: {str(e)[:300]}',
               leg='eager', pipeline=pipe, xml=xml)
      continue
    acc.evals += 1
    if is_fail(d) and sensitivity(jax.jit(f), q, qd, act, 1) > RTOL:
      hist['skipped_ill_conditioned'] += 1
      hist['eager'][pipe] = dict(skipped='ill-conditioned input', wall_s=round(time.time() - t0, 1))
      continue
    if is_fail(d):
      acc.fail(key=f'C07:jit-eager:{pipe}', what=f'{pipe}: jit(init+step) differs from eager init+step at {d["leaf"]}: {d["got"]} '
               f'vs {d["ref"]}', leg='eager', pipeline=pipe, xml=xml, q=q.tolist(), qd=qd.tolist(), act=act.tolist(),
               batched=d['got'], solo=d['ref'])
    hist['eager'][pipe] = dict(worst_rel=(d or {}).get('worst', 0.0), wall_s=round(time.time() - t0, 1))
  acc.extra['physics'] = hist


# ----------------------------------------------------------------------------- API


def run_all(ctx, seed_offset=0, physics_budget=None):
  t0 = time.time()
  acc = Acc()
  rng = np.random.default_rng(ctx.seed + seed_offset)
  mods()
  walls = {}
  for name, leg in (('reductions', leg_reductions), ('where_done', leg_where_done), ('wrappers', leg_wrappers),
                    ('bundled', leg_bundled), ('domain_randomisation', leg_dr)):
    t = time.time()
    leg(ctx, acc, np.random.default_rng(rng.integers(1 << 62)))
    walls[name] = round(time.time() - t, 1)
  # Lean driver for the reductions and where_done
  if acc.lines:
    out = C.run_driver('Driver/C07.lean', acc.lines)
    if len(out) != len(acc.lines):
      raise RuntimeError(f'Driver/C07 returned {len(out)} lines for {len(acc.lines)}')
    for o, a in zip(out, acc.after):
      (finish_reduction if a[0] == 'reduction' else finish_rank)(acc, o, *a[1:])
  t = time.time()
  budget = physics_budget if physics_budget is not None else ctx.budget(60, 600)
  leg_physics(ctx, acc, np.random.default_rng(rng.integers(1 << 62)), time.time() + budget)
  walls['physics'] = round(time.time() - t, 1)
  acc.extra['wall_s_per_leg'] = walls
  acc.extra['wall_correspond_s'] = round(time.time() - t0, 1)
  return acc


def correspond(ctx):
  acc = run_all(ctx)
  return dict(
      evaluations=acc.evals, distinct_nontrivial=len(acc.distinct),
      rule='evaluations = member comparisons (batched member vs solo run; member vs itself with the other members replaced) '
           '+ Lean driver comparisons; distinct = distinct (leg, model/schedule, member input) tuples whose batch contains at '
           'least one other, different member (reductions: members at a singular input; wrappers: histories with an episode end; '
           'where_done: steps with a mixed done mask)',
      samples=acc.samples, disagreements=acc.dis, spec_failures=acc.fails,
      trusted_base=['jax.vmap computes the member function on every slice and jax.jit preserves meaning (JAX/XLA contract): the '
                    'theorems are about how brax\'s code is written on top of it, the agreement of the real batched physics with '
                    'the solo run is OBSERVED on the sampled batches only (1e-9 relative, float64)',
                    'correspondence harness harness/corr_C07.py, lean/Driver/C07.lean, lean/Driver/C15.lean and the scripted '
                    'environment of harness/corr_C15.py',
                    'XLA does not promise bit-equality between the batched and the solo executable: physics legs compare at '
                    '1e-9 relative; same-executable comparisons (other members replaced) are required to be bit-identical'],
      assumptions=['PARTIAL: proved = wrapper batching (restated from C15), where_done for any rank, per-member formulation of '
                   'safe_norm / normalize / orthogonals / 1-dof joint frame and the non-independence of their whole-batch variants; '
                   'tied only = batching of the physics pipelines, DomainRandomizationVmapWrapper, jit == eager',
                   'exact reals in the theorems; float round-off and XLA reassociation are not modelled'],
      explanation='Observation of the property on the real code (batched member vs solo, member independence) on generator '
                  'models x three pipelines, the training wrappers, a bundled environment and the domain randomisation wrapper; '
                  'Lean models of the batched reductions / where_done / wrappers are run on the same inputs.',
      extra=acc.extra)


def search(ctx, broken, corr):
  # the same legs (spec against the real code) on fresh seeds until the budget is used
  found, off = [], 1000
  t0 = time.time()
  while not found and time.time() - t0 < ctx.budget(50, 540):
    acc = run_all(ctx, seed_offset=off, physics_budget=ctx.budget(40, 240))
    found = acc.fails
    off += 1000
  return found[:3]


def replay(ctx, rp):
  if rp.get('kind') != 'failing-input':
    return True, f'replay names broken obligations only: {rp.get("broken")}'
  m = mods()
  jax, jp = m['jax'], m['jp']
  leg = rp.get('leg')
  if leg == 'physics':
    f, _, _, _ = check_physics(rp['pipeline'], rp['xml'], np.array(rp['q']), np.array(rp['qd']),
                               np.array(rp['act']).reshape(len(rp['q']), -1), int(rp['n']))
    return (False, f['what']) if f else (True, 'batched members agree with their solo runs on this batch')
  if leg == 'physics-indep':
    sysm = m['mjcf'].loads(rp['xml'])
    fb = jax.jit(jax.vmap(make_fn(rp['pipeline'], sysm), in_axes=(0, 0, 0, None), axis_name='batch'))
    B = len(rp['q'])
    o1 = fb(jp.asarray(rp['q']), jp.asarray(rp['qd']), jp.asarray(np.array(rp['act']).reshape(B, -1)), int(rp['n']))
    o2 = fb(jp.asarray(rp['q2']), jp.asarray(rp['qd2']), jp.asarray(np.array(rp['act2']).reshape(B, -1)), int(rp['n']))
    d = first_diff(member(o2, rp['member']), member(o1, rp['member']), False)
    return (False, f'member {rp["member"]} depends on the other members: {d}') if is_fail(d) else (True, 'member independent of the others')
  if leg == 'wrap':
    f, _ = check_wrap_case(rp)
    return (False, f['what']) if f else (True, 'batched wrapped run equals the solo runs')
  if leg == 'wrap-indep':
    a = run_batched(rp['L'], rp['r'], rp['thin'], np.array(rp['bits'], dtype=np.uint64), np.array(rp['acts']))
    i = int(rp['member'])
    if rp.get('bits2') is not None:
      b = run_batched(rp['L'], rp['r'], rp['thin'], np.array(rp['bits2'], dtype=np.uint64), np.array(rp['acts2']))[:, i, :]
    else:
      b = run_solo(rp['L'], rp['r'], rp['thin'], np.array(rp['ref_bits'], dtype=np.uint64), np.array(rp['ref_acts']))
    ok = np.array_equal(a[:, i, :], b)
    return bool(ok), ('member independent of the others' if ok else f'member {i} depends on the other members of the batch')
  if leg == 'reduction':
    X = np.array(rp['batch'])
    fn = dict(safenorm=lambda x: m['math'].safe_norm(x), normalize=lambda x: m['math'].normalize(x),
              ortho=lambda a: m['math'].orthogonals(a),
              frame1=lambda a: m['kinematics'].link_to_joint_frame(m['Motion'](ang=a[None], vel=jp.zeros((1, 3))))[0].ang)[rp['fn']]
    real = jax.jit(jax.vmap(fn, axis_name='batch'))(jp.asarray(X))
    flat1 = lambda t: np.concatenate([np.asarray(v, dtype=np.float64).ravel() for v in jax.tree.leaves(t)])
    for i in range(len(X)):
      got, ref = flat1(member(real, i)), flat1(fn(jp.asarray(X[i])))
      if not close(got, ref):
        return False, f'vmap({rp["fn"]})(batch)[{i}] = {got.tolist()} differs from {rp["fn"]}(batch[{i}]) = {ref.tolist()}'
    return True, 'vmapped reduction agrees with the solo calls'
  if leg == 'bundled':
    f, _ = check_bundled({k: rp[k] for k in ('leg', 'env', 'backend', 'B', 'T', 'L', 'r', 'prng', 'seed')})
    return (False, f['what']) if f else (True, 'bundled environment: batch equals solo')
  if leg == 'dr':
    f, _ = check_dr({k: rp[k] for k in ('leg', 'backend', 'seed', 'B', 'T', 'L', 'prng')})
    return (False, f['what']) if f else (True, 'domain randomisation: batch equals solo systems')
  if leg == 'rank':
    T = m['training']
    bits, acts = np.array(rp['bits'], dtype=np.uint64), np.array(rp['acts'])
    env = T.AutoResetWrapper(m['Rec'](T.EpisodeWrapper(T.VmapWrapper(m['RankEnv']()), int(rp['L']), 1)))
    st = jax.jit(env.reset)(jp.asarray(bits.astype(np.uint32)))
    step = jax.jit(env.step)
    for t in range(len(acts)):
      st = step(st, jp.asarray(acts[t])[:, None])
      done = np.asarray(st.done)
      for k in ('s', 'v', 'm', 't'):
        x, y, res = (np.asarray(v[k]) for v in (st.info['first_pipeline_state'], st.info['pre_ps'], st.pipeline_state))
        for i in range(len(done)):
          if not np.array_equal(res[i], x[i] if done[i] else y[i]):
            return False, f'where_done: leaf {k} of member {i} at step {t} does not follow its own done flag'
    return True, 'where_done follows every member\'s own flag'
  if leg == 'split':
    T = m['training']
    B = int(rp['B'])
    key = jp.asarray(np.array(rp['key_data'], dtype=np.uint32))
    st = jax.jit(T.VmapWrapper(m['Scripted'](1, 1), batch_size=B).reset)(key)
    keys = jax.random.split(key, B)
    for i in range(B):
      if is_fail(first_diff(member(st, i), m['Scripted'](1, 1).reset(keys[i]), True)):
        return False, f'VmapWrapper(batch_size).reset: member {i} is not env.reset(split(key)[{i}])'
    return True, 'VmapWrapper(batch_size).reset splits the key per member'
  if leg == 'eager':
    sysm = m['mjcf'].loads(rp['xml'])
    f = make_fn(rp['pipeline'], sysm)
    args = (jp.asarray(rp['q']), jp.asarray(rp['qd']), jp.asarray(rp['act']), 1)
    oj = jax.jit(f)(*args)
    with jax.disable_jit():
      oe = f(*args)
    d = first_diff(oj, oe, False)
    return (False, f'jit differs from eager: {d}') if is_fail(d) else (True, 'jit agrees with eager')
  if leg == 'load':
    try:
      m['mjcf'].loads(rp['xml'])
      return True, 'model loads'
    except Exception as e:   # noqa: BLE001
      return False, f'mjcf.loads raises {type(e).__name__}: {e}'
  return True, f'unknown replay leg {leg}'
