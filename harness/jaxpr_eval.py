"""jaxpr interpreter over an arbitrary scalar domain (Tie A and exact-rational mode).

A traced brax function (``jax.make_jaxpr``) is evaluated with numpy *object* arrays whose
elements are

* ``Sym`` expression nodes            -> ``gen_lean.py`` prints them as a Lean definition,
* ``fractions.Fraction``              -> exact-rational evaluation of the implementation,
* python ``float``                    -> self-test of this interpreter against the real call.

Integer / boolean / PRNG-key values that do not depend on the float inputs stay ordinary
numpy / jax arrays and are folded by binding the *real* primitive.  Decimal literals of the
source (``1e-6``) are read as exact decimals in the ``Fraction`` and ``Sym`` domains (the Lean
side reads them the same way); binary constants that come out of folded sub-computations are
converted exactly.

Only what brax's leaf functions need is implemented; an unknown primitive raises
``Unsupported`` and the caller reports it (exit 2, never a violation).
"""
from __future__ import annotations

import math as pymath
from decimal import Decimal
from fractions import Fraction

import numpy as np


class Unsupported(Exception):
  pass


# --------------------------------------------------------------------------- domains


class Sym:
  """Hash-consed expression node (scalar real or Bool)."""

  __slots__ = ('op', 'args', 'is_bool', 'id')
  _table = {}
  _count = 0

  def __new__(cls, op, args=(), is_bool=False):
    key = (op, tuple(a.id if isinstance(a, Sym) else ('c', a) for a in args), is_bool)
    got = cls._table.get(key)
    if got is not None:
      return got
    self = object.__new__(cls)
    self.op, self.args, self.is_bool = op, tuple(args), is_bool
    cls._count += 1
    self.id = cls._count
    cls._table[key] = self
    return self

  @classmethod
  def reset(cls):
    cls._table = {}
    cls._count = 0

  # arithmetic -------------------------------------------------------------
  @staticmethod
  def _lift(x):
    if isinstance(x, Sym):
      return x
    if isinstance(x, (bool, np.bool_)):
      return Sym('blit', (bool(x),), True)
    return Sym('lit', (_to_fraction(x),))

  def _bin(self, op, o, rev=False):
    if isinstance(o, np.ndarray):
      return NotImplemented
    a, b = (Sym._lift(o), self) if rev else (self, Sym._lift(o))
    return _simp(op, a, b)

  def __add__(self, o): return self._bin('add', o)
  def __radd__(self, o): return self._bin('add', o, True)
  def __sub__(self, o): return self._bin('sub', o)
  def __rsub__(self, o): return self._bin('sub', o, True)
  def __mul__(self, o): return self._bin('mul', o)
  def __rmul__(self, o): return self._bin('mul', o, True)
  def __truediv__(self, o): return self._bin('div', o)
  def __rtruediv__(self, o): return self._bin('div', o, True)
  def __neg__(self): return _simp1('neg', self)
  def __repr__(self): return f'Sym#{self.id}:{self.op}'


def _is_lit(s, v=None):
  return isinstance(s, Sym) and s.op == 'lit' and (v is None or s.args[0] == v)


def _simp(op, a, b):
  """Only *constant folding* (both literals).  No algebraic simplification: the generated
  term must say what the code computes, including `x * 1` and `0 + x`."""
  if _is_lit(a) and _is_lit(b):
    x, y = a.args[0], b.args[0]
    if op == 'add': return Sym('lit', (x + y,))
    if op == 'sub': return Sym('lit', (x - y,))
    if op == 'mul': return Sym('lit', (x * y,))
    if op == 'div' and y != 0: return Sym('lit', (x / y,))
  return Sym(op, (a, b))


def _simp1(op, a):
  if _is_lit(a) and op == 'neg':
    return Sym('lit', (-a.args[0],))
  return Sym(op, (a,))


def _to_fraction(x):
  if isinstance(x, Fraction):
    return x
  if isinstance(x, (int, np.integer)):
    return Fraction(int(x))
  if isinstance(x, (float, np.floating)):
    return Fraction(Decimal(repr(float(x))))   # decimal reading of a source literal
  raise Unsupported(f'literal {x!r}')


class Domain:
  name = 'abstract'
  def lit(self, v): raise NotImplementedError       # source literal (decimal reading)
  def const(self, v): raise NotImplementedError     # folded binary constant (exact)
  def fromint(self, v): raise NotImplementedError
  def frombool(self, b): raise NotImplementedError  # bool -> 1/0 in the domain
  def fn(self, name, *xs): raise NotImplementedError
  def cmp(self, op, a, b): raise NotImplementedError
  def ite(self, c, a, b): raise NotImplementedError
  def band(self, a, b): raise NotImplementedError
  def bor(self, a, b): raise NotImplementedError
  def bnot(self, a): raise NotImplementedError


class SymDomain(Domain):
  name = 'sym'
  def lit(self, v): return Sym('lit', (_to_fraction(v),))
  def const(self, v): return Sym('lit', (Fraction(float(v)),))
  def fromint(self, v): return Sym('lit', (Fraction(int(v)),))
  def frombool(self, b):
    if isinstance(b, Sym):
      return Sym('ite', (b, self.lit(1), self.lit(0)))
    return self.lit(1 if b else 0)
  def fn(self, name, *xs):
    return Sym(name, tuple(Sym._lift(x) for x in xs))
  def cmp(self, op, a, b):
    a, b = Sym._lift(a), Sym._lift(b)
    if _is_lit(a) and _is_lit(b):
      x, y = a.args[0], b.args[0]
      return {'lt': x < y, 'le': x <= y, 'eq': x == y, 'ne': x != y}[op]
    if op == 'ne' and a is b:
      return False          # NaN test of `isclose`: the exact domains have no NaN
    return Sym(op, (a, b), True)
  def ite(self, c, a, b):
    if not isinstance(c, Sym):
      return a if c else b
    a, b = Sym._lift(a), Sym._lift(b)
    return Sym('ite', (c, a, b), a.is_bool)
  def band(self, a, b):
    if not isinstance(a, Sym): return b if a else False
    if not isinstance(b, Sym): return a if b else False
    return Sym('and', (a, b), True)
  def bor(self, a, b):
    if not isinstance(a, Sym): return True if a else b
    if not isinstance(b, Sym): return True if b else a
    return Sym('or', (a, b), True)
  def bnot(self, a):
    if not isinstance(a, Sym): return not a
    return Sym('not', (a,), True)


class FracDomain(Domain):
  """Exact rationals.  Irrational functions are not available (Unsupported) except at
  arguments where the result is rational and obvious (sqrt of a perfect square)."""
  name = 'frac'
  def lit(self, v): return _to_fraction(v)
  def const(self, v): return Fraction(float(v))
  def fromint(self, v): return Fraction(int(v))
  def frombool(self, b): return Fraction(1 if b else 0)
  def fn(self, name, *xs):
    if name == 'sqrt':
      x = xs[0]
      if x >= 0:
        n, d = pymath.isqrt(x.numerator), pymath.isqrt(x.denominator)
        if n * n == x.numerator and d * d == x.denominator:
          return Fraction(n, d)
    if name == 'abs':
      return abs(xs[0])
    raise Unsupported(f'{name} is not rational')
  def cmp(self, op, a, b):
    return {'lt': a < b, 'le': a <= b, 'eq': a == b, 'ne': a != b}[op]
  def ite(self, c, a, b): return a if c else b
  def band(self, a, b): return bool(a) and bool(b)
  def bor(self, a, b): return bool(a) or bool(b)
  def bnot(self, a): return not a


class FloatDomain(Domain):
  name = 'float'
  def lit(self, v): return float(v)
  def const(self, v): return float(v)
  def fromint(self, v): return float(int(v))
  def frombool(self, b): return 1.0 if b else 0.0
  def fn(self, name, *xs):
    f = {'sqrt': pymath.sqrt, 'sin': pymath.sin, 'cos': pymath.cos, 'atan2': pymath.atan2,
         'asin': pymath.asin, 'acos': pymath.acos, 'exp': pymath.exp, 'log': pymath.log,
         'tanh': pymath.tanh, 'abs': abs, 'log1p': pymath.log1p}[name]
    try:
      return f(*xs)
    except (ValueError, OverflowError):
      return float('nan')
  def cmp(self, op, a, b):
    return {'lt': a < b, 'le': a <= b, 'eq': a == b, 'ne': a != b}[op]
  def ite(self, c, a, b): return a if c else b
  def band(self, a, b): return bool(a) and bool(b)
  def bor(self, a, b): return bool(a) or bool(b)
  def bnot(self, a): return not a


# --------------------------------------------------------------------------- helpers


def _is_dom(x):
  return isinstance(x, np.ndarray) and x.dtype == object


def _obj(x):
  a = np.empty((), dtype=object)
  a[()] = x
  return a


def emap(f, *arrs):
  """elementwise map over broadcast object arrays -> object array"""
  arrs = [a if isinstance(a, np.ndarray) else np.asarray(a) for a in arrs]
  bs = np.broadcast_arrays(*arrs) if len(arrs) > 1 else arrs
  out = np.empty(bs[0].shape, dtype=object)
  it = np.nditer(bs[0], flags=['multi_index', 'refs_ok', 'zerosize_ok'])
  for _ in it:
    i = it.multi_index
    out[i] = f(*[b[i] for b in bs])
  return out


def lift(dom, x, how='const'):
  """concrete numeric array -> domain object array"""
  x = np.asarray(x)
  if x.dtype == object:
    return x
  f = {'const': dom.const, 'lit': dom.lit, 'int': dom.fromint}[how]
  if x.dtype == bool:
    return emap(lambda b: bool(b), x)
  if np.issubdtype(x.dtype, np.integer):
    f = dom.fromint
  return emap(f, x)


def _is_float_aval(aval):
  return hasattr(aval, 'dtype') and np.issubdtype(aval.dtype, np.floating)


def _is_bool_aval(aval):
  return hasattr(aval, 'dtype') and aval.dtype == np.bool_


# --------------------------------------------------------------------------- interpreter


def eval_jaxpr(closed, args, dom):
  """Evaluate a ClosedJaxpr.  `args`: one value per invar; float inputs must be object
  arrays over `dom` (use `lift`), others concrete."""
  jaxpr = closed.jaxpr
  consts = closed.consts
  return _eval(jaxpr, consts, args, dom)


def _eval(jaxpr, consts, args, dom):
  import jax
  from jax.extend import core as jcore  # noqa: F401

  env = {}

  def read(v):
    if type(v).__name__ == 'Literal':
      val = v.val
      if _is_float_aval(v.aval):
        return emap(dom.lit, np.asarray(val))
      return np.asarray(val)
    return env[v]

  def write(v, val):
    env[v] = val

  for v, c in zip(jaxpr.constvars, consts):
    c_np = c if _is_key(c) else np.asarray(c)
    if not _is_key(c) and np.issubdtype(c_np.dtype, np.floating):
      c_np = emap(dom.const, c_np)
    write(v, c_np)
  for v, a in zip(jaxpr.invars, args):
    write(v, a)

  for eqn in jaxpr.eqns:
    ins = [read(v) for v in eqn.invars]
    outs = _apply(eqn, ins, dom)
    if not eqn.primitive.multiple_results:
      outs = [outs]
    for v, o in zip(eqn.outvars, outs):
      write(v, o)
  return [read(v) for v in jaxpr.outvars]


def _is_key(x):
  try:
    import jax
    return hasattr(x, 'dtype') and jax.dtypes.issubdtype(x.dtype, jax.dtypes.prng_key)
  except Exception:
    return False


def _concrete(x):
  return not _is_dom(x)


def _sub_jaxpr(params):
  for k in ('jaxpr', 'call_jaxpr', 'fun_jaxpr'):
    if k in params:
      j = params[k]
      if hasattr(j, 'jaxpr'):
        return j.jaxpr, j.consts
      return j, ()
  return None


def _apply(eqn, ins, dom):
  prim = eqn.primitive.name
  p = eqn.params

  # nested computations ---------------------------------------------------
  if prim in ('jit', 'pjit', 'closed_call', 'core_call', 'custom_jvp_call', 'custom_vjp_call',
              'custom_vjp_call_jaxpr', 'remat', 'checkpoint'):
    sub = _sub_jaxpr(p)
    if sub is None:
      raise Unsupported(f'{prim} without jaxpr')
    return _eval(sub[0], sub[1], ins, dom)

  if prim == 'scan':
    return _scan(eqn, ins, dom)

  # everything concrete: fold with the real primitive -----------------------
  if all(_concrete(x) for x in ins):
    out = eqn.primitive.bind(*ins, **p)
    outs = out if eqn.primitive.multiple_results else [out]
    res = []
    for o, v in zip(outs, eqn.outvars):
      if _is_key(o):
        res.append(o)
      elif _is_float_aval(v.aval):
        res.append(emap(dom.const, np.asarray(o)))
      else:
        res.append(np.asarray(o))
    return res if eqn.primitive.multiple_results else res[0]

  # make every float operand a domain array
  def D(x, aval=None):
    if _is_dom(x):
      return x
    x = np.asarray(x)
    if x.dtype == bool:
      return emap(lambda b: bool(b), x)
    if np.issubdtype(x.dtype, np.integer):
      return emap(dom.fromint, x)
    return emap(dom.const, x)

  binop = {'add': lambda a, b: a + b, 'sub': lambda a, b: a - b,
           'mul': lambda a, b: a * b, 'div': lambda a, b: a / b}
  if prim in binop:
    a, b = D(ins[0]), D(ins[1])
    if _is_bool_aval(eqn.outvars[0].aval):
      raise Unsupported(f'{prim} on bool')
    return emap(binop[prim], a, b)
  if prim == 'neg':
    return emap(lambda a: -a, D(ins[0]))
  if prim in ('sqrt', 'sin', 'cos', 'asin', 'acos', 'exp', 'log', 'tanh', 'abs', 'log1p'):
    return emap(lambda a: dom.fn(prim, a), D(ins[0]))
  if prim == 'atan2':
    return emap(lambda a, b: dom.fn('atan2', a, b), D(ins[0]), D(ins[1]))
  if prim == 'rsqrt':
    return emap(lambda a: dom.lit(1) / dom.fn('sqrt', a), D(ins[0]))
  if prim == 'square':
    return emap(lambda a: a * a, D(ins[0]))
  if prim == 'integer_pow':
    y = p['y']
    def ipow(a):
      if y == 0:
        return dom.lit(1)
      r = a
      for _ in range(abs(y) - 1):
        r = r * a
      return r if y > 0 else dom.lit(1) / r
    return emap(ipow, D(ins[0]))
  if prim == 'pow':
    e = ins[1]
    ev = None
    if _is_dom(e) and e.shape == ():
      e0 = e[()]
      if _is_lit(e0): ev = e0.args[0]
      elif isinstance(e0, (Fraction, float)): ev = Fraction(e0)
    elif _concrete(e) and np.asarray(e).shape == ():
      ev = Fraction(float(e))
    if ev is None or ev.denominator != 1 or ev < 0:
      raise Unsupported('pow with non-constant / non-natural exponent')
    n = int(ev)
    def ipow(a):
      if n == 0:
        return dom.lit(1)
      r = a
      for _ in range(n - 1):
        r = r * a
      return r
    return emap(ipow, D(ins[0]))
  if prim in ('max', 'min'):
    def mm(a, b):
      c = dom.cmp('lt', a, b)
      return dom.ite(c, b, a) if prim == 'max' else dom.ite(c, a, b)
    return emap(mm, D(ins[0]), D(ins[1]))
  if prim == 'clamp':  # clamp(lo, x, hi)
    lo, x, hi = D(ins[0]), D(ins[1]), D(ins[2])
    def cl(l, v, h):
      y = dom.ite(dom.cmp('lt', v, l), l, v)
      return dom.ite(dom.cmp('lt', h, y), h, y)
    return emap(cl, lo, x, hi)
  if prim == 'sign':
    def sg(a):
      return dom.ite(dom.cmp('lt', a, dom.lit(0)), dom.lit(-1),
                     dom.ite(dom.cmp('lt', dom.lit(0), a), dom.lit(1), dom.lit(0)))
    return emap(sg, D(ins[0]))
  if prim in ('lt', 'le', 'eq', 'ne', 'gt', 'ge'):
    a, b = D(ins[0]), D(ins[1])
    if prim == 'gt': return emap(lambda x, y: dom.cmp('lt', y, x), a, b)
    if prim == 'ge': return emap(lambda x, y: dom.cmp('le', y, x), a, b)
    return emap(lambda x, y: dom.cmp(prim, x, y), a, b)
  if prim == 'is_finite':
    return emap(lambda a: True, D(ins[0]))
  if prim == 'and':
    return emap(dom.band, D(ins[0]), D(ins[1]))
  if prim == 'or':
    return emap(dom.bor, D(ins[0]), D(ins[1]))
  if prim == 'not':
    return emap(dom.bnot, D(ins[0]))
  if prim == 'select_n':
    pred = D(ins[0])
    cases = [D(c) for c in ins[1:]]
    if len(cases) != 2:
      raise Unsupported('select_n with != 2 cases')
    return emap(lambda c, x0, x1: dom.ite(c, x1, x0), pred, cases[0], cases[1])
  if prim == 'convert_element_type':
    x = ins[0]
    new = np.dtype(p['new_dtype'])
    src_bool = _is_bool_aval(eqn.invars[0].aval)
    if np.issubdtype(new, np.floating):
      if src_bool:
        return emap(dom.frombool, D(x))
      return D(x)
    if new == np.bool_ and src_bool:
      return x
    if new == np.bool_ and _is_float_aval(eqn.invars[0].aval):
      return emap(lambda a: dom.cmp('ne', a, dom.lit(0)), D(x))
    raise Unsupported(f'convert_element_type to {new} of a symbolic value')
  if prim == 'stop_gradient' or prim == 'copy' or prim == 'copy_p':
    return ins[0]

  # structural ------------------------------------------------------------
  if prim == 'slice':
    sl = tuple(slice(s, l, st) for s, l, st in zip(
        p['start_indices'], p['limit_indices'], p['strides'] or [1] * len(p['start_indices'])))
    return D(ins[0])[sl]
  if prim == 'squeeze':
    return np.squeeze(D(ins[0]), axis=tuple(p['dimensions']))
  if prim == 'expand_dims':
    return np.expand_dims(D(ins[0]), tuple(p['dimensions']))
  if prim == 'reshape':
    return D(ins[0]).reshape(p['new_sizes'])
  if prim == 'transpose':
    return np.transpose(D(ins[0]), p['permutation'])
  if prim == 'rev':
    x = D(ins[0])
    for d in p['dimensions']:
      x = np.flip(x, d)
    return x
  if prim == 'broadcast_in_dim':
    x = D(ins[0])
    shape, bd = p['shape'], p['broadcast_dimensions']
    new_shape = [1] * len(shape)
    for i, d in enumerate(bd):
      new_shape[d] = x.shape[i]
    return np.broadcast_to(x.reshape(new_shape), shape).copy()
  if prim == 'concatenate':
    return np.concatenate([D(x) for x in ins], axis=p['dimension'])
  if prim == 'unstack':
    x = D(ins[0])
    parts = [x[(slice(None),) * p['axis'] + (i,)] for i in range(x.shape[p['axis']])]
    return [q if isinstance(q, np.ndarray) else _obj(q) for q in parts]
  if prim == 'stack':
    return np.stack([D(x) for x in ins], axis=p['axis'])
  if prim == 'pad':
    x, pv = D(ins[0]), D(ins[1])
    cfg = p['padding_config']
    if any(c[2] != 0 or c[0] < 0 or c[1] < 0 for c in cfg):
      raise Unsupported('pad with interior/negative padding')
    out = np.empty([s + c[0] + c[1] for s, c in zip(x.shape, cfg)], dtype=object)
    out[...] = pv[()]
    out[tuple(slice(c[0], c[0] + s) for s, c in zip(x.shape, cfg))] = x
    return out
  if prim == 'dot_general':
    (ca, cb), (ba, bb) = p['dimension_numbers']
    a, b = D(ins[0]), D(ins[1])
    return _dot_general(a, b, ca, cb, ba, bb, dom)
  if prim == 'reduce_sum':
    x = D(ins[0])
    return _reduce(x, p['axes'], lambda u, v: u + v, dom.lit(0))
  if prim == 'reduce_max':
    x = D(ins[0])
    return _reduce(x, p['axes'], lambda u, v: dom.ite(dom.cmp('lt', u, v), v, u), None)
  if prim == 'reduce_min':
    x = D(ins[0])
    return _reduce(x, p['axes'], lambda u, v: dom.ite(dom.cmp('lt', v, u), v, u), None)
  if prim == 'reduce_and':
    return _reduce(D(ins[0]), p['axes'], dom.band, True)
  if prim == 'reduce_or':
    return _reduce(D(ins[0]), p['axes'], dom.bor, False)
  if prim == 'cumsum':
    x = D(ins[0])
    ax = p['axis']
    x = np.moveaxis(x, ax, 0).copy()
    rng = range(1, x.shape[0])
    if p.get('reverse'):
      for i in range(x.shape[0] - 2, -1, -1):
        x[i] = emap(lambda u, v: u + v, x[i], x[i + 1])
    else:
      for i in rng:
        x[i] = emap(lambda u, v: u + v, x[i - 1], x[i])
    return np.moveaxis(x, 0, ax)
  if prim in ('dynamic_slice', 'gather', 'dynamic_update_slice', 'scatter', 'scatter-add',
              'scatter_add'):
    return _indexed(eqn, ins, dom, D)
  raise Unsupported(f'primitive {prim}')


def _reduce(x, axes, f, unit):
  axes = sorted(a % max(x.ndim, 1) for a in axes)
  for ax in reversed(axes):
    xs = np.moveaxis(x, ax, 0)
    if xs.shape[0] == 0:
      acc = np.empty(xs.shape[1:], dtype=object)
      acc[...] = unit
    else:
      acc = xs[0]
      for i in range(1, xs.shape[0]):
        acc = emap(f, acc, xs[i])
      if unit is not None and False:
        pass
    x = acc
  return x if isinstance(x, np.ndarray) else _obj(x)


def _dot_general(a, b, ca, cb, ba, bb, dom):
  if ba or bb:
    # batch dims: loop
    if len(ba) != 1 or ba[0] != 0 or bb[0] != 0:
      raise Unsupported('dot_general batch dims')
    ca2 = [c - 1 for c in ca]; cb2 = [c - 1 for c in cb]
    return np.stack([_dot_general(a[i], b[i], ca2, cb2, (), (), dom) for i in range(a.shape[0])])
  fa = [i for i in range(a.ndim) if i not in ca]
  fb = [i for i in range(b.ndim) if i not in cb]
  at = np.transpose(a, fa + list(ca))
  bt = np.transpose(b, list(cb) + fb)
  k = int(np.prod([a.shape[i] for i in ca])) if ca else 1
  am = at.reshape((-1, k))
  bm = bt.reshape((k, -1))
  out = np.empty((am.shape[0], bm.shape[1]), dtype=object)
  for i in range(am.shape[0]):
    for j in range(bm.shape[1]):
      if k == 0:
        out[i, j] = dom.lit(0)
        continue
      acc = am[i, 0] * bm[0, j]
      for t in range(1, k):
        acc = acc + am[i, t] * bm[t, j]
      out[i, j] = acc
  return out.reshape([a.shape[i] for i in fa] + [b.shape[i] for i in fb])


def _indexed(eqn, ins, dom, D):
  """gather / scatter / dynamic slices with *concrete* indices: run the real primitive on an
  integer index array to learn the routing, then route the domain elements."""
  import jax.numpy as jnp
  prim = eqn.primitive.name
  p = eqn.params
  if prim == 'dynamic_slice':
    x, idx = ins[0], ins[1:]
    if not all(_concrete(i) for i in idx):
      raise Unsupported('dynamic_slice with symbolic index')
    x = D(x)
    tags = np.arange(x.size).reshape(x.shape)
    r = np.asarray(eqn.primitive.bind(jnp.asarray(tags), *idx, **p))
    return x.reshape(-1)[r]
  if prim == 'gather':
    x, idx = ins
    if not _concrete(idx):
      raise Unsupported('gather with symbolic index')
    x = D(x)
    tags = np.arange(x.size).reshape(x.shape)
    p2 = dict(p); p2['fill_value'] = -1 if p.get('fill_value') is None else -1
    r = np.asarray(eqn.primitive.bind(jnp.asarray(tags), idx, **p))
    flat = x.reshape(-1)
    return emap(lambda t: flat[int(t)], r)
  raise Unsupported(f'{prim} on symbolic operand')


def _scan(eqn, ins, dom):
  p = eqn.params
  if 'num_consts' in p:
    n_consts, n_carry = p['num_consts'], p['num_carry']
  else:                      # jax >= 0.11: flat trees `ft_in` / `ft_out`, plain Jaxpr body
    parts = p['ft_in'].unpack()
    n_consts, n_carry = len(parts[0].vals), len(parts[1].vals)
  length, reverse = p['length'], p['reverse']
  j = p['jaxpr']
  bconsts = tuple(getattr(j, 'consts', ()) or ())
  body = getattr(j, 'jaxpr', j)
  if not hasattr(body, 'eqns'):
    body = j
  consts, carry, xs = list(ins[:n_consts]), list(ins[n_consts:n_consts + n_carry]), ins[n_consts + n_carry:]
  n_y = len(body.outvars) - n_carry
  if len(eqn.outvars) != n_carry + n_y:
    raise Unsupported('scan with forwarded outputs')
  order = range(length - 1, -1, -1) if reverse else range(length)
  collected = {}
  for t in order:
    xt = [x[t] if isinstance(x, np.ndarray) else np.asarray(x)[t] for x in xs]
    xt = [x if isinstance(x, np.ndarray) else _obj(x) for x in xt]
    outs = _eval(body, bconsts, consts + carry + xt, dom)
    carry = list(outs[:n_carry])
    collected[t] = outs[n_carry:]
  ys = []
  for k in range(n_y):
    elems = [collected[t][k] for t in range(length)]
    if any(_is_dom(e) for e in elems):
      elems = [e if _is_dom(e) else lift(dom, e) for e in elems]
    ys.append(np.stack(elems) if elems else np.empty((0,), dtype=object))
  return carry + ys


# --------------------------------------------------------------------------- public helpers


def trace(fn, *example_args):
  import jax
  return jax.make_jaxpr(fn)(*example_args)


def run(closed, args, dom):
  """args: numpy arrays of python numbers; floats are lifted into `dom`."""
  lifted = []
  for a, v in zip(args, closed.jaxpr.invars):
    if _is_float_aval(v.aval):
      a = np.asarray(a, dtype=object) if not _is_dom(a) else a
      lifted.append(a)
    else:
      lifted.append(np.asarray(a))
  return eval_jaxpr(closed, lifted, dom)
