"""C03 — simulation is differentiable: gradients are finite and correct.

correspond : (a) leaf functions: `jax.jvp` of the real `math.safe_norm / normalize / rotate /
             quat_rot_axis / safe_arccos / safe_arcsin` vs the dual-number run of the Lean model
             (`Driver/C03.lean`), at regular and at the singular inputs (zero vector, |x| = 1, …);
             (b) `jax.jvp` of the real `kinematics.forward` w.r.t. (q, qd) vs `Kin.forward` over
             `Dual Float`, on generator models, at regular states and at q = 0, qd = 0;
             (c) the property's own observation (Spec evaluation on the implementation): `jax.grad`
             of a weighted sum of x.pos, xd.vel, q, qd after init + n steps of each native pipeline
             w.r.t. (q, qd, ctrl): finite at regular and singular inputs; equal to central finite
             differences away from contact / limit switching.
search     : (c) with a larger budget.
"""
from __future__ import annotations

import os
import sys

import numpy as np

HERE = os.path.dirname(os.path.abspath(__file__))
sys.path.insert(0, HERE)
import check as C  # noqa: E402
import modelgen  # noqa: E402
import wire  # noqa: E402

TOL = 1e-8


def _setup():
  import jax
  jax.config.update('jax_enable_x64', True)


# ----------------------------------------------------------------------------- (a) leaves


def leaf_cases(ctx, n):
  _setup()
  import jax
  import jax.numpy as jp
  from brax import math as m
  rng = np.random.default_rng(ctx.seed)
  fns = {
      'safeNorm3': (3, lambda x: m.safe_norm(x)[None]),
      'safeNorm4': (4, lambda x: m.safe_norm(x)[None]),
      'normalize3': (3, lambda x: m.normalize(x)[0]),
      'normalize4': (4, lambda x: m.normalize(x)[0]),
      'rotate': (7, lambda x: m.rotate(x[:3], x[3:])),
      'quatRotAxis': (4, lambda x: m.quat_rot_axis(x[:3], x[3])),
      'acos': (1, lambda x: m.safe_arccos(x[0])[None]),
      'asin': (1, lambda x: m.safe_arcsin(x[0])[None]),
  }
  singular = {
      'safeNorm3': [np.zeros(3), np.array([1e-9, 0, 0]), np.array([0, 0, 2e-8])],
      'safeNorm4': [np.zeros(4)],
      'normalize3': [np.zeros(3), np.array([1e-9, -1e-9, 0])],
      'normalize4': [np.zeros(4)],
      'acos': [np.array([1.0]), np.array([-1.0]), np.array([1.0 - 1e-7]), np.array([0.0])],
      'asin': [np.array([1.0]), np.array([-1.0]), np.array([-1.0 + 1e-7]), np.array([0.0])],
      'rotate': [np.zeros(7)], 'quatRotAxis': [np.zeros(4)],
  }
  lines, expect, meta = [], [], []
  n_sing = 0
  for name, (k, f) in fns.items():
    jf = jax.jit(lambda x, t, f=f: jax.jvp(f, (x,), (t,)))
    pts = [np.round(rng.uniform(-1 if name in ('acos', 'asin') else -2, 1 if name in ('acos', 'asin') else 2, size=k), 4)
           for _ in range(n)] + singular[name]
    n_sing += len(singular[name])
    for x in pts:
      t = np.round(rng.uniform(-1, 1, size=k), 4)
      p, tan = jf(jp.asarray(x, dtype=jp.float64), jp.asarray(t, dtype=jp.float64))
      lines.append(' '.join(['leaf', name, str(k)] + [wire.f2hex(v) for v in x] + [wire.f2hex(v) for v in t]))
      expect.append(np.concatenate([np.asarray(p), np.asarray(tan)]))
      meta.append((name, x.tolist(), t.tolist()))
  out = C.run_driver('Driver/C03.lean', lines)
  dis, fails = [], []
  for o, e, (name, x, t) in zip(out, expect, meta):
    if not np.all(np.isfinite(e)):
      fails.append(dict(key=f'leaf-nonfinite:{name}', what=f'jax.jvp of {name} is not finite', x=x, t=t, jvp=e.tolist()))
      continue
    if o.startswith('bad'):
      dis.append(dict(what=f'driver {o} for {name}', x=x)); continue
    got = np.array([wire.parse(tk) for tk in o.split()])
    if got.shape != e.shape or not np.allclose(got, e, rtol=TOL, atol=TOL, equal_nan=False):
      dis.append(dict(what=f'dual-number model of {name} differs from jax.jvp', x=x, t=t, lean=got.tolist(), jax=e.tolist()))
  return len(lines), n_sing, dis, fails


# ----------------------------------------------------------------------------- (b) kinematics


def kin_cases(ctx, n_models):
  _setup()
  import jax
  import jax.numpy as jp
  from brax import kinematics
  from brax.io import mjcf
  rng = np.random.default_rng(ctx.seed + 3)
  lines, expect, meta = [], [], []
  for mi in range(n_models):
    xml, mt = modelgen.gen_model(rng, n_links=(1, 4))
    sysm = mjcf.loads(xml)
    st = wire.sys_tokens(sysm)
    def f(q, qd, sysm=sysm):
      x, xd = kinematics.forward(sysm, q, qd)
      return jp.concatenate([x.pos, x.rot, xd.ang, xd.vel], axis=1)
    jf = jax.jit(lambda q, qd, tq, tqd, f=f: jax.jvp(f, (q, qd), (tq, tqd)))
    states = [modelgen.rand_state(rng, sysm)]
    # singular: zero joint angles / velocities (free root quaternions stay unit)
    q0, qd0 = modelgen.rand_state(rng, sysm)
    qz = q0.copy()
    pos = 0
    for t in sysm.link_types:
      w = 7 if t == 'f' else int(t)
      if t != 'f':
        qz[pos:pos + w] = 0.0
      pos += w
    states.append((qz, np.zeros_like(qd0)))
    for q, qd in states:
      tq = np.round(rng.uniform(-1, 1, size=q.shape), 4); tqd = np.round(rng.uniform(-1, 1, size=qd.shape), 4)
      p, tan = jf(jp.asarray(q), jp.asarray(qd), jp.asarray(tq), jp.asarray(tqd))
      lines.append(' '.join(['jvpfwd'] + st + wire.vec_tokens(q) + wire.vec_tokens(qd) + wire.vec_tokens(tq) + wire.vec_tokens(tqd)))
      expect.append(np.concatenate([np.asarray(p), np.asarray(tan)], axis=1))
      meta.append(dict(xml=xml, q=q.tolist(), qd=qd.tolist(), tq=tq.tolist(), tqd=tqd.tolist(), types=mt['link_types']))
  out = C.run_driver('Driver/C03.lean', lines)
  dis, fails = [], []
  for o, e, mt in zip(out, expect, meta):
    if not np.all(np.isfinite(e)):
      fails.append(dict(key=f'kin-nonfinite:{mt["types"]}', what='jax.jvp of kinematics.forward is not finite', **mt)); continue
    if o.startswith('bad'):
      dis.append(dict(what=f'driver {o}', **mt)); continue
    got = np.array([wire.parse(tk) for tk in o.split()]).reshape(e.shape[0], 26)
    # quaternion sign: compare primal up to sign and flip the tangent accordingly
    ok = True
    for i in range(e.shape[0]):
      s = 1.0 if np.dot(got[i, 3:7], e[i, 3:7]) >= 0 else -1.0
      g = got[i].copy(); g[3:7] *= s; g[16:20] *= s
      if not np.allclose(g, e[i], rtol=TOL, atol=TOL):
        ok = False
        dis.append(dict(what=f'tangent of Kin.forward over dual numbers differs from jax.jvp(kinematics.forward) at link {i}',
                        lean=g.tolist(), jax=e[i].tolist(), **mt))
        break
  return len(lines), dis, fails


# ----------------------------------------------------------------------------- (c) pipelines


def grad_case(rng, pipeline_name, n_steps, singular, opts=None, active_limits=False, aligned=False, qd_range=0.5):
  """returns None if ok else failure dict"""
  _setup()
  import importlib
  import jax
  import jax.numpy as jp
  from brax.io import mjcf
  P = importlib.import_module(f'brax.{pipeline_name}.pipeline')
  o = dict(n_links=(1, 3), orthogonal=True, limits=0.0, actuators=(1, 2), stack=(1, 2),
           custom={'matrix_inv_iterations': 0}, timestep=0.002)
  o.update(opts or {})
  xml, mt = modelgen.gen_model(rng, **o)
  sysm = mjcf.loads(xml)
  q, qd = modelgen.rand_state(rng, sysm, q_range=0.6, qd_range=qd_range)
  ctrl = rng.uniform(-1, 1, size=sysm.act_size())
  if active_limits:
    # joint limits ACTIVE and well away from the switching point: limited joints are put 0.05-0.3 beyond their range
    lim = np.asarray(sysm.dof.limit[0]), np.asarray(sysm.dof.limit[1])
    qpos = dpos = 0
    moved = 0
    for t in sysm.link_types:
      wq, wd = (7, 6) if t == 'f' else (int(t), int(t))
      if t != 'f':
        for j in range(wd):
          lo, hi = float(lim[0][dpos + j]), float(lim[1][dpos + j])
          if np.isfinite(lo) and np.isfinite(hi) and (moved == 0 or rng.random() < 0.6):
            m = float(rng.uniform(0.05, 0.3))
            q[qpos + j] = hi + m if rng.random() < 0.5 else lo - m
            moved += 1
      qpos += wq; dpos += wd
    if moved == 0:
      return None
  if singular:
    # at rest, zero joint angles, zero control: every whole-vector guard (safe_norm of a zero velocity, coincident
    # anchors, contact-point velocity exactly along the normal) sits on its singular point
    qd = np.zeros_like(qd)
    ctrl = np.zeros_like(ctrl)
    pos = 0
    for t in sysm.link_types:
      w = 7 if t == 'f' else int(t)
      if t != 'f':
        q[pos:pos + w] = 0.0
        if aligned:
          # axis-aligned rotations: joint coordinates at exact multiples of pi/2 (gimbal configurations of stacks)
          q[pos:pos + w] = rng.choice([0.0, np.pi / 2, -np.pi / 2, np.pi], size=w)
          if w >= 2:
            q[pos + 1] = rng.choice([np.pi / 2, -np.pi / 2])      # the gimbal configuration of the stack
      elif aligned:
        h = np.sqrt(0.5)
        q[pos + 3:pos + 7] = np.array([[1, 0, 0, 0], [h, h, 0, 0], [h, 0, h, 0], [h, 0, 0, -h], [0, 1, 0, 0], [0, 0, 0, 1]][int(rng.integers(0, 6))], dtype=float)
      pos += w
  nq, nv = q.size, qd.size
  wts = rng.uniform(0.5, 1.5, size=4)
  def loss(z):
    qq, qqd, u = z[:nq], z[nq:nq + nv], z[nq + nv:]
    st = P.init(sysm, qq, qqd)
    for _ in range(n_steps):
      st = P.step(sysm, st, u)
    return (wts[0] * jp.sum(st.x.pos) + wts[1] * jp.sum(st.xd.vel) + wts[2] * jp.sum(st.q) + wts[3] * jp.sum(st.qd))
  z0 = jp.asarray(np.concatenate([q, qd, ctrl]))
  g = np.asarray(jax.jit(jax.grad(loss))(z0))
  base = dict(xml=xml, q=q.tolist(), qd=qd.tolist(), ctrl=ctrl.tolist(), pipeline=pipeline_name, n_steps=n_steps,
              singular=singular, active_limits=active_limits, aligned=aligned, weights=wts.tolist(), types=mt['link_types'])
  if not np.all(np.isfinite(g)):
    if not np.isfinite(float(jax.jit(loss)(z0))):
      return None      # the forward value itself is not finite (e.g. singular mass matrix at gimbal lock without armature): not a gradient matter
    return dict(key=f'grad-nonfinite:{pipeline_name}', what=f'jax.grad through {n_steps} {pipeline_name} steps is not finite', grad=g.tolist(), **base)
  if singular:
    return None       # finiteness only at the singular inputs
  # central differences in float64 (free-root quaternion coordinates are perturbed off the unit sphere, as jax.grad sees them)
  jl = jax.jit(loss)
  def fd_at(h, idx):
    out = np.zeros(len(idx))
    for k, i in enumerate(idx):
      e = np.zeros(z0.size); e[i] = h
      out[k] = (float(jl(z0 + e)) - float(jl(z0 - e))) / (2 * h)
    return out
  tol = lambda a, b: np.abs(a - b) <= 2e-4 * np.abs(b) + 2e-5 * (1 + np.abs(g).max())
  fd = fd_at(1e-6, range(z0.size))
  # the generalized constraint solver stops on a tolerance, so the loss has tiny jump discontinuities (a change of the
  # iteration count): a central difference that straddles one is meaningless.  A component that disagrees at h = 1e-6 is
  # re-measured at h = 1e-7 and 1e-5; the gradient is wrong only if it disagrees at every scale.
  bad = [i for i in range(z0.size) if not tol(g[i], fd[i])]
  for h2 in (1e-7, 1e-5):
    if not bad:
      break
    fd2 = fd_at(h2, bad)
    for k, i in enumerate(list(bad)):
      if tol(g[i], fd2[k]):
        fd[i] = fd2[k]
        bad.remove(i)
  if not np.allclose(g, fd, rtol=2e-4, atol=2e-5 * (1 + np.abs(g).max())):
    return dict(key=f'grad-vs-fd:{pipeline_name}', what=f'jax.grad through {n_steps} {pipeline_name} steps differs from central differences',
                grad=g.tolist(), fd=fd.tolist(), **base)
  return None


def grad_cases(ctx, n_per_pipeline, seed_offset=0):
  rng = np.random.default_rng(ctx.seed + 900 + seed_offset)
  fails, n = [], 0
  for name in ('generalized', 'spring', 'positional'):
    for k in range(n_per_pipeline * 2):
      sing = (k % 2 == 1)
      o = dict(n_links=(1, 2)) if n_per_pipeline == 1 else {}
      if sing:
        # singular inputs are taken on models WITH collision candidates (touching or not): contact code is differentiated too
        o.update(collide=True, ground=True, geoms=('sphere', 'capsule'))
        if (k // 2) % 2 == 0:
          # a free body dropped at rest: its contact-point velocity is exactly along the contact normal, so every
          # tangential quantity (friction direction, drag) is the zero vector
          o.update(n_links=(1, 1), roots='free', geoms=('sphere',))
      r = grad_case(rng, name, n_steps=int(rng.integers(1, 3)), singular=sing, opts=o)
      n += 1
      if r is not None:
        fails.append(r)
    # axis-aligned rotations: stacked hinges at exact multiples of pi/2, roots at axis-aligned orientations, at rest
    for k in range(n_per_pipeline * 3):
      r = grad_case(rng, name, n_steps=1, singular=True, aligned=True,
                    opts=dict(n_links=(1, 2) if k % 3 == 0 else (1, 1), stack=(2, 3), kinds='hinge',
                              roots='mixed' if k % 3 == 0 else 'world', armature=1.0))
      n += 1
      if r is not None:
        fails.append(r)
    # joints without rotational dofs (three stacked slides: every rotational axis is the zero vector; arctan2(0, 0) inside
    # signed_angle had a nan gradient on the pinned tree: fixed in /repo by 549288a)
    for k in range(n_per_pipeline):
      r = grad_case(rng, name, n_steps=1, singular=False,
                    opts=dict(n_links=(1, 1), stack=(3, 3), kinds='slide', roots='world'))
      n += 1
      if r is not None:
        fails.append(r)
    if name == 'generalized':
      # the APPROXIMATE mass-matrix inverse (mjcf default: 10 warm-started Newton-Schulz iterations, first used in the second
      # step) on a fast arm with a large time step, where the iteration does not converge: the gradient must still be the
      # derivative of what is computed
      for k in range(n_per_pipeline):
        r = grad_case(rng, name, n_steps=3, singular=False, qd_range=12.0,
                      opts=dict(n_links=(3, 3), stack=(1, 1), kinds='hinge', topology='chain', roots='world', timestep=0.02,
                                custom={'matrix_inv_iterations': 10}, damping=0.0, armature=0.0))
        n += 1
        if r is not None:
          fails.append(r)
    # joint limits active, away from the switching point: the derivative of the limit/constraint forces is compared too
    # (the generalized pipeline solves for the constraint force iteratively: three cases there)
    for k in range(n_per_pipeline * (3 if name == 'generalized' else 1)):
      r = grad_case(rng, name, n_steps=2, singular=False, active_limits=True,
                    opts=dict(n_links=(1, 2), limits=1.0, roots='world'))
      n += 1
      if r is not None:
        fails.append(r)
  return n, fails


def correspond(ctx):
  n_leaf, n_sing, dis_l, fails_l = leaf_cases(ctx, ctx.budget(25, 250))
  n_kin, dis_k, fails_k = kin_cases(ctx, ctx.budget(6, 60))
  n_g, fails_g = grad_cases(ctx, ctx.budget(1, 5))
  return dict(
      evaluations=n_leaf + n_kin + n_g, distinct_nontrivial=n_leaf + n_kin,
      rule='(a) 8 leaf functions x random points + singular points (zero vectors, |x|=1, x=1-1e-7): jax.jvp vs dual-number Lean model '
           '(1e-8); (b) generator models x {random state, q=0 & qd=0}: jax.jvp(kinematics.forward) vs Kin.forward over Dual Float; '
           '(c) jax.grad through init + 1-2 steps of generalized/spring/positional w.r.t. (q, qd, ctrl): finite (also at q=0, qd=0, and at axis-aligned joint angles k*pi/2 of hinge stacks / axis-aligned root orientations) and '
           'equal to central differences (regular inputs without limits; and inputs with joint limits ACTIVE 0.05-0.3 beyond the range, away from switching)',
      samples=[dict(leaf='normalize3', x=[0, 0, 0]), dict(kin='generator model, q=0, qd=0')],
      disagreements=dis_l + dis_k, spec_failures=fails_l + fails_k + fails_g,
      trusted_base=['correspondence harness corr_C03.py; jax.jvp/jax.grad as the implementation-side derivative',
                    'dual-number scalars lean/Brax/Model/Dual.lean (custom JVP rules of safe_arccos/safe_arcsin built in)'],
      assumptions=['that jax.grad of a multi-step rollout equals the analytic derivative is JAX\'s contract; the theorems cover the '
                   'guards and custom JVP rules (brax code), the rest is tied by the dual-number correspondence and finite differences',
                   'exact reals in theorems; round-off not modelled'],
      explanation='Props/C03.lean proves positivity of every guarded sqrt argument/denominator and correctness of the custom JVP rules.',
      extra=dict(leaf_cases=n_leaf, singular_leaf_points=n_sing, kinematics_cases=n_kin, pipeline_grad_cases=n_g))


def search(ctx, broken, corr):
  _, fails = grad_cases(ctx, ctx.budget(4, 30), seed_offset=1)
  return fails


def replay(ctx, rp):
  if rp.get('kind') != 'failing-input':
    return True, f'replay names broken obligations only: {rp.get("broken")}'
  return True, 'replay of gradient cases: re-run ./bin/check C03 with the same VERIF_SEED (cases are seed-deterministic)'
