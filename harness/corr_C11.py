"""C11 — actuators: `actuator.to_tau` / actuator table of `mjcf.load_model` vs MuJoCo.

Triangle (DESIGN 2.2):

  real `to_tau(sys, u, q, qd)`  ==  Lean `Act.toTau` (driver, exact at Rat)        [correspondence]
  real `sys.actuator`           ==  Lean `Act.ofMj` on the MjModel fields           [loader tie]
  Lean `Act.toTau (ofMj m)`     ==  Lean `Mj.qfrcActuator m`                        [theorem toTau_eq_mj;
                                                                                    instance re-checked]
  Lean `Mj.qfrcActuator`        ~   real MuJoCo `qfrc_actuator` (mj_forward), 1e-9  [second leg]

All data are small dyadic rationals (multiples of 1/4 resp. 1/8), so the float64 evaluation of the
real code is *exact* (every intermediate has < 20 significant bits) and is compared for equality
with the Lean model run at `Rat`.

spec failures (implementation contradicts the property, independent of the Lean model):
real `to_tau` vs real MuJoCo `qfrc_actuator`, vs an independent python/Fraction statement of
MuJoCo's rule, and the laws (zero on unactuated dofs, monotone, constant outside the control
range, bound) evaluated on the real function.
"""
from __future__ import annotations

import hashlib
import os
import sys
from fractions import Fraction

import numpy as np

HERE = os.path.dirname(os.path.abspath(__file__))
sys.path.insert(0, HERE)
import check as C  # noqa: E402

DRIVER = 'Driver/C11.lean'
INF = float('inf')

# ----------------------------------------------------------------------------- generator

AXES = ['1 0 0', '0 1 0', '0 0 1']
GEARS_POS = [0.25, 0.5, 1, 1, 1.5, 2, 3]
GEARS_ANY = [-2, -1, -0.5, 0, 0.25, 0.5, 1, 1.5, 2, 3]
KS = [0.25, 0.5, 1, 1.5, 2, 3]


def _range(rng, lim):
  """lo < hi, multiples of 1/4 in [-lim, lim]"""
  n = int(lim * 4)
  lo = int(rng.integers(-n, n))
  hi = int(rng.integers(lo + 1, n + 1))
  return lo / 4.0, hi / 4.0


def gen_desc(rng, nonneg=False, max_act=10):
  """description of a small model: optional free root, 1-3 bodies with a 1-3 joint stack each
  (hinge / slide), 0-10 actuators of mixed kinds on those joints."""
  d = {}
  d['free_root'] = bool(rng.random() < 0.3)
  nb = int(rng.integers(1, 4))
  bodies, njoint = [], 0
  for b in range(nb):
    k = int(rng.choice([1, 2, 3], p=[0.4, 0.35, 0.25]))
    combos = [(t, a) for t in ('hinge', 'slide') for a in range(3)]
    pick = rng.choice(len(combos), size=k, replace=False)
    joints = []
    for c in pick:
      joints.append(dict(name=f'j{njoint}', type=combos[c][0], axis=AXES[combos[c][1]]))
      njoint += 1
    parent = int(rng.integers(-1, b))          # -1: world (or the free root when present)
    bodies.append(dict(parent=parent, joints=joints,
                       pos='%g %g %g' % tuple(rng.integers(-2, 3, size=3) / 4.0 + np.array([0, 0, 0.5]))))
  d['bodies'] = bodies
  r = rng.random()
  nu = 0 if r < 0.06 else int(rng.integers(1, max_act + 1))
  # several actuators per joint: draw joints from a small pool
  pool = rng.choice(njoint, size=max(1, min(njoint, int(rng.integers(1, 4)))), replace=False)
  acts = []
  for _ in range(nu):
    j = int(rng.choice(pool)) if rng.random() < 0.7 else int(rng.integers(0, njoint))
    kind = str(rng.choice(['motor', 'position', 'velocity', 'general'], p=[0.35, 0.3, 0.25, 0.1]))
    a = dict(kind=kind, joint=f'j{j}')
    a['gear'] = float(rng.choice(GEARS_POS if (nonneg or rng.random() < 0.6) else GEARS_ANY))
    if kind == 'position':
      a['kp'] = float(rng.choice(KS))
      if rng.random() < 0.4:
        a['kv'] = float(rng.choice(KS))
    elif kind == 'velocity':
      a['kv'] = float(rng.choice(KS))
    elif kind == 'general':
      g = [0.5, 1, 2] if nonneg else [-1.5, -1, -0.5, 0.5, 1, 2]
      a['gainprm'] = float(rng.choice(g))
      if rng.random() < 0.7:
        a['biasprm'] = (0.0, float(rng.choice([-2, -1, -0.5, 0, 0.5, 1])), float(rng.choice([-1, -0.5, 0, -0.25, -2])))  # > 0 would be read as a damping ratio
    m = rng.random()
    a['ctrl'] = 'none' if m < 0.35 else 'auto' if m < 0.65 else 'true' if m < 0.9 else 'false'
    if a['ctrl'] != 'none':
      a['ctrlrange'] = _range(rng, 2.5)
    m = rng.random()
    a['force'] = 'none' if m < 0.4 else 'auto' if m < 0.7 else 'true' if m < 0.92 else 'false'
    if a['force'] != 'none':
      a['forcerange'] = _range(rng, 4.0)
    acts.append(a)
  d['acts'] = acts
  return d


def _act_xml(a):
  s = f'<{a["kind"]} joint="{a["joint"]}" gear="{a["gear"]:g}"'
  if 'kp' in a:
    s += f' kp="{a["kp"]:g}"'
  if 'kv' in a:
    s += f' kv="{a["kv"]:g}"'
  if 'gainprm' in a:
    s += f' gainprm="{a["gainprm"]:g}"'
  if 'biasprm' in a:
    s += ' biastype="affine" biasprm="%g %g %g"' % a['biasprm']
  for key, attr in (('ctrl', 'ctrl'), ('force', 'force')):
    mode = a[key]
    if mode == 'none':
      continue
    lo, hi = a[key + 'range']
    s += f' {attr}range="{lo:g} {hi:g}"'
    if mode in ('true', 'false'):
      s += f' {attr}limited="{mode}"'
  return s + '/>'


def to_xml(d):
  out = ['<mujoco>', '<option timestep="0.01"/>', '<worldbody>']
  children = {}
  for i, b in enumerate(d['bodies']):
    children.setdefault(b['parent'], []).append(i)

  def emit(i, ind):
    b = d['bodies'][i]
    out.append(f'{ind}<body name="b{i}" pos="{b["pos"]}">')
    for j in b['joints']:
      out.append(f'{ind} <joint name="{j["name"]}" type="{j["type"]}" axis="{j["axis"]}"/>')
    out.append(f'{ind} <geom type="sphere" size="0.1" mass="1" contype="0" conaffinity="0"/>')
    for c in children.get(i, []):
      emit(c, ind + ' ')
    out.append(f'{ind}</body>')

  if d['free_root']:
    out.append(' <body name="root" pos="0 0 1"><freejoint name="rootj"/>')
    out.append('  <geom type="sphere" size="0.1" mass="1" contype="0" conaffinity="0"/>')
    for c in children.get(-1, []):
      emit(c, '  ')
    out.append(' </body>')
  else:
    for c in children.get(-1, []):
      emit(c, ' ')
  out.append('</worldbody>')
  if d['acts']:
    out.append('<actuator>')
    out += [' ' + _act_xml(a) for a in d['acts']]
    out.append('</actuator>')
  out.append('</mujoco>')
  return '\n'.join(out)


# ----------------------------------------------------------------------------- wire helpers


class NonFinite:
  """a nan/inf produced by the implementation: equal to nothing (so every exact comparison reports it)"""

  def __init__(self, x):
    self.x = x

  def __eq__(self, other):
    return False

  def __ne__(self, other):
    return True

  def __float__(self):
    return float(self.x)

  def __repr__(self):
    return repr(self.x)


def fr(x):
  x = float(x)
  return Fraction(x) if np.isfinite(x) else NonFinite(x)


def tok(x):
  x = float(x)
  if x == INF:
    return 'inf'
  if x == -INF:
    return '-inf'
  f = Fraction(x)
  return str(f.numerator) if f.denominator == 1 else f'{f.numerator}/{f.denominator}'


def parse_vals(s):
  return [Fraction(t) for t in s.split()]


def _dyadic_guard(vals, den, what):
  for v in vals:
    v = float(v)
    if np.isinf(v):
      continue
    f = Fraction(v)
    if f.denominator > den or abs(f) > 64:
      raise RuntimeError(f'harness: {what} value {v} is not a small dyadic (exactness guard)')


def mj_tokens(mj):
  import mujoco
  t = [str(mj.nq), str(mj.nv), str(mj.njnt)]
  for j in range(mj.njnt):
    t += [str(int(mj.jnt_type[j])), str(int(mj.jnt_qposadr[j])), str(int(mj.jnt_dofadr[j]))]
  t.append(str(mj.nu))
  for k in range(mj.nu):
    vals = [mj.actuator_gainprm[k, 0], *mj.actuator_biasprm[k, :3], mj.actuator_gear[k, 0],
            *mj.actuator_ctrlrange[k], *mj.actuator_forcerange[k]]
    _dyadic_guard(vals, 8, 'MjModel actuator')
    t += ['1' if mj.actuator_trntype[k] == mujoco.mjtTrn.mjTRN_JOINT else '0',
          str(int(mj.actuator_trnid[k, 0])), tok(mj.actuator_gainprm[k, 0]),
          str(int(mj.actuator_biastype[k])),
          tok(mj.actuator_biasprm[k, 0]), tok(mj.actuator_biasprm[k, 1]), tok(mj.actuator_biasprm[k, 2]),
          tok(mj.actuator_gear[k, 0]),
          '1' if mj.actuator_ctrllimited[k] == 1 else '0', tok(mj.actuator_ctrlrange[k, 0]), tok(mj.actuator_ctrlrange[k, 1]),
          '1' if mj.actuator_forcelimited[k] == 1 else '0', tok(mj.actuator_forcerange[k, 0]), tok(mj.actuator_forcerange[k, 1])]
  return t


def rows_of(act):
  """`brax.base.Actuator` -> list of rows (python numbers)"""
  n = int(np.asarray(act.q_id).shape[0])
  g = lambda x: np.asarray(x)
  rows = []
  for k in range(n):
    rows.append(dict(q_id=int(g(act.q_id)[k]), qd_id=int(g(act.qd_id)[k]),
                     clo=float(g(act.ctrl_range)[k, 0]), chi=float(g(act.ctrl_range)[k, 1]),
                     flo=float(g(act.force_range)[k, 0]), fhi=float(g(act.force_range)[k, 1]),
                     gain=float(g(act.gain)[k]), gear=float(g(act.gear)[k]),
                     bias_q=float(g(act.bias_q)[k]), bias_qd=float(g(act.bias_qd)[k])))
  return rows


ROW_KEYS = ['q_id', 'qd_id', 'clo', 'chi', 'flo', 'fhi', 'gain', 'gear', 'bias_q', 'bias_qd']


def row_tokens(r):
  if r['clo'] == INF or r['flo'] == INF or r['chi'] == -INF or r['fhi'] == -INF or r['q_id'] < 0 or r['qd_id'] < 0:
    raise RuntimeError(f'harness: actuator row not representable in the model: {r}')
  _dyadic_guard([r[k] for k in ROW_KEYS[2:]], 8, 'actuator row')
  return [str(r['q_id']), str(r['qd_id'])] + [tok(r[k]) for k in ROW_KEYS[2:]]


def state_tokens(q, qd, u):
  _dyadic_guard(list(q) + list(qd) + list(u), 64, 'state')
  return [str(len(q))] + [tok(x) for x in q] + [str(len(qd))] + [tok(x) for x in qd] + [str(len(u))] + [tok(x) for x in u]


def parse_rows(toks):
  """answer of C11.load -> (wf, rows)"""
  wf = toks[0] == 'wf=1'
  n = int(toks[1])
  rows, p = [], 2
  for _ in range(n):
    r = {}
    r['q_id'], r['qd_id'] = int(toks[p]), int(toks[p + 1])
    for i, k in enumerate(ROW_KEYS[2:]):
      t = toks[p + 2 + i]
      r[k] = INF if t == 'inf' else -INF if t == '-inf' else float(Fraction(t))
    rows.append(r)
    p += 10
  return wf, rows


# ----------------------------------------------------------------------------- oracles


def real_tau(sys_, u, q, qd):
  import jax.numpy as jp
  from brax import actuator
  return np.asarray(actuator.to_tau(sys_, jp.asarray(u, dtype=jp.float64), jp.asarray(q, dtype=jp.float64),
                                    jp.asarray(qd, dtype=jp.float64)), dtype=np.float64)


def mujoco_qfrc(mj, data, u, q, qd):
  import mujoco
  data.qpos[:] = q
  data.qvel[:] = qd
  data.ctrl[:] = u
  mujoco.mj_forward(mj, data)
  return np.array(data.qfrc_actuator), np.array(data.actuator_force)


def py_spec(mj, u, q, qd):
  """independent statement of MuJoCo's rule over Fractions, from the MjModel fields"""
  F = Fraction
  qfrc = [F(0)] * mj.nv
  forces = []
  for k in range(mj.nu):
    j = int(mj.actuator_trnid[k, 0])
    assert mj.actuator_trntype[k] == 0 and mj.jnt_type[j] in (2, 3)
    gear = fr(mj.actuator_gear[k, 0])
    length = gear * fr(q[mj.jnt_qposadr[j]])
    vel = gear * fr(qd[mj.jnt_dofadr[j]])
    c = fr(u[k])
    if mj.actuator_ctrllimited[k]:
      lo, hi = map(fr, mj.actuator_ctrlrange[k])
      c = lo if c < lo else hi if c > hi else c
    f = fr(mj.actuator_gainprm[k, 0]) * c
    if mj.actuator_biastype[k] == 1:
      b = mj.actuator_biasprm[k]
      f += fr(b[0]) + fr(b[1]) * length + fr(b[2]) * vel
    if mj.actuator_forcelimited[k]:
      lo, hi = map(fr, mj.actuator_forcerange[k])
      f = lo if f < lo else hi if f > hi else f
    forces.append(f)
    qfrc[mj.jnt_dofadr[j]] += gear * f
  return qfrc, forces


# ----------------------------------------------------------------------------- states and controls


def gen_state(rng, mj, desc):
  q = (rng.integers(-12, 13, size=mj.nq) / 4.0)
  qd = (rng.integers(-12, 13, size=mj.nv) / 4.0)
  if desc['free_root']:
    q[3:7] = [1.0, 0.0, 0.0, 0.0]
  if rng.random() < 0.05:
    q[:] = 0.0
    if desc['free_root']:
      q[3] = 1.0
  if rng.random() < 0.05:
    qd[:] = 0.0
  return q, qd


def gen_ctrl(rng, rows, q, qd):
  """controls in [-3,3] (multiples of 1/4), with values exactly on / beyond the control bounds and
  values that put the raw force exactly on a force bound"""
  u = rng.integers(-12, 13, size=len(rows)) / 4.0
  for k, r in enumerate(rows):
    m = rng.random()
    lim = np.isfinite(r['clo']) and np.isfinite(r['chi'])
    if lim and m < 0.12:
      u[k] = r['clo']
    elif lim and m < 0.24:
      u[k] = r['chi']
    elif lim and m < 0.32:
      u[k] = max(-3.0, r['clo'] - float(rng.integers(1, 5)) / 4.0)
    elif lim and m < 0.40:
      u[k] = min(3.0, r['chi'] + float(rng.integers(1, 5)) / 4.0)
    elif m < 0.55 and np.isfinite(r['flo']) and np.isfinite(r['fhi']) and r['gain'] != 0 \
        and 0 <= r['q_id'] < len(q) and 0 <= r['qd_id'] < len(qd):
      bias = fr(r['gear']) * (fr(q[r['q_id']]) * fr(r['bias_q']) + fr(qd[r['qd_id']]) * fr(r['bias_qd']))
      target = fr(r['flo'] if rng.random() < 0.5 else r['fhi'])
      x = (target - bias) / fr(r['gain'])
      if abs(x) <= 3 and x.denominator in (1, 2, 4, 8, 16, 32, 64):
        u[k] = float(x)
  return u


def perturb_rows(rng, rows, nq, nv):
  """hand-made actuator tables outside the loader's image (model = code as functions):
  out-of-range ids, empty (lo > hi) and one-sided ranges"""
  rows = [dict(r) for r in rows]
  for r in rows:
    m = rng.random()
    if m < 0.25:
      r['q_id'] = int(rng.integers(0, nq + 3))
    elif m < 0.5:
      r['qd_id'] = int(rng.integers(0, nv + 3))
    elif m < 0.65:
      lo, hi = _range(rng, 2.0)
      r['clo'], r['chi'] = hi, lo
    elif m < 0.8:
      lo, hi = _range(rng, 3.0)
      r['flo'], r['fhi'] = (hi, lo) if rng.random() < 0.5 else (-INF, hi) if rng.random() < 0.5 else (lo, INF)
    elif m < 0.9:
      lo, hi = _range(rng, 2.0)
      r['clo'], r['chi'] = (-INF, hi) if rng.random() < 0.5 else (lo, INF)
    else:
      r['bias_q'], r['bias_qd'] = float(rng.integers(-8, 9)) / 4.0, float(rng.integers(-8, 9)) / 4.0
      r['gain'] = float(rng.integers(-8, 9)) / 4.0
  return rows


def sys_with_rows(sys_, rows):
  import jax.numpy as jp
  a = sys_.actuator
  col = lambda k: jp.asarray([r[k] for r in rows], dtype=jp.float64)
  return sys_.replace(actuator=a.replace(
      q_id=jp.asarray([r['q_id'] for r in rows], dtype=jp.int32),
      qd_id=jp.asarray([r['qd_id'] for r in rows], dtype=jp.int32),
      ctrl_range=jp.stack([col('clo'), col('chi')], axis=1),
      force_range=jp.stack([col('flo'), col('fhi')], axis=1),
      gain=col('gain'), gear=col('gear'), bias_q=col('bias_q'), bias_qd=col('bias_qd')))


# ----------------------------------------------------------------------------- loading


def load_both(xml):
  """(brax System, fresh MjModel, MjData).  The MjModel is compiled separately because
  `load_model` overwrites `actuator_ctrlrange/forcerange` of the model it is given in place."""
  import mujoco
  from brax.io import mjcf
  sys_ = mjcf.loads(xml)
  mj = mujoco.MjModel.from_xml_string(xml)
  if mj.jnt_actfrclimited.any() or (mj.actuator_dyntype != 0).any() or (mj.actuator_gaintype != 0).any():
    raise RuntimeError('harness: generator left the motor/position/velocity family')
  return sys_, mj, mujoco.MjData(mj)


def loader_field_check(sys_, mj):
  """python-side tie of the Actuator fields to the MjModel fields (trnid -> adr, prm, ranges)"""
  bad = []
  rows = rows_of(sys_.actuator)
  if len(rows) != mj.nu:
    return [f'{len(rows)} actuator rows for nu={mj.nu}']
  for k, r in enumerate(rows):
    j = int(mj.actuator_trnid[k, 0])
    exp = dict(q_id=int(mj.jnt_qposadr[j]), qd_id=int(mj.jnt_dofadr[j]),
               gain=float(mj.actuator_gainprm[k, 0]), gear=float(mj.actuator_gear[k, 0]),
               bias_q=float(mj.actuator_biasprm[k, 1]) if mj.actuator_biastype[k] else 0.0,
               bias_qd=float(mj.actuator_biasprm[k, 2]) if mj.actuator_biastype[k] else 0.0,
               clo=float(mj.actuator_ctrlrange[k, 0]) if mj.actuator_ctrllimited[k] else -INF,
               chi=float(mj.actuator_ctrlrange[k, 1]) if mj.actuator_ctrllimited[k] else INF,
               flo=float(mj.actuator_forcerange[k, 0]) if mj.actuator_forcelimited[k] else -INF,
               fhi=float(mj.actuator_forcerange[k, 1]) if mj.actuator_forcelimited[k] else INF)
    for key, v in exp.items():
      if r[key] != v:
        bad.append(f'actuator {k}: {key} = {r[key]}, MjModel says {v}')
  return bad


# ----------------------------------------------------------------------------- laws on the real code


def law_checks(rng, sys_, mj, rows, q, qd, u, tau):
  """zero on unactuated dofs, bound, constant outside the control range, monotone — evaluated
  with the real `to_tau`.  Returns list of (law, message, extra)."""
  out = []
  nv = mj.nv
  targets = {r['qd_id'] for r in rows}
  for i in range(nv):
    if i not in targets and tau[i] != 0.0:
      out.append(('zero_unactuated', f'dof {i} has no actuator but tau[{i}] = {tau[i]}', {}))
  for i in range(nv):
    mine = [r for r in rows if r['qd_id'] == i]
    if mine and all(np.isfinite(r['flo']) and np.isfinite(r['fhi']) for r in mine):
      b = sum(abs(r['gear']) * max(abs(r['flo']), abs(r['fhi'])) for r in mine)
      if abs(tau[i]) > b:
        out.append(('bounded', f'|tau[{i}]| = {abs(tau[i])} > {b}', {}))
  if not rows:
    return out
  k = int(rng.integers(0, len(rows)))
  r = rows[k]
  if np.isfinite(r['clo']) and np.isfinite(r['chi']):
    for bound, beyond in ((r['clo'], r['clo'] - 0.75), (r['chi'], r['chi'] + 0.75)):
      ua, ub = u.copy(), u.copy()
      ua[k], ub[k] = bound, beyond
      ta, tb = real_tau(sys_, ua, q, qd), real_tau(sys_, ub, q, qd)
      if not np.array_equal(ta, tb):
        out.append(('const_outside', f'control {k}: tau at the bound {bound} differs from tau at {beyond}',
                    dict(u2=ub.tolist(), u=ua.tolist())))
  if all(r['gain'] >= 0 and r['gear'] >= 0 for r in rows):
    u2 = u.copy()
    u2[k] += float(rng.integers(1, 9)) / 4.0
    if rng.random() < 0.5:
      u2 += rng.integers(0, 5, size=len(rows)) / 4.0
    t2 = real_tau(sys_, u2, q, qd)
    if not np.all(tau <= t2):
      out.append(('mono', f'gain, gear >= 0 but tau decreases when the controls increase', dict(u2=u2.tolist())))
  return out


# ----------------------------------------------------------------------------- one system


class Stats:
  def __init__(self):
    self.evals = 0
    self.distinct = set()
    self.nu_hist, self.nv_hist, self.kind_hist = {}, {}, {}
    self.ctrl_br, self.force_br = {}, {}
    self.free_root = 0
    self.qid_ne_qdid = 0
    self.multi = 0
    self.perturbed = 0
    self.mono_systems = 0
    self.laws = {}
    self.samples = []

  @staticmethod
  def bump(h, k, n=1):
    h[k] = h.get(k, 0) + n


def spec_compare(sys_, mj, data, q, qd, u, tol=1e-9):
  """real to_tau vs real MuJoCo and vs the python spec.  -> (tau, list of messages)"""
  tau = real_tau(sys_, u, q, qd)
  msgs = []
  if tau.shape != (mj.nv,):
    return tau, [f'to_tau returns shape {tau.shape}, expected ({mj.nv},)']
  qfrc, _ = mujoco_qfrc(mj, data, u, q, qd)
  if not np.all(np.isfinite(tau)):
    # a non-finite joint force for finite inputs is a failure of the property, not of the harness
    return tau, [f'to_tau = {tau.tolist()} is not finite; MuJoCo qfrc_actuator = {qfrc.tolist()}']
  if not np.allclose(tau, qfrc, rtol=0, atol=tol):
    msgs.append(f'to_tau = {tau.tolist()} but MuJoCo qfrc_actuator = {qfrc.tolist()}')
  ps, _ = py_spec(mj, u, q, qd)
  if [fr(x) for x in tau] != ps:
    msgs.append(f'to_tau = {tau.tolist()} but the MuJoCo rule gives {[float(x) for x in ps]}')
  return tau, msgs


def run_systems(ctx, rng, n_sys, n_ctrl, st, with_lean=True, time_limit=None, descs=None):
  """generate systems, evaluate everything.  returns (disagreements, spec_failures)"""
  import time
  disagreements, spec_failures = [], []
  lines, expect = [], []          # driver batch
  t0 = time.time()
  for s_idx in range(n_sys):
    if time_limit and time.time() - t0 > time_limit:
      break
    nonneg = rng.random() < 0.35
    desc = descs[s_idx] if descs is not None else gen_desc(rng, nonneg=nonneg)
    xml = to_xml(desc)
    sys_, mj, data = load_both(xml)
    rows = rows_of(sys_.actuator)
    h = hashlib.sha1(xml.encode()).hexdigest()[:12]
    Stats.bump(st.nu_hist, mj.nu); Stats.bump(st.nv_hist, mj.nv)
    for a in desc['acts']:
      Stats.bump(st.kind_hist, a['kind'] + ('+c' if a['ctrl'] in ('auto', 'true') else '') + ('+f' if a['force'] in ('auto', 'true') else ''))
    st.free_root += desc['free_root']
    st.qid_ne_qdid += any(r['q_id'] != r['qd_id'] for r in rows)
    st.multi += len({r['qd_id'] for r in rows}) < len(rows)
    if rows and all(r['gain'] >= 0 and r['gear'] >= 0 for r in rows):
      st.mono_systems += 1
    # loader tie ------------------------------------------------------------------------
    for msg in loader_field_check(sys_, mj):
      spec_failures.append(dict(key='loader:fields', what='load_model: ' + msg, xml=xml, kind_of='loader'))
    mjt = mj_tokens(mj)
    if with_lean:
      lines.append(' '.join(['C11.load'] + mjt))
      expect.append(('load', dict(xml=xml, rows=rows)))
    # to_tau -------------------------------------------------------------------------------
    n_here = n_ctrl if mj.nu else 2
    for c_idx in range(n_here):
      q, qd = gen_state(rng, mj, desc)
      u = gen_ctrl(rng, rows, q, qd)
      tau, msgs = spec_compare(sys_, mj, data, q, qd, u)
      st.evals += 1
      case = dict(xml=xml, q=q.tolist(), qd=qd.tolist(), u=u.tolist())
      for m in msgs:
        spec_failures.append(dict(key='to_tau-vs-mujoco', what=m, **case))
      if tau.shape == (mj.nv,):
        for law, m, extra in law_checks(rng, sys_, mj, rows, q, qd, u, tau):
          Stats.bump(st.laws, law + ':fail')
          spec_failures.append({**case, **extra, 'key': 'law:' + law, 'what': m, 'law': law})
      if mj.nu and np.any(tau != 0):
        st.distinct.add((h, tuple(q.tolist()), tuple(qd.tolist()), tuple(u.tolist())))
      if len(st.samples) < 4 and mj.nu >= 2 and c_idx == 0:
        st.samples.append(dict(xml=xml, q=q.tolist(), qd=qd.tolist(), u=u.tolist(), tau=tau.tolist()))
      if with_lean:
        stt = state_tokens(q, qd, u)
        lines.append(' '.join(['C11.tau', str(mj.nv), str(len(rows))] + sum((row_tokens(r) for r in rows), []) + stt))
        expect.append(('tau', dict(case=case, tau=tau)))
        qfrc, force = mujoco_qfrc(mj, data, u, q, qd)
        lines.append(' '.join(['C11.spec'] + mjt + stt))
        expect.append(('spec', dict(case=case, qfrc=qfrc, force=force, tau=tau)))
    # hand-made tables outside the loader's image --------------------------------------------------
    if with_lean and mj.nu and rng.random() < 0.2:
      st.perturbed += 1
      prow = perturb_rows(rng, rows, mj.nq, mj.nv)
      psys = sys_with_rows(sys_, prow)
      for _ in range(3):
        q, qd = gen_state(rng, mj, desc)
        if rng.random() < 0.3:      # q / qd of another length: gather clamps
          q = np.concatenate([q, [0.75]])
        u = gen_ctrl(rng, prow, q, qd)
        tau = real_tau(psys, u, q, qd)
        st.evals += 1
        lines.append(' '.join(['C11.tau', str(mj.nv), str(len(prow))] + sum((row_tokens(r) for r in prow), [])
                              + state_tokens(q, qd, u)))
        expect.append(('tau', dict(case=dict(xml=xml, rows=prow, q=q.tolist(), qd=qd.tolist(), u=u.tolist()), tau=tau)))
  # Lean side -------------------------------------------------------------------------------------
  if with_lean and lines:
    out = C.run_driver(DRIVER, lines)
    if len(out) != len(lines):
      raise RuntimeError(f'driver returned {len(out)} lines for {len(lines)} cases')
    for o, (kind, e), line in zip(out, expect, lines):
      if o.startswith('bad'):
        raise RuntimeError(f'driver rejects harness input ({o}): {line[:300]}')
      if kind == 'load':
        wf, lrows = parse_rows(o.split())
        if not wf:
          raise RuntimeError(f'harness: generated model is not Mj.Model.WF: {e["xml"]}')
        if lrows != e['rows']:
          disagreements.append(dict(what='Act.ofMj (model of the loader) differs from sys.actuator',
                                    xml=e['xml'], lean=lrows, real=e['rows']))
      elif kind == 'tau':
        br, _, vals = o.partition(' ')
        got = parse_vals(vals)
        for code in br[3:].split(','):
          if code:
            Stats.bump(st.ctrl_br, code[0]); Stats.bump(st.force_br, code[1])
        real = e['tau']
        if len(got) != real.shape[0] or not np.all(np.isfinite(real)) or any(g != fr(x) for g, x in zip(got, real)):
          disagreements.append(dict(what='Act.toTau (model) differs from actuator.to_tau',
                                    lean=[float(g) for g in got], real=real.tolist(), **e['case']))
      else:
        head, _, rest = o.partition(' ')
        if head != 'wf=1':
          raise RuntimeError('harness: model not WF in C11.spec')
        a, b, c = [parse_vals(p) for p in rest.split('|')]
        qfrc = np.array([float(x) for x in a]); force = np.array([float(x) for x in b])
        if a != c:
          disagreements.append(dict(what='instance of theorem toTau_eq_mj fails in the driver: Act.toTau (ofMj m) != Mj.qfrcActuator m',
                                    **e['case']))
        if qfrc.shape != e['qfrc'].shape or not np.allclose(qfrc, e['qfrc'], rtol=0, atol=1e-9) \
            or not np.allclose(force, e['force'], rtol=0, atol=1e-9):
          disagreements.append(dict(what='Mj.qfrcActuator (spec) differs from real MuJoCo qfrc_actuator / actuator_force',
                                    lean=qfrc.tolist(), mujoco=e['qfrc'].tolist(), **e['case']))
        if any(x != fr(y) for x, y in zip(c, e['tau'])) or len(c) != len(e['tau']):
          disagreements.append(dict(what='Act.toTau (Act.ofMj m) (loader + to_tau model) differs from to_tau(loads(xml))',
                                    lean=[float(x) for x in c], real=e['tau'].tolist(), **e['case']))
  return disagreements, spec_failures


# ----------------------------------------------------------------------------- fixed edge cases


def edge_descs():
  """hand-written corner models run before the random ones"""
  def body(joints, parent=-1):
    return dict(parent=parent, joints=joints, pos='0 0 0.5')
  j = lambda n, t, a: dict(name=f'j{n}', type=t, axis=AXES[a])
  out = []
  # no actuator at all (nu = 0 branch), with and without a free root
  out.append(dict(free_root=False, bodies=[body([j(0, 'hinge', 0)])], acts=[]))
  out.append(dict(free_root=True, bodies=[body([j(0, 'slide', 2), j(1, 'hinge', 1)])], acts=[]))
  # hinge-slide-hinge stack behind a free root, every joint actuated twice, middle one by all kinds
  acts = []
  for n in range(3):
    acts.append(dict(kind='motor', joint=f'j{n}', gear=2.0, ctrl='true', ctrlrange=(-1.0, 0.5), force='none'))
    acts.append(dict(kind='position', joint=f'j{n}', gear=0.5, kp=3.0, kv=0.5, ctrl='none', force='true',
                     forcerange=(-1.5, 2.0)))
  acts.append(dict(kind='velocity', joint='j1', gear=-2.0, kv=1.5, ctrl='auto', ctrlrange=(-0.5, 0.25), force='auto',
                   forcerange=(-0.25, 0.25)))
  out.append(dict(free_root=True, bodies=[body([j(0, 'hinge', 0), j(1, 'slide', 1), j(2, 'hinge', 2)])], acts=acts))
  # ten actuators on one joint of the last body of a chain; other joints unactuated
  out.append(dict(free_root=False,
                  bodies=[body([j(0, 'slide', 0)]), body([j(1, 'hinge', 1), j(2, 'slide', 2)], 0), body([j(3, 'hinge', 0)], 1)],
                  acts=[dict(kind='motor', joint='j2', gear=float(g), ctrl='auto', ctrlrange=(-1.0, 1.0), force='auto',
                             forcerange=(-0.5, 0.75)) for g in [0.25, 0.5, 1, 1.5, 2, 3, 1, 1, 0.5, 2]]))
  # gear 0, explicit "false" limits with a range given
  out.append(dict(free_root=False, bodies=[body([j(0, 'hinge', 2)])],
                  acts=[dict(kind='motor', joint='j0', gear=0.0, ctrl='false', ctrlrange=(-1.0, 1.0), force='false', forcerange=(-1.0, 1.0)),
                        dict(kind='general', joint='j0', gear=1.0, gainprm=-1.5, biasprm=(0.0, 0.5, -1.0), ctrl='true',
                             ctrlrange=(0.0, 1.0), force='true', forcerange=(0.0, 0.25))]))
  return out


MASK_XML = '''<mujoco>
<worldbody>
 <body name="a" pos="0 0 0.5">
  <joint name="j0" type="hinge" axis="1 0 0"/>
  <joint name="j1" type="slide" axis="0 1 0"/>
  <geom type="sphere" size="0.1" mass="1"/>
  <site name="s0"/>
 </body>
</worldbody>
<actuator>
 <motor joint="j1" gear="2" ctrlrange="-1 1"/>
 <motor site="s0" gear="1 0 0 0 0 0"/>
 <position joint="j0" kp="3" gear="0.5" forcerange="-1 2"/>
</actuator>
</mujoco>'''


def loader_mask_case():
  """loader only: an actuator with a non-joint transmission is masked out of the table (such a model
  is outside the property and rejected by the pipelines' validate_model; Mj.Model.WF is false)"""
  sys_, mj, _ = load_both(MASK_XML)
  rows = rows_of(sys_.actuator)
  out = C.run_driver(DRIVER, [' '.join(['C11.load'] + mj_tokens(mj))])
  wf, lrows = parse_rows(out[0].split())
  if wf:
    raise RuntimeError('harness: the site-transmission model must not be WF')
  if lrows != rows:
    return [dict(what='Act.ofMj (model of the loader, masked rows) differs from sys.actuator',
                 xml=MASK_XML, lean=lrows, real=rows)]
  return []


# ----------------------------------------------------------------------------- API


def _setup():
  import jax
  jax.config.update('jax_enable_x64', True)


def correspond(ctx):
  _setup()
  rng = np.random.default_rng(ctx.seed)
  st = Stats()
  n_sys = ctx.budget(200, 2000)
  n_ctrl = ctx.budget(8, 8)
  disagreements, spec_failures = [], []
  # fixed corner models first
  edges = edge_descs()
  d, s = run_systems(ctx, rng, len(edges), n_ctrl, st, descs=edges)
  disagreements += d; spec_failures += s
  disagreements += loader_mask_case()
  d, s = run_systems(ctx, rng, n_sys, n_ctrl, st)
  disagreements += d; spec_failures += s
  # keep one representative per key (stable, smallest model first)
  spec_failures.sort(key=lambda f: (_KEY_ORDER.get(f['key'], 9), f['key'], len(f.get('xml', ''))))
  seen, uniq = set(), []
  for f in spec_failures:
    if f['key'] not in seen:
      seen.add(f['key']); uniq.append(f)
  uniq = [_minimise(f) for f in uniq]
  return dict(
      evaluations=st.evals, distinct_nontrivial=len(st.distinct),
      rule='one evaluation = one (generated MJCF system, q, qd, ctrl): real to_tau vs Lean Act.toTau at Rat (exact), '
           'Lean Mj.qfrcActuator vs real MuJoCo qfrc_actuator/actuator_force (1e-9), driver re-check of the '
           'toTau_eq_mj instance, real to_tau vs MuJoCo and vs a python statement of the rule, laws on the real '
           'function; per system one loader tie (sys.actuator vs Act.ofMj of the MjModel fields). '
           'distinct_nontrivial = distinct (system, q, qd, ctrl) with nu > 0 and tau != 0',
      samples=st.samples, disagreements=disagreements[:20], spec_failures=uniq,
      trusted_base=['correspondence harness harness/corr_C11.py (MJCF generator, wire encoding); float64 evaluation of '
                    'to_tau is exact on the generated dyadic data (guarded: every datum is a multiple of 1/64 below 64)',
                    'MuJoCo 3.x mj_forward as reference for qfrc_actuator; the MuJoCo rule is restated as Mj.qfrcActuator '
                    'and validated numerically against it on every case'],
      assumptions=['theorems are over an exact linear ordered field; IEEE round-off, NaN and overflow are not modelled',
                   'Mj.Model.WF: joint transmissions on hinge/slide joints, gaintype fixed, biastype none/affine with '
                   'biasprm[0] = 0 (true for motor, position, velocity), no activation dynamics, no joint-level '
                   'actuatorfrcrange, MuJoCo-compiled ranges (lo < hi when limited)',
                   'agreement of model and code is established on the sampled systems only'],
      explanation='Triangle: to_tau == Act.toTau (exact), Act.toTau∘Act.ofMj = Mj.qfrcActuator (theorem toTau_eq_mj, all '
                  'models/states), Mj.qfrcActuator ~ MuJoCo (1e-9).',
      extra=dict(systems=n_sys + len(edges), nu_hist=_sorted(st.nu_hist), nv_hist=_sorted(st.nv_hist),
                 kind_hist=_sorted(st.kind_hist), ctrl_branch_hist=st.ctrl_br, force_branch_hist=st.force_br,
                 branch_legend='u unlimited, b below lo, l = lo, i inside, h = hi, a above hi, o one-sided',
                 systems_with_free_root=st.free_root, systems_with_q_id_ne_qd_id=st.qid_ne_qdid,
                 systems_with_several_actuators_on_a_dof=st.multi, systems_all_gain_gear_nonneg=st.mono_systems,
                 perturbed_tables=st.perturbed, law_failures=st.laws, skipped_near_branch=0))


_KEY_ORDER = {'to_tau-vs-mujoco': 0, 'loader:fields': 1}


def _sorted(h):
  return {str(k): h[k] for k in sorted(h)}


def _fails(xml, q, qd, u):
  """does the real code contradict the spec on this input?  (None: input not loadable)"""
  try:
    sys_, mj, data = load_both(xml)
  except RuntimeError:
    raise
  except Exception:
    return None
  if len(u) != mj.nu or len(q) != mj.nq or len(qd) != mj.nv:
    return None
  _, msgs = spec_compare(sys_, mj, data, np.asarray(q, float), np.asarray(qd, float), np.asarray(u, float))
  return msgs


def _minimise(f):
  """delta-debug a to_tau-vs-mujoco failure: drop actuators one at a time, then zero the state"""
  if f.get('key') != 'to_tau-vs-mujoco' or 'xml' not in f:
    return f
  import re
  xml, q, qd, u = f['xml'], list(f['q']), list(f['qd']), list(f['u'])
  changed = True
  while changed:
    changed = False
    lines = xml.split('\n')
    act_lines = [i for i, l in enumerate(lines) if re.match(r'\s*<(motor|position|velocity|general) ', l)]
    if len(act_lines) <= 1:
      break
    for n, i in enumerate(act_lines):
      x2 = '\n'.join(l for k, l in enumerate(lines) if k != i)
      u2 = u[:n] + u[n + 1:]
      if _fails(x2, q, qd, u2):
        xml, u, changed = x2, u2, True
        break
  for vec in (q, qd, u):
    for i in range(len(vec)):
      if vec[i] != 0 and not (vec is q and 'freejoint' in xml and 3 <= i < 7):
        old = vec[i]
        vec[i] = 0.0
        if not _fails(xml, q, qd, u):
          vec[i] = old
  msgs = _fails(xml, q, qd, u)
  if not msgs:
    return f
  g = dict(f)
  g.update(xml=xml, q=q, qd=qd, u=u, what=msgs[0], minimised=True)
  return g


def search(ctx, broken, corr):
  """the spec on the real code over the property's own generator (no Lean involved)"""
  _setup()
  rng = np.random.default_rng(ctx.seed + 1)
  st = Stats()
  _, fails = run_systems(ctx, rng, ctx.budget(400, 6000), 8, st, with_lean=False,
                         time_limit=ctx.budget(55, 540))
  fails.sort(key=lambda f: (_KEY_ORDER.get(f['key'], 9), f['key'], len(f.get('xml', ''))))
  seen, uniq = set(), []
  for f in fails:
    if f['key'] not in seen:
      seen.add(f['key']); uniq.append(_minimise(f))
  return uniq


def replay(ctx, rp):
  _setup()
  if rp.get('kind') != 'failing-input':
    return True, f'replay names broken obligations only: {rp.get("broken")}'
  xml = rp['xml']
  sys_, mj, data = load_both(xml)
  if rp.get('key') == 'loader:fields':
    bad = loader_field_check(sys_, mj)
    return (not bad), ('loader: ' + ('; '.join(bad) if bad else 'Actuator fields agree with the MjModel fields'))
  q, qd, u = (np.asarray(rp[k], dtype=np.float64) for k in ('q', 'qd', 'u'))
  tau, msgs = spec_compare(sys_, mj, data, q, qd, u)
  rows = rows_of(sys_.actuator)
  law = rp.get('law')
  if law == 'zero_unactuated':
    targets = {r['qd_id'] for r in rows}
    msgs += [f'dof {i} has no actuator but tau[{i}] = {tau[i]}' for i in range(mj.nv) if i not in targets and tau[i] != 0]
  elif law == 'bounded':
    for i in range(mj.nv):
      mine = [r for r in rows if r['qd_id'] == i]
      if mine and all(np.isfinite(r['flo']) and np.isfinite(r['fhi']) for r in mine):
        b = sum(abs(r['gear']) * max(abs(r['flo']), abs(r['fhi'])) for r in mine)
        if abs(tau[i]) > b:
          msgs.append(f'|tau[{i}]| = {abs(tau[i])} > {b}')
  elif law == 'mono':
    t2 = real_tau(sys_, np.asarray(rp['u2'], dtype=np.float64), q, qd)
    if not np.all(tau <= t2):
      msgs.append(f'tau({rp["u"]}) = {tau.tolist()} is not <= tau({rp["u2"]}) = {t2.tolist()}')
  elif law == 'const_outside':
    t2 = real_tau(sys_, np.asarray(rp['u2'], dtype=np.float64), q, qd)
    if not np.array_equal(tau, t2):
      msgs.append(f'tau({rp["u"]}) = {tau.tolist()} differs from tau({rp["u2"]}) = {t2.tolist()}')
  if msgs:
    return False, 'C11 replay: ' + msgs[0]
  return True, f'C11 replay: to_tau = {tau.tolist()} agrees with MuJoCo qfrc_actuator and the rule'
