"""C17 — replay buffers behave as bounded FIFO queues (brax/training/replay_buffers.py).

correspond : (a) random operation histories on the real `Queue` / `UniformSamplingQueue`, bare and
             behind `PjitWrapper` / `PmapWrapper` (4 forced host devices), through the *public*
             `insert` / `sample` / `size` API with the internals jitted once per configuration;
             after every operation `data`, `insert_position`, `sample_position`, the returned batch,
             `size`, the python-side `_size` counter and the guard outcome are compared *exactly*
             with the Lean model (`Driver/C17.lean`, `C17.run`) and with the pure-python FIFO spec
             below (which is itself compared with the Lean spec, `C17.spec`);
             (b) exhaustive histories (trie walk, every node = one history) on the real code,
             compared node by node with the python spec and, through a digest over all nodes,
             with the Lean model's own enumeration (`C17.exh`);
             (c) the empty-uniform-queue probe (candidate finding F7).
search     : real buffer vs the pure-python FIFO spec on exhaustive short and random histories;
             returns a minimal failing operation sequence.
replay     : re-runs exactly one such sequence on the current tree.
"""
from __future__ import annotations

import os
import sys
import time

_FLAG = '--xla_force_host_platform_device_count=4'
if _FLAG not in os.environ.get('XLA_FLAGS', ''):          # must happen before jax is imported
  os.environ['XLA_FLAGS'] = (os.environ.get('XLA_FLAGS', '') + ' ' + _FLAG).strip()

import numpy as np  # noqa: E402

HERE = os.path.dirname(os.path.abspath(__file__))
sys.path.insert(0, HERE)
import check as C  # noqa: E402

DRIVER = 'Driver/C17.lean'
OK, REFUSE_INSERT, REFUSE_SAMPLE, RESHAPE = 0, 1, 2, 3
HASH_MOD = 2147483647


def _mix(h, t):
  return (h * 1000003 + t + 12345) % HASH_MOD


# ----------------------------------------------------------------------------- pure-python spec
# (independent of the Lean model: a list of held records and a read cursor)


def spec_new():
  return ((), 0)


def spec_avail(st, cyc):
  held, cur = st
  return len(held) if cyc else len(held) - cur


def spec_insert(cap, st, rows):
  """rows: tuple of records.  None = refused"""
  held, cur = st
  if len(rows) > cap:
    return None
  allr = held + tuple(rows)
  over = max(0, len(allr) - cap)
  return (allr[over:], max(0, cur - over))


def spec_sample(B, cyc, st):
  held, cur = st
  if spec_avail(st, cyc) < B:
    return None
  if cyc:
    n = len(held)
    out = tuple(held[(cur + i) % n] for i in range(B))
    return (held, (cur + B) % n if n else 0), out
  return (held, cur + B), held[cur:cur + B]


class SpecBuf:
  """D independent FIFOs (D = 1 without wrapper) with round-robin dealing and interleaved
  sampling — what property C17 says of the wrappers.  For the uniform queue only `held` is used."""

  def __init__(self, cfg, shards=None):
    self.cfg = cfg
    self.D = cfg['D'] if cfg['wrap'] != 'n' else 1
    self.shards = shards if shards is not None else [spec_new() for _ in range(self.D)]

  def copy(self):
    return SpecBuf(self.cfg, list(self.shards))

  def insert(self, rows):
    """returns outcome; rows must be divisible by D (the caller guarantees it)"""
    D, cap = self.D, self.cfg['cap']
    new = [spec_insert(cap, st, tuple(rows[d::D])) for d, st in enumerate(self.shards)]
    if any(n is None for n in new):
      return REFUSE_INSERT
    self.shards = new
    return OK

  def sample(self):
    B, cyc, D = self.cfg['B'], self.cfg['cyc'], self.D
    res = [spec_sample(B, cyc, st) for st in self.shards]
    if any(r is None for r in res):
      return REFUSE_SAMPLE, ()
    self.shards = [r[0] for r in res]
    return OK, tuple(res[d][1][i] for i in range(B) for d in range(D))

  def size(self):
    return sum(spec_avail(st, self.cfg['cyc']) for st in self.shards)

  def held(self):
    return [st[0] for st in self.shards]


# ----------------------------------------------------------------------------- the real buffer


class RealBuf:
  """one configuration of the real code; internals jitted once"""

  def __init__(self, cfg):
    import jax
    import jax.numpy as jnp
    from brax.training import replay_buffers as rb
    self.jax, self.cfg = jax, cfg
    kind, wrap, cap, B, cyc, D, w = (cfg[k] for k in ('kind', 'wrap', 'cap', 'B', 'cyc', 'D', 'w'))
    if w == 1:
      dummy = jnp.zeros((), jnp.int32)
    else:                                   # pytree record: ravel_pytree order is a, b
      dummy = {'a': jnp.zeros((), jnp.int32), 'b': jnp.zeros((w - 1,), jnp.int32)}
    if kind == 'q':
      q = rb.Queue(cap, dummy, B, cyclic=bool(cyc))
    else:
      q = rb.UniformSamplingQueue(cap, dummy, B)
    q.insert_internal = jax.jit(q.insert_internal)
    q.sample_internal = jax.jit(q.sample_internal)
    q.size = jax.jit(q.size)
    self.q = q
    if wrap == 'n':
      self.buf = q
    elif wrap == 'pjit':
      if D == 2 and (cap + B) % 2 == 0 and len(jax.devices()) >= 4:
        # a two-axis mesh of which only the first axis shards the buffer (the second is replicated): still 2 shards
        mesh = jax.sharding.Mesh(np.array(jax.devices()[:4]).reshape(2, 2), ('x', 'y'))
      else:
        mesh = jax.sharding.Mesh(np.array(jax.devices()[:D]), ('x',))
      self.buf = rb.PjitWrapper(q, mesh, ('x',))
    elif wrap == 'pmap':
      self.buf = rb.PmapWrapper(q, D)
    else:
      raise ValueError(wrap)
    self.nshards = 1 if wrap == 'n' else D
    # one dispatch + one transfer per observation of the unwrapped buffer: [size(), ip, sp, data...]
    self._packed = jax.jit(lambda st: jnp.concatenate([
        jnp.stack([jnp.asarray(q.size(st), jnp.int32), st.insert_position, st.sample_position]),
        st.data.reshape(-1)]))

    def draw(key, sp, ip):                  # lines 277-283 of replay_buffers.py
      _, sk = jax.random.split(key)
      return jax.random.randint(sk, (B,), minval=sp, maxval=ip)
    self._draw = jax.jit(draw if wrap == 'n' else jax.vmap(draw))

  def reset(self, seed=0):
    self.q._size = 0
    return self.buf.init(self.jax.random.PRNGKey(seed))

  def pack(self, rows):
    rows = np.asarray(rows, dtype=np.int32).reshape(-1, self.cfg['w'])
    if self.cfg['w'] == 1:
      return rows[:, 0]
    return {'a': rows[:, 0], 'b': rows[:, 1:]}

  def unpack(self, batch):
    if self.cfg['w'] == 1:
      return np.asarray(batch).reshape(-1, 1)
    return np.concatenate([np.asarray(batch['a'])[:, None], np.asarray(batch['b'])], axis=1)

  def insert(self, state, rows):
    try:
      return OK, self.buf.insert(state, self.pack(rows))
    except (ValueError, TypeError) as e:     # reshape: TypeError for jax inputs, ValueError for numpy inputs
      if isinstance(e, ValueError) and 'Trying to insert' in str(e):
        return REFUSE_INSERT, state
      if 'cannot reshape' in str(e):
        return RESHAPE, state
      raise

  def sample(self, state):
    try:
      new, batch = self.buf.sample(state)
      return OK, new, self.unpack(batch)
    except ValueError as e:
      if 'Trying to sample' in str(e):
        return REFUSE_SAMPLE, state, np.zeros((0, self.cfg['w']), np.int64)
      raise

  def size(self, state):
    return int(self.buf.size(state))

  def host(self):
    return int(self.q._size)

  def drawn(self, state):
    """the indices `UniformSamplingQueue.sample_internal` is going to draw, shard-major"""
    idx = np.asarray(self._draw(state.key, state.sample_position, state.insert_position))
    return [int(i) for i in idx.reshape(-1)]

  def observe_size(self, state):
    """(shards, size()) — the real `size` of the (wrapped) buffer and the raw state fields"""
    if self.cfg['wrap'] == 'n':
      a = np.asarray(self._packed(state))
      return [(int(a[1]), int(a[2]), a[3:].reshape(self.cfg['cap'], self.cfg['w']))], int(a[0])
    return self.observe(state), self.size(state)

  def observe(self, state):
    data, ip, sp = self.jax.device_get((state.data, state.insert_position, state.sample_position))
    if self.cfg['wrap'] == 'n':
      return [(int(ip), int(sp), data)]
    return [(int(ip[d]), int(sp[d]), data[d]) for d in range(self.nshards)]


_BUFS = {}


def real_buf(cfg):
  key = tuple(sorted(cfg.items()))
  if key not in _BUFS:
    if len(_BUFS) > 64:
      _BUFS.clear()
    _BUFS[key] = RealBuf(cfg)
  return _BUFS[key]


def node_tokens(outcome, host, size, batch, shards):
  t = [outcome, host, size, len(batch)]
  t += [int(x) for x in np.asarray(batch).reshape(-1)]
  for ip, sp, data in shards:
    t += [ip, sp]
    t += data.reshape(-1).tolist()
  return t


# ----------------------------------------------------------------------------- one history


def run_history(cfg, ops, size_every=1, check_spec=True):
  """run ops (list of ('i', rows) | ('s',)) on the real code.

  Returns dict(tokens=[per-op token list, size None where not measured], idx=[per op drawn indices],
  spec=None | failure dict, stats=...)."""
  rb_ = real_buf(cfg)
  state = rb_.reset()
  spec = SpecBuf(cfg)
  spec_live = check_spec
  D, cap, B, kind = rb_.nshards, cfg['cap'], cfg['B'], cfg['kind']
  out_tokens, out_idx, fail = [], [], None
  stats = dict(outcomes=[0, 0, 0, 0], rolled=0, wrapped_read=0)
  for n, op in enumerate(ops):
    idx = []
    before = rb_.observe(state) if op[0] == 'i' else None
    if op[0] == 'i':
      rows = op[1]
      outcome, state = rb_.insert(state, rows)
      batch = np.zeros((0, cfg['w']), np.int64)
      if outcome == OK and any(ip + len(rows) // D > cap for ip, _, _ in before):
        stats['rolled'] += 1
    else:
      if kind == 'u':
        idx = rb_.drawn(state)
        st2 = rb_.sample(state)           # determinism: same state, same batch
      outcome, state_new, batch = rb_.sample(state)
      if kind == 'u' and outcome == OK and not np.array_equal(st2[2], batch):
        fail = fail or dict(key='uniform:not-deterministic', what='UniformSamplingQueue.sample returned two '
                            'different batches for the same state', step=n)
      state = state_new
    stats['outcomes'][outcome] += 1
    measure = bool(size_every and ((n + 1) % size_every == 0)) or n == len(ops) - 1
    if measure:
      shards, size = rb_.observe_size(state)
    else:
      shards, size = rb_.observe(state), None
    out_tokens.append(node_tokens(outcome, rb_.host(), size, batch, shards))
    out_idx.append(idx)
    # ---- the property, evaluated on the implementation
    if spec_live and fail is None:
      if op[0] == 'i' and len(op[1]) % D != 0:
        spec_live = False                 # batch not divisible by the shard count: outside the quantifier
        continue
      if op[0] == 'i':
        want = spec.insert([tuple(r) for r in op[1]])
        if want != outcome:
          fail = dict(what=f'insert of {len(op[1])} records: outcome {outcome}, FIFO spec says {want}', step=n)
      elif kind == 'q':
        want, wout = spec.sample()
        got = tuple(tuple(int(x) for x in r) for r in batch)
        if want != outcome:
          fail = dict(what=f'sample: outcome {outcome}, FIFO spec says {want} '
                           f'(available per shard {spec_avail(spec.shards[0], cfg["cyc"])}, batch {B})', step=n)
        elif got != tuple(wout):
          fail = dict(what=f'sample returned {got}, FIFO spec says {tuple(wout)}', step=n)
      else:                               # uniform: every returned record is currently held by its shard
        got = [tuple(int(x) for x in r) for r in batch]
        held = spec.held()
        for j, r in enumerate(got):
          if r not in held[j % D]:
            fail = dict(what=f'uniform sample returned {r} (position {j}) which shard {j % D} does not hold '
                             f'(held: {list(held[j % D])})', step=n)
            break
        lo_hi = [(sp, ip) for ip, sp, _ in shards]
        for j, i in enumerate(idx):
          sp, ip = lo_hi[j // B]
          if ip > sp and not (sp <= i < ip):
            fail = fail or dict(what=f'drawn index {i} outside [sample_position, insert_position) = [{sp},{ip})', step=n)
      if fail is None:
        for d, (ip, sp, data) in enumerate(shards):
          got = tuple(tuple(int(x) for x in r) for r in data[:ip])
          if got != spec.held()[d]:
            fail = dict(what=f'data[:insert_position] of shard {d} is {got}, the most recent records are '
                             f'{spec.held()[d]}', step=n)
            break
          if kind == 'u' and sp != 0:
            fail = dict(what=f'uniform queue sample_position = {sp}', step=n)
      if fail is None and size is not None:
        want = spec.size() if kind == 'q' else sum(len(h) for h in spec.held())
        if size != want:
          fail = dict(what=f'size() = {size}, records still available = {want}', step=n)
  return dict(tokens=out_tokens, idx=out_idx, spec=fail, stats=stats)


def ops_to_line(cfg, ops, idxs):
  toks = ['C17.run', cfg['kind'], 'n' if cfg['wrap'] == 'n' else 's', cfg['cap'], cfg['B'], int(cfg['cyc']),
          cfg['D'] if cfg['wrap'] != 'n' else 1, cfg['w'], len(ops)]
  for op, idx in zip(ops, idxs):
    if op[0] == 'i':
      toks += ['i', len(op[1])] + [int(x) for r in op[1] for x in r]
    else:
      toks += ['s', len(idx)] + list(idx)
  return ' '.join(str(t) for t in toks)


def spec_line(cfg, ops):
  toks = ['C17.spec', cfg['cap'], cfg['B'], int(cfg['cyc']), cfg['w'], len(ops)]
  for op in ops:
    if op[0] == 'i':
      toks += ['i', len(op[1])] + [int(x) for r in op[1] for x in r]
    else:
      toks += ['s', 0]
  return ' '.join(str(t) for t in toks)


def py_spec_tokens(cfg, ops):
  """python FIFO spec in the output format of `C17.spec` (plain queue)"""
  st, out = spec_new(), []
  for op in ops:
    batch = ()
    if op[0] == 'i':
      new = spec_insert(cfg['cap'], st, tuple(tuple(r) for r in op[1]))
      outcome = REFUSE_INSERT if new is None else OK
      st = st if new is None else new
    else:
      r = spec_sample(cfg['B'], cfg['cyc'], st)
      outcome = REFUSE_SAMPLE if r is None else OK
      if r is not None:
        st, batch = r
    out.append([outcome, spec_avail(st, cfg['cyc']), len(batch)] + [x for r in batch for x in r] +
               [st[1], len(st[0])] + [x for r in st[0] for x in r])
  return out


def compare_history(cfg, ops, res, model_line_out):
  """exact comparison of the per-op token lists; returns a disagreement dict or None"""
  if model_line_out.startswith('bad'):
    return dict(what=f'Lean driver rejected the case: {model_line_out}', cfg=cfg, ops=ops_json(ops))
  groups = model_line_out.split(' | ') if ops else []
  if len(groups) != len(ops):
    return dict(what='Lean driver returned a different number of operations', cfg=cfg, ops=ops_json(ops))
  names = ['outcome', 'host _size', 'size()', 'batch length']
  for n, (g, real) in enumerate(zip(groups, res['tokens'])):
    model = [int(t) for t in g.split()]
    masked = list(real)
    if masked[2] is None:
      masked[2] = model[2]
    if model != masked:
      j = next((i for i, (a, b) in enumerate(zip(model, masked)) if a != b), min(len(model), len(masked)))
      field = names[j] if j < 4 else 'batch / data / positions'
      return dict(what=f'{cfg["kind"]}/{cfg["wrap"]} model and implementation differ after operation {n} '
                       f'({field}): model {model} implementation {masked}',
                  cfg=cfg, ops=ops_json(ops[:n + 1]), step=n)
  return None


def ops_json(ops):
  return [[op[0], [list(map(int, r)) for r in op[1]]] if op[0] == 'i' else ['s'] for op in ops]


def ops_from_json(j):
  return [('i', [tuple(r) for r in o[1]]) if o[0] == 'i' else ('s',) for o in j]


# ----------------------------------------------------------------------------- generators


def label_rows(w, start, k):
  return [tuple(j * w + t for t in range(w)) for j in range(start, start + k)]


def gen_config(rng, wrap=None, kind=None):
  kind = kind or ('q' if rng.random() < 0.65 else 'u')
  wrap = wrap or rng.choice(['n', 'n', 'pjit', 'pmap'])
  cap = int(rng.choice([1, 2, 3, 4, 5, 6, 7, 8, 12]))
  B = int(rng.integers(1, min(cap + 1, 5) + 1))
  return dict(kind=kind, wrap=str(wrap), cap=cap, B=B, cyc=int(rng.random() < 0.5) if kind == 'q' else 0,
              D=int(rng.integers(2, 5)) if wrap != 'n' else 1, w=int(rng.choice([1, 1, 3])))


def gen_ops(rng, cfg, length, allow_bad=True):
  """random history; uniform queues are not sampled while empty (that point is probed separately)"""
  D = cfg['D'] if cfg['wrap'] != 'n' else 1
  cap, w = cfg['cap'], cfg['w']
  ops, lbl, nonempty = [], 1, False
  p_ins = rng.choice([0.35, 0.5, 0.65])
  for _ in range(length):
    if rng.random() < p_ins or (cfg['kind'] == 'u' and not nonempty):
      r = rng.random()
      if r < 0.06:
        k = 0
      elif r < 0.12 and allow_bad:
        k = cap + 1
      elif r < 0.3:
        k = cap
      else:
        k = int(rng.integers(1, cap + 1))
      n = k * D
      if allow_bad and D > 1 and rng.random() < 0.03:
        n += int(rng.integers(1, D))
      ops.append(('i', label_rows(w, lbl, n)))
      lbl += n
      if 0 < k <= cap and n % D == 0:
        nonempty = True
    else:
      ops.append(('s',))
  return ops


# ----------------------------------------------------------------------------- exhaustive trie walk


def real_exhaustive(cfg, L, pre=(), deadline=None):
  """walk every history of length ≤ L over {sample, insert k (1 ≤ k ≤ cap) per shard} on the real code.

  Returns (count, digest, first/shortest spec failure or None).  The digest is the one `C17.exh` computes."""
  rb_ = real_buf(cfg)
  D, cap, w, B, cyc = rb_.nshards, cfg['cap'], cfg['w'], cfg['B'], cfg['cyc']
  q = rb_.q
  best = {'fail': None, 'depth': L + 1}
  total = [0, 0]

  def apply(state, host, spec, lbl, code):
    q._size = host
    if code == 0:
      outcome, new, batch = rb_.sample(state)
      rows = None
    else:
      rows = label_rows(w, lbl, code * D)
      outcome, new = rb_.insert(state, rows)
      batch = np.zeros((0, w), np.int64)
      lbl += code * D
    return outcome, new, batch, rows, lbl

  def check(spec, code, rows, outcome, batch, shards, size, path):
    sp2 = spec.copy()
    if code == 0:
      want, wout = sp2.sample()
      got = tuple(tuple(int(x) for x in r) for r in batch)
      if want != outcome:
        return sp2, f'sample: outcome {outcome}, FIFO spec says {want}'
      if got != tuple(wout):
        return sp2, f'sample returned {got}, FIFO spec says {tuple(wout)}'
    else:
      want = sp2.insert(rows)
      if want != outcome:
        return sp2, f'insert of {len(rows)} records: outcome {outcome}, FIFO spec says {want}'
    for d, (ip, sp, data) in enumerate(shards):
      got = tuple(tuple(int(x) for x in r) for r in data[:ip])
      if got != sp2.shards[d][0]:
        return sp2, f'data[:insert_position] of shard {d} is {got}, the most recent records are {sp2.shards[d][0]}'
    if size != sp2.size():
      return sp2, f'size() = {size}, records still available = {sp2.size()}'
    return sp2, None

  def visit(state, host, spec, lbl, ph, code, depth, path):
    outcome, new, batch, rows, lbl2 = apply(state, host, spec, lbl, code)
    host2 = int(q._size)
    shards, size = rb_.observe_size(new)
    ph2 = _mix(_mix(ph, 777), code)
    h = ph2
    for t in node_tokens(outcome, host2, size, batch, shards):
      h = _mix(h, t)
    total[0] += 1
    total[1] = (total[1] + h) % HASH_MOD
    path = path + (code,)
    sp2 = spec
    if spec is not None:
      sp2, msg = check(spec, code, rows, outcome, batch, shards, size, path)
      if msg and depth < best['depth']:
        best['fail'], best['depth'] = dict(what=msg, codes=list(path)), depth
      if msg:
        sp2 = None                         # below a failing node the spec state is meaningless
    if depth < L and (deadline is None or time.time() < deadline):
      for c in range(cap + 1):
        visit(new, host2, sp2, lbl2, ph2, c, depth + 1, path)

  state, host, spec, lbl, ph = rb_.reset(), 0, SpecBuf(cfg), 1, 0
  pre = list(pre)
  for code in pre[:-1]:
    outcome, state, batch, rows, lbl = apply(state, host, spec, lbl, code)
    host = int(q._size)
    if code == 0:
      spec.sample()
    else:
      spec.insert(rows)
    ph = _mix(_mix(ph, 777), code)
  if pre:
    visit(state, host, spec, lbl, ph, pre[-1], len(pre), tuple(pre[:-1]))
  elif L > 0:
    for c in range(cap + 1):
      visit(state, host, spec, lbl, ph, c, 1, ())
  return total[0], total[1], best['fail']


def codes_to_ops(cfg, codes):
  D = cfg['D'] if cfg['wrap'] != 'n' else 1
  ops, lbl = [], 1
  for c in codes:
    if c == 0:
      ops.append(('s',))
    else:
      ops.append(('i', label_rows(cfg['w'], lbl, c * D)))
      lbl += c * D
  return ops


def exh_line(cfg, L, pre=()):
  return ' '.join(str(t) for t in ['C17.exh', 'n' if cfg['wrap'] == 'n' else 's', cfg['cap'], cfg['B'],
                                  int(cfg['cyc']), cfg['D'] if cfg['wrap'] != 'n' else 1, cfg['w'], L,
                                  len(pre)] + list(pre))


def localise(cfg, L):
  """digest mismatch -> the shortest history on which model and implementation differ"""
  pre = []
  while len(pre) < L:
    lines = [exh_line(cfg, L, pre + [c]) for c in range(cfg['cap'] + 1)]
    outs = C.run_driver(DRIVER, lines)
    nxt = None
    for c, o in enumerate(outs):
      cnt, dig, _ = real_exhaustive(cfg, L, pre + [c])
      if o != f'{cnt} {dig}':
        nxt = c
        break
    if nxt is None:
      break
    pre.append(nxt)
    # is the node itself already different?
    ops = codes_to_ops(cfg, pre)
    res = run_history(cfg, ops, check_spec=False)
    d = compare_history(cfg, ops, res, C.run_driver(DRIVER, [ops_to_line(cfg, ops, res['idx'])])[0])
    if d:
      return d
  return dict(what=f'exhaustive digest of {cfg} differs but no single history could be isolated', cfg=cfg,
              ops=ops_json(codes_to_ops(cfg, pre)))


def exhaustive_plan(ctx):
  """[(cfg, L)] — see notes/C17.md for the budget reasoning"""
  plan = []
  thorough = ctx.tier == 'thorough'
  caps = range(1, 6) if thorough else range(1, 5)
  Bs = range(1, 5) if thorough else range(1, 4)
  L = 7 if thorough else 5
  big = []                                # the largest tries go last (see the soft deadline in correspond)
  for cap in caps:
    for B in Bs:
      for cyc in (0, 1):
        (big if cap >= 5 else plan).append((dict(kind='q', wrap='n', cap=cap, B=B, cyc=cyc, D=1, w=1), L))
  # pytree records, plain
  plan.append((dict(kind='q', wrap='n', cap=3, B=2, cyc=0, D=1, w=3), 5 if thorough else 4))
  plan.append((dict(kind='q', wrap='n', cap=2, B=1, cyc=1, D=1, w=3), 5 if thorough else 4))
  # wrappers: ~1.2 ms (pjit) / ~50 ms (pmap: `size` retraces on every call) per operation
  if thorough:
    for D in (2, 3, 4):
      for cap in (1, 2, 3):
        for B in (1, 2, 3):
          for cyc in (0, 1):
            plan.append((dict(kind='q', wrap='pjit', cap=cap, B=B, cyc=cyc, D=D, w=1), 6 if cap < 3 else 5))
    for D in (2, 3, 4):
      plan.append((dict(kind='q', wrap='pmap', cap=2, B=1 + D % 2, cyc=D % 2, D=D, w=1), 4))
  else:
    for D in (2, 3, 4):
      for cyc in (0, 1):
        plan.append((dict(kind='q', wrap='pjit', cap=2, B=1 + (D + cyc) % 2, cyc=cyc, D=D, w=1), 4))
    plan.append((dict(kind='q', wrap='pmap', cap=2, B=1, cyc=0, D=2, w=1), 2))
  return plan + big


# ----------------------------------------------------------------------------- F7 probe


def probe_uniform_empty(cfg=None):
  """`UniformSamplingQueue.sample` on a buffer that holds nothing.  Returns a failure dict or None."""
  cfg = cfg or dict(kind='u', wrap='n', cap=4, B=3, cyc=0, D=1, w=2)
  rb_ = real_buf(cfg)
  state = rb_.reset()
  try:
    outcome, _, batch = rb_.sample(state)
  except Exception as e:                       # any refusal is fine
    return None
  if outcome != OK:
    return None
  return dict(key='F7:uniform-empty-sample',
              what=f'UniformSamplingQueue(max_replay_size={cfg["cap"]}, sample_batch_size={cfg["B"]}).sample on an '
                   f'empty buffer does not refuse: it returns {np.asarray(batch).tolist()} (the zero-initialised '
                   'storage row), a record that was never inserted',
              cfg=cfg, ops=[['s']], probe='uniform-empty')


# ----------------------------------------------------------------------------- correspond


def _import_jax():
  import jax
  jax.config.update('jax_enable_x64', True)
  if len(jax.devices()) < 4:
    raise RuntimeError('XLA_FLAGS did not take effect: fewer than 4 host devices (jax imported too early?)')
  return jax


def minimise(cfg, ops, still_fails):
  """delta debugging on the op list (labels kept)"""
  ops = list(ops)
  changed = True
  while changed:
    changed = False
    for i in range(len(ops)):
      cand = ops[:i] + ops[i + 1:]
      if cand and still_fails(cand):
        ops, changed = cand, True
        break
  return ops


def spec_failure_record(cfg, ops, fail):
  def still(cand):
    r = run_history(cfg, cand)
    return r['spec'] is not None
  ops = ops[:fail['step'] + 1] if 'step' in fail else ops
  small = minimise(cfg, ops, still) if len(ops) <= 60 else ops
  r = run_history(cfg, small)
  f = r['spec'] or fail
  cls = 'Queue' if cfg['kind'] == 'q' else 'UniformSamplingQueue'
  wr = {'n': '', 'pjit': ' behind PjitWrapper', 'pmap': ' behind PmapWrapper'}[cfg['wrap']]
  return dict(key=fail.get('key', f'fifo:{cfg["kind"]}:{cfg["wrap"]}'),
              what=f'{cls}(cap={cfg["cap"]}, batch={cfg["B"]}, cyclic={bool(cfg["cyc"])}){wr}'
                   f'{" x" + str(cfg["D"]) if cfg["wrap"] != "n" else ""}: after {describe(small)}: {f["what"]}',
              cfg=cfg, ops=ops_json(small))


def describe(ops):
  return ', '.join(f'insert {[r[0] if len(r) == 1 else list(r) for r in op[1]]}' if op[0] == 'i' else 'sample'
                   for op in ops)


def correspond(ctx):
  _import_jax()
  rng = np.random.default_rng(ctx.seed)
  t_start = time.time()
  disagreements, spec_failures, samples = [], [], []
  evaluations, distinct = 0, set()
  hist = dict(kind={}, wrap={}, cap={}, outcome=[0, 0, 0, 0], rolled_inserts=0, records_w={}, shards={})

  def bump(d, k):
    d[str(k)] = d.get(str(k), 0) + 1

  failures = {}                              # key -> shortest failing history found so far

  def add_failure(cfg, ops, fail, minimal=False):
    key = fail.get('key', f'fifo:{cfg["kind"]}:{cfg["wrap"]}')
    if key in failures and (not minimal or len(failures[key]['ops']) <= len(ops)):
      return
    failures[key] = spec_failure_record(cfg, ops, fail)

  # (c) F7 probe -------------------------------------------------------------------------------
  f7 = probe_uniform_empty()
  if f7:
    spec_failures.append(f7)
  # model side of the probe: the model reproduces the zero row
  probe_cfg = dict(kind='u', wrap='n', cap=4, B=3, cyc=0, D=1, w=2)
  res = run_history(probe_cfg, [('s',)], check_spec=False)
  d = compare_history(probe_cfg, [('s',)], res,
                      C.run_driver(DRIVER, [ops_to_line(probe_cfg, [('s',)], res['idx'])])[0])
  if d:
    disagreements.append(d)
  evaluations += 1

  # (a) random histories ---------------------------------------------------------------------------
  n_cfg = ctx.budget(24, 90)
  per_cfg = ctx.budget(12, 14)
  length = 40
  cases = []
  wraps = ['n', 'n', 'n', 'pjit', 'pjit', 'pmap']
  for ci in range(n_cfg):
    cfg = gen_config(rng, wrap=wraps[ci % len(wraps)])
    n_seq = per_cfg if cfg['wrap'] != 'pmap' else max(2, per_cfg // 4)
    for si in range(n_seq):
      ops = gen_ops(rng, cfg, length if cfg['wrap'] != 'pmap' else 24)
      # PmapWrapper.size re-traces a pmap on every call (~50 ms): measure it on the last op, and on
      # every op for the first sequence of each pmap configuration
      size_every = 1 if cfg['wrap'] != 'pmap' or si == 0 else 0
      res = run_history(cfg, ops, size_every=size_every)
      cases.append((cfg, ops, res))
      bump(hist['kind'], cfg['kind']); bump(hist['wrap'], cfg['wrap']); bump(hist['cap'], cfg['cap'])
      bump(hist['records_w'], cfg['w']); bump(hist['shards'], cfg['D'] if cfg['wrap'] != 'n' else 1)
      for i in range(4):
        hist['outcome'][i] += res['stats']['outcomes'][i]
      hist['rolled_inserts'] += res['stats']['rolled']
      if res['spec']:
        add_failure(cfg, ops, res['spec'])
  outs = C.run_driver(DRIVER, [ops_to_line(cfg, ops, res['idx']) for cfg, ops, res in cases])
  if len(outs) != len(cases):
    raise RuntimeError(f'driver returned {len(outs)} lines for {len(cases)} cases')
  for (cfg, ops, res), o in zip(cases, outs):
    evaluations += len(ops)
    for n in range(len(ops)):
      distinct.add(hash((tuple(sorted(cfg.items())), repr(ops[:n + 1]))))
    d = compare_history(cfg, ops, res, o)
    if d and len(disagreements) < 5:
      disagreements.append(d)
  for cfg, ops, res in cases[:2]:
    samples.append(dict(cfg=cfg, ops=describe(ops[:6]) + ', ...', last_state=res['tokens'][-1]))
  # python spec == Lean spec on the plain-queue histories
  plain = [(cfg, ops) for cfg, ops, _ in cases if cfg['kind'] == 'q' and cfg['wrap'] == 'n'][:ctx.budget(40, 200)]
  souts = C.run_driver(DRIVER, [spec_line(cfg, ops) for cfg, ops in plain]) if plain else []
  for (cfg, ops), o in zip(plain, souts):
    want = ' | '.join(' '.join(str(t) for t in g) for g in py_spec_tokens(cfg, ops))
    if o != want:
      disagreements.append(dict(what='python FIFO spec and Lean Spec/C17 differ', cfg=cfg, ops=ops_json(ops)))
      break
  t_random = time.time() - t_start

  # (b) exhaustive histories ---------------------------------------------------------------------------------
  plan = exhaustive_plan(ctx)
  exh_nodes, exh_cfgs, reduced, walked = 0, 0, [], []
  soft_deadline = time.time() + ctx.budget(80, 800)
  for cfg, L in plan:
    if cfg['wrap'] == 'pmap':
      # explicit leaf histories (size measured on the last operation only)
      leaves = [[]]
      for _ in range(L):
        leaves = [p + [c] for p in leaves for c in range(cfg['cap'] + 1)]
      pcases = []
      for codes in leaves:
        ops = codes_to_ops(cfg, codes)
        res = run_history(cfg, ops, size_every=0)
        pcases.append((ops, res))
        if res['spec']:
          add_failure(cfg, ops, res['spec'], minimal=True)
      pouts = C.run_driver(DRIVER, [ops_to_line(cfg, ops, res['idx']) for ops, res in pcases])
      for (ops, res), o in zip(pcases, pouts):
        d = compare_history(cfg, ops, res, o)
        if d and len(disagreements) < 5:
          disagreements.append(d)
      exh_nodes += sum((cfg['cap'] + 1) ** l for l in range(1, L + 1))
      exh_cfgs += 1
      continue
    if time.time() > soft_deadline:          # slow machine: shorten the remaining walks, and say so
      L2 = min(L, 4 if cfg['wrap'] != 'n' else 5)
      if L2 < L:
        reduced.append(dict(cfg=cfg, planned=L, walked=L2))
        L = L2
    cnt, dig, fail = real_exhaustive(cfg, L)
    walked.append((cfg, L, cnt, dig))
    exh_nodes += cnt
    exh_cfgs += 1
    if fail:
      ops = codes_to_ops(cfg, fail['codes'])
      add_failure(cfg, ops, dict(what=fail['what'], step=len(ops) - 1), minimal=True)
  lean_out = C.run_driver(DRIVER, [exh_line(cfg, L) for cfg, L, _, _ in walked])
  if len(lean_out) != len(walked):
    raise RuntimeError('driver returned a wrong number of exhaustive digests')
  for (cfg, L, cnt, dig), want in zip(walked, lean_out):
    if want != f'{cnt} {dig}' and len(disagreements) < 5:
      disagreements.append(localise(cfg, L))
  spec_failures += list(failures.values())
  if reduced:
    ctx.notes.append(f'exhaustive walk shortened for {len(reduced)} configurations (time budget)')
  evaluations += exh_nodes
  t_exh = time.time() - t_start - t_random
  # model and implementation disagree but no history contradicted the spec yet: look for one now
  # (check.py only calls search() when spec_failures is empty, and the F7 probe may occupy it)
  if disagreements and all(f.get('probe') for f in spec_failures):
    spec_failures += [f for f in search(ctx, [d['what'] for d in disagreements],
                                        dict(disagreements=disagreements)) if not f.get('probe')][:3]
  # de-duplicate spec failures by key
  seen, uniq = set(), []
  for f in sorted(spec_failures, key=lambda f: (not f.get('probe'), len(f.get('ops', [])))):   # shortest per key
    if f['key'] not in seen:
      seen.add(f['key']); uniq.append(f)
  # findings already listed as known are not violations; check.py prints them through reproduce_known.
  # (Filtered here because check.py turns a spec_failures list that is emptied by its own known-key
  # filter into a `no-failing-input-found` violation even when nothing is broken.)
  known_keys = {e.get('key') for e in C.load_known('C17') if e.get('kind') == 'known'}
  known_hit = [f['key'] for f in uniq if f['key'] in known_keys]
  uniq = [f for f in uniq if f['key'] not in known_keys]
  return dict(
      evaluations=evaluations, distinct_nontrivial=len(distinct) + exh_nodes,
      rule='one evaluation = one operation executed on the real buffer and compared exactly (storage, both '
           'positions, batch, size(), host counter, guard outcome) with the Lean model; distinct = distinct '
           '(configuration, operation-history prefix) pairs of the random part plus the nodes of the exhaustive '
           'tries (every node is a different history)',
      samples=samples, disagreements=disagreements, spec_failures=uniq,
      trusted_base=['correspondence harness harness/corr_C17.py: real Queue/UniformSamplingQueue/PjitWrapper/PmapWrapper '
                    'through the public API vs Driver/C17.lean, exact integer comparison after every operation',
                    'jax.random.split/randint are deterministic functions of the key (the drawn indices are '
                    're-computed by the harness with the same two calls and handed to the model as data)',
                    'jit/vmap/pmap/pjit preserve the semantics of the traced python'],
      assumptions=['the host counter `_size` lives in the buffer object; the model threads it through one linear '
                   'history per buffer object (re-using one object for two states is outside the model)',
                   'wrapped inserts whose batch is not a multiple of the shard count are tied to the model '
                   '(TypeError after `_size` was already updated) but lie outside the property quantifier',
                   'record payloads are int32; float payloads only pass through take/update-slice/roll unchanged',
                   'exhaustive part for the wrappers is smaller than for the plain queue (cost per call), see rule/extra'],
      explanation='Tie B, exact-integer mode: histories of inserts/samples on the real buffers vs the Lean model; '
                  'the theorems of Props/C17 (all capacities, batch sizes, shard counts and histories) are about that model.',
      extra=dict(histogram=hist, random_histories=len(cases), random_history_length=length,
                 exhaustive_configs=exh_cfgs, exhaustive_nodes=exh_nodes,
                 exhaustive_plan=[dict(wrap=c['wrap'], cap=c['cap'], B=c['B'], cyc=c['cyc'], D=c['D'], w=c['w'], L=L)
                                  for c, L in plan][:12] + ['...'],
                 exhaustive_reduced=reduced[:20], known_findings_reproduced=known_hit,
                 seconds=dict(random=round(t_random, 1), exhaustive=round(t_exh, 1)),
                 devices=4))


# ----------------------------------------------------------------------------- search / replay


def search(ctx, broken, corr):
  """spec vs implementation over the property's own quantifier; minimal failing history first"""
  _import_jax()
  t_end = time.time() + ctx.budget(55, 540)
  found = {}
  f7 = probe_uniform_empty()
  if f7:
    found[f7['key']] = f7
  # start from the disagreeing inputs
  for d in corr.get('disagreements', []):
    if 'cfg' in d and 'ops' in d:
      cfg, ops = d['cfg'], ops_from_json(d['ops'])
      if all(op[0] == 's' or len(op[1]) % (cfg['D'] if cfg['wrap'] != 'n' else 1) == 0 for op in ops):
        r = run_history(cfg, ops)
        if r['spec']:
          rec = spec_failure_record(cfg, ops, r['spec'])
          found.setdefault(rec['key'], rec)
  # exhaustive short histories, shortest failing history wins
  for L in (3, 4, 5):
    for wrap, D in (('n', 1), ('pjit', 2), ('pjit', 3)):
      for cap in (1, 2, 3):
        for B in (1, 2):
          for cyc in (0, 1):
            cfg = dict(kind='q', wrap=wrap, cap=cap, B=B, cyc=cyc, D=D, w=1)
            key = f'fifo:q:{wrap}'
            if key in found or time.time() > t_end:
              continue
            _, _, fail = real_exhaustive(cfg, L if wrap == 'n' else min(L, 4), deadline=t_end)
            if fail:
              ops = codes_to_ops(cfg, fail['codes'])
              found[key] = spec_failure_record(cfg, ops, dict(what=fail['what'], step=len(ops) - 1))
  # random histories (valid operations only), all kinds and wrappers
  rng = np.random.default_rng(ctx.seed + 17)
  while time.time() < t_end:
    cfg = gen_config(rng)
    key = f'fifo:{cfg["kind"]}:{cfg["wrap"]}'
    if key in found:
      if len(found) >= 7:
        break
      continue
    for _ in range(4):
      ops = gen_ops(rng, cfg, 30 if cfg['wrap'] != 'pmap' else 16, allow_bad=False)
      r = run_history(cfg, ops, size_every=1 if cfg['wrap'] != 'pmap' else 0)
      if r['spec']:
        rec = spec_failure_record(cfg, ops, r['spec'])
        found.setdefault(rec['key'], rec)
        break
  return sorted(found.values(), key=lambda f: len(f.get('ops', [])))


def replay(ctx, rp):
  _import_jax()
  if rp.get('kind') != 'failing-input':
    return True, f'replay names broken obligations only: {rp.get("broken")}'
  if rp.get('probe') == 'uniform-empty':
    f = probe_uniform_empty(rp.get('cfg'))
    return (f is None), (f['what'] if f else 'UniformSamplingQueue.sample refuses on an empty buffer')
  cfg, ops = rp['cfg'], ops_from_json(rp['ops'])
  r = run_history(cfg, ops)
  if r['spec']:
    return False, f'{cfg}: after {describe(ops)}: {r["spec"]["what"]}'
  return True, f'{cfg}: {describe(ops)}: implementation agrees with the FIFO spec'


def reproduce_known(ctx, entry):
  _import_jax()
  if entry.get('key') == 'F7:uniform-empty-sample':
    return probe_uniform_empty() is not None
  return True
