"""C06 deepening: the constraint solver call of `brax/generalized/constraint.py::force`, real vs Lean model.

The REAL `constraint.force(sys, state)` is executed (eagerly) on small synthetic `(con_jac, con_diag, con_aref, mass_mx_inv,
qf_smooth)` with `sys.solver_iterations` in {0, 1, 5, 100}; a spy around `jaxopt.ProjectedGradient` records how brax configures
the solver (constructor arguments, the `a`, `b` captured by the objective closure, the initial point) and what `run` returns
(`params`, `state.iter_num/stepsize/t/error`).  The Lean model (`Brax/Model/C06Solver.lean`, driver `Driver/C06Solver.lean`) gets
the same `a`, `b`, `maxiter`, `maxls`, the library's own `tol` and `finfo(dtype).eps`:

* `f.pg`      : `pgRun`  -> iteration count must be EQUAL, `params`, `stepsize`, `t`, `error` within 1e-9 (relative to the scale of `params`);
                when the real run overflows to inf/nan (divergence, see notes/C06-deepen-solver.md) the model must overflow too (the
                iteration at which it happens is not compared)
* `f.pgforce` : `force (pgSolve ...)` -> `qf_constraint` of the real `constraint.force` within 1e-9

and on the real side every returned multiplier must be `>= 0` (the statement of `pgSolve_nonneg`) and exactly `0` when
`a.T @ b >= 0` (`pgSolve_zero_of_inactive`).

`solver_cases(ctx) -> (n_cases, disagreements)`; called from `corr_C06.correspond`.
"""
from __future__ import annotations

import os
import sys

import numpy as np

HERE = os.path.dirname(os.path.abspath(__file__))
if HERE not in sys.path:
  sys.path.insert(0, HERE)
import check as C  # noqa: E402
import wire  # noqa: E402

DRIVER = 'Driver/C06Solver.lean'
TOL = 1e-9
MAXITERS = (0, 1, 5, 100)
A = lambda x: np.asarray(x, dtype=np.float64)
STATS = {}          # filled by solver_cases (distribution of the generated problems), read by the caller if wanted


def same(lean, real, tol):
  """entrywise: finite values within `tol` (absolute), non-finite values identical (nan with nan, inf with the same inf)"""
  lean, real = np.atleast_1d(A(lean)), np.atleast_1d(A(real))
  if lean.shape != real.shape:
    return False
  fin = np.isfinite(real)
  if not np.array_equal(fin, np.isfinite(lean)):
    return False
  if not np.array_equal(np.isnan(real), np.isnan(lean)):
    return False
  if np.any(lean[~fin & ~np.isnan(real)] != real[~fin & ~np.isnan(real)]):
    return False
  return bool(np.all(np.abs(lean[fin] - real[fin]) <= tol))


def fscale(x):
  x = np.atleast_1d(A(x))
  x = x[np.isfinite(x)]
  return 1.0 + (float(np.max(np.abs(x))) if x.size else 0.0)


class _Sys:
  """the three things `constraint.force` reads from `sys`"""

  def __init__(self, nv, maxiter, maxls):
    self.nv, self.solver_iterations, self.solver_maxls = nv, maxiter, maxls

  def qd_size(self):
    return self.nv


class _State:
  """the five fields `constraint.force` reads from `state`"""

  def __init__(self, jac, diag, aref, minv, qfs):
    import jax.numpy as jp
    self.con_jac, self.con_diag, self.con_aref = jp.asarray(jac), jp.asarray(diag), jp.asarray(aref)
    self.mass_mx_inv, self.qf_smooth = jp.asarray(minv), jp.asarray(qfs)


def real_force(jac, diag, aref, minv, qfs, maxiter, maxls):
  """run the real `constraint.force`; returns (qf_constraint, record of the solver call)"""
  import jaxopt
  from brax.generalized import constraint
  rec = {}
  RealPG = jaxopt.ProjectedGradient

  class SpyPG:
    def __init__(self, fun, projection, **kw):
      rec['fun'], rec['projection'], rec['kw'] = fun, projection, dict(kw)
      self.real = RealPG(fun, projection, **kw)
      rec['cfg'] = {k: getattr(self.real, k) for k in ('stepsize', 'maxiter', 'maxls', 'tol', 'acceleration', 'decrease_factor',
                                                       'implicit_diff', 'jit', 'unroll', 'value_and_grad', 'has_aux')}

    def run(self, init, *a, **k):
      rec['extra_run_args'] = bool(a or k)     # hyperparams_proj etc.: the model has none
      rec['init'] = A(init)
      r = self.real.run(init, *a, **k)
      rec['params'], rec['state'] = r.params, r.state
      return r
  constraint.jaxopt.ProjectedGradient = SpyPG
  try:
    qf = constraint.force(_Sys(A(minv).shape[0], maxiter, maxls), _State(jac, diag, aref, minv, qfs))
  finally:
    constraint.jaxopt.ProjectedGradient = RealPG
  if 'fun' in rec:
    cl = dict(zip(rec['fun'].__code__.co_freevars, [c_.cell_contents for c_ in rec['fun'].__closure__]))
    rec['a'], rec['b'] = A(cl['a']), A(cl['b'])
  return A(qf), rec


# the configuration the Lean model transcribes; anything else is a disagreement (the model would be of another algorithm)
EXPECTED_CFG = dict(stepsize=0.0, acceleration=True, decrease_factor=0.5, implicit_diff=False, jit=True, unroll='auto',
                    value_and_grad=False, has_aux=False)


def gen_problem(rng, i):
  """(tag, jac, diag, aref, minv, qfs): rows as brax builds them (inactive rows are zero in jac, diag and aref)"""
  k = int(rng.integers(1, 7))
  nv = int(rng.integers(1, 7))
  kind = ('mixed', 'all_active', 'all_inactive', 'wants_no_force', 'identity_exact', 'nonsymmetric', 'illcond', 'large_norm')[i % 8]
  m = rng.normal(size=(nv, nv))
  minv = m @ m.T + 0.1 * np.eye(nv)
  jac = rng.normal(size=(k, nv))
  diag = rng.uniform(0.0, 0.5, size=k)
  aref = rng.normal(size=k) * 3
  qfs = rng.normal(size=nv) * 5
  if kind == 'mixed':
    off = rng.random(k) < 0.4
    jac[off], diag[off], aref[off] = 0.0, 0.0, 0.0
  elif kind == 'all_inactive':
    jac[:], diag[:], aref[:] = 0.0, 0.0, 0.0
  elif kind == 'wants_no_force':
    # every row's unconstrained acceleration already exceeds its reference: b > 0
    aref = jac @ minv @ qfs - rng.uniform(0.1, 2.0, size=k)
  elif kind == 'identity_exact':
    nv = k
    jac, minv, diag = np.eye(k), np.eye(k) * float(rng.integers(1, 4)), np.zeros(k)
    qfs, aref = np.zeros(k), rng.integers(-3, 4, size=k).astype(float)
  elif kind == 'nonsymmetric':
    nv = k
    jac, minv, diag = np.eye(k), rng.normal(size=(k, k)) + 2 * np.eye(k), np.zeros(k)
    qfs = rng.normal(size=k) * 2
  elif kind == 'illcond':
    minv = m @ np.diag(10.0 ** rng.uniform(-3, 2, size=nv)) @ m.T
    diag = diag * 1e-3
  elif kind == 'large_norm':
    # light bodies: lambda_max(a) beyond 2**10.5 ~ 1448, where the shortest step the line search can take (2**-20 with the default
    # maxls = 20) is too long and the real iteration diverges to inf / nan (notes/C06-deepen-solver.md); the model must follow
    minv = minv * 10.0 ** rng.uniform(3, 5)
  return kind, jac, diag, aref, minv, qfs


def solver_cases(ctx):
  import jax
  jax.config.update('jax_enable_x64', True)
  import jax.numpy as jp
  rng = np.random.default_rng([ctx.seed, 606])
  n_problems = ctx.budget(16, 72)
  lines, checks, dis = [], [], []
  st = dict(problems=0, by_kind={}, by_maxiter={}, by_size={}, iters_hist={}, stopped_by_tol=0, hit_maxiter=0, x_zero=0, x_positive_entries=0,
            x_entries=0, real_min_x=None, real_nonfinite=0, real_nonfinite_by_maxls={}, real_nonfinite_example=None, probe_cases=0, probe_response_max=0.0, unstable_cases=0, unstable_by_kind={}, zero_predicted=0, maxls_values={}, linesearch_backtracked=0)
  eps = float(np.finfo(np.float64).eps)
  for i in range(n_problems):
    kind, jac, diag, aref, minv, qfs = gen_problem(rng, i)
    maxls = int((20, 20, 20, 5, 1, 0)[int(rng.integers(0, 6))])
    if kind == 'large_norm':
      maxls = 20
    for maxiter in MAXITERS:
      qf, rec = real_force(jac, diag, aref, minv, qfs, maxiter, maxls)
      info = dict(kind=kind, maxiter=maxiter, maxls=maxls, jac=jac.tolist(), diag=diag.tolist(), aref=aref.tolist(), minv=minv.tolist(),
                  qfs=qfs.tolist())
      cfg = rec['cfg']
      bad = {k: cfg[k] for k, v in EXPECTED_CFG.items() if cfg[k] != v}
      if bad or rec['extra_run_args'] or cfg['maxiter'] != maxiter or cfg['maxls'] != maxls or np.any(rec['init'] != 0) or rec['init'].shape != rec['b'].shape \
          or rec['projection'].__name__ != 'projection_non_negative':
        dis.append(dict(what='constraint.force configures jaxopt.ProjectedGradient differently from the Lean model', differs=str(bad),
                        cfg=str(cfg), **info))
        continue
      a_m, b_v, x = rec['a'], rec['b'], A(rec['params'])
      s = rec['state']
      real_state = (int(s.iter_num), float(s.stepsize), float(s.t), float(s.error))
      k = a_m.shape[0]
      # ---- measured conditioning of the REAL computation (long runs only): the same call with `mass_mx_inv`, `con_aref` perturbed by
      # ~50 ulp (relative 1e-14; zero entries stay zero).  A run whose accepted steps are too long (line search cut off by `maxls`)
      # is not contractive and amplifies round-off; the comparison tolerance is max(1e-9, 100 x the response to this perturbation),
      # and the iteration count is compared only if the perturbed real run has the same count.
      resp, count_stable = 0.0, True
      if maxiter == 100 and kind != 'identity_exact' and np.all(np.isfinite(x)):
        sg = np.random.default_rng([ctx.seed, 607, i])
        _, rec2 = real_force(jac, diag, aref * (1 + 1e-14 * sg.choice([-1.0, 1.0], size=aref.shape)),
                             minv * (1 + 1e-14 * sg.choice([-1.0, 1.0], size=minv.shape)), qfs, maxiter, maxls)
        x2 = A(rec2['params'])
        count_stable = int(rec2['state'].iter_num) == real_state[0]
        resp = float(np.max(np.abs(x2 - x))) / fscale(x) if np.all(np.isfinite(x2)) else np.inf
        st['probe_cases'] += 1
        st['probe_response_max'] = max(st['probe_response_max'], resp if np.isfinite(resp) else 1.0)
        if resp > 1e-11 or not count_stable:
          st['unstable_cases'] += 1
          st['unstable_by_kind'][f'{kind}/maxls={maxls}'] = st['unstable_by_kind'].get(f'{kind}/maxls={maxls}', 0) + 1
      case_tol = max(TOL, 100 * resp) if np.isfinite(resp) else np.inf
      # ---- statements of the theorems, on the real solver
      if x.dtype != np.float64 or str(jp.asarray(rec['params']).dtype) != 'float64':
        raise RuntimeError('x64 is not enabled')
      if np.any(x < 0):
        dis.append(dict(what=f'jaxopt.ProjectedGradient returned a negative multiplier {np.nanmin(x)}', x=x.tolist(), **info))
      if np.any(np.isfinite(x)):
        m = float(np.min(x[np.isfinite(x)]))
        st['real_min_x'] = m if st['real_min_x'] is None else min(st['real_min_x'], m)
      if not np.all(np.isfinite(x)):
        # overflow of the real solver (observed only with a small line-search bound `solver_maxls`: the accepted step is too long
        # and the iteration diverges); outside the theorems (ordered field), but the Lean model at Float must reproduce it
        st['real_nonfinite'] += 1
        st['real_nonfinite_by_maxls'][maxls] = st['real_nonfinite_by_maxls'].get(maxls, 0) + 1
        if st['real_nonfinite_example'] is None:
          st['real_nonfinite_example'] = dict(kind=kind, maxiter=maxiter, maxls=maxls, rows=int(k),
                                              sigma_max_a=float(np.linalg.norm(rec['a'], 2)), x=[str(v) for v in x],
                                              iter_num=int(s.iter_num))
      # hypothesis of pgSolve_zero_of_inactive, decided in floats: only used when b = 0 or the margin is clear
      atb = a_m.T @ b_v
      clear = bool(np.all(np.isfinite(a_m))) and bool(np.all(np.isfinite(b_v))) and \
          bool(np.all(atb >= 1e-12 * (1 + np.abs(a_m).sum() * np.abs(b_v).max(initial=0.0))))
      if clear or not np.any(b_v):
        st['zero_predicted'] += 1
        if np.any(x != 0):
          dis.append(dict(what='a.T @ b >= 0 but jaxopt.ProjectedGradient returned a non-zero vector', x=x.tolist(), **info))
      # ---- statistics
      st['by_kind'][kind] = st['by_kind'].get(kind, 0) + 1
      st['by_maxiter'][maxiter] = st['by_maxiter'].get(maxiter, 0) + 1
      st['by_size'][k] = st['by_size'].get(k, 0) + 1
      st['maxls_values'][maxls] = st['maxls_values'].get(maxls, 0) + 1
      st['iters_hist'][real_state[0]] = st['iters_hist'].get(real_state[0], 0) + 1
      if maxiter > 0:
        if real_state[0] < maxiter:
          st['stopped_by_tol'] += 1
        else:
          st['hit_maxiter'] += 1
        if maxiter == 1 and real_state[1] != 2.0:
          st['linesearch_backtracked'] += 1
      st['x_zero'] += int(not np.any(x))
      st['x_positive_entries'] += int(np.sum(x > 0))
      st['x_entries'] += int(x.size)
      # ---- Lean: the solver run
      tol = float(cfg['tol'])
      tail = [str(maxiter), str(maxls), wire.tok(tol), wire.tok(eps)]
      lines.append(' '.join(['f.pg', str(k)] + wire.toks(a_m) + wire.toks(b_v) + tail))

      def chk(o, x=x, real_state=real_state, info=info, a_m=a_m, b_v=b_v, case_tol=case_tol, count_stable=count_stable):
        head, _, xs = o.partition('|')
        h = head.split()
        lean_x = np.array([wire.parse(t) for t in xs.split()], dtype=np.float64)
        lean_err = np.inf if h[3] == 'inf' else wire.parse(h[3])
        lean_state = (int(h[0]), wire.parse(h[1]), wire.parse(h[2]), lean_err)
        base = dict(lean_state=list(lean_state), real_state=list(real_state), lean_x=lean_x.tolist(), real_x=x.tolist(),
                    a=a_m.tolist(), b=b_v.tolist(), **info)
        if not np.all(np.isfinite(x)) or not np.all(np.isfinite(lean_x)):
          # overflow: the iterates blew up geometrically before reaching inf, which amplifies the last-bit differences between XLA's and
          # Lean's summation order, so the iteration at which inf/nan appears (and which entries relu still clamps) can differ by one;
          # required: BOTH sides overflow
          if np.all(np.isfinite(x)) != np.all(np.isfinite(lean_x)):
            return dict(what='solver: only one of the Lean model / jaxopt.ProjectedGradient overflowed to a non-finite result', **base)
          return None
        if not np.isfinite(case_tol):
          return None            # the real computation itself answers a 50-ulp perturbation of its input with inf/nan
        if count_stable and lean_state[0] != real_state[0]:
          return dict(what=f'solver: the Lean model made {lean_state[0]} iterations, jaxopt {real_state[0]}', **base)
        if lean_x.shape != x.shape:
          return dict(what='solver: params of the Lean model have another length', **base)
        scale = fscale(x)
        if not count_stable:
          return None if same(lean_x, x, case_tol * scale) else dict(what='solver: params of the Lean model differ from jaxopt.ProjectedGradient '
                                                                     '(unstable run: measured tolerance)', case_tol=case_tol, **base)
        if not same(lean_x, x, case_tol * scale):
          return dict(what='solver: params of the Lean model differ from jaxopt.ProjectedGradient', **base)
        for nm, lv, rv in zip(('stepsize', 't', 'error'), lean_state[1:], real_state[1:]):
          if not same(lv, rv, case_tol * (scale if nm == 'error' else 1.0) * fscale(rv)):
            return dict(what=f'solver: state.{nm} of the Lean model differs from jaxopt.ProjectedGradient', **base)
      checks.append(chk)
      # ---- Lean: constraint.force with solver := pgSolve
      nv = minv.shape[0]
      lines.append(' '.join(['f.pgforce', str(nv), str(jac.shape[0])] + wire.toks(jac) + wire.toks(diag) + wire.toks(aref) + wire.toks(minv)
                            + wire.toks(qfs) + tail))

      def chk2(o, qf=qf, info=info, case_tol=case_tol):
        lean_qf = np.array([wire.parse(t) for t in o.split()], dtype=np.float64)
        if not np.all(np.isfinite(qf)) or not np.all(np.isfinite(lean_qf)):
          if np.all(np.isfinite(qf)) != np.all(np.isfinite(lean_qf)):
            return dict(what='force with solver := pgSolve: only one side overflowed to a non-finite qf_constraint', lean=[str(v) for v in lean_qf],
                        real=[str(v) for v in qf], **info)
          return None
        if not np.isfinite(case_tol):
          return None
        if not same(lean_qf, qf, case_tol * fscale(qf) * 10):
          return dict(what='force with solver := pgSolve: qf_constraint of the Lean model differs from constraint.force', lean=lean_qf.tolist(),
                      real=qf.tolist(), **info)
      checks.append(chk2)
    st['problems'] += 1
  # malformed input must be rejected
  lines += ['f.pg 2 1 2 3', 'f.nosuchop 1']
  checks += [lambda o: None if o == 'bad-args' else dict(what=f'driver accepted a malformed f.pg line: {o}'),
             lambda o: None if o == 'bad-op' else dict(what=f'driver accepted an unknown op: {o}')]
  out = C.run_driver(DRIVER, lines)
  if len(out) != len(lines):
    raise RuntimeError(f'solver driver answered {len(out)} lines for {len(lines)}')
  for o, chk, l in zip(out[:-2], checks[:-2], lines[:-2]):
    if o.startswith('bad'):
      dis.append(dict(what=f'solver driver rejected a case: {o} ({l.split()[0]})'))
      continue
    d = chk(o)
    if d:
      dis.append(d)
  for o, chk in zip(out[-2:], checks[-2:]):
    d = chk(o)
    if d:
      dis.append(d)
  STATS.clear()
  STATS.update(st)
  return len(lines) - 2, dis
