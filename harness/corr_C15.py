"""C15 — episode / auto-reset / evaluation wrappers keep exact episode accounting.

Tie B (correspondence).  A scripted deterministic JAX environment (`Scripted`, a subclass of
`brax.envs.base.Env`) whose termination schedule and rewards are *data* — decoded from the bits
of the `rng` argument of `reset`, so one jit serves every schedule and every batch member can
have its own — is run through

  training.wrap(env, L, r)                       (jitted reset / step, explicit actions)
  training.EvalWrapper(training.wrap(env, L, r)) (the same, with eval metrics)
  acting.generate_unroll(...)                    (dummy table policy, extra_fields=('truncation',))
  acting.Evaluator(...).run_evaluation(...)      (random reset keys; the schedule each member got
                                                  is read back from two bookkeeping metrics)

and every field after every step is compared **exactly** (rewards are small dyadics) with the
Lean model `Brax/Model/C15.lean` fed the same schedule: the batched model (`bwrap`, `bunroll`,
`beval`) on the whole batch and the single-member model (`wrap`, `unroll`, `eval`) on every
member.  Independently of the model, a Python spec (episode log computed from the schedule
alone, `py_spec`) is evaluated against the real outputs (-> `spec_failures`) and against the
Lean spec (`log`, `Brax/Spec/C15.lean`).

search : the Python spec against the real wrappers on fresh random schedules.
replay : re-runs one (L, r, schedule bits, actions) case, spec against the real wrappers.
"""
from __future__ import annotations

import itertools
import os
import struct
import sys
import time
import types
from fractions import Fraction

import numpy as np

HERE = os.path.dirname(os.path.abspath(__file__))
sys.path.insert(0, HERE)
import check as C  # noqa: E402

AW = 0.25        # reward contribution of the action
KILL = 3.0       # action value that terminates the inner environment
NF_WRAP = 18     # numbers per (step, member) of wrap(env)
NF_EVAL = 25     # ... of EvalWrapper(wrap(env))
_M = {}
STATS = {'mid_repeat_termination_unseen': 0}


# ----------------------------------------------------------------------------- brax side


def mods():
  """import brax (after check.py put $VERIF_REPO first on sys.path) and build the scripted env"""
  if _M:
    return _M
  import jax
  jax.config.update('jax_enable_x64', True)
  import jax.numpy as jp
  for name in ('brax.v1', 'brax.v1.envs'):
    if name not in sys.modules:
      sys.modules[name] = types.ModuleType(name)
  stub = sys.modules['brax.v1.envs']
  for n in ('State', 'Env', 'Wrapper'):
    if not hasattr(stub, n):
      setattr(stub, n, type(n, (), {}))
  sys.modules['brax.v1'].envs = stub
  from brax.envs import base
  from brax.envs.wrappers import training
  from brax.training import acting

  class Scripted(base.Env):
    """Deterministic environment driven by the bits of the reset key.

    rng = [dbits, rbits] (uint32).  Sub-step with index idx (the counter `t` of the pipeline
    state when bit 31 of dbits is set — restored by AutoResetWrapper, so episodes replay — else
    the counter `g` kept in info, never restored): done iff the `thin` bits of dbits at
    thin*idx are all ones (idx*thin+thin <= 24) or the action is 3; reward =
    (two bits of rbits at 2*(idx%16) - 1)/2 + action/4.  obs = [t, acc, c]; pipeline state
    {t, acc} with acc the running sum of actions from acc0; metrics b0/b1 = the key words
    during the first `first_n` sub-steps (so that EvalWrapper's first-step sum exposes them),
    x = acc.  metrics are updated in place like the bundled environments do."""

    def __init__(self, thin=1, first_n=1):
      self.thin, self.first_n = thin, first_n

    def reset(self, rng):
      d, w = rng[0].astype(jp.uint32), rng[1].astype(jp.uint32)
      f = lambda x: x.astype(jp.float64)
      z = jp.zeros(())
      ps = {'t': z, 'acc': f((w >> 3) & 3)}
      obs = jp.stack([ps['t'], ps['acc'], f(w & 7)])
      return base.State(ps, obs, z, z, {'b0': z, 'b1': z, 'x': z}, {'g': z, 'dbits': d, 'rbits': w})

    def step(self, state, action):
      a = action[0]
      ps, d, w, g = state.pipeline_state, state.info['dbits'], state.info['rbits'], state.info['g']
      k = self.thin
      idx = jp.where((d >> 31) & 1 == 1, ps['t'], g).astype(jp.uint32)
      mask = jp.uint32((1 << k) - 1)
      sh = jp.minimum(idx * k, 31)
      bit = jp.where(idx * k + k <= 24, ((d >> sh) & mask) == mask, False)
      done = jp.where(bit | (a == KILL), 1.0, 0.0)
      rv = (w >> (2 * (idx % 16))) & 3
      reward = (rv.astype(jp.float64) - 1) * 0.5 + AW * a
      t, acc = ps['t'] + 1, ps['acc'] + a
      first = g < self.first_n
      state.metrics.update(b0=jp.where(first, d.astype(jp.float64), 0.),
                           b1=jp.where(first, w.astype(jp.float64), 0.), x=acc)
      state.info.update(g=g + 1)
      return state.replace(pipeline_state={'t': t, 'acc': acc}, obs=jp.stack([t, acc, state.obs[2]]),
                           reward=reward, done=done)

    @property
    def observation_size(self):
      return 3

    @property
    def action_size(self):
      return 1

    @property
    def backend(self):
      return 'none'

  def policy_of(ptab):
    def policy(obs, key):
      i = jp.mod(obs[..., 0] + 2 * obs[..., 1] + obs[..., 2], ptab.shape[0]).astype(jp.int32)
      return ptab[i][..., None], {}
    return policy

  _M.update(jax=jax, jp=jp, base=base, training=training, acting=acting, Scripted=Scripted,
            policy_of=policy_of)
  return _M


def decode(dbits, rbits, thin, n):
  """the schedule a member with key words (dbits, rbits) follows, for n sub-step indices"""
  dbits, rbits = int(dbits), int(rbits)
  mask = (1 << thin) - 1
  dones = [1 if (i * thin + thin <= 24 and ((dbits >> min(i * thin, 31)) & mask) == mask) else 0
           for i in range(n)]
  rewards = [(((rbits >> (2 * (i % 16))) & 3) - 1) * 0.5 for i in range(n)]
  return dict(local=(dbits >> 31) & 1, c=rbits & 7, acc0=(rbits >> 3) & 3, b0=dbits, b1=rbits,
              dones=dones, rewards=rewards)


def _state_rows(st, with_eval):
  """[B, NF] array of every compared field of a wrapped state"""
  info = st.info
  cols = [np.asarray(st.obs), np.asarray(st.reward)[:, None], np.asarray(st.done)[:, None],
          np.asarray(info['steps'])[:, None], np.asarray(info['truncation'])[:, None],
          np.asarray(st.pipeline_state['t'])[:, None], np.asarray(st.pipeline_state['acc'])[:, None],
          np.asarray(info['g'])[:, None],
          np.stack([np.asarray(st.metrics[k]) for k in ('b0', 'b1', 'x')], axis=1),
          np.asarray(info['first_obs']),
          np.asarray(info['first_pipeline_state']['t'])[:, None],
          np.asarray(info['first_pipeline_state']['acc'])[:, None]]
  if with_eval:
    em = info['eval_metrics']
    cols += [np.asarray(st.metrics['reward'])[:, None], np.asarray(em.episode_metrics['reward'])[:, None],
             np.stack([np.asarray(em.episode_metrics[k]) for k in ('b0', 'b1', 'x')], axis=1),
             np.asarray(em.active_episodes)[:, None], np.asarray(em.episode_steps)[:, None]]
  return np.concatenate([np.asarray(c, dtype=np.float64) for c in cols], axis=1)


def run_wrapped(L, r, thin, bits, acts, with_eval):
  """reset + the given [T, B] actions through wrap(env) (or EvalWrapper(wrap(env))), jitted"""
  m = mods()
  jp, jax = m['jp'], m['jax']
  env = m['training'].wrap(m['Scripted'](thin, r), episode_length=L, action_repeat=r)
  if with_eval:
    env = m['training'].EvalWrapper(env)
  reset, step = jax.jit(env.reset), jax.jit(env.step)
  st = reset(jp.asarray(np.asarray(bits, dtype=np.uint32)))
  rows = [_state_rows(st, with_eval)]
  for a in acts:
    st = step(st, jp.asarray(np.asarray(a, dtype=np.float64))[:, None])
    rows.append(_state_rows(st, with_eval))
  return np.stack(rows)


def run_unroll(L, r, thin, bits, ptab, T, seed):
  m = mods()
  jp, jax = m['jp'], m['jax']
  env = m['training'].wrap(m['Scripted'](thin, r), episode_length=L, action_repeat=r)
  st0 = jax.jit(env.reset)(jp.asarray(np.asarray(bits, dtype=np.uint32)))

  def go(st, tab, key):
    return m['acting'].generate_unroll(env, st, m['policy_of'](tab), key, T, extra_fields=('truncation',))

  fin, data = jax.jit(go)(st0, jp.asarray(np.asarray(ptab, dtype=np.float64)), jax.random.PRNGKey(seed))
  B = len(bits)
  tr = np.concatenate([np.asarray(data.observation).reshape(T, B, 3), np.asarray(data.action).reshape(T, B, 1),
                       np.asarray(data.reward).reshape(T, B, 1), np.asarray(data.discount).reshape(T, B, 1),
                       np.asarray(data.next_observation).reshape(T, B, 3),
                       np.asarray(data.extras['state_extras']['truncation']).reshape(T, B, 1)], axis=2)
  tail = np.concatenate([np.asarray(fin.obs), np.asarray(fin.info['steps'])[:, None],
                         np.asarray(fin.done)[:, None], np.asarray(fin.info['truncation'])[:, None]], axis=1)
  return tr.astype(np.float64), tail.astype(np.float64)


def run_evaluator(L, r, thin, B, ptab, seed):
  m = mods()
  jp, jax = m['jp'], m['jax']
  env = m['training'].wrap(m['Scripted'](thin, r), episode_length=L, action_repeat=r)
  ev = m['acting'].Evaluator(env, lambda params: m['policy_of'](params), num_eval_envs=B,
                             episode_length=L, action_repeat=r, key=jax.random.PRNGKey(seed))
  out = ev.run_evaluation(jp.asarray(np.asarray(ptab, dtype=np.float64)), {}, aggregate_episodes=False)
  g = lambda k: np.asarray(out[k], dtype=np.float64).reshape(B)
  return dict(b0=g('eval/episode_b0'), b1=g('eval/episode_b1'), reward=g('eval/episode_reward'),
              x=g('eval/episode_x'), avg_len=float(out['eval/avg_episode_length']),
              same_std=all(np.array_equal(g(f'eval/episode_{k}'), g(f'eval/episode_{k}_std'))
                           for k in ('b0', 'b1', 'reward', 'x')))


# ----------------------------------------------------------------------------- python spec


def py_spec(mem, acts, L, r, eval_steps=None):
  """Episode log of one member computed from its schedule alone.

  Returns per wrapped step (reward, steps, done, truncation, obs, ps), the eval accumulators
  after every step (episode reward, active, episode_steps), and the log (list of episodes, each
  the list of its sub-step rewards)."""
  outs, evals, log, cur = [], [], [], []
  k = 0                      # wrapped steps in the current episode
  t, acc = 0, mem['acc0']    # pipeline state
  g = 0
  em, active, esteps = 0.0, 1, 0
  for a in acts:
    rew, last, subs = 0.0, 0, []
    for _ in range(r):
      idx = t if mem['local'] else g
      rj = mem['rewards'][idx] + AW * a
      last = 1 if (mem['dones'][idx] or a == KILL) else 0
      rew += rj
      subs.append(last)
      cur.append(rj)
      t, acc, g = t + 1, acc + a, g + 1
    k += 1
    cut = k * r >= L
    done = 1 if (cut or last) else 0
    trunc = 1 if (cut and not last) else 0
    steps = k * r
    if done:
      t, acc = 0, mem['acc0']          # next observation and state are those of reset
      log.append(cur); cur = []; k = 0
    outs.append((rew, steps, done, trunc, [t, acc, mem['c']], [t, acc], int(any(subs[:-1]) and not last)))
    if active:
      em += rew; esteps = steps
      if done:
        active = 0
    evals.append((em, active, esteps))
  if cur:
    log.append(cur)
  return outs, evals, log


# ----------------------------------------------------------------------------- case generation


def hexf(v):
  v = float(v)
  if v == int(v) and abs(v) < 2 ** 53:
    return str(int(v))
  return 'x%016x' % struct.unpack('>Q', struct.pack('>d', v))[0]


def member_tokens(mem, n):
  toks = [mem['local'], mem['c'], mem['acc0'], mem['b0'], mem['b1'], AW, KILL] + mem['dones'][:n] + mem['rewards'][:n]
  return [hexf(x) for x in toks]


def rand_actions(rng, T, B, kill_p):
  a = rng.integers(-1, 3, size=(T, B)).astype(np.float64)
  a[rng.random((T, B)) < kill_p] = KILL
  return a


def rand_bits(rng, B, thin, mode):
  """[B, 2] key words; the done word is drawn so that schedules are interesting for `thin`"""
  d = np.zeros(B, dtype=np.uint64)
  for b in range(B):
    style = rng.integers(0, 4)
    if thin > 1 or style == 0:
      word = int(rng.integers(0, 1 << 24))
    elif style == 1:
      word = int(rng.integers(0, 1 << 24)) & int(rng.integers(0, 1 << 24)) & int(rng.integers(0, 1 << 24))
    elif style == 2:
      word = 1 << int(rng.integers(0, 12))
    else:
      word = 0
    loc = mode if mode in (0, 1) else int(rng.integers(0, 2))
    d[b] = word | (loc << 31)
  w = rng.integers(0, 1 << 32, size=B, dtype=np.uint64)
  return np.stack([d, w], axis=1)


def make_cases(ctx):
  rng = np.random.default_rng(ctx.seed)
  cases = []
  if ctx.tier == 'thorough':
    # exhaustive: every termination schedule of length <= 8 (padded with "no termination"), both index
    # modes, every L in 1..6 and r in 1..3, histories of 3 episode lengths, in one mixed batch per (L, r)
    for L in range(1, 7):
      for r in range(1, 4):
        T = 3 * -(-L // r)
        d = np.array([s | (loc << 31) for loc in (0, 1) for s in range(256)], dtype=np.uint64)
        w = rng.integers(0, 1 << 32, size=d.shape[0], dtype=np.uint64)
        cases.append(dict(L=L, r=r, thin=1, bits=np.stack([d, w], axis=1), acts=rand_actions(rng, T, len(d), 0.0),
                          kind='exhaustive'))
        # the same schedules with the kill action mixed in, in a shuffled mixed batch
        perm = rng.permutation(len(d))
        cases.append(dict(L=L, r=r, thin=1, bits=np.stack([d[perm], w[perm]], axis=1),
                          acts=rand_actions(rng, T, len(d), 0.08), kind='exhaustive+kill'))
    n_rand, sizes = 40, [1, 1, 2, 3, 5, 8, 13, 32]
  else:
    n_rand, sizes = 14, [1, 1, 2, 3, 5, 8, 24, 48, 64, 40, 3, 16, 32, 64]
  for i in range(n_rand):
    L = int(rng.integers(1, 7)) if rng.random() < 0.8 else int(rng.integers(7, 13))
    r = int(rng.integers(1, 4)) if rng.random() < 0.85 else int(rng.integers(4, 6))
    B = int(sizes[i % len(sizes)])
    T = int(rng.integers(1, 3 * -(-L // r) + 3))
    thin = 1 if rng.random() < 0.7 else 2
    cases.append(dict(L=L, r=r, thin=thin, bits=rand_bits(rng, B, thin, -1),
                      acts=rand_actions(rng, T, B, 0.05 if rng.random() < 0.5 else 0.0), kind='random'))
  # boundary cases: time limit and termination on the same step, termination inside a repeat, done on
  # consecutive steps, L = 1, r > L
  edge = [(4, 2, 0b1000), (5, 2, 0b100), (3, 1, 0b111), (1, 1, 0), (1, 3, 0b1), (2, 3, 0b100), (6, 3, 0b100100),
          (6, 2, 0b101010), (3, 3, 0b11)]
  for L, r, s in edge:
    d = np.array([s, s | (1 << 31)], dtype=np.uint64)
    w = rng.integers(0, 1 << 32, size=2, dtype=np.uint64)
    T = 3 * -(-L // r) + 1
    cases.append(dict(L=L, r=r, thin=1, bits=np.stack([d, w], axis=1), acts=rand_actions(rng, T, 2, 0.0), kind='edge'))
  for c in cases:
    c['ptab'] = rng.integers(-1, 3, size=int(rng.integers(1, 6))).astype(np.float64)
    if rng.random() < 0.3:
      c['ptab'][int(rng.integers(0, len(c['ptab'])))] = KILL
    c['eval_thin'] = int(rng.integers(1, 4))
    c['eval_B'] = int(min(len(c['bits']), 64))
  return cases


# ----------------------------------------------------------------------------- comparison


def frac_rows(line):
  return [Fraction(t) for t in line.split()]


def cmp_exact(real, lean, what, info, out):
  """real: np array (any shape), lean: flat list of Fractions"""
  flat = np.asarray(real, dtype=np.float64).ravel()
  if len(lean) != flat.size:
    out.append(dict(what=f'{what}: lean returned {len(lean)} numbers, implementation {flat.size}', **info))
    return False
  for i, (x, y) in enumerate(zip(flat, lean)):
    if not np.isfinite(x) or Fraction(float(x)) != y:
      out.append(dict(what=f'{what}: first difference at flat index {i}: implementation {x}, model {float(y)}',
                      index=i, **info))
      return False
  return True


FIELDS = ['obs0', 'obs1', 'obs2', 'reward', 'done', 'steps', 'truncation', 'ps.t', 'ps.acc', 'info.g', 'metrics.b0',
          'metrics.b1', 'metrics.x', 'first_obs0', 'first_obs1', 'first_obs2', 'first_ps.t', 'first_ps.acc',
          'metrics.reward', 'episode_reward', 'episode_b0', 'episode_b1', 'episode_x', 'active_episodes',
          'episode_steps']


def spec_check_member(case, b, real_eval, tr=None):
  """python spec against the real outputs of member b; returns a failure dict or None"""
  L, r, thin = case['L'], case['r'], case['thin']
  acts = case['acts'][:, b]
  T = len(acts)
  mem = decode(case['bits'][b][0], case['bits'][b][1], thin, T * r + 1)
  outs, evals, log = py_spec(mem, list(acts), L, r)
  rp = dict(L=L, r=r, thin=thin, bits=[int(x) for x in case['bits'][b]], acts=[float(x) for x in acts])
  for t in range(T):
    row = real_eval[t + 1, b]
    rew, steps, done, trunc, obs, ps, mid = outs[t]
    STATS['mid_repeat_termination_unseen'] += mid
    em, active, esteps = evals[t]
    exp = {'reward': rew, 'steps': steps, 'done': done, 'truncation': trunc, 'obs0': obs[0], 'obs1': obs[1],
           'obs2': obs[2], 'ps.t': ps[0], 'ps.acc': ps[1], 'episode_reward': em, 'active_episodes': active,
           'episode_steps': esteps}
    for name, v in exp.items():
      got = row[FIELDS.index(name)]
      if got != v:
        clause = {'reward': 'reward of a wrapped step is the sum over its sub-steps',
                  'steps': 'step counter restarts after every episode end',
                  'done': 'episode is cut at the time limit / at a termination',
                  'truncation': 'truncation is set exactly when the cut was by the time limit',
                  'episode_reward': 'evaluation metrics accumulate the first episode only',
                  'active_episodes': 'evaluation metrics accumulate the first episode only',
                  'episode_steps': 'evaluation metrics accumulate the first episode only'}.get(
                      name, 'after an episode ends the next observation and state are the ones from reset')
        return dict(key=f'C15:{name}', what=f'{clause}: wrapped step {t + 1}: {name} = {got}, episode log says {v} '
                    f'(L={L}, r={r}, schedule dones={mem["dones"][:(t + 1) * r]}, actions={[float(x) for x in acts[:t + 1]]})',
                    step=t + 1, field=name, **dict(rp, acts=rp['acts'][:t + 1]))
  return None


def spec_check_unroll(case, tr, tail):
  """transitions chain observation -> next_observation; discount = 1 - done of the episode log"""
  T, B = tr.shape[0], tr.shape[1]
  L, r, thin = case['L'], case['r'], case['thin']
  for b in range(B):
    acts = list(tr[:, b, 3])
    mem = decode(case['bits'][b][0], case['bits'][b][1], thin, T * r + 1)
    outs, _, _ = py_spec(mem, acts, L, r)
    rp = dict(L=L, r=r, thin=thin, bits=[int(x) for x in case['bits'][b]], ptab=[float(x) for x in case['ptab']],
              T=T, case_kind='unroll', member=b)
    for t in range(T):
      rew, steps, done, trunc, obs, _, _ = outs[t]
      if t + 1 < T and not np.array_equal(tr[t + 1, b, 0:3], tr[t, b, 6:9]):
        return dict(key='C15:chain', what=f'transitions do not chain: observation[{t + 1}]={tr[t + 1, b, 0:3].tolist()} '
                    f'next_observation[{t}]={tr[t, b, 6:9].tolist()}', **rp)
      exp = [float(x) for x in [rew, 1 - done] + obs + [trunc]]
      got = [float(x) for x in [tr[t, b, 4], tr[t, b, 5]] + tr[t, b, 6:9].tolist() + [tr[t, b, 9]]]
      if got != exp:
        return dict(key='C15:transition', what=f'transition {t}: (reward, discount, next_observation, truncation) = {got}, '
                    f'episode log says {exp}', **rp)
  return None


def spec_check_evaluator(L, r, thin, B, ptab, seed, ev, emems):
  """first episode only: the Evaluator's episode reward / x against the episode log under the table policy"""
  steps_e = L // r
  tot = 0.0
  for b in range(B):
    mem = emems[b]
    acts_b, obs = [], [0, mem['acc0'], mem['c']]
    evals, xs = [], 0.0
    em_x, active = 0.0, 1
    for _ in range(steps_e):
      acts_b.append(float(ptab[int((obs[0] + 2 * obs[1] + obs[2]) % len(ptab))]))
      outs, evals, _ = py_spec(mem, acts_b, L, r)
      obs = outs[-1][4]
    em, act, est = evals[-1]
    tot += est
    if ev['reward'][b] != em:
      return dict(key='C15:evaluator', what=f'Evaluator: episode reward of member {b} = {ev["reward"][b]}, the first '
                  f'episode of the log sums to {em} (L={L}, r={r}, dones={mem["dones"]}, actions={acts_b})',
                  L=L, r=r, thin=thin, case_kind='evaluator', B=B, ptab=[float(x) for x in ptab], seed=seed)
  if abs(tot / B - ev['avg_len']) > 1e-9:
    return dict(key='C15:evaluator-length', what=f'Evaluator: avg_episode_length = {ev["avg_len"]}, the log says {tot / B}',
                L=L, r=r, thin=thin, case_kind='evaluator', B=B, ptab=[float(x) for x in ptab], seed=seed)
  return None


def confirm_failure(case, f):
  """make the replay reproduce: a failure that needs the other batch members keeps the whole batch"""
  if f.get('case_kind') == 'evaluator':
    return f
  single = dict(case, bits=np.array([f['bits']], dtype=np.uint64))
  if f.get('case_kind') == 'unroll':
    tr, tail = run_unroll(case['L'], case['r'], case['thin'], single['bits'], case['ptab'], int(f['T']), 0)
    alone = spec_check_unroll(single, tr, tail)
  else:
    single['acts'] = np.array(f['acts'], dtype=np.float64)[:, None]
    alone = spec_check_member(single, 0, run_wrapped(case['L'], case['r'], case['thin'], single['bits'], single['acts'], True))
  if alone:
    return f
  return dict(f, what=f['what'] + ' — only inside its batch (alone the member behaves): cross-member dependence',
              batch_bits=[[int(x) for x in row] for row in case['bits']],
              batch_acts=[[float(x) for x in row] for row in case['acts']], member=int(f.get('member', 0)))


def correspond(ctx):
  t0 = time.time()
  STATS['mid_repeat_termination_unseen'] = 0
  cases = make_cases(ctx)
  lines, plan = [], []           # plan: (case index, op, member or None)
  real = []
  disagreements, spec_failures = [], []
  hist = dict(L={}, r={}, B={}, kinds={}, episodes_per_member={}, ended_by={'termination': 0, 'time_limit': 0, 'both': 0},
              mid_repeat_termination_unseen=0, kill_actions=0, local_index_members=0)
  distinct = set()
  n_eval = 0
  for ci, c in enumerate(cases):
    L, r, thin, bits, acts = c['L'], c['r'], c['thin'], c['bits'], c['acts']
    T, B = acts.shape
    N = T * r + 1
    info = dict(case=ci, L=L, r=r, B=B, T=T, thin=thin)
    rw = run_wrapped(L, r, thin, bits, acts, False)
    re = run_wrapped(L, r, thin, bits, acts, True)
    tr, tail = run_unroll(L, r, thin, bits, c['ptab'], T, ctx.seed)
    if not np.array_equal(rw, re[:, :, :NF_WRAP]):
      disagreements.append(dict(what='EvalWrapper(wrap(env)) and wrap(env) differ on the wrapped fields', **info))
    mems = [decode(bits[b][0], bits[b][1], thin, N) for b in range(B)]
    mtoks = [member_tokens(mm, N) for mm in mems]
    head = [L, r, B, T, N, r]
    lines.append(' '.join(['bwrap'] + [str(x) for x in head] + sum(mtoks, []) + [hexf(x) for x in acts.ravel()]))
    plan.append((ci, 'bwrap', None))
    real.append(re)
    ptoks = [str(len(c['ptab']))] + [hexf(x) for x in c['ptab']]
    lines.append(' '.join(['bunroll'] + [str(x) for x in head] + ptoks + sum(mtoks, [])))
    plan.append((ci, 'bunroll', None))
    real.append(np.concatenate([tr.ravel(), tail.ravel()]))
    single = range(B) if (B <= 8 or ctx.tier == 'thorough') else sorted(set(np.random.default_rng(ctx.seed + ci).integers(0, B, 8).tolist()))
    for b in single:
      lines.append(' '.join(['wrap', str(L), str(r), str(T), str(N), str(r)] + mtoks[b] + [hexf(x) for x in acts[:, b]]))
      plan.append((ci, 'wrap', b)); real.append(re[:, b, :])
      lines.append(' '.join(['unroll', str(L), str(r), str(T), str(N), str(r)] + ptoks + mtoks[b]))
      plan.append((ci, 'unroll', b)); real.append(np.concatenate([tr[:, b, :].ravel(), tail[b]]))
    # python spec vs implementation, every member; python spec vs Lean spec for members indexed globally
    for b in range(B):
      f = spec_check_member(c, b, re) if len(spec_failures) < 6 else None
      if f:
        spec_failures.append(confirm_failure(c, dict(f, member=b)))
      if not mems[b]['local'] and (B <= 8 or b % 16 == 0):
        outs, _, log = py_spec(mems[b], list(acts[:, b]), L, r)
        lines.append(' '.join(['log', str(L), str(r), str(T), str(N)] + mtoks[b] + [hexf(x) for x in acts[:, b]]))
        plan.append((ci, 'log', b))
        real.append(np.array(sum([[o[0], o[1], o[2], o[3]] for o in outs], []) + [len(log)] +
                             sum([[len(e)] + e for e in log], []), dtype=np.float64))
    f = spec_check_unroll(c, tr, tail)
    if f:
      spec_failures.append(confirm_failure(c, f))
    # Evaluator: random reset keys; read the schedule of each member back from b0/b1
    Be, te = c['eval_B'], c['eval_thin']
    ev = run_evaluator(L, r, te, Be, c['ptab'], ctx.seed + ci)
    n_eval += 1
    steps_e = L // r
    okbits = all(float(x).is_integer() and 0 <= x < 2 ** 32 for x in np.concatenate([ev['b0'], ev['b1']]))
    if not ev['same_std']:
      disagreements.append(dict(what='run_evaluation(aggregate_episodes=False): value and _std entries differ', **info))
    if steps_e == 0:
      ebits = np.zeros((Be, 2), dtype=np.uint64)
    elif not okbits:
      disagreements.append(dict(what='Evaluator: bookkeeping metrics b0/b1 are not the key words of the first step '
                                f'(b0={ev["b0"][:3].tolist()}…)', **info))
      ebits = None
    else:
      ebits = np.stack([ev['b0'], ev['b1']], axis=1).astype(np.uint64)
    if ebits is not None:
      Ne = steps_e * r + 1
      emems = [decode(ebits[b][0], ebits[b][1], te, Ne) for b in range(Be)]
      etoks = [member_tokens(mm, Ne) for mm in emems]
      lines.append(' '.join(['beval', str(L), str(r), str(Be), str(Ne), str(r)] + ptoks + sum(etoks, [])))
      plan.append((ci, 'beval', None))
      real.append(('eval', ev, ebits, steps_e))
      for b in range(min(Be, 4)):
        lines.append(' '.join(['eval', str(L), str(r), str(Ne), str(r)] + ptoks + etoks[b]))
        plan.append((ci, 'eval', b))
        real.append(('eval1', ev, ebits, steps_e))
      f = spec_check_evaluator(L, r, te, Be, c['ptab'], ctx.seed + ci, ev, emems) if steps_e else None
      if f:
        spec_failures.append(f)
    # statistics
    hist['L'][L] = hist['L'].get(L, 0) + 1
    hist['r'][r] = hist['r'].get(r, 0) + 1
    hist['B'][B] = hist['B'].get(B, 0) + 1
    hist['kinds'][c['kind']] = hist['kinds'].get(c['kind'], 0) + 1
    hist['kill_actions'] += int((acts == KILL).sum())
    for b in range(B):
      hist['local_index_members'] += mems[b]['local']
      dn, trc = re[1:, b, 4], re[1:, b, 6]
      ne = int(dn.sum())
      hist['episodes_per_member'][ne] = hist['episodes_per_member'].get(ne, 0) + 1
      for t in range(T):
        if dn[t]:
          k = 'time_limit' if trc[t] else ('both' if re[t + 1, b, 5] >= L else 'termination')
          hist['ended_by'][k] += 1
      if ne:
        distinct.add((L, r, thin, int(bits[b][0]), int(bits[b][1]), tuple(acts[:, b].tolist())))
    if time.time() - t0 > ctx.budget(150, 900):
      ctx.notes.append(f'time budget reached after {ci + 1} of {len(cases)} cases')
      break
  hist['mid_repeat_termination_unseen'] = STATS['mid_repeat_termination_unseen']
  out = C.run_driver('Driver/C15.lean', lines)
  if len(out) != len(lines):
    raise RuntimeError(f'driver returned {len(out)} lines for {len(lines)} cases')
  n_cmp = 0
  for li, (o, (ci, op, b), rl) in enumerate(zip(out, plan, real)):
    c = cases[ci]
    info = dict(case=ci, op=op, member=b, L=c['L'], r=c['r'], thin=c['thin'], B=len(c['bits']),
                bits=[[int(x) for x in row] for row in c['bits'][:4]])
    if o.startswith('bad'):
      raise RuntimeError(f'driver rejected a case: {o}: {lines[li][:300]}')
    lean = frac_rows(o)
    n_cmp += 1
    if op in ('beval', 'eval'):
      _, ev, ebits, steps_e = rl
      Be = len(ebits) if op == 'beval' else 1
      sel = range(len(ebits)) if op == 'beval' else [b]
      arr = np.array([[ev['reward'][i], ev['b0'][i], ev['b1'][i], ev['x'][i]] for i in sel])
      got = np.array(lean, dtype=object).reshape(Be, 6) if len(lean) == Be * 6 else None
      if got is None:
        disagreements.append(dict(what=f'{op}: lean returned {len(lean)} numbers', **info)); continue
      for j, i in enumerate(sel):
        if [Fraction(float(x)) for x in arr[j]] != list(got[j][:4]):
          disagreements.append(dict(what=f'Evaluator episode metrics of member {i}: implementation '
                                    f'{arr[j].tolist()}, model {[float(x) for x in got[j][:4]]}', eval_thin=c['eval_thin'],
                                    **info))
          break
      if op == 'beval':
        avg = float(np.mean([float(x) for x in got[:, 5]])) if Be else 0.0
        if abs(avg - ev['avg_len']) > 1e-9:
          disagreements.append(dict(what=f'Evaluator avg_episode_length: implementation {ev["avg_len"]}, model {avg}', **info))
      continue
    what = {'bwrap': 'batched wrap/EvalWrapper state after every step', 'wrap': 'single-member wrap/EvalWrapper state',
            'bunroll': 'batched generate_unroll transitions', 'unroll': 'single-member generate_unroll transitions',
            'log': 'python episode log vs Lean episode log (spec vs spec)'}[op]
    if op == 'bwrap':
      # lean prints step-major, member-major, as the implementation array [T+1, B, 25]
      ok = cmp_exact(rl, lean, what, info, disagreements)
      if not ok:
        d = disagreements[-1]
        if 'index' in d:
          t, rem = divmod(d['index'], rl.shape[1] * NF_EVAL)
          bb, fidx = divmod(rem, NF_EVAL)
          d['what'] += f' (step {t}, member {bb}, field {FIELDS[fidx]})'
    else:
      ok = cmp_exact(rl, lean, what, info, disagreements)
      if not ok and op == 'wrap' and 'index' in disagreements[-1]:
        t, fidx = divmod(disagreements[-1]['index'], NF_EVAL)
        disagreements[-1]['what'] += f' (step {t}, field {FIELDS[fidx]})'
  # keep the evidence small
  disagreements, spec_failures = disagreements[:10], spec_failures[:10]
  members_total = sum(hist['episodes_per_member'].values())
  samples = []
  for c in cases[:3]:
    samples.append(dict(L=c['L'], r=c['r'], thin=c['thin'], key_words=[int(x) for x in c['bits'][0]],
                        dones=decode(c['bits'][0][0], c['bits'][0][1], c['thin'], 8)['dones'],
                        actions=c['acts'][:, 0].tolist()))
  return dict(
      evaluations=n_cmp + n_eval,
      distinct_nontrivial=len(distinct),
      rule='distinct (L, r, member key words, member action column) whose history contains at least one episode end; '
           'evaluations = Lean driver comparisons (batched and per member, wrap/EvalWrapper after every step, unroll, '
           'Evaluator, spec-vs-spec) + Evaluator runs',
      samples=samples, disagreements=disagreements, spec_failures=spec_failures,
      trusted_base=['correspondence harness harness/corr_C15.py (scripted environment, bit decoding, exact comparison) '
                    'and lean/Driver/C15.lean; agreement is established on the generated schedules only',
                    'jax.jit / jax.vmap / lax.scan are modelled as the identity / List.map / a fold',
                    'the PRNG only feeds a policy that ignores it; Evaluator reset keys are read back from metrics'],
      assumptions=['the inner environment neither reads nor writes the wrapper-owned info keys (steps, truncation, '
                   'first_pipeline_state, first_obs, eval_metrics)',
                   'theorems are over exact ordered rings: float round-off of reward sums is not modelled (the '
                   'correspondence uses dyadic rewards, exact in float64)',
                   'eval_first_episode_only assumes 0/1 done flags; episode_replays_fresh assumes the inner '
                   'environment is a function of (pipeline_state, obs, action); batched_wrappers_eq_map assumes a '
                   'fixed observation size',
                   'EpisodeWrapper cuts after ceil(L/r)*r simulated steps, which is L only when r divides L; only the '
                   'last sub-step done of an action repeat is seen (both stated in the theorems, DESIGN.md section 6)'],
      explanation='Tie B: the hand-written Lean model is executed on the same schedules as the real wrappers and every '
                  'field is compared exactly after every step; the theorems of Props/C15.lean quantify over all inner '
                  'environments, L >= 1, r >= 1 and histories.',
      extra=dict(cases=len(cases), members=members_total, histogram=hist, driver_lines=len(lines),
                 wall_correspond_s=round(time.time() - t0, 1)))


# ----------------------------------------------------------------------------- search / replay


def _spec_vs_real(case):
  """python spec against the real wrappers for one batch case; list of failures"""
  fails = []
  re = run_wrapped(case['L'], case['r'], case['thin'], case['bits'], case['acts'], True)
  for b in range(len(case['bits'])):
    f = spec_check_member(case, b, re)
    if f:
      fails.append(dict(f, member=b))
  if 'ptab' in case:
    tr, tail = run_unroll(case['L'], case['r'], case['thin'], case['bits'], case['ptab'], case['acts'].shape[0], 0)
    f = spec_check_unroll(case, tr, tail)
    if f:
      fails.append(f)
  return fails


def search(ctx, broken, corr):
  rng = np.random.default_rng(ctx.seed + 1000)
  t0, found = time.time(), []
  budget = ctx.budget(50, 500)
  while time.time() - t0 < budget and not found:
    L, r = int(rng.integers(1, 7)), int(rng.integers(1, 4))
    B = 64
    T = 3 * -(-L // r)
    case = dict(L=L, r=r, thin=1, bits=rand_bits(rng, B, 1, -1), acts=rand_actions(rng, T, B, 0.03),
                ptab=rng.integers(-1, 3, size=4).astype(np.float64))
    found = [dict(f, _case=case) for f in _spec_vs_real(case)]
  # smallest failing member first: fewest steps
  found.sort(key=lambda f: (f.get('step', 99), len(f.get('acts', []))))
  out, seen = [], set()
  for f in found:
    if f['key'] in seen:
      continue
    seen.add(f['key'])
    out.append(confirm_failure(f.pop('_case'), f))
  return out[:3]


def replay(ctx, rp):
  if rp.get('kind') != 'failing-input':
    return True, f'replay names broken obligations only: {rp.get("broken")}'
  L, r, thin = int(rp['L']), int(rp['r']), int(rp['thin'])
  if rp.get('case_kind') == 'evaluator':
    B, ptab, seed = int(rp['B']), np.array(rp['ptab'], dtype=np.float64), int(rp['seed'])
    ev = run_evaluator(L, r, thin, B, ptab, seed)
    ok = all(float(x).is_integer() and 0 <= x < 2 ** 32 for x in np.concatenate([ev['b0'], ev['b1']]))
    if not ok:
      return False, 'Evaluator: bookkeeping metrics are not the key words of the first step'
    emems = [decode(ev['b0'][b], ev['b1'][b], thin, (L // r) * r + 1) for b in range(B)]
    f = spec_check_evaluator(L, r, thin, B, ptab, seed, ev, emems) if L // r else None
  elif rp.get('case_kind') == 'unroll':
    bits = np.array(rp.get('batch_bits', [rp['bits']]), dtype=np.uint64)
    case = dict(L=L, r=r, thin=thin, bits=bits, ptab=np.array(rp['ptab'], dtype=np.float64))
    tr, tail = run_unroll(L, r, thin, case['bits'], case['ptab'], int(rp['T']), 0)
    f = spec_check_unroll(case, tr, tail)
  elif 'batch_bits' in rp:
    case = dict(L=L, r=r, thin=thin, bits=np.array(rp['batch_bits'], dtype=np.uint64),
                acts=np.array(rp['batch_acts'], dtype=np.float64))
    re = run_wrapped(L, r, thin, case['bits'], case['acts'], True)
    f = spec_check_member(case, int(rp['member']), re)
  else:
    case = dict(L=L, r=r, thin=thin, bits=np.array([rp['bits']], dtype=np.uint64),
                acts=np.array(rp['acts'], dtype=np.float64)[:, None])
    re = run_wrapped(L, r, thin, case['bits'], case['acts'], True)
    f = spec_check_member(case, 0, re)
  if f:
    return False, f['what']
  return True, f'L={L} r={r}: the wrappers agree with the episode log on this input'
