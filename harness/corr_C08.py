"""C08 — joint coordinates and world coordinates round-trip.

Legs (DESIGN.md 2.2, "C08"):

 (a) model <-> implementation, float 1e-9, never on cases within 1e-6 of a branch/singular point
     (counted as `skipped_near_branch`; the distance is computed by the Lean driver from the
     model's own intermediate quantities):
       a1  `kinematics.world_to_joint(sys, x, xd)`      vs  `Kin.worldToJoint`   (x, xd = forward(q, qd))
       a2  `kinematics.inverse(sys, j, jd)`             vs  `Inv.inverse`        (j, jd = world_to_joint(...))
       a3  `kinematics.inverse(sys, j, jd)`             vs  `Inv.inverse`        (random j, jd: all branches,
           also on 'mixed' stacks / non-orthogonal axes that lie outside the property's quantifier)
       a4  `world_to_joint` on random (not forward generated) x, xd
 (b) the property's own observation (Spec evaluation on the implementation):
       `inverse(world_to_joint(forward(q, qd)))` vs `(q, qd)` — positions of every link of the
       quantifier's models, velocities of free links and of links attached by a single hinge.
       Velocity round trip of slides and stacks is *measured and reported* (extra.velocity_roundtrip),
       never judged.
 (c) after one `spring.pipeline.step` / `positional.pipeline.step`: the reported `q, qd` vs
       `Inv.stepTail` (Lean) on the reported `x, xd` (model <-> implementation) and vs the real
       `inverse(world_to_joint(x, xd))` recomputed outside `step` (Spec).

Known findings K1/K2 (DESIGN.md section 6) lie outside the quantifier; `reproduce_known` re-runs them.
"""
from __future__ import annotations

import os
import sys
import time

import numpy as np

HERE = os.path.dirname(os.path.abspath(__file__))
sys.path.insert(0, HERE)
import check as C  # noqa: E402
import modelgen  # noqa: E402
import wire  # noqa: E402

TOL = 1e-9          # model <-> implementation
SPEC_TOL = 1e-7     # round trip on the implementation: float64 round-off of the Euler extraction; arccos near 1 (a middle hinge
                    # angle at or near 0) is only accurate to sqrt(2 eps) = 2.1e-8 (measured 1.5e-8 at q = 0)
TOL_Q = 1e-7        # model <-> implementation on the extracted q (same conditioning on both sides)
NEAR = 1e-6         # distance from a branch point below which a case is not compared
Q_RANGE = 1.2


def _setup():
  import jax
  jax.config.update('jax_enable_x64', True)


# ----------------------------------------------------------------------------- helpers


def link_kinds(sysm):
  """per link: 'f' or one letter per dof: h (hinge), s (slide)"""
  ang = np.asarray(sysm.dof.motion.ang)
  out, d = [], 0
  for t in sysm.link_types:
    if t == 'f':
      out.append('f'); d += 6; continue
    k = ''
    for _ in range(int(t)):
      k += 'h' if ang[d].any() else 's'
      d += 1
    out.append(k)
  return out


def slices(sysm):
  qs, ds, qi, di = [], [], 0, 0
  for t in sysm.link_types:
    nq, nd = (7, 6) if t == 'f' else (int(t), int(t))
    qs.append((qi, qi + nq)); ds.append((di, di + nd))
    qi += nq; di += nd
  return qs, ds


def in_quantifier(kind):
  """stacks of one joint kind, or slide joints followed by one hinge"""
  return kind == 'f' or set(kind) == {'h'} or set(kind) == {'s'} or (kind.endswith('h') and set(kind[:-1]) == {'s'})


def tf_tokens(pos, rot):
  pos, rot = np.asarray(pos, dtype=np.float64), np.asarray(rot, dtype=np.float64)
  t = [str(len(pos))]
  for i in range(len(pos)):
    t += wire.toks(pos[i]) + wire.toks(rot[i])
  return t


def motion_tokens(ang, vel):
  ang, vel = np.asarray(ang, dtype=np.float64), np.asarray(vel, dtype=np.float64)
  t = [str(len(ang))]
  for i in range(len(ang)):
    t += wire.toks(ang[i]) + wire.toks(vel[i])
  return t


def close(a, b, tol=TOL):
  a, b = np.asarray(a, dtype=np.float64), np.asarray(b, dtype=np.float64)
  return a.shape == b.shape and bool(np.all(np.abs(a - b) <= tol * (1 + np.abs(b))))


def quat_close(a, b, tol=TOL):
  return close(a, b, tol) or close(a, -np.asarray(b), tol)


def q_close(sysm, q1, q2, tol):
  """joint positions, free-link quaternions up to sign; returns list of bad link indices"""
  bad = []
  qs, _ = slices(sysm)
  for i, (t, (a, b)) in enumerate(zip(sysm.link_types, qs)):
    if t == 'f':
      ok = close(q1[a:a + 3], q2[a:a + 3], tol) and quat_close(q1[a + 3:b], q2[a + 3:b], tol)
    else:
      x1, x2 = np.asarray(q1[a:b], dtype=np.float64), np.asarray(q2[a:b], dtype=np.float64)
      # an angle extracted as atan2(+-0, negative) is +pi on one side and -pi on the other (sign of a floating zero): the
      # same angle; coordinates that differ by 2 pi (to 1e-6) are compared modulo 2 pi
      if x1.shape == x2.shape:
        wrap = np.abs(np.abs(x1 - x2) - 2 * np.pi) < 1e-6
        x1 = np.where(wrap, x1 - np.sign(x1 - x2) * 2 * np.pi, x1)
      ok = close(x1, x2, tol)
    if not ok:
      bad.append(i)
  return bad


def parse_ok(line, nq, nv):
  """`ok <branches> <margin> q.. qd..` -> (branches, margin, q, qd) or None"""
  t = line.split()
  if not t or t[0] != 'ok' or len(t) != 3 + nq + nv:
    return None
  vals = np.array([wire.parse(x) for x in t[3:]])
  return t[1], wire.parse(t[2]), vals[:nq], vals[nq:]


class Model:
  """one generated model with its jitted real functions"""

  def __init__(self, xml, meta=None, motion=None):
    import jax
    import jax.numpy as jp
    from brax import kinematics
    from brax.base import Motion
    from brax.io import mjcf
    self.xml, self.meta = xml, meta
    s = mjcf.loads(xml)
    if motion is not None:
      # synthetic dof.motion (zero / doubled / non-unit axes): model<->implementation legs only
      s = s.replace(dof=s.dof.replace(motion=Motion(ang=jp.asarray(motion[0]), vel=jp.asarray(motion[1]))))
    self.sys = s
    self.kinds = link_kinds(s)
    self.st = wire.sys_tokens(s)
    self.nq, self.nv, self.n = s.q_size(), s.qd_size(), len(s.link_types)
    self._jit = {}

  # the three real functions, jitted lazily (one compile each, only when used on their own)
  def _get(self, name):
    import jax
    from brax import kinematics
    s = self.sys
    if name not in self._jit:
      f = {'fwd': lambda q, qd: kinematics.forward(s, q, qd),
           'w2j': lambda x, xd: kinematics.world_to_joint(s, x, xd),
           'inv': lambda j, jd: kinematics.inverse(s, j, jd)}[name]
      self._jit[name] = jax.jit(f)
    return self._jit[name]

  def fwd(self, q, qd):
    return self._get('fwd')(q, qd)

  def w2j(self, x, xd):
    return self._get('w2j')(x, xd)

  def inv(self, j, jd):
    return self._get('inv')(j, jd)

  def release(self):
    """drop the compiled programs (hundreds of models are visited in `thorough`)"""
    self._jit.clear()

  def roundtrip(self, q, qd):
    import jax.numpy as jp
    x, xd = self.fwd(jp.asarray(q), jp.asarray(qd))
    j, jd, a_p, a_c = self.w2j(x, xd)
    q2, qd2 = self.inv(j, jd)
    return x, xd, j, jd, a_p, a_c, np.asarray(q2), np.asarray(qd2)


def spec_roundtrip(m, q, qd, q2, qd2):
  """the property on one state: list of failures + velocity measurement rows"""
  s = m.sys
  qs, ds = slices(s)
  fails, meas = [], []
  bad_q = set(q_close(s, q2, q, SPEC_TOL))
  for i, kind in enumerate(m.kinds):
    root = s.link_parents[i] == -1
    a, b = ds[i]
    verr = float(np.max(np.abs(qd2[a:b] - qd[a:b]))) if b > a else 0.0
    meas.append((kind, bool(root), verr))
    if not in_quantifier(kind):
      continue
    if i in bad_q:
      qa, qb = qs[i]
      fails.append(dict(key=f'pos:{kind}', what=f'joint position of link {i} (stack {kind}) does not round-trip: '
                        f'q={q[qa:qb].tolist()} inverse(world_to_joint(forward(q)))={q2[qa:qb].tolist()}',
                        xml=m.xml, q=np.asarray(q).tolist(), qd=np.asarray(qd).tolist(), link=i, check='roundtrip'))
    elif kind in ('f', 'h') and not close(qd2[a:b], qd[a:b], SPEC_TOL):
      fails.append(dict(key=f'vel:{kind}', what=f'joint velocity of link {i} ({"free" if kind == "f" else "single hinge"}) does not '
                        f'round-trip: qd={qd[a:b].tolist()} got {qd2[a:b].tolist()}',
                        xml=m.xml, q=np.asarray(q).tolist(), qd=np.asarray(qd).tolist(), link=i, check='roundtrip'))
  return fails, meas


def synthetic_motion(rng, sysm):
  """random dof.motion pattern for the non-free links: every dof independently rotational, prismatic,
  both or neither, with random (non-unit, non-orthogonal) or axis-aligned axes"""
  ang = np.array(sysm.dof.motion.ang, dtype=np.float64)
  vel = np.array(sysm.dof.motion.vel, dtype=np.float64)
  d = 0
  def axis():
    if rng.random() < 0.3:
      e = np.zeros(3); e[int(rng.integers(3))] = float(rng.choice([-1.0, 1.0])); return e
    return rng.uniform(-1, 1, size=3)
  for t in sysm.link_types:
    if t == 'f':
      d += 6; continue
    for _ in range(int(t)):
      k = rng.choice(['r', 'p', 'b', 'z'], p=[0.4, 0.4, 0.1, 0.1])
      ang[d] = axis() if k in 'rb' else 0.0
      vel[d] = axis() if k in 'pb' else 0.0
      d += 1
  return ang, vel


def rand_tf(rng, n):
  pos = rng.uniform(-1, 1, size=(n, 3))
  rot = np.stack([modelgen.rand_unit_quat(rng) for _ in range(n)]) if n else np.zeros((0, 4))
  return pos, rot


def gen_opts(mi, in_q):
  """generator options of model number mi.  in_q: inside the property's quantifier"""
  if in_q:
    o = dict(orthogonal=True, kinds=('one_kind', 'slides_then_hinge')[mi % 2], collide=False, ground=False)
    if mi % 5 == 4:
      o.update(stack=(1, 1))          # single joints: the velocity clause
  else:
    # outside the quantifier: only the model<->implementation legs (all branches of link_to_joint_frame)
    o = dict(orthogonal=bool(mi % 2), kinds='mixed', collide=False, ground=False, stack=(2, 3))
  return o


# ----------------------------------------------------------------------------- legs a, b


def run_cases(ctx, n_models, n_states, seed_offset=0, spec_only=False):
  _setup()
  import jax
  import jax.numpy as jp
  from brax.base import Motion, Transform
  rng = np.random.default_rng(ctx.seed + seed_offset)
  lines, plan = [], []            # plan: (kind of line, model, payload)
  spec_failures = []
  stack_hist, vel_meas = {}, {}
  n_extra = max(2, n_models // 10) if not spec_only else 0
  models = []
  for mi in range(n_models + n_extra):
    in_q = mi < n_models
    xml, meta = modelgen.gen_model(rng, **gen_opts(mi, in_q))
    m = Model(xml, meta)
    m.in_q = in_q
    models.append(m)
    for k in m.kinds:
      stack_hist[k] = stack_hist.get(k, 0) + 1
    for si in range(n_states):
      q, qd = modelgen.rand_state(rng, m.sys, q_range=Q_RANGE)
      if si == n_states - 1:
        # boundary root orientations: exact half turns (w = 0), w < 0, and axis-aligned quaternions are unit too
        special = [[0., 1., 0., 0.], [0., 0., 1., 0.], [0., 0.6, 0., 0.8], [-0.5, 0.5, 0.5, -0.5], [1., 0., 0., 0.],
                   [0., 0., 0., 1.]]
        pos = 0
        for t in m.sys.link_types:
          if t == 'f':
            q[pos + 3:pos + 7] = special[int(rng.integers(len(special)))]
            pos += 7
          else:
            pos += int(t)
      if si == 0 or rng.random() < 0.25:
        # small and zero joint coordinates (the neighbourhood of the identity is where guards and clips act): every
        # non-free coordinate is replaced with probability 1/2 by 0 or a tiny angle/displacement
        tiny = [0.0, 1e-6, -1e-6, 3e-5, -3e-5, 2e-4, -2e-4, 1e-3, -1e-3]
        pos = 0
        for t in m.sys.link_types:
          if t == 'f':
            pos += 7
          else:
            for c in range(int(t)):
              if rng.random() < 0.5:
                q[pos + c] = tiny[int(rng.integers(len(tiny)))]
            pos += int(t)
      # random joint-frame / world inputs (not generated by forward)
      jp_, jr_ = rand_tf(rng, m.n)
      ja, jv = rng.uniform(-1, 1, size=(m.n, 3)), rng.uniform(-1, 1, size=(m.n, 3))
      xp_, xr_ = rand_tf(rng, m.n)
      xa, xv = rng.uniform(-1, 1, size=(m.n, 3)), rng.uniform(-1, 1, size=(m.n, 3))
      x, xd, j, jd, a_p, a_c, q2, qd2 = m.roundtrip(q, qd)
      pack = lambda w: np.concatenate([np.asarray(v) for v in (w[0].pos, w[0].rot, w[1].ang, w[1].vel, w[2].pos, w[2].rot,
                                                               w[3].pos, w[3].rot)], axis=1)
      e = dict(w_fwd=pack((j, jd, a_p, a_c)))
      if not spec_only:
        rq, rqd = m.inv(Transform(pos=jp.asarray(jp_), rot=jp.asarray(jr_)), Motion(ang=jp.asarray(ja), vel=jp.asarray(jv)))
        e.update(q_rand=np.asarray(rq), qd_rand=np.asarray(rqd))
        e['w_rand'] = pack(m.w2j(Transform(pos=jp.asarray(xp_), rot=jp.asarray(xr_)),
                                 Motion(ang=jp.asarray(xa), vel=jp.asarray(xv))))
      if in_q:
        fails, meas = spec_roundtrip(m, q, qd, q2, qd2)
        spec_failures += fails
        for kind, root, verr in meas:
          r = vel_meas.setdefault(f'{kind}:{"root" if root else "child"}', [0, 0, 0.0])
          r[0] += 1; r[1] += int(verr <= SPEC_TOL); r[2] = max(r[2], verr)
      if spec_only:
        continue
      xt = tf_tokens(x.pos, x.rot) + motion_tokens(xd.ang, xd.vel)
      jt = tf_tokens(j.pos, j.rot) + motion_tokens(jd.ang, jd.vel)
      lines.append(' '.join(['w2j'] + m.st + xt)); plan.append(('w2j', m, dict(real=e['w_fwd'], q=q, qd=qd)))
      lines.append(' '.join(['inv'] + m.st + jt)); plan.append(('inv', m, dict(q=q2, qd=qd2, src='forward', q0=q, qd0=qd)))
      lines.append(' '.join(['rt'] + m.st + wire.vec_tokens(q) + wire.vec_tokens(qd)))
      plan.append(('rt', m, dict(q=q2, qd=qd2, q0=q, qd0=qd)))
      lines.append(' '.join(['inv'] + m.st + tf_tokens(jp_, jr_) + motion_tokens(ja, jv)))
      plan.append(('inv', m, dict(q=e['q_rand'], qd=e['qd_rand'], src='random')))
      lines.append(' '.join(['w2j'] + m.st + tf_tokens(xp_, xr_) + motion_tokens(xa, xv)))
      plan.append(('w2j', m, dict(real=e['w_rand'], src='random')))
    m.release()
    if mi % 25 == 24:
      jax.clear_caches()
  # synthetic dof.motion on the extra models: every branch of link_to_joint_frame (zero axes -> eye,
  # rp / pr / rpp / prp / ppr completion, is_both) on random joint-frame inputs
  if not spec_only:
    for m0 in models[n_models:]:
      if all(t == 'f' for t in m0.sys.link_types):
        continue
      for _variant in range(2):
        m = Model(m0.xml, m0.meta, motion=synthetic_motion(rng, m0.sys))
        m.in_q = False
        for si in range(n_states):
          jp_, jr_ = rand_tf(rng, m.n)
          ja, jv = rng.uniform(-1, 1, size=(m.n, 3)), rng.uniform(-1, 1, size=(m.n, 3))
          rq, rqd = m.inv(Transform(pos=jp.asarray(jp_), rot=jp.asarray(jr_)),
                          Motion(ang=jp.asarray(ja), vel=jp.asarray(jv)))
          lines.append(' '.join(['inv'] + m.st + tf_tokens(jp_, jr_) + motion_tokens(ja, jv)))
          plan.append(('inv', m, dict(q=np.asarray(rq), qd=np.asarray(rqd), src='random+synthetic-motion')))
        m.release()
  res = dict(models=models, spec_failures=spec_failures, stack_hist=stack_hist, vel_meas=vel_meas,
             disagreements=[], evaluations=0, skipped=0, skipped_src={}, branch_hist={}, model_rt_max=0.0, cases=len(plan))
  if spec_only:
    return res
  out = C.run_driver('Driver/C08.lean', lines)
  if len(out) != len(lines):
    raise RuntimeError(f'driver answered {len(out)} lines for {len(lines)} inputs')
  for (op, m, pl), o in zip(plan, out):
    if o.startswith('bad'):
      raise RuntimeError(f'driver rejected a generated input ({op}): {o}')
    res['evaluations'] += 1
    if op == 'w2j':
      mod = np.array([wire.parse(t) for t in o.split()]).reshape(m.n, 27) if m.n else np.zeros((0, 27))
      real = pl['real']
      for i in range(m.n):
        okp = close(mod[i, :3], real[i, :3]) and quat_close(mod[i, 3:7], real[i, 3:7]) and close(mod[i, 7:13], real[i, 7:13]) \
            and close(mod[i, 13:16], real[i, 13:16]) and quat_close(mod[i, 16:20], real[i, 16:20]) \
            and close(mod[i, 20:23], real[i, 20:23]) and quat_close(mod[i, 23:27], real[i, 23:27])
        if not okp:
          res['disagreements'].append(dict(what=f'Kin.worldToJoint (Lean) differs from kinematics.world_to_joint at link {i} '
                                           f'of {m.sys.link_types}', xml=m.xml, lean=mod[i].tolist(), real=real[i].tolist()))
          break
      continue
    p = parse_ok(o, m.nq, m.nv)
    if p is None:
      res['disagreements'].append(dict(what=f'Inv.inverse (Lean) gave "{o[:40]}" where kinematics.inverse returned a value '
                                       f'({m.sys.link_types})', xml=m.xml))
      continue
    br, margin, q_l, qd_l = p
    for tag in br.split(','):
      res['branch_hist'][tag] = res['branch_hist'].get(tag, 0) + 1
    if margin < NEAR:
      res['skipped'] += 1
      src = ('quantifier:' if m.in_q else 'outside-quantifier:') + (op if op == 'rt' else pl.get('src', op))
      res['skipped_src'][src] = res['skipped_src'].get(src, 0) + 1
      continue
    bad = q_close(m.sys, q_l, pl['q'], TOL_Q)
    if bad or not close(qd_l, pl['qd']):
      name = {'inv': 'Inv.inverse', 'rt': 'Inv.inverse∘Kin.worldToJoint∘Kin.forward'}[op]
      res['disagreements'].append(dict(
          what=f'{name} (Lean) differs from the implementation ({pl.get("src", "roundtrip")} input, links {bad}, stacks {m.kinds})',
          xml=m.xml, lean_q=q_l.tolist(), real_q=np.asarray(pl['q']).tolist(), lean_qd=qd_l.tolist(),
          real_qd=np.asarray(pl['qd']).tolist(), margin=margin))
    if op == 'rt' and m.in_q:
      # the model's own round trip (what the theorems speak about), for the evidence
      qs, _ = slices(m.sys)
      for i, (a, b) in enumerate(qs):
        if m.sys.link_types[i] != 'f':
          res['model_rt_max'] = max(res['model_rt_max'], float(np.max(np.abs(q_l[a:b] - pl['q0'][a:b]))))
  return res


# ----------------------------------------------------------------------------- leg c: pipelines


PIPE_OPTS = dict(n_links=(1, 3), collide=False, ground=False, actuators=(0, 2), limits=0.5)


def step_once(m, pipe_name, q, qd, act):
  """one real step; returns (x, xd, q', qd') as numpy plus recomputed inverse∘world_to_joint"""
  import importlib
  import jax
  import jax.numpy as jp
  from brax import kinematics
  pipe = importlib.import_module(f'brax.{pipe_name}.pipeline')
  s = m.sys
  key = f'_step_{pipe_name}'
  if not hasattr(m, key):
    def f(q, qd, act):
      st = pipe.init(s, q, qd)
      st = pipe.step(s, st, act)
      return st.x, st.xd, st.q, st.qd
    setattr(m, key, jax.jit(f))
  x, xd, q1, qd1 = getattr(m, key)(jp.asarray(q), jp.asarray(qd), jp.asarray(act))
  j, jd, _, _ = m.w2j(x, xd)
  q2, qd2 = m.inv(j, jd)
  return x, xd, np.asarray(q1), np.asarray(qd1), np.asarray(q2), np.asarray(qd2)


def run_pipelines(ctx, n_models, seed_offset=0, spec_only=False):
  _setup()
  import jax
  rng = np.random.default_rng(ctx.seed + 500 + seed_offset)
  lines, plan, spec_failures, dis = [], [], [], []
  hist = {}
  for mi in range(n_models):
    o = dict(gen_opts(mi, True)); o.update(PIPE_OPTS)
    xml, meta = modelgen.gen_model(rng, **o)
    m = Model(xml, meta)
    q, qd = modelgen.rand_state(rng, m.sys, q_range=Q_RANGE)
    act = rng.uniform(-1, 1, size=m.sys.act_size())
    for pipe_name in ('spring', 'positional'):
      x, xd, q1, qd1, q2, qd2 = step_once(m, pipe_name, q, qd, act)
      if not (np.all(np.isfinite(q1)) and np.all(np.isfinite(qd1))):
        raise RuntimeError(f'{pipe_name} step produced non-finite q/qd on a generated model')
      hist[pipe_name] = hist.get(pipe_name, 0) + 1
      # Spec: the reported q, qd are the inverse image of the reported x, xd
      bad = q_close(m.sys, q1, q2, 1e-12)
      if bad or not close(qd1, qd2, 1e-12):
        spec_failures.append(dict(key=f'step:{pipe_name}', what=f'{pipe_name}.pipeline.step reports q, qd that are not '
                                  f'inverse(world_to_joint(x, xd)) of the x, xd it reports (links {bad}): '
                                  f'reported q={q1.tolist()} recomputed {q2.tolist()}; qd={qd1.tolist()} recomputed {qd2.tolist()}',
                                  xml=xml, q=q.tolist(), qd=qd.tolist(), act=act.tolist(), pipeline=pipe_name, check='step'))
      if not spec_only:
        lines.append(' '.join(['tail'] + m.st + tf_tokens(x.pos, x.rot) + motion_tokens(xd.ang, xd.vel)))
        plan.append((m, pipe_name, q1, qd1))
      setattr(m, f'_step_{pipe_name}', None); delattr(m, f'_step_{pipe_name}')
    m.release()
    jax.clear_caches()
  skipped = 0
  if lines:
    out = C.run_driver('Driver/C08.lean', lines)
    for (m, pipe_name, q1, qd1), o in zip(plan, out):
      p = parse_ok(o, m.nq, m.nv)
      if p is None:
        raise RuntimeError(f'driver: {o[:60]}')
      _, margin, q_l, qd_l = p
      if margin < NEAR:
        skipped += 1; continue
      bad = q_close(m.sys, q_l, q1, TOL_Q)
      if bad or not close(qd_l, qd1):
        dis.append(dict(what=f'Inv.stepTail (Lean) on the x, xd reported by {pipe_name}.pipeline.step differs from the q, qd '
                        f'it reports (links {bad}, stacks {m.kinds})', xml=m.xml, lean_q=q_l.tolist(), real_q=q1.tolist(),
                        lean_qd=qd_l.tolist(), real_qd=qd1.tolist()))
  return dict(spec_failures=spec_failures, disagreements=dis, hist=hist, evaluations=len(plan), skipped=skipped)


# ----------------------------------------------------------------------------- shrinking


def shrink(m, fail):
  """smaller forests on which the same clause still fails: the failing link alone (attached to the
  world), then the chain of its ancestors; falls back to the original input"""
  if m.meta is None or fail.get('check') != 'roundtrip':
    return fail
  bodies, i = m.meta['bodies'], fail['link']
  qs, ds = slices(m.sys)
  q, qd = np.asarray(fail['q']), np.asarray(fail['qd'])
  chain = [i]
  while bodies[chain[0]]['parent'] != -1:
    chain.insert(0, bodies[chain[0]]['parent'])
  for keep in ([i], chain):
    if len(keep) == len(bodies):
      continue
    sub = [dict(bodies[b], parent=(k - 1 if k > 0 else -1)) for k, b in enumerate(keep)]
    o = dict(modelgen.DEFAULTS, collide=False, ground=False)
    try:
      m2 = Model(modelgen.to_xml(sub, [], o), dict(bodies=sub))
      q2 = np.concatenate([q[qs[b][0]:qs[b][1]] for b in keep])
      qd2 = np.concatenate([qd[ds[b][0]:ds[b][1]] for b in keep])
      if m2.kinds != [m.kinds[b] for b in keep]:
        continue
      *_, rq, rqd = m2.roundtrip(q2, qd2)
      fails, _ = spec_roundtrip(m2, q2, qd2, rq, rqd)
    except Exception:        # a shrunk document that does not load is just not a candidate
      continue
    same = [f for f in fails if f['key'] == fail['key']]
    if same:
      same[0]['shrunk_from_links'] = len(bodies)
      return same[0]
  return fail


def shrink_all(models, fails, limit=3):
  """shrink the first failure of each distinct key (at most `limit`), smallest inputs first"""
  by_xml = {m.xml: m for m in models}
  out, seen = [], set()
  for f in fails:
    if f['key'] in seen or len(out) >= limit:
      continue
    seen.add(f['key'])
    m = by_xml.get(f.get('xml'))
    out.append(shrink(m, f) if m is not None else f)
  return out + list(fails[:20])


# ----------------------------------------------------------------------------- API


def correspond(ctx):
  t0 = time.time()
  n_models = ctx.budget(40, 360)
  r = run_cases(ctx, n_models, 3)
  t1 = time.time()
  p = run_pipelines(ctx, ctx.budget(4, 20))
  t2 = time.time()
  m0 = r['models'][0]
  distinct = len({(m.sys.link_types, tuple(m.sys.link_parents), tuple(m.kinds)) for m in r['models']})
  vel = {k: dict(cases=v[0], roundtrip_ok=v[1], max_abs_err=v[2]) for k, v in sorted(r['vel_meas'].items())}
  return dict(
      evaluations=r['evaluations'] + p['evaluations'],
      distinct_nontrivial=distinct,
      rule=f'{n_models} generator forests inside the quantifier (orthogonal=True, kinds one_kind / slides_then_hinge, either '
           'handedness, 1-6 links, free/world roots, body offsets/rotations, anchor offsets) + 10% forests with mixed stacks / synthetic dof.motion '
           '(model<->implementation legs only) x 3 states (q in [-1.2,1.2], unit root quaternions, qd in [-1,1]); per state: '
           'world_to_joint and inverse vs Lean on forward-generated and on random inputs, the Lean round trip vs the real one, '
           'and the round trip itself vs (q, qd); plus one spring and one positional step on small forests; distinct = distinct '
           '(link_types, parents, stack kinds)',
      samples=[dict(link_types=m0.sys.link_types, parents=list(m0.sys.link_parents), stacks=m0.kinds)],
      disagreements=r['disagreements'] + p['disagreements'],
      spec_failures=shrink_all(r['models'], r['spec_failures']) + p['spec_failures'],
      trusted_base=['correspondence harness corr_C08.py (sampled inputs, float64, 1e-9 relative+absolute)',
                    'scan.link_types: grouped code transcribed and proved equal to the per-link slicing (Layer B stage 2, Props/C01.scanLinkTypes_coded_eq_slices); transcription tied exhaustively in the C01 check',
                    'Kin.forward tied to kinematics.forward by C01 (re-checked here through the rt leg)',
                    'near-branch distance computed by the Lean driver from the model intermediates (threshold 1e-6)'],
      assumptions=['IEEE round-off not modelled; theorems over the reals',
                   'theorems are per link (parent world transform given); the forest recursion is Layer B'],
      explanation='model<->implementation for world_to_joint / inverse / step tail; the round trip evaluated on the real code '
                  'for every link inside the quantifier; theorems in Props/C08.lean',
      extra=dict(stack_histogram=r['stack_hist'], branch_histogram=r['branch_hist'],
                 skipped_near_branch=r['skipped'] + p['skipped'], skipped_near_branch_by_source=r['skipped_src'],
                 velocity_roundtrip=vel,
                 lean_model_position_roundtrip_max_err=r['model_rt_max'], pipeline_steps=p['hist'],
                 seconds=dict(kinematics=round(t1 - t0, 1), pipelines=round(t2 - t1, 1))))


def search(ctx, broken, corr):
  """Spec on the implementation over the property's quantifier (budgeted)"""
  t0 = time.time()
  budget = ctx.budget(60, 600)
  found = []
  k = 0
  while time.time() - t0 < budget and not found and k < 20:
    r = run_cases(ctx, ctx.budget(15, 60), 3, seed_offset=1000 + 37 * k, spec_only=True)
    found += shrink_all(r['models'], r['spec_failures'])
    if not found and time.time() - t0 < budget:
      found += run_pipelines(ctx, 3, seed_offset=1000 + 37 * k, spec_only=True)['spec_failures']
    k += 1
  return found


def _eval_roundtrip(xml, q, qd):
  _setup()
  m = Model(xml)
  q, qd = np.asarray(q, dtype=np.float64), np.asarray(qd, dtype=np.float64)
  *_, q2, qd2 = m.roundtrip(q, qd)
  return m, q, qd, q2, qd2


def replay(ctx, rp):
  if rp.get('kind') != 'failing-input':
    return True, f'replay names broken obligations only: {rp.get("broken")}'
  if rp.get('check') == 'step':
    _setup()
    m = Model(rp['xml'])
    x, xd, q1, qd1, q2, qd2 = step_once(m, rp['pipeline'], np.array(rp['q']), np.array(rp['qd']), np.array(rp['act']))
    ok = not q_close(m.sys, q1, q2, 1e-12) and close(qd1, qd2, 1e-12)
    return bool(ok), f'{rp["pipeline"]} step: reported q={q1.tolist()} qd={qd1.tolist()}; inverse(world_to_joint(x, xd)) q={q2.tolist()} qd={qd2.tolist()}'
  m, q, qd, q2, qd2 = _eval_roundtrip(rp['xml'], rp['q'], rp['qd'])
  fails, _ = spec_roundtrip(m, q, qd, q2, qd2)
  msg = f'q={q.tolist()} roundtrip q={q2.tolist()}; qd={qd.tolist()} roundtrip qd={qd2.tolist()}'
  return (not fails), (fails[0]['what'] + ' | ' + msg if fails else 'round trip holds: ' + msg)


def reproduce_known(ctx, entry):
  """re-run a KNOWN_FINDINGS.json entry: {xml, q, qd, link, clause: 'pos'|'vel'}; True = still reproduces"""
  m, q, qd, q2, qd2 = _eval_roundtrip(entry['xml'], entry['q'], entry['qd'])
  qs, ds = slices(m.sys)
  i = int(entry.get('link', 0))
  if entry.get('clause', 'pos') == 'pos':
    a, b = qs[i]
    return not close(q2[a:b], q[a:b], SPEC_TOL)
  a, b = ds[i]
  return not close(qd2[a:b], qd[a:b], SPEC_TOL)
