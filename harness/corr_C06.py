"""C06 — contacts and joint limits are inert until reached; contacts only push.

Model <-> implementation (Tie B), all through `lean/Driver/C06.lean`:

* exact-rational: `generalized.constraint.jac_limit` and `_imp_aref` — the implementation's own jaxpr
  is evaluated over `fractions.Fraction` (harness/jaxpr_eval.py + three private extensions, below)
  and compared for EQUALITY with the Lean model run at `Rat`; each case also runs the real jitted
  function in float64 and requires 1e-9 agreement with the rational result (interpreter self-check);
* float (1e-9 relative): `jac_limit` with infinite bounds, `jac_contact` (contacts taken from the real
  `contact.get`), `force` (a spy replaces `jaxopt.ProjectedGradient` to read A, b and x), the spring leaf
  functions `_one_dof/_two_dof/_three_dof` with and without `dof.limit`, `spring.collisions.resolve`,
  `positional.collisions.resolve_position/resolve_velocity` (synthetic contact rows and rows of the real
  `contact.get`), `vmap(_three_dof_joint_update)(j, *_sphericalize(sys, j))`, the two integrators.
  Exact zero patterns are compared exactly (a row the model says is 0 must be 0.0 in the implementation).

Spec on the implementation (the property's own observations; also what `search` runs), three pipelines:
 (a) separated twin, (b) limit twin, (c) push-only, (d) resting, (e) rebound — see `spec_*` below.
"""
from __future__ import annotations

import os
import sys
import time
from fractions import Fraction

import numpy as np

HERE = os.path.dirname(os.path.abspath(__file__))
sys.path.insert(0, HERE)
import check as C  # noqa: E402
import modelgen  # noqa: E402
import wire  # noqa: E402

TOL = 1e-9          # float correspondence (relative) and twin comparison
TOL_UNIT = 1e-12    # | ||rot|| - 1 |: one division by a square root is exact to a few ulp (2e-16)
DRIVER = 'Driver/C06.lean'
PIPELINES = ('generalized', 'spring', 'positional')
KEY_D3 = 'positional:no-contact-early-return-skips-normalize'
KEY_D7 = 'rest:positional:lefthanded-3hinge-limit'

# measured outcome bounds of the float observations (notes/C06.md, "measured margins"); these are the
# property's "few centimetres" / "analytically known height" / rebound margins made concrete per pipeline
SINK_MAX = {'generalized': 0.04, 'spring': 0.08, 'positional': 0.01}      # measured maxima 0.0204 / 0.0485 / 0.0009
REST_TOL = {'generalized': 1.5e-3, 'spring': 2e-2, 'positional': 5e-4}     # measured maxima 3.9e-4 / 1.07e-2 / 4.1e-5
REBOUND = {'positional': (-0.02, 0.02), 'spring': (-0.02, 0.2)}


def _setup():
  import jax
  jax.config.update('jax_enable_x64', True)


A = lambda x: np.asarray(x, dtype=np.float64)


def pipeline(name):
  return __import__(f'brax.{name}.pipeline', fromlist=['x'])


# ----------------------------------------------------------------------------- tokens


def tf_tokens(t):
  pos, rot = A(t.pos), A(t.rot)
  out = [str(len(pos))]
  for i in range(len(pos)):
    out += wire.toks(pos[i]) + wire.toks(rot[i])
  return out


def mo_tokens(m):
  ang, vel = A(m.ang), A(m.vel)
  out = [str(len(ang))]
  for i in range(len(ang)):
    out += wire.toks(ang[i]) + wire.toks(vel[i])
  return out


def m3_tokens(m):
  m = A(m)
  out = [str(len(m))]
  for i in range(len(m)):
    out += wire.toks(m[i])
  return out


def v3_tokens(v):
  v = A(v)
  out = [str(len(v))]
  for i in range(len(v)):
    out += wire.toks(v[i])
  return out


def contact_rows(c):
  """[(l1, l2, dist, pos, normal, friction0, elasticity)] from a brax Contact or None"""
  if c is None:
    return []
  l1, l2 = np.asarray(c.link_idx[0]), np.asarray(c.link_idx[1])
  return [(int(l1[k]), int(l2[k]), float(A(c.dist)[k]), A(c.pos)[k], A(c.frame)[k, 0],
           float(A(c.friction)[k, 0]), float(A(c.elasticity)[k])) for k in range(len(l1))]


def contact_tokens(rows):
  out = [str(len(rows))]
  for (l1, l2, d, p, n, f, e) in rows:
    out += [str(l1), str(l2), wire.tok(d)] + wire.toks(p) + wire.toks(n) + [wire.tok(f), wire.tok(e)]
  return out


def gcontact_tokens(c):
  """rows of a brax Contact as `GContact`: link1 link2 dist pos frame(9) friction0 solref(2) solimp(5)"""
  if c is None:
    return ['0']
  l1, l2 = np.asarray(c.link_idx[0]), np.asarray(c.link_idx[1])
  out = [str(len(l1))]
  for k in range(len(l1)):
    out += [str(int(l1[k])), str(int(l2[k])), wire.tok(A(c.dist)[k])] + wire.toks(A(c.pos)[k])
    out += wire.toks(A(c.frame)[k]) + [wire.tok(A(c.friction)[k, 0])]
    out += wire.toks(A(c.solref)[k]) + wire.toks(A(c.solimp)[k])
  return out


def params_tokens(sp, mode='F'):
  sp = np.asarray(sp)
  out = [str(len(sp))]
  for r in sp:
    out += [wire.tok(v, mode) for v in r]
  return out


def parse_line(o):
  return np.array([wire.parse(t) for t in o.split() if t != '|'], dtype=np.float64)


def parse_parts(o):
  return [np.array([wire.parse(t) for t in part.split()], dtype=np.float64) for part in o.split('|')]


def close(a, b, tol=TOL):
  a, b = np.asarray(a, dtype=np.float64).reshape(-1), np.asarray(b, dtype=np.float64).reshape(-1)
  if a.shape != b.shape:
    return False
  if not (np.isfinite(a).all() and np.isfinite(b).all()):
    return bool(np.array_equal(np.isfinite(a), np.isfinite(b))
                and np.allclose(a[np.isfinite(a)], b[np.isfinite(b)], rtol=tol, atol=tol))
  return bool(np.all(np.abs(a - b) <= tol * (1.0 + np.abs(b))))


def zero_rows_ok(parts, real):
  """constraint rows the model says are inactive (zero jacobian row, diag 0, aref 0) must be exactly zero in the
  implementation too (the masks multiply by an exact 0); `parts`/`real` = [jac flattened, diag, aref]"""
  k = len(real[1])
  if k == 0:
    return all(len(p_) == 0 for p_ in parts)
  if any(len(a) != len(b) for a, b in zip(parts, real)):
    return False
  mj, rj = np.asarray(parts[0]).reshape(k, -1), np.asarray(real[0]).reshape(k, -1)
  inactive = np.all(mj == 0.0, axis=1) & (np.asarray(parts[1]) == 0.0) & (np.asarray(parts[2]) == 0.0)
  return bool(np.all(rj[inactive] == 0.0) and np.all(np.asarray(real[1])[inactive] == 0.0)
              and np.all(np.asarray(real[2])[inactive] == 0.0))


# ----------------------------------------------------------------------------- private jaxpr_eval extensions

import jaxpr_eval as JE  # noqa: E402

_orig_apply = JE._apply


def _apply_c06(eqn, ins, dom):
  """PRIVATE to C06 (jaxpr_eval.py is shared), installed only in this process:
  * `convert_element_type` of a value that depends on the float inputs to an INTEGER dtype
    (`(pos_min < pos_max) * 2 - 1`): booleans become 0/1 in the domain, integers stay what they are;
  * `pow` with an exponent array (`jp.power(imp_x, power)` under vmap): element-wise, natural exponents
    only (anything else raises Unsupported -> the case is not used in exact mode)."""
  prim = eqn.primitive.name
  if prim == 'convert_element_type' and JE._is_dom(ins[0]):
    new = np.dtype(eqn.params['new_dtype'])
    if np.issubdtype(new, np.integer):
      if JE._is_bool_aval(eqn.invars[0].aval):
        return JE.emap(dom.frombool, ins[0])
      return ins[0]
  if prim == 'pow' and (JE._is_dom(ins[0]) or JE._is_dom(ins[1])):
    base = ins[0] if JE._is_dom(ins[0]) else JE.lift(dom, ins[0])
    ex = ins[1] if JE._is_dom(ins[1]) else JE.lift(dom, ins[1])

    def ipow(a, e):
      e = Fraction(e)
      if e.denominator != 1 or e < 0:
        raise JE.Unsupported('pow with a non-natural exponent')
      r = dom.lit(1)
      for _ in range(int(e)):
        r = r * a
      return r
    return JE.emap(ipow, base, ex)
  return _orig_apply(eqn, ins, dom)


JE._apply = _apply_c06


def frac_array(a):
  a = np.asarray(a, dtype=np.float64)
  out = np.empty(a.shape, dtype=object)
  for idx in np.ndindex(a.shape):
    out[idx] = Fraction(float(a[idx]))
  return out


def frac_tok(x):
  x = Fraction(x)
  return str(x.numerator) if x.denominator == 1 else f'{x.numerator}/{x.denominator}'


# ----------------------------------------------------------------------------- A: correspondences


class Cases:
  """driver lines with their checkers; one driver run for all of them"""

  def __init__(self):
    self.lines, self.checks, self.kinds = [], [], {}

  def add(self, line, check, kind):
    self.lines.append(line)
    self.checks.append(check)
    self.kinds[kind] = self.kinds.get(kind, 0) + 1

  def run(self):
    if not self.lines:
      return []
    out = C.run_driver(DRIVER, self.lines)
    if len(out) != len(self.lines):
      raise RuntimeError(f'driver answered {len(out)} lines for {len(self.lines)}')
    dis = []
    for o, chk, l in zip(out, self.checks, self.lines):
      if o.startswith('bad'):
        dis.append(dict(what=f'driver rejected a case: {o} ({l.split()[0]})'))
        continue
      d = chk(o)
      if d:
        dis.append(d)
    return dis


def rand_params(rng, n, exact):
  """solver parameters per dof: MuJoCo defaults, positive solref, and the negative (stiffness, damping)
  form; `power` in {1, 2, 3} (exact mode needs natural exponents)"""
  out = []
  for _ in range(n):
    m = rng.random()
    if m < 0.3:
      p = [0.02, 1.0, 0.9, 0.95, 0.001, 0.5, 2.0]
    else:
      tc, dr = float(rng.uniform(0.005, 0.05)), float(rng.uniform(0.5, 1.5))
      if m > 0.75:
        tc, dr = -float(rng.uniform(50, 500)), -float(rng.uniform(1, 20))
      dmin = float(rng.uniform(0.5, 0.9))
      p = [tc, dr, dmin, float(rng.uniform(dmin, 0.99)), float(rng.uniform(0.001, 0.3)),
           float(rng.uniform(0.2, 0.8)), float(rng.choice([1.0, 2.0, 3.0]))]
    out.append(p)
  return np.array(out, dtype=np.float64).reshape(n, 7)


def limit_states(rng, sysm, lo, hi, k):
  """q: inside / outside / exactly on a bound for the limited coordinates"""
  q, qd = modelgen.rand_state(rng, sysm, q_range=2.8)
  q_idx = np.asarray(sysm.q_idx('123'))
  qd_idx = np.asarray(sysm.qd_idx('123'))
  for a, b in zip(q_idx, qd_idx):
    l, h = lo[b], hi[b]
    m = rng.random()
    if np.isfinite(l) and np.isfinite(h):
      if k == 0 or m < 0.4:
        q[a] = rng.uniform(l + 0.01, h - 0.01)            # strictly inside
      elif m < 0.55:
        q[a] = l if rng.random() < 0.5 else h             # exactly on the bound
      elif m < 0.8:
        q[a] = h + rng.uniform(0.0, 0.5)
      else:
        q[a] = l - rng.uniform(0.0, 0.5)
  return q, qd


def corr_jac_limit(rng, cases, n_models, stats):
  _setup()
  import jax
  import jax.numpy as jp
  from types import SimpleNamespace
  from brax.generalized import constraint
  from brax.io import mjcf
  for mi in range(n_models):
    xml, meta = modelgen.gen_model(rng, limits=(0.0 if mi == 1 else 0.7), roots='mixed', n_links=(1, 5))
    sysm = mjcf.loads(xml)
    nv = sysm.qd_size()
    types = meta['link_types']
    has_limit = sysm.dof.limit is not None
    stats['jac_limit_models'].append(types + ('' if has_limit else ':nolimit'))
    if not has_limit:
      q, qd = modelgen.rand_state(rng, sysm)
      jac, diag, aref = constraint.jac_limit(sysm, SimpleNamespace(q=jp.asarray(q), qd=jp.asarray(qd)))
      line = ' '.join(['f.jaclimit'] + wire.sys_tokens(sysm) + params_tokens(A(sysm.dof.solver_params))
                      + wire.vec_tokens(q) + wire.vec_tokens(qd))

      def chk(o, jac=jac, types=types):
        parts = parse_parts(o)
        if A(jac).shape[0] != 0 or any(len(p) for p in parts):
          return dict(what=f'jac_limit without dof.limit: expected no rows, model {[len(p) for p in parts]}', types=types)
      cases.add(line, chk, 'jac_limit:none')
      continue
    lo0, hi0 = A(sysm.dof.limit[0]), A(sysm.dof.limit[1])

    def f(q, qd, lo, hi, params, invw, sysm=sysm):
      s2 = sysm.replace(dof=sysm.dof.replace(limit=(lo, hi), solver_params=params, invweight=invw))
      return constraint.jac_limit(s2, SimpleNamespace(q=q, qd=qd))
    fj = jax.jit(f)
    for k in range(3):
      params = rand_params(rng, nv, exact=True)
      invw = rng.uniform(0.1, 5.0, size=nv)
      q, qd = limit_states(rng, sysm, lo0, hi0, k)
      # ---- float mode with the real (possibly infinite) bounds
      jac, diag, aref = fj(jp.asarray(q), jp.asarray(qd), jp.asarray(lo0), jp.asarray(hi0), jp.asarray(params), jp.asarray(invw))
      s2 = sysm.replace(dof=sysm.dof.replace(invweight=jp.asarray(invw)))
      line = ' '.join(['f.jaclimit'] + wire.sys_tokens(s2) + params_tokens(params) + wire.vec_tokens(q) + wire.vec_tokens(qd))
      real = [A(jac).reshape(-1), A(diag), A(aref)]
      stats['limit_rows'] += len(real[1])
      stats['limit_rows_active'] += int(np.sum(np.abs(A(jac)).sum(axis=1) > 0))

      def chk(o, real=real, types=types, xml=xml, q=q, qd=qd):
        parts = parse_parts(o)
        if not zero_rows_ok(parts, real):
          return dict(what='jac_limit (float): a row that is inactive in the Lean model is not exactly zero in the implementation',
                      types=types, xml=xml, q=q.tolist(), qd=qd.tolist())
        for nm, m, r in zip(('jac', 'diag', 'aref'), parts, real):
          if not close(m, r):
            return dict(what=f'jac_limit (float): {nm} of the Lean model differs from the implementation', types=types,
                        xml=xml, q=q.tolist(), qd=qd.tolist(), lean=m.tolist()[:12], real=r.tolist()[:12])
      cases.add(line, chk, 'jac_limit:float')
      # ---- exact-rational mode (finite stand-ins for infinite bounds on both sides)
      lo = np.where(np.isinf(lo0), -float(2 ** 40), lo0)
      hi = np.where(np.isinf(hi0), float(2 ** 40), hi0)
      args = (q, qd, lo, hi, params, invw)
      closed = JE.trace(f, *[jp.asarray(a) for a in args])
      try:
        ex = JE.run(closed, [frac_array(a) for a in args], JE.FracDomain())
      except JE.Unsupported as e:
        raise RuntimeError(f'exact evaluation of jac_limit unsupported: {e}')
      ex = [np.asarray(e, dtype=object).reshape(-1) for e in ex]
      fl = fj(*[jp.asarray(a) for a in args])
      for e, r, nm in zip(ex, fl, ('jac', 'diag', 'aref')):
        if not close(np.array([float(v) for v in e]), A(r).reshape(-1)):
          raise RuntimeError(f'jaxpr interpreter self-check failed on jac_limit ({nm})')
      s3 = sysm.replace(dof=sysm.dof.replace(limit=(jp.asarray(lo), jp.asarray(hi)), invweight=jp.asarray(invw)))
      line = ' '.join(['r.jaclimit'] + wire.sys_tokens(s3) + params_tokens(params) + wire.vec_tokens(q) + wire.vec_tokens(qd))
      want = ' | '.join(' '.join(frac_tok(v) for v in e) for e in ex)

      def chk2(o, want=want, types=types, xml=xml, q=q, qd=qd):
        if ' '.join(o.split()) != ' '.join(want.split()):
          return dict(what='jac_limit (exact-rational): the Lean model at Rat differs from the implementation\'s jaxpr over Fraction',
                      types=types, xml=xml, q=q.tolist(), qd=qd.tolist(), lean=o[:300], real=want[:300])
      cases.add(line, chk2, 'jac_limit:exact')
  # ---- _imp_aref alone, exact
  fi = lambda p, pos, vel: constraint._imp_aref(p, pos, vel)
  for k in range(8):
    p = rand_params(rng, 1, exact=True)[0]
    pos = float(np.round(rng.uniform(-0.4, 0.05), 4)) if k else 0.0
    vel = float(np.round(rng.uniform(-2, 2), 3))
    closed = JE.trace(fi, jp.asarray(p), jp.asarray(pos), jp.asarray(vel))
    ex = JE.run(closed, [frac_array(p), frac_array(pos), frac_array(vel)], JE.FracDomain())
    want = ' '.join(frac_tok(np.asarray(e, dtype=object).reshape(-1)[0]) for e in ex)
    line = ' '.join(['r.imparef'] + [wire.tok(v) for v in p] + [wire.tok(pos), wire.tok(vel)])

    def chk3(o, want=want, p=p, pos=pos, vel=vel):
      if ' '.join(o.split()) != want:
        return dict(what='_imp_aref (exact-rational): Lean model differs from the jaxpr over Fraction',
                    params=p.tolist(), pos=pos, vel=vel, lean=o[:200], real=want[:200])
    cases.add(line, chk3, 'imp_aref:exact')


# ---- scenes with contacts


def _f(x):
  return ' '.join(repr(float(v)) for v in np.atleast_1d(x))


def lowest_point(shape, size, R):
  """distance from the geom centre to its lowest point, for body rotation matrix R (geom frame = body
  frame, except the capsule whose axis is the geom z axis)"""
  if shape == 'sphere':
    return size[0]
  if shape == 'capsule':
    return size[0] + size[1] * abs(R[2, 2])
  return float(np.sum(np.abs(R[2, :]) * np.asarray(size)))


def quat_to_mat(q):
  w, x, y, z = q
  return np.array([[1 - 2 * (y * y + z * z), 2 * (x * y - w * z), 2 * (x * z + w * y)],
                   [2 * (x * y + w * z), 1 - 2 * (x * x + z * z), 2 * (y * z - w * x)],
                   [2 * (x * z - w * y), 2 * (y * z + w * x), 1 - 2 * (x * x + y * y)]])


def body_scene(shape, size, density, z, quat=(1.0, 0.0, 0.0, 0.0), e=0.0, dt=0.002, gravity=-9.81, collide=True,
               friction=None, margin=None):
  """one free body with one geom above/in a ground plane"""
  z, density, e, dt, gravity = float(z), float(density), float(e), float(dt), float(gravity)
  con = '1' if collide else '0'
  fr = f' friction="{_f(friction)}"' if friction is not None else ''
  if margin is not None:
    fr += f' margin="{float(margin)!r}"'
  return f'''<mujoco model="body">
<compiler angle="radian" autolimits="false"/>
<option timestep="{dt!r}" gravity="0 0 {gravity!r}"/>
<custom><numeric data="{e!r}" name="elasticity"/></custom>
<worldbody>
<geom name="ground" type="plane" size="40 40 40" pos="0 0 0" contype="{con}" conaffinity="{con}"/>
<body name="b0" pos="0 0 {z!r}" quat="{_f(quat)}">
<freejoint name="root"/>
<geom name="g" type="{shape}" size="{_f(size)}" density="{density!r}" contype="{con}" conaffinity="{con}"{fr}/>
</body></worldbody></mujoco>'''


def rand_body(rng, lying_capsule=False):
  shape = str(rng.choice(['sphere', 'box', 'capsule']))
  if shape == 'sphere':
    size = [float(rng.uniform(0.05, 0.3))]
  elif shape == 'box':
    size = [float(v) for v in rng.uniform(0.05, 0.3, size=3)]
  else:
    size = [float(rng.uniform(0.05, 0.15)), float(rng.uniform(0.05, 0.3))]
  return shape, size, float(rng.uniform(200, 3000))


def corr_generalized_contact(rng, cases, n_models, stats):
  """`jac_contact` rows with the contacts of the real `contact.get`, and `force` with a spy solver"""
  _setup()
  import jax
  import jax.numpy as jp
  import jaxopt
  from brax import contact
  from brax.generalized import constraint
  from brax.generalized import pipeline as GP
  from brax.io import mjcf
  for mi in range(n_models):
    if mi % 2 == 0:
      shape, size, dens = rand_body(rng)
      quat = modelgen.rand_unit_quat(rng)
      # alternately penetrating (2-20 mm) and hovering (1-30 mm above the ground: rows must be inactive)
      depth = float(rng.uniform(0.002, 0.02)) if mi % 4 == 0 else -float(rng.uniform(0.001, 0.03))
      z = lowest_point(shape, size, quat_to_mat(quat)) - depth
      xml = body_scene(shape, size, dens, z, quat=quat)
      tag = f'body:{shape}'
    else:
      xml, meta = modelgen.gen_model(rng, collide=True, ground=True, limits=0.5, n_links=(2, 4), roots='mixed',
                                     geoms=('sphere', 'capsule'))
      tag = 'gen:' + meta['link_types']
    sysm = mjcf.loads(xml)
    nv = sysm.qd_size()
    q = A(sysm.init_q).copy()
    if mi % 2 == 1:
      q, _ = modelgen.rand_state(rng, sysm, q_range=0.5)
      # lower the free roots so that something touches the ground
      off = 0
      for t in sysm.link_types:
        if t == 'f':
          q[off + 2] = rng.uniform(0.0, 0.4)
        off += {'f': 7, '1': 1, '2': 2, '3': 3}[t]
    qd = rng.uniform(-1, 1, size=nv)
    st = jax.jit(lambda q, qd: GP.init(sysm, q, qd))(jp.asarray(q), jp.asarray(qd))
    c = jax.jit(lambda x: contact.get(sysm, x))(st.x)
    stats['gen_contact_models'].append(tag)
    ncon = 0 if c is None else int(A(c.dist).shape[0])
    stats['gen_contact_rows'] += 4 * ncon
    stats['gen_contact_rows_active'] += 0 if c is None else 4 * int(np.sum(A(c.dist) < 0))
    # ---- jac_contact
    jac, diag, aref = jax.jit(lambda s: constraint.jac_contact(sysm, s))(st)
    real = [A(jac).reshape(-1), A(diag), A(aref)]
    line = ' '.join(['f.jaccontact'] + wire.sys_tokens(sysm) + wire.vec_tokens(A(st.qd)) + v3_tokens(st.root_com)
                    + mo_tokens(st.cdof) + gcontact_tokens(c))

    def chk(o, real=real, tag=tag, xml=xml, q=q, qd=qd):
      parts = parse_parts(o)
      if not zero_rows_ok(parts, real):
        return dict(what='jac_contact: a row that is inactive in the Lean model is not exactly zero in the implementation',
                    model=tag, xml=xml, q=q.tolist(), qd=qd.tolist())
      for nm, m, r in zip(('jac', 'diag', 'aref'), parts, real):
        if not close(m, r):
          return dict(what=f'jac_contact: {nm} of the Lean model differs from the implementation', model=tag, xml=xml,
                      q=q.tolist(), qd=qd.tolist(), lean=m.tolist()[:12], real=r.tolist()[:12])
    cases.add(line, chk, 'jac_contact')
    # ---- force: spy on the solver
    if A(st.con_jac).shape[0] == 0:
      continue
    rec = {}
    RealPG = jaxopt.ProjectedGradient

    class SpyPG:
      def __init__(self, fun, projection, **kw):
        rec['fun'] = fun
        self.real = RealPG(fun, projection, **kw)

      def run(self, init, *a, **k):
        r = self.real.run(init, *a, **k)
        rec['x'] = r.params
        return r
    st2 = st.replace(qf_smooth=jp.asarray(rng.uniform(-20, 20, size=nv)))
    constraint.jaxopt.ProjectedGradient = SpyPG
    try:
      qf = constraint.force(sysm, st2)
    finally:
      constraint.jaxopt.ProjectedGradient = RealPG
    cl = dict(zip(rec['fun'].__code__.co_freevars, [c_.cell_contents for c_ in rec['fun'].__closure__]))
    a_m, b_v, x = A(cl['a']), A(cl['b']), A(rec['x'])
    stats['solver_min_x'] = min(stats['solver_min_x'], float(x.min()))
    stats['force_cases'] += 1
    k = a_m.shape[0]
    jt = [str(k)] + wire.toks(A(st2.con_jac))
    line = ' '.join(['f.force', str(nv)] + jt + wire.vec_tokens(A(st2.con_diag)) + wire.vec_tokens(A(st2.con_aref))
                    + wire.toks(A(st2.mass_mx_inv)) + wire.toks(A(st2.qf_smooth)) + wire.vec_tokens(x))
    real = [a_m.reshape(-1), b_v, A(qf)]

    def chk2(o, real=real, tag=tag, xml=xml):
      parts = parse_parts(o)
      for nm, m, r in zip(('A', 'b', 'qf_constraint'), parts, real):
        if not close(m, r, 1e-8):
          return dict(what=f'force: {nm} of the Lean model differs from the implementation', model=tag, xml=xml,
                      lean=m.tolist()[:12], real=r.tolist()[:12])
    cases.add(line, chk2, 'force')


# ---- spring / positional functions


def link_tokens(sysm, i):
  L = sysm.link
  t = wire.toks(A(L.transform.pos)[i]) + wire.toks(A(L.transform.rot)[i])
  t += wire.toks(A(L.joint.pos)[i]) + wire.toks(A(L.joint.rot)[i])
  t += wire.toks(A(L.inertia.transform.pos)[i]) + wire.toks(A(L.inertia.transform.rot)[i])
  t += wire.toks(A(L.inertia.i)[i]) + wire.toks(A(L.inertia.mass)[i]) + wire.toks(A(L.invweight)[i])
  t += wire.toks(A(L.constraint_stiffness)[i]) + wire.toks(A(L.constraint_vel_damping)[i])
  t += wire.toks(A(L.constraint_limit_stiffness)[i]) + wire.toks(A(L.constraint_ang_damping)[i])
  return t


def dof_tokens(sysm, ks):
  D = sysm.dof
  t = [str(len(ks))]
  for k in ks:
    t += wire.toks(A(D.motion.ang)[k]) + wire.toks(A(D.motion.vel)[k])
    t += wire.toks(A(D.armature)[k]) + wire.toks(A(D.stiffness)[k]) + wire.toks(A(D.damping)[k])
    if D.limit is None:
      t += ['-inf', 'inf']
    else:
      t += wire.toks(A(D.limit[0])[k]) + wire.toks(A(D.limit[1])[k])
    t += wire.toks(A(D.invweight)[k])
  return t


CHART = 1.4   # |q| bound on the coordinates of 2-/3-dof links: the Euler chart of the joint parametrisation


def dof_multi(sysm):
  """per dof: does it belong to a 2- or 3-dof link?"""
  out = []
  for t in sysm.link_types:
    out += [t in '23'] * {'f': 6, '1': 1, '2': 2, '3': 3}[t]
  return np.array(out, dtype=bool)


def state_inside(rng, sysm, margin=0.05, q_range=1.2, qd_range=1.0):
  """q with every limited coordinate strictly inside its range (by `margin`).  Coordinates of 2-/3-dof links stay
  within the chart |q| < 1.4 < pi/2 in which the spring/positional joint angles (`axis_angle_ang`) coincide with q
  (beyond pi/2 on the middle axis the Euler decomposition flips: C08's domain, not a limit effect)"""
  q, qd = modelgen.rand_state(rng, sysm, q_range=q_range, qd_range=qd_range)
  if sysm.dof.limit is not None:
    lo, hi = A(sysm.dof.limit[0]), A(sysm.dof.limit[1])
    multi = dof_multi(sysm)
    for a, b in zip(np.asarray(sysm.q_idx('123')), np.asarray(sysm.qd_idx('123'))):
      if np.isfinite(lo[b]) and np.isfinite(hi[b]):
        l, h = (max(lo[b], -CHART), min(hi[b], CHART)) if multi[b] else (lo[b], hi[b])
        q[a] = rng.uniform(l + margin, h - margin)
  return q, qd


def inside_ranges(sysm, q, margin=0.0):
  if sysm.dof.limit is None:
    return True
  lo, hi = A(sysm.dof.limit[0]), A(sysm.dof.limit[1])
  q = A(q)
  qi, di = np.asarray(sysm.q_idx('123')), np.asarray(sysm.qd_idx('123'))
  return bool(np.all(q[qi] > lo[di] + margin) and np.all(q[qi] < hi[di] - margin))


def synth_contacts(rng, n_links, k, x_i_pos, pen=0.6):
  """k synthetic contact rows: random link pairs (world allowed); penetrating, touching (dist == 0) and separated"""
  rows = []
  for _ in range(k):
    l1 = int(rng.integers(-1, n_links))
    l2 = int(rng.integers(-1, n_links))
    if l1 == -1 and l2 == -1:
      l2 = int(rng.integers(0, n_links))
    nrm = modelgen.rand_unit_vec(rng)
    base = x_i_pos[l1 if l1 >= 0 else l2]
    pos = base + rng.uniform(-0.3, 0.3, size=3)
    m = rng.random()
    dist = float(-rng.uniform(0.0005, 0.05)) if m < pen else (0.0 if m < pen + 0.1 else float(rng.uniform(0.0005, 0.05)))
    rows.append((l1, l2, dist, pos, nrm, float(rng.uniform(0.2, 1.5)), float(np.round(rng.uniform(0, 0.9), 2))))
  return rows


_TEMPLATE = {}


def contact_template():
  """one real Contact row (sphere on a plane) used as the carrier of synthetic contacts"""
  if 'c' not in _TEMPLATE:
    import jax.numpy as jp
    from brax import contact, kinematics
    from brax.io import mjcf
    sysm = mjcf.loads(body_scene('sphere', [0.1], 1000.0, 0.09))
    x, _ = kinematics.forward(sysm, sysm.init_q, jp.zeros(sysm.qd_size()))
    _TEMPLATE['c'] = contact.get(sysm, x)
  return _TEMPLATE['c']


def make_contact(rows):
  """a brax Contact pytree with the given rows"""
  import jax
  import jax.numpy as jp
  template = contact_template()
  k = len(rows)
  c = jax.tree.map(lambda a: jp.stack([a[0]] * k), template)
  frame = []
  for r in rows:
    n = r[4]
    b = np.cross(n, [1.0, 0, 0]) if abs(n[0]) < 0.9 else np.cross(n, [0, 1.0, 0])
    b /= np.linalg.norm(b)
    frame.append(np.stack([n, b, np.cross(n, b)]))
  fr = jp.asarray(np.stack(frame))
  fric = jp.asarray(np.stack([[r[5]] * c.friction.shape[1] for r in rows]))
  return c.replace(dist=jp.asarray([r[2] for r in rows]), pos=jp.asarray(np.stack([r[3] for r in rows])),
                   frame=fr, friction=fric, elasticity=jp.asarray([r[6] for r in rows]),
                   link_idx=(jp.asarray([r[0] for r in rows]), jp.asarray([r[1] for r in rows])))


def with_contact(fn, c):
  """run `fn()` with `brax.contact.get` replaced by the constant `c`"""
  from brax import contact
  orig = contact.get
  contact.get = lambda *_: c
  try:
    return fn()
  finally:
    contact.get = orig


def flat_tf(t):
  return np.concatenate([A(t.pos), A(t.rot)], axis=1).reshape(-1)


def flat_mo(m):
  return np.concatenate([A(m.ang), A(m.vel)], axis=1).reshape(-1)


def vec_check(what, real, **info):
  real = np.asarray(real, dtype=np.float64).reshape(-1)

  def chk(o):
    m = parse_line(o)
    if not close(m, real):
      bad = int(np.argmax(np.abs(m - real) - TOL * (1 + np.abs(real)))) if m.shape == real.shape else -1
      return dict(what=f'{what}: the Lean model differs from the implementation (entry {bad})',
                  lean=m.tolist()[:24], real=real.tolist()[:24], **info)
  return chk


def corr_spring_positional(rng, cases, n_models, stats, spec_failures):
  _setup()
  import jax
  import jax.numpy as jp
  from brax.base import Motion, Transform
  from brax.io import mjcf
  from brax.positional import collisions as pcoll
  from brax.positional import integrator as pint
  from brax.positional import joints as pjoints
  from brax.positional import pipeline as PP
  from brax.spring import collisions as scoll
  from brax.spring import integrator as sint
  from brax.spring import joints as sjoints
  from brax.spring import pipeline as SP
  leaf = {'1': sjoints._one_dof, '2': sjoints._two_dof, '3': sjoints._three_dof}
  for mi in range(n_models):
    xml, meta = modelgen.gen_model(rng, limits=(0.8 if mi != 2 else 0.0), roots='mixed', n_links=(2, 5),
                                   orthogonal=(mi % 2 == 0), damping=0.5)
    sysm = mjcf.loads(xml)
    types = meta['link_types']
    n, nv = sysm.num_links(), sysm.qd_size()
    stats['sp_models'].append(types + ('' if sysm.dof.limit is not None else ':nolimit'))
    inside = mi % 2 == 0        # odd models: coordinates beyond their ranges (limit terms active)
    q, qd = state_inside(rng, sysm) if inside else modelgen.rand_state(rng, sysm, q_range=2.8)
    sst = jax.jit(lambda q, qd: SP.init(sysm, q, qd))(jp.asarray(q), jp.asarray(qd))
    pst = jax.jit(lambda q, qd: PP.init(sysm, q, qd))(jp.asarray(q), jp.asarray(qd))
    info = dict(types=types, xml=xml, q=q.tolist(), qd=qd.tolist())
    # ---- spring leaf functions, with dof.limit and with dof.limit = None
    tau = rng.uniform(-2, 2, size=nv)
    off = 0
    for i, t in enumerate(sysm.link_types):
      w = {'f': 6, '1': 1, '2': 2, '3': 3}[t]
      ks = list(range(off, off + w))
      off += w
      if t == 'f':
        continue
      jpos = A(sst.j.pos)[i] + rng.uniform(-0.02, 0.02, size=3) * (rng.random() < 0.5)
      j = Transform(pos=jp.asarray(jpos), rot=sst.j.rot[i])
      jd = Motion(ang=sst.jd.ang[i], vel=sst.jd.vel[i])
      link = sysm.link.take(i)
      dof = sysm.dof.take(jp.asarray(ks))
      tk = jp.asarray(tau[ks])
      outs = {}
      for hl in ((True, False) if sysm.dof.limit is not None else (False,)):
        d2 = dof if hl else dof.replace(limit=None)
        f = jax.jit(lambda link, j, jd, d, tk, fn=leaf[t]: fn(link, j, jd, d, tk))(link, j, jd, d2, tk)
        outs[hl] = np.concatenate([A(f.ang).reshape(-1), A(f.vel).reshape(-1)])
        line = ' '.join(['f.sp.leaf', '1' if hl else '0', t] + link_tokens(sysm, i) + wire.toks(jpos) + wire.toks(A(j.rot))
                        + wire.toks(A(jd.ang)) + wire.toks(A(jd.vel)) + dof_tokens(sysm, ks) + wire.vec_tokens(tau[ks]))
        cases.add(line, vec_check(f'spring.joints._{["one", "two", "three"][int(t) - 1]}_dof (dof.limit {"set" if hl else "None"})',
                                  outs[hl], link=i, **info), f'spring.leaf{t}:{"lim" if hl else "nolim"}')
      stats['leaf_cases'] += 1
      # Spec at the leaf: unreached limits do not change the joint force (exactly)
      if len(outs) == 2 and inside and np.all(jpos == A(sst.j.pos)[i]):
        stats['leaf_twin_inside'] += 1
        if not np.array_equal(outs[True] + 0.0, outs[False] + 0.0):
          spec_failures.append(dict(key=f'limit-leaf:spring:{t}dof', what=f'spring _{t}_dof: joint force with limits (q strictly inside) '
                                    f'differs from the force with dof.limit=None by {np.abs(outs[True] - outs[False]).max():.3e}',
                                    pipeline='spring', clause='limit', link=i, **info))
    # ---- integrators
    xdv = Motion(ang=jp.asarray(rng.uniform(-1, 1, size=(n, 3))), vel=jp.asarray(rng.uniform(-1, 1, size=(n, 3))))
    xi, xdi = jax.jit(lambda a, b, c: sint.integrate(sysm, a, b, c))(sst.x_i, sst.xd_i, xdv)
    cases.add(' '.join(['f.sp.integrate'] + wire.sys_tokens(sysm) + tf_tokens(sst.x_i) + mo_tokens(sst.xd_i) + mo_tokens(xdv)),
              vec_check('spring.integrator.integrate', np.concatenate([flat_tf(xi), flat_mo(xdi)]), **info), 'spring.integrate')
    xi2, xdi2 = jax.jit(lambda a, b, c: pint.integrate_xdd(sysm, a, b, c))(pst.x_i, pst.xd_i, xdv)
    cases.add(' '.join(['f.pos.intxdd'] + wire.sys_tokens(sysm) + tf_tokens(pst.x_i) + mo_tokens(pst.xd_i) + mo_tokens(xdv)),
              vec_check('positional.integrator.integrate_xdd', np.concatenate([flat_tf(xi2), flat_mo(xdi2)]), **info), 'positional.integrate_xdd')
    for nm, t_ in (('spring.integrate', xi), ('positional.integrate_xdd', xi2)):
      dev = float(np.abs(np.linalg.norm(A(t_.rot), axis=1) - 1).max())
      stats['unit_dev_max'] = max(stats['unit_dev_max'], dev)
      if dev > TOL_UNIT:
        spec_failures.append(dict(key=f'unit:{nm}', what=f'{nm} returns a rotation with | ||rot|| - 1 | = {dev:.3e}',
                                  clause='unit', **info))
    # ---- positional joint update (sphericalize + _three_dof_joint_update)
    jpos = A(pst.j.pos) + rng.uniform(-0.02, 0.02, size=(n, 3)) * (rng.random(size=(n, 1)) < 0.5)
    jj = Transform(pos=jp.asarray(jpos), rot=pst.j.rot)
    dj = jax.jit(lambda j: jax.vmap(pjoints._three_dof_joint_update)(j, *pjoints._sphericalize(sysm, j)))(jj)
    cases.add(' '.join(['f.pos.jupd'] + wire.sys_tokens(sysm) + tf_tokens(jj)),
              vec_check('positional _three_dof_joint_update o _sphericalize', np.concatenate([A(dj.pos), A(dj.rot)], axis=1).reshape(-1),
                        **info), 'positional.joint_update')
    # ---- collision resolvers, contacts as data
    for rep in range(2):
      k = int(rng.integers(2, 6))
      rows = synth_contacts(rng, n, k, A(sst.x_i.pos)) if rep == 0 else synth_contacts(rng, n, k, A(sst.x_i.pos), pen=0.0)
      cc = make_contact(rows)
      stats['synthetic_rows'] += k
      stats['synthetic_rows_penetrating'] += sum(1 for r in rows if r[2] < 0)
      xdv_s = jax.jit(lambda s, c: with_contact(lambda: scoll.resolve(sysm, s), c))(sst, cc)
      cases.add(' '.join(['f.sp.collide'] + wire.sys_tokens(sysm) + tf_tokens(sst.x_i) + mo_tokens(sst.xd_i) + m3_tokens(sst.i_inv)
                         + wire.vec_tokens(A(sst.mass)) + contact_tokens(rows)),
                vec_check('spring.collisions.resolve (synthetic contacts)', flat_mo(xdv_s), **info), 'spring.collide')
      prev = pst.x_i.replace(pos=pst.x_i.pos + jp.asarray(rng.uniform(-0.01, 0.01, size=(n, 3))))
      xi3, dl = jax.jit(lambda s, p, c: pcoll.resolve_position(sysm, s, p, c))(pst, prev, cc)
      cases.add(' '.join(['f.pos.respos'] + wire.sys_tokens(sysm) + tf_tokens(pst.x) + tf_tokens(pst.x_i) + tf_tokens(prev) + contact_tokens(rows)),
                vec_check('positional.collisions.resolve_position (synthetic contacts)', np.concatenate([flat_tf(xi3), A(dl).reshape(-1)]), **info),
                'positional.resolve_position')
      xq = pst.xd_i.replace(vel=pst.xd_i.vel + jp.asarray(rng.uniform(-0.5, 0.5, size=(n, 3))))
      xdv_p = jax.jit(lambda s, p, c, d: pcoll.resolve_velocity(sysm, s, p, c, d))(pst, xq, cc, dl)
      cases.add(' '.join(['f.pos.resvel'] + wire.sys_tokens(sysm) + tf_tokens(pst.x) + tf_tokens(pst.x_i) + mo_tokens(pst.xd_i) + mo_tokens(xq)
                         + contact_tokens(rows) + wire.vec_tokens(A(dl))),
                vec_check('positional.collisions.resolve_velocity (synthetic contacts)', flat_mo(xdv_p), **info), 'positional.resolve_velocity')
      # Spec at the function level: separated rows only -> no velocity change, positions unchanged, unit rotations
      if rep == 1:
        stats['separated_function_cases'] += 1
        if np.abs(flat_mo(xdv_s)).max() != 0.0 or np.abs(flat_mo(xdv_p)).max() != 0.0 or np.abs(A(xi3.pos) - A(pst.x_i.pos)).max() != 0.0:
          spec_failures.append(dict(key='separated:function', what='a collision resolver changes a velocity/position although every contact row has dist >= 0',
                                    clause='separated', rows=[(r[0], r[1], r[2]) for r in rows], **info))
      dev = float(np.abs(np.linalg.norm(A(xi3.rot), axis=1) - 1).max())
      stats['unit_dev_max'] = max(stats['unit_dev_max'], dev)
      if dev > TOL_UNIT:
        spec_failures.append(dict(key='unit:positional.resolve_position', what=f'resolve_position returns | ||rot|| - 1 | = {dev:.3e}', clause='unit', **info))
    # contact-free early return of resolve_position
    xi4, dl4 = jax.jit(lambda s, p: pcoll.resolve_position(sysm, s, p, None))(pst, pst.x_i)
    cases.add(' '.join(['f.pos.respos'] + wire.sys_tokens(sysm) + tf_tokens(pst.x) + tf_tokens(pst.x_i) + tf_tokens(pst.x_i) + ['0']),
              vec_check('positional.collisions.resolve_position (contact is None)', np.concatenate([flat_tf(xi4), A(dl4).reshape(-1)]), **info),
              'positional.resolve_position:none')


# ----------------------------------------------------------------------------- B: the property on the real pipelines


def worker_setup(repo):
  if repo not in sys.path[:1]:
    sys.path.insert(0, repo)
  _setup()


class Pipe:
  """jitted init / step / contact distance of one pipeline for one model"""

  def __init__(self, sysm, name):
    import jax
    import jax.numpy as jp
    from brax import contact
    P = pipeline(name)
    self.sysm, self.name = sysm, name
    self.init = jax.jit(lambda q, qd: P.init(sysm, q, qd))
    self.step = jax.jit(lambda st, a: P.step(sysm, st, a))

    def mind(x):
      c = contact.get(sysm, x)
      return jp.inf if c is None else jp.min(c.dist)
    self.min_dist = jax.jit(mind)


def state_fields(st):
  return dict(q=A(st.q), qd=A(st.qd), x_pos=A(st.x.pos), x_rot=A(st.x.rot), xd_ang=A(st.xd.ang), xd_vel=A(st.xd.vel))


def state_diff(a, b):
  """largest violation of |a - b| <= TOL (1 + |b|) over the observable state; returns (field, excess ratio, abs diff)"""
  worst = ('', 0.0, 0.0)
  fa, fb = state_fields(a), state_fields(b)
  for k in fa:
    if fa[k].shape != fb[k].shape:
      return (k, np.inf, np.inf)
    if not (np.isfinite(fa[k]).all() and np.isfinite(fb[k]).all()):
      return (k, np.inf, np.inf)
    if fa[k].size:
      d = np.abs(fa[k] - fb[k])
      r = float(np.max(d / (1.0 + np.abs(fb[k]))))
      if r > worst[1]:
        worst = (k, r, float(d.max()))
  return worst


def unit_dev(st):
  r = A(st.x.rot)
  return float(np.abs(np.linalg.norm(r, axis=1) - 1).max()) if r.size else 0.0


def no_collide(xml):
  return xml.replace('contype="1" conaffinity="1"', 'contype="0" conaffinity="0"')


def no_limits(xml):
  import re
  return re.sub(r' limited="true" range="[^"]*"', ' limited="false"', xml)


def lefthanded_3hinge(sysm):
  """does the model have a 3-dof link whose three hinge axes form a left-handed frame?"""
  off = 0
  ang = A(sysm.dof.motion.ang)
  for t in sysm.link_types:
    w = {'f': 6, '1': 1, '2': 2, '3': 3}[t]
    if t == '3':
      a = ang[off:off + 3]
      if np.all(np.abs(a).sum(axis=1) > 0) and float(np.dot(np.cross(a[0], a[1]), a[2])) < 0:
        return True
    off += w
  return False


SEP_MARGIN = 2e-5     # "minimum contact distance > 0": 20 micrometres above round-off (was 1 mm, which hid the band just above contact)


def check_separated_case(xml, q, qd, act, name, hist):
  """clause (a) on one input: model with collidable geoms (all contact distances > 0) vs the same model with
  contype = conaffinity = 0: one step gives the same state (1e-9), unit quaternions either way; unit
  quaternions over `hist` further steps while separated.  Returns (failure | None, info)"""
  import jax.numpy as jp
  from brax.io import mjcf
  sa, sb = mjcf.loads(xml), mjcf.loads(no_collide(xml))
  pa, pb = Pipe(sa, name), Pipe(sb, name)
  q, qd, act = jp.asarray(q), jp.asarray(qd), jp.asarray(act)
  base = dict(clause='separated', pipeline=name, xml=xml, q=A(q).tolist(), qd=A(qd).tolist(), act=A(act).tolist(), hist=hist)
  a0, b0 = pa.init(q, qd), pb.init(q, qd)
  d0 = float(pa.min_dist(a0.x))
  if not d0 > SEP_MARGIN:
    return None, dict(skipped='touching', min_dist=d0)
  a1, b1 = pa.step(a0, act), pb.step(b0, act)
  # "touches nothing" is judged on the motion WITHOUT collision handling (twin b): if that motion stays separated, collision
  # handling has no business changing it — a collidable twin that was pulled onto a surface must not excuse itself
  d1 = float(pa.min_dist(b1.x))
  if not d1 > SEP_MARGIN:
    return None, dict(skipped='touching-after', min_dist=d1)
  ua, ub = unit_dev(a1), unit_dev(b1)
  fld, ratio, dabs = state_diff(a1, b1)
  info = dict(min_dist=min(d0, d1), unit_dev=max(ua, ub), twin_diff=dabs, steps=1)
  if ub > TOL_UNIT and name == 'positional' and ua <= TOL_UNIT:
    return dict(base, key=KEY_D3, what=f'positional step of a model WITHOUT contact pairs returns | ||x.rot|| - 1 | = {ub:.3e} '
                f'(the same model with never-touching collision geometry: {ua:.1e})'), info
  if max(ua, ub) > TOL_UNIT:
    return dict(base, key=f'separated:{name}:unit', what=f'{name} step returns a non-unit link rotation: | ||rot|| - 1 | = '
                f'{ua:.3e} (collidable, separated) / {ub:.3e} (collisions disabled)'), info
  if ratio > TOL:
    return dict(base, key=f'separated:{name}:state', what=f'{name}: one step of a model whose collision geometry touches nothing '
                f'(min contact distance {min(d0, d1):.3g}) differs from the step with collisions disabled: {fld} by {dabs:.3e}'), info
  # history: unit quaternions at every step of both twins while the collidable twin stays separated
  for t in range(hist):
    a1, b1 = pa.step(a1, act), pb.step(b1, act)
    if not float(pa.min_dist(a1.x)) > SEP_MARGIN:
      break
    ua, ub = unit_dev(a1), unit_dev(b1)
    info['steps'] = t + 2
    info['unit_dev'] = max(info['unit_dev'], ua, ub)
    if not (np.isfinite(ua) and np.isfinite(ub)):
      break
    if max(ua, ub) > TOL_UNIT:
      key = KEY_D3 if (name == 'positional' and ub > TOL_UNIT and ua <= TOL_UNIT) else f'separated:{name}:unit'
      return dict(base, key=key, what=f'{name}: | ||x.rot|| - 1 | = {ua:.3e} (collidable, separated) / {ub:.3e} (collisions disabled) '
                  f'after {t + 2} steps'), info
  return None, info


BEYOND_PI_XML = '''<mujoco><compiler angle="radian" autolimits="false"/><option timestep="0.002" gravity="0 0 0"/>
<worldbody><body name="b" pos="0 0 1"><joint name="j" type="hinge" axis="0 1 0" pos="0 0 0" limited="true" range="-1 4"/>
<geom type="capsule" size="0.05 0.2" pos="0.1 0 0" contype="0" conaffinity="0"/></body></worldbody></mujoco>'''


def hinge_beyond_pi(sysm, q):
  """a limited hinge dof whose coordinate lies beyond +-pi (spring/positional measure joint angles in (-pi, pi])"""
  q = np.asarray(q, dtype=float)
  lim = sysm.dof.limit
  if lim is None:
    return False
  lo, hi = np.asarray(lim[0]), np.asarray(lim[1])
  ang = np.asarray(sysm.dof.motion.ang)
  qpos = dpos = 0
  for t in sysm.link_types:
    wq, wd = (7, 6) if t == 'f' else (int(t), int(t))
    if t != 'f':
      for j in range(wd):
        if np.any(ang[dpos + j] != 0) and (np.isfinite(lo[dpos + j]) or np.isfinite(hi[dpos + j])) and abs(q[qpos + j]) > np.pi:
          return True
    qpos += wq; dpos += wd
  return False


def unwrap_hinges(sysm, q0, q1):
  """q1 with every hinge coordinate shifted by the multiple of 2 pi that brings it closest to q0"""
  q0 = np.asarray(q0, dtype=float); q1 = np.array(np.asarray(q1, dtype=float))
  ang = np.asarray(sysm.dof.motion.ang)
  qpos = dpos = 0
  for t in sysm.link_types:
    wq, wd = (7, 6) if t == 'f' else (int(t), int(t))
    if t != 'f':
      for j in range(wd):
        if np.any(ang[dpos + j] != 0):
          d = q1[qpos + j] - q0[qpos + j]
          q1[qpos + j] = q0[qpos + j] + d - 2 * np.pi * np.round(d / (2 * np.pi))
    qpos += wq; dpos += wd
  return q1


def reproduce_known(ctx, entry):
  """re-run the stored case of a listed finding of the limit clause on the current tree"""
  if entry.get('clause') != 'limit' or 'xml' not in entry:
    return True
  worker_setup(ctx.repo)
  f, _ = check_limit_case(entry['xml'], np.array(entry['q']), np.array(entry['qd']), np.array(entry['act']), entry['pipeline'])
  return f is not None and f['key'] == entry['key']


def check_limit_case(xml, q, qd, act, name):
  """clause (b) on one input: model with range limits, q strictly inside every range before and after the step,
  vs the same model with every range/limited removed: same state after one step (1e-9)"""
  import jax.numpy as jp
  from brax.io import mjcf
  sa, sb = mjcf.loads(xml), mjcf.loads(no_limits(xml))
  if sa.dof.limit is None:
    return None, dict(skipped='no-limit')
  pa, pb = Pipe(sa, name), Pipe(sb, name)
  q, qd, act = jp.asarray(q), jp.asarray(qd), jp.asarray(act)
  base = dict(clause='limit', pipeline=name, xml=xml, q=A(q).tolist(), qd=A(qd).tolist(), act=A(act).tolist())
  if not inside_ranges(sa, q, 1e-3):
    return None, dict(skipped='outside-before')
  a1, b1 = pa.step(pa.init(q, qd), act), pb.step(pb.init(q, qd), act)
  # spring/positional report hinge coordinates in (-pi, pi]: compare the coordinate continued from q (same angle mod 2 pi)
  if not (inside_ranges(sa, unwrap_hinges(sa, q, a1.q), 1e-3) and inside_ranges(sa, unwrap_hinges(sa, q, b1.q), 1e-3)):
    return None, dict(skipped='outside-after')
  fld, ratio, dabs = state_diff(a1, b1)
  ua, ub = unit_dev(a1), unit_dev(b1)
  info = dict(twin_diff=dabs, unit_dev=max(ua, ub))
  if max(ua, ub) > TOL_UNIT:
    no_pairs = not np.isfinite(float(pa.min_dist(a1.x)))
    key = KEY_D3 if (name == 'positional' and no_pairs) else f'limit:{name}:unit'
    return dict(base, key=key, what=f'{name} step returns | ||rot|| - 1 | = {max(ua, ub):.3e}'
                + (' on a model without contact pairs' if no_pairs else '')), info
  if ratio > TOL:
    key = KEY_D7 if (name == 'positional' and lefthanded_3hinge(sa)) else f'limit:{name}:state'
    if name in ('spring', 'positional') and hinge_beyond_pi(sa, q):
      key = f'limits-inert:{name}:hinge-range-beyond-pi'
    return dict(base, key=key, what=f'{name}: one step with unreached range limits (q strictly inside every range before and after) '
                f'differs from the step of the limit-free model: {fld} by {dabs:.3e}', types=sa.link_types), info
  return None, info


def three_hinge_xml(rng):
  """two world-attached bodies, each with three orthogonal hinges at the body origin and ranges on every joint:
  one right-handed and one left-handed axis frame (clause (b) on 3-dof links of either handedness)"""
  out = ['<mujoco model="h3">', '<compiler angle="radian" autolimits="false"/>',
         '<option timestep="0.002" gravity="0 0 -9.81"/>', '<worldbody>']
  for b, hand in enumerate((1.0, -1.0)):
    fr = modelgen.rand_frame(rng)
    fr[2] = np.cross(fr[0], fr[1]) * hand
    out.append(f'  <body name="b{b}" pos="{_f([1.5 * b, 0, 1.0])}" quat="{_f(modelgen.rand_unit_quat(rng))}">')
    for d in range(3):
      # asymmetric ranges: a sign error of a measured angle cannot hide inside a symmetric range
      lo, hi = -float(rng.uniform(0.1, 0.3)), float(rng.uniform(0.6, 1.2))
      if rng.random() < 0.5:
        lo, hi = -hi, -lo
      out.append(f'    <joint name="j{b}_{d}" type="hinge" axis="{_f(fr[d])}" pos="0 0 0" limited="true" range="{_f([lo, hi])}"/>')
    out.append(f'    <geom name="g{b}" type="capsule" size="0.05 0.2" pos="{_f(rng.uniform(-0.1, 0.1, size=3))}" '
               f'density="{float(rng.uniform(300, 2000))!r}" contype="0" conaffinity="0"/>')
    out.append('  </body>')
  out += ['</worldbody>', '</mujoco>']
  return '\n'.join(out)


def check_push_case(shape, size, density, quat, depth, gravity, name, vz0=0.0):
  """clause (c) on one input: a body at rest `depth` inside the ground, one step, against the same body with
  collisions disabled: the contact only pushes — the difference of the centre-of-mass velocity and position along
  the ground normal (+z) is >= 0"""
  import jax.numpy as jp
  from brax.io import mjcf
  z = lowest_point(shape, size, quat_to_mat(quat)) - depth
  xml = body_scene(shape, size, density, z, quat=quat, gravity=gravity)
  base = dict(clause='push', pipeline=name, shape=shape, size=list(map(float, size)), density=float(density),
              quat=list(map(float, quat)), depth=float(depth), gravity=float(gravity), vz0=float(vz0), xml=xml)
  sa, sb = mjcf.loads(xml), mjcf.loads(no_collide(xml))
  pa, pb = Pipe(sa, name), Pipe(sb, name)
  # vz0 = 0: at rest (the property's quantifier); vz0 > 0: already moving out of the ground (the contact must not
  # hold it back: "never pulled in")
  q, qd, act = sa.init_q, jp.zeros(sa.qd_size()).at[2].set(vz0), jp.zeros(sa.act_size())
  a0 = pa.init(q, qd)
  d0 = float(pa.min_dist(a0.x))
  a1, b1 = pa.step(a0, act), pb.step(pb.init(q, qd), act)
  com = lambda st: A(st.x_i.pos)[0] if hasattr(st, 'x_i') else A(st.x.pos)[0]
  # the geom is centred on the body: x.pos is the centre of mass in all three pipelines
  dz = float(A(a1.x.pos)[0, 2] - A(b1.x.pos)[0, 2])
  dv = float(A(a1.xd.vel)[0, 2] - A(b1.xd.vel)[0, 2])
  info = dict(dz=dz, dv=dv, dist=d0, pushed=bool(dz > 1e-12 or dv > 1e-12))
  if not (np.isfinite(dz) and np.isfinite(dv)):
    return dict(base, key=f'push:{name}:nonfinite', what=f'{name}: non-finite state after one step of a body {depth * 1e3:.1f} mm inside the ground'), info
  if abs(d0 + depth) > 1e-6 and shape != 'box':
    raise RuntimeError(f'scene construction: contact distance {d0} for requested depth {depth}')
  # positional: the claim is at the position level (dlambda > 0); its velocity pass (XPBD 3.6) removes the push-out
  # velocity at the contact point and may leave the centre of mass with a negative normal velocity (recorded as
  # `positional_velocity_after_push` in the statistics, see notes/C06.md)
  vel_claim = name != 'positional'
  if (vel_claim and dv < -TOL) or dz < -TOL:
    return dict(base, key=f'push:{name}:pulled', what=f'{name}: a {shape} {"at rest" if vz0 == 0 else f"moving out at {vz0:.2f} m/s"} {depth * 1e3:.1f} mm inside the ground is PULLED IN by the '
                f'contact: compared with the collision-free step its normal velocity changes by {dv:.3e} m/s and its height by {dz:.3e} m'), info
  return None, info


def drop_history(xml, name, nsteps):
  import jax
  import jax.numpy as jp
  from brax.io import mjcf
  P = pipeline(name)
  s = mjcf.loads(xml)

  def roll(q, qd):
    st = P.init(s, q, qd)

    def f(st, _):
      st = P.step(s, st, jp.zeros(s.act_size()))
      return st, (st.x.pos[0, 2], st.xd.vel[0, 2], jp.abs(jp.linalg.norm(st.x.rot[0]) - 1))
    _, out = jax.lax.scan(f, st, None, length=nsteps)
    return out
  z, vz, u = jax.jit(roll)(s.init_q, jp.zeros(s.qd_size()))
  return A(z), A(vz), A(u)


def rest_height(shape, size):
  return size[0] if shape in ('sphere', 'capsule') else size[2]


LYING = (0.7071067811865476, 0.0, 0.7071067811865476, 0.0)


def check_rest_case(shape, size, density, h, name, seconds):
  """clause (d) on one input: drop history; never sinks more than SINK_MAX[pipeline]; over the last 10% of a full
  3 s history the centre stays within REST_TOL[pipeline] of the analytic height"""
  rest = rest_height(shape, size)
  quat = LYING if shape == 'capsule' else (1.0, 0.0, 0.0, 0.0)
  xml = body_scene(shape, size, density, rest + h, quat=quat)
  n = int(round(seconds / 0.002))
  base = dict(clause='rest', pipeline=name, shape=shape, size=list(map(float, size)), density=float(density), h=float(h),
              seconds=float(seconds), xml=xml)
  z, vz, u = drop_history(xml, name, n)
  if not (np.isfinite(z).all() and np.isfinite(vz).all()):
    return dict(base, key=f'rest:{name}:nonfinite', what=f'{name}: non-finite height in a drop history'), {}
  sink = float(rest - z.min())
  info = dict(sink=sink, unit_dev=float(u.max()))
  if sink > SINK_MAX[name]:
    return dict(base, key=f'rest:{name}:sink', what=f'{name}: a dropped {shape} sinks {sink * 100:.2f} cm into the ground '
                f'(bound {SINK_MAX[name] * 100:.0f} cm) at step {int(np.argmin(z)) + 1}'), info
  if float(u.max()) > TOL_UNIT:
    return dict(base, key=f'rest:{name}:unit', what=f'{name}: | ||rot|| - 1 | = {u.max():.3e} during a drop history'), info
  if seconds >= 3.0:
    tail = z[-n // 10:]
    err = float(np.abs(tail - rest).max())
    info['rest_err'] = err
    if err > REST_TOL[name]:
      return dict(base, key=f'rest:{name}:height', what=f'{name}: a dropped {shape} does not come to rest at its analytic height {rest:.4f}: '
                  f'deviation {err:.3e} over the last {len(tail)} steps of a {seconds} s history (bound {REST_TOL[name]})'), info
  return None, info


def check_rebound_case(r, e, h, density, name):
  """clause (e) on one input: sphere dropped from height h (gap), 1 ms steps; rebound speed / impact speed - e within
  REBOUND[pipeline]; for the spring pipeline additionally the exact rebound formula of `spring_rebound_impulse`"""
  xml = body_scene('sphere', [r], density, r + h, e=e, dt=0.001)
  n = int((np.sqrt(2 * h / 9.81) * 1.3 + 0.03) / 0.001)
  base = dict(clause='rebound', pipeline=name, r=float(r), e=float(e), h=float(h), density=float(density), xml=xml)
  z, vz, _ = drop_history(xml, name, n)
  if not np.isfinite(vz).all():
    return dict(base, key=f'rebound:{name}:nonfinite', what=f'{name}: non-finite velocity in a rebound history'), {}
  i = int(np.argmin(vz))
  vin = -float(vz[i])
  j = i + int(np.argmax(vz[i:i + 40]))
  vout = float(vz[j])
  ratio = vout / vin
  lo, hi = REBOUND[name]
  info = dict(vin=vin, vout=vout, ratio_minus_e=ratio - e)
  if name == 'spring' and j == i + 1:
    # the contact step: v_n = vz[i] + g dt (gravity first), dist = z[i] - r; predicted v' = v_n - ((1+e) v_n + erp/dt dist)
    vn = float(vz[i]) - 9.81 * 0.001
    dist = float(z[i]) - r
    pred = vn - ((1 + e) * vn + 0.1 / 0.001 * dist)
    info['formula_err'] = abs(pred - vout)
    if abs(pred - vout) > 1e-9 * (1 + abs(vout)):
      return dict(base, key='rebound:spring:formula', what=f'spring: rebound velocity {vout:.9f} differs from the proved formula '
                  f'-e v_n - (erp/dt) dist = {pred:.9f}'), info
  if not (lo <= ratio - e <= hi):
    return dict(base, key=f'rebound:{name}:ratio', what=f'{name}: sphere r={r:.3f} e={e} dropped from {h:.3f} m hits at {vin:.4f} m/s and rebounds '
                f'at {vout:.4f} m/s: ratio {ratio:.4f} - e = {ratio - e:+.4f} outside [{lo}, {hi}]'), info
  return None, info


# ---- clause runners (top-level, picklable: they run in worker processes)


def _guard(fn, base_key, base):
  """an exception raised by the implementation on an input inside the quantifier is a spec failure"""
  try:
    return fn()
  except RuntimeError:
    raise
  except Exception as e:  # noqa: BLE001
    import traceback
    tb = traceback.format_exc()
    if '/harness/' in tb.split('\n')[-4] if len(tb.split('\n')) > 4 else False:
      raise
    return dict(base, key=f'exception:{base_key}:{type(e).__name__}',
                what=f'{base_key}: the implementation raises {type(e).__name__}: {str(e)[:200]}'), {}


def run_separated(repo, seed, n_pairs, n_states, hist, budget_s):
  worker_setup(repo)
  from brax.io import mjcf
  rng = np.random.default_rng(seed)
  t0 = time.time()
  fails, st = [], dict(cases=0, skipped=0, steps=0, min_dist=[], unit_dev=0.0, twin_diff=0.0, models=[])
  for mi in range(n_pairs):
    if time.time() - t0 > budget_s:
      break
    near = mi in (0, 1)
    if mi == 1:
      # a body hovering 0.2-0.9 mm above the ground, no collision margin: the narrow band just above contact
      shape, size, dens = rand_body(rng)
      quat = modelgen.rand_unit_quat(rng)
      gap = float(rng.uniform(0.0002, 0.0009))
      xml = body_scene(shape, size, dens, lowest_point(shape, size, quat_to_mat(quat)) + gap, quat=quat)
      types = f'hovering {shape} gap {gap * 1e3:.2f}mm'
    elif near:
      # a body hovering 2-30 mm above the ground: collision geometry that ALMOST touches
      shape, size, dens = rand_body(rng)
      quat = modelgen.rand_unit_quat(rng)
      gap = float(rng.uniform(0.002, 0.03))
      # a legal collision margin larger than the gap: the geoms are inside each other's margin but do not touch
      xml = body_scene(shape, size, dens, lowest_point(shape, size, quat_to_mat(quat)) + gap, quat=quat,
                       margin=float(rng.uniform(0.04, 0.08)))
      types = f'hovering {shape} gap {gap * 1e3:.1f}mm with margin'
    else:
      xml, meta = modelgen.gen_model(rng, collide=True, ground=True, limits=0.3, actuators=(0, 2), n_links=(1, 4))
      types = meta['link_types']
    sysm = mjcf.loads(xml)
    st['models'].append(types)
    for si in range(n_states):
      q, qd = modelgen.rand_state(rng, sysm, q_range=1.0)
      if near:
        q = A(sysm.init_q).copy()
        qd[2] = abs(qd[2]) * 0.2      # not towards the ground
        qd[3:] *= 0.2
      act = rng.uniform(-1, 1, size=sysm.act_size())
      for name in PIPELINES:
        base = dict(clause='separated', pipeline=name, xml=xml, q=q.tolist(), qd=qd.tolist(), act=act.tolist(), hist=hist)
        f, info = _guard(lambda: check_separated_case(xml, q, qd, act, name, hist if si == 0 else 0), f'separated:{name}', base)
        if info.get('skipped'):
          st['skipped'] += 1
          continue
        st['cases'] += 1
        st['steps'] += info.get('steps', 0)
        st['min_dist'].append(round(info.get('min_dist', 0.0), 4))
        st['unit_dev'] = max(st['unit_dev'], info.get('unit_dev', 0.0))
        st['twin_diff'] = max(st['twin_diff'], info.get('twin_diff', 0.0))
        if f:
          fails.append(f)
  return dict(clause='separated', fails=fails, stats=st)


def run_limit(repo, seed, n_pairs, n_states, budget_s):
  worker_setup(repo)
  from brax.io import mjcf
  rng = np.random.default_rng(seed)
  t0 = time.time()
  fails, st = [], dict(cases=0, skipped=0, twin_diff=0.0, models=[], three_hinge_pairs=0)
  for mi in range(n_pairs):
    if time.time() - t0 > budget_s:
      break
    orth = True
    if mi == 0:
      xml, types = three_hinge_xml(rng), '33(right+left-handed)'
      st['three_hinge_pairs'] += 1
    else:
      orth = mi % 3 != 0
      o = dict(limits=0.8, actuators=(0, 2), n_links=(1, 4), orthogonal=orth, limit_excl_zero=0.4)
      if mi == 1:
        # single limited slides/hinges whose range excludes zero (the 1-dof limit code of every pipeline)
        o.update(stack=(1, 1), limits=1.0, limit_excl_zero=1.0, kinds='slide', n_links=(2, 3))
      if mi == 2:
        o.update(stack=(1, 1), limits=1.0, limit_excl_zero=1.0, kinds='hinge', n_links=(2, 3))
      xml, meta = modelgen.gen_model(rng, **o)
      types = meta['link_types'] + (':orth' if orth else ':free-axes(generalized only)')
    # the spring and positional pipelines measure the coordinates of a multi-dof link by projecting on its axes
    # (`dof.motion.vel @ j.pos`, Euler angles of `axis_angle_ang`): for NON-orthogonal stacked axes these are not q
    # (two slides with a0.a1 = 0.69: q0 = -0.78 inside [-1.43, 0.50] is measured as -1.49), so "q inside the range"
    # says nothing about the coordinate the limit acts on.  Such models are compared in the generalized pipeline
    # only (which reads q itself); recorded as an observation in notes/C06.md.
    multi = any(t in '23' for t in mjcf.loads(xml).link_types)
    pipes = PIPELINES if (orth or not multi) else ('generalized',)
    sysm = mjcf.loads(xml)
    if sysm.dof.limit is None:
      continue
    st['models'].append(types)
    for si in range(n_states):
      q, qd = state_inside(rng, sysm, qd_range=0.3)
      act = rng.uniform(-1, 1, size=sysm.act_size())
      for name in pipes:
        base = dict(clause='limit', pipeline=name, xml=xml, q=q.tolist(), qd=qd.tolist(), act=act.tolist())
        f, info = _guard(lambda: check_limit_case(xml, q, qd, act, name), f'limit:{name}', base)
        if info.get('skipped'):
          st['skipped'] += 1
          continue
        st['cases'] += 1
        st['twin_diff'] = max(st['twin_diff'], info.get('twin_diff', 0.0))
        if f:
          fails.append(f)
  return dict(clause='limit', fails=fails, stats=st)


def run_push(repo, seed, n_bodies, budget_s):
  worker_setup(repo)
  rng = np.random.default_rng(seed)
  t0 = time.time()
  fails, st = [], dict(cases=0, pushed=0, shapes={}, min_dz=np.inf, min_dv={}, positional_velocity_after_push=0.0)
  shapes = ['sphere', 'box', 'capsule']
  rng.shuffle(shapes)
  for bi in range(n_bodies):
    if time.time() - t0 > budget_s:
      break
    shape, size, dens = rand_body(rng)
    if bi < 3:
      while shape != shapes[bi]:
        shape, size, dens = rand_body(rng)
    quat = modelgen.rand_unit_quat(rng)
    depth = float(rng.uniform(0.002, 0.02))
    st['shapes'][shape] = st['shapes'].get(shape, 0) + 1
    for g, vz0 in ((-9.81, 0.0), (0.0, 0.0), (-9.81, float(rng.uniform(0.2, 1.0)))):
      for name in PIPELINES:
        base = dict(clause='push', pipeline=name, shape=shape, size=size, density=dens, quat=list(map(float, quat)), depth=depth,
                    gravity=g, vz0=vz0)
        f, info = _guard(lambda: check_push_case(shape, size, dens, quat, depth, g, name, vz0), f'push:{name}', base)
        st['cases'] += 1
        st['pushed'] += int(info.get('pushed', False))
        st['min_dz'] = min(st['min_dz'], info.get('dz', np.inf))
        st['min_dv'][name] = min(st['min_dv'].get(name, np.inf), info.get('dv', np.inf))
        if name == 'positional':
          st['positional_velocity_after_push'] = min(st['positional_velocity_after_push'], info.get('dv', 0.0))
        if f:
          fails.append(f)
  return dict(clause='push', fails=fails, stats=st)


def run_rest(repo, seed, n_bodies, seconds, budget_s):
  worker_setup(repo)
  rng = np.random.default_rng(seed)
  t0 = time.time()
  fails, st = [], dict(cases=0, seconds=seconds, max_sink={}, max_rest_err={}, shapes={})
  for bi in range(n_bodies):
    if time.time() - t0 > budget_s:
      break
    shape, size, dens = rand_body(rng)
    h = float(rng.uniform(0.0, 0.5))
    st['shapes'][shape] = st['shapes'].get(shape, 0) + 1
    for name in PIPELINES:
      base = dict(clause='rest', pipeline=name, shape=shape, size=size, density=dens, h=h, seconds=seconds)
      f, info = _guard(lambda: check_rest_case(shape, size, dens, h, name, seconds), f'rest:{name}', base)
      st['cases'] += 1
      st['max_sink'][name] = max(st['max_sink'].get(name, 0.0), info.get('sink', 0.0))
      st['max_rest_err'][name] = max(st['max_rest_err'].get(name, 0.0), info.get('rest_err', 0.0))
      if f:
        fails.append(f)
  return dict(clause='rest', fails=fails, stats=st)


def run_rebound(repo, seed, n_spheres, budget_s):
  worker_setup(repo)
  rng = np.random.default_rng(seed)
  t0 = time.time()
  fails, st = [], dict(cases=0, ratio_minus_e={}, spring_formula_err=0.0, spring_formula_checked=0)
  for k in range(n_spheres):
    if time.time() - t0 > budget_s:
      break
    r = float(rng.uniform(0.05, 0.3))
    e = float(np.round(rng.uniform(0, 0.9), 3)) if k else float(rng.choice([0.0, 0.9]))
    h = float(rng.uniform(0.2, 1.0))
    dens = float(rng.uniform(200, 3000))
    for name in ('spring', 'positional'):
      base = dict(clause='rebound', pipeline=name, r=r, e=e, h=h, density=dens)
      f, info = _guard(lambda: check_rebound_case(r, e, h, dens, name), f'rebound:{name}', base)
      st['cases'] += 1
      if 'ratio_minus_e' in info:
        lo, hi = st['ratio_minus_e'].get(name, (np.inf, -np.inf))
        st['ratio_minus_e'][name] = (min(lo, info['ratio_minus_e']), max(hi, info['ratio_minus_e']))
      if 'formula_err' in info:
        st['spring_formula_checked'] += 1
        st['spring_formula_err'] = max(st['spring_formula_err'], info['formula_err'])
      if f:
        fails.append(f)
  return dict(clause='rebound', fails=fails, stats=st)


def spec_jobs(ctx, seed_offset=0, scale=1.0):
  """(function, args) of the five clauses, sized for the tier"""
  q = ctx.tier != 'thorough'
  sd = ctx.seed + seed_offset
  b = ctx.budget(100, 900) * scale
  n = lambda quick, thorough: max(1, int(round((quick if q else thorough) * scale)))
  return [
      (run_separated, (ctx.repo, sd + 11, n(3, 14), 2, 12 if q else 40, b)),
      (run_limit, (ctx.repo, sd + 12, n(3, 16), 2, b)),
      (run_push, (ctx.repo, sd + 13, n(2, 12), b)),
      (run_rest, (ctx.repo, sd + 14, n(1, 10), 3.0, b)),
      (run_rebound, (ctx.repo, sd + 15, n(2, 12), b)),
  ]


def run_spec(ctx, seed_offset=0, scale=1.0, pool=None):
  """submit the five clauses to worker processes; returns the futures (call `.result()`)"""
  import concurrent.futures as cf
  import multiprocessing as mp
  own = pool is None
  if own:
    pool = cf.ProcessPoolExecutor(max_workers=5, mp_context=mp.get_context('spawn'))
  futs = [pool.submit(fn, *args) for fn, args in spec_jobs(ctx, seed_offset, scale)]
  return pool, futs


def collect_spec(pool, futs):
  res = [f.result() for f in futs]
  pool.shutdown()
  fails = [f for r in res for f in r['fails']]
  stats = {r['clause']: r['stats'] for r in res}
  return fails, stats


def dedupe(fails):
  seen, out = set(), []
  for f in fails:
    if f['key'] not in seen:
      seen.add(f['key'])
      out.append(f)
  return out


def correspond(ctx):
  _setup()
  rng = np.random.default_rng(ctx.seed)
  pool, futs = run_spec(ctx)          # the property's own observations run in worker processes meanwhile
  cases = Cases()
  stats = dict(jac_limit_models=[], limit_rows=0, limit_rows_active=0, gen_contact_models=[], gen_contact_rows=0,
               gen_contact_rows_active=0, solver_min_x=np.inf, force_cases=0, sp_models=[], leaf_cases=0,
               leaf_twin_inside=0, unit_dev_max=0.0, synthetic_rows=0, synthetic_rows_penetrating=0,
               separated_function_cases=0)
  spec_failures = []
  try:
    corr_jac_limit(rng, cases, ctx.budget(3, 20), stats)
    corr_generalized_contact(rng, cases, ctx.budget(3, 14), stats)
    corr_spring_positional(rng, cases, ctx.budget(2, 12), stats, spec_failures)
    dis = cases.run()
    import corr_C06_solver          # deepening: jaxopt.ProjectedGradient as configured by constraint.force vs the Lean model pgSolve
    n_solver, dis_solver = corr_C06_solver.solver_cases(ctx)
    dis += dis_solver
    stats['solver_model'] = dict(cases=n_solver, **corr_C06_solver.STATS)
  except BaseException:
    pool.shutdown(cancel_futures=True)
    raise
  fails, spec_stats = collect_spec(pool, futs)
  spec_failures = dedupe(spec_failures + fails)
  if not stats['solver_min_x'] >= -1e-12:
    dis.append(dict(what=f'trusted assumption violated: jaxopt.ProjectedGradient returned x with min {stats["solver_min_x"]} < 0'))
  stats['solver_min_x'] = None if not np.isfinite(stats['solver_min_x']) else stats['solver_min_x']
  n_spec = sum(v.get('cases', 0) for v in spec_stats.values())
  distinct = len(cases.lines) + n_spec
  return dict(
      evaluations=len(cases.lines) + n_spec, distinct_nontrivial=distinct,
      rule='correspondence cases: one per (function, model, state) — jac_limit exact-rational + float (3 states per model: inside / on a bound / '
           'outside), jac_contact and force on generalized states with real contacts, spring leaf functions per non-free link with and '
           'without dof.limit, collision resolvers on synthetic contact rows (penetrating, touching, separated) and with contact None, '
           'joint update, integrators; spec cases: one per (clause, model pair or body, state, pipeline) actually compared (skipped touching / '
           'out-of-range states not counted); distinct_nontrivial = all of them (every case has its own random model or state)',
      samples=[dict(kinds=cases.kinds), dict(spec={k: {a: b for a, b in v.items() if a in ('cases', 'skipped', 'models', 'shapes')}
                                                 for k, v in spec_stats.items()})],
      disagreements=dis, spec_failures=spec_failures,
      trusted_base=['correspondence harness corr_C06.py (sampled inputs; float64 1e-9; exact-rational for jac_limit/_imp_aref)',
                    'harness/jaxpr_eval.py + three private extensions (symbolic bool->int, element-wise natural pow) evaluating the jaxpr of '
                    'jac_limit over Fraction; self-checked against the jitted function on every case',
                    'jaxopt.ProjectedGradient as configured by constraint.force (least-squares objective, FISTA, backtracking line search, '
                    'tolerance stop): transcribed in Model/C06Solver.lean (pgSolve), proved to return x >= 0 for every input and tied to the '
                    'real solver on synthetic problems on every run (iteration counts equal, values 1e-9); IEEE round-off not modelled',
                    'mjx.collision / contact.get: contacts are DATA for the models (C10 ties contact.get)',
                    'scan.tree (reverse) of point_jacobian and scan.link_types: Layer B stage 2 proves the grouped code equal to the recursion/slicing for the additive carry functions; the reverse scan of point_jacobian is tied by the C01/C06 correspondences',
                    'whole-step models Spring.step / Positional.step are tied by C04\'s correspondence; C06 ties every function its theorems mention '
                    'and observes whole steps of the real pipelines directly (twin models)',
                    'generalized dynamics (mass matrix, qf_smooth) is C02\'s; here mass_mx_inv and qf_smooth are inputs of `force`'],
      assumptions=['IEEE round-off not modelled; theorems over ordered fields / the reals',
                   'theorem hypotheses on joint coordinates are stated on the angle / offset the code itself measures (psi, theta, phi, '
                   'signed_angle, j.pos . axis); that these equal q is C08\'s round trip (and was false for the middle hinge of a left-handed '
                   '3-hinge stack before fix f5f04c1: observed by clause (b), not visible to the theorem)',
                   'resting height, sink depth and rebound margins are float outcomes of a simulation: observed (corr/out), bounds measured per '
                   f'pipeline: sink <= {SINK_MAX}, rest error <= {REST_TOL}, rebound ratio - e in {REBOUND}',
                   'positional push-only is claimed at the position level (dlambda > 0, first body +n, second -n); its velocity pass may reduce the '
                   'normal velocity (XPBD restitution removes the push-out velocity): recorded in extra.spec.push.positional_velocity_after_push'],
      explanation='masks decide: theorems show every limit/contact term is multiplied by (pos < 0) / (dist < 0) / apply_n / coll_mask, normal '
                  'impulses are >= 0, normalisation gives unit quaternions; the five clauses of the property are evaluated on the three real '
                  'pipelines on every run',
      extra=dict(correspondence=stats, case_kinds=cases.kinds, spec=spec_stats,
                 tolerances=dict(float=TOL, unit=TOL_UNIT, sink_max=SINK_MAX, rest_tol=REST_TOL, rebound=REBOUND)))


def search(ctx, broken, corr):
  """the Spec (five clauses) against the real pipelines on fresh seeds"""
  pool, futs = run_spec(ctx, seed_offset=1000, scale=0.6 if ctx.tier != 'thorough' else 1.0)
  fails, _ = collect_spec(pool, futs)
  return dedupe(fails)


def replay(ctx, rp):
  if rp.get('kind') != 'failing-input':
    return True, f'replay names broken obligations only: {rp.get("broken")}'
  worker_setup(ctx.repo)
  cl, name = rp.get('clause'), rp.get('pipeline')
  try:
    if cl == 'separated':
      f, info = check_separated_case(rp['xml'], np.array(rp['q']), np.array(rp['qd']), np.array(rp['act']), name, int(rp.get('hist', 0)))
    elif cl == 'limit' and 'link' not in rp:
      f, info = check_limit_case(rp['xml'], np.array(rp['q']), np.array(rp['qd']), np.array(rp['act']), name)
    elif cl == 'push':
      f, info = check_push_case(rp['shape'], rp['size'], rp['density'], np.array(rp['quat']), rp['depth'], rp['gravity'], name,
                                rp.get('vz0', 0.0))
    elif cl == 'rest':
      f, info = check_rest_case(rp['shape'], rp['size'], rp['density'], rp['h'], name, rp['seconds'])
    elif cl == 'rebound':
      f, info = check_rebound_case(rp['r'], rp['e'], rp['h'], rp['density'], name)
    else:
      return True, f'function-level spec failure {rp.get("key")}: re-run `./bin/check C06 quick` with VERIF_SEED={rp.get("seed")}'
  except Exception as e:  # noqa: BLE001
    return False, f'{cl}/{name}: the implementation raises {type(e).__name__}: {e}'
  if f:
    return False, f['what']
  return True, f'{cl}/{name}: holds on this input ({info})'
